import Proofs.Lemmas.Sim3Bounds
/-!
# sim3: block-wise error of `matrix(Exp ξ)` against `exp (ξ^)` for every input (C01 pass 3)

`sim3Exp_matrix_all` bounds every entry by one number.  Here the blocks are separated, as the property states them:
rotation/scale block relative to `e^σ`, translation column homogeneous in `τ`, bottom row exact.
-/
open Matrix NormedSpace
namespace PP
open Vec3 Quat Mat3 WsInt
noncomputable section

theorem blk4_apply_cc (M : Matrix (Fin 3) (Fin 3) ℝ) (v : Fin 3 → ℝ) (d : ℝ) (a b : Fin 3) :
    blk4 M v d a.castSucc b.castSucc = M a b := by
  fin_cases a <;> fin_cases b <;> simp [blk4]
theorem blk4_apply_cl (M : Matrix (Fin 3) (Fin 3) ℝ) (v : Fin 3 → ℝ) (d : ℝ) (a : Fin 3) :
    blk4 M v d a.castSucc (Fin.last 3) = v a := by
  fin_cases a <;> simp [blk4, Fin.last]
theorem blk4_apply_last (M : Matrix (Fin 3) (Fin 3) ℝ) (v : Fin 3 → ℝ) (d : ℝ) (j : Fin 4) :
    blk4 M v d (Fin.last 3) j = if j = Fin.last 3 then d else 0 := by
  fin_cases j <;> simp [blk4, Fin.last]

/-- the three blocks of the difference -/
def Sim3BlocksWithin (eps : ℝ) (x : sim3 ℝ) (BR Bt : ℝ) : Prop :=
  (∀ a b : Fin 3, |(Sim3matrix (sim3Exp eps x)).toMatrix4 a.castSucc b.castSucc
      - NormedSpace.exp (sim3Gen x) a.castSucc b.castSucc| ≤ BR) ∧
  (∀ a : Fin 3, |(Sim3matrix (sim3Exp eps x)).toMatrix4 a.castSucc (Fin.last 3)
      - NormedSpace.exp (sim3Gen x) a.castSucc (Fin.last 3)| ≤ Bt) ∧
  (∀ j : Fin 4, (Sim3matrix (sim3Exp eps x)).toMatrix4 (Fin.last 3) j = NormedSpace.exp (sim3Gen x) (Fin.last 3) j)

theorem sim3_blocks_bound (eps : ℝ) (x : sim3 ℝ) (Rex Wex : Matrix (Fin 3) (Fin 3) ℝ) (B1 B2 : ℝ)
    (hexp : NormedSpace.exp (sim3Gen x) = blk4 (Real.exp x.sigma • Rex) (Wex.mulVec x.tau.toFun) 1)
    (hR : ∀ i j, |(SO3matrix (so3Exp eps x.phi)).toMatrix i j - Rex i j| ≤ B1)
    (hW : ∀ i j, |(rxso3Ws eps ⟨x.phi, x.sigma⟩).toMatrix i j - Wex i j| ≤ B2) :
    Sim3BlocksWithin eps x (Real.exp x.sigma * B1) (B2 * (|x.tau.x| + |x.tau.y| + |x.tau.z|)) := by
  have he := Real.exp_pos x.sigma
  unfold Sim3BlocksWithin
  rw [hexp, Sim3matrix_blk]
  refine ⟨?_, ?_, ?_⟩
  · intro a b
    rw [blk4_apply_cc, blk4_apply_cc]
    show |(Real.exp x.sigma • (SO3matrix (so3Exp eps x.phi)).toMatrix) a b - (Real.exp x.sigma • Rex) a b| ≤ _
    rw [smul_entry_diff, abs_of_pos he]
    exact mul_le_mul_of_nonneg_left (hR a b) he.le
  · intro a
    rw [blk4_apply_cl, blk4_apply_cl]
    show |((rxso3Ws eps ⟨x.phi, x.sigma⟩).mulVec x.tau).toFun a - _| ≤ _
    rw [← mulVec_toFun]
    refine le_trans (mulVec_entry_diff _ _ _ _ hW a) ?_
    have e : |x.tau.toFun 0| + |x.tau.toFun 1| + |x.tau.toFun 2| = |x.tau.x| + |x.tau.y| + |x.tau.z| := by
      simp [Vec3.toFun]
    rw [e]
  · intro j
    rw [blk4_apply_last, blk4_apply_last]

theorem sim3_blocks_exact (eps : ℝ) (x : sim3 ℝ) (h0 : 0 ≤ eps)
    (ht : eps < x.phi.norm ∨ x.phi.norm = 0) (hs : eps < |x.sigma| ∨ x.sigma = 0) : Sim3BlocksWithin eps x 0 0 := by
  unfold Sim3BlocksWithin
  rw [sim3Exp_matrix' eps x h0 ht hs]
  simp

theorem Sim3BlocksWithin.mono {eps : ℝ} {x : sim3 ℝ} {BR Bt BR' Bt' : ℝ} (h : Sim3BlocksWithin eps x BR Bt)
    (h1 : BR ≤ BR') (h2 : Bt ≤ Bt') : Sim3BlocksWithin eps x BR' Bt' :=
  ⟨fun a b => le_trans (h.1 a b) h1, fun a => le_trans (h.2.1 a) h2, h.2.2⟩

/-- regime 1 with `φ = 0`: ingredients -/
theorem regime1_zero_phi_W (eps : ℝ) (x : sim3 ℝ) (ht : x.phi.norm = 0) (hs : ¬ eps < |x.sigma|) (hs0 : x.sigma ≠ 0)
    (a b : Fin 3) :
    |(rxso3Ws eps ⟨x.phi, x.sigma⟩).toMatrix a b - (WsC x.sigma • (1 : Matrix (Fin 3) (Fin 3) ℝ)) a b|
      ≤ Real.exp |x.sigma| - 1 := by
  have hphi := norm_zero_imp x.phi ht
  rw [hphi, rxso3Ws_zero_phi, WsCoef_C_small _ _ _ hs]
  simp only [Matrix.smul_apply, smul_eq_mul, Matrix.one_apply]
  have hC := WsC_sub_one x.sigma hs0
  rw [abs_sub_comm] at hC
  split_ifs
  · rw [mul_one, mul_one]; exact hC
  · simp

/-- regime 1 with `σ = 0`: ingredients -/
theorem regime1_zero_sigma_W (eps : ℝ) (x : sim3 ℝ) (h0 : 0 ≤ eps) (h1 : eps ≤ 1) (ht : ¬ eps < x.phi.norm)
    (hpos : 0 < x.phi.norm) (hs : x.sigma = 0) (a b : Fin 3) :
    |(rxso3Ws eps ⟨x.phi, x.sigma⟩).toMatrix a b
      - ((1 : Matrix (Fin 3) (Fin 3) ℝ) + ((1 - Real.cos x.phi.norm) / (x.phi.norm * x.phi.norm)) • hatM x.phi
          + ((x.phi.norm - Real.sin x.phi.norm) / (x.phi.norm * x.phi.norm * x.phi.norm)) • (hatM x.phi ^ 2)) a b|
      ≤ x.phi.norm ^ 3 / 16 := by
  have hle : x.phi.norm ≤ 1 := le_trans (not_lt.mp ht) h1
  have hsa : ¬ eps < |x.sigma| := by rw [hs, abs_zero]; exact not_lt.mpr h0
  have hE : ((1 : Matrix (Fin 3) (Fin 3) ℝ) + ((1 - Real.cos x.phi.norm) / (x.phi.norm * x.phi.norm)) • hatM x.phi
        + ((x.phi.norm - Real.sin x.phi.norm) / (x.phi.norm * x.phi.norm * x.phi.norm)) • (hatM x.phi ^ 2))
      = (1 : ℝ) • (1 : Matrix (Fin 3) (Fin 3) ℝ) + ((1 - Real.cos x.phi.norm) / (x.phi.norm * x.phi.norm)) • hatM x.phi
        + ((x.phi.norm - Real.sin x.phi.norm) / (x.phi.norm * x.phi.norm * x.phi.norm)) • (hatM x.phi ^ 2) := by
    rw [one_smul]
  rw [hE, rxso3Ws_toMatrix]
  simp only [WsCoef_regime1 eps _ _ ht hsa]
  refine le_trans (poly_entry_diff 1 (1 / 2) (1 / 6) _ _ x.phi a b) ?_
  set t := x.phi.norm
  have hc2 := cosc_bound t hpos hle
  have hs2 := sinc3_bound t hpos hle
  rw [abs_sub_comm] at hc2 hs2
  have h3 : 0 ≤ t ^ 3 := by positivity
  have h4 : t ^ 4 ≤ t ^ 3 := by nlinarith
  calc _ ≤ t ^ 2 * (5 / 96) * t + t ^ 2 / 100 * t ^ 2 := by gcongr
    _ ≤ t ^ 3 / 16 := by nlinarith

/-- **every input**: rotation/scale block within `e^σ·eps⁴/8`, translation column within
`(8·eps + e^{|σ|}·eps³/2)·‖τ‖₁`, bottom row exact -/
theorem sim3_blocks_all (eps : ℝ) (x : sim3 ℝ) (h0 : 0 ≤ eps) (h1 : eps ≤ 1) :
    Sim3BlocksWithin eps x (Real.exp x.sigma * (eps ^ 4 / 8))
      ((8 * eps + Real.exp |x.sigma| * (eps ^ 3 / 2)) * (|x.tau.x| + |x.tau.y| + |x.tau.z|)) := by
  set T := |x.tau.x| + |x.tau.y| + |x.tau.z| with hT
  have hT0 : 0 ≤ T := by positivity
  have hE1 : 1 ≤ Real.exp |x.sigma| := Real.one_le_exp (abs_nonneg _)
  have hEpos := Real.exp_pos x.sigma
  have hE0 := Real.exp_pos |x.sigma|
  have he3 : 0 ≤ eps ^ 3 := by positivity
  have he4 : 0 ≤ eps ^ 4 := by positivity
  have hBR : 0 ≤ Real.exp x.sigma * (eps ^ 4 / 8) := by positivity
  have hBt : 0 ≤ (8 * eps + Real.exp |x.sigma| * (eps ^ 3 / 2)) * T := by positivity
  have hexact : ∀ (ht : eps < x.phi.norm ∨ x.phi.norm = 0) (hs : eps < |x.sigma| ∨ x.sigma = 0), _ :=
    fun ht hs => (sim3_blocks_exact eps x h0 ht hs).mono hBR hBt
  have hsmall : ¬ eps < |x.sigma| → Real.exp |x.sigma| - 1 ≤ 2 * eps := by
    intro hs
    have hle : |x.sigma| ≤ eps := not_lt.mp hs
    have h := Real.abs_exp_sub_one_le (x := |x.sigma|) (by rw [abs_abs]; linarith)
    rw [abs_abs] at h
    have := le_abs_self (Real.exp |x.sigma| - 1)
    linarith
  have hth : ¬ eps < x.phi.norm → x.phi.norm ^ 3 ≤ eps ^ 3 ∧ x.phi.norm ^ 4 ≤ eps ^ 4 := by
    intro ht
    have hle : x.phi.norm ≤ eps := not_lt.mp ht
    have hn := Vec3.norm_nonneg x.phi
    exact ⟨pow_le_pow_left₀ hn hle 3, pow_le_pow_left₀ hn hle 4⟩
  -- a certificate (B1, B2) with B1 ≤ eps⁴/8 and B2 ≤ 8 eps + e^{|σ|} eps³/2 gives the claim
  have fin : ∀ B1 B2 : ℝ, B1 ≤ eps ^ 4 / 8 → B2 ≤ 8 * eps + Real.exp |x.sigma| * (eps ^ 3 / 2) →
      Sim3BlocksWithin eps x (Real.exp x.sigma * B1) (B2 * T) → _ := fun B1 B2 hb1 hb2 h =>
    h.mono (mul_le_mul_of_nonneg_left hb1 hEpos.le) (mul_le_mul_of_nonneg_right hb2 hT0)
  by_cases ht : eps < x.phi.norm <;> by_cases hs : eps < |x.sigma|
  · exact hexact (Or.inl ht) (Or.inl hs)
  · by_cases hs0 : x.sigma = 0
    · exact hexact (Or.inl ht) (Or.inr hs0)
    · have htne : x.phi.norm ≠ 0 := ne_of_gt (lt_of_le_of_lt h0 ht)
      refine fin 0 _ (by positivity) ?_ (sim3_blocks_bound eps x _ _ 0 _ (sim3_exp_block x htne hs0)
        (so3Exp_closed_entry eps x.phi h0 (Or.inl ht)) (Ws_regime2_entry eps x.phi x.sigma h0 ht hs hs0))
      have := hsmall hs
      nlinarith [mul_nonneg hE0.le he3]
  · have hs0 : x.sigma ≠ 0 := by intro h; rw [h, abs_zero] at hs; linarith
    rcases (Vec3.norm_nonneg x.phi).eq_or_lt with hz | hpos
    · exact hexact (Or.inr hz.symm) (Or.inl hs)
    · obtain ⟨h3, h4⟩ := hth ht
      refine fin _ _ (by linarith) ?_ (sim3_blocks_bound eps x _ _ _ _ (sim3_exp_block x (ne_of_gt hpos) hs0)
        (so3Exp_matrix_taylor_bound eps x.phi ht h1) (Ws_regime3_entry eps x.phi x.sigma h1 ht hpos hs hs0))
      have : Real.exp |x.sigma| * (x.phi.norm ^ 3 / 3) ≤ Real.exp |x.sigma| * (eps ^ 3 / 2) :=
        mul_le_mul_of_nonneg_left (by linarith) hE0.le
      linarith
  · rcases (Vec3.norm_nonneg x.phi).eq_or_lt with hz | hpos
    · by_cases hs0 : x.sigma = 0
      · exact hexact (Or.inr hz.symm) (Or.inr hs0)
      · have hR : ∀ a b, |(SO3matrix (so3Exp eps x.phi)).toMatrix a b - (1 : Matrix (Fin 3) (Fin 3) ℝ) a b| ≤ 0 := by
          intro a b
          rw [norm_zero_imp x.phi hz.symm, so3Exp_zero eps h0, SO3matrix_one_toMatrix, sub_self, abs_zero]
        refine fin 0 _ (by positivity) ?_ (sim3_blocks_bound eps x _ _ 0 _ (sim3_exp_block_zero_phi x hz.symm hs0) hR
          (regime1_zero_phi_W eps x hz.symm hs hs0))
        have := hsmall hs
        nlinarith [mul_nonneg hE0.le he3]
    · obtain ⟨h3, h4⟩ := hth ht
      by_cases hs0 : x.sigma = 0
      · have hexp := sim3_exp_block_zero_sigma x (ne_of_gt hpos) hs0
        have e1 : NormedSpace.exp (hatM x.phi) = Real.exp x.sigma • NormedSpace.exp (hatM x.phi) := by
          rw [hs0, Real.exp_zero, one_smul]
        rw [e1] at hexp
        refine fin _ _ (by linarith) ?_ (sim3_blocks_bound eps x _ _ _ _ hexp
          (so3Exp_matrix_taylor_bound eps x.phi ht h1) (regime1_zero_sigma_W eps x h0 h1 ht hpos hs0))
        have : eps ^ 3 / 2 ≤ Real.exp |x.sigma| * (eps ^ 3 / 2) := by nlinarith
        nlinarith
      · refine fin _ _ (by linarith) ?_ (sim3_blocks_bound eps x _ _ _ _ (sim3_exp_block x (ne_of_gt hpos) hs0)
          (so3Exp_matrix_taylor_bound eps x.phi ht h1) (Ws_regime1_entry eps x.phi x.sigma h1 ht hpos hs hs0))
        have := hsmall hs
        have : eps ^ 3 / 2 ≤ Real.exp |x.sigma| * (eps ^ 3 / 2) := by nlinarith
        nlinarith

/-- `eps < |σ|` (regimes 3 and 4): the translation column is within `e^{|σ|}(eps³/3)‖τ‖₁` — no `O(eps)` term -/
theorem sim3_blocks_large_sigma (eps : ℝ) (x : sim3 ℝ) (h0 : 0 ≤ eps) (h1 : eps ≤ 1) (hs : eps < |x.sigma|) :
    Sim3BlocksWithin eps x (Real.exp x.sigma * (eps ^ 4 / 8))
      (Real.exp |x.sigma| * (eps ^ 3 / 3) * (|x.tau.x| + |x.tau.y| + |x.tau.z|)) := by
  have hT0 : 0 ≤ |x.tau.x| + |x.tau.y| + |x.tau.z| := by positivity
  have hEpos := Real.exp_pos x.sigma
  have hE0 := Real.exp_pos |x.sigma|
  have hBR : 0 ≤ Real.exp x.sigma * (eps ^ 4 / 8) := by positivity
  have hBt : 0 ≤ Real.exp |x.sigma| * (eps ^ 3 / 3) * (|x.tau.x| + |x.tau.y| + |x.tau.z|) := by positivity
  have hs0 : x.sigma ≠ 0 := by intro h; rw [h, abs_zero] at hs; linarith
  by_cases ht : eps < x.phi.norm
  · exact (sim3_blocks_exact eps x h0 (Or.inl ht) (Or.inl hs)).mono hBR hBt
  · rcases (Vec3.norm_nonneg x.phi).eq_or_lt with hz | hpos
    · exact (sim3_blocks_exact eps x h0 (Or.inr hz.symm) (Or.inl hs)).mono hBR hBt
    · have hle : x.phi.norm ≤ eps := not_lt.mp ht
      have h3 : x.phi.norm ^ 3 ≤ eps ^ 3 := pow_le_pow_left₀ hpos.le hle 3
      have h4 : x.phi.norm ^ 4 ≤ eps ^ 4 := pow_le_pow_left₀ hpos.le hle 4
      refine (sim3_blocks_bound eps x _ _ _ _ (sim3_exp_block x (ne_of_gt hpos) hs0)
        (so3Exp_matrix_taylor_bound eps x.phi ht h1) (Ws_regime3_entry eps x.phi x.sigma h1 ht hpos hs hs0)).mono ?_ ?_
      · exact mul_le_mul_of_nonneg_left (by linarith) hEpos.le
      · apply mul_le_mul_of_nonneg_right _ hT0
        exact mul_le_mul_of_nonneg_left (by linarith) hE0.le

/-- `(e^σ − 1)/σ ≥ e^{−|σ|}`: the translation scale `C(σ)‖τ‖` is never much smaller than `‖τ‖` -/
theorem WsC_lower (s : ℝ) (hs : s ≠ 0) : Real.exp (-|s|) ≤ WsC s := by
  unfold WsC
  rcases lt_or_gt_of_ne hs with hneg | hpos
  · have habs : |s| = -s := abs_of_neg hneg
    rw [habs, neg_neg, le_div_iff_of_neg hneg]
    have h1 := Real.add_one_le_exp (-s)
    have hp := Real.exp_pos s
    have hmul : Real.exp s * Real.exp (-s) = 1 := by rw [← Real.exp_add]; simp
    nlinarith
  · have habs : |s| = s := abs_of_pos hpos
    rw [habs, le_div_iff₀ hpos]
    have h1 := Real.add_one_le_exp s
    have h2 : Real.exp (-s) ≤ 1 := by rw [← Real.exp_zero]; exact Real.exp_le_exp.mpr (by linarith)
    nlinarith
end
end PP
