#!/bin/bash
# Builds the Lean model, every property's theorems and its driver executable, offline, from files on disk.
set -e
cd "$(dirname "$0")/lean"
targets="Pose Proofs"
for i in 01 02 03 04 05 06 07 08 09 10 11 12 13 14 15 16 17 18 19 20; do
  if [ -f "Proofs/Props/C$i.lean" ]; then targets="$targets Proofs.Props.C$i drv_c$i"; fi
done
lake build $targets
