import Proofs.Lemmas.Align
namespace PP
open Vec3 Quat Mat3 Align

/-! ## sums over clouds -/
namespace Align

@[simp] theorem ssum_nil : ssum ([] : List ℝ) = 0 := by simp [ssum]
@[simp] theorem ssum_cons (x : ℝ) (xs : List ℝ) : ssum (x :: xs) = x + ssum xs := rfl
@[simp] theorem vsum_nil : vsum ([] : Cloud ℝ) = Vec3.zero := rfl
@[simp] theorem vsum_cons (p : Vec3 ℝ) (ps : Cloud ℝ) : vsum (p :: ps) = p.add (vsum ps) := rfl
@[simp] theorem msum_nil : msum ([] : List (Mat3 ℝ)) = Mat3.zero := rfl
@[simp] theorem msum_cons (m : Mat3 ℝ) (ms : List (Mat3 ℝ)) : msum (m :: ms) = m.add (msum ms) := rfl

theorem ssum_nonneg (xs : List ℝ) (h : ∀ x ∈ xs, 0 ≤ x) : 0 ≤ ssum xs := by
  induction xs with
  | nil => simp
  | cons x xs ih =>
    rw [ssum_cons]
    exact add_nonneg (h x (List.mem_cons_self ..)) (ih fun y hy => h y (List.mem_cons_of_mem _ hy))

theorem ssum_eq_zero (xs : List ℝ) (h : ∀ x ∈ xs, 0 ≤ x) (h0 : ssum xs = 0) : ∀ x ∈ xs, x = 0 := by
  induction xs with
  | nil => intro x hx; simp at hx
  | cons y ys ih =>
    have hy := h y (List.mem_cons_self ..)
    have hys := ssum_nonneg ys fun z hz => h z (List.mem_cons_of_mem _ hz)
    rw [ssum_cons] at h0
    intro x hx
    rcases List.mem_cons.mp hx with rfl | hx
    · linarith
    · exact ih (fun z hz => h z (List.mem_cons_of_mem _ hz)) (by linarith) x hx

theorem ssum_le_ssum {β : Type} (l : List β) (f g : β → ℝ) (h : ∀ b ∈ l, f b ≤ g b) :
    ssum (l.map f) ≤ ssum (l.map g) := by
  induction l with
  | nil => simp
  | cons b bs ih =>
    simp only [List.map_cons, ssum_cons]
    exact add_le_add (h b (List.mem_cons_self ..)) (ih fun c hc => h c (List.mem_cons_of_mem _ hc))

theorem ssum_map_mul {β : Type} (l : List β) (f : β → ℝ) (c : ℝ) :
    ssum (l.map fun b => c * f b) = c * ssum (l.map f) := by
  induction l with
  | nil => simp
  | cons b bs ih => simp only [List.map_cons, ssum_cons, ih]; ring

theorem normSq_nonneg (v : Vec3 ℝ) : 0 ≤ v.normSq := by
  simp only [Vec3.normSq]; nlinarith [mul_self_nonneg v.x, mul_self_nonneg v.y, mul_self_nonneg v.z]

theorem normSq_eq_zero (v : Vec3 ℝ) (h : v.normSq = 0) : v = Vec3.zero := by
  simp only [Vec3.normSq] at h
  have hx : v.x = 0 := by nlinarith [mul_self_nonneg v.x, mul_self_nonneg v.y, mul_self_nonneg v.z]
  have hy : v.y = 0 := by nlinarith [mul_self_nonneg v.x, mul_self_nonneg v.y, mul_self_nonneg v.z]
  have hz : v.z = 0 := by nlinarith [mul_self_nonneg v.x, mul_self_nonneg v.y, mul_self_nonneg v.z]
  apply Vec3.ext' <;> simp [Vec3.zero, hx, hy, hz]

theorem cost_nonneg (T : Vec3 ℝ → Vec3 ℝ) (ps : Pairs ℝ) : 0 ≤ cost T ps := by
  unfold cost; apply ssum_nonneg; intro x hx
  obtain ⟨p, _, rfl⟩ := List.mem_map.mp hx
  exact normSq_nonneg _

/-- zero cost ⇔ every correspondence is reproduced exactly -/
theorem cost_eq_zero_iff (T : Vec3 ℝ → Vec3 ℝ) (ps : Pairs ℝ) : cost T ps = 0 ↔ ∀ p ∈ ps, T p.1 = p.2 := by
  constructor
  · intro h p hp
    have := ssum_eq_zero _ (by
      intro x hx; obtain ⟨p, _, rfl⟩ := List.mem_map.mp hx; exact normSq_nonneg _) h
      (((T p.1).sub p.2).normSq) (List.mem_map.mpr ⟨p, hp, rfl⟩)
    have hz := normSq_eq_zero _ this
    have hx := congrArg Vec3.x hz; have hy := congrArg Vec3.y hz; have hz' := congrArg Vec3.z hz
    simp only [Vec3.sub, Vec3.zero, k_real, Nat.cast_zero] at hx hy hz'
    apply Vec3.ext' <;> linarith
  · intro h
    unfold cost
    have : ps.map (fun p => ((T p.1).sub p.2).normSq) = ps.map (fun _ => (0:ℝ)) := by
      apply List.map_congr_left; intro p hp; rw [h p hp]; lie_unfold; ring
    rw [this]
    clear this h
    induction ps with
    | nil => simp
    | cons p ps ih => simp only [List.map_cons, ssum_cons, ih]; ring

/-- `Σ (pᵢ − c) = Σ pᵢ − N c` -/
theorem vsum_map_sub (ps : Cloud ℝ) (c : Vec3 ℝ) :
    vsum (ps.map fun p => p.sub c) = (vsum ps).sub (c.smul (ps.length : ℝ)) := by
  induction ps with
  | nil => apply Vec3.ext' <;> simp [Vec3.sub, Vec3.smul, Vec3.zero]
  | cons p ps ih =>
    simp only [List.map_cons, vsum_cons, ih, List.length_cons, Nat.cast_succ]
    apply Vec3.ext' <;> lie_unfold <;> ring

/-- the centred cloud sums to zero (any length, including 0) -/
theorem vsum_sub_mean (ps : Cloud ℝ) : vsum (ps.map fun p => p.sub (mean ps)) = Vec3.zero := by
  rw [vsum_map_sub]
  cases ps with
  | nil => apply Vec3.ext' <;> simp [mean, Vec3.sub, Vec3.smul, Vec3.zero]
  | cons p ps =>
    have hN : ((List.length (p :: ps) : ℕ) : ℝ) ≠ 0 := by simp only [List.length_cons, Nat.cast_succ]; positivity
    simp only [mean, k_real, Nat.cast_one]
    apply Vec3.ext' <;> simp only [Vec3.sub, Vec3.smul, Vec3.zero, k_real, Nat.cast_zero] <;> field_simp <;> ring

theorem srcs_centered (ps : Pairs ℝ) : srcs (centered ps) = (srcs ps).map fun p => p.sub (mean (srcs ps)) := by
  simp only [srcs, centered, List.map_map]; rfl
theorem tgts_centered (ps : Pairs ℝ) : tgts (centered ps) = (tgts ps).map fun p => p.sub (mean (tgts ps)) := by
  simp only [tgts, centered, List.map_map]; rfl

theorem vsum_srcs_centered (ps : Pairs ℝ) : vsum (srcs (centered ps)) = Vec3.zero := by
  rw [srcs_centered]; exact vsum_sub_mean _
theorem vsum_tgts_centered (ps : Pairs ℝ) : vsum (tgts (centered ps)) = Vec3.zero := by
  rw [tgts_centered]; exact vsum_sub_mean _

/-- `Σ‖sᵢ‖²`, `Σ‖tᵢ‖²` -/
noncomputable def energyS (ps : Pairs ℝ) : ℝ := ssum (ps.map fun p => p.1.normSq)
noncomputable def energyT (ps : Pairs ℝ) : ℝ := ssum (ps.map fun p => p.2.normSq)

/-- shift: `Σ‖A sᵢ − tᵢ + d‖² = Σ‖A sᵢ − tᵢ‖² + 2 (A Σs − Σt)·d + N‖d‖²`, any matrix `A` -/
theorem cost_shift (A : Mat3 ℝ) (d : Vec3 ℝ) (qs : Pairs ℝ) :
    ssum (qs.map fun p => (((A.mulVec p.1).sub p.2).add d).normSq)
      = ssum (qs.map fun p => ((A.mulVec p.1).sub p.2).normSq)
        + 2 * ((A.mulVec (vsum (srcs qs))).sub (vsum (tgts qs))).dot d + (qs.length : ℝ) * d.normSq := by
  induction qs with
  | nil => simp [srcs, tgts]; lie_unfold; ring
  | cons p ps ih =>
    simp only [List.map_cons, ssum_cons, ih, srcs, tgts, vsum_cons, List.length_cons, Nat.cast_succ]
    simp only [srcs, tgts] at ih
    lie_unfold; ring

/-- expansion for an orthogonal matrix: `Σ‖R sᵢ − tᵢ‖² = Σ‖sᵢ‖² + Σ‖tᵢ‖² − 2⟨R, Σ tᵢ sᵢᵀ⟩` -/
theorem cost_expand (R : Mat3 ℝ) (hR : Mat3.IsOrth R) (qs : Pairs ℝ) :
    ssum (qs.map fun p => ((R.mulVec p.1).sub p.2).normSq)
      = energyS qs + energyT qs - 2 * Mat3.frob R (crossCov qs) := by
  induction qs with
  | nil => simp [energyS, energyT, crossCov, Mat3.frob]; lie_unfold; ring
  | cons p ps ih =>
    simp only [List.map_cons, ssum_cons, ih, energyS, energyT, crossCov, msum_cons]
    have h1 := hR.normSq_mulVec p.1
    have e : ((R.mulVec p.1).sub p.2).normSq = (R.mulVec p.1).normSq + p.2.normSq - 2 * (R.mulVec p.1).dot p.2 := by
      lie_unfold; ring
    rw [e, h1]
    simp only [Mat3.frob]; lie_unfold; ring

/-- scaled version (for `svdstf`): `Σ‖c R sᵢ − tᵢ‖² = c² Σ‖sᵢ‖² + Σ‖tᵢ‖² − 2c⟨R, Σ tᵢ sᵢᵀ⟩` -/
theorem cost_expand_scaled (R : Mat3 ℝ) (hR : Mat3.IsOrth R) (c : ℝ) (qs : Pairs ℝ) :
    ssum (qs.map fun p => (((Mat3.smul c R).mulVec p.1).sub p.2).normSq)
      = c * c * energyS qs + energyT qs - 2 * c * Mat3.frob R (crossCov qs) := by
  induction qs with
  | nil => simp only [List.map_nil, ssum_nil, energyS, energyT, crossCov, msum_nil, Mat3.frob]; lie_unfold; ring
  | cons p ps ih =>
    simp only [List.map_cons, ssum_cons, ih, energyS, energyT, crossCov, msum_cons]
    have h1 := hR.normSq_mulVec p.1
    have e : (((Mat3.smul c R).mulVec p.1).sub p.2).normSq
        = c * c * (R.mulVec p.1).normSq + p.2.normSq - 2 * c * (R.mulVec p.1).dot p.2 := by
      lie_unfold; ring
    rw [e, h1]
    simp only [Mat3.frob]; lie_unfold; ring

theorem length_centered (ps : Pairs ℝ) : (centered ps).length = ps.length := by simp [centered]

/-- **cost of an affine map `p ↦ A p + t` in centred coordinates** (any matrix `A`):
`cost = Σ‖A s̃ᵢ − t̃ᵢ‖² + N‖A c_s + t − c_t‖²` -/
theorem cost_affine_centered (A : Mat3 ℝ) (t : Vec3 ℝ) (ps : Pairs ℝ) :
    cost (affine A t) ps
      = ssum ((centered ps).map fun p => ((A.mulVec p.1).sub p.2).normSq)
        + (ps.length : ℝ) * (((A.mulVec (mean (srcs ps))).add t).sub (mean (tgts ps))).normSq := by
  have hshift := cost_shift A (((A.mulVec (mean (srcs ps))).add t).sub (mean (tgts ps))) (centered ps)
  rw [vsum_srcs_centered, vsum_tgts_centered, length_centered] at hshift
  have hz : ((A.mulVec Vec3.zero).sub Vec3.zero).dot
      (((A.mulVec (mean (srcs ps))).add t).sub (mean (tgts ps))) = 0 := by
    rw [Mat3.mulVec_zero]; lie_unfold; ring
  rw [hz] at hshift
  have hmap : (centered ps).map (fun p => (((A.mulVec p.1).sub p.2).add
        (((A.mulVec (mean (srcs ps))).add t).sub (mean (tgts ps)))).normSq)
      = ps.map (fun p => ((affine A t p.1).sub p.2).normSq) := by
    simp only [centered, List.map_map]
    apply List.map_congr_left; intro p _
    simp only [Function.comp, affine, Mat3.mulVec_sub]
    congr 1
    apply Vec3.ext' <;> simp only [Vec3.add, Vec3.sub] <;> ring
  unfold cost
  rw [← hmap, hshift]; ring

end Align
end PP
