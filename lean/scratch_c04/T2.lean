import Proofs.Lemmas.Quat
import Pose.Model.Autograd
import Mathlib.Analysis.Calculus.Deriv.Mul
import Mathlib.Analysis.Calculus.Deriv.Add
import Mathlib.Tactic.FunProp
open PP PP.AD

/-- a curve of quaternions with componentwise derivative `d` at 0 -/
structure QCurve (X : ℝ → Quat ℝ) (d : Quat ℝ) : Prop where
  x : HasDerivAt (fun t => (X t).x) d.x 0
  y : HasDerivAt (fun t => (X t).y) d.y 0
  z : HasDerivAt (fun t => (X t).z) d.z 0
  w : HasDerivAt (fun t => (X t).w) d.w 0

/-- lift of a rotation tangent: derivative of `Exp₁(tφ)·q` -/
noncomputable def liftQ (q : Quat ℝ) (φ : Vec3 ℝ) : Quat ℝ := (Quat.mk' (φ.smul (1/2)) 0).mul q

example (X Y : ℝ → Quat ℝ) (τx τy : Vec3 ℝ) (hX : QCurve X (liftQ (X 0) τx)) (hY : QCurve Y (liftQ (Y 0) τy))
    (hu : (X 0).normSq = 1) :
    QCurve (fun t => (X t).mul (Y t)) (liftQ ((X 0).mul (Y 0)) (τx.add ((SO3Mat (X 0)).mulVec τy))) := by
  obtain ⟨hx, hy, hz, hw⟩ := hX
  obtain ⟨kx, ky, kz, kw⟩ := hY
  have hu' : (X 0).x * (X 0).x + (X 0).y * (X 0).y + (X 0).z * (X 0).z + (X 0).w * (X 0).w = 1 := hu
  constructor
  all_goals
    simp only [Quat.mul]
    refine HasDerivAt.congr_deriv (by
      first
      | exact ((hw.mul kx).add (hx.mul kw)).add ((hy.mul kz).sub (hz.mul ky))
      | exact ((hw.mul ky).add (hy.mul kw)).add ((hz.mul kx).sub (hx.mul kz))
      | exact ((hw.mul kz).add (hz.mul kw)).add ((hx.mul ky).sub (hy.mul kx))
      | exact (hw.mul kw).sub (((hx.mul kx).add (hy.mul ky)).add (hz.mul kz))) ?_
    simp only [liftQ, SO3Mat]
    lie_unfold
    linear_combination (exp := 1) (0:ℝ) * hu'
