import Pose.Model.ExpGlue
import Mathlib.Tactic.Linarith
import Mathlib.Tactic.Ring
/-! Glue of `Exp` (C01 pass 3): rows/chunks of a flat tensor, acceptance, shape and item-wise action of `ppExp`. -/
namespace PP
variable {α : Type} [Scalar α]

theorem numel_append_singleton (s : List Nat) (d : Nat) : numel (s ++ [d]) = numel s * d := by
  simp [numel, List.foldl_append]

theorem numel_dropLast_getLast (s : List Nat) (d : Nat) (h : s.getLast? = some d) : numel s = numel s.dropLast * d := by
  have : s = s.dropLast ++ [d] := by
    rcases List.eq_nil_or_concat s with rfl | ⟨l, a, rfl⟩
    · simp at h
    · simp at h; simp [h]
  rw [← numel_append_singleton, ← this]

theorem chunksAux_append {β : Type} (n : Nat) (hn : 0 < n) (r : List β) (hr : r.length = n) (rest : List β) (fuel : Nat) :
    chunksAux n (fuel + 1) (r ++ rest) = r :: chunksAux n fuel rest := by
  have hne : (r ++ rest).isEmpty = false := by
    cases r with
    | nil => simp at hr; omega
    | cons a t => simp
  simp [chunksAux, hne, ← hr]

/-- more fuel than needed does not change the result -/
theorem chunksAux_fuel {β : Type} (n : Nat) (hn : 0 < n) : ∀ (fuel fuel' : Nat) (l : List β), l.length ≤ fuel →
    l.length ≤ fuel' → chunksAux n fuel l = chunksAux n fuel' l := by
  intro fuel
  induction fuel with
  | zero =>
    intro fuel' l h _
    have : l = [] := List.eq_nil_of_length_eq_zero (by omega)
    subst this
    cases fuel' <;> simp [chunksAux]
  | succ f ih =>
    intro fuel' l h h'
    cases l with
    | nil => cases fuel' <;> simp [chunksAux]
    | cons a t =>
      cases fuel' with
      | zero => simp at h'
      | succ f' =>
        have hd : ((a :: t).drop n).length ≤ f := by simp [List.length_drop] at *; omega
        have hd' : ((a :: t).drop n).length ≤ f' := by simp [List.length_drop] at *; omega
        simp only [chunksAux, List.isEmpty_cons, Bool.false_eq_true, if_false]
        rw [ih f' _ hd hd']

theorem chunks_flatten {β : Type} (n : Nat) (hn : 0 < n) (rows : List (List β)) (h : ∀ r ∈ rows, r.length = n) :
    chunks n rows.flatten = rows := by
  unfold chunks
  rw [if_neg (by omega)]
  induction rows with
  | nil => simp [chunksAux]
  | cons r rest ih =>
    have hr : r.length = n := h r (by simp)
    have hrest : ∀ r' ∈ rest, r'.length = n := fun r' hr' => h r' (by simp [hr'])
    have hlen : (r ++ rest.flatten).length = (rest.flatten.length + (n - 1)) + 1 := by
      simp [hr]; omega
    rw [List.flatten_cons, hlen, chunksAux_append n hn r hr,
      chunksAux_fuel n hn (rest.flatten.length + (n - 1)) rest.flatten.length rest.flatten (by omega) (le_refl _), ih hrest]

/-- a flat list of length `m·n` is the concatenation of `m` rows of length `n` -/
theorem exists_rows {β : Type} (n : Nat) : ∀ (m : Nat) (l : List β), l.length = m * n →
    ∃ rows : List (List β), rows.length = m ∧ (∀ r ∈ rows, r.length = n) ∧ rows.flatten = l := by
  intro m
  induction m with
  | zero =>
    intro l hl
    have : l = [] := List.eq_nil_of_length_eq_zero (by omega)
    exact ⟨[], rfl, by simp, by simp [this]⟩
  | succ m ih =>
    intro l hl
    have hle : n ≤ l.length := by rw [hl]; nlinarith
    have htake : (l.take n).length = n := by rw [List.length_take]; omega
    have hdrop : (l.drop n).length = m * n := by rw [List.length_drop, hl]; ring_nf; omega
    obtain ⟨rows, h1, h2, h3⟩ := ih (l.drop n) hdrop
    refine ⟨l.take n :: rows, by simp [h1], ?_, by simp [h3]⟩
    intro r hr
    rcases List.mem_cons.mp hr with rfl | hr
    · exact htake
    · exact h2 r hr

theorem itemExp_length (eps : α) (lt g : LType) (h : lt.expTarget = some g) (r : List α) :
    (itemExp eps lt r).length = g.dim := by
  cases lt <;> simp [LType.expTarget] at h <;> subst h <;>
    simp [itemExp, LType.dim, Quat.toList, SE3.toList, RxSO3.toList, Sim3.toList, Vec3.toList]

theorem dim_pos (lt : LType) : 0 < lt.dim := by cases lt <;> simp [LType.dim]

theorem ppExp_lastDim (lt : LType) (dt : DType) (shape : List Nat) (data : List α)
    (h : shape.getLast? ≠ some lt.dim) : ppExp lt dt shape data = .error .lastDim := by
  simp [ppExp, mkLieTensor, h, bind, Except.bind]

theorem ppExp_group (lt : LType) (dt : DType) (shape : List Nat) (data : List α)
    (hd : shape.getLast? = some lt.dim) (hn : data.length = numel shape) (hg : lt.onManifold = false) :
    ppExp lt dt shape data = .error .noExp := by
  cases lt <;> simp [LType.onManifold] at hg <;>
    simp [ppExp, mkLieTensor, hd, hn, bind, Except.bind, TensorV.Exp, LType.expTarget]

theorem ppExp_algebra (lt : LType) (dt : DType) (shape : List Nat) (data : List α)
    (hd : shape.getLast? = some lt.dim) (hn : data.length = numel shape) (ha : lt.onManifold = true) :
    ∃ g, lt.expTarget = some g ∧ ppExp lt dt shape data =
      .ok ⟨g, shape.dropLast ++ [g.dim], ((chunks lt.dim data).map (itemExp dt.eps lt)).flatten⟩ := by
  cases lt <;> simp [LType.onManifold] at ha <;>
    simp [ppExp, mkLieTensor, hd, hn, bind, Except.bind, TensorV.Exp, LType.expTarget, TensorV.lshape]

/-- accepted exactly when the type is an algebra type and the last dimension matches -/
theorem ppExp_ok_iff (lt : LType) (dt : DType) (shape : List Nat) (data : List α) (hn : data.length = numel shape) :
    (∃ X, ppExp lt dt shape data = .ok X) ↔ (lt.onManifold = true ∧ shape.getLast? = some lt.dim) := by
  constructor
  · rintro ⟨X, hX⟩
    by_cases hd : shape.getLast? = some lt.dim
    · cases ha : lt.onManifold
      · rw [ppExp_group lt dt shape data hd hn ha] at hX; cases hX
      · exact ⟨rfl, hd⟩
    · rw [ppExp_lastDim lt dt shape data hd] at hX; cases hX
  · rintro ⟨ha, hd⟩
    obtain ⟨g, _, h⟩ := ppExp_algebra lt dt shape data hd hn ha
    exact ⟨_, h⟩

/-- the whole path on a well-formed batch of rows: result type, shape, size, and row `i` of the result is the kernel
applied to row `i` of the argument with `eps = finfo(dtype).eps` -/
theorem ppExp_rows (lt g : LType) (dt : DType) (lshape : List Nat) (rows : List (List α))
    (hg : lt.expTarget = some g) (hlen : rows.length = numel lshape) (hrow : ∀ r ∈ rows, r.length = lt.dim) :
    ∃ X, ppExp lt dt (lshape ++ [lt.dim]) rows.flatten = .ok X ∧ X.ltype = g ∧ X.shape = lshape ++ [g.dim] ∧
      X.data.length = numel X.shape ∧ chunks g.dim X.data = rows.map (itemExp dt.eps lt) := by
  have ha : lt.onManifold = true := by cases lt <;> simp [LType.expTarget] at hg <;> rfl
  have hd : (lshape ++ [lt.dim]).getLast? = some lt.dim := by simp
  have hfl : rows.flatten.length = rows.length * lt.dim := by
    clear hlen
    induction rows with
    | nil => simp
    | cons r rest ih =>
      have := hrow r (by simp)
      have := ih (fun r' hr' => hrow r' (by simp [hr']))
      simp [List.length_append, *]; ring
  have hn : rows.flatten.length = numel (lshape ++ [lt.dim]) := by rw [numel_append_singleton, hfl, hlen]
  obtain ⟨g', hg', h⟩ := ppExp_algebra lt dt _ _ hd hn ha
  have : g' = g := by rw [hg] at hg'; exact (Option.some.inj hg').symm
  subst this
  refine ⟨_, h, rfl, by simp, ?_, ?_⟩
  · have hc : chunks lt.dim rows.flatten = rows := chunks_flatten lt.dim (dim_pos lt) rows hrow
    simp only [hc]
    rw [numel_append_singleton]
    have : ∀ (rs : List (List α)), ((rs.map (itemExp dt.eps lt)).flatten).length = rs.length * g'.dim := by
      intro rs
      induction rs with
      | nil => simp
      | cons r rest ih => simp [List.length_append, itemExp_length dt.eps lt g' hg, ih]; ring
    simp [this, hlen]
  · have hc : chunks lt.dim rows.flatten = rows := chunks_flatten lt.dim (dim_pos lt) rows hrow
    simp only [hc]
    exact chunks_flatten g'.dim (dim_pos g') _ (by
      intro r hr
      obtain ⟨r0, _, rfl⟩ := List.mem_map.mp hr
      exact itemExp_length dt.eps lt g' hg r0)

/-- the plain-Tensor branch and the LieTensor branch of `<lt>_type.Exp` coincide for an algebra type (every shape, also the
rejected ones) -/
theorem typeExp_eq_ppExp (lt : LType) (dt : DType) (shape : List Nat) (data : List α) (ha : lt.onManifold = true) :
    typeExp lt dt shape data = ppExp lt dt shape data := by
  cases lt <;> simp [LType.onManifold] at ha <;>
    simp [typeExp, ppExp, mkLieTensor, bind, Except.bind, TensorV.Exp, LType.expTarget, TensorV.lshape] <;>
    split_ifs <;> simp_all

/-- a group type is rejected on both branches, whatever the tensor -/
theorem typeExp_group (lt : LType) (dt : DType) (shape : List Nat) (data : List α) (hg : lt.onManifold = false) :
    typeExp lt dt shape data = .error .noExp := by
  cases lt <;> simp [LType.onManifold] at hg <;> simp [typeExp, LType.expTarget]

theorem itemMatrix_length (g : LType) (hg : g.onManifold = false) (l : List α) : (itemMatrix g l).length = g.matN * g.matN := by
  cases g <;> simp [LType.onManifold] at hg <;>
    simp [itemMatrix, LType.matN, Mat3.toList, Vec3.toList, DMat.flat, SE3matrix, RxSO3matrix, Sim3matrix, matrix4, SO3matrix,
      Mat3.ofCols]

theorem expTarget_group (lt g : LType) (h : lt.expTarget = some g) : g.onManifold = false ∧ g.groupOf = g := by
  cases lt <;> simp [LType.expTarget] at h <;> subst h <;> exact ⟨rfl, rfl⟩

theorem matN_pos (g : LType) : 0 < g.matN * g.matN := by cases g <;> simp [LType.matN]

/-- `pp.Exp(x).matrix()` on a well-formed batch: shape `lshape ++ [n, n]` and the `i`-th `n×n` block of the flat result is
`matrix` of the kernel applied to row `i` -/
theorem ppExp_matrix_rows (lt g : LType) (dt : DType) (lshape : List Nat) (rows : List (List α))
    (hg : lt.expTarget = some g) (hlen : rows.length = numel lshape) (hrow : ∀ r ∈ rows, r.length = lt.dim) :
    ∃ X, ppExp lt dt (lshape ++ [lt.dim]) rows.flatten = .ok X ∧
      (X.matrix dt).1 = lshape ++ [g.matN, g.matN] ∧
      chunks (g.matN * g.matN) (X.matrix dt).2 = rows.map (fun r => itemMatrix g (itemExp dt.eps lt r)) := by
  obtain ⟨X, hX, hlt, hshape, _, hchunks⟩ := ppExp_rows lt g dt lshape rows hg hlen hrow
  obtain ⟨hgm, hgg⟩ := expTarget_group lt g hg
  refine ⟨X, hX, ?_, ?_⟩
  · simp [TensorV.matrix, TensorV.lshape, hlt, hshape, hgg]
  · simp only [TensorV.matrix, hlt, hgm, hgg, hchunks]
    simp only [Bool.false_eq_true, if_false, List.map_map]
    exact chunks_flatten _ (matN_pos g) _ (by
      intro r hr
      obtain ⟨r0, _, rfl⟩ := List.mem_map.mp hr
      exact itemMatrix_length g hgm _)
end PP
