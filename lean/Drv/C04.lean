import Pose.Driver.Loop
import Pose.Driver.Core
import Pose.Driver.C04
def main : IO Unit := PP.Driver.mainLoop (PP.Driver.opsCore ++ PP.Driver.opsLie ++ PP.Driver.opsC04)
