#!/usr/bin/env python3
"""store a round-6 delivery: tools/r6store.py <id> <H1 verdict> <H2 verdict> <S verdict> [note]
verdicts: quiet | ALARM:<text> ; detected | missed | nofail (violation without failing input)"""
import json, shutil, sys, os
pid, h1, h2, s = sys.argv[1:5]
note = sys.argv[5] if len(sys.argv) > 5 else ""
V = "/verif/seeded"
for k, v in (("H1", h1), ("H2", h2)):
    src, dst = f"/tmp/r6_{pid}/{k}", f"{V}/harmless/{pid}-{k}"
    if not os.path.exists(src + "/patch.diff"):
        continue
    os.makedirs(dst, exist_ok=True)
    for f in ("patch.diff", "meta.json", "equiv.py"):
        if os.path.exists(f"{src}/{f}"):
            shutil.copy(f"{src}/{f}", dst)
    m = json.load(open(dst + "/meta.json")) if os.path.exists(dst + "/meta.json") else {}
    m["verif"] = {"round": 6, "kind": "harmless rewrite", "first_run": v, "note": note}
    json.dump(m, open(dst + "/meta.json", "w"), indent=1)
src, dst = f"/tmp/r6_{pid}/S", f"{V}/{pid}-6"
if os.path.exists(src + "/patch.diff"):
    os.makedirs(dst, exist_ok=True)
    for f in ("patch.diff", "meta.json", "demo.py"):
        if os.path.exists(f"{src}/{f}"):
            shutil.copy(f"{src}/{f}", dst)
    m = json.load(open(dst + "/meta.json"))
    m["verif"] = {"round": 6, "first_run": s, "note": note, "confirmed": "demo rc 1 patched (tools/r6test.sh); clean-tree demo and suite outcome per the tester's logs"}
    json.dump(m, open(dst + "/meta.json", "w"), indent=1)
print("stored", pid)
