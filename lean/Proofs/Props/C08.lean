import Proofs.Lemmas.LMLoop
import Proofs.Lemmas.LMRetr
import Proofs.Lemmas.LMNormal
/-!
# C08 — LM never accepts a worse loss, restores rejected trials, reports the true loss

Property theorems only (helpers: `Proofs/Lemmas/LMLoop.lean`, `Proofs/Lemmas/LMRetr.lean`, `Proofs/Lemmas/LMNormal.lean`;
model: `Pose/Model/LMLoop.lean`, `Pose/Model/LMNormal.lean`).
All statements are at `α = ℝ`, for arbitrary parameter / step / strategy-state types `P D S`, every loss function
`lossAt`, every solver behaviour (including raising at any solve), every user strategy `upd`, every `reject`, every
history of calls.

**The retraction contract.** The *exact* loop / history theorems assume `RetrOK pr e`: undoing a step *that the solver
returned* gives the point back, `retr (retr p d) (neg d) = p`. This is
* true for every step of Euclidean parameters (`vec_retrOK`);
* true for SO3 / SE3 / RxSO3 parameters for steps whose rotation part lies on the closed-form branch of `Exp`
  (`‖φ‖ > eps ≥ 0`: `so3_retrOK`, `se3_retrOK`, `rxso3_retrOK`), for Sim3 in regime 4 or `σ = 0` (`sim3_retrOK_partial`);
* FALSE on the Taylor branch of `Exp` (`‖φ‖ ≤ eps`): there `Exp(−x)(Exp(x)X) = (1+c)·X` with `0 ≤ c ≤ eps⁶/23040`
  (`so3_retr_defect`).
For that case — and for the property's "up to round-off of the retraction" in general — the *defect* theorems
(`reject_restores_within_defect`, `returns_loss_within_defect`, `monotone_unless_exhausted_defect`, `lmCall_defect`,
`lmRun_defect`) assume only that undoing a step misses by at most `δ` in some distance for which the loss is
`L`-Lipschitz, and carry "restored up to `k·δ`", "returned loss = loss at the parameters left behind up to `L·k·δ`"
through the loop and through histories. `δ = 0` gives back the exact statements.
-/
namespace PP.LMLoop
open PP
variable {P D S : Type} (pr : Prob P D ℝ) (reject : Nat) (e : Env P D S ℝ)

/-! ## the accept/reject loop of one call -/

/-- **The `while` loop has stopped after `reject+1` passes**, whatever the losses, the solver and the
strategy do: more fuel changes nothing, i.e. the unbounded Python loop terminates and `lmStep` is its
result. -/
theorem lm_halts (cached : Option ℝ) (p : P) (s : S) (n : Nat) :
    (lmStep pr reject e cached p s).live = false ∧
    loop pr reject e (reject + 1 + n) (start pr cached p s) = lmStep pr reject e cached p s := by
  have h : (lmStep pr reject e cached p s).live = false := by
    unfold lmStep
    apply loop_halts_aux pr reject e (reject + 1) _ _ _
    · cases cached <;> simp [start]
    · cases cached <;> simp [start]
  refine ⟨h, ?_⟩
  rw [loop_add]
  exact loop_dead pr reject e n _ h

/-- **At most `reject+1` trials per call** (solver calls, a raising one included), and at most `reject`
rejections. No hypothesis at all. (`solves ≤ reject+1` alone would hold for `lmStep` by construction of its fuel; that the
fuel is never what stops the loop — i.e. that this is a statement about the unbounded `while` of the code — is `lm_halts`:
the loop is halted after `reject+1` passes and more fuel changes nothing. `rc ≤ reject` is the real invariant.) -/
theorem trials_le (cached : Option ℝ) (p : P) (s : S) :
    (lmStep pr reject e cached p s).solves ≤ reject + 1 ∧ (lmStep pr reject e cached p s).rc ≤ reject := by
  have key : ∀ (n : Nat) (st : St P S ℝ), st.rc ≤ reject →
      (loop pr reject e n st).solves ≤ st.solves + n ∧ (loop pr reject e n st).rc ≤ reject := by
    intro n
    induction n with
    | zero => intro st h; exact ⟨by simp [loop], h⟩
    | succ n ih =>
      intro st h
      rw [loop_succ]
      rcases body_spec pr reject e st with ⟨_, hb⟩ | ⟨_, _, hb⟩ | ⟨_, _, _, hb⟩ | ⟨d, _, _, _, _, hr, hb⟩ |
        ⟨d, _, _, _, _, hb⟩
      · rw [hb]; have := ih st h; exact ⟨by omega, this.2⟩
      · rw [hb]; have := ih { st with live := false } h; exact ⟨by simp at this ⊢; omega, this.2⟩
      · rw [hb]; have := ih (raiseSt st) h; simp only [raiseSt] at this ⊢; exact ⟨by omega, this.2⟩
      · rw [hb]; have := ih (rejSt pr e st d) (by simp only [rejSt]; omega)
        simp only [rejSt] at this ⊢; exact ⟨by omega, this.2⟩
      · rw [hb]; have := ih (accSt pr e st d) h; simp only [accSt] at this ⊢; exact ⟨by omega, this.2⟩
  have := key (reject + 1) (start pr cached p s) (by cases cached <;> simp [start])
  unfold lmStep
  refine ⟨?_, this.2⟩
  have h0 : (start pr cached p s : St P S ℝ).solves = 0 := by cases cached <;> rfl
  omega

section contract
variable (hinv : RetrOK pr e)
include hinv

/-- **The returned value (= `optimizer.loss`) is the loss at the parameters left behind**, provided the
cached loss the call started from was the loss at the parameters it was given (first call: no cache). -/
theorem returns_loss_at_params (cached : Option ℝ) (p : P) (s : S)
    (hc : cached = none ∨ cached = some (pr.lossAt p)) :
    (lmStep pr reject e cached p s).loss = pr.lossAt (lmStep pr reject e cached p s).p :=
  (loop_inv pr reject e hinv _ p _ _ (start_inv pr reject cached p s hc)).loss_true

/-- … and this holds at every intermediate point of the loop as well (after any number of passes). -/
theorem loss_true_throughout (cached : Option ℝ) (p : P) (s : S)
    (hc : cached = none ∨ cached = some (pr.lossAt p)) (n : Nat) :
    (loop pr reject e n (start pr cached p s)).loss = pr.lossAt (loop pr reject e n (start pr cached p s)).p :=
  (loop_inv pr reject e hinv _ p _ _ (start_inv pr reject cached p s hc)).loss_true

/-- **Never a worse loss unless the rejections were exhausted in this call**: the returned loss is at
most the loss at the parameters the call was given, or `reject_count = reject` (and then exactly
`reject+1` trials were made). `optimizer.last` is the loss at the given parameters. -/
theorem monotone_unless_exhausted (cached : Option ℝ) (p : P) (s : S)
    (hc : cached = none ∨ cached = some (pr.lossAt p)) :
    let st := lmStep pr reject e cached p s
    st.last = pr.lossAt p ∧
    (st.loss ≤ pr.lossAt p ∨ (st.rc = reject ∧ st.solves = reject + 1)) := by
  intro st
  have hI := loop_inv pr reject e hinv _ p (reject + 1) _ (start_inv pr reject cached p s hc)
  have hd := hI.dead (lm_halts pr reject e cached p s 0).1
  refine ⟨hI.last_eq, ?_⟩
  rcases hd.2 with h | h
  · exact Or.inl h
  · right; exact ⟨h, by have := hd.1; rw [h] at this; exact this⟩

/-- **Exactly `reject_count + 1` solves** were made when the call returns. -/
theorem solves_eq_rc_succ (cached : Option ℝ) (p : P) (s : S)
    (hc : cached = none ∨ cached = some (pr.lossAt p)) :
    (lmStep pr reject e cached p s).solves = (lmStep pr reject e cached p s).rc + 1 :=
  ((loop_inv pr reject e hinv _ p (reject + 1) _ (start_inv pr reject cached p s hc)).dead
    (lm_halts pr reject e cached p s 0).1).1

/-- **Every rejected trial restores the parameters**: whenever the loop is about to make another
trial (after any number `n` of passes, i.e. after `n` rejections), the parameters are the ones the call
was given, the cached loss is the loss there, and `reject_count = solves = n`-th value. -/
theorem reject_restores (cached : Option ℝ) (p : P) (s : S)
    (hc : cached = none ∨ cached = some (pr.lossAt p)) (n : Nat)
    (hl : (loop pr reject e n (start pr cached p s)).live = true) :
    let st := loop pr reject e n (start pr cached p s)
    st.p = p ∧ st.loss = pr.lossAt p ∧ st.last = pr.lossAt p ∧ st.solves = st.rc := by
  intro st
  have hI := loop_inv pr reject e hinv _ p n _ (start_inv pr reject cached p s hc)
  have := hI.live_p hl
  exact ⟨this.1, this.2.1, hI.last_eq, this.2.2⟩

omit hinv in
/-- One pass that rejects (`reject_count` went up): parameters are `Retr(Retr(p, D), -D)`, the loss is
reset to `last`, the strategy *was* updated with the trial's loss, and the loop goes on. -/
theorem reject_pass (st : St P S ℝ) (h : (body pr reject e st).rc = st.rc + 1) :
    ∃ d, e.solve st.solves st.p = some d ∧ st.last < pr.lossAt (pr.retr st.p d) ∧ st.rc < reject ∧
      body pr reject e st = rejSt pr e st d := by
  rcases body_spec pr reject e st with ⟨_, hb⟩ | ⟨_, _, hb⟩ | ⟨_, _, _, hb⟩ | ⟨d, _, _, hs, hw, hr, hb⟩ |
    ⟨d, _, _, _, _, hb⟩
  · rw [hb] at h; omega
  · rw [hb] at h; simp at h
  · rw [hb] at h; simp [raiseSt] at h
  · exact ⟨d, hs, hw, hr, hb⟩
  · rw [hb] at h; simp [accSt] at h

/-- … and with the retraction contract that state has the parameters and the loss of before the trial. (The parameter
part IS the contract `RetrOK` applied to this very step — nothing more is claimed; the content is that the loss is reset
and the loop goes on. For an inexact retraction see `reject_restores_within_defect`.) -/
theorem reject_pass_restores (st : St P S ℝ) (h : (body pr reject e st).rc = st.rc + 1) :
    (body pr reject e st).p = st.p ∧ (body pr reject e st).loss = st.last ∧
      (body pr reject e st).live = true := by
  obtain ⟨d, hs, _, _, hb⟩ := reject_pass pr reject e st h
  rw [hb]
  exact ⟨hinv _ _ _ hs, rfl, rfl⟩

/-- **A solver that raises at the `j`-th solve of the call, for every `j`**: the call ends there with the
parameters, the loss, the strategy state and the reject counter exactly as they were before that
trial — in particular with the parameters the call was given and the true loss there. -/
theorem solver_raise_safe (cached : Option ℝ) (p : P) (s : S)
    (hc : cached = none ∨ cached = some (pr.lossAt p)) (j : Nat)
    (hl : (loop pr reject e j (start pr cached p s)).live = true)
    (hraise : e.solve (loop pr reject e j (start pr cached p s)).solves
                (loop pr reject e j (start pr cached p s)).p = none) (n : Nat) :
    let before := loop pr reject e j (start pr cached p s)
    let after := loop pr reject e (j + 1 + n) (start pr cached p s)
    after.live = false ∧ after.p = before.p ∧ after.p = p ∧ after.loss = before.loss ∧
      after.loss = pr.lossAt p ∧ after.s = before.s ∧ after.rc = before.rc ∧
      after.solves = before.solves + 1 := by
  intro before after
  have hI := loop_inv pr reject e hinv _ p j _ (start_inv pr reject cached p s hc)
  have hp := hI.live_p hl
  have hb : body pr reject e before = raiseSt before := by
    rcases body_spec pr reject e before with ⟨h1, _⟩ | ⟨_, hcnd, _⟩ | ⟨_, _, _, hb⟩ | ⟨d, _, _, hs, _⟩ |
      ⟨d, _, _, hs, _⟩
    · rw [hl] at h1; simp at h1
    · exfalso; apply hcnd; rw [hI.last_eq, hp.2.1]
    · exact hb
    · rw [hraise] at hs; simp at hs
    · rw [hraise] at hs; simp at hs
  have ha : after = raiseSt before := by
    show loop pr reject e (j + 1 + n) _ = _
    rw [loop_add, loop_succ', hb]
    exact loop_dead pr reject e n _ rfl
  rw [ha]
  exact ⟨rfl, rfl, hp.1, rfl, hp.2.1, rfl, rfl, rfl⟩

/-- **Complete description of a call that ends by accepting (or by exhaustion) at trial `j`.**
If the solves `0..j` succeed (returning `ds i` at the given parameters), trials `0..j-1` are worse
than the starting loss, `j ≤ reject`, and trial `j` is not worse *or* `j = reject`, then the call makes
exactly `j+1` trials, rejects `j` of them, leaves the parameters at trial `j`'s point, returns the
loss there, and the strategy has been updated once per trial, in order. -/
theorem lm_accept_spec (p0 : P) (s0 : S) (cached : Option ℝ)
    (hc : cached = none ∨ cached = some (pr.lossAt p0)) (ds : Nat → D) (j : Nat)
    (hsolve : ∀ i, i ≤ j → e.solve i p0 = some (ds i))
    (hworse : ∀ i, i < j → pr.lossAt p0 < pr.lossAt (pr.retr p0 (ds i)))
    (hj : j ≤ reject)
    (hacc : ¬ pr.lossAt p0 < pr.lossAt (pr.retr p0 (ds j)) ∨ j = reject) :
    lmStep pr reject e cached p0 s0 =
      { p := pr.retr p0 (ds j), s := sAfter pr e p0 (pr.lossAt p0) ds s0 (j + 1),
        loss := pr.lossAt (pr.retr p0 (ds j)), last := pr.lossAt p0, rc := j, solves := j + 1,
        live := false } := by
  have hst : (start pr cached p0 s0 : St P S ℝ) =
      { p := p0, s := s0, loss := pr.lossAt p0, last := pr.lossAt p0, rc := 0, solves := 0, live := true } := by
    rcases hc with rfl | rfl <;> rfl
  unfold lmStep
  have : reject + 1 = j + 1 + (reject - j) := by omega
  rw [this, loop_add, loop_succ', hst,
    loop_prefix pr reject e hinv p0 (pr.lossAt p0) ds s0 j (fun i hi => hsolve i (by omega)) hworse hj]
  have hb : body pr reject e
      ({ p := p0, s := sAfter pr e p0 (pr.lossAt p0) ds s0 j, loss := pr.lossAt p0, last := pr.lossAt p0,
         rc := j, solves := j, live := true } : St P S ℝ) =
      { p := pr.retr p0 (ds j), s := sAfter pr e p0 (pr.lossAt p0) ds s0 (j + 1),
        loss := pr.lossAt (pr.retr p0 (ds j)), last := pr.lossAt p0, rc := j, solves := j + 1,
        live := false } := by
    have hs := hsolve j le_rfl
    have hcond : (decide (pr.lossAt p0 < pr.lossAt (pr.retr p0 (ds j))) && decide (j < reject)) = false := by
      rcases hacc with h | h
      · simp [h]
      · simp [h]
    simp only [body, le_real, le_refl, decide_true, Bool.and_self, if_true, hs, lt_real, hcond,
      sAfter_succ]
    simp
  rw [hb]
  exact loop_dead pr reject e _ _ rfl

/-- **Complete description of a call that ends because the `j`-th solve raises** (after `j` worse,
rejected trials): parameters as given, loss as cached, `reject_count = j`, strategy updated `j` times. -/
theorem lm_raise_spec (p0 : P) (s0 : S) (cached : Option ℝ)
    (hc : cached = none ∨ cached = some (pr.lossAt p0)) (ds : Nat → D) (j : Nat)
    (hsolve : ∀ i, i < j → e.solve i p0 = some (ds i))
    (hworse : ∀ i, i < j → pr.lossAt p0 < pr.lossAt (pr.retr p0 (ds i)))
    (hj : j ≤ reject)
    (hraise : e.solve j p0 = none) :
    lmStep pr reject e cached p0 s0 =
      { p := p0, s := sAfter pr e p0 (pr.lossAt p0) ds s0 j,
        loss := pr.lossAt p0, last := pr.lossAt p0, rc := j, solves := j + 1, live := false } := by
  have hst : (start pr cached p0 s0 : St P S ℝ) =
      { p := p0, s := s0, loss := pr.lossAt p0, last := pr.lossAt p0, rc := 0, solves := 0, live := true } := by
    rcases hc with rfl | rfl <;> rfl
  unfold lmStep
  have : reject + 1 = j + 1 + (reject - j) := by omega
  rw [this, loop_add, loop_succ', hst, loop_prefix pr reject e hinv p0 (pr.lossAt p0) ds s0 j hsolve hworse hj]
  have hb : body pr reject e
      ({ p := p0, s := sAfter pr e p0 (pr.lossAt p0) ds s0 j, loss := pr.lossAt p0, last := pr.lossAt p0,
         rc := j, solves := j, live := true } : St P S ℝ) =
      { p := p0, s := sAfter pr e p0 (pr.lossAt p0) ds s0 j,
        loss := pr.lossAt p0, last := pr.lossAt p0, rc := j, solves := j + 1, live := false } := by
    simp only [body, le_real, le_refl, decide_true, Bool.and_self, if_true, hraise]
  rw [hb]
  exact loop_dead pr reject e _ _ rfl

/-! ## histories of calls -/

omit hinv in
theorem consistent_fresh (p : P) (s : S) :
    Consistent pr ({ p := p, s := s, cached := none, last := none, rc := 0 } : Opt P S ℝ) := Or.inl rfl

/-- **One call in a history**: from a consistent optimizer the call returns (and caches) the true loss
at the new parameters, records in `last` the true loss at the parameters it was given, does not
increase the loss unless `reject` rejections were used up *in this call* (the counter restarts at 0),
and leaves the optimizer consistent. -/
theorem lmCall_spec (o : Opt P S ℝ) (ho : Consistent pr o) :
    let o' := lmCall pr reject o e
    Consistent pr o' ∧ o'.cached = some (pr.lossAt o'.p) ∧ o'.last = some (pr.lossAt o.p) ∧
      o'.rc ≤ reject ∧
      (∀ l, o'.cached = some l → l ≤ pr.lossAt o.p ∨ o'.rc = reject) := by
  intro o'
  have h1 := returns_loss_at_params pr reject e hinv o.cached o.p o.s ho
  have h2 := monotone_unless_exhausted pr reject e hinv o.cached o.p o.s ho
  have h3 := trials_le pr reject e o.cached o.p o.s
  have hc : o'.cached = some (pr.lossAt o'.p) := by
    show some _ = some _
    rw [h1]; rfl
  refine ⟨Or.inr hc, hc, ?_, h3.2, ?_⟩
  · show some _ = some _
    rw [h2.1]
  · intro l hl
    have : l = (lmStep pr reject e o.cached o.p o.s).loss := by
      have : o'.cached = some (lmStep pr reject e o.cached o.p o.s).loss := rfl
      rw [this] at hl; exact (Option.some.inj hl).symm
    rw [this]
    rcases h2.2 with h | h
    · exact Or.inl h
    · exact Or.inr h.1

omit hinv in
/-- **All histories**: after any sequence of `step()` calls (each with its own solver behaviour —
raising whenever it likes — and its own strategy inputs) the optimizer is consistent, so `lmCall_spec`
applies to every call of every history. -/
theorem lmRun_consistent (es : List (Env P D S ℝ)) (hes : ∀ e ∈ es, RetrOK pr e) (o : Opt P S ℝ)
    (ho : Consistent pr o) : Consistent pr (lmRun pr reject o es) := by
  induction es generalizing o with
  | nil => exact ho
  | cons e es ih =>
    show Consistent pr (lmRun pr reject (lmCall pr reject o e) es)
    exact ih (fun e' he' => hes e' (List.mem_cons_of_mem _ he')) _
      (lmCall_spec pr reject e (hes e (List.mem_cons_self ..)) o ho).1

omit hinv in
/-- … in particular the value cached after any history is the true loss at the current parameters
(as soon as at least one call was made). -/
theorem lmRun_reports_true_loss (es : List (Env P D S ℝ)) (hes : ∀ e ∈ es, RetrOK pr e) (o : Opt P S ℝ)
    (ho : Consistent pr o) (hne : es ≠ []) :
    (lmRun pr reject o es).cached = some (pr.lossAt (lmRun pr reject o es).p) := by
  induction es generalizing o with
  | nil => exact absurd rfl hne
  | cons e es ih =>
    show (lmRun pr reject (lmCall pr reject o e) es).cached = _
    have he := hes e (List.mem_cons_self ..)
    have hes' : ∀ e' ∈ es, RetrOK pr e' := fun e' he' => hes e' (List.mem_cons_of_mem _ he')
    by_cases h : es = []
    · subst h
      exact (lmCall_spec pr reject e he o ho).2.1
    · exact ih hes' _ (lmCall_spec pr reject e he o ho).1 h

end contract

/-- **Over any history in which no call runs out of rejections the loss never goes up**: the loss cached
after the history is at most the loss at the initial parameters. -/
theorem lmRun_monotone (es : List (Env P D S ℝ)) (hes : ∀ e ∈ es, RetrOK pr e) (o : Opt P S ℝ) (ho : Consistent pr o)
    (hne : ∀ k, k < es.length → (lmRun pr reject o (es.take (k + 1))).rc < reject) :
    ∀ l, (lmRun pr reject o es).cached = some l → es ≠ [] → l ≤ pr.lossAt o.p := by
  induction es generalizing o with
  | nil => intro l _ h; exact absurd rfl h
  | cons e es ih =>
    intro l hl _
    have hes' : ∀ e' ∈ es, RetrOK pr e' := fun e' he' => hes e' (List.mem_cons_of_mem _ he')
    have hc := lmCall_spec pr reject e (hes e (List.mem_cons_self ..)) o ho
    have hrc : (lmCall pr reject o e).rc < reject := by
      have := hne 0 (by simp)
      simpa [lmRun] using this
    have h1 : pr.lossAt (lmCall pr reject o e).p ≤ pr.lossAt o.p := by
      rcases hc.2.2.2.2 _ hc.2.1 with h | h
      · exact h
      · omega
    by_cases hes : es = []
    · subst hes
      have : (lmRun pr reject o [e]).cached = some (pr.lossAt (lmCall pr reject o e).p) := hc.2.1
      rw [this] at hl
      rw [← Option.some.inj hl]; exact h1
    · have := ih hes' (lmCall pr reject o e) hc.1 (by
        intro k hk
        have := hne (k + 1) (by simp; omega)
        simpa [lmRun] using this) l hl hes
      exact le_trans this h1

/-- **Any invariant of the strategy state that `update` preserves survives every call** (used below for
the `[min,max]` bounds): the loop only ever changes `pg` through `strategy.update`. -/
theorem lm_strategy_invariant (I : S → Prop) (hI : ∀ s a b d, I s → I (e.upd s a b d))
    (cached : Option ℝ) (p : P) (s : S) (hs : I s) : I (lmStep pr reject e cached p s).s := by
  have key : ∀ (n : Nat) (st : St P S ℝ), I st.s → I (loop pr reject e n st).s := by
    intro n
    induction n with
    | zero => intro st h; exact h
    | succ n ih =>
      intro st h
      rw [loop_succ]
      apply ih
      rcases body_spec pr reject e st with ⟨_, hb⟩ | ⟨_, _, hb⟩ | ⟨_, _, _, hb⟩ | ⟨d, _, _, _, _, _, hb⟩ |
        ⟨d, _, _, _, _, hb⟩
      · rw [hb]; exact h
      · rw [hb]; exact h
      · rw [hb]; exact h
      · rw [hb]; exact hI _ _ _ _ h
      · rw [hb]; exact hI _ _ _ _ h
  exact key _ _ (by cases cached <;> exact hs)

/-- … and every history of calls. -/
theorem lmRun_strategy_invariant (I : S → Prop) (es : List (Env P D S ℝ))
    (hI : ∀ e ∈ es, ∀ s a b d, I s → I (e.upd s a b d)) (o : Opt P S ℝ) (hs : I o.s) :
    I (lmRun pr reject o es).s := by
  induction es generalizing o with
  | nil => exact hs
  | cons e es ih =>
    show I (lmRun pr reject (lmCall pr reject o e) es).s
    apply ih (fun e' he' => hI e' (List.mem_cons_of_mem _ he'))
    exact lm_strategy_invariant pr reject e I (hI e (List.mem_cons_self ..)) o.cached o.p o.s hs

/-- A solver that raises leaves the strategy untouched in that pass, and a strategy update happens
exactly once per successful solve: the strategy state after the call is determined by the trials. -/
theorem raise_pass_no_update (st : St P S ℝ) (hl : st.live = true) (hc : st.last ≤ st.loss)
    (hs : e.solve st.solves st.p = none) :
    body pr reject e st = { st with solves := st.solves + 1, live := false } := by
  rcases body_spec pr reject e st with ⟨h1, _⟩ | ⟨_, hcnd, _⟩ | ⟨_, _, _, hb⟩ | ⟨d, _, _, hs', _⟩ | ⟨d, _, _, hs', _⟩
  · rw [hl] at h1; simp at h1
  · exact absurd hc hcnd
  · exact hb
  · rw [hs] at hs'; simp at hs'
  · rw [hs] at hs'; simp at hs'

/-! ## Gauss-Newton -/

/-- **`GaussNewton.step` returns the loss at the new parameters and records the previous one.** -/
theorem gn_step_spec (solve : P → Option D) (o : GNOpt P ℝ) (d : D) (hs : solve o.p = some d)
    (ho : o.loss = none ∨ o.loss = some (pr.lossAt o.p)) :
    let o' := gnStep pr solve o
    o'.p = pr.retr o.p d ∧ o'.loss = some (pr.lossAt o'.p) ∧ o'.last = some (pr.lossAt o.p) := by
  obtain ⟨p, loss, last⟩ := o
  simp only at hs ho
  rcases ho with rfl | rfl <;> simp [gnStep, hs]

/-- a raising solver leaves a GN optimizer untouched (the exception propagates before any assignment) -/
theorem gn_raise_safe (solve : P → Option D) (o : GNOpt P ℝ) (hs : solve o.p = none) :
    gnStep pr solve o = o := by
  simp [gnStep, hs]

/-- **All GN histories**: the cached loss is always the true loss at the current parameters, and `last`
(once set) is the true loss at the parameters of the previous successful call. -/
theorem gnRun_consistent (solves : List (P → Option D)) (o : GNOpt P ℝ)
    (ho : o.loss = none ∨ o.loss = some (pr.lossAt o.p)) :
    (gnRun pr o solves).loss = none ∨ (gnRun pr o solves).loss = some (pr.lossAt (gnRun pr o solves).p) := by
  induction solves generalizing o with
  | nil => exact ho
  | cons sv svs ih =>
    show (gnRun pr (gnStep pr sv o) svs).loss = none ∨ _
    apply ih
    cases hs : sv o.p with
    | none => rw [gn_raise_safe pr sv o hs]; exact ho
    | some d => exact Or.inr (gn_step_spec pr sv o d hs ho).2.1

/-! ## strategies -/

/-- **Constant**: the damping (and everything else in `pg`) is unchanged. -/
theorem constant_step (h : Hyper ℝ) (s : SState ℝ) (num den : ℝ) :
    stratUpd Kind.constant h s num den = s := rfl

/-- the classification of the step quality `ρ = num/den` is the documented one -/
theorem verdict_spec (high low num den : ℝ) (hd : den ≠ 0) :
    (high < num / den → verdict high low num den = Verdict.very) ∧
    (¬ high < num / den → low < num / den → verdict high low num den = Verdict.ok) ∧
    (¬ high < num / den → ¬ low < num / den → verdict high low num den = Verdict.bad) := by
  rw [verdict_of_ne high low num den hd]
  refine ⟨fun h => by simp [h], fun h1 h2 => by simp [h1, h2], fun h1 h2 => by simp [h1, h2]⟩

/-- `0/0` (a zero step at a stationary point gives `NaN`) counts as unsuccessful -/
theorem verdict_nan (high low : ℝ) : verdict high low 0 0 = Verdict.bad := by
  unfold verdict; rw [isZero_eq]; simp

/-- **Adaptive**: `λ ← clamp(λ·down)` / `clamp(λ)` / `clamp(λ·up)` by the ratio of actual to predicted
decrease, `clamp x = max(min, min(x, max))`; nothing else in `pg` changes. -/
theorem adaptive_step (h : Hyper ℝ) (s : SState ℝ) (num den : ℝ) (hd : den ≠ 0) :
    let s' := stratUpd Kind.adaptive h s num den
    (h.high < num / den → s'.damping = max h.smin (min (s.damping * s.down) h.smax)) ∧
    (¬ h.high < num / den → h.low < num / den → s'.damping = max h.smin (min s.damping h.smax)) ∧
    (¬ h.high < num / den → ¬ h.low < num / den → s'.damping = max h.smin (min (s.damping * h.up) h.smax)) ∧
    s'.radius = s.radius ∧ s'.down = s.down := by
  intro s'
  obtain ⟨v1, v2, v3⟩ := verdict_spec h.high h.low num den hd
  refine ⟨fun a => ?_, fun a b => ?_, fun a b => ?_, rfl, rfl⟩
  · show (updAdaptive h s (verdict h.high h.low num den)).damping = _
    rw [v1 a]; simp [updAdaptive, clampMM_eq]
  · show (updAdaptive h s (verdict h.high h.low num den)).damping = _
    rw [v2 a b]; simp [updAdaptive, clampMM_eq]
  · show (updAdaptive h s (verdict h.high h.low num den)).damping = _
    rw [v3 a b]; simp [updAdaptive, clampMM_eq]

/-- "same" really is the same damping once the damping is inside `[min,max]` -/
theorem adaptive_same (h : Hyper ℝ) (s : SState ℝ) (num den : ℝ) (hd : den ≠ 0)
    (h1 : ¬ h.high < num / den) (h2 : h.low < num / den) (hlo : h.smin ≤ s.damping) (hhi : s.damping ≤ h.smax) :
    stratUpd Kind.adaptive h s num den = s := by
  have := (adaptive_step h s num den hd).2.1 h1 h2
  rw [min_eq_left hhi, max_eq_right hlo] at this
  obtain ⟨a, b, c⟩ := s
  have h4 := (adaptive_step h ⟨a, b, c⟩ num den hd).2.2.2
  cases hs : stratUpd Kind.adaptive h ⟨a, b, c⟩ num den with
  | mk a' b' c' =>
    rw [hs] at this h4
    simp only at this h4
    rw [this, h4.1, h4.2]

/-- **Adaptive stays within `[min,max]`** after every update, whatever the quality (also `NaN`/`inf`). -/
theorem adaptive_bounds (h : Hyper ℝ) (s : SState ℝ) (num den : ℝ) (hmm : h.smin ≤ h.smax) :
    h.smin ≤ (stratUpd Kind.adaptive h s num den).damping ∧
      (stratUpd Kind.adaptive h s num den).damping ≤ h.smax := by
  show h.smin ≤ (updAdaptive h s _).damping ∧ (updAdaptive h s _).damping ≤ h.smax
  unfold updAdaptive
  exact clampMM_bounds h _ hmm

/-- **TrustRegion**: with `Δ = 1/λ`: `Δ ← clamp(up·Δ)`, `down ← clamp(down_init)` (very successful);
`Δ ← clamp(Δ)`, `down ← clamp(down_init)` (successful); `Δ ← clamp(Δ·down)`, `down ← clamp(down·factor)`
(unsuccessful: the shrinking down-factor); and `λ ← 1/Δ`. -/
theorem trust_step (h : Hyper ℝ) (s : SState ℝ) (num den : ℝ) (hd : den ≠ 0) :
    let s' := stratUpd Kind.trust h s num den
    (h.high < num / den →
        s'.radius = max h.smin (min (h.up * (1 / s.damping)) h.smax) ∧ s'.down = max h.smin (min h.down0 h.smax)) ∧
    (¬ h.high < num / den → h.low < num / den →
        s'.radius = max h.smin (min (1 / s.damping) h.smax) ∧ s'.down = max h.smin (min h.down0 h.smax)) ∧
    (¬ h.high < num / den → ¬ h.low < num / den →
        s'.radius = max h.smin (min (1 / s.damping * s.down) h.smax) ∧
        s'.down = max h.smin (min (s.down * h.factor) h.smax)) ∧
    s'.damping = 1 / s'.radius := by
  intro s'
  obtain ⟨v1, v2, v3⟩ := verdict_spec h.high h.low num den hd
  refine ⟨fun a => ?_, fun a b => ?_, fun a b => ?_, ?_⟩
  · show (updTrust h s (verdict h.high h.low num den)).radius = _ ∧ (updTrust h s (verdict h.high h.low num den)).down = _
    rw [v1 a]; simp [updTrust, clampMM_eq]
  · show (updTrust h s (verdict h.high h.low num den)).radius = _ ∧ (updTrust h s (verdict h.high h.low num den)).down = _
    rw [v2 a b]; simp [updTrust, clampMM_eq]
  · show (updTrust h s (verdict h.high h.low num den)).radius = _ ∧ (updTrust h s (verdict h.high h.low num den)).down = _
    rw [v3 a b]; simp [updTrust, clampMM_eq]
  · show (updTrust h s (verdict h.high h.low num den)).damping = 1 / (updTrust h s (verdict h.high h.low num den)).radius
    simp [updTrust]

/-- **TrustRegion stays within bounds**: radius and down-factor in `[min,max]`, hence the damping in
`[1/max, 1/min]`, after every update, whatever the quality. -/
theorem trust_bounds (h : Hyper ℝ) (s : SState ℝ) (num den : ℝ) (hmm : h.smin ≤ h.smax) (hpos : 0 < h.smin) :
    let s' := stratUpd Kind.trust h s num den
    h.smin ≤ s'.radius ∧ s'.radius ≤ h.smax ∧ h.smin ≤ s'.down ∧ s'.down ≤ h.smax ∧
      1 / h.smax ≤ s'.damping ∧ s'.damping ≤ 1 / h.smin ∧ s'.damping * s'.radius = 1 := by
  intro s'
  have hr : h.smin ≤ s'.radius ∧ s'.radius ≤ h.smax := by
    show h.smin ≤ (updTrust h s _).radius ∧ (updTrust h s _).radius ≤ h.smax
    unfold updTrust; exact clampMM_bounds h _ hmm
  have hdn : h.smin ≤ s'.down ∧ s'.down ≤ h.smax := by
    show h.smin ≤ (updTrust h s _).down ∧ (updTrust h s _).down ≤ h.smax
    unfold updTrust; exact clampMM_bounds h _ hmm
  have hdm : s'.damping = 1 / s'.radius := by
    show (updTrust h s _).damping = 1 / (updTrust h s _).radius
    simp [updTrust]
  have hrp : 0 < s'.radius := lt_of_lt_of_le hpos hr.1
  refine ⟨hr.1, hr.2, hdn.1, hdn.2, ?_, ?_, ?_⟩
  · rw [hdm]; exact one_div_le_one_div_of_le hrp hr.2
  · rw [hdm]; exact one_div_le_one_div_of_le hpos hr.1
  · rw [hdm]; field_simp

/-- the bounds *including* `damping·radius = 1` for TrustRegion — that part needs `0 < min` (radius ≠ 0) and the interval
statement needs `min ≤ max`; neither is asserted by the constructors. What holds for every accepted hyper-parameters is
`stratUpd_inRange` / `stratRun_inRange` / `lmRun_inRange` (no hypothesis), `adaptive_degenerate` / `trust_degenerate`
(`min > max`) and `updTrustE_error_iff` (zero damping / radius). -/
theorem stratUpd_inBounds (kd : Kind) (h : Hyper ℝ) (s : SState ℝ) (num den : ℝ)
    (hmm : h.smin ≤ h.smax) (hpos : 0 < h.smin) : InBounds kd h (stratUpd kd h s num den) := by
  cases kd with
  | constant => trivial
  | adaptive => exact adaptive_bounds h s num den hmm
  | trust =>
    have := trust_bounds h s num den hmm hpos
    exact ⟨this.1, this.2.1, this.2.2.1, this.2.2.2.1, this.2.2.2.2.2.2⟩

/-- **Bounds over any history of updates** (any sequence of qualities, length ≥ 1; from then on forever). -/
theorem stratRun_inBounds (kd : Kind) (h : Hyper ℝ) (s : SState ℝ) (qs : List (ℝ × ℝ)) (hne : qs ≠ [])
    (hmm : h.smin ≤ h.smax) (hpos : 0 < h.smin) : InBounds kd h (stratRun kd h s qs) := by
  have key : ∀ (qs : List (ℝ × ℝ)) (s : SState ℝ), InBounds kd h s → InBounds kd h (stratRun kd h s qs) := by
    intro qs
    induction qs with
    | nil => intro s hs; exact hs
    | cons a qs ih => intro s _; exact ih _ (stratUpd_inBounds kd h s a.1 a.2 hmm hpos)
  cases qs with
  | nil => exact absurd rfl hne
  | cons a qs => exact key qs _ (stratUpd_inBounds kd h s a.1 a.2 hmm hpos)

/-- **Bounds over any history of LM calls** driven by a library strategy (each call with its own
Jacobian / residual, i.e. its own `den`): once `pg` is within bounds it stays there through every trial
of every call; and it *is* within bounds after the first trial that reaches `update`. -/
theorem lmRun_inBounds (kd : Kind) (h : Hyper ℝ) (hmm : h.smin ≤ h.smax) (hpos : 0 < h.smin)
    (pr : Prob P D ℝ) (es : List (Env P D (SState ℝ) ℝ))
    (hes : ∀ e ∈ es, ∃ den : D → ℝ, ∀ s a b d, e.upd s a b d = stratUpd kd h s (a - b) (den d))
    (o : Opt P (SState ℝ) ℝ) (ho : InBounds kd h o.s) :
    InBounds kd h (lmRun pr reject o es).s := by
  apply lmRun_strategy_invariant pr reject (InBounds kd h) es _ o ho
  intro e he s a b d _
  obtain ⟨den, hden⟩ := hes e he
  rw [hden]
  exact stratUpd_inBounds kd h s _ _ hmm hpos

/-- after a call whose first solve succeeded, `pg` is within the strategy's bounds whatever it was before -/
theorem lmStep_inBounds_of_first_solve (kd : Kind) (h : Hyper ℝ) (hmm : h.smin ≤ h.smax) (hpos : 0 < h.smin)
    (pr : Prob P D ℝ) (e : Env P D (SState ℝ) ℝ) (den : D → ℝ)
    (hupd : ∀ s a b d, e.upd s a b d = stratUpd kd h s (a - b) (den d))
    (cached : Option ℝ) (p : P) (s : SState ℝ) (d0 : D) (hs : e.solve 0 p = some d0) :
    InBounds kd h (lmStep pr reject e cached p s).s := by
  unfold lmStep
  rw [loop_succ]
  apply loop_preserves pr reject e (InBounds kd h)
  · intro s a b d _; rw [hupd]; exact stratUpd_inBounds kd h s _ _ hmm hpos
  · have hst : (start pr cached p s : St P (SState ℝ) ℝ).live = true ∧ (start pr cached p s).solves = 0 ∧
        (start pr cached p s).p = p ∧ (start pr cached p s).last ≤ (start pr cached p s).loss := by
      cases cached <;> simp [start]
    rcases body_spec pr reject e (start pr cached p s) with ⟨h1, _⟩ | ⟨_, hc, _⟩ | ⟨_, _, hn, _⟩ | ⟨d, _, _, _, _, _, hb⟩ |
      ⟨d, _, _, _, _, hb⟩
    · rw [hst.1] at h1; simp at h1
    · exact absurd hst.2.2.2 hc
    · rw [hst.2.1, hst.2.2.1, hs] at hn; simp at hn
    · rw [hb]; simp only [rejSt]; rw [hupd]; exact stratUpd_inBounds kd h _ _ _ hmm hpos
    · rw [hb]; simp only [accSt]; rw [hupd]; exact stratUpd_inBounds kd h _ _ _ hmm hpos

/-- **A rejected trial is classified "unsuccessful"** whenever the predicted decrease is positive (it is
for every genuine LM step: `qualityDen_pos_of_lm_step`) and the thresholds are positive (constructor asserts): so on rejection
Adaptive multiplies the damping by `up` and TrustRegion multiplies the radius by the current
down-factor and shrinks that factor. -/
theorem rejected_is_unsuccessful (high low last loss den : ℝ) (hw : last < loss) (hden : 0 < den)
    (hh : 0 < high) (hl : 0 < low) : verdict high low (last - loss) den = Verdict.bad := by
  have hq : (last - loss) / den < 0 := div_neg_of_neg_of_pos (by linarith) hden
  exact (verdict_spec high low (last - loss) den (ne_of_gt hden)).2.2 (by linarith) (by linarith)

/-- on a rejected trial the Adaptive damping does not decrease (it is `min(λ·up, max)` when `λ ≥ min`) -/
theorem adaptive_rejected_up (h : Hyper ℝ) (s : SState ℝ) (last loss den : ℝ) (hw : last < loss)
    (hden : 0 < den) (hh : 0 < h.high) (hl : 0 < h.low) (hup : 1 < h.up)
    (hlo : h.smin ≤ s.damping) (hhi : s.damping ≤ h.smax) (hpos : 0 < s.damping) :
    let s' := stratUpd Kind.adaptive h s (last - loss) den
    s'.damping = min (s.damping * h.up) h.smax ∧ s.damping ≤ s'.damping := by
  intro s'
  have hv := rejected_is_unsuccessful h.high h.low last loss den hw hden hh hl
  have hd : s'.damping = max h.smin (min (s.damping * h.up) h.smax) := by
    show (updAdaptive h s (verdict h.high h.low (last - loss) den)).damping = _
    rw [hv]; simp [updAdaptive, clampMM_eq]
  have hge : s.damping ≤ s.damping * h.up := by nlinarith
  have hm : s.damping ≤ min (s.damping * h.up) h.smax := le_min hge hhi
  rw [hd, max_eq_right (le_trans hlo hm)]
  exact ⟨rfl, hm⟩

/-- on a rejected trial the trust region does not grow, and the next shrink is stronger -/
theorem trust_rejected_shrinks (h : Hyper ℝ) (s : SState ℝ) (last loss den : ℝ) (hw : last < loss)
    (hden : 0 < den) (hh : 0 < h.high) (hl : 0 < h.low) :
    let s' := stratUpd Kind.trust h s (last - loss) den
    s'.radius = max h.smin (min (1 / s.damping * s.down) h.smax) ∧
      s'.down = max h.smin (min (s.down * h.factor) h.smax) := by
  intro s'
  have hq : (last - loss) / den < 0 := div_neg_of_neg_of_pos (by linarith) hden
  exact (trust_step h s (last - loss) den (ne_of_gt hden)).2.2.1 (by linarith) (by linarith)

/-- **The shrinking down-factor, closed form**: after `k` consecutive unsuccessful steps with no clamp
active, the radius is `Δ₀·down₀ᵏ·factor^{k(k-1)/2}` (`tri k = k(k-1)/2`, `tri_eq`), the down-factor is
`down₀·factorᵏ` and the damping is `1/Δ`. -/
theorem trust_shrink_closed_form (h : Hyper ℝ) (s : SState ℝ) (k : Nat) (hk : 1 ≤ k)
    (hr : ∀ i, 1 ≤ i → i ≤ k → h.smin ≤ 1 / s.damping * s.down ^ i * h.factor ^ tri i ∧
                      1 / s.damping * s.down ^ i * h.factor ^ tri i ≤ h.smax)
    (hdn : ∀ i, 1 ≤ i → i ≤ k → h.smin ≤ s.down * h.factor ^ i ∧ s.down * h.factor ^ i ≤ h.smax) :
    (trustBad h k s).radius = 1 / s.damping * s.down ^ k * h.factor ^ tri k ∧
    (trustBad h k s).down = s.down * h.factor ^ k ∧
    1 / (trustBad h k s).damping = (trustBad h k s).radius ∧ 2 * tri k = k * (k - 1) := by
  obtain ⟨e1, e2, e3⟩ := trustBad_aux h s k hr hdn
  exact ⟨e3 hk, e2, by rw [e1, e3 hk], tri_eq k⟩

/-- the hypotheses of `trust_shrink_closed_form` hold e.g. for the library defaults (radius 10⁶, down ½,
factor ½, bounds 10⁻⁶ … 10¹⁶) and three consecutive failures -/
example : ∃ (h : Hyper ℝ) (s : SState ℝ), ∀ i, 1 ≤ i → i ≤ 3 →
    (h.smin ≤ 1 / s.damping * s.down ^ i * h.factor ^ tri i ∧ 1 / s.damping * s.down ^ i * h.factor ^ tri i ≤ h.smax) ∧
    (h.smin ≤ s.down * h.factor ^ i ∧ s.down * h.factor ^ i ≤ h.smax) := by
  refine ⟨⟨1/2, 1/1000, 2, 1/2, 1/2, 1/1000000, 10^16⟩, ⟨1/1000000, 1000000, 1/2⟩, ?_⟩
  intro i h1 h3
  have : i = 1 ∨ i = 2 ∨ i = 3 := by omega
  rcases this with rfl | rfl | rfl <;> simp only [tri] <;> norm_num

/-! ## `RobustModel.loss` -/

/-- one kernel (the `[Trivial()]` default or a single user kernel): every output uses it -/
theorem robustLoss_single (rho : ℝ → ℝ) (outs : List (Output ℝ)) :
    robustLoss [rho] outs = (outs.map (fun o => (o.map (fun r => rho (DVec.normSq r))).sum)).sum := by
  unfold robustLoss
  simp only [List.length_singleton, gt_iff_lt, lt_self_iff_false, if_false, List.headD_cons]
  rw [dsum_eq]
  congr 1
  apply List.map_congr_left
  intro o _
  exact outputLoss_eq rho o

/-- several kernels: the `i`-th kernel is applied to the `i`-th output -/
theorem robustLoss_multi (ks : List (ℝ → ℝ)) (outs : List (Output ℝ)) (h : 1 < ks.length) :
    robustLoss ks outs = (List.zipWith outputLoss ks outs).sum := by
  unfold robustLoss
  simp only [gt_iff_lt, h, if_true]
  rw [dsum_eq]

/-- without a kernel the robust loss is the plain sum of squares of all residual entries -/
theorem robustLoss_trivial (outs : List (Output ℝ)) :
    robustLoss [rhoTrivial] outs = (outs.map (fun o => (o.map DVec.normSq).sum)).sum := by
  rw [robustLoss_single]; rfl

/-- the robust loss is non-negative whenever every kernel maps `[0,∞)` to `[0,∞)` -/
theorem robustLoss_nonneg (ks : List (ℝ → ℝ)) (hk : ∀ rho ∈ ks, ∀ x, 0 ≤ x → 0 ≤ rho x) (hne : ks ≠ [])
    (outs : List (Output ℝ)) : 0 ≤ robustLoss ks outs := by
  unfold robustLoss
  split
  · rw [dsum_eq]
    apply List.sum_nonneg
    intro x hx
    simp only [List.mem_iff_getElem, List.getElem_zipWith, List.length_zipWith] at hx
    obtain ⟨i, hi, rfl⟩ := hx
    exact outputLoss_nonneg _ (hk _ (List.getElem_mem _)) _
  · rw [dsum_eq]
    apply List.sum_nonneg
    intro x hx
    simp only [List.mem_map] at hx
    obtain ⟨o, _, rfl⟩ := hx
    cases ks with
    | nil => exact absurd rfl hne
    | cons rho rest => exact outputLoss_nonneg _ (hk rho (List.mem_cons_self ..)) _

/-! ## the retraction contract holds for Euclidean parameters -/

/-- `p.add_(D)` then `p.add_(-D)` on Euclidean parameters (index → value) restores `p` exactly over ℝ -/
theorem vec_retr_inv (p d : Nat → ℝ) : (fun i => (p i + d i) + -(d i)) = p := by
  funext i; ring

/-! ## the retraction contract for SO3 parameters (`p.add_(D)` is `Exp(D)·p`, model `so3Exp` of `Pose/Model/Lie.lean`) -/

/-- **In every branch** `Exp(-x)·(Exp(x)·X) = ‖Exp x‖²·X`: the restored quaternion is the original one up
to the scalar factor `‖Exp x‖²` (the same rotation). -/
theorem so3_retr_scaled (eps : ℝ) (x : Vec3 ℝ) (X : Quat ℝ) :
    (so3Exp eps x.neg).mul ((so3Exp eps x).mul X) =
      ⟨(so3Exp eps x).normSq * X.x, (so3Exp eps x).normSq * X.y,
       (so3Exp eps x).normSq * X.z, (so3Exp eps x).normSq * X.w⟩ := by
  unfold so3Exp
  simp only [vec3_norm_neg]
  by_cases h : eps < x.norm
  · simp only [lt_real, h, decide_true, if_true]
    exact quat_conj_sandwich x _ _ X
  · simp only [lt_real, h, decide_false]
    exact quat_conj_sandwich x _ _ X

/-- **Closed-form branch (`‖x‖ > eps ≥ 0`): the restore is exact**, `Exp(-x)·(Exp(x)·X) = X`. -/
theorem so3_retr_inv (eps : ℝ) (x : Vec3 ℝ) (X : Quat ℝ) (he : 0 ≤ eps) (h : eps < x.norm) :
    (so3Exp eps x.neg).mul ((so3Exp eps x).mul X) = X := by
  rw [so3_retr_scaled]
  have hn : (so3Exp eps x).normSq = 1 := by
    unfold so3Exp
    simp only [lt_real, h, decide_true, if_true]
    rw [normSq_mk, ← vec3_norm_sq]
    have hpos : x.norm ≠ 0 := ne_of_gt (lt_of_le_of_lt he h)
    simp only [sin_real, cos_real]
    field_simp
    exact Real.sin_sq_add_cos_sq _
  rw [hn]
  obtain ⟨a, b, c, w⟩ := X
  simp

/-- **Taylor branch (`‖x‖ ≤ eps`, `‖x‖ ≤ 1`)**: the factor is `1 + δ` with `0 ≤ δ ≤ ‖x‖⁶/23040`
(`< 5·10⁻²³` for `eps = 10⁻³`): the restore is exact to far below round-off. -/
theorem so3_retr_taylor (eps : ℝ) (x : Vec3 ℝ) (h : ¬ eps < x.norm) (h1 : x.norm * x.norm ≤ 1) :
    0 ≤ (so3Exp eps x).normSq - 1 ∧ (so3Exp eps x).normSq - 1 ≤ (x.norm * x.norm) ^ 3 / 23040 := by
  have ht0 : 0 ≤ x.norm * x.norm := mul_self_nonneg _
  unfold so3Exp
  simp only [lt_real, h, decide_false, Bool.false_eq_true, ↓reduceIte]
  rw [normSq_mk, ← vec3_norm_sq]
  generalize x.norm * x.norm = t at *
  simp only [q_real, k_real, Nat.cast_one, Nat.cast_ofNat]
  have e : (1 / 2 - 1 / 48 * t + 1 / 3840 * (t * t)) ^ 2 * t + (1 - 1 / 8 * t + 1 / 384 * (t * t)) ^ 2 - 1 =
      t ^ 3 * (t ^ 2 - 60 * t + 640) / 14745600 := by ring
  rw [e]
  have ht3 : 0 ≤ t ^ 3 := by positivity
  have hq : 0 ≤ t ^ 2 - 60 * t + 640 := by nlinarith
  have hq2 : t ^ 2 - 60 * t + 640 ≤ 640 := by nlinarith
  constructor
  · positivity
  · have : t ^ 3 * (t ^ 2 - 60 * t + 640) ≤ t ^ 3 * 640 := mul_le_mul_of_nonneg_left hq2 ht3
    rw [div_le_div_iff₀ (by norm_num) (by norm_num)]
    nlinarith

example : ∃ (eps : ℝ) (x : Vec3 ℝ), 0 ≤ eps ∧ eps < x.norm :=
  ⟨0, ⟨1, 0, 0⟩, le_rfl, by simp [Vec3.norm, Vec3.normSq]⟩

/-! ## hardening pass: statelessness, independence of per-call settings, object sharing -/

/-- **`reject` may differ from call to call**: every call still caches the true loss and respects *its own*
`reject` (the bound and the "unless exhausted" clause refer to the value in force during that call). -/
theorem lmRunV_consistent (es : List (Nat × Env P D S ℝ)) (hes : ∀ re ∈ es, RetrOK pr re.2) (o : Opt P S ℝ)
    (ho : Consistent pr o) :
    Consistent pr (lmRunV pr o es) := by
  induction es generalizing o with
  | nil => exact ho
  | cons re es ih =>
    show Consistent pr (lmRunV pr (lmCall pr re.1 o re.2) es)
    exact ih (fun r hr => hes r (List.mem_cons_of_mem _ hr)) _
      (lmCall_spec pr re.1 re.2 (hes re (List.mem_cons_self ..)) o ho).1

/-- the robust loss is a sum over items: the loss of a batch is the sum of the losses of its items taken alone
(one kernel) — no batch-level decision -/
theorem outputLoss_itemwise (rho : ℝ → ℝ) (o₁ o₂ : Output ℝ) :
    outputLoss rho (o₁ ++ o₂) = outputLoss rho o₁ + outputLoss rho o₂ := by
  rw [outputLoss_eq, outputLoss_eq, outputLoss_eq, List.map_append, List.sum_append]

/-! ## hardening pass 2: atomicity of a failing call, independence of copies -/

/-- a call whose very first solve raises leaves parameters and param group untouched and caches the true loss -/
theorem failed_call_state (o : Opt P S ℝ) (ho : Consistent pr o) (hraise : e.solve 0 o.p = none) :
    (lmCall pr reject o e).p = o.p ∧ (lmCall pr reject o e).s = o.s ∧
      (lmCall pr reject o e).cached = some (pr.lossAt o.p) ∧ (lmCall pr reject o e).rc = 0 := by
  have hst : (start pr o.cached o.p o.s : St P S ℝ) =
      { p := o.p, s := o.s, loss := pr.lossAt o.p, last := pr.lossAt o.p, rc := 0, solves := 0, live := true } := by
    rcases ho with h | h <;> rw [h] <;> rfl
  have hb : body pr reject e (start pr o.cached o.p o.s) =
      { p := o.p, s := o.s, loss := pr.lossAt o.p, last := pr.lossAt o.p, rc := 0, solves := 1, live := false } := by
    rw [hst, raise_pass_no_update pr reject e _ rfl (le_refl _) hraise]
  have hl : lmStep pr reject e o.cached o.p o.s =
      { p := o.p, s := o.s, loss := pr.lossAt o.p, last := pr.lossAt o.p, rc := 0, solves := 1, live := false } := by
    unfold lmStep
    rw [loop_succ, hb]
    exact loop_dead pr reject e _ _ rfl
  unfold lmCall
  rw [hl]
  exact ⟨rfl, rfl, rfl, rfl⟩

/-- **A failing call is transparent**: after the caller catches the exception, retrying or continuing with any other
call gives exactly the result of the history without the failed call. -/
theorem failed_call_transparent (o : Opt P S ℝ) (ho : Consistent pr o) (hraise : e.solve 0 o.p = none)
    (e₂ : Env P D S ℝ) :
    lmCall pr reject (lmCall pr reject o e) e₂ = lmCall pr reject o e₂ := by
  obtain ⟨hp, hs, hc, _⟩ := failed_call_state pr reject e o ho hraise
  have key : ∀ (c : Option ℝ), (c = none ∨ c = some (pr.lossAt o.p)) →
      lmStep pr reject e₂ (some (pr.lossAt o.p)) o.p o.s = lmStep pr reject e₂ c o.p o.s := by
    intro c hc'
    rcases hc' with rfl | rfl
    · exact cache_transparent pr reject e₂ o.p o.s
    · rfl
  unfold lmCall at *
  simp only at hp hs hc ⊢
  rw [hp, hs, hc, key o.cached ho]

/-! ## pass 3: every clause over whole call sequences; exact comparison semantics; constructor glue -/

/-- **Every call of every history** (any number of calls, any pattern of accepted / rejected trials, any solver
failures): the `k`-th call starts from a consistent optimizer, returns and caches the true loss at the parameters it
leaves behind, records the true loss at the parameters it was given, makes at most `reject` rejections, and is not worse
than what it was given unless its own rejections were exhausted. -/
theorem lmRun_each_call (o : Opt P S ℝ) (ho : Consistent pr o) (es : List (Env P D S ℝ))
    (hes : ∀ e ∈ es, RetrOK pr e) (k : Nat) (hk : k < es.length) :
    let before := lmRun pr reject o (es.take k)
    let after := lmRun pr reject o (es.take (k + 1))
    Consistent pr before ∧ after = lmCall pr reject before es[k] ∧
      after.cached = some (pr.lossAt after.p) ∧ after.last = some (pr.lossAt before.p) ∧ after.rc ≤ reject ∧
      (pr.lossAt after.p ≤ pr.lossAt before.p ∨ after.rc = reject) := by
  intro before after
  have hb : Consistent pr before :=
    lmRun_consistent pr reject _ (fun e he => hes e (List.mem_of_mem_take he)) o ho
  have ha : after = lmCall pr reject before es[k] := lmRun_take_succ pr reject o es k hk
  have hs := lmCall_spec pr reject es[k] (hes _ (List.getElem_mem hk)) before hb
  rw [ha]
  exact ⟨hb, rfl, hs.2.1, hs.2.2.1, hs.2.2.2.1, hs.2.2.2.2 _ hs.2.1⟩

/-! ### one stateful solver for the whole run: raising at the j-th solve of the run, for every j -/

/-- **Any stateful solver, any run**: whatever the solver does at each of its calls (raise at the 1st, 7th, 23rd solve
of the run …), after any number of `step()` calls the cached loss is the true loss at the current parameters. -/
theorem lmRunG_consistent (gsolve : Nat → P → Option D)
    (hinv : ∀ k p d, gsolve k p = some d → pr.retr (pr.retr p d) (pr.neg d) = p) (upds : List (S → ℝ → ℝ → D → S)) (on : Opt P S ℝ × Nat)
    (ho : Consistent pr on.1) : Consistent pr (lmRunG pr reject gsolve on upds).1 := by
  induction upds generalizing on with
  | nil => exact ho
  | cons u us ih =>
    show Consistent pr (lmRunG pr reject gsolve (lmCallG pr reject gsolve on u) us).1
    apply ih
    rw [lmCallG_fst]
    exact (lmCall_spec pr reject _ (fun k p d h => hinv _ p d h) on.1 ho).1

/-- … and the run as a whole makes at most `(reject+1)` solves per call. -/
theorem lmRunG_solves_le (gsolve : Nat → P → Option D) (upds : List (S → ℝ → ℝ → D → S)) (on : Opt P S ℝ × Nat) :
    (lmRunG pr reject gsolve on upds).2 ≤ on.2 + upds.length * (reject + 1) := by
  induction upds generalizing on with
  | nil => simp [lmRunG]
  | cons u us ih =>
    show (lmRunG pr reject gsolve (lmCallG pr reject gsolve on u) us).2 ≤ _
    have h1 := ih (lmCallG pr reject gsolve on u)
    have h2 : (lmCallG pr reject gsolve on u).2 ≤ on.2 + (reject + 1) := by
      show on.2 + _ ≤ _
      have := (trials_le pr reject { solve := fun i p => gsolve (on.2 + i) p, upd := u } on.1.cached on.1.p on.1.s).1
      omega
    simp only [List.length_cons]
    calc _ ≤ (lmCallG pr reject gsolve on u).2 + us.length * (reject + 1) := h1
      _ ≤ on.2 + (reject + 1) + us.length * (reject + 1) := by omega
      _ = on.2 + (us.length + 1) * (reject + 1) := by ring

/-! ### Gauss-Newton over whole histories -/

/-- **Every GN call of every history**: if its solve succeeds it returns the true loss at the new parameters and
*records the previous loss* (the true loss at the parameters it started from); if the solver raises nothing changes. -/
theorem gnRun_each_step (o : GNOpt P ℝ) (ho : o.loss = none ∨ o.loss = some (pr.lossAt o.p))
    (svs : List (P → Option D)) (k : Nat) (hk : k < svs.length) :
    let before := gnRun pr o (svs.take k)
    let after := gnRun pr o (svs.take (k + 1))
    (∀ d, svs[k] before.p = some d →
        after.p = pr.retr before.p d ∧ after.loss = some (pr.lossAt after.p) ∧ after.last = some (pr.lossAt before.p)) ∧
    (svs[k] before.p = none → after = before) := by
  intro before after
  have hb := gnRun_consistent pr (svs.take k) o ho
  have ha : after = gnStep pr svs[k] before := gnRun_take_succ pr o svs k hk
  refine ⟨fun d hd => ?_, fun hn => ?_⟩
  · rw [ha]; exact gn_step_spec pr svs[k] before d hd hb
  · rw [ha]; exact gn_raise_safe pr svs[k] before hn

/-! ### exact comparison semantics -/

/-- the three quality bands, as equivalences (`>` is strict in both tests) -/
theorem verdict_iff (high low num den : ℝ) (hd : den ≠ 0) :
    (verdict high low num den = Verdict.very ↔ high < num / den) ∧
    (verdict high low num den = Verdict.ok ↔ num / den ≤ high ∧ low < num / den) ∧
    (verdict high low num den = Verdict.bad ↔ num / den ≤ high ∧ num / den ≤ low) := by
  rw [verdict_of_ne high low num den hd]
  by_cases h1 : high < num / den
  · simp [h1, not_le.mpr h1]
  · by_cases h2 : low < num / den
    · simp [h1, h2, not_lt.mp h1]
    · simp [h1, h2, not_lt.mp h1, not_lt.mp h2]

/-- **exactly on `high` the step is NOT "very successful"** (it is "successful" if `low < high`) -/
theorem verdict_at_high (high low den : ℝ) (hd : den ≠ 0) (hlh : low < high) :
    verdict high low (high * den) den = Verdict.ok := by
  have hq : high * den / den = high := by field_simp
  exact ((verdict_iff high low (high * den) den hd).2.1).mpr (by rw [hq]; exact ⟨le_rfl, hlh⟩)

/-- **exactly on `low` the step is "unsuccessful"** (`low ≤ high`) -/
theorem verdict_at_low (high low den : ℝ) (hd : den ≠ 0) (hlh : low ≤ high) :
    verdict high low (low * den) den = Verdict.bad := by
  have hq : low * den / den = low := by field_simp
  exact ((verdict_iff high low (low * den) den hd).2.2).mpr (by rw [hq]; exact ⟨hlh, le_rfl⟩)

/-- the `den = 0` branch of `verdict`, i.e. the convention `den = +0.`. The code's denominator is `-(t)` and is `-0.` when
`J D = 0`: that case (the one that occurs) is `verdictZ_den_zero` with `negZero = true`, where the two non-NaN outcomes
are swapped. -/
theorem verdict_den_zero (high low num : ℝ) :
    verdict high low num 0 = if 0 < num then Verdict.very else Verdict.bad := by
  unfold verdict; rw [isZero_eq]; simp

/-- Adaptive exactly on the thresholds: damping unchanged on `high` (inside the bounds), multiplied by `up` on `low` -/
theorem adaptive_at_thresholds (h : Hyper ℝ) (s : SState ℝ) (den : ℝ) (hd : den ≠ 0) (hlh : h.low < h.high) :
    (stratUpd Kind.adaptive h s (h.high * den) den).damping = max h.smin (min s.damping h.smax) ∧
    (stratUpd Kind.adaptive h s (h.low * den) den).damping = max h.smin (min (s.damping * h.up) h.smax) := by
  constructor
  · show (updAdaptive h s (verdict h.high h.low (h.high * den) den)).damping = _
    rw [verdict_at_high h.high h.low den hd hlh]; simp [updAdaptive, clampMM_eq]
  · show (updAdaptive h s (verdict h.high h.low (h.low * den) den)).damping = _
    rw [verdict_at_low h.high h.low den hd (le_of_lt hlh)]; simp [updAdaptive, clampMM_eq]

/-- **The accept test is strict**: a first trial whose loss EQUALS the current loss is accepted (no rejection). -/
theorem equal_loss_accepted (hinv : RetrOK pr e)
    (p0 : P) (s0 : S) (d0 : D) (hs : e.solve 0 p0 = some d0) (heq : pr.lossAt (pr.retr p0 d0) = pr.lossAt p0) :
    (lmStep pr reject e none p0 s0).p = pr.retr p0 d0 ∧ (lmStep pr reject e none p0 s0).rc = 0 ∧
      (lmStep pr reject e none p0 s0).solves = 1 := by
  have h := lm_accept_spec pr reject e hinv p0 s0 none (Or.inl rfl) (fun _ => d0) 0
    (by intro i hi; have : i = 0 := by omega
        subst this; exact hs)
    (by intro i hi; omega) (Nat.zero_le _) (Or.inl (by rw [heq]; exact lt_irrefl _))
  rw [h]; exact ⟨rfl, rfl, rfl⟩

/-- … and a first trial that is worse by ANY amount is rejected as long as a rejection is left: the loop goes on from
the restored parameters with `reject_count = 1`. -/
theorem worse_loss_rejected (hinv : RetrOK pr e)
    (p0 : P) (s0 : S) (d0 : D) (hs : e.solve 0 p0 = some d0) (hw : pr.lossAt p0 < pr.lossAt (pr.retr p0 d0))
    (hr : 1 ≤ reject) :
    let st := loop pr reject e 1 (start pr none p0 s0)
    st.live = true ∧ st.p = p0 ∧ st.loss = pr.lossAt p0 ∧ st.rc = 1 := by
  intro st
  have h := loop_prefix pr reject e hinv p0 (pr.lossAt p0) (fun _ => d0) s0 1
    (by intro i hi; have : i = 0 := by omega
        subst this; exact hs)
    (by intro i hi; exact hw) hr
  have : st = _ := h
  rw [this]; exact ⟨rfl, rfl, rfl, rfl⟩

/-! ### the damping trajectory of a call is the documented fold over its trials -/

theorem sAfter_eq_stratRun (kd : Kind) (h : Hyper ℝ) (pr : Prob P D ℝ) (e : Env P D (SState ℝ) ℝ) (den : D → ℝ)
    (hupd : ∀ s a b d, e.upd s a b d = stratUpd kd h s (a - b) (den d))
    (p0 : P) (l0 : ℝ) (ds : Nat → D) (s0 : SState ℝ) (i : Nat) :
    sAfter pr e p0 l0 ds s0 i =
      stratRun kd h s0 ((List.range i).map (fun j => (l0 - pr.lossAt (pr.retr p0 (ds j)), den (ds j)))) := by
  induction i with
  | zero => simp [sAfter, stratRun]
  | succ i ih =>
    rw [sAfter_succ, ih, hupd, List.range_succ, List.map_append, stratRun_append]
    simp [stratRun]

/-- **Damping trajectory of a whole call**: with a library strategy, the param group after a call that ends at trial `j`
is the documented update folded over the qualities of trials `0..j`, in order — nothing else touches it. -/
theorem lm_damping_trajectory (kd : Kind) (h : Hyper ℝ) (pr : Prob P D ℝ) (e : Env P D (SState ℝ) ℝ) (den : D → ℝ)
    (hupd : ∀ s a b d, e.upd s a b d = stratUpd kd h s (a - b) (den d))
    (hinv : RetrOK pr e)
    (p0 : P) (s0 : SState ℝ) (cached : Option ℝ) (hc : cached = none ∨ cached = some (pr.lossAt p0)) (ds : Nat → D) (j : Nat)
    (hsolve : ∀ i, i ≤ j → e.solve i p0 = some (ds i))
    (hworse : ∀ i, i < j → pr.lossAt p0 < pr.lossAt (pr.retr p0 (ds i)))
    (hj : j ≤ reject) (hacc : ¬ pr.lossAt p0 < pr.lossAt (pr.retr p0 (ds j)) ∨ j = reject) :
    (lmStep pr reject e cached p0 s0).s =
      stratRun kd h s0 ((List.range (j + 1)).map
        (fun i => (pr.lossAt p0 - pr.lossAt (pr.retr p0 (ds i)), den (ds i)))) := by
  rw [lm_accept_spec pr reject e hinv p0 s0 cached hc ds j hsolve hworse hj hacc]
  exact sAfter_eq_stratRun kd h pr e den hupd p0 (pr.lossAt p0) ds s0 (j + 1)

/-- Constant: unchanged over any history of updates -/
theorem constant_run (h : Hyper ℝ) (s : SState ℝ) (qs : List (ℝ × ℝ)) : stratRun Kind.constant h s qs = s := by
  induction qs generalizing s with
  | nil => rfl
  | cons a qs ih => exact ih s

/-- **TrustRegion resets the down-factor on success, whatever happened before**: after a "very successful" or
"successful" update the down-factor is `clamp(down_init)`, independent of the previous state. -/
theorem trust_reset_on_success (h : Hyper ℝ) (s s' : SState ℝ) (num den : ℝ) (hd : den ≠ 0) (hq : h.low < num / den) :
    (stratUpd Kind.trust h s num den).down = max h.smin (min h.down0 h.smax) ∧
    (stratUpd Kind.trust h s num den).down = (stratUpd Kind.trust h s' num den).down := by
  have key : ∀ t : SState ℝ, (stratUpd Kind.trust h t num den).down = max h.smin (min h.down0 h.smax) := by
    intro t
    by_cases h1 : h.high < num / den
    · exact ((trust_step h t num den hd).1 h1).2
    · exact ((trust_step h t num den hd).2.1 h1 hq).2
  exact ⟨key s, by rw [key s, key s']⟩

/-- the clamp with `min > max` (not excluded by the constructors): the result is `min`, always -/
theorem clamp_degenerate (h : Hyper ℝ) (x : ℝ) (hdeg : h.smax < h.smin) : clampMM h x = h.smin := by
  rw [clampMM_eq]
  exact max_eq_left (le_trans (min_le_right _ _) (le_of_lt hdeg))

/-! ### constructor glue -/

/-- `kernel=None`: the loss is the plain sum of squares -/
theorem lossOf_none (outs : List (Output ℝ)) :
    lossOf KSpec.none outs = (outs.map (fun o => (o.map DVec.normSq).sum)).sum := by
  unfold lossOf normKernels
  exact robustLoss_single (fun x => x) outs

/-- one kernel object and a one-element list are the same thing, for any number of outputs -/
theorem lossOf_single_eq_list1 (rho : ℝ → ℝ) (outs : List (Output ℝ)) :
    lossOf (KSpec.single rho) outs = lossOf (KSpec.list [some rho]) outs := rfl

/-- a `None` entry of a kernel list is the identity kernel for that output -/
theorem lossOf_list (ks : List (Option (ℝ → ℝ))) (outs : List (Output ℝ)) (hk : 1 < ks.length) :
    lossOf (KSpec.list ks) outs =
      (List.zipWith outputLoss (ks.map (fun o => o.getD (fun x => x))) outs).sum := by
  unfold lossOf normKernels
  exact robustLoss_multi _ outs (by simpa using hk)

/-- the kernel list an optimizer ends up with is never empty for `None` / a single kernel -/
theorem normKernels_length (rho : ℝ → ℝ) :
    (normKernels (KSpec.none : KSpec ℝ)).length = 1 ∧ (normKernels (KSpec.single rho)).length = 1 := ⟨rfl, rfl⟩

/-- `TrustRegion(radius)`: the param group starts with `damping·radius = 1`, so the first update sees exactly the radius
the user gave -/
theorem initTrust_spec (radius down : ℝ) (hr : radius ≠ 0) :
    (initTrust radius down).damping * (initTrust radius down).radius = 1 ∧
    1 / (initTrust radius down).damping = radius := by
  simp only [initTrust, k_real, Nat.cast_one]
  constructor <;> field_simp

/-- … and it is within the strategy's bounds iff radius and down-factor are -/
theorem initTrust_inBounds (h : Hyper ℝ) (radius down : ℝ) (hr : radius ≠ 0) :
    InBounds Kind.trust h (initTrust radius down) ↔
      (h.smin ≤ radius ∧ radius ≤ h.smax ∧ h.smin ≤ down ∧ down ≤ h.smax) := by
  have := (initTrust_spec radius down hr).1
  simp only [InBounds]
  constructor
  · intro hh; exact ⟨hh.1, hh.2.1, hh.2.2.1, hh.2.2.2.1⟩
  · intro hh; exact ⟨hh.1, hh.2.1, hh.2.2.1, hh.2.2.2, this⟩

/-! non-vacuity of the pass-3 statements -/
example : Consistent exProb ({ p := 1, s := 0, cached := none, last := none, rc := 0 } : Opt ℝ Nat ℝ) ∧
    1 < [exEnv, exEnv].length ∧ (∀ p d, exProb.retr (exProb.retr p d) (exProb.neg d) = p) :=
  ⟨Or.inl rfl, by simp, by intro p d; simp [exProb]⟩
example : verdict (1/2 : ℝ) (1/1000) ((1/2) * 2) 2 = Verdict.ok := verdict_at_high (1/2 : ℝ) (1/1000) 2 (by norm_num) (by norm_num)
example : verdict (1/2 : ℝ) (1/1000) ((1/1000) * 2) 2 = Verdict.bad := verdict_at_low (1/2 : ℝ) (1/1000) 2 (by norm_num) (by norm_num)
/-- a solver stepping to the mirror point `-x` (equal loss `x²`): accepted at once -/
example : (lmStep exProb 5 ({ solve := fun _ x => some (-2 * x), upd := fun s _ _ _ => s } : Env ℝ ℝ Nat ℝ) none 3 0).rc = 0 :=
  (equal_loss_accepted exProb 5 _ (by intro p d; simp [exProb]) 3 0 (-2 * 3) rfl (by simp [exProb]; ring)).2.1
example : (initTrust (10 : ℝ) (1/2)).damping * (initTrust (10 : ℝ) (1/2)).radius = 1 := (initTrust_spec 10 (1/2) (by norm_num)).1
example : lossOf (KSpec.single (fun x : ℝ => 2 * x)) [[[1, 2]], [[3]]] = lossOf (KSpec.list [some (fun x : ℝ => 2 * x)]) [[[1, 2]], [[3]]] :=
  lossOf_single_eq_list1 _ _

/-! ## pass 4: exact ties -/

/-- the clamp exactly on its bounds returns the bound -/
theorem clampMM_at_bounds (h : Hyper ℝ) (hmm : h.smin ≤ h.smax) :
    clampMM h h.smin = h.smin ∧ clampMM h h.smax = h.smax :=
  ⟨clampMM_id h _ le_rfl hmm, clampMM_id h _ hmm le_rfl⟩

/-- Adaptive landing exactly on `max` (`λ·up = max`) stays there; landing exactly on `min` (`λ·down = min`) stays there -/
theorem adaptive_lands_on_bounds (h : Hyper ℝ) (s : SState ℝ) (hmm : h.smin ≤ h.smax) :
    (s.damping * h.up = h.smax → (updAdaptive h s Verdict.bad).damping = h.smax) ∧
    (s.damping * s.down = h.smin → (updAdaptive h s Verdict.very).damping = h.smin) := by
  constructor
  · intro hh; simp only [updAdaptive]; rw [hh]; exact (clampMM_at_bounds h hmm).2
  · intro hh; simp only [updAdaptive]; rw [hh]; exact (clampMM_at_bounds h hmm).1

/-- **The last allowed trial is kept whatever its loss**: after exactly `reject` rejected trials the `(reject+1)`-th trial
ends the call — accepted if it is not worse, and accepted *although* it is worse (rejections exhausted) — with
`reject_count = reject` and `reject+1` solves in both cases. -/
theorem last_allowed_trial (hinv : RetrOK pr e)
    (p0 : P) (s0 : S) (cached : Option ℝ) (hc : cached = none ∨ cached = some (pr.lossAt p0)) (ds : Nat → D)
    (hsolve : ∀ i, i ≤ reject → e.solve i p0 = some (ds i))
    (hworse : ∀ i, i < reject → pr.lossAt p0 < pr.lossAt (pr.retr p0 (ds i))) :
    (lmStep pr reject e cached p0 s0).p = pr.retr p0 (ds reject) ∧
      (lmStep pr reject e cached p0 s0).loss = pr.lossAt (pr.retr p0 (ds reject)) ∧
      (lmStep pr reject e cached p0 s0).rc = reject ∧ (lmStep pr reject e cached p0 s0).solves = reject + 1 := by
  rw [lm_accept_spec pr reject e hinv p0 s0 cached hc ds reject hsolve hworse le_rfl (Or.inr rfl)]
  exact ⟨rfl, rfl, rfl, rfl⟩

example : clampMM (⟨1/2, 1/1000, 2, 1/2, 1/2, 1/4, 4⟩ : Hyper ℝ) (1/4) = 1/4 :=
  (clampMM_at_bounds _ (by norm_num)).1

/-! ## the property's "up to round-off of the retraction": loop and histories under a retraction defect -/

section defect
variable (dist : P → P → ℝ) (L δ : ℝ) (hD : Defect pr e dist L δ)
include hD

/-- **Every rejected trial leaves the parameters equal up to the defect of the retraction**: whenever the loop is about
to make another trial (after `reject_count` rejections) the parameters are within `reject_count·δ` of the ones the call
was given, and the loss is (exactly) the loss the call started from. -/
theorem reject_restores_within_defect (cached : Option ℝ) (p : P) (s : S) (n : Nat)
    (hl : (loop pr reject e n (start pr cached p s)).live = true) :
    let st := loop pr reject e n (start pr cached p s)
    dist st.p p ≤ st.rc * δ ∧ st.rc ≤ reject ∧ st.loss = (start pr cached p s : St P S ℝ).last ∧ st.solves = st.rc := by
  intro st
  have hI := loop_invD pr reject e dist L δ hD _ p n _ (start_invD pr reject e dist L δ hD cached p s)
  have := hI.live_p hl
  exact ⟨this.2.2, hI.rc_le, this.1, this.2.1⟩

/-- **The returned value is the loss at the parameters left behind, up to the defect**: either the last trial was kept
and the value is *exactly* the loss there, or the call ended with restored parameters (solver raised after `k = reject_count`
rejections) and the value is the loss `l0` the call started from while the parameters are within `k·δ` of the given ones —
so `|returned − loss(parameters left)| ≤ |l0 − loss(given)| + L·k·δ`. -/
theorem returns_loss_within_defect (cached : Option ℝ) (p : P) (s : S) :
    let st := lmStep pr reject e cached p s
    let l0 := (start pr cached p s : St P S ℝ).last
    (st.loss = pr.lossAt st.p ∨ (st.loss = l0 ∧ dist st.p p ≤ st.rc * δ)) ∧
      |st.loss - pr.lossAt st.p| ≤ |l0 - pr.lossAt p| + L * (st.rc * δ) := by
  intro st l0
  have hI := loop_invD pr reject e dist L δ hD _ p (reject + 1) _ (start_invD pr reject e dist L δ hD cached p s)
  have hd := (hI.dead (lm_halts pr reject e cached p s 0).1).2.2
  refine ⟨hd, ?_⟩
  have hnn : 0 ≤ L * ((st.rc : ℝ) * δ) := mul_nonneg hD.lip_nonneg (mul_nonneg (Nat.cast_nonneg _) hD.delta_nonneg)
  rcases hd with h | ⟨h1, h2⟩
  · have h' : st.loss = pr.lossAt st.p := h
    rw [h', sub_self, abs_zero]; exact add_nonneg (abs_nonneg _) hnn
  · show |st.loss - pr.lossAt st.p| ≤ _
    have hl := hD.lip p st.p
    have h3 : L * dist st.p p ≤ L * ((st.rc : ℝ) * δ) := mul_le_mul_of_nonneg_left h2 hD.lip_nonneg
    have hsym : |pr.lossAt p - pr.lossAt st.p| ≤ L * dist st.p p := by
      have := hD.lip st.p p; rwa [abs_sub_comm] at this
    have e1 : st.loss - pr.lossAt st.p = (l0 - pr.lossAt p) + (pr.lossAt p - pr.lossAt st.p) := by
      have : st.loss = l0 := h1
      rw [this]; ring
    rw [e1]
    calc |(l0 - pr.lossAt p) + (pr.lossAt p - pr.lossAt st.p)| ≤ |l0 - pr.lossAt p| + |pr.lossAt p - pr.lossAt st.p| := abs_add_le _ _
      _ ≤ |l0 - pr.lossAt p| + L * ((st.rc : ℝ) * δ) := by linarith

/-- never worse than the loss the call started from unless the rejections were exhausted — no contract needed beyond the
defect bookkeeping (the comparison is between computed losses) -/
theorem monotone_unless_exhausted_defect (cached : Option ℝ) (p : P) (s : S) :
    let st := lmStep pr reject e cached p s
    st.last = (start pr cached p s : St P S ℝ).last ∧
      (st.loss ≤ st.last ∨ (st.rc = reject ∧ st.solves = reject + 1)) := by
  intro st
  have hI := loop_invD pr reject e dist L δ hD _ p (reject + 1) _ (start_invD pr reject e dist L δ hD cached p s)
  have hd := hI.dead (lm_halts pr reject e cached p s 0).1
  refine ⟨hI.last_eq, ?_⟩
  rcases hd.2.1 with h | h
  · left
    have hle : st.last = (start pr cached p s : St P S ℝ).last := hI.last_eq
    rw [hle]; exact h
  · right; exact ⟨h, by have := hd.1; rw [h] at this; exact this⟩

end defect

/-- the cache of the optimizer is true up to `η` -/
def ConsistentD (pr : Prob P D ℝ) (η : ℝ) (o : Opt P S ℝ) : Prop :=
  o.cached = none ∨ ∃ l, o.cached = some l ∧ |l - pr.lossAt o.p| ≤ η

/-- **One call under a defect**: the cache stays true up to `η + L·reject·δ`; it is exact again (`η = 0` suffices) after
every call that keeps its last trial. -/
theorem lmCall_defect (dist : P → P → ℝ) (L δ : ℝ) (hD : Defect pr e dist L δ) (η : ℝ) (hη : 0 ≤ η)
    (o : Opt P S ℝ) (ho : ConsistentD pr η o) :
    ConsistentD pr (η + L * (reject * δ)) (lmCall pr reject o e) := by
  right
  refine ⟨(lmStep pr reject e o.cached o.p o.s).loss, rfl, ?_⟩
  have h := (returns_loss_within_defect pr reject e dist L δ hD o.cached o.p o.s).2
  have hrc := (trials_le pr reject e o.cached o.p o.s).2
  have h0 : |(start pr o.cached o.p o.s : St P S ℝ).last - pr.lossAt o.p| ≤ η := by
    rcases ho with hc | ⟨l, hc, hl⟩
    · rw [hc]; show |pr.lossAt o.p - pr.lossAt o.p| ≤ η; rw [sub_self, abs_zero]; exact hη
    · rw [hc]; exact hl
  have h1 : L * (((lmStep pr reject e o.cached o.p o.s).rc : ℝ) * δ) ≤ L * ((reject : ℝ) * δ) := by
    apply mul_le_mul_of_nonneg_left _ hD.lip_nonneg
    exact mul_le_mul_of_nonneg_right (by exact_mod_cast hrc) hD.delta_nonneg
  show |(lmStep pr reject e o.cached o.p o.s).loss - pr.lossAt (lmStep pr reject e o.cached o.p o.s).p| ≤ _
  linarith

/-- **Any history under a defect**: after `n` calls the cached loss is the loss at the current parameters up to
`η + n·L·reject·δ` (with `δ = 0`: exactly, `lmRun_consistent`). -/
theorem lmRun_defect (dist : P → P → ℝ) (L δ : ℝ) (es : List (Env P D S ℝ)) (hD : ∀ e ∈ es, Defect pr e dist L δ)
    (hL : 0 ≤ L) (hδ : 0 ≤ δ) (η : ℝ) (hη : 0 ≤ η) (o : Opt P S ℝ) (ho : ConsistentD pr η o) :
    ConsistentD pr (η + es.length * (L * (reject * δ))) (lmRun pr reject o es) := by
  induction es generalizing o η with
  | nil => simpa [lmRun] using ho
  | cons e es ih =>
    have h1 := lmCall_defect pr reject e dist L δ (hD e (List.mem_cons_self ..)) η hη o ho
    have hstep : 0 ≤ L * ((reject : ℝ) * δ) := mul_nonneg hL (mul_nonneg (Nat.cast_nonneg _) hδ)
    have := ih (fun e' he' => hD e' (List.mem_cons_of_mem _ he')) (η + L * (reject * δ)) (by linarith) _ h1
    show ConsistentD pr _ (lmRun pr reject (lmCall pr reject o e) es)
    have e2 : η + ((e :: es).length : ℝ) * (L * (reject * δ)) = η + L * (reject * δ) + (es.length : ℝ) * (L * (reject * δ)) := by
      simp only [List.length_cons]; push_cast; ring
    rw [e2]; exact this

/-! ## the retraction contract for the parameter types of pypose -/

/-- Euclidean parameters (`p.add_(D)`, `p.add_(−D)`): the contract holds for every step -/
theorem vec_retrOK (lossAt : (Nat → ℝ) → ℝ) (e : Env (Nat → ℝ) (Nat → ℝ) S ℝ) :
    RetrOK ({ lossAt := lossAt, retr := fun p d i => p i + d i, neg := fun d i => -(d i) } : Prob (Nat → ℝ) (Nat → ℝ) ℝ) e := by
  intro k p d _; funext i; show p i + d i + -(d i) = p i; ring

/-- **SO3 parameters** (`retr X x = Exp(x)·X`): the contract holds for a solver all of whose steps lie on the closed-form
branch of `Exp` (`‖x‖ > eps ≥ 0`). It does NOT hold for steps on the Taylor branch (there `so3_retr_defect`). -/
theorem so3_retrOK (eps : ℝ) (h0 : 0 ≤ eps) (lossAt : Quat ℝ → ℝ) (e : Env (Quat ℝ) (Vec3 ℝ) S ℝ)
    (hstep : ∀ k X x, e.solve k X = some x → eps < x.norm) :
    RetrOK { lossAt := lossAt, retr := SO3Retr eps, neg := Vec3.neg } e := by
  intro k X x hs
  exact so3_retr_inv eps x X h0 (hstep k X x hs)

/-- **SO3, any step**: the restored quaternion is `(1 + c)·X` with `c = 0` on the closed-form branch and
`0 ≤ c ≤ ‖x‖⁶/23040 ≤ eps⁶/23040` on the Taylor branch (`eps ≤ 1`): the defect of the contract, component by component. -/
theorem so3_retr_defect (eps : ℝ) (h0 : 0 ≤ eps) (h1 : eps ≤ 1) (x : Vec3 ℝ) (X : Quat ℝ) :
    ∃ c : ℝ, 0 ≤ c ∧ c ≤ eps ^ 6 / 23040 ∧ (eps < x.norm → c = 0) ∧
      SO3Retr eps (SO3Retr eps X x) x.neg = ⟨(1 + c) * X.x, (1 + c) * X.y, (1 + c) * X.z, (1 + c) * X.w⟩ := by
  refine ⟨(so3Exp eps x).normSq - 1, ?_, ?_, ?_, ?_⟩
  · by_cases h : eps < x.norm
    · rw [so3Exp_normSq_closed eps x h0 h]; simp
    · have hn : x.norm * x.norm ≤ 1 := by
        have := not_lt.mp h
        have hx := Vec3.norm_nonneg x
        nlinarith
      exact (so3_retr_taylor eps x h hn).1
  · by_cases h : eps < x.norm
    · rw [so3Exp_normSq_closed eps x h0 h]; simp; positivity
    · have hle := not_lt.mp h
      have hx := Vec3.norm_nonneg x
      have hn : x.norm * x.norm ≤ 1 := by nlinarith
      have h2 := (so3_retr_taylor eps x h hn).2
      have h3 : (x.norm * x.norm) ^ 3 ≤ eps ^ 6 := by
        have : x.norm * x.norm ≤ eps * eps := by nlinarith
        calc (x.norm * x.norm) ^ 3 ≤ (eps * eps) ^ 3 := pow_le_pow_left₀ (by positivity) this 3
          _ = eps ^ 6 := by ring
      calc _ ≤ (x.norm * x.norm) ^ 3 / 23040 := h2
        _ ≤ eps ^ 6 / 23040 := by gcongr
  · intro h; rw [so3Exp_normSq_closed eps x h0 h]; simp
  · show (so3Exp eps x.neg).mul ((so3Exp eps x).mul X) = _
    rw [so3_retr_scaled]; simp

/-- **SE3 parameters**: exact for steps whose rotation part is on the closed-form branch -/
theorem se3_retrOK (eps : ℝ) (h0 : 0 ≤ eps) (lossAt : SE3 ℝ → ℝ) (e : Env (SE3 ℝ) (se3 ℝ) S ℝ)
    (hstep : ∀ k X x, e.solve k X = some x → eps < x.phi.norm) :
    RetrOK { lossAt := lossAt, retr := SE3Retr eps, neg := se3.neg } e :=
  fun k X x hs => se3_retr_inv eps x X h0 (hstep k X x hs)

/-- **RxSO3 parameters**: exact for steps whose rotation part is on the closed-form branch (any log-scale) -/
theorem rxso3_retrOK (eps : ℝ) (h0 : 0 ≤ eps) (lossAt : RxSO3 ℝ → ℝ) (e : Env (RxSO3 ℝ) (rxso3 ℝ) S ℝ)
    (hstep : ∀ k X x, e.solve k X = some x → eps < x.phi.norm) :
    RetrOK { lossAt := lossAt, retr := RxSO3Retr eps, neg := rxso3.neg } e :=
  fun k X x hs => rxso3_retr_inv eps x X h0 (hstep k X x hs)

/-- **Sim3 parameters, partial**: exact for steps in regime 4 of the coupling matrix (`‖φ‖ > eps`, `|σ| > eps`) or with
`σ = 0`, `‖φ‖ > eps`. Missing: the thin regime `0 < |σ| ≤ eps < ‖φ‖` and the small-angle regimes, where `W(−x) = e^{−σ}RᵀW(x)`
holds only up to the series truncation. -/
theorem sim3_retrOK_partial (eps : ℝ) (h0 : 0 ≤ eps) (lossAt : Sim3 ℝ → ℝ) (e : Env (Sim3 ℝ) (sim3 ℝ) S ℝ)
    (hstep : ∀ k X x, e.solve k X = some x → eps < x.phi.norm ∧ (eps < |x.sigma| ∨ x.sigma = 0)) :
    RetrOK { lossAt := lossAt, retr := Sim3Retr eps, neg := sim3.neg } e :=
  fun k X x hs => sim3_retr_inv eps x X h0 (hstep k X x hs).1 (hstep k X x hs).2

example : ∃ (eps : ℝ) (x : se3 ℝ), 0 ≤ eps ∧ eps < x.phi.norm :=
  ⟨0, ⟨⟨1, 2, 3⟩, ⟨1, 0, 0⟩⟩, le_rfl, by simp [Vec3.norm, Vec3.normSq]⟩

/-! ## the zero-denominator case as the code has it; the error branch of TrustRegion -/

/-- away from a zero denominator the sign flag is irrelevant -/
theorem verdictZ_of_ne (z : Bool) (high low num den : ℝ) (hd : den ≠ 0) :
    verdictZ z high low num den = verdict high low num den := by
  unfold verdictZ verdict
  rw [isZero_eq]; simp [hd]

/-- `verdict` is the `den = +0.` convention -/
theorem verdictZ_false (high low num den : ℝ) : verdictZ false high low num den = verdict high low num den := by
  by_cases hd : den = 0
  · subst hd
    unfold verdictZ verdict
    rw [isZero_eq, isZero_eq]
    by_cases hn : num = 0
    · simp [hn]
    · simp [hn]
  · exact verdictZ_of_ne false high low num den hd

/-- **Zero denominator, as the code computes it** (`den = -(+0.) = -0.`, `negZero = true`, the case `J D = 0`):
`0 / (-0.) = NaN` → "unsuccessful"; a decrease (`last > loss`) gives `-inf` → "unsuccessful" (damping × up);
an increase (`last < loss`) gives `+inf` → "very successful". With `den = +0.` (`negZero = false`) the last two swap. -/
theorem verdictZ_den_zero (z : Bool) (high low num : ℝ) :
    verdictZ z high low num 0 =
      if num = 0 then Verdict.bad else if (decide (0 < num) != z) then Verdict.very else Verdict.bad := by
  unfold verdictZ
  rw [isZero_eq, isZero_eq]
  simp

example : verdictZ true (1/2 : ℝ) (1/1000) 1 0 = Verdict.bad ∧ verdictZ true (1/2 : ℝ) (1/1000) (-1) 0 = Verdict.very ∧
    verdictZ true (1/2 : ℝ) (1/1000) 0 0 = Verdict.bad := by
  refine ⟨?_, ?_, ?_⟩ <;> rw [verdictZ_den_zero] <;> norm_num

/-- **`TrustRegion.update` raises `ZeroDivisionError` exactly when `pg['damping'] = 0` or the clamped radius is `0`**
(`1. / pg['damping']`, `1. / pg['radius']` on Python floats) -/
theorem updTrustE_error_iff (h : Hyper ℝ) (s : SState ℝ) (v : Verdict) :
    updTrustE h s v = .error "ZeroDivisionError" ↔ (s.damping = 0 ∨ (updTrust h s v).radius = 0) := by
  simp only [updTrustE, isZero_eq]
  by_cases h1 : s.damping = 0
  · simp [h1]
  · by_cases h2 : (updTrust h s v).radius = 0
    · simp [h1, h2]
    · simp [h1, h2]

/-- … and otherwise it is the documented update; with `0 < min ≤ max` the radius cannot be `0` -/
theorem updTrustE_ok (h : Hyper ℝ) (s : SState ℝ) (v : Verdict) (hd : s.damping ≠ 0) (hmm : h.smin ≤ h.smax)
    (hpos : 0 < h.smin) : updTrustE h s v = .ok (updTrust h s v) := by
  have hr : (updTrust h s v).radius ≠ 0 := by
    have : h.smin ≤ (updTrust h s v).radius := by unfold updTrust; exact (clampMM_bounds h _ hmm).1
    exact ne_of_gt (lt_of_lt_of_le hpos this)
  simp only [updTrustE, isZero_eq]
  simp [hd, hr]

example : updTrustE (⟨1/2, 1/1000, 2, 1/2, 1/2, 1/1000000, 10^16⟩ : Hyper ℝ) ⟨0, 1, 1/2⟩ Verdict.bad = .error "ZeroDivisionError" :=
  (updTrustE_error_iff _ _ _).mpr (Or.inl rfl)

/-- `stratUpdZ` is `stratUpd` whenever nothing exceptional happens -/
theorem stratUpdZ_eq (kd : Kind) (z : Bool) (h : Hyper ℝ) (s : SState ℝ) (num den : ℝ) (hden : den ≠ 0)
    (hd : s.damping ≠ 0) (hmm : h.smin ≤ h.smax) (hpos : 0 < h.smin) :
    stratUpdZ kd z h s num den = .ok (stratUpd kd h s num den) := by
  cases kd with
  | constant => rfl
  | adaptive => simp only [stratUpdZ, stratUpd, verdictZ_of_ne z _ _ _ _ hden]
  | trust => simp only [stratUpdZ, stratUpd, verdictZ_of_ne z _ _ _ _ hden]; exact updTrustE_ok h s _ hd hmm hpos

/-! ## what "stays within [min,max]" means for every legal choice of hyper-parameters -/

/-- the clamp `max(min, min(x, max))` always lands in `[min, max(min, max)]` — no hypothesis -/
theorem clampMM_range (h : Hyper ℝ) (x : ℝ) : h.smin ≤ clampMM h x ∧ clampMM h x ≤ max h.smin h.smax := by
  rw [clampMM_eq]
  exact ⟨le_max_left _ _, max_le_max le_rfl (min_le_right _ _)⟩

/-- **For every strategy and every hyper-parameters the constructors accept** (no `min ≤ max`, no positivity): after an
update the damping (Adaptive) resp. radius and down-factor (TrustRegion) lie in `[min, max(min, max)]` — which is
`[min, max]` when `min ≤ max` and the single point `min` when `min > max`. -/
theorem stratUpd_inRange (kd : Kind) (h : Hyper ℝ) (s : SState ℝ) (num den : ℝ) :
    InRange kd h (stratUpd kd h s num den) := by
  cases kd with
  | constant => trivial
  | adaptive => show _ ∧ _; unfold stratUpd updAdaptive; exact clampMM_range h _
  | trust =>
    show _ ∧ _ ∧ _ ∧ _
    unfold stratUpd updTrust
    exact ⟨(clampMM_range h _).1, (clampMM_range h _).2, (clampMM_range h _).1, (clampMM_range h _).2⟩

theorem stratRun_inRange (kd : Kind) (h : Hyper ℝ) (s : SState ℝ) (qs : List (ℝ × ℝ)) (hne : qs ≠ []) :
    InRange kd h (stratRun kd h s qs) := by
  have key : ∀ (qs : List (ℝ × ℝ)) (s : SState ℝ), InRange kd h s → InRange kd h (stratRun kd h s qs) := by
    intro qs
    induction qs with
    | nil => intro s hs; exact hs
    | cons a qs ih => intro s _; exact ih _ (stratUpd_inRange kd h s a.1 a.2)
  cases qs with
  | nil => exact absurd rfl hne
  | cons a qs => exact key qs _ (stratUpd_inRange kd h s a.1 a.2)

/-- over any history of LM calls with a library strategy, without any assumption on the hyper-parameters -/
theorem lmRun_inRange (kd : Kind) (h : Hyper ℝ) (pr : Prob P D ℝ) (es : List (Env P D (SState ℝ) ℝ))
    (hes : ∀ e ∈ es, ∃ den : D → ℝ, ∀ s a b d, e.upd s a b d = stratUpd kd h s (a - b) (den d))
    (o : Opt P (SState ℝ) ℝ) (ho : InRange kd h o.s) :
    InRange kd h (lmRun pr reject o es).s := by
  apply lmRun_strategy_invariant pr reject (InRange kd h) es _ o ho
  intro e he s a b d _
  obtain ⟨den, hden⟩ := hes e he
  rw [hden]
  exact stratUpd_inRange kd h s _ _

/-- `min > max` (not excluded by the constructors): the damping is pinned to `min` by every update -/
theorem adaptive_degenerate (h : Hyper ℝ) (s : SState ℝ) (num den : ℝ) (hdeg : h.smax < h.smin) :
    (stratUpd Kind.adaptive h s num den).damping = h.smin := by
  show (updAdaptive h s _).damping = _
  unfold updAdaptive
  exact clamp_degenerate h _ hdeg

theorem trust_degenerate (h : Hyper ℝ) (s : SState ℝ) (num den : ℝ) (hdeg : h.smax < h.smin) :
    (stratUpd Kind.trust h s num den).radius = h.smin ∧ (stratUpd Kind.trust h s num den).down = h.smin := by
  show (updTrust h s _).radius = _ ∧ (updTrust h s _).down = _
  unfold updTrust
  exact ⟨clamp_degenerate h _ hdeg, clamp_degenerate h _ hdeg⟩

/-! ## "by the ratio of actual to predicted decrease": what the denominator is -/

theorem sum_zip_identity : ∀ (R u : List ℝ), R.length = u.length →
    -(List.zipWith (· * ·) u (List.zipWith (fun r ui => 2 * r + ui) R u)).sum =
      (List.zipWith (· * ·) R R).sum - (List.zipWith (· * ·) (List.zipWith (· + ·) R u) (List.zipWith (· + ·) R u)).sum
  | [], [], _ => by simp
  | r :: R, a :: u, h => by
    have ih := sum_zip_identity R u (by simpa using h)
    simp only [List.zipWith_cons_cons, List.sum_cons]
    linarith [ih]
  | [], _ :: _, h => by simp at h
  | _ :: _, [], h => by simp at h

/-- **The denominator of the step quality is the decrease predicted by the linear model**:
`-((J D)ᵀ(2R + J D)) = ‖R‖² − ‖R + J D‖²` (one residual per row of `J`). -/
theorem qualityDen_eq (J : DMat ℝ) (Dv R : DVec ℝ) (hlen : R.length = J.length) :
    qualityDen J Dv R = DVec.normSq R - DVec.normSq (DVec.add R (DMat.mulVec J Dv)) := by
  unfold qualityDen DVec.normSq DVec.dot DVec.add
  simp only [dsum_eq, k_real, Nat.cast_ofNat]
  have hl : R.length = (DMat.mulVec J Dv).length := by unfold DMat.mulVec; simpa using hlen
  exact sum_zip_identity R (DMat.mulVec J Dv) hl

/-- **For a genuine LM step the predicted decrease is positive**: if `D` solves the damped normal equations
`(JᵀJ + Λ) D = −JᵀR` with `Λ` positive definite (the clamped, damped diagonal: C07), then contracting with `D` gives
`‖J D‖² + (J D)·R + DᵀΛD = 0` with `DᵀΛD > 0` for `D ≠ 0`, hence `den = ‖J D‖² + 2·DᵀΛD > 0` — the assumption of
`rejected_is_unsuccessful`. -/
theorem qualityDen_pos_of_lm_step (J : DMat ℝ) (Dv R : DVec ℝ) (hlen : R.length = J.length) (lam : ℝ) (hlam : 0 < lam)
    (hne : DVec.normSq (DMat.mulVec J Dv) + DVec.dot (DMat.mulVec J Dv) R + lam = 0) :
    0 < qualityDen J Dv R ∧ qualityDen J Dv R = DVec.normSq (DMat.mulVec J Dv) + 2 * lam := by
  have hl : R.length = (DMat.mulVec J Dv).length := by unfold DMat.mulVec; simpa using hlen
  have key : qualityDen J Dv R = -(2 * DVec.dot (DMat.mulVec J Dv) R + DVec.normSq (DMat.mulVec J Dv)) := by
    unfold qualityDen DVec.normSq DVec.dot
    simp only [dsum_eq, k_real, Nat.cast_ofNat]
    have : ∀ (R u : List ℝ), R.length = u.length →
        (List.zipWith (· * ·) u (List.zipWith (fun r ui => 2 * r + ui) R u)).sum =
          2 * (List.zipWith (· * ·) u R).sum + (List.zipWith (· * ·) u u).sum := by
      intro R u
      induction R generalizing u with
      | nil => intro h; cases u <;> simp at h ⊢
      | cons r R ih =>
        intro h
        cases u with
        | nil => simp at h
        | cons a u =>
          simp only [List.zipWith_cons_cons, List.sum_cons]
          rw [ih u (by simpa using h)]; ring
    rw [this R _ hl]
  have hnn : 0 ≤ DVec.normSq (DMat.mulVec J Dv) := normSq_nonneg _
  constructor
  · rw [key]; nlinarith
  · rw [key]; linarith

/-! ## `kernel=[]` -/

/-- an empty kernel list makes the first loss evaluation raise `IndexError` (`self.kernel[0]`) -/
theorem robustLossE_nil (outs : List (Output ℝ)) : robustLossE ([] : List (ℝ → ℝ)) outs = .error "IndexError" := rfl

theorem robustLossE_ok (ks : List (ℝ → ℝ)) (hne : ks ≠ []) (outs : List (Output ℝ)) :
    robustLossE ks outs = .ok (robustLoss ks outs) := by
  unfold robustLossE
  cases ks with
  | nil => exact absurd rfl hne
  | cons a ks => rfl

/-- through the constructors: `kernel=[]` is the only spelling that reaches the error; `None` and a single kernel never do -/
theorem lossOfE_spec (rho : ℝ → ℝ) (outs : List (Output ℝ)) :
    lossOfE (KSpec.list []) outs = .error "IndexError" ∧
    lossOfE KSpec.none outs = .ok (lossOf KSpec.none outs) ∧
    lossOfE (KSpec.single rho) outs = .ok (lossOf (KSpec.single rho) outs) := ⟨rfl, rfl, rfl⟩

/-! ## pass 5: the documented defaults -/

/-- **An optimizer built with `strategy` omitted** starts from `TrustRegion()`: radius 10⁶, damping 10⁻⁶, down-factor ½,
bounds 10⁻⁶ … 10¹⁶ — this param group is within the strategy's bounds, so by `lmRun_inBounds` every history of every
default-built optimizer stays there; and by `interleave_independent` several default-built optimizers used interleaved
each follow their own history (nothing is shared through the defaults in the model: the harness checks that of the code). -/
theorem default_trust_inBounds :
    InBounds Kind.trust (⟨1/2, 1/1000, 2, 1/2, 1/2, 1/1000000, 10^16⟩ : Hyper ℝ) (initTrust (10^6) (1/2)) := by
  rw [initTrust_inBounds _ _ _ (by norm_num)]
  norm_num

/-! ## pass 7: the predicted decrease of a genuine LM step, from the linear system itself

`qualityDen_pos_of_lm_step` took the contracted scalar identity as a hypothesis. Here it is derived from what `LM.step`
actually asks of the solver: `D` solves `(JᵀJ + diag Λ) D = −JᵀR` (`SolvesDamped`, model `Pose/Model/LMNormal.lean`;
`Λ_j = clamp(A_jj)(1+damping) − A_jj > 0`, the construction of the matrix being property C07). -/

/-- contracting the damped normal equations with the step: `‖J D‖² + (J D)·R + DᵀΛD = 0` -/
theorem lm_step_contraction (J : DMat ℝ) (lam Dv R : DVec ℝ) (hw : ∀ r ∈ J, r.length = Dv.length)
    (hll : lam.length = Dv.length) (hs : SolvesDamped J lam Dv R) :
    DVec.normSq (DMat.mulVec J Dv) + DVec.dot (DMat.mulVec J Dv) R + wsq lam Dv = 0 := by
  have h : DVec.dot (DVec.add (tmulVec Dv.length J (DMat.mulVec J Dv)) (List.zipWith (· * ·) lam Dv)) Dv =
      DVec.dot (DVec.neg (tmulVec Dv.length J R)) Dv := by
    unfold SolvesDamped at hs; rw [hs]
  rw [ddot_add_left _ _ _ (tmulVec_length _ J _ hw) (by simp [hll]), tmulVec_dot J _ Dv hw, ddot_neg_left,
    tmulVec_dot J R Dv hw, ← wsq_eq, ddot_comm R] at h
  unfold DVec.normSq
  linarith

/-- **Every non-zero step that solves the damped normal equations with a positive diagonal shift predicts a decrease**:
`den = ‖J D‖² + 2·DᵀΛD > 0` — for every Jacobian (any rank, any shape), every residual vector and every positive `Λ`. -/
theorem qualityDen_pos_of_normal_equations (J : DMat ℝ) (lam Dv R : DVec ℝ) (hw : ∀ r ∈ J, r.length = Dv.length)
    (hlen : R.length = J.length) (hll : lam.length = Dv.length) (hpos : ∀ l ∈ lam, 0 < l) (hD : ∃ x ∈ Dv, x ≠ 0)
    (hs : SolvesDamped J lam Dv R) :
    0 < qualityDen J Dv R ∧ qualityDen J Dv R = DVec.normSq (DMat.mulVec J Dv) + 2 * wsq lam Dv :=
  qualityDen_pos_of_lm_step J Dv R hlen (wsq lam Dv) (wsq_pos lam Dv hpos hll hD) (lm_step_contraction J lam Dv R hw hll hs)

/-- **A rejected genuine LM trial is always classified "unsuccessful"** (so Adaptive raises the damping and TrustRegion
shrinks the radius before the next trial: `adaptive_rejected_up`, `trust_rejected_shrinks`): no assumption on the sign of
the predicted decrease is left — it follows from the linear system the step solves. -/
theorem rejected_lm_step_unsuccessful (J : DMat ℝ) (lam Dv R : DVec ℝ) (hw : ∀ r ∈ J, r.length = Dv.length)
    (hlen : R.length = J.length) (hll : lam.length = Dv.length) (hpos : ∀ l ∈ lam, 0 < l) (hD : ∃ x ∈ Dv, x ≠ 0)
    (hs : SolvesDamped J lam Dv R) (high low last loss : ℝ) (hworse : last < loss) (hh : 0 < high) (hl : 0 < low) :
    verdict high low (last - loss) (qualityDen J Dv R) = Verdict.bad :=
  rejected_is_unsuccessful high low last loss _ hworse
    (qualityDen_pos_of_normal_equations J lam Dv R hw hlen hll hpos hD hs).1 hh hl

/-- non-vacuity: `J = [[1],[2]]`, `Λ = [1]`, `R = [-2,-1]`: `JᵀJ = 5`, `−JᵀR = 4`, so `D = [2/3]` solves `(5+1)D = 4` -/
example : SolvesDamped ([[1], [2]] : DMat ℝ) [1] [2/3] [-2, -1] := by
  simp [SolvesDamped, tmulVec, DMat.mulVec, DVec.dot, DVec.sum, DVec.add, DVec.smul, DVec.neg, DVec.zero, k_real]
  norm_num

/-! ## pass 10: the diagonal shift `Λ` is the code's own, and it is positive

`qualityDen_pos_of_normal_equations` / `rejected_lm_step_unsuccessful` assumed `Λ_j > 0`. Here `Λ` is computed as `LM.step`
computes it — `diag(JᵀJ)` clamped once to `[pg['min'], pg['max']]`, then `d ← d + d·damping` in every trial of the call on
the same tensor (`lmDiag`, `lmShift`, `lmShiftVec` in `Pose/Model/LMNormal.lean`, op `c08.diag`) — and shown positive from
`0 < min ≤ max`, `(JᵀJ)_jj ≤ max` and positive dampings (which the strategy bounds give: `damping_pos_of_inBounds`). -/

/-- **closed form of the accumulated damping**: after the trials with dampings `λ₁ … λ_t` the diagonal entry is
`clamp(a, min, max) · Π (1 + λ_k)` — the damping of the earlier, rejected trials of the call stays in the matrix. -/
theorem lmDiag_closed (lo hi a : ℝ) (damps : List ℝ) :
    lmDiag lo hi a damps = min (max a lo) hi * (damps.map (fun lam => 1 + lam)).prod := by
  unfold lmDiag; rw [foldl_damp, tclamp_eq]

/-- **the shift is positive** — at least `min · (Π(1+λ_k) − 1)` — whenever the entry is not cut by the upper bound -/
theorem lmShift_pos (lo hi a : ℝ) (damps : List ℝ) (hlo : 0 < lo) (hlh : lo ≤ hi) (ha : a ≤ hi)
    (hp : ∀ l ∈ damps, 0 < l) (hne : damps ≠ []) :
    0 < lmShift lo hi damps a ∧ lo * ((damps.map (fun lam => 1 + lam)).prod - 1) ≤ lmShift lo hi damps a := by
  unfold lmShift
  rw [lmDiag_closed, min_eq_left (max_le ha hlh)]
  have hP := prod_one_add_gt damps hp hne
  have h1 : lo ≤ max a lo := le_max_right _ _
  have h2 : a ≤ max a lo := le_max_left _ _
  have h3 : 0 < lo * ((damps.map (fun lam => 1 + lam)).prod - 1) := mul_pos hlo (sub_pos.mpr hP)
  have h4 : lo * ((damps.map (fun lam => 1 + lam)).prod - 1) ≤ max a lo * ((damps.map (fun lam => 1 + lam)).prod - 1) :=
    mul_le_mul_of_nonneg_right h1 (sub_pos.mpr hP).le
  constructor <;> nlinarith

/-- the restriction `a ≤ max` is needed: an entry cut down by the upper bound can get a NEGATIVE shift
(`a = 4`, `min = max = 1`, damping 1: `1·2 − 4 = −2`) -/
example : lmShift (1 : ℝ) 1 [1] 4 < 0 := by
  unfold lmShift; rw [lmDiag_closed]; norm_num

theorem lmShiftVec_pos (n : Nat) (J : DMat ℝ) (lo hi : ℝ) (damps : List ℝ) (hlo : 0 < lo) (hlh : lo ≤ hi)
    (hmax : ∀ a ∈ diagJtJ n J, a ≤ hi) (hp : ∀ l ∈ damps, 0 < l) (hne : damps ≠ []) :
    ∀ l ∈ lmShiftVec n lo hi damps J, 0 < l := by
  intro l hl
  unfold lmShiftVec at hl
  obtain ⟨a, ha, rfl⟩ := List.mem_map.mp hl
  exact (lmShift_pos lo hi a damps hlo hlh (hmax a ha) hp hne).1

/-- within the strategy's bounds (an invariant of every history: `lmRun_inBounds`) the damping is positive -/
theorem damping_pos_of_inBounds (kd : Kind) (h : Hyper ℝ) (s : SState ℝ) (hk : kd ≠ Kind.constant) (hpos : 0 < h.smin)
    (hb : InBounds kd h s) : 0 < s.damping := by
  cases kd with
  | constant => exact absurd rfl hk
  | adaptive => exact lt_of_lt_of_le hpos hb.1
  | trust =>
    obtain ⟨h1, _, _, _, h5⟩ := hb
    have hr : 0 < s.radius := lt_of_lt_of_le hpos h1
    by_contra hd
    have : s.damping * s.radius ≤ 0 := mul_nonpos_of_nonpos_of_nonneg (not_lt.mp hd) hr.le
    linarith

/-- **A rejected trial of the code's own linear system is classified "unsuccessful"**: `D ≠ 0` solves
`(JᵀJ + diag Λ) D = −JᵀR` with `Λ` as `LM.step` builds it at the trial whose accumulated dampings are `damps`; no
hypothesis on `Λ` or on the predicted decrease is left — only `0 < min ≤ max`, `(JᵀJ)_jj ≤ max`, positive dampings. -/
theorem rejected_code_step_unsuccessful (J : DMat ℝ) (Dv R : DVec ℝ) (lo hi : ℝ) (damps : List ℝ)
    (hw : ∀ r ∈ J, r.length = Dv.length) (hlen : R.length = J.length) (hlo : 0 < lo) (hlh : lo ≤ hi)
    (hmax : ∀ a ∈ diagJtJ Dv.length J, a ≤ hi) (hp : ∀ l ∈ damps, 0 < l) (hne : damps ≠ [])
    (hD : ∃ x ∈ Dv, x ≠ 0) (hs : SolvesDamped J (lmShiftVec Dv.length lo hi damps J) Dv R)
    (high low last loss : ℝ) (hworse : last < loss) (hh : 0 < high) (hl : 0 < low) :
    verdict high low (last - loss) (qualityDen J Dv R) = Verdict.bad :=
  rejected_lm_step_unsuccessful J _ Dv R hw hlen (by simp [lmShiftVec, diagJtJ_length _ J hw])
    (lmShiftVec_pos _ J lo hi damps hlo hlh hmax hp hne) hD hs high low last loss hworse hh hl

/-- non-vacuity: the system of the pass-7 example is the code's system with `min = 1/2`, `max = 10`, damping `1/5`:
`diag(JᵀJ) = [5]`, `Λ = 5·(1 + 1/5) − 5 = 1` -/
example : lmShiftVec 1 (1/2 : ℝ) 10 [1/5] [[1], [2]] = [1] := by
  simp [lmShiftVec, diagJtJ, lmShift, lmDiag_closed, DVec.add, DVec.zero, k_real]
  norm_num

/-! ## pass 11: the accumulated damping grows with every rejected trial; the Adaptive reaction, end to end -/

/-- one more trial multiplies the diagonal entry by `1 + damping` -/
theorem lmDiag_snoc (lo hi a l : ℝ) (damps : List ℝ) :
    lmDiag lo hi a (damps ++ [l]) = lmDiag lo hi a damps * (1 + l) := by
  rw [lmDiag_closed, lmDiag_closed]; simp [List.map_append, List.prod_append]; ring

/-- **Every further trial of a call strictly increases the shift** `Λ_j` (for any entry, also one cut by the upper bound):
the system handed to the solver after a rejection is more damped than the rejected one even before the strategy's new
damping is counted — `Λ_j(new) − Λ_j(old) = (diagonal entry)·damping ≥ min·damping > 0`. -/
theorem lmShift_strictMono_trials (lo hi a l : ℝ) (damps : List ℝ) (hlo : 0 < lo) (hlh : lo ≤ hi)
    (hp : ∀ x ∈ damps, 0 < x) (hl : 0 < l) :
    lmShift lo hi damps a + lo * l ≤ lmShift lo hi (damps ++ [l]) a ∧
      lmShift lo hi damps a < lmShift lo hi (damps ++ [l]) a := by
  unfold lmShift
  rw [lmDiag_snoc]
  have hc : lo ≤ min (max a lo) hi := le_min (le_max_right _ _) hlh
  have hP := prod_one_add_ge damps hp
  have hd : lo ≤ lmDiag lo hi a damps := by
    rw [lmDiag_closed]
    calc lo = lo * 1 := (mul_one lo).symm
      _ ≤ min (max a lo) hi * (damps.map (fun lam => 1 + lam)).prod :=
        mul_le_mul hc hP zero_le_one (le_trans hlo.le hc)
  have h1 : lo * l ≤ lmDiag lo hi a damps * l := mul_le_mul_of_nonneg_right hd hl.le
  have h2 : 0 < lo * l := mul_pos hlo hl
  constructor <;> nlinarith

/-- **Adaptive, end to end on the code's own system**: a worse trial whose step `D ≠ 0` solves the damped normal equations
as `LM.step` builds them makes `Adaptive.update` set the damping to `min(damping·up, max) ≥ damping` — from the linear
system to the new damping without any assumption on the predicted decrease or on `Λ`. -/
theorem adaptive_code_rejection_raises_damping (J : DMat ℝ) (Dv R : DVec ℝ) (lo hi : ℝ) (damps : List ℝ)
    (hw : ∀ r ∈ J, r.length = Dv.length) (hlen : R.length = J.length) (hlo : 0 < lo) (hlh : lo ≤ hi)
    (hmax : ∀ a ∈ diagJtJ Dv.length J, a ≤ hi) (hp : ∀ l ∈ damps, 0 < l) (hne : damps ≠ [])
    (hD : ∃ x ∈ Dv, x ≠ 0) (hs : SolvesDamped J (lmShiftVec Dv.length lo hi damps J) Dv R)
    (h : Hyper ℝ) (s : SState ℝ) (last loss : ℝ) (hworse : last < loss) (hh : 0 < h.high) (hl : 0 < h.low)
    (hup : 1 < h.up) (hsl : h.smin ≤ s.damping) (hsh : s.damping ≤ h.smax) (hpos : 0 < s.damping) :
    let s' := stratUpd Kind.adaptive h s (last - loss) (qualityDen J Dv R)
    s'.damping = min (s.damping * h.up) h.smax ∧ s.damping ≤ s'.damping :=
  adaptive_rejected_up h s last loss _ hworse
    (qualityDen_pos_of_normal_equations J _ Dv R hw hlen (by simp [lmShiftVec, diagJtJ_length _ J hw])
      (lmShiftVec_pos _ J lo hi damps hlo hlh hmax hp hne) hD hs).1 hh hl hup hsl hsh hpos

/-- non-vacuity: second trial of a call with dampings `1/5, 1/2` on the entry `5`, bounds `1/2 … 10`: `Λ` goes from 1 to 4 -/
example : lmShift (1/2 : ℝ) 10 [1/5] 5 = 1 ∧ lmShift (1/2 : ℝ) 10 ([1/5] ++ [1/2]) 5 = 4 := by
  constructor <;> (unfold lmShift; rw [lmDiag_closed]; norm_num)

/-! ## non-vacuity: concrete runs of the model (`P = D = ℚ`-like reals, loss `x²`) -/

section examples
/-! `exProb`: loss `x²`, retraction `x + d`; `exEnv`: a solver that overshoots twice (`d = -3x`, loss ×4) and
then returns the Newton step. With `reject = 5` the call makes 3 trials and rejects 2. -/
example : ∀ p d, exProb.retr (exProb.retr p d) (exProb.neg d) = p := by
  intro p d; simp [exProb]

example : lmStep exProb 5 exEnv none 1 0 =
    { p := 0, s := 3, loss := 0, last := 1, rc := 2, solves := 3, live := false } := by
  have h := lm_accept_spec exProb 5 exEnv (by intro p d; simp [exProb]) (1 : ℝ) (0 : Nat) none (Or.inl rfl)
    (fun i => if i < 2 then (-3 : ℝ) else -1) 2
    (by intro i hi
        have : i = 0 ∨ i = 1 ∨ i = 2 := by omega
        rcases this with rfl | rfl | rfl <;> simp [exEnv])
    (by intro i hi
        have : i = 0 ∨ i = 1 := by omega
        rcases this with rfl | rfl <;> simp [exProb] <;> norm_num)
    (by norm_num) (Or.inl (by simp [exProb]))
  rw [h]
  simp [exProb, exEnv, sAfter, List.range_succ]

/-- hypotheses of the strategy theorems are satisfiable by the library defaults -/
example : ∃ h : Hyper ℝ, h.smin ≤ h.smax ∧ 0 < h.smin ∧ 0 < h.high ∧ 0 < h.low ∧ 1 < h.up :=
  ⟨⟨1/2, 1/1000, 2, 1/2, 1/2, 1/1000000, 10^16⟩, by norm_num, by norm_num, by norm_num, by norm_num, by norm_num⟩

end examples

end PP.LMLoop
