import Proofs.Lemmas.Spline
import Proofs.Lemmas.SplineExp
import Proofs.Lemmas.Traj
import Mathlib.Analysis.SpecialFunctions.Trigonometric.Bounds
/-!
# C19 — splines interpolate and are equivariant; APE/RPE are alignment-invariant; geodesic loss

Property theorems only (helpers: `Proofs/Lemmas/Spline.lean`, `Proofs/Lemmas/Traj.lean`).  All statements
are over the model (`Pose/Model/Spline.lean`, `Pose/Model/Traj.lean`) at `α = ℝ`; "valid" = unit quaternion.
-/
namespace PP.Spline
open PP

/-! ## chspline -/

/-- `count num den` is the number of multiples of `num/den` in `[0,1)`: `j` is counted iff `j·(num/den) < 1`. -/
theorem count_spec (num den j : Nat) (h : 0 < num) : j < count num den ↔ j * num < den := by
  unfold count
  rw [Nat.lt_iff_add_one_le, Nat.le_div_iff_mul_le h, Nat.succ_mul]
  omega

/-- `interval < 1` (i.e. `num < den`) forces at least two grid values per unit step. -/
theorem count_ge_two (num den : Nat) (h : 0 < num) (hlt : num < den) : 2 ≤ count num den := by
  have := (count_spec num den 1 h).mpr (by omega)
  omega

/-- **The float `arange` length against the rational count** (pass 3): the number of samples per unit step the
code actually uses, `floatLen = ⌈fl64(1/interval)⌉` (`rn53` = IEEE round-to-nearest-even of the quotient), never
exceeds the number of multiples of the interval in `[0,1)` and falls short of it by at most one — for every positive
`interval = num/den`. (The harness checks `floatLen` against the implementation *exactly*.) -/
theorem floatLen_le_count (num den : Nat) (h : 0 < num) :
    floatLen num den ≤ count num den ∧ count num den ≤ floatLen num den + 1 := by
  unfold floatLen rn53
  exact floatLen_bounds_at num den _ h

/-- it falls short only when the rounded quotient is an integer below the true quotient: if `⌈fl64(q)⌉ ≠ ⌈q⌉` then
`fl64(q) ≤ ⌈q⌉ - 1 < q`, i.e. `q = 1/interval` was rounded down onto (or below) an integer -/
theorem floatLen_lt_count_iff (num den : Nat) (h : 0 < num) (hne : floatLen num den ≠ count num den) :
    floatLen num den + 1 = count num den ∧
      (rn53 num den).1 ≤ (count num den - 1) * 2 ^ (rn53 num den).2 ∧ (count num den - 1) * num < den := by
  obtain ⟨h1, h2⟩ := floatLen_le_count num den h
  have hlt : floatLen num den + 1 = count num den := by omega
  refine ⟨hlt, ?_, ?_⟩
  · -- m ≤ (c-1)·2^s  ⇐  ceil(m/2^s) ≤ c-1
    have hc : ceilShift (rn53 num den).1 (rn53 num den).2 = count num den - 1 := by
      unfold floatLen at hlt; omega
    unfold ceilShift at hc
    have hP : 0 < 2 ^ (rn53 num den).2 := Nat.pow_pos (by norm_num)
    have := Nat.div_mul_le_self ((rn53 num den).1 + 2 ^ (rn53 num den).2 - 1) (2 ^ (rn53 num den).2)
    have hlt2 := Nat.lt_div_mul_add hP (a := (rn53 num den).1 + 2 ^ (rn53 num den).2 - 1)
    rw [hc] at this hlt2
    omega
  · have hpos : 0 < count num den := by omega
    have := (count_spec num den (count num den - 1) h).mp (by omega)
    exact this

/-- exact when the interval divides 1 (`interval = 1/n`, `n ≥ 1` exactly representable, e.g. powers of two) -/
theorem floatLen_eq_count_of_dvd (num den : Nat) (h : 0 < num) (hd : num ∣ den) : floatLen num den = count num den := by
  obtain ⟨c, rfl⟩ := hd
  have hc : count num (num * c) = c := by
    unfold count
    have : num * c + num - 1 = num - 1 + c * num := by
      rw [Nat.mul_comm num c]; omega
    rw [this, Nat.add_mul_div_right _ _ h, Nat.div_eq_of_lt (by omega)]; omega
  have hex : ∀ s, roundAt num (num * c) s = c * 2 ^ s := by
    intro s
    unfold roundAt
    have e : num * c * 2 ^ s = c * 2 ^ s * num := by ring
    have hn : ¬ (0 = num) := by omega
    simp only [e, Nat.mul_mod_left, Nat.mul_div_cancel _ h]
    simp [hn]
  rw [hc]
  unfold floatLen
  have e1 : (rn53 num (num * c)).1 = roundAt num (num * c) (rn53 num (num * c)).2 := rfl
  rw [e1, hex]
  exact le_antisymm (ceilShift_le_of _ _ _ (le_refl _)) (le_ceilShift_of _ _ _ (le_refl _))

/-- **Sample count**: `(N-1)·k + 1` samples for `N ≥ 2` points (the code raises for a single point) and `k ≥ 2` grid
values per unit step. -/
theorem chspline_length (N kk : Nat) (interval : ℝ) (p : Nat → ℝ) (hN : 2 ≤ N) (hk : 2 ≤ kk) :
    (chspline N kk interval p).length = (N - 1) * kk + 1 := by
  unfold chspline outLen
  rw [List.length_map, List.length_range]
  have h1 : kk ≠ 1 := by omega
  simp only [h1, if_false]
  obtain ⟨n, rfl⟩ : ∃ n, N = n + 1 := ⟨N - 1, by omega⟩
  simp only [Nat.add_sub_cancel, Nat.succ_mul]
  omega

/-- **Sample count of the public entry point** (ties the grid size to `floatLen`, pass 5): `chspline(points, num/den)` returns
`(N-1)·k + 1` samples with `k = floatLen num den = ⌈fl64(1/interval)⌉`, and that `k` is the number of multiples of the interval in
`[0,1)` or one less (`floatLen_le_count`). `2 ≤ k` holds for every double `interval < 1` (checked exactly by the `flen` stream). -/
theorem chsplineAuto_length (N num den : Nat) (interval : ℝ) (p : Nat → ℝ) (hN : 2 ≤ N) (hnum : 0 < num)
    (hk : 2 ≤ floatLen num den) :
    (chsplineAuto N num den interval p).length = (N - 1) * floatLen num den + 1 ∧
      floatLen num den ≤ count num den ∧ count num den ≤ floatLen num den + 1 := by
  unfold chsplineAuto
  exact ⟨chspline_length N _ interval p hN hk, floatLen_le_count num den hnum⟩

/-- the same for `bspline`: `(N-3)·k + 1` poses (`(N+1)·k + 1` with `extrapolate`), `k = floatLen num den` -/
theorem bsplineAuto_length (eps : ℝ) (N num den : Nat) (interval : ℝ) (ex : Bool) (P : Nat → SE3 ℝ) (out : List (SE3 ℝ))
    (h : bsplineAuto eps N num den interval ex P = some out) :
    out.length = (if ex then N + 1 else N - 3) * floatLen num den + 1 := by
  unfold bsplineAuto bspline at h
  cases ex with
  | true =>
    simp only [if_true, Option.some.injEq] at h
    rw [← h]; unfold bsplineCore; simp
  | false =>
    by_cases hN : N < 4
    · simp [hN] at h
    · simp only [Bool.false_eq_true, if_false, hN, Option.some.injEq] at h
      rw [← h]; unfold bsplineCore; simp

/-- **Interpolation**: the spline passes through every input point at its integer time (all `N`, all `i < N`). -/
theorem evalAt_knot (N : Nat) (p : Nat → ℝ) (i : Nat) (hi : i < N) : evalAt N p (i : ℝ) = p i := by
  unfold evalAt
  cases i with
  | zero =>
    have h0 : searchIdx N (0 : ℝ) = 0 := searchIdx_of_le_one N _ (by norm_num)
    simp only [Nat.cast_zero, h0, dxAt_real, k_real, sub_zero, div_one]
    obtain ⟨a, b, c, d⟩ := h_at_zero
    rw [a, b, c, d]; ring
  | succ j =>
    have hs : searchIdx N ((j + 1 : ℕ) : ℝ) = j := by
      rw [searchIdx_of_mem N j _ (by push_cast; linarith) (by push_cast; linarith)]
      omega
    simp only [hs, dxAt_real, k_real, div_one]
    have ht : ((j + 1 : ℕ) : ℝ) - (j : ℝ) = 1 := by push_cast; ring
    rw [ht]
    obtain ⟨a, b, c, d⟩ := h_at_one
    rw [a, b, c, d]; ring

/-- **Interpolation, on the returned list**: sample `i·k` of `chspline` is the `i`-th input point. -/
theorem chspline_interpolates (N kk : Nat) (interval : ℝ) (p : Nat → ℝ) (hk : 2 ≤ kk) (i : Nat) (hi : i < N) :
    (chspline N kk interval p)[i * kk]? = some (p i) := by
  have hlen : i * kk < outLen N kk := by
    unfold outLen
    have h1 : kk ≠ 1 := by omega
    simp only [h1, if_false]
    obtain ⟨n, rfl⟩ : ∃ n, N = n + 1 := ⟨N - 1, by omega⟩
    have : i * kk ≤ n * kk := Nat.mul_le_mul_right kk (by omega)
    rw [Nat.succ_mul]; omega
  unfold chspline
  rw [List.getElem?_map, List.getElem?_range hlen]
  simp only [Option.map_some, timeAt_knot kk interval i (by omega), evalAt_knot N p i hi]

/-- **Straight lines**: for points `a + i·d` the spline value at *every* time `v` is `a + v·d`. -/
theorem evalAt_line (N : Nat) (a d v : ℝ) : evalAt N (fun j => a + (j : ℝ) * d) v = a + v * d := by
  unfold evalAt
  simp only [slope_line, dxAt_real, k_real, div_one, mul_one]
  have h1 := h_partition (v - (searchIdx N v : ℝ))
  have h2 := h_first_moment (v - (searchIdx N v : ℝ))
  push_cast
  linear_combination (a + (searchIdx N v : ℝ) * d) * h1 + d * h2

/-- **Straight lines, on the returned list**: sample `n` is the line evaluated at the `n`-th grid time
`⌊n/k⌋ + (n mod k)·interval`. -/
theorem chspline_line (N kk : Nat) (interval a d : ℝ) (n : Nat) (hn : n < outLen N kk) :
    (chspline N kk interval (fun j => a + (j : ℝ) * d))[n]? = some (a + timeAt kk interval n * d) := by
  unfold chspline
  rw [List.getElem?_map, List.getElem?_range hn]
  simp only [Option.map_some, evalAt_line]

/-- the spline is affine-equivariant in the point values (hence commutes with any affine map of `ℝ^D`
coordinate-wise combined with `evalAt_add`) -/
theorem evalAt_affine (N : Nat) (p : Nat → ℝ) (c b v : ℝ) :
    evalAt N (fun j => c * p j + b) v = c * evalAt N p v + b := by
  unfold evalAt
  simp only [slope_affine, dxAt_real, k_real, div_one, mul_one]
  have h1 := h_partition (v - (searchIdx N v : ℝ))
  linear_combination b * h1

theorem evalAt_add (N : Nat) (p r : Nat → ℝ) (v : ℝ) :
    evalAt N (fun j => p j + r j) v = evalAt N p v + evalAt N r v := by
  unfold evalAt
  simp only [slope_add, dxAt_real, k_real, div_one, mul_one]
  ring

/-- on `(i, i+1]` the spline is the cubic Hermite segment between points `i` and `i+1` with parameter `t = v - i` -/
theorem evalAt_segment (N : Nat) (p : Nat → ℝ) (i : Nat) (hi : i + 1 < N) (v : ℝ) (h1 : (i : ℝ) < v)
    (h2 : v ≤ (i : ℝ) + 1) :
    evalAt N p v = h00 (v - i) * p i + h10 (v - i) * slope N p i + h01 (v - i) * p (i + 1)
      + h11 (v - i) * slope N p (i + 1) := by
  have hs : searchIdx N v = i := by rw [searchIdx_of_mem N i v h1 h2]; omega
  unfold evalAt
  simp only [hs, dxAt_real, k_real, div_one, mul_one]

/-- **C¹ joins**: the Hermite segment `t ↦ h00·p₀ + h10·m₀ + h01·p₁ + h11·m₁` has derivative `m₀` at `t = 0` and `m₁`
at `t = 1`; with `evalAt_segment` and `evalAt_knot`: consecutive segments share the value `pᵢ` *and* the tangent
`slope N p i` at every interior knot. -/
theorem hermite_deriv (p0 m0 p1 m1 : ℝ) :
    HasDerivAt (fun t : ℝ => h00 t * p0 + h10 t * m0 + h01 t * p1 + h11 t * m1) m0 0 ∧
    HasDerivAt (fun t : ℝ => h00 t * p0 + h10 t * m0 + h01 t * p1 + h11 t * m1) m1 1 := by
  rw [hermite_cubic]
  constructor
  · have := cubic_hasDerivAt p0 m0 (-3 * p0 - 2 * m0 + 3 * p1 - m1) (2 * p0 + m0 - 2 * p1 + m1) 0
    convert this using 1; ring
  · have := cubic_hasDerivAt p0 m0 (-3 * p0 - 2 * m0 + 3 * p1 - m1) (2 * p0 + m0 - 2 * p1 + m1) 1
    convert this using 1; ring

/-! ## bspline -/

/-- **Pose count**: `(N-3)·k + 1` poses. -/
theorem bsplineCore_length (eps : ℝ) (N kk : Nat) (interval : ℝ) (P : Nat → SE3 ℝ) :
    (bsplineCore eps N kk interval P).length = (N - 3) * kk + 1 := by
  unfold bsplineCore; simp

theorem bspline_extrapolate_length (eps : ℝ) (N kk : Nat) (interval : ℝ) (P : Nat → SE3 ℝ) (out : List (SE3 ℝ))
    (h : bspline eps N kk interval true P = some out) : out.length = (N + 1) * kk + 1 := by
  unfold bspline at h
  simp only [if_true, Option.some.injEq] at h
  rw [← h, bsplineCore_length]
  have : N + 4 - 3 = N + 1 := by omega
  rw [this]

theorem bspline_refuses_short (eps : ℝ) (N kk : Nat) (interval : ℝ) (P : Nat → SE3 ℝ) (h : N < 4) :
    bspline eps N kk interval false P = none := by
  unfold bspline; simp [h]

/-- **Left-equivariance of one segment**: multiplying all four control poses on the left by a fixed valid
pose `G` multiplies the interpolated pose by `G` — for every weight triple. -/
theorem segPose_left_equivariant (eps : ℝ) (G P0 P1 P2 P3 : SE3 ℝ) (w1 w2 w3 : ℝ) (hG : SE3.Valid G)
    (h0 : SE3.Valid P0) (h1 : SE3.Valid P1) (h2 : SE3.Valid P2) :
    segPose eps (SE3Mul G P0) (SE3Mul G P1) (SE3Mul G P2) (SE3Mul G P3) w1 w2 w3
      = SE3Mul G (segPose eps P0 P1 P2 P3 w1 w2 w3) := by
  unfold segPose
  simp only [delta_left_invariant eps G _ _ hG h0, delta_left_invariant eps G _ _ hG h1,
    delta_left_invariant eps G _ _ hG h2]
  rw [SE3_mul_assoc G P0 _ hG h0]

/-- **Left-equivariance**: `bspline(G·data) = G·bspline(data)` pose by pose, every segment and parameter. -/
theorem bsplineAt_left_equivariant (eps : ℝ) (G : SE3 ℝ) (P : Nat → SE3 ℝ) (hG : SE3.Valid G)
    (hP : ∀ j, SE3.Valid (P j)) (i : Nat) (u : ℝ) :
    bsplineAt eps (fun j => SE3Mul G (P j)) i u = SE3Mul G (bsplineAt eps P i u) := by
  unfold bsplineAt
  exact segPose_left_equivariant eps G _ _ _ _ _ _ _ hG (hP _) (hP _) (hP _)

theorem bsplineEnd_left_equivariant (eps : ℝ) (G : SE3 ℝ) (N : Nat) (P : Nat → SE3 ℝ) (hG : SE3.Valid G)
    (hP : ∀ j, SE3.Valid (P j)) :
    bsplineEnd eps N (fun j => SE3Mul G (P j)) = SE3Mul G (bsplineEnd eps N P) := by
  unfold bsplineEnd
  exact segPose_left_equivariant eps G _ _ _ _ _ _ _ hG (hP _) (hP _) (hP _)

/-- **Left-equivariance of the whole output** (both `extrapolate` settings, any `N`, `k`, `interval`). -/
theorem bspline_left_equivariant (eps : ℝ) (G : SE3 ℝ) (N kk : Nat) (interval : ℝ) (ex : Bool) (P : Nat → SE3 ℝ)
    (hG : SE3.Valid G) (hP : ∀ j, SE3.Valid (P j)) :
    bspline eps N kk interval ex (fun j => SE3Mul G (P j))
      = (bspline eps N kk interval ex P).map (List.map (SE3Mul G)) := by
  have core : ∀ (M : Nat) (Q : Nat → SE3 ℝ), (∀ j, SE3.Valid (Q j)) →
      bsplineCore eps M kk interval (fun j => SE3Mul G (Q j)) = (bsplineCore eps M kk interval Q).map (SE3Mul G) := by
    intro M Q hQ
    unfold bsplineCore
    rw [List.map_append, List.map_map]
    congr 1
    · apply List.map_congr_left
      intro n _
      exact bsplineAt_left_equivariant eps G Q hG hQ _ _
    · simp only [List.map_cons, List.map_nil, bsplineEnd_left_equivariant eps G M Q hG hQ]
  have hpad : ∀ j, SE3.Valid (pad N P j) := by
    intro j; unfold pad; split_ifs <;> exact hP _
  unfold bspline
  cases ex with
  | true => simp only [if_true, Option.map_some, pad_left, core (N + 4) (pad N P) hpad]
  | false =>
    by_cases h : N < 4
    · simp [h]
    · simp only [Bool.false_eq_true, if_false, h, Option.map_some, core N P hP]

/-- the common map of two consecutive segments: `P₀ · Exp(a δ₁) · Exp(b δ₂) · Exp(c δ₃) · Exp(d δ₄)` -/
noncomputable def fourPose (eps : ℝ) (P : Nat → SE3 ℝ) (i : Nat) (a b c d : ℝ) : SE3 ℝ :=
  SE3Mul (P i) (SE3Mul (SE3Mul (SE3Mul (se3Exp eps (scale (delta eps (P i) (P (i + 1))) a))
    (se3Exp eps (scale (delta eps (P (i + 1)) (P (i + 2))) b))) (se3Exp eps (scale (delta eps (P (i + 2)) (P (i + 3))) c)))
    (se3Exp eps (scale (delta eps (P (i + 3)) (P (i + 4))) d)))

/-- segment `i` is the common map at weights `(w₁, w₂, w₃, 0)` -/
theorem bsplineAt_as_four (eps : ℝ) (heps : 0 ≤ eps) (P : Nat → SE3 ℝ) (i : Nat) (u : ℝ) :
    bsplineAt eps P i u = fourPose eps P i (bw1 u) (bw2 u) (bw3 u) 0 := by
  unfold bsplineAt segPose fourPose
  rw [scale_zero_right, se3Exp_zero eps heps, SE3_mul_one]

/-- segment `i+1` is (as a transformation) the common map at weights `(1, w₁, w₂, w₃)`, given `Exp(Log D) ≅ D` for
`D = Pᵢ⁻¹Pᵢ₊₁` and validity of the three exponentials that are re-associated -/
theorem bsplineAt_succ_as_four (eps : ℝ) (P : Nat → SE3 ℝ) (i : Nat) (u : ℝ)
    (h0 : SE3.Valid (P i)) (h1 : SE3.Valid (P (i + 1)))
    (hEL : SE3Equiv (se3Exp eps (delta eps (P i) (P (i + 1)))) (SE3Mul (SE3Inv (P i)) (P (i + 1))))
    (hA : SE3.Valid (se3Exp eps (scale (delta eps (P (i + 1)) (P (i + 2))) (bw1 u))))
    (hB : SE3.Valid (se3Exp eps (scale (delta eps (P (i + 2)) (P (i + 3))) (bw2 u)))) :
    SE3Equiv (fourPose eps P i 1 (bw1 u) (bw2 u) (bw3 u)) (bsplineAt eps P (i + 1) u) := by
  unfold bsplineAt segPose fourPose
  rw [scale_one]
  set D := SE3Mul (SE3Inv (P i)) (P (i + 1)) with hD
  set A := se3Exp eps (scale (delta eps (P (i + 1)) (P (i + 2))) (bw1 u))
  set B := se3Exp eps (scale (delta eps (P (i + 2)) (P (i + 3))) (bw2 u))
  set C := se3Exp eps (scale (delta eps (P (i + 3)) (P (i + 4))) (bw3 u))
  have hDv : SE3.Valid D := SE3_valid_mul _ _ (SE3_valid_inv _ h0) h1
  have e1 : i + 1 + 1 = i + 2 := by omega
  have e2 : i + 1 + 2 = i + 3 := by omega
  have e3 : i + 1 + 3 = i + 4 := by omega
  simp only [e1, e2, e3]
  have step1 : SE3Equiv (SE3Mul (P i) (SE3Mul (SE3Mul (SE3Mul (se3Exp eps (delta eps (P i) (P (i + 1)))) A) B) C))
      (SE3Mul (P i) (SE3Mul (SE3Mul (SE3Mul D A) B) C)) :=
    SE3Equiv.mul_left _ (SE3Equiv.mul_right (SE3Equiv.mul_right (SE3Equiv.mul_right hEL A) B) C)
  have hDA : SE3.Valid (SE3Mul D A) := SE3_valid_mul _ _ hDv hA
  have hAB : SE3.Valid (SE3Mul A B) := SE3_valid_mul _ _ hA hB
  have step2 : SE3Mul (P i) (SE3Mul (SE3Mul (SE3Mul D A) B) C) = SE3Mul (P (i + 1)) (SE3Mul (SE3Mul A B) C) := by
    rw [SE3_mul_assoc D A B hDv hA, SE3_mul_assoc D (SE3Mul A B) C hDv hAB, ← SE3_mul_assoc (P i) D _ h0 hDv, hD,
      ← SE3_mul_assoc (P i) _ _ h0 (SE3_valid_inv _ h0), SE3_mul_inv _ h0, SE3_one_mul]
  exact step1.trans (SE3Equiv.of_eq step2)

/-- **Constant-twist reproduction, one segment.** If the three relative motions of a segment have the same
logarithm `ξ` and `Exp` is additive on the three weighted multiples of `ξ` (one-parameter-subgroup law — C01;
proved below for the closed-form branch as `se3Exp_add`), the pose at parameter `u` is `Pᵢ·Exp((1+u)ξ)`:
the weights sum to `1+u`. -/
theorem segPose_const_twist (eps : ℝ) (P0 P1 P2 P3 : SE3 ℝ) (xi : se3 ℝ) (u : ℝ)
    (hd1 : delta eps P0 P1 = xi) (hd2 : delta eps P1 P2 = xi) (hd3 : delta eps P2 P3 = xi)
    (h12 : SE3Mul (se3Exp eps (scale xi (bw1 u))) (se3Exp eps (scale xi (bw2 u)))
        = se3Exp eps (scale xi (bw1 u + bw2 u)))
    (h123 : SE3Mul (se3Exp eps (scale xi (bw1 u + bw2 u))) (se3Exp eps (scale xi (bw3 u)))
        = se3Exp eps (scale xi (bw1 u + bw2 u + bw3 u))) :
    segPose eps P0 P1 P2 P3 (bw1 u) (bw2 u) (bw3 u) = SE3Mul P0 (se3Exp eps (scale xi (1 + u))) := by
  unfold segPose
  simp only [hd1, hd2, hd3, h12, h123, bw_sum]

/-- **Constant-twist motions are reproduced at the right times.** For `Pⱼ = T₀·E(j)` with `E(t) = Exp(t·ξ)`:
the pose of segment `i` at parameter `u` is `T₀·E(i+1+u)` — the motion at time `i+1+u`. -/
theorem bsplineAt_const_twist (eps : ℝ) (T0 : SE3 ℝ) (xi : se3 ℝ) (P : Nat → SE3 ℝ) (i : Nat) (u : ℝ)
    (hT0 : SE3.Valid T0) (hEi : SE3.Valid (se3Exp eps (scale xi (i : ℝ))))
    (hP : P i = SE3Mul T0 (se3Exp eps (scale xi (i : ℝ))))
    (hd1 : delta eps (P i) (P (i + 1)) = xi) (hd2 : delta eps (P (i + 1)) (P (i + 2)) = xi)
    (hd3 : delta eps (P (i + 2)) (P (i + 3)) = xi)
    (h12 : SE3Mul (se3Exp eps (scale xi (bw1 u))) (se3Exp eps (scale xi (bw2 u)))
        = se3Exp eps (scale xi (bw1 u + bw2 u)))
    (h123 : SE3Mul (se3Exp eps (scale xi (bw1 u + bw2 u))) (se3Exp eps (scale xi (bw3 u)))
        = se3Exp eps (scale xi (bw1 u + bw2 u + bw3 u)))
    (hadd : SE3Mul (se3Exp eps (scale xi (i : ℝ))) (se3Exp eps (scale xi (1 + u)))
        = se3Exp eps (scale xi ((i : ℝ) + 1 + u))) :
    bsplineAt eps P i u = SE3Mul T0 (se3Exp eps (scale xi ((i : ℝ) + 1 + u))) := by
  unfold bsplineAt
  rw [segPose_const_twist eps _ _ _ _ xi u hd1 hd2 hd3 h12 h123, hP, SE3_mul_assoc _ _ _ hT0 hEi, hadd]

/-- **One-parameter-subgroup law of the modelled `Exp`** on the closed-form branch (`a‖φ‖, b‖φ‖ > eps`, `a, b > 0`):
`Exp(aξ)·Exp(bξ) = Exp((a+b)ξ)`. -/
theorem exp_one_parameter_closed (eps : ℝ) (xi : se3 ℝ) (a b : ℝ) (h0 : 0 ≤ eps) (ha : 0 < a) (hb : 0 < b)
    (hA : eps < a * xi.phi.norm) (hB : eps < b * xi.phi.norm) :
    SE3Mul (se3Exp eps (scale xi a)) (se3Exp eps (scale xi b)) = se3Exp eps (scale xi (a + b)) :=
  se3Exp_add eps xi a b h0 ha hb hA hB

/-- **`Log(Exp ξ) = ξ`** for the modelled functions: `eps < ‖φ‖ < π`, generic regime (`sin(θ/2), cos(θ/2) > eps`). -/
theorem log_exp_closed (eps : ℝ) (xi : se3 ℝ) (h0 : 0 ≤ eps) (hθ : eps < xi.phi.norm) (hπ : xi.phi.norm < Real.pi)
    (hs : eps < Real.sin (xi.phi.norm / 2)) (hc : eps < Real.cos (xi.phi.norm / 2)) :
    SE3Log eps (se3Exp eps xi) = xi := SE3Log_se3Exp eps xi h0 hθ hπ hs hc

/-- **Constant-twist reproduction with no hypothesis about `Exp`/`Log` left** (closed-form branch): the control
poses are the samples `Pⱼ = T₀·Exp(jξ)` of the motion, `eps < ‖φ‖ < π` in the generic regime, EVERY segment `i ≥ 0`, every
`u ≥ 0` INCLUDING the knot samples `u = 0` (there the third weight is 0 and the third factor is `Exp 0 = 1`); the weighted angles
`w₁(u)‖φ‖`, `w₂(u)‖φ‖` (and `w₃(u)‖φ‖` for `u ≠ 0`) exceed `eps`. Then segment `i` at parameter `u` is the motion at time `i+1+u`.

NOT covered (stated, not proved): twists with `0 < ‖φ‖ ≤ eps` or weighted angles `≤ eps` (Taylor branch: the law holds only up to
`O(eps⁶)`, see `so3Exp_add_taylor`), and `‖φ‖` at/near `π`. Pure translations (`φ = 0`): `bsplineAt_const_twist_translation`. -/
theorem bsplineAt_const_twist_closed (eps : ℝ) (h0 : 0 ≤ eps) (T0 : SE3 ℝ) (hT0 : SE3.Valid T0) (xi : se3 ℝ)
    (hθ : eps < xi.phi.norm) (hπ : xi.phi.norm < Real.pi) (hs : eps < Real.sin (xi.phi.norm / 2))
    (hc : eps < Real.cos (xi.phi.norm / 2)) (i : Nat) (u : ℝ) (hu : 0 ≤ u)
    (hw1 : eps < bw1 u * xi.phi.norm) (hw2 : eps < bw2 u * xi.phi.norm) (hw3 : eps < bw3 u * xi.phi.norm ∨ u = 0) :
    bsplineAt eps (fun j => SE3Mul T0 (se3Exp eps (scale xi (j : ℝ)))) i u
      = SE3Mul T0 (se3Exp eps (scale xi ((i : ℝ) + 1 + u))) := by
  have hθ0 : 0 < xi.phi.norm := lt_of_le_of_lt h0 hθ
  have pos_of : ∀ w : ℝ, eps < w * xi.phi.norm → 0 < w := by
    intro w hw
    by_contra hn
    have : w * xi.phi.norm ≤ 0 := mul_nonpos_of_nonpos_of_nonneg (not_lt.mp hn) hθ0.le
    linarith
  have p1 := pos_of _ hw1
  have p2 := pos_of _ hw2
  have hstep : ∀ j : Nat, delta eps (SE3Mul T0 (se3Exp eps (scale xi (j : ℝ))))
      (SE3Mul T0 (se3Exp eps (scale xi ((j + 1 : ℕ) : ℝ)))) = xi := by
    intro j
    rcases Nat.eq_zero_or_pos j with rfl | hj
    · exact delta_twist_step_zero eps T0 xi h0 hT0 hθ hπ hs hc
    · exact delta_twist_step eps T0 xi j h0 hT0 hj hθ hπ hs hc
  have h1u : eps < (1 + u) * xi.phi.norm := by nlinarith
  have hEi : SE3.Valid (se3Exp eps (scale xi (i : ℝ))) := by
    rcases Nat.eq_zero_or_pos i with rfl | hi
    · rw [Nat.cast_zero, scale_zero_right, se3Exp_zero eps h0]; exact SE3_valid_one
    · have hipos : (0 : ℝ) < (i : ℝ) := by exact_mod_cast hi
      have hi1 : (1 : ℝ) ≤ (i : ℝ) := by exact_mod_cast hi
      exact se3Exp_valid eps _ h0 (Or.inl (by rw [scale_phi_norm xi _ hipos]; nlinarith))
  apply bsplineAt_const_twist eps T0 xi _ i u hT0 hEi rfl
  · exact hstep i
  · exact hstep (i + 1)
  · exact hstep (i + 2)
  · exact se3Exp_add eps xi _ _ h0 p1 p2 hw1 hw2
  · rcases hw3 with hw3 | rfl
    · exact se3Exp_add eps xi _ _ h0 (by linarith) (pos_of _ hw3) (by nlinarith) hw3
    · rw [bw_zero.2.2, scale_zero_right, se3Exp_zero eps h0, SE3_mul_one, add_zero]
  · rcases Nat.eq_zero_or_pos i with rfl | hi
    · rw [Nat.cast_zero, scale_zero_right, se3Exp_zero eps h0, SE3_one_mul]; congr 2; ring
    · have hipos : (0 : ℝ) < (i : ℝ) := by exact_mod_cast hi
      have hi1 : (1 : ℝ) ≤ (i : ℝ) := by exact_mod_cast hi
      have := se3Exp_add eps xi (i : ℝ) (1 + u) h0 hipos (by linarith) (by nlinarith) h1u
      rw [this]; congr 2; ring

/-- **The spline through the samples of a constant-twist motion passes through them at the knots**: segment `i` at `u = 0` is
`P_{i+1}` exactly (generic regime, `‖φ‖/6 > eps`). -/
theorem bsplineAt_const_twist_knot (eps : ℝ) (h0 : 0 ≤ eps) (T0 : SE3 ℝ) (hT0 : SE3.Valid T0) (xi : se3 ℝ)
    (hπ : xi.phi.norm < Real.pi) (hs : eps < Real.sin (xi.phi.norm / 2))
    (hc : eps < Real.cos (xi.phi.norm / 2)) (i : Nat) (h6 : eps < 1 / 6 * xi.phi.norm) :
    bsplineAt eps (fun j => SE3Mul T0 (se3Exp eps (scale xi (j : ℝ)))) i 0
      = SE3Mul T0 (se3Exp eps (scale xi ((i + 1 : ℕ) : ℝ))) := by
  have hn := Vec3.norm_nonneg xi.phi
  have := bsplineAt_const_twist_closed eps h0 T0 hT0 xi (by linarith) hπ hs hc i 0 le_rfl
    (by rw [bw_zero.1]; linarith) (by rw [bw_zero.2.1]; exact h6) (Or.inr rfl)
  rw [this]; congr 3; push_cast; ring

/-- **Pure translation motions (`φ = 0`) are reproduced exactly** — every segment, every `u`, no regime hypothesis: the case
excluded by `eps < ‖φ‖` above. -/
theorem bsplineAt_const_twist_translation (eps : ℝ) (h0 : 0 ≤ eps) (T0 : SE3 ℝ) (hT0 : SE3.Valid T0) (tau : Vec3 ℝ)
    (i : Nat) (u : ℝ) :
    bsplineAt eps (fun j => SE3Mul T0 (se3Exp eps (scale ⟨tau, Vec3.zero⟩ (j : ℝ)))) i u
      = SE3Mul T0 (se3Exp eps (scale ⟨tau, Vec3.zero⟩ ((i : ℝ) + 1 + u))) := by
  have hEi : SE3.Valid (se3Exp eps (scale ⟨tau, Vec3.zero⟩ (i : ℝ))) := by
    rw [se3Exp_scale_pure eps h0]; exact SO3_valid_one
  apply bsplineAt_const_twist eps T0 ⟨tau, Vec3.zero⟩ _ i u hT0 hEi rfl
  · exact delta_twist_step_pure eps h0 T0 hT0 tau i
  · exact delta_twist_step_pure eps h0 T0 hT0 tau (i + 1)
  · exact delta_twist_step_pure eps h0 T0 hT0 tau (i + 2)
  · exact se3Exp_add_pure eps h0 tau _ _
  · exact se3Exp_add_pure eps h0 tau _ _
  · rw [se3Exp_add_pure eps h0 tau]; congr 2; ring

/-- the extra final pose is the `u = 1` end of the last segment -/
theorem bsplineEnd_eq_at_one (eps : ℝ) (N : Nat) (P : Nat → SE3 ℝ) (hN : 4 ≤ N) :
    bsplineEnd eps N P = bsplineAt eps P (N - 4) 1 := by
  unfold bsplineEnd bsplineAt
  obtain ⟨a, b, c⟩ := bw_one
  obtain ⟨a', b', c'⟩ := bwEnd_eq
  have e1 : N - 4 + 1 = N - 3 := by omega
  have e2 : N - 4 + 2 = N - 2 := by omega
  have e3 : N - 4 + 3 = N - 1 := by omega
  rw [a, b, c, a', b', c', e1, e2, e3]

/-- **Continuity across segments.** The `u → 1` end of segment `i` and the `u = 0` start of segment `i+1`
are the same rigid transformation, provided `Exp(Log D) ≅ D` for the relative pose `D = Pᵢ⁻¹Pᵢ₊₁` (C02) and
the exponential `A = Exp(5/6·δ₂)` is a valid pose (closed-form branch or zero: `se3Exp_valid`). -/
theorem bspline_continuous (eps : ℝ) (heps : 0 ≤ eps) (P : Nat → SE3 ℝ) (i : Nat)
    (h0 : SE3.Valid (P i)) (h1 : SE3.Valid (P (i + 1)))
    (hEL : SE3Equiv (se3Exp eps (delta eps (P i) (P (i + 1)))) (SE3Mul (SE3Inv (P i)) (P (i + 1))))
    (hA : SE3.Valid (se3Exp eps (scale (delta eps (P (i + 1)) (P (i + 2))) (5 / 6)))) :
    SE3Equiv (bsplineAt eps P i 1) (bsplineAt eps P (i + 1) 0) := by
  obtain ⟨a1, b1, c1⟩ := bw_one
  obtain ⟨a0, b0, c0⟩ := bw_zero
  unfold bsplineAt segPose
  simp only [a1, b1, c1, a0, b0, c0, scale_one, scale_zero_right, se3Exp_zero eps heps, SE3_mul_one]
  set D := SE3Mul (SE3Inv (P i)) (P (i + 1)) with hD
  set A := se3Exp eps (scale (delta eps (P (i + 1)) (P (i + 2))) (5 / 6)) with hAdef
  set Bm := se3Exp eps (scale (delta eps (P (i + 1 + 1)) (P (i + 1 + 2))) (1 / 6)) with hB
  have hDv : SE3.Valid D := SE3_valid_mul _ _ (SE3_valid_inv _ h0) h1
  have e1 : i + 1 + 1 = i + 2 := by omega
  have e2 : i + 1 + 2 = i + 3 := by omega
  have e3 : i + 1 + 3 = i + 4 := by omega
  simp only [e1, e2] at hB ⊢
  -- replace Exp(Log D) by D (as transformations), then re-associate
  have step1 : SE3Equiv (SE3Mul (P i) (SE3Mul (SE3Mul (se3Exp eps (delta eps (P i) (P (i + 1)))) A) Bm))
      (SE3Mul (P i) (SE3Mul (SE3Mul D A) Bm)) :=
    SE3Equiv.mul_left _ (SE3Equiv.mul_right (SE3Equiv.mul_right hEL A) Bm)
  have step2 : SE3Mul (P i) (SE3Mul (SE3Mul D A) Bm) = SE3Mul (P (i + 1)) (SE3Mul A Bm) := by
    rw [SE3_mul_assoc D A Bm hDv hA, ← SE3_mul_assoc (P i) D _ h0 hDv, hD,
      ← SE3_mul_assoc (P i) _ _ h0 (SE3_valid_inv _ h0), SE3_mul_inv _ h0, SE3_one_mul]
  exact step1.trans (SE3Equiv.of_eq step2)

/-- **`extrapolate=True`, first pose**: the spline starts exactly at the first input pose (any `N ≥ 1`). -/
theorem bspline_extrapolate_first (eps : ℝ) (heps : 0 ≤ eps) (N : Nat) (P : Nat → SE3 ℝ) (interval : ℝ)
    (h0 : SE3.Valid (P 0)) :
    bsplineAt eps (pad N P) 0 ((0 : ℕ) * interval) = P 0 := by
  obtain ⟨a0, b0, c0⟩ := bw_zero
  unfold bsplineAt segPose
  have p0 : pad N P 0 = P 0 := by unfold pad; simp
  have p1 : pad N P (0 + 1) = P 0 := by unfold pad; simp
  have p2 : pad N P (0 + 2) = P 0 := by
    unfold pad
    by_cases hN : N = 0
    · subst hN; simp
    · have h2 : ¬ N + 2 ≤ 0 + 2 := by omega
      simp [h2]
  simp only [Nat.cast_zero, zero_mul, a0, b0, c0, p0, p1, p2, delta_self eps heps (P 0) h0, scale_of_zero,
    scale_zero_right, se3Exp_zero eps heps, SE3_mul_one]

/-- the list returned with `extrapolate=True` starts with the first input pose (`k ≥ 1`) -/
theorem bspline_extrapolate_head (eps : ℝ) (heps : 0 ≤ eps) (N kk : Nat) (interval : ℝ) (P : Nat → SE3 ℝ)
    (hk : 1 ≤ kk) (h0 : SE3.Valid (P 0)) (out : List (SE3 ℝ))
    (h : bspline eps N kk interval true P = some out) : out[0]? = some (P 0) := by
  unfold bspline at h
  simp only [if_true, Option.some.injEq] at h
  rw [← h]
  unfold bsplineCore
  have hpos : 0 < (N + 4 - 3) * kk := Nat.mul_pos (by omega) (by omega)
  rw [List.getElem?_append_left (by simpa using hpos), List.getElem?_map, List.getElem?_range hpos]
  simp only [Option.map_some, Nat.zero_div, Nat.zero_mod, k_real]
  rw [bspline_extrapolate_first eps heps N P interval h0]

/-- **`extrapolate=True`, last pose**: the final pose is the last input pose (as a transformation), given
`Exp(Log D) ≅ D` for the last relative pose `D = P_{N-2}⁻¹ P_{N-1}` (C02); `N ≥ 2`. -/
theorem bspline_extrapolate_last (eps : ℝ) (heps : 0 ≤ eps) (N : Nat) (P : Nat → SE3 ℝ) (hN : 2 ≤ N)
    (h0 : SE3.Valid (P (N - 2))) (h1 : SE3.Valid (P (N - 1)))
    (hEL : SE3Equiv (se3Exp eps (delta eps (P (N - 2)) (P (N - 1)))) (SE3Mul (SE3Inv (P (N - 2))) (P (N - 1)))) :
    SE3Equiv (bsplineEnd eps (N + 4) (pad N P)) (P (N - 1)) := by
  obtain ⟨a', b', c'⟩ := bwEnd_eq
  unfold bsplineEnd segPose
  have p0 : pad N P (N + 4 - 4) = P (N - 2) := by
    unfold pad
    have h1 : ¬ N + 4 - 4 < 2 := by omega
    have h2 : ¬ N + 2 ≤ N + 4 - 4 := by omega
    simp only [h1, h2, if_false]
    have e : N + 4 - 4 - 2 = N - 2 := by omega
    rw [e]
  have p1 : pad N P (N + 4 - 3) = P (N - 1) := by
    unfold pad
    have h1 : ¬ N + 4 - 3 < 2 := by omega
    have h2 : ¬ N + 2 ≤ N + 4 - 3 := by omega
    simp only [h1, h2, if_false]
    have e : N + 4 - 3 - 2 = N - 1 := by omega
    rw [e]
  have p2 : pad N P (N + 4 - 2) = P (N - 1) := by
    unfold pad
    have h1 : ¬ N + 4 - 2 < 2 := by omega
    have h2 : N + 2 ≤ N + 4 - 2 := by omega
    simp only [h1, h2, if_false, if_true]
  have p3 : pad N P (N + 4 - 1) = P (N - 1) := by
    unfold pad
    have h1 : ¬ N + 4 - 1 < 2 := by omega
    have h2 : N + 2 ≤ N + 4 - 1 := by omega
    simp only [h1, h2, if_false, if_true]
  simp only [p0, p1, p2, p3, a', b', c', delta_self eps heps _ h1, scale_of_zero, scale_one, se3Exp_zero eps heps,
    SE3_mul_one]
  have step : SE3Equiv (SE3Mul (P (N - 2)) (se3Exp eps (delta eps (P (N - 2)) (P (N - 1)))))
      (SE3Mul (P (N - 2)) (SE3Mul (SE3Inv (P (N - 2))) (P (N - 1)))) := SE3Equiv.mul_left _ hEL
  refine step.trans (SE3Equiv.of_eq ?_)
  rw [← SE3_mul_assoc _ _ _ h0 (SE3_valid_inv _ h0), SE3_mul_inv _ h0, SE3_one_mul]

/-- the rotation of a pose is in the generic regime of the code's `Log`/`Exp` pair -/
def GenericRot (eps : ℝ) (D : SE3 ℝ) : Prop :=
  eps < D.q.vec.norm ∧ eps < |D.q.w| ∧ eps < 2 * |Real.arctan (D.q.vec.norm / D.q.w)|

/-- **`Exp(Log D) ≅ D`** for the modelled functions: valid pose, rotation in the generic regime OR exactly trivial (`q = ±1`: equal
orientations / pure translation). NOT covered: rotation angles in `(0, ~2·eps]` (Taylor branch of `Log`: `Exp(Log D)` differs from
`D` by `O(eps⁵)`), `|w| ≤ eps` (angle within `2·eps` of `π`). -/
theorem exp_log_closed (eps : ℝ) (D : SE3 ℝ) (h0 : 0 ≤ eps) (hD : SE3.Valid D)
    (hg : GenericRot eps D ∨ D.q.vec = Vec3.zero) :
    SE3Equiv (se3Exp eps (SE3Log eps D)) D := by
  rcases hg with hg | hv
  · exact se3Exp_SE3Log eps D h0 hD hg.1 hg.2.1 hg.2.2
  · exact se3Exp_SE3Log_pure eps D h0 hD hv

/-- **Continuity across segments, no hypothesis about `Exp`/`Log` left**: valid control poses, the relative
rotation `Pᵢ⁻¹Pᵢ₊₁` in the generic regime or exactly trivial (consecutive poses with EQUAL orientation, repeated poses), and
the next relative motion either in the closed-form branch after scaling by 5/6 or a pure translation / identity.
NOT covered: relative rotation angles in `(0, ~2 eps]` or within `2 eps` of `π` (see `exp_log_closed`); there the two ends agree only
up to `O(eps⁵)` — `bspline_continuous` states what is needed. -/
theorem bspline_continuous_closed (eps : ℝ) (heps : 0 ≤ eps) (P : Nat → SE3 ℝ) (i : Nat)
    (h0 : SE3.Valid (P i)) (h1 : SE3.Valid (P (i + 1)))
    (hg : GenericRot eps (SE3Mul (SE3Inv (P i)) (P (i + 1))) ∨ (SE3Mul (SE3Inv (P i)) (P (i + 1))).q.vec = Vec3.zero)
    (hA : eps < (scale (delta eps (P (i + 1)) (P (i + 2))) (5 / 6)).phi.norm
      ∨ (scale (delta eps (P (i + 1)) (P (i + 2))) (5 / 6)).phi = Vec3.zero) :
    SE3Equiv (bsplineAt eps P i 1) (bsplineAt eps P (i + 1) 0) := by
  apply bspline_continuous eps heps P i h0 h1
  · exact exp_log_closed eps _ heps (SE3_valid_mul _ _ (SE3_valid_inv _ h0) h1) hg
  · exact se3Exp_valid eps _ heps hA

/-- **`extrapolate=True`, last pose, no hypothesis about `Exp`/`Log` left**: the last relative rotation in the generic regime or
exactly trivial (equal last two orientations, repeated last pose). Same exclusions as `exp_log_closed`. -/
theorem bspline_extrapolate_last_closed (eps : ℝ) (heps : 0 ≤ eps) (N : Nat) (P : Nat → SE3 ℝ) (hN : 2 ≤ N)
    (h0 : SE3.Valid (P (N - 2))) (h1 : SE3.Valid (P (N - 1)))
    (hg : GenericRot eps (SE3Mul (SE3Inv (P (N - 2))) (P (N - 1)))
      ∨ (SE3Mul (SE3Inv (P (N - 2))) (P (N - 1))).q.vec = Vec3.zero) :
    SE3Equiv (bsplineEnd eps (N + 4) (pad N P)) (P (N - 1)) :=
  bspline_extrapolate_last eps heps N P hN h0 h1
    (exp_log_closed eps _ heps (SE3_valid_mul _ _ (SE3_valid_inv _ h0) h1) hg)

/-! ### non-vacuity (spline part) -/

/-- the rounding case is real: for the double `1/3 = 6004799503160661·2⁻⁵⁴` the float length is 3, the rational count 4 -/
example : floatLen 6004799503160661 18014398509481984 = 3 ∧ count 6004799503160661 18014398509481984 = 4 := by decide +kernel
example : floatLen 3602879701896397 36028797018963968 = 10 ∧ count 3602879701896397 36028797018963968 = 10 := by decide +kernel


/-- the hypotheses of `bsplineAt_const_twist_closed` are satisfiable: `eps = 10⁻³`, `ξ = (τ; φ)` with `‖φ‖ = 1`, `u = 1/2` -/
example : let eps : ℝ := 1 / 1000
    let xi : se3 ℝ := ⟨⟨1, 2, 3⟩, ⟨1, 0, 0⟩⟩
    eps < xi.phi.norm ∧ xi.phi.norm < Real.pi ∧ eps < Real.sin (xi.phi.norm / 2) ∧ eps < Real.cos (xi.phi.norm / 2)
      ∧ eps < bw1 (1 / 2) * xi.phi.norm ∧ eps < bw2 (1 / 2) * xi.phi.norm ∧ eps < bw3 (1 / 2) * xi.phi.norm := by
  intro eps xi
  have hn : xi.phi.norm = 1 := by
    show Vec3.norm (⟨1, 0, 0⟩ : Vec3 ℝ) = 1
    unfold Vec3.norm Vec3.normSq; simp
  rw [hn]
  have hs := Real.sin_gt_sub_cube (x := (1 : ℝ) / 2) (by norm_num)
  have hc := Real.one_sub_sq_div_two_le_cos (x := (1 : ℝ) / 2)
  have hpi := Real.two_le_pi
  refine ⟨by norm_num [eps], by linarith, by norm_num [eps] at hs ⊢; linarith, by norm_num [eps] at hc ⊢; linarith, ?_, ?_, ?_⟩ <;>
    (simp only [bw1, bw2, bw3, k_real, q_real, eps]; norm_num)
/-- `GenericRot` is satisfiable with a positive threshold: `q = (0.6, 0, 0, 0.8)`, `eps = arctan(3/4)/4` -/
example : 0 < Real.arctan (3 / 4) / 4 ∧ GenericRot (Real.arctan (3 / 4) / 4) ⟨⟨1, 2, 3⟩, ⟨0.6, 0, 0, 0.8⟩⟩ := by
  have hn : Vec3.norm (⟨0.6, 0, 0⟩ : Vec3 ℝ) = 0.6 := by
    unfold Vec3.norm Vec3.normSq
    simp only [sqrt_real]
    rw [show (0.6 : ℝ) * 0.6 + 0 * 0 + 0 * 0 = 0.6 ^ 2 by norm_num]
    exact Real.sqrt_sq (by norm_num)
  have hpos : 0 < Real.arctan (3 / 4) := Real.arctan_pos.mpr (by norm_num)
  have hlt : Real.arctan (3 / 4) < 2 := by
    have := Real.arctan_lt_pi_div_two (3 / 4)
    have := Real.pi_le_four
    linarith
  refine ⟨by positivity, ?_⟩
  unfold GenericRot
  simp only [Quat.vec, hn]
  have h1 : (0.6 : ℝ) / 0.8 = 3 / 4 := by norm_num
  rw [h1, abs_of_pos hpos, abs_of_pos (show (0 : ℝ) < 0.8 by norm_num)]
  refine ⟨by linarith, by linarith, by linarith⟩

end PP.Spline

namespace PP.Traj
open PP

/-! ## statistics -/

/-- **`Max ≥ RMSE ≥ Mean ≥ Min ≥ 0`** for every non-empty error list (any length, any signs), and the median
lies between `Min` and `Max`. -/
theorem stats_order (es : List ℝ) (hne : es ≠ []) :
    (stats es).max ≥ (stats es).rmse ∧ (stats es).rmse ≥ (stats es).mean ∧ (stats es).mean ≥ (stats es).min
      ∧ (stats es).min ≥ 0 ∧ (stats es).min ≤ (stats es).median ∧ (stats es).median ≤ (stats es).max := by
  have hlen : 0 < es.length := List.length_pos_of_ne_nil hne
  have hn : (0 : ℝ) < (es.length : ℝ) := by exact_mod_cast hlen
  set a := es.map sabs with ha
  have halen : a.length = es.length := by simp [ha]
  have hane : a ≠ [] := by intro h; apply hne; simpa [ha] using h
  have hnonneg : ∀ y ∈ a, (0 : ℝ) ≤ y := by
    intro y hy
    obtain ⟨x, _, rfl⟩ := List.mem_map.mp hy
    rw [sabs_real]; exact abs_nonneg x
  have hmin_le := minL_le a
  have hmax_ge := maxL_ge a
  have hmin0 : 0 ≤ minL a := minL_ge a 0 le_rfl hnonneg
  obtain ⟨y0, hy0⟩ := List.exists_mem_of_ne_nil a hane
  have hmax0 : 0 ≤ maxL a := le_trans (hnonneg y0 hy0) (hmax_ge y0 hy0)
  have hmean : (stats es).mean = a.sum / es.length := by simp [stats, sumL_eq_sum, ha]
  have hrmse : (stats es).rmse = Real.sqrt (sqsum a / es.length) := by simp [stats, sqsum_abs, ha]
  have hmaxd : (stats es).max = maxL a := rfl
  have hmind : (stats es).min = minL a := rfl
  have hmean0 : 0 ≤ a.sum / es.length := div_nonneg (List.sum_nonneg hnonneg) hn.le
  refine ⟨?_, ?_, ?_, ?_, ?_, ?_⟩
  · -- Max ≥ RMSE
    rw [hmaxd, hrmse, ge_iff_le, ← Real.sqrt_sq hmax0]
    apply Real.sqrt_le_sqrt
    rw [div_le_iff₀ hn, sqsum_eq]
    have := sum_le_card_mul (a.map fun x => x * x) (maxL a ^ 2) (by
      intro z hz
      obtain ⟨y, hy, rfl⟩ := List.mem_map.mp hz
      have h1 := hmax_ge y hy
      have h0 := hnonneg y hy
      nlinarith)
    rw [List.length_map, halen] at this
    linarith
  · -- RMSE ≥ Mean
    rw [hrmse, hmean, ge_iff_le, ← Real.sqrt_sq hmean0]
    apply Real.sqrt_le_sqrt
    rw [div_pow, div_le_div_iff₀ (by positivity) hn, sqsum_eq]
    have hc := sq_sum_le a
    rw [halen] at hc
    nlinarith
  · -- Mean ≥ Min
    rw [hmean, hmind, ge_iff_le, le_div_iff₀ hn]
    have := sum_ge_card_mul a (minL a) hmin_le
    rw [halen] at this
    linarith
  · exact hmin0
  · -- Min ≤ Median
    have hp := sortAsc_perm a
    have hidx : (es.length - 1) / 2 < (sortAsc a).length := by
      rw [hp.length_eq, halen]; omega
    have hmem : (sortAsc a).getD ((es.length - 1) / 2) (k 0) ∈ a := by
      rw [List.getD_eq_getElem (hn := hidx)]
      exact hp.mem_iff.mp (List.getElem_mem hidx)
    exact hmin_le _ hmem
  · have hp := sortAsc_perm a
    have hidx : (es.length - 1) / 2 < (sortAsc a).length := by
      rw [hp.length_eq, halen]; omega
    have hmem : (sortAsc a).getD ((es.length - 1) / 2) (k 0) ∈ a := by
      rw [List.getD_eq_getElem (hn := hidx)]
      exact hp.mem_iff.mp (List.getElem_mem hidx)
    exact hmax_ge _ hmem

/-- `SSE = n · RMSE²`, `SSE ≥ 0`, and `STD ≥ 0` for at least two errors (`torch.std` of one value is NaN). -/
theorem stats_sse (es : List ℝ) (hne : es ≠ []) :
    (stats es).sse = es.length * (stats es).rmse ^ 2 ∧ 0 ≤ (stats es).sse ∧ (2 ≤ es.length → 0 ≤ (stats es).std) := by
  have hlen : 0 < es.length := List.length_pos_of_ne_nil hne
  have hn : (0 : ℝ) < (es.length : ℝ) := by exact_mod_cast hlen
  refine ⟨?_, sqsum_nonneg es, fun _ => Real.sqrt_nonneg _⟩
  simp only [stats, sqrt_real, k_real]
  rw [Real.sq_sqrt (div_nonneg (sqsum_nonneg es) hn.le)]
  field_simp

/-- **Zero statistics**: if every error is zero, all seven statistics are zero — for at least two errors (the quantifier is
3..200 poses; `STD` of a single error is `0/0 = NaN` in the code and is not claimed). -/
theorem stats_zero (es : List ℝ) (h : ∀ e ∈ es, e = 0) (_hn : 2 ≤ es.length) :
    (stats es).toList = [0, 0, 0, 0, 0, 0, 0] := stats_zero_raw es h

/-- the six statistics other than `STD` are zero for any number of zero errors (also a single one) -/
theorem stats_zero_six (es : List ℝ) (h : ∀ e ∈ es, e = 0) :
    (stats es).max = 0 ∧ (stats es).min = 0 ∧ (stats es).mean = 0 ∧ (stats es).median = 0 ∧ (stats es).rmse = 0
      ∧ (stats es).sse = 0 := by
  have := stats_zero_raw es h
  simp only [Stats.toList, List.cons.injEq, and_true] at this
  exact ⟨this.1, this.2.1, this.2.2.1, this.2.2.2.1, this.2.2.2.2.1, this.2.2.2.2.2.1⟩

/-! ## association -/

/-- **Association with jitter below the threshold.** Two trajectories of the same length whose stamps differ
(after the offset) by less than `diff`, each estimate stamp being strictly closer to its own reference stamp than
to any other, are associated pose by pose: nothing is dropped, nothing re-ordered. -/
theorem associate_jitter (diff off : ℝ) (rs es : List ℝ) (rp ep : List (SE3 ℝ))
    (hl : es.length = rs.length) (hrp : rp.length = rs.length) (hep : ep.length = es.length) (hne : rs ≠ [])
    (hnear : ∀ (i : Nat) (hi : i < es.length), |es[i] + off - rs[i]'(hl ▸ hi)| < diff)
    (huniq : ∀ (i : Nat) (hi : i < es.length) (k : Nat) (hk : k < rs.length), k ≠ i →
      |es[i] + off - rs[i]'(hl ▸ hi)| < |es[i] + off - rs[k]|) :
    associate diff off rs rp es ep = some ⟨rs, rp, es, ep⟩ := by
  have hm : matchIdx diff (-off) es rs = (List.range es.length).map fun i => (i, i) := by
    apply matchIdx_diag diff (-off) es rs hl
    · intro i hi
      have := hnear i hi
      rwa [show es[i] - (rs[i] + -off) = es[i] + off - rs[i] by ring]
    · intro i hi k hk hki
      have := huniq i hi k hk hki
      rwa [show es[i] - (rs[i] + -off) = es[i] + off - rs[i] by ring,
        show es[i] - (rs[k] + -off) = es[i] + off - rs[k] by ring]
  have hnl : ¬ rs.length < es.length := by omega
  have h1 : (List.map (fun i => (i, i)) (List.range es.length)).map Prod.snd = List.range es.length := by
    rw [List.map_map]; exact List.map_id' _
  have h2 : (List.map (fun i => (i, i)) (List.range es.length)).map Prod.fst = List.range es.length := by
    rw [List.map_map]; exact List.map_id' _
  have hpos : 0 < rs.length := List.length_pos_of_ne_nil hne
  unfold associate assocIdx
  simp only [hnl, if_false, hm, h1, h2]
  have hes : 0 < es.length := by omega
  have hemp : (List.range es.length).isEmpty = false := by
    rw [List.isEmpty_eq_false_iff]; intro h
    have h' := congrArg List.length h
    rw [List.length_range, List.length_nil] at h'
    omega
  simp only [hemp, Bool.false_eq_true, if_false]
  have e1 : pick rs (List.range es.length) = rs := by rw [hl]; exact pick_range rs
  have e2 : pick rp (List.range es.length) = rp := by rw [hl, ← hrp]; exact pick_range rp
  have e3 : pick es (List.range es.length) = es := pick_range es
  have e4 : pick ep (List.range es.length) = ep := by rw [← hep]; exact pick_range ep
  rw [e1, e2, e3, e4]

/-- **Brute-force nearest-stamp association, for every spacing of the stamps** (hardening kind 18): every pair `(i, j)`
returned by `matching_time_indices` has `j` a position of `l`, the stamp `l_j + off` is closer to `s_i` than `diff`, and
NO other stamp of `l` is closer — whether the stamps are spaced far above, near or below `diff`. -/
theorem matchIdx_nearest (diff off : ℝ) (s l : List ℝ) (i j : Nat) (h : (i, j) ∈ matchIdx diff off s l) :
    ∃ (hi : i < s.length) (hj : j < l.length), |s[i] - (l[j] + off)| < diff ∧
      ∀ (k : Nat) (hk : k < l.length), |s[i] - (l[j] + off)| ≤ |s[i] - (l[k] + off)| := by
  unfold matchIdx at h
  obtain ⟨⟨si, i'⟩, hmem, hval⟩ := List.mem_filterMap.mp h
  obtain ⟨hi, hsi⟩ := List.mem_zipIdx' hmem
  simp only at hval
  cases ha : argmin? (absDiffRow si off l) with
  | none => simp [ha] at hval
  | some vj =>
    obtain ⟨v, j'⟩ := vj
    simp only [ha] at hval
    by_cases hlt : v < diff
    · simp only [lt_real, hlt, decide_true, if_true, Option.some.injEq, Prod.mk.injEq] at hval
      obtain ⟨rfl, rfl⟩ := hval
      obtain ⟨hjl, hjv, hmin⟩ := argmin?_spec _ v j' ha
      have hlen : (absDiffRow si off l).length = l.length := by simp [absDiffRow]
      rw [hlen] at hjl
      have hrow : ∀ (k : Nat) (hk : k < l.length), (absDiffRow si off l)[k]? = some |si - (l[k] + off)| := by
        intro k hk
        simp [absDiffRow, hk, sabs_real]
      have hv : v = |si - (l[j'] + off)| := by
        have := hrow j' hjl
        rw [hjv] at this
        exact Option.some.inj this
      refine ⟨hi, hjl, ?_, ?_⟩
      · rw [← hsi, ← hv]; exact hlt
      · intro k hk
        rw [← hsi, ← hv]
        exact hmin _ (List.mem_of_getElem? (hrow k hk))
    · simp [lt_real, hlt] at hval

/-- **Exact ties and the boundary of the threshold** (pass 4, class 20): among equally near stamps the FIRST one is taken —
every earlier stamp of `l` is strictly farther — and a stamp exactly `diff` away is not matched (`<` is strict). -/
theorem matchIdx_first_on_ties (diff off : ℝ) (s l : List ℝ) (i j : Nat) (h : (i, j) ∈ matchIdx diff off s l) :
    ∃ (hi : i < s.length) (hj : j < l.length),
      (∀ (k : Nat) (hk : k < l.length), k < j → |s[i] - (l[j] + off)| < |s[i] - (l[k] + off)|) ∧
      |s[i] - (l[j] + off)| ≠ diff := by
  obtain ⟨hi, hj, hlt, _⟩ := matchIdx_nearest diff off s l i j h
  refine ⟨hi, hj, ?_, ne_of_lt hlt⟩
  unfold matchIdx at h
  obtain ⟨⟨si, i'⟩, hmem, hval⟩ := List.mem_filterMap.mp h
  obtain ⟨_, hsi⟩ := List.mem_zipIdx' hmem
  simp only at hval
  cases ha : argmin? (absDiffRow si off l) with
  | none => simp [ha] at hval
  | some vj =>
    obtain ⟨v, j'⟩ := vj
    simp only [ha] at hval
    by_cases hv : v < diff
    · simp only [lt_real, hv, decide_true, if_true, Option.some.injEq, Prod.mk.injEq] at hval
      obtain ⟨rfl, rfl⟩ := hval
      obtain ⟨hjl, hjv, _⟩ := argmin?_spec _ v j' ha
      have hrow : ∀ (k : Nat) (hk : k < l.length), (absDiffRow si off l)[k]? = some |si - (l[k] + off)| := by
        intro k hk
        simp [absDiffRow, hk, sabs_real]
      have hveq : v = |si - (l[j'] + off)| := by
        have := hrow j' hj
        rw [hjv] at this
        exact Option.some.inj this
      intro k hk hkj
      have := argmin?_first _ v j' ha k _ (hrow k hk) hkj
      rw [← hsi, ← hveq]; exact this
    · simp [lt_real, hv] at hval

/-- association only looks at the stamps: mapping the poses commutes with it -/
theorem associate_map (diff off : ℝ) (rs es : List ℝ) (rp ep : List (SE3 ℝ)) (f g : SE3 ℝ → SE3 ℝ) :
    associate diff off rs (rp.map f) es (ep.map g)
      = (associate diff off rs rp es ep).map fun a => ⟨a.rs, a.rp.map f, a.es, a.ep.map g⟩ := by
  unfold associate
  simp only [pick_map]
  split_ifs <;> rfl

/-! ## identical trajectories -/

/-- general form used below (all modes; for `svd` it needs the transform returned on identical point sets to be the identity as
a transformation) -/
theorem apeCore_identical_zero_of (eps atol : ℝ) (heps : 0 ≤ eps) (hatol : atol ≤ 1)
    (alignFn : List (Vec3 ℝ) → List (Vec3 ℝ) → Sim3 ℝ) (et : EType) (mode : AlignMode) (rp : List (SE3 ℝ))
    (hv : ∀ r ∈ rp, SE3.Valid r)
    (hsvd : mode = .svd → Sim3Equiv (alignFn (rp.map (·.t)) (rp.map (·.t))) Sim3one) :
    ∀ e ∈ apeCore eps atol alignFn et mode rp rp, e = 0 := by
  unfold apeCore
  apply zipWith_self_zero
  intro r hr
  have hT : Sim3Equiv (transOf alignFn mode rp rp) Sim3one := by
    cases mode with
    | none => exact Sim3Equiv.refl _
    | origin =>
      unfold transOf originT
      cases rp with
      | nil => simp at hr
      | cons r0 rest =>
        simp only [List.headD_cons]
        rw [SE3_mul_inv r0 (hv r0 (by simp))]
        exact Sim3Equiv.refl _
    | svd => exact hsvd rfl
  have h1 := alignPose_congr hT r
  rw [alignPose_one] at h1
  rw [apeErr_congr eps atol et r h1]
  exact apeErr_self eps atol heps hatol et r (hv r hr)

/-- **APE of identical trajectories is zero** (after association), every error type, without alignment or with `origin`:
full strength, all lengths. -/
theorem apeCore_identical_zero (eps atol : ℝ) (heps : 0 ≤ eps) (hatol : atol ≤ 1)
    (alignFn : List (Vec3 ℝ) → List (Vec3 ℝ) → Sim3 ℝ) (et : EType) (mode : AlignMode) (hmode : mode ≠ .svd)
    (rp : List (SE3 ℝ)) (hv : ∀ r ∈ rp, SE3.Valid r) :
    ∀ e ∈ apeCore eps atol alignFn et mode rp rp, e = 0 :=
  apeCore_identical_zero_of eps atol heps hatol alignFn et mode rp hv (fun h => absurd h hmode)

/-- **PARTIAL — `svdstf` alignment, guard: positions NOT collinear.** With `align`/`scale` the errors of identical trajectories
are zero if the transform returned on identical point sets is the identity as a transformation. The `svdstf` contract forces that
(`alignOK_identity_partial`) — but the contract is unsatisfiable when the positions are collinear (`alignOK_collinear_false`), and
there the real code returns non-zero rotation errors (known finding D43); only the translation-type clause survives
(`apeCore_identical_zero_translation`). -/
theorem apeCore_identical_zero_svd_partial (eps atol : ℝ) (heps : 0 ≤ eps) (hatol : atol ≤ 1)
    (alignFn : List (Vec3 ℝ) → List (Vec3 ℝ) → Sim3 ℝ) (et : EType) (rp : List (SE3 ℝ)) (hv : ∀ r ∈ rp, SE3.Valid r)
    (hsvd : Sim3Equiv (alignFn (rp.map (·.t)) (rp.map (·.t))) Sim3one) :
    ∀ e ∈ apeCore eps atol alignFn et .svd rp rp, e = 0 :=
  apeCore_identical_zero_of eps atol heps hatol alignFn et .svd rp hv (fun _ => hsvd)

/-- **Translation errors of identical trajectories are zero under ANY optimal `svdstf`** — also on collinear positions (where
the optimum is not unique): optimality alone (`cost ≤ cost of the identity = 0`) pins the aligned positions. -/
theorem apeCore_identical_zero_translation (eps atol : ℝ) (alignFn : List (Vec3 ℝ) → List (Vec3 ℝ) → Sim3 ℝ)
    (rp : List (SE3 ℝ))
    (hopt : cost (alignFn (rp.map (·.t)) (rp.map (·.t))) (rp.map (·.t)) (rp.map (·.t)) ≤ 0) :
    ∀ e ∈ apeCore eps atol alignFn .translation .svd rp rp, e = 0 := by
  unfold apeCore
  simp only [transOf]
  set T := alignFn (rp.map (·.t)) (rp.map (·.t)) with hT
  apply zipWith_self_zero
  intro r hr
  have hz : ((Sim3Act T r.t).sub r.t).normSq = 0 := by
    have hc : cost T (rp.map (·.t)) (rp.map (·.t)) = 0 := le_antisymm hopt (cost_nonneg _ _ _)
    exact cost_zero_mem T (rp.map (·.t)) hc r.t (List.mem_map.mpr ⟨r, hr, rfl⟩)
  unfold apeErr errMat
  simp only []
  have : (alignPose T r).t.sub r.t = Vec3.zero := normSq_eq_zero _ hz
  rw [this, Spline.Vec3.norm_zero']

/-- **PARTIAL — guard: positions NOT collinear.** On identical point sets the `svdstf` contract forces the identity (as a
transformation); for collinear positions the hypothesis cannot hold (`alignOK_collinear_false`). -/
theorem alignOK_identity_partial (rigid : Bool) (A : Sim3 ℝ) (P : List (Vec3 ℝ)) (h : AlignOK rigid A P P) :
    Sim3Equiv A Sim3one := by
  have h1 : Sim3.Valid (Sim3one : Sim3 ℝ) := ⟨SO3_valid_one, by simp [Sim3one]⟩
  have := h.unique Sim3one h1 (fun _ => by simp [Sim3one]) (by rw [cost_self_one]; exact cost_nonneg _ _ _)
  obtain ⟨a, b, c⟩ := this
  refine ⟨a.symm, b.symm, ?_⟩
  rcases c with c | c
  · exact Or.inl c.symm
  · right; rw [c, Spline.Quat.neg_neg']

/-- **The `svdstf` contract is unsatisfiable on collinear source positions** (straight-line motion, two distinct positions, all
positions equal): every theorem below that takes `AlignOK` as hypothesis is silent there — which is exactly where the real code
violates the rotation-type clauses (known finding D43). -/
theorem alignOK_collinear_false (rigid : Bool) (A : Sim3 ℝ) (P Q : List (Vec3 ℝ)) (hc : Collinear P) :
    ¬ AlignOK rigid A P Q := fun h => alignOK_collinear_false' rigid A P Q hc h

/-- **`svdstf`'s freedom on collinear positions** (the witness behind D43): for source points on the line `c + λu`, composing
ANY valid transform `T` — in particular an optimal one — with the rotation by ANY angle about that line gives the same cost, and
for a half turn a genuinely different transformation: the optimum is never unique. -/
theorem collinear_optimum_not_unique (T : Sim3 ℝ) (hT : Sim3.Valid T) (c u : Vec3 ℝ) (hu : u.normSq = 1)
    (P Q : List (Vec3 ℝ)) (hP : ∀ p ∈ P, ∃ lam : ℝ, p = c.add (u.smul lam)) :
    (∀ sn cs : ℝ, sn * sn + cs * cs = 1 → cost (Sim3Mul T (lineRot c u sn cs)) P Q = cost T P Q) ∧
    ¬ Sim3Equiv (Sim3Mul T (lineRot c u 1 0)) T := by
  refine ⟨fun sn cs h => collinear_cost_invariant T hT c u sn cs hu h P Q hP, ?_⟩
  intro heq
  obtain ⟨_, _, hq⟩ := heq
  have hTq : T.q.normSq = 1 := hT.1
  have key : ∀ r : Quat ℝ, T.q.mul (Spline.axisQuat u 1 0) = r → (Spline.axisQuat u 1 0) = T.q.conj.mul r := by
    intro r hr
    rw [← hr, ← Quat.mul_assoc', Quat.conj_mul, hTq]
    ext <;> lie_unfold <;> ring
  have hw : (Spline.axisQuat u 1 0).w = 0 := rfl
  rcases hq with hq | hq
  · have := key _ hq
    rw [Quat.conj_mul, hTq] at this
    have := congrArg Quat.w this
    rw [hw] at this; norm_num at this
  · have := key _ hq
    have e : T.q.conj.mul T.q.neg = (T.q.conj.mul T.q).neg := Spline.Quat.mul_neg' _ _
    rw [e, Quat.conj_mul, hTq] at this
    have := congrArg Quat.w this
    rw [hw] at this; simp [Quat.neg] at this

/-- **`ape` of a trajectory with itself returns zero statistics** — from the raw inputs: at least two poses (the quantifier is
3..200) with pairwise distinct stamps, any positive `diff`, zero offset, any error type, no alignment or `origin`. -/
theorem ape_identical_zero (eps atol : ℝ) (heps : 0 ≤ eps) (hatol : atol ≤ 1)
    (alignFn : List (Vec3 ℝ) → List (Vec3 ℝ) → Sim3 ℝ) (et : EType) (mode : AlignMode) (hmode : mode ≠ .svd)
    (diff : ℝ) (hdiff : 0 < diff) (rs : List ℝ) (rp : List (SE3 ℝ)) (hlen : rp.length = rs.length) (hn : 2 ≤ rs.length)
    (hdist : ∀ (i : Nat) (hi : i < rs.length) (k : Nat) (hk : k < rs.length), k ≠ i → rs[i] ≠ rs[k])
    (hv : ∀ r ∈ rp, SE3.Valid r) :
    (ape eps atol alignFn et diff 0 mode rs rp rs rp).map Stats.toList = some [0, 0, 0, 0, 0, 0, 0] := by
  have hne : rs ≠ [] := by intro h; rw [h] at hn; simp at hn
  have ha : associate diff 0 rs rp rs rp = some ⟨rs, rp, rs, rp⟩ := by
    apply associate_jitter diff 0 rs rs rp rp rfl hlen hlen hne
    · intro i hi; simpa using hdiff
    · intro i hi k hk hki
      have : rs[i] - rs[k] ≠ 0 := sub_ne_zero.mpr (hdist i hi k hk hki)
      simpa using this
  unfold ape apeErrors
  rw [ha]
  simp only [Option.map_some]
  rw [stats_zero _ (apeCore_identical_zero eps atol heps hatol alignFn et mode hmode rp hv)
    (by rw [apeCore_length_self, hlen]; exact hn)]

/-- **PARTIAL — `svdstf` alignment, guard: positions NOT collinear** (raw-input form of `apeCore_identical_zero_svd_partial`). -/
theorem ape_identical_zero_svd_partial (eps atol : ℝ) (heps : 0 ≤ eps) (hatol : atol ≤ 1)
    (alignFn : List (Vec3 ℝ) → List (Vec3 ℝ) → Sim3 ℝ) (et : EType) (diff : ℝ) (hdiff : 0 < diff)
    (rs : List ℝ) (rp : List (SE3 ℝ)) (hlen : rp.length = rs.length) (hn : 2 ≤ rs.length)
    (hdist : ∀ (i : Nat) (hi : i < rs.length) (k : Nat) (hk : k < rs.length), k ≠ i → rs[i] ≠ rs[k])
    (hv : ∀ r ∈ rp, SE3.Valid r)
    (hsvd : Sim3Equiv (alignFn (rp.map (·.t)) (rp.map (·.t))) Sim3one) :
    (ape eps atol alignFn et diff 0 .svd rs rp rs rp).map Stats.toList = some [0, 0, 0, 0, 0, 0, 0] := by
  have hne : rs ≠ [] := by intro h; rw [h] at hn; simp at hn
  have ha : associate diff 0 rs rp rs rp = some ⟨rs, rp, rs, rp⟩ := by
    apply associate_jitter diff 0 rs rs rp rp rfl hlen hlen hne
    · intro i hi; simpa using hdiff
    · intro i hi k hk hki
      have : rs[i] - rs[k] ≠ 0 := sub_ne_zero.mpr (hdist i hi k hk hki)
      simpa using this
  unfold ape apeErrors
  rw [ha]
  simp only [Option.map_some]
  rw [stats_zero _ (apeCore_identical_zero_svd_partial eps atol heps hatol alignFn et rp hv hsvd)
    (by rw [apeCore_length_self, hlen]; exact hn)]

/-- **`ape(align[, scale], etype='translation')` of a trajectory with itself is zero under ANY optimal `svdstf`** (pass 10) — from the
raw inputs (pairwise distinct stamps, `diff > 0`, at least two poses), all seven statistics. FULL strength on the clause that survives
D43: no uniqueness hypothesis, so collinear positions, two distinct positions and all positions equal are included; the only
hypothesis on `svdstf` is that it does at least as well as the identity (cost ≤ 0) on the matched positions. -/
theorem ape_identical_zero_translation (eps atol : ℝ) (alignFn : List (Vec3 ℝ) → List (Vec3 ℝ) → Sim3 ℝ)
    (diff : ℝ) (hdiff : 0 < diff) (rs : List ℝ) (rp : List (SE3 ℝ)) (hlen : rp.length = rs.length) (hn : 2 ≤ rs.length)
    (hdist : ∀ (i : Nat) (hi : i < rs.length) (k : Nat) (hk : k < rs.length), k ≠ i → rs[i] ≠ rs[k])
    (hopt : cost (alignFn (rp.map (·.t)) (rp.map (·.t))) (rp.map (·.t)) (rp.map (·.t)) ≤ 0) :
    (ape eps atol alignFn .translation diff 0 .svd rs rp rs rp).map Stats.toList = some [0, 0, 0, 0, 0, 0, 0] := by
  have hne : rs ≠ [] := by intro h; rw [h] at hn; simp at hn
  have ha : associate diff 0 rs rp rs rp = some ⟨rs, rp, rs, rp⟩ := by
    apply associate_jitter diff 0 rs rs rp rp rfl hlen hlen hne
    · intro i hi; simpa using hdiff
    · intro i hi k hk hki
      have : rs[i] - rs[k] ≠ 0 := sub_ne_zero.mpr (hdist i hi k hk hki)
      simpa using this
  unfold ape apeErrors
  rw [ha]
  simp only [Option.map_some]
  rw [stats_zero _ (apeCore_identical_zero_translation eps atol alignFn rp hopt)
    (by rw [apeCore_length_self, hlen]; exact hn)]

/-- non-vacuity of `ape_identical_zero_translation` ON COLLINEAR POSITIONS: three poses on the x-axis, `svdstf` returning the half turn
about that axis (an optimum that is NOT the identity — the D43 situation): the hypothesis `cost ≤ 0` holds. -/
example : cost (lineRot Vec3.zero Vec3.e0 1 0) [Vec3.zero, Vec3.e0, (Vec3.e0 : Vec3 ℝ).smul 2] [Vec3.zero, Vec3.e0, (Vec3.e0 : Vec3 ℝ).smul 2] ≤ 0 := by
  have h := collinear_cost_invariant (Sim3one : Sim3 ℝ) ⟨SO3_valid_one, by simp [Sim3one]⟩ Vec3.zero Vec3.e0 1 0
    (by lie_unfold; norm_num) (by norm_num) [Vec3.zero, Vec3.e0, (Vec3.e0 : Vec3 ℝ).smul 2] [Vec3.zero, Vec3.e0, (Vec3.e0 : Vec3 ℝ).smul 2]
    (by
      intro p hp
      simp only [List.mem_cons, List.mem_nil_iff, or_false] at hp
      rcases hp with rfl | rfl | rfl
      · exact ⟨0, by ext <;> lie_unfold <;> norm_num⟩
      · exact ⟨1, by ext <;> lie_unfold <;> norm_num⟩
      · exact ⟨2, by ext <;> lie_unfold <;> norm_num⟩)
  rw [Sim3_one_mul] at h
  rw [h, cost_self_one]

/-! ## alignment invariance of APE -/

/-- **APE with `align` (and `scale`) is unchanged by a rigid (similarity) transform of the estimate.**
`rigid = true` is `align=True, scale=False` (then `S` must have unit scale), `rigid = false` is `scale=True`.
Hypotheses: the `svdstf` contract (C17: optimal and unique as a transformation) at the two point sets on which
it is called. Conclusion: the per-pose error lists are *equal*, hence every statistic. All lengths, all error types.

PARTIAL — guard: **the matched estimate positions are NOT collinear** (at least three poses, not on one line, in particular not all
equal and not just two distinct points). On collinear positions the hypotheses `h1`/`h2` are unsatisfiable for every `alignFn`
(`alignOK_collinear_false`), the optimum is a one-parameter family (`collinear_optimum_not_unique`), and the statement is
really false for the rotation-bearing error types of the code (known finding D43). -/
theorem apeCore_align_invariant_partial (eps atol : ℝ) (alignFn : List (Vec3 ℝ) → List (Vec3 ℝ) → Sim3 ℝ) (et : EType)
    (rigid : Bool) (S : Sim3 ℝ) (rp ep : List (SE3 ℝ)) (hS : Sim3.Valid S) (hSr : rigid = true → S.s = 1)
    (h1 : AlignOK rigid (alignFn (ep.map (·.t)) (rp.map (·.t))) (ep.map (·.t)) (rp.map (·.t)))
    (h2 : AlignOK rigid (alignFn ((ep.map (·.t)).map (Sim3Act S)) (rp.map (·.t)))
      ((ep.map (·.t)).map (Sim3Act S)) (rp.map (·.t))) :
    apeCore eps atol alignFn et .svd rp (ep.map (alignPose S)) = apeCore eps atol alignFn et .svd rp ep := by
  have hP : (ep.map (alignPose S)).map (·.t) = (ep.map (·.t)).map (Sim3Act S) := by
    rw [List.map_map, List.map_map]; rfl
  unfold apeCore transOf
  simp only [hP]
  have heq := align_equivariant rigid S _ _ _ _ hS hSr h1 h2
  apply zipWith_map_right_congr
  intro r e
  rw [alignPose_mul _ S e h2.valid hS]
  exact apeErr_congr eps atol et r (alignPose_congr heq e)

/-- **APE with `origin=True` is unchanged by left-multiplying the estimate by any fixed pose.** -/
theorem apeCore_origin_invariant (eps atol : ℝ) (alignFn : List (Vec3 ℝ) → List (Vec3 ℝ) → Sim3 ℝ) (et : EType)
    (G r0 e0 : SE3 ℝ) (rp ep : List (SE3 ℝ)) (hG : SE3.Valid G) (hr0 : SE3.Valid r0) (he0 : SE3.Valid e0) :
    apeCore eps atol alignFn et .origin (r0 :: rp) ((e0 :: ep).map (SE3Mul G))
      = apeCore eps atol alignFn et .origin (r0 :: rp) (e0 :: ep) := by
  unfold apeCore transOf originT
  simp only [List.map_cons, List.headD_cons]
  have key : ∀ e : SE3 ℝ,
      alignPose ⟨(SE3Mul r0 (SE3Inv (SE3Mul G e0))).t, (SE3Mul r0 (SE3Inv (SE3Mul G e0))).q, k 1⟩ (SE3Mul G e)
        = alignPose ⟨(SE3Mul r0 (SE3Inv e0)).t, (SE3Mul r0 (SE3Inv e0)).q, k 1⟩ e := by
    intro e
    have hGe0 := SE3_valid_mul G e0 hG he0
    rw [show (k 1 : ℝ) = 1 from by simp, alignPose_rigid, alignPose_rigid,
      SE3_mul_assoc r0 _ _ hr0 (SE3_valid_inv _ hGe0), Spline.SE3_rel_left_invariant G e0 e hG he0,
      ← SE3_mul_assoc r0 _ _ hr0 (SE3_valid_inv _ he0)]
  rw [key e0]
  congr 2
  rw [List.map_map]
  apply List.map_congr_left
  intro e _
  exact key e

/-- `origin=True` invariance for arbitrary (possibly empty, possibly unequal-length) associated lists -/
theorem apeCore_origin_invariant_lists (eps atol : ℝ) (alignFn : List (Vec3 ℝ) → List (Vec3 ℝ) → Sim3 ℝ) (et : EType)
    (G : SE3 ℝ) (rp ep : List (SE3 ℝ)) (hG : SE3.Valid G) (hR : ∀ r ∈ rp, SE3.Valid r) (hE : ∀ e ∈ ep, SE3.Valid e) :
    apeCore eps atol alignFn et .origin rp (ep.map (SE3Mul G)) = apeCore eps atol alignFn et .origin rp ep := by
  cases rp with
  | nil => simp [apeCore]
  | cons r0 rp =>
    cases ep with
    | nil => rfl
    | cons e0 ep => exact apeCore_origin_invariant eps atol alignFn et G r0 e0 rp ep hG (hR r0 (by simp)) (hE e0 (by simp))

/-- **`ape(origin=True)` is unchanged by left-multiplying the estimate by a fixed pose** — from the raw inputs
(any stamps / association outcome). -/
theorem ape_origin_invariant (eps atol : ℝ) (alignFn : List (Vec3 ℝ) → List (Vec3 ℝ) → Sim3 ℝ) (et : EType)
    (diff off : ℝ) (G : SE3 ℝ) (hG : SE3.Valid G) (rs es : List ℝ) (rp ep : List (SE3 ℝ))
    (hR : ∀ p ∈ rp, SE3.Valid p) (hE : ∀ p ∈ ep, SE3.Valid p) :
    ape eps atol alignFn et diff off .origin rs rp es (ep.map (SE3Mul G))
      = ape eps atol alignFn et diff off .origin rs rp es ep := by
  have hmap := associate_map diff off rs es rp ep id (SE3Mul G)
  simp only [List.map_id] at hmap
  unfold ape apeErrors
  rw [hmap]
  cases h : associate diff off rs rp es ep with
  | none => rfl
  | some a =>
    simp only [Option.map_some]
    have hboth : a.rp = pick rp (assocIdx diff off rs es).1 ∧ a.ep = pick ep (assocIdx diff off rs es).2 := by
      unfold associate at h
      simp only [] at h
      by_cases hc : (assocIdx diff off rs es).1.isEmpty = true
      · simp [hc] at h
      · have hc' : (assocIdx diff off rs es).1.isEmpty = false := by simpa using hc
        simp only [hc', Bool.false_eq_true, if_false, Option.some.injEq] at h
        rw [← h]; exact ⟨rfl, rfl⟩
    obtain ⟨hrp, hep⟩ := hboth
    rw [apeCore_origin_invariant_lists eps atol alignFn et G a.rp a.ep hG
      (fun p hp => hR p (mem_pick _ _ p (hrp ▸ hp))) (fun p hp => hE p (mem_pick _ _ p (hep ▸ hp)))]

/-- **`ape(align[, scale])` is unchanged by a rigid (similarity) transform of the estimate** — from the raw inputs.
The `svdstf` contract is required at the two point sets on which `ape` calls it (the associated translations).

PARTIAL — guard: **the positions of the matched estimate poses are NOT collinear**; otherwise `hc` cannot hold
(`alignOK_collinear_false`) and the code's rotation-type errors do change (D43). -/
theorem ape_align_invariant_partial (eps atol : ℝ) (alignFn : List (Vec3 ℝ) → List (Vec3 ℝ) → Sim3 ℝ) (et : EType)
    (diff off : ℝ) (rigid : Bool) (S : Sim3 ℝ) (hS : Sim3.Valid S) (hSr : rigid = true → S.s = 1)
    (rs es : List ℝ) (rp ep : List (SE3 ℝ))
    (hc : ∀ a, associate diff off rs rp es ep = some a →
      AlignOK rigid (alignFn (a.ep.map (·.t)) (a.rp.map (·.t))) (a.ep.map (·.t)) (a.rp.map (·.t)) ∧
      AlignOK rigid (alignFn ((a.ep.map (·.t)).map (Sim3Act S)) (a.rp.map (·.t)))
        ((a.ep.map (·.t)).map (Sim3Act S)) (a.rp.map (·.t))) :
    ape eps atol alignFn et diff off .svd rs rp es (ep.map (alignPose S))
      = ape eps atol alignFn et diff off .svd rs rp es ep := by
  have hmap := associate_map diff off rs es rp ep id (alignPose S)
  simp only [List.map_id] at hmap
  unfold ape apeErrors
  rw [hmap]
  cases h : associate diff off rs rp es ep with
  | none => rfl
  | some a =>
    simp only [Option.map_some]
    obtain ⟨h1, h2⟩ := hc a h
    rw [apeCore_align_invariant_partial eps atol alignFn et rigid S a.rp a.ep hS hSr h1 h2]

/-- **APE is unchanged when BOTH trajectories are moved by the same rigid motion — for every alignment mode** (pass 3):
none, `origin`, and `svdstf` (rigid or with scale; hypothesis: the C17 contract at the original and at the moved point
sets). The per-pose error lists are equal; all lengths, all error types.

PARTIAL for `mode = svd` — guard: **the estimate positions are NOT collinear** (else `hsvd` is unsatisfiable,
`alignOK_collinear_false`, and the code's rotation-type errors do change: D43). For `none` and `origin` there is no guard:
`apeCore_common_left_invariant`. -/
theorem apeCore_common_left_invariant_partial (eps atol : ℝ) (alignFn : List (Vec3 ℝ) → List (Vec3 ℝ) → Sim3 ℝ) (et : EType)
    (mode : AlignMode) (G : SE3 ℝ) (hG : SE3.Valid G) (rp ep : List (SE3 ℝ)) (hR : ∀ r ∈ rp, SE3.Valid r)
    (hE : ∀ e ∈ ep, SE3.Valid e)
    (hsvd : mode = .svd → ∃ rigid : Bool,
      AlignOK rigid (alignFn (ep.map (·.t)) (rp.map (·.t))) (ep.map (·.t)) (rp.map (·.t)) ∧
      AlignOK rigid (alignFn ((ep.map (·.t)).map (SE3Act G)) ((rp.map (·.t)).map (SE3Act G)))
        ((ep.map (·.t)).map (SE3Act G)) ((rp.map (·.t)).map (SE3Act G))) :
    apeCore eps atol alignFn et mode (rp.map (SE3Mul G)) (ep.map (SE3Mul G)) = apeCore eps atol alignFn et mode rp ep := by
  unfold apeCore
  cases mode with
  | none =>
    have h1 : Sim3.Valid (Sim3one : Sim3 ℝ) := ⟨SO3_valid_one, by simp [Sim3one]⟩
    apply apeCore_left_of eps atol et G hG _ _ h1 rp ep hE
    intro e _
    simp only [transOf, alignPose_one]
    exact Spline.SE3Equiv.refl _
  | origin =>
    cases rp with
    | nil => simp
    | cons r0 rp =>
      cases ep with
      | nil => simp
      | cons e0 ep =>
        have hr0 := hR r0 (by simp)
        have he0 := hE e0 (by simp)
        have hGr0 := SE3_valid_mul G r0 hG hr0
        have hGe0 := SE3_valid_mul G e0 hG he0
        have hT : Sim3.Valid (transOf alignFn .origin (r0 :: rp) (e0 :: ep)) := by
          simp only [transOf, originT, List.headD_cons]
          exact ⟨SE3_valid_mul _ _ hr0 (SE3_valid_inv _ he0), by simp⟩
        apply apeCore_left_of eps atol et G hG _ _ hT (r0 :: rp) (e0 :: ep) hE
        intro e _
        apply Spline.SE3Equiv.of_eq
        simp only [transOf, originT, List.map_cons, List.headD_cons]
        rw [show (k 1 : ℝ) = 1 from by simp, alignPose_rigid, alignPose_rigid,
          SE3_mul_assoc _ _ _ hGr0 (SE3_valid_inv _ hGe0), Spline.SE3_rel_left_invariant G e0 e hG he0,
          SE3_mul_assoc G r0 _ hG hr0, SE3_mul_assoc r0 _ _ hr0 (SE3_valid_inv _ he0)]
  | svd =>
    obtain ⟨rigid, h1, h2⟩ := hsvd rfl
    have hP : (ep.map (SE3Mul G)).map (·.t) = (ep.map (·.t)).map (SE3Act G) := map_t_left G ep
    have hQ : (rp.map (SE3Mul G)).map (·.t) = (rp.map (·.t)).map (SE3Act G) := map_t_left G rp
    simp only [transOf, hP, hQ]
    have hconj := align_conj_rigid rigid G hG _ _ _ _ h1 h2
    have hGs := rigidSim_valid G hG
    apply apeCore_left_of eps atol et G hG _ _ h1.valid rp ep hE
    intro e _
    have e1 : SE3Mul G e = alignPose (rigidSim G) e := (alignPose_rigid G e).symm
    have e2 : SE3Mul G (alignPose (alignFn (ep.map (·.t)) (rp.map (·.t))) e)
        = alignPose (rigidSim G) (alignPose (alignFn (ep.map (·.t)) (rp.map (·.t))) e) := (alignPose_rigid G _).symm
    rw [e2, alignPose_mul _ _ e hGs h1.valid]
    refine (alignPose_congr hconj (SE3Mul G e)).trans (Spline.SE3Equiv.of_eq ?_)
    rw [e1, alignPose_mul _ _ e (Sim3_valid_mul _ _ (Sim3_valid_mul _ _ hGs h1.valid) (Sim3_valid_inv _ hGs)) hGs,
      Sim3_mul_assoc _ _ _ (Sim3_valid_mul _ _ hGs h1.valid) (Sim3_valid_inv _ hGs), Sim3_inv_mul _ hGs, Sim3_mul_one]

/-- **APE without alignment or with `origin` is unchanged when both trajectories are moved by the same rigid motion** — no
hypothesis on the positions (collinear, all equal, one pose: all fine). -/
theorem apeCore_common_left_invariant (eps atol : ℝ) (alignFn : List (Vec3 ℝ) → List (Vec3 ℝ) → Sim3 ℝ) (et : EType)
    (mode : AlignMode) (hmode : mode ≠ .svd) (G : SE3 ℝ) (hG : SE3.Valid G) (rp ep : List (SE3 ℝ))
    (hR : ∀ r ∈ rp, SE3.Valid r) (hE : ∀ e ∈ ep, SE3.Valid e) :
    apeCore eps atol alignFn et mode (rp.map (SE3Mul G)) (ep.map (SE3Mul G)) = apeCore eps atol alignFn et mode rp ep :=
  apeCore_common_left_invariant_partial eps atol alignFn et mode G hG rp ep hR hE (fun h => absurd h hmode)

/-! ## RPE: invariance under left multiplication, zero for identical trajectories -/

/-- **RPE is unchanged by left-multiplying either trajectory (or both, by different poses) by a fixed pose** —
no alignment; every error type, frame and distance pairing, `all`, `rpair`, any `delta`; all lengths. -/
theorem rpeCore_left_invariant (eps atol : ℝ) (alignFn : List (Vec3 ℝ) → List (Vec3 ℝ) → Sim3 ℝ) (et : EType)
    (pm : PairMode) (dN : Nat) (delta rtol : ℝ) (all rpair : Bool) (G H : SE3 ℝ) (hG : SE3.Valid G)
    (hH : SE3.Valid H) (rp ep : List (SE3 ℝ)) (hR : ∀ p ∈ rp, SE3.Valid p) (hE : ∀ p ∈ ep, SE3.Valid p) :
    rpeCore eps atol alignFn et .none pm dN delta rtol all rpair (rp.map (SE3Mul G)) (ep.map (SE3Mul H))
      = rpeCore eps atol alignFn et .none pm dN delta rtol all rpair rp ep := by
  rw [rpeCore_eq_tail, rpeCore_eq_tail]
  simp only [transOf, map_alignPose_one]
  exact rpeTail_left eps atol et pm dN delta rtol all rpair G H hG hH rp ep hR hE

/-- the same with `origin=True` (the estimate is first moved onto the reference's first pose) -/
theorem rpeCore_left_invariant_origin (eps atol : ℝ) (alignFn : List (Vec3 ℝ) → List (Vec3 ℝ) → Sim3 ℝ)
    (et : EType) (pm : PairMode) (dN : Nat) (delta rtol : ℝ) (all rpair : Bool) (G H : SE3 ℝ) (hG : SE3.Valid G)
    (hH : SE3.Valid H) (r0 e0 : SE3 ℝ) (rp ep : List (SE3 ℝ)) (hr0 : SE3.Valid r0) (he0 : SE3.Valid e0)
    (hR : ∀ p ∈ rp, SE3.Valid p) (hE : ∀ p ∈ ep, SE3.Valid p) :
    rpeCore eps atol alignFn et .origin pm dN delta rtol all rpair ((r0 :: rp).map (SE3Mul G)) ((e0 :: ep).map (SE3Mul H))
      = rpeCore eps atol alignFn et .origin pm dN delta rtol all rpair (r0 :: rp) (e0 :: ep) := by
  rw [rpeCore_eq_tail, rpeCore_eq_tail]
  have hGr0 := SE3_valid_mul G r0 hG hr0
  have hHe0 := SE3_valid_mul H e0 hH he0
  have key : ∀ e : SE3 ℝ, alignPose (transOf alignFn .origin ((r0 :: rp).map (SE3Mul G)) ((e0 :: ep).map (SE3Mul H))) (SE3Mul H e)
      = SE3Mul G (alignPose (transOf alignFn .origin (r0 :: rp) (e0 :: ep)) e) := by
    intro e
    simp only [transOf, originT, List.map_cons, List.headD_cons]
    rw [show (k 1 : ℝ) = 1 from by simp, alignPose_rigid, alignPose_rigid,
      SE3_mul_assoc _ _ _ hGr0 (SE3_valid_inv _ hHe0), Spline.SE3_rel_left_invariant H e0 e hH he0,
      SE3_mul_assoc G r0 _ hG hr0, SE3_mul_assoc r0 _ _ hr0 (SE3_valid_inv _ he0)]
  have hmap : ((e0 :: ep).map (SE3Mul H)).map (alignPose (transOf alignFn .origin ((r0 :: rp).map (SE3Mul G)) ((e0 :: ep).map (SE3Mul H))))
      = ((e0 :: ep).map (alignPose (transOf alignFn .origin (r0 :: rp) (e0 :: ep)))).map (SE3Mul G) := by
    rw [List.map_map, List.map_map]
    exact List.map_congr_left (fun e _ => key e)
  rw [hmap]
  apply rpeTail_left eps atol et pm dN delta rtol all rpair G G hG hG
  · intro p hp
    rcases List.mem_cons.mp hp with rfl | hp
    · exact hr0
    · exact hR p hp
  · intro p hp
    obtain ⟨e, he, rfl⟩ := List.mem_map.mp hp
    simp only [transOf, originT, List.headD_cons]
    rw [show (k 1 : ℝ) = 1 from by simp, alignPose_rigid]
    apply SE3_valid_mul _ _ (SE3_valid_mul _ _ hr0 (SE3_valid_inv _ he0))
    rcases List.mem_cons.mp he with rfl | he
    · exact he0
    · exact hE e he

/-- **`rpe` is unchanged by left-multiplying either trajectory by a fixed pose** — from the raw inputs (any stamps,
any association outcome including "nothing matches"), no alignment. -/
theorem rpe_left_invariant (eps atol : ℝ) (alignFn : List (Vec3 ℝ) → List (Vec3 ℝ) → Sim3 ℝ) (et : EType)
    (diff off : ℝ) (pm : PairMode) (dN : Nat) (delta rtol : ℝ) (all rpair : Bool) (G H : SE3 ℝ) (hG : SE3.Valid G)
    (hH : SE3.Valid H) (rs es : List ℝ) (rp ep : List (SE3 ℝ)) (hR : ∀ p ∈ rp, SE3.Valid p)
    (hE : ∀ p ∈ ep, SE3.Valid p) :
    rpe eps atol alignFn et diff off .none pm dN delta rtol all rpair rs (rp.map (SE3Mul G)) es (ep.map (SE3Mul H))
      = rpe eps atol alignFn et diff off .none pm dN delta rtol all rpair rs rp es ep := by
  unfold rpe rpeErrors
  rw [associate_map]
  cases h : associate diff off rs rp es ep with
  | none => rfl
  | some a =>
    simp only [Option.map_some, Option.bind_some]
    have hboth : a.rp = pick rp (assocIdx diff off rs es).1 ∧ a.ep = pick ep (assocIdx diff off rs es).2 := by
      unfold associate at h
      simp only [] at h
      by_cases hc : (assocIdx diff off rs es).1.isEmpty = true
      · simp [hc] at h
      · have hc' : (assocIdx diff off rs es).1.isEmpty = false := by simpa using hc
        simp only [hc', Bool.false_eq_true, if_false, Option.some.injEq] at h
        rw [← h]; exact ⟨rfl, rfl⟩
    obtain ⟨hrp, hep⟩ := hboth
    rw [rpeCore_left_invariant eps atol alignFn et pm dN delta rtol all rpair G H hG hH a.rp a.ep
      (fun p hp => hR p (mem_pick _ _ p (hrp ▸ hp))) (fun p hp => hE p (mem_pick _ _ p (hep ▸ hp)))]

/-- **Alignment by a unit-scale transform has no effect on RPE at all**: relative poses `(T e_s)⁻¹ (T e_t) = e_s⁻¹ e_t`, and the
pairing only sees distances. Holds for `origin`, and for `svdstf` whenever the returned transform is valid with scale 1 (always for
`align` without `scale`) — no uniqueness needed, so also on collinear positions (RPE is not affected by finding D43). -/
theorem rpeCore_unit_scale_alignment (eps atol : ℝ) (alignFn : List (Vec3 ℝ) → List (Vec3 ℝ) → Sim3 ℝ) (et : EType)
    (mode : AlignMode) (pm : PairMode) (dN : Nat) (delta rtol : ℝ) (all rpair : Bool) (rp ep : List (SE3 ℝ))
    (hR : ∀ p ∈ rp, SE3.Valid p) (hE : ∀ p ∈ ep, SE3.Valid p)
    (hT : Sim3.Valid (transOf alignFn mode rp ep)) (hs : (transOf alignFn mode rp ep).s = 1) :
    rpeCore eps atol alignFn et mode pm dN delta rtol all rpair rp ep
      = rpeCore eps atol alignFn et .none pm dN delta rtol all rpair rp ep := by
  rw [rpeCore_eq_tail, rpeCore_eq_tail]
  set T := transOf alignFn mode rp ep with hTdef
  have hG : SE3.Valid (⟨T.t, T.q⟩ : SE3 ℝ) := hT.1
  have hTe : T = ⟨T.t, T.q, 1⟩ := by
    cases hT' : T with
    | mk t q sc => rw [hT'] at hs; simp only at hs; rw [hs]
  have hmap : ep.map (alignPose T) = ep.map (SE3Mul ⟨T.t, T.q⟩) := by
    apply List.map_congr_left
    intro e _
    rw [hTe]; exact alignPose_rigid ⟨T.t, T.q⟩ e
  have hone : rp = rp.map (SE3Mul SE3one) := by
    conv_lhs => rw [← List.map_id rp]
    exact List.map_congr_left (fun r _ => (SE3_one_mul r).symm)
  simp only [transOf, map_alignPose_one]
  rw [hmap]
  conv_lhs => rw [hone]
  exact rpeTail_left eps atol et pm dN delta rtol all rpair SE3one ⟨T.t, T.q⟩ Spline.SE3_valid_one hG rp ep hR hE

/-- **RPE of identical trajectories is zero** — every error type, every pairing, every alignment mode whose transform is valid
with unit scale (none, `origin`, rigid `svdstf`; no uniqueness hypothesis): all errors vanish, and all seven statistics for at
least two pairs. -/
theorem rpeCore_identical_zero_of_unit (eps atol : ℝ) (heps : 0 ≤ eps) (hatol : atol ≤ 1)
    (alignFn : List (Vec3 ℝ) → List (Vec3 ℝ) → Sim3 ℝ) (et : EType) (mode : AlignMode)
    (pm : PairMode) (dN : Nat) (delta rtol : ℝ) (all rpair : Bool) (rp : List (SE3 ℝ))
    (hv : ∀ r ∈ rp, SE3.Valid r)
    (hT : Sim3.Valid (transOf alignFn mode rp rp)) (hs : (transOf alignFn mode rp rp).s = 1) (errs : List ℝ)
    (h : rpeCore eps atol alignFn et mode pm dN delta rtol all rpair rp rp = some errs) :
    (∀ e ∈ errs, e = 0) ∧ (2 ≤ errs.length → (stats errs).toList = [0, 0, 0, 0, 0, 0, 0]) := by
  rw [rpeCore_unit_scale_alignment eps atol alignFn et mode pm dN delta rtol all rpair rp rp hv hv hT hs,
    rpeCore_eq_tail] at h
  simp only [transOf, map_alignPose_one] at h
  unfold rpeTail at h
  simp only [ite_self] at h
  split_ifs at h
  simp only [Option.some.injEq] at h
  have hz : ∀ e ∈ errs, e = 0 := by
    intro e he
    rw [← h] at he
    rw [List.zipWith_self] at he
    obtain ⟨x, hx, rfl⟩ := List.mem_map.mp he
    apply rpeErr_self eps atol heps hatol et x
    unfold relPoses at hx
    obtain ⟨st, _, hst⟩ := List.mem_filterMap.mp hx
    cases h1 : rp[st.1]? with
    | none => simp [h1] at hst
    | some a =>
      cases h2 : rp[st.2]? with
      | none => simp [h1, h2] at hst
      | some b =>
        simp only [h1, h2, Option.some.injEq] at hst
        rw [← hst]
        exact SE3_valid_mul _ _ (SE3_valid_inv _ (hv a (List.mem_of_getElem? h1))) (hv b (List.mem_of_getElem? h2))
  exact ⟨hz, fun hn => stats_zero errs hz hn⟩

/-- no alignment or `origin`: no hypothesis about the transform needed -/
theorem rpeCore_identical_zero (eps atol : ℝ) (heps : 0 ≤ eps) (hatol : atol ≤ 1)
    (alignFn : List (Vec3 ℝ) → List (Vec3 ℝ) → Sim3 ℝ) (et : EType) (mode : AlignMode) (hmode : mode ≠ .svd)
    (pm : PairMode) (dN : Nat) (delta rtol : ℝ) (all rpair : Bool) (rp : List (SE3 ℝ))
    (hv : ∀ r ∈ rp, SE3.Valid r) (errs : List ℝ)
    (h : rpeCore eps atol alignFn et mode pm dN delta rtol all rpair rp rp = some errs) :
    (∀ e ∈ errs, e = 0) ∧ (2 ≤ errs.length → (stats errs).toList = [0, 0, 0, 0, 0, 0, 0]) := by
  have hT : Sim3.Valid (transOf alignFn mode rp rp) ∧ (transOf alignFn mode rp rp).s = 1 := by
    cases mode with
    | none => exact ⟨⟨SO3_valid_one, by simp [transOf, Sim3one]⟩, by simp [transOf, Sim3one]⟩
    | origin => exact transOf_origin_valid alignFn rp rp hv hv
    | svd => exact absurd rfl hmode
  exact rpeCore_identical_zero_of_unit eps atol heps hatol alignFn et mode pm dN delta rtol all rpair rp hv hT.1 hT.2 errs h

/-- **`rpe` of a trajectory with itself, from the raw inputs** (pairwise distinct stamps, `diff > 0`, no alignment or `origin`):
whenever it returns at all, every relative error is zero. -/
theorem rpe_identical_zero (eps atol : ℝ) (heps : 0 ≤ eps) (hatol : atol ≤ 1)
    (alignFn : List (Vec3 ℝ) → List (Vec3 ℝ) → Sim3 ℝ) (et : EType) (mode : AlignMode) (hmode : mode ≠ .svd)
    (diff : ℝ) (hdiff : 0 < diff) (pm : PairMode) (dN : Nat) (delta rtol : ℝ) (all rpair : Bool)
    (rs : List ℝ) (rp : List (SE3 ℝ)) (hlen : rp.length = rs.length) (hne : rs ≠ [])
    (hdist : ∀ (i : Nat) (hi : i < rs.length) (k : Nat) (hk : k < rs.length), k ≠ i → rs[i] ≠ rs[k])
    (hv : ∀ r ∈ rp, SE3.Valid r) (errs : List ℝ)
    (h : rpeErrors eps atol alignFn et diff 0 mode pm dN delta rtol all rpair rs rp rs rp = some errs) :
    (∀ e ∈ errs, e = 0) ∧ (2 ≤ errs.length → (stats errs).toList = [0, 0, 0, 0, 0, 0, 0]) := by
  have ha : associate diff 0 rs rp rs rp = some ⟨rs, rp, rs, rp⟩ := by
    apply associate_jitter diff 0 rs rs rp rp rfl hlen hlen hne
    · intro i hi; simpa using hdiff
    · intro i hi k hk hki
      have : rs[i] - rs[k] ≠ 0 := sub_ne_zero.mpr (hdist i hi k hk hki)
      simpa using this
  unfold rpeErrors at h
  rw [ha] at h
  simp only [Option.bind_some] at h
  exact rpeCore_identical_zero eps atol heps hatol alignFn et mode hmode pm dN delta rtol all rpair rp hv errs h

/-- **RPE with rigid `svdstf` alignment is unchanged when either trajectory (or both) is left-multiplied by a fixed pose** — for
ANY `svdstf` that returns valid unit-scale transforms on the two inputs (no optimality / uniqueness needed). -/
theorem rpeCore_left_invariant_svd (eps atol : ℝ) (alignFn : List (Vec3 ℝ) → List (Vec3 ℝ) → Sim3 ℝ) (et : EType)
    (pm : PairMode) (dN : Nat) (delta rtol : ℝ) (all rpair : Bool) (G H : SE3 ℝ) (hG : SE3.Valid G)
    (hH : SE3.Valid H) (rp ep : List (SE3 ℝ)) (hR : ∀ p ∈ rp, SE3.Valid p) (hE : ∀ p ∈ ep, SE3.Valid p)
    (hT : Sim3.Valid (transOf alignFn .svd rp ep)) (hs : (transOf alignFn .svd rp ep).s = 1)
    (hT' : Sim3.Valid (transOf alignFn .svd (rp.map (SE3Mul G)) (ep.map (SE3Mul H))))
    (hs' : (transOf alignFn .svd (rp.map (SE3Mul G)) (ep.map (SE3Mul H))).s = 1) :
    rpeCore eps atol alignFn et .svd pm dN delta rtol all rpair (rp.map (SE3Mul G)) (ep.map (SE3Mul H))
      = rpeCore eps atol alignFn et .svd pm dN delta rtol all rpair rp ep := by
  have hR' : ∀ p ∈ rp.map (SE3Mul G), SE3.Valid p := by
    intro p hp; obtain ⟨r, hr, rfl⟩ := List.mem_map.mp hp; exact SE3_valid_mul _ _ hG (hR r hr)
  have hE' : ∀ p ∈ ep.map (SE3Mul H), SE3.Valid p := by
    intro p hp; obtain ⟨e, he, rfl⟩ := List.mem_map.mp hp; exact SE3_valid_mul _ _ hH (hE e he)
  rw [rpeCore_unit_scale_alignment eps atol alignFn et .svd pm dN delta rtol all rpair _ _ hR' hE' hT' hs',
    rpeCore_unit_scale_alignment eps atol alignFn et .svd pm dN delta rtol all rpair rp ep hR hE hT hs]
  exact rpeCore_left_invariant eps atol alignFn et pm dN delta rtol all rpair G H hG hH rp ep hR hE

/-- **RPE with `align` (and `scale`) is unchanged by a rigid (similarity) transform of the estimate** (pass 7) — the RPE counterpart
of `apeCore_align_invariant_partial`, now also for `scale=True` (`rigid = false`, `S` any similarity) which
`rpeCore_left_invariant_svd` (unit scale only) did not cover. Every error type, frame and distance pairing, `all`, `rpair`; the error
lists are *equal*. Hypotheses: the `svdstf` contract (C17) at the two point sets on which it is called.

PARTIAL — guard: **the matched estimate positions are NOT collinear**: on collinear positions `h1`/`h2` cannot hold
(`alignOK_collinear_false`). For `rigid = true` the guard is not needed: `rpeCore_left_invariant_svd` needs validity and unit scale
only. With `scale=True` on collinear positions the rotation about the line is free but cancels in every relative pose; what is used
of the contract there is only the uniqueness of the SCALE — stated, not proved. -/
theorem rpeCore_align_invariant_partial (eps atol : ℝ) (alignFn : List (Vec3 ℝ) → List (Vec3 ℝ) → Sim3 ℝ) (et : EType)
    (pm : PairMode) (dN : Nat) (delta rtol : ℝ) (all rpair : Bool)
    (rigid : Bool) (S : Sim3 ℝ) (rp ep : List (SE3 ℝ)) (hS : Sim3.Valid S) (hSr : rigid = true → S.s = 1)
    (h1 : AlignOK rigid (alignFn (ep.map (·.t)) (rp.map (·.t))) (ep.map (·.t)) (rp.map (·.t)))
    (h2 : AlignOK rigid (alignFn ((ep.map (·.t)).map (Sim3Act S)) (rp.map (·.t)))
      ((ep.map (·.t)).map (Sim3Act S)) (rp.map (·.t))) :
    rpeCore eps atol alignFn et .svd pm dN delta rtol all rpair rp (ep.map (alignPose S))
      = rpeCore eps atol alignFn et .svd pm dN delta rtol all rpair rp ep := by
  have hP : (ep.map (alignPose S)).map (·.t) = (ep.map (·.t)).map (Sim3Act S) := by
    rw [List.map_map, List.map_map]; rfl
  rw [rpeCore_eq_tail, rpeCore_eq_tail]
  simp only [transOf, hP]
  have heq := align_equivariant rigid S _ _ _ _ hS hSr h1 h2
  rw [List.map_map]
  apply rpeTail_congr
  intro e _
  show Spline.SE3Equiv (alignPose _ (alignPose S e)) _
  rw [alignPose_mul _ S e h2.valid hS]
  exact alignPose_congr heq e

/-- **`rpe(align[, scale])` is unchanged by a rigid (similarity) transform of the estimate** — from the raw inputs (any stamps /
association outcome). PARTIAL — guard: the positions of the matched estimate poses are NOT collinear (see the core statement). -/
theorem rpe_align_invariant_partial (eps atol : ℝ) (alignFn : List (Vec3 ℝ) → List (Vec3 ℝ) → Sim3 ℝ) (et : EType)
    (diff off : ℝ) (pm : PairMode) (dN : Nat) (delta rtol : ℝ) (all rpair : Bool)
    (rigid : Bool) (S : Sim3 ℝ) (hS : Sim3.Valid S) (hSr : rigid = true → S.s = 1)
    (rs es : List ℝ) (rp ep : List (SE3 ℝ))
    (hc : ∀ a, associate diff off rs rp es ep = some a →
      AlignOK rigid (alignFn (a.ep.map (·.t)) (a.rp.map (·.t))) (a.ep.map (·.t)) (a.rp.map (·.t)) ∧
      AlignOK rigid (alignFn ((a.ep.map (·.t)).map (Sim3Act S)) (a.rp.map (·.t)))
        ((a.ep.map (·.t)).map (Sim3Act S)) (a.rp.map (·.t))) :
    rpe eps atol alignFn et diff off .svd pm dN delta rtol all rpair rs rp es (ep.map (alignPose S))
      = rpe eps atol alignFn et diff off .svd pm dN delta rtol all rpair rs rp es ep := by
  have hmap := associate_map diff off rs es rp ep id (alignPose S)
  simp only [List.map_id] at hmap
  unfold rpe rpeErrors
  rw [hmap]
  cases h : associate diff off rs rp es ep with
  | none => rfl
  | some a =>
    simp only [Option.map_some, Option.bind_some]
    obtain ⟨h1, h2⟩ := hc a h
    rw [rpeCore_align_invariant_partial eps atol alignFn et pm dN delta rtol all rpair rigid S a.rp a.ep hS hSr h1 h2]

/-- **The `svdstf` contract is consistent under a similarity of the source points** (pass 7): if `A` is the unique optimum for `(P, Q)`,
then `A·S⁻¹` is the unique optimum for `(S·P, Q)`. Hence the second hypothesis (`h2`) of the alignment-invariance theorems is
satisfiable whenever the first one is — for every valid `S` (unit scale in rigid mode), not only the identity. -/
theorem alignOK_transport (rigid : Bool) (A S : Sim3 ℝ) (P Q : List (Vec3 ℝ)) (hS : Sim3.Valid S) (hSr : rigid = true → S.s = 1)
    (h : AlignOK rigid A P Q) : AlignOK rigid (Sim3Mul A (Sim3Inv S)) (P.map (Sim3Act S)) Q := by
  have hSi := Sim3_valid_inv S hS
  have hv : Sim3.Valid (Sim3Mul A (Sim3Inv S)) := Sim3_valid_mul _ _ h.valid hSi
  have hcost : cost (Sim3Mul A (Sim3Inv S)) (P.map (Sim3Act S)) Q = cost A P Q := by
    rw [cost_map_act _ S hv hS, Sim3_mul_assoc _ _ _ h.valid hSi, Sim3_inv_mul S hS, Sim3_mul_one]
  refine ⟨hv, ?_, ?_, ?_⟩
  · intro hr
    show A.s * (k 1 / S.s) = 1
    rw [h.scale_one hr, hSr hr]; simp
  · intro T hT hTr
    rw [hcost, cost_map_act T S hT hS]
    exact h.optimal _ (Sim3_valid_mul _ _ hT hS) (fun hr => by show T.s * S.s = 1; rw [hTr hr, hSr hr]; ring)
  · intro T hT hTr hc
    rw [hcost, cost_map_act T S hT hS] at hc
    have he := h.unique _ (Sim3_valid_mul _ _ hT hS) (fun hr => by show T.s * S.s = 1; rw [hTr hr, hSr hr]; ring) hc
    have := Sim3Equiv_mul_right he (Sim3Inv S)
    rwa [Sim3_mul_assoc _ _ _ hT hS, Sim3_mul_inv S hS, Sim3_mul_one] at this

/-- **RPE with `align` + `scale` under a similarity of the estimate needs only the SCALE of `svdstf` to be consistent** (pass 10): if the
transforms returned at the two point sets are valid and their scales satisfy `s(S·P, Q) · s_S = s(P, Q)` — rotations and translations
arbitrary — the RPE error lists are equal. No optimality, no uniqueness of the rotation: this is the full statement on COLLINEAR
positions too (two distinct positions, a line), where the optimal rotation is a one-parameter family (D43) but cancels in every
relative pose; it contains `rpeCore_left_invariant_svd` (all scales 1) and `rpeCore_align_invariant_partial` (scales related through
the contract). Every error type, frame and distance pairing, `all`, `rpair`; all lengths. -/
theorem rpeCore_align_invariant_of_scale (eps atol : ℝ) (alignFn : List (Vec3 ℝ) → List (Vec3 ℝ) → Sim3 ℝ) (et : EType)
    (pm : PairMode) (dN : Nat) (delta rtol : ℝ) (all rpair : Bool) (S : Sim3 ℝ) (rp ep : List (SE3 ℝ)) (hS : Sim3.Valid S)
    (hR : ∀ p ∈ rp, SE3.Valid p) (hE : ∀ p ∈ ep, SE3.Valid p)
    (h1 : Sim3.Valid (alignFn (ep.map (·.t)) (rp.map (·.t))))
    (h2 : Sim3.Valid (alignFn ((ep.map (·.t)).map (Sim3Act S)) (rp.map (·.t))))
    (hscale : (alignFn ((ep.map (·.t)).map (Sim3Act S)) (rp.map (·.t))).s * S.s = (alignFn (ep.map (·.t)) (rp.map (·.t))).s) :
    rpeCore eps atol alignFn et .svd pm dN delta rtol all rpair rp (ep.map (alignPose S))
      = rpeCore eps atol alignFn et .svd pm dN delta rtol all rpair rp ep := by
  have hP : (ep.map (alignPose S)).map (·.t) = (ep.map (·.t)).map (Sim3Act S) := by
    rw [List.map_map, List.map_map]; rfl
  rw [rpeCore_eq_tail, rpeCore_eq_tail]
  simp only [transOf, hP]
  set T1 := alignFn (ep.map (·.t)) (rp.map (·.t)) with hT1
  set T2 := alignFn ((ep.map (·.t)).map (Sim3Act S)) (rp.map (·.t)) with hT2
  have hU : Sim3.Valid (Sim3Mul T2 S) := Sim3_valid_mul _ _ h2 hS
  set G : SE3 ℝ := ⟨(Sim3Mul (Sim3Mul T2 S) (Sim3Inv T1)).t, (Sim3Mul (Sim3Mul T2 S) (Sim3Inv T1)).q⟩ with hG
  have hGv : SE3.Valid G := (Sim3_valid_mul _ _ hU (Sim3_valid_inv T1 h1)).1
  have hmap : (ep.map (alignPose S)).map (alignPose T2) = (ep.map (alignPose T1)).map (SE3Mul G) := by
    rw [List.map_map, List.map_map]
    apply List.map_congr_left
    intro e _
    show alignPose T2 (alignPose S e) = SE3Mul G (alignPose T1 e)
    rw [alignPose_mul T2 S e h2 hS]
    exact alignPose_same_scale (Sim3Mul T2 S) T1 hU h1 hscale e
  have hone : rp = rp.map (SE3Mul SE3one) := by
    conv_lhs => rw [← List.map_id rp]
    exact List.map_congr_left (fun r _ => (SE3_one_mul r).symm)
  rw [hmap]
  conv_lhs => rw [hone]
  exact rpeTail_left eps atol et pm dN delta rtol all rpair SE3one G Spline.SE3_valid_one hGv rp (ep.map (alignPose T1)) hR
    (fun p hp => by obtain ⟨e, he, rfl⟩ := List.mem_map.mp hp; exact alignPose_valid T1 e h1 (hE e he))

/-- non-vacuity of `rpeCore_align_invariant_of_scale` with a genuine scaling on COLLINEAR (two-point) positions: `S` doubles the
estimate, the `svdstf` stand-in returns scale 2 at the original positions and scale 1 at the doubled ones (rotations irrelevant). -/
example : ∃ (alignFn : List (Vec3 ℝ) → List (Vec3 ℝ) → Sim3 ℝ) (S : Sim3 ℝ) (P Q : List (Vec3 ℝ)),
    Sim3.Valid S ∧ S.s ≠ 1 ∧ Collinear P ∧ Sim3.Valid (alignFn P Q) ∧ Sim3.Valid (alignFn (P.map (Sim3Act S)) Q) ∧
    (alignFn (P.map (Sim3Act S)) Q).s * S.s = (alignFn P Q).s := by
  classical
  let P0 : List (Vec3 ℝ) := [Vec3.zero, Vec3.e0]
  let S : Sim3 ℝ := ⟨Vec3.zero, Quat.one, 2⟩
  have hne : P0.map (Sim3Act S) ≠ P0 := by
    intro h
    have h0 := congrArg (fun l => (l.getD 1 Vec3.zero).x) h
    simp only [P0, S, List.map_cons, List.getD_cons_succ, List.getD_cons_zero, Sim3Act, Quat.act, Vec3.cross, Quat.vec, Vec3.add,
      Vec3.smul, Quat.one, Vec3.e0, Vec3.zero, k_real, Nat.cast_zero, Nat.cast_one] at h0
    norm_num at h0
  refine ⟨fun P _ => ⟨Vec3.zero, Quat.one, if P = P0 then 2 else 1⟩, S, P0, P0, ⟨SO3_valid_one, by norm_num [S]⟩, by norm_num [S], ?_, ?_, ?_, ?_⟩
  · refine ⟨Vec3.zero, Vec3.e0, by lie_unfold; norm_num, ?_⟩
    intro p hp
    simp only [P0, List.mem_cons, List.mem_nil_iff, or_false] at hp
    rcases hp with rfl | rfl
    · exact ⟨0, by ext <;> lie_unfold <;> norm_num⟩
    · exact ⟨1, by ext <;> lie_unfold <;> norm_num⟩
  · exact ⟨SO3_valid_one, by simp⟩
  · refine ⟨SO3_valid_one, ?_⟩
    simp only [hne, if_false]; norm_num
  · simp only [hne, if_false, if_true, S]; norm_num

/-- **`rpe(align, scale)` under a similarity of the estimate, from the raw inputs** (any stamps / association outcome): only validity and
scale consistency of `svdstf` at the matched positions are needed — full strength on collinear positions (see the core statement). -/
theorem rpe_align_invariant_of_scale (eps atol : ℝ) (alignFn : List (Vec3 ℝ) → List (Vec3 ℝ) → Sim3 ℝ) (et : EType)
    (diff off : ℝ) (pm : PairMode) (dN : Nat) (delta rtol : ℝ) (all rpair : Bool) (S : Sim3 ℝ) (hS : Sim3.Valid S)
    (rs es : List ℝ) (rp ep : List (SE3 ℝ)) (hR : ∀ p ∈ rp, SE3.Valid p) (hE : ∀ p ∈ ep, SE3.Valid p)
    (hc : ∀ a, associate diff off rs rp es ep = some a →
      Sim3.Valid (alignFn (a.ep.map (·.t)) (a.rp.map (·.t))) ∧
      Sim3.Valid (alignFn ((a.ep.map (·.t)).map (Sim3Act S)) (a.rp.map (·.t))) ∧
      (alignFn ((a.ep.map (·.t)).map (Sim3Act S)) (a.rp.map (·.t))).s * S.s = (alignFn (a.ep.map (·.t)) (a.rp.map (·.t))).s) :
    rpe eps atol alignFn et diff off .svd pm dN delta rtol all rpair rs rp es (ep.map (alignPose S))
      = rpe eps atol alignFn et diff off .svd pm dN delta rtol all rpair rs rp es ep := by
  have hmap := associate_map diff off rs es rp ep id (alignPose S)
  simp only [List.map_id] at hmap
  unfold rpe rpeErrors
  rw [hmap]
  cases h : associate diff off rs rp es ep with
  | none => rfl
  | some a =>
    simp only [Option.map_some, Option.bind_some]
    have hboth : a.rp = pick rp (assocIdx diff off rs es).1 ∧ a.ep = pick ep (assocIdx diff off rs es).2 := by
      unfold associate at h
      simp only [] at h
      by_cases hc' : (assocIdx diff off rs es).1.isEmpty = true
      · simp [hc'] at h
      · have hc'' : (assocIdx diff off rs es).1.isEmpty = false := by simpa using hc'
        simp only [hc'', Bool.false_eq_true, if_false, Option.some.injEq] at h
        rw [← h]; exact ⟨rfl, rfl⟩
    obtain ⟨hrp, hep⟩ := hboth
    obtain ⟨h1, h2, h3⟩ := hc a h
    rw [rpeCore_align_invariant_of_scale eps atol alignFn et pm dN delta rtol all rpair S a.rp a.ep hS
      (fun p hp => hR p (mem_pick _ _ p (hrp ▸ hp))) (fun p hp => hE p (mem_pick _ _ p (hep ▸ hp))) h1 h2 h3]

/-- **RPE of a trajectory with itself is zero with `align` + `scale` under ANY optimal `svdstf`** (pass 10): valid transform that does at
least as well as the identity (cost ≤ 0) and at least two DISTINCT positions (with all positions equal the scale is undefined and the
code raises). No uniqueness: collinear positions and the two-point case included — optimality fixes every position, two fixed points
force the scale to 1, and the free rotation cancels in the relative poses. All errors vanish; all seven statistics for ≥ 2 pairs. -/
theorem rpeCore_identical_zero_svd_of_optimal (eps atol : ℝ) (heps : 0 ≤ eps) (hatol : atol ≤ 1)
    (alignFn : List (Vec3 ℝ) → List (Vec3 ℝ) → Sim3 ℝ) (et : EType)
    (pm : PairMode) (dN : Nat) (delta rtol : ℝ) (all rpair : Bool) (rp : List (SE3 ℝ))
    (hv : ∀ r ∈ rp, SE3.Valid r)
    (hTv : Sim3.Valid (alignFn (rp.map (·.t)) (rp.map (·.t))))
    (hopt : cost (alignFn (rp.map (·.t)) (rp.map (·.t))) (rp.map (·.t)) (rp.map (·.t)) ≤ 0)
    (hdist : ∃ a ∈ rp, ∃ b ∈ rp, a.t ≠ b.t) (errs : List ℝ)
    (h : rpeCore eps atol alignFn et .svd pm dN delta rtol all rpair rp rp = some errs) :
    (∀ e ∈ errs, e = 0) ∧ (2 ≤ errs.length → (stats errs).toList = [0, 0, 0, 0, 0, 0, 0]) := by
  set T := alignFn (rp.map (·.t)) (rp.map (·.t)) with hT
  have hc : cost T (rp.map (·.t)) (rp.map (·.t)) = 0 := le_antisymm hopt (cost_nonneg _ _ _)
  have hfix : ∀ r ∈ rp, Sim3Act T r.t = r.t := by
    intro r hr
    have hz := normSq_eq_zero _ (cost_zero_mem T (rp.map (·.t)) hc r.t (List.mem_map.mpr ⟨r, hr, rfl⟩))
    have hx := congrArg Vec3.x hz; have hy := congrArg Vec3.y hz; have hzz := congrArg Vec3.z hz
    simp only [Vec3.sub, Vec3.zero, k_real, Nat.cast_zero] at hx hy hzz
    ext <;> linarith
  obtain ⟨a, ha, b, hb, hab⟩ := hdist
  have hs : T.s = 1 := sim3_scale_of_two_fixed T hTv a.t b.t (hfix a ha) (hfix b hb) hab
  exact rpeCore_identical_zero_of_unit eps atol heps hatol alignFn et .svd pm dN delta rtol all rpair rp hv
    (by simpa only [transOf] using hTv) (by simpa only [transOf] using hs) errs h

/-- non-vacuity of `rpeCore_identical_zero_svd_of_optimal` in the D43 situation: the half turn about the x-axis is a VALID transform, not
the identity, and there are two distinct positions on the line (its cost 0 on points of the axis is the `example` after
`ape_identical_zero_translation`). -/
example : Sim3.Valid (lineRot (Vec3.zero : Vec3 ℝ) Vec3.e0 1 0) ∧ (Vec3.zero : Vec3 ℝ) ≠ Vec3.e0 ∧
    ¬ Sim3Equiv (lineRot (Vec3.zero : Vec3 ℝ) Vec3.e0 1 0) Sim3one := by
  have hv : Sim3.Valid (Sim3one : Sim3 ℝ) := ⟨SO3_valid_one, by simp [Sim3one]⟩
  refine ⟨lineRot_valid _ _ 1 0 (by lie_unfold; norm_num) (by norm_num), ?_, ?_⟩
  · intro h
    have := congrArg Vec3.x h
    simp [Vec3.zero, Vec3.e0] at this
  · have := (collinear_optimum_not_unique Sim3one hv Vec3.zero Vec3.e0 (by lie_unfold; norm_num) [] [] (by simp)).2
    rwa [Sim3_one_mul] at this

/-- **`rpe(align, scale)` of a trajectory with itself, from the raw inputs, under ANY optimal `svdstf`** (pass 11; raw-input form of
`rpeCore_identical_zero_svd_of_optimal`): pairwise distinct stamps, `diff > 0`, a valid transform with cost ≤ 0 at the positions and two
distinct positions — whenever `rpe` returns at all, every relative error is zero (all seven statistics for ≥ 2 pairs). No uniqueness:
collinear positions included (rpe is not affected by D43). -/
theorem rpe_identical_zero_svd_of_optimal (eps atol : ℝ) (heps : 0 ≤ eps) (hatol : atol ≤ 1)
    (alignFn : List (Vec3 ℝ) → List (Vec3 ℝ) → Sim3 ℝ) (et : EType)
    (diff : ℝ) (hdiff : 0 < diff) (pm : PairMode) (dN : Nat) (delta rtol : ℝ) (all rpair : Bool)
    (rs : List ℝ) (rp : List (SE3 ℝ)) (hlen : rp.length = rs.length) (hne : rs ≠ [])
    (hdist : ∀ (i : Nat) (hi : i < rs.length) (k : Nat) (hk : k < rs.length), k ≠ i → rs[i] ≠ rs[k])
    (hv : ∀ r ∈ rp, SE3.Valid r)
    (hTv : Sim3.Valid (alignFn (rp.map (·.t)) (rp.map (·.t))))
    (hopt : cost (alignFn (rp.map (·.t)) (rp.map (·.t))) (rp.map (·.t)) (rp.map (·.t)) ≤ 0)
    (hpos : ∃ a ∈ rp, ∃ b ∈ rp, a.t ≠ b.t) (errs : List ℝ)
    (h : rpeErrors eps atol alignFn et diff 0 .svd pm dN delta rtol all rpair rs rp rs rp = some errs) :
    (∀ e ∈ errs, e = 0) ∧ (2 ≤ errs.length → (stats errs).toList = [0, 0, 0, 0, 0, 0, 0]) := by
  have ha : associate diff 0 rs rp rs rp = some ⟨rs, rp, rs, rp⟩ := by
    apply associate_jitter diff 0 rs rs rp rp rfl hlen hlen hne
    · intro i hi; simpa using hdiff
    · intro i hi k hk hki
      have : rs[i] - rs[k] ≠ 0 := sub_ne_zero.mpr (hdist i hi k hk hki)
      simpa using this
  unfold rpeErrors at h
  rw [ha] at h
  simp only [Option.bind_some] at h
  exact rpeCore_identical_zero_svd_of_optimal eps atol heps hatol alignFn et pm dN delta rtol all rpair rp hv hTv hopt hpos errs h

/-- non-vacuity of the stamp / position hypotheses of `rpe_identical_zero_svd_of_optimal` on a collinear trajectory: stamps 0, 1, 2 are
pairwise distinct and the three poses on the x-axis have two distinct positions (the optimal non-identity transform is the half turn of
the previous `example`s). -/
example : (∀ (i : Nat) (hi : i < ([0, 1, 2] : List ℝ).length) (k : Nat) (hk : k < ([0, 1, 2] : List ℝ).length), k ≠ i →
      ([0, 1, 2] : List ℝ)[i] ≠ ([0, 1, 2] : List ℝ)[k]) ∧
    (∃ a ∈ ([⟨Vec3.zero, Quat.one⟩, ⟨Vec3.e0, Quat.one⟩, ⟨Vec3.e0.smul 2, Quat.one⟩] : List (SE3 ℝ)),
      ∃ b ∈ ([⟨Vec3.zero, Quat.one⟩, ⟨Vec3.e0, Quat.one⟩, ⟨Vec3.e0.smul 2, Quat.one⟩] : List (SE3 ℝ)), a.t ≠ b.t) := by
  refine ⟨?_, ⟨⟨Vec3.zero, Quat.one⟩, by simp, ⟨Vec3.e0, Quat.one⟩, by simp, ?_⟩⟩
  · intro i hi k hk hki
    simp only [List.length_cons, List.length_nil] at hi hk
    have hi' : i = 0 ∨ i = 1 ∨ i = 2 := by omega
    have hk' : k = 0 ∨ k = 1 ∨ k = 2 := by omega
    rcases hi' with rfl | rfl | rfl <;> rcases hk' with rfl | rfl | rfl <;> simp_all
  · intro h
    have := congrArg Vec3.x h
    simp [Vec3.zero, Vec3.e0] at this

/-! ## geodesic loss -/

/-- **Symmetry**: `geodesic_loss(x, y) = geodesic_loss(y, x)` item-wise — for all quaternions, every regime. -/
theorem geodesic_symm (eps : ℝ) (x y : Quat ℝ) : geodesic eps x y = geodesic eps y x := by
  unfold geodesic
  have : y.mul x.conj = (x.mul y.conj).conj := by rw [Quat.conj_mul_rev, Quat.conj_conj]
  rw [this, SO3Log_conj, Vec3.norm_neg']

/-- **Range**: for unit quaternions (and the float32/float64 `eps`, indeed any `0 ≤ eps ≤ 1/2`) the loss of one
item lies in `[0, π]`. -/
theorem geodesic_range (eps : ℝ) (h0 : 0 ≤ eps) (h1 : eps ≤ 1 / 2) (x y : Quat ℝ) (hx : SO3.Valid x)
    (hy : SO3.Valid y) : 0 ≤ geodesic eps x y ∧ geodesic eps x y ≤ Real.pi := by
  unfold geodesic
  refine ⟨Vec3.norm_nonneg _, SO3Log_norm_le_pi eps _ h0 h1 ?_⟩
  exact SO3_valid_mul x y.conj hx (SO3_valid_inv y hy)

/-- **It is the rotation angle**: in the generic regime (`eps < |v|`, `eps < |w|` of `q = x·y⁻¹`) the loss `θ`
satisfies `cos θ = (tr(R(x)·R(y)ᵀ) − 1)/2` with `θ ∈ [0, π]` — the angle of the relative rotation. -/
theorem geodesic_is_angle (eps : ℝ) (h0 : 0 ≤ eps) (x y : Quat ℝ) (hx : SO3.Valid x) (hy : SO3.Valid y)
    (hv : eps < (x.mul y.conj).vec.norm) (hw : eps < |(x.mul y.conj).w|) :
    Real.cos (geodesic eps x y) = (((SO3matrix x).mul (SO3matrix y).transpose).trace - 1) / 2 := by
  have hq : (x.mul y.conj).normSq = 1 := SO3_valid_mul x y.conj hx (SO3_valid_inv y hy)
  unfold geodesic
  rw [cos_SO3Log_norm eps _ h0 hq hv hw, ← SO3_matrix_conj, ← SO3_matrix_mul x y.conj hx (SO3_valid_inv y hy),
    trace_SO3matrix _ hq]
  ring

/-- **The loss is the angle of `R₁ᵀR₂`**: in the generic regime `geodesic = arccos((tr(R(x)ᵀR(y)) − 1)/2)` — the principal
rotation angle in `[0, π]` of the relative rotation (pass 3: `arccos` form, transpose on either side). -/
theorem geodesic_eq_arccos (eps : ℝ) (h0 : 0 ≤ eps) (x y : Quat ℝ) (hx : SO3.Valid x) (hy : SO3.Valid y)
    (hv : eps < (x.mul y.conj).vec.norm) (hw : eps < |(x.mul y.conj).w|) :
    geodesic eps x y = Real.arccos ((((SO3matrix x).transpose.mul (SO3matrix y)).trace - 1) / 2) := by
  have hcos := geodesic_is_angle eps h0 x y hx hy hv hw
  rw [trace_transpose_mul, ← hcos]
  have hnn : 0 ≤ geodesic eps x y := Vec3.norm_nonneg _
  have hle : geodesic eps x y ≤ Real.pi := by
    unfold geodesic
    rw [SO3Log_norm_generic eps _ h0 hv hw]
    have h1 := Real.arctan_lt_pi_div_two ((x.mul y.conj).vec.norm / (x.mul y.conj).w)
    have h2 := Real.neg_pi_div_two_lt_arctan ((x.mul y.conj).vec.norm / (x.mul y.conj).w)
    have : |Real.arctan ((x.mul y.conj).vec.norm / (x.mul y.conj).w)| ≤ Real.pi / 2 := abs_le.mpr ⟨by linarith, by linarith⟩
    linarith
  exact (Real.arccos_cos hnn hle).symm

/-- at the antipodal regime (`|w| ≤ eps < |v|`) the loss is exactly `π` -/
theorem geodesic_pi_regime (eps : ℝ) (h0 : 0 ≤ eps) (x y : Quat ℝ)
    (hv : eps < (x.mul y.conj).vec.norm) (hw : ¬ eps < |(x.mul y.conj).w|) : geodesic eps x y = Real.pi := by
  have hvn : 0 < (x.mul y.conj).vec.norm := lt_of_le_of_lt h0 hv
  unfold geodesic SO3Log so3LogFactor
  rw [Vec3.norm_smul']
  simp only [lt_real, hv, decide_true, if_true, sabs_real, hw, decide_false, Bool.false_eq_true, if_false, pi_real]
  rw [abs_div, abs_mul, spm_abs, abs_of_pos hvn, abs_of_pos Real.pi_pos]
  field_simp

/-- in the antipodal regime the returned `π` differs from the true angle only through `cos`: `|cos π − (tr−1)/2| ≤ 2·eps²` -/
theorem geodesic_pi_regime_angle (eps : ℝ) (h0 : 0 ≤ eps) (x y : Quat ℝ) (hx : SO3.Valid x) (hy : SO3.Valid y)
    (hv : eps < (x.mul y.conj).vec.norm) (hw : ¬ eps < |(x.mul y.conj).w|) :
    |Real.cos (geodesic eps x y) - (((SO3matrix x).transpose.mul (SO3matrix y)).trace - 1) / 2| ≤ 2 * eps ^ 2 := by
  have hq : (x.mul y.conj).normSq = 1 := SO3_valid_mul x y.conj hx (SO3_valid_inv y hy)
  rw [geodesic_pi_regime eps h0 x y hv hw, Real.cos_pi, trace_transpose_mul, ← SO3_matrix_conj,
    ← SO3_matrix_mul x y.conj hx (SO3_valid_inv y hy), trace_SO3matrix _ hq]
  have hwle : |(x.mul y.conj).w| ≤ eps := not_lt.mp hw
  have hsq : (x.mul y.conj).w * (x.mul y.conj).w ≤ eps ^ 2 := by
    rw [← abs_mul_abs_self]; nlinarith [abs_nonneg (x.mul y.conj).w]
  have hnn : 0 ≤ (x.mul y.conj).w * (x.mul y.conj).w := mul_self_nonneg _
  rw [abs_le]; constructor <;> nlinarith

/-- **Series branch** (`|v| ≤ eps`; pass 3 — completes the three regimes of "the loss is the rotation angle"): with
`r = |v|/|w|` the true rotation angle of `R(x)ᵀR(y)` is `θ* = 2·arctan r` (`cos θ* = (tr − 1)/2`, `θ* ∈ [0, π)`), and the
returned value satisfies `loss ≤ θ* ≤ loss + (2/5)·r⁵` — an error below `eps⁵` radians. -/
theorem geodesic_small_regime (eps : ℝ) (h1 : eps ≤ 1 / 2) (x y : Quat ℝ) (hx : SO3.Valid x) (hy : SO3.Valid y)
    (hv : ¬ eps < (x.mul y.conj).vec.norm) :
    geodesic eps x y ≤ 2 * Real.arctan ((x.mul y.conj).vec.norm / |(x.mul y.conj).w|) ∧
    2 * Real.arctan ((x.mul y.conj).vec.norm / |(x.mul y.conj).w|)
      ≤ geodesic eps x y + 2 / 5 * ((x.mul y.conj).vec.norm / |(x.mul y.conj).w|) ^ 5 ∧
    Real.cos (2 * Real.arctan ((x.mul y.conj).vec.norm / |(x.mul y.conj).w|))
      = (((SO3matrix x).transpose.mul (SO3matrix y)).trace - 1) / 2 := by
  have hq : (x.mul y.conj).normSq = 1 := SO3_valid_mul x y.conj hx (SO3_valid_inv y hy)
  obtain ⟨hn, hw34⟩ := SO3Log_norm_small eps _ h1 hq hv
  have hapos : 0 < |(x.mul y.conj).w| := by linarith
  have hr0 : 0 ≤ (x.mul y.conj).vec.norm / |(x.mul y.conj).w| := div_nonneg (Vec3.norm_nonneg _) hapos.le
  obtain ⟨b1, b2⟩ := arctan_series_bound _ hr0
  unfold geodesic
  rw [hn]
  refine ⟨by linarith, by linarith, ?_⟩
  rw [trace_transpose_mul, ← SO3_matrix_conj, ← SO3_matrix_mul x y.conj hx (SO3_valid_inv y hy), trace_SO3matrix _ hq,
    Real.cos_two_mul, Real.cos_arctan]
  have hrel := quat_vn_w _ hq
  have hane : |(x.mul y.conj).w| ≠ 0 := ne_of_gt hapos
  have h1r : 1 + ((x.mul y.conj).vec.norm / |(x.mul y.conj).w|) ^ 2 = 1 / ((x.mul y.conj).w * (x.mul y.conj).w) := by
    rw [div_pow, sq_abs]
    have hwne : (x.mul y.conj).w ≠ 0 := by
      intro h; rw [h, abs_zero] at hapos; exact lt_irrefl _ hapos
    field_simp; nlinarith
  have hpos : 0 < 1 + ((x.mul y.conj).vec.norm / |(x.mul y.conj).w|) ^ 2 := by positivity
  rw [div_pow, one_pow, Real.sq_sqrt hpos.le, h1r]
  have hwne : (x.mul y.conj).w ≠ 0 := by
    intro h; rw [h, abs_zero] at hapos; exact lt_irrefl _ hapos
  field_simp; ring

theorem geodesicAll_symm (eps : ℝ) (xs ys : List (Quat ℝ)) : geodesicAll eps xs ys = geodesicAll eps ys xs := by
  unfold geodesicAll
  rw [List.zipWith_comm]
  congr 1
  funext a b
  exact geodesic_symm eps b a

/-- **Symmetry under every reduction** (`none`, `mean`, `sum`), any batch length. -/
theorem geodesic_reductions_symm (eps : ℝ) (xs ys : List (Quat ℝ)) :
    geodesicAll eps xs ys = geodesicAll eps ys xs ∧ geodesicMean eps xs ys = geodesicMean eps ys xs
      ∧ geodesicSum eps xs ys = geodesicSum eps ys xs := by
  unfold geodesicMean geodesicSum
  rw [geodesicAll_symm eps xs ys]
  exact ⟨rfl, rfl, rfl⟩

theorem geodesicAll_range (eps : ℝ) (h0 : 0 ≤ eps) (h1 : eps ≤ 1 / 2) (xs ys : List (Quat ℝ))
    (hx : ∀ x ∈ xs, SO3.Valid x) (hy : ∀ y ∈ ys, SO3.Valid y) :
    ∀ g ∈ geodesicAll eps xs ys, 0 ≤ g ∧ g ≤ Real.pi := by
  unfold geodesicAll
  intro g hg
  obtain ⟨i, hi, rfl⟩ := List.getElem_of_mem hg
  rw [List.getElem_zipWith]
  exact geodesic_range eps h0 h1 _ _ (hx _ (List.getElem_mem _)) (hy _ (List.getElem_mem _))

/-- **Range under the reductions**: `mean ∈ [0, π]`, `sum ∈ [0, n·π]` for `n` item pairs. -/
theorem geodesic_reductions_range (eps : ℝ) (h0 : 0 ≤ eps) (h1 : eps ≤ 1 / 2) (xs ys : List (Quat ℝ))
    (hx : ∀ x ∈ xs, SO3.Valid x) (hy : ∀ y ∈ ys, SO3.Valid y) :
    (0 ≤ geodesicMean eps xs ys ∧ geodesicMean eps xs ys ≤ Real.pi) ∧
    (0 ≤ geodesicSum eps xs ys ∧ geodesicSum eps xs ys ≤ (geodesicAll eps xs ys).length * Real.pi) := by
  have hr := geodesicAll_range eps h0 h1 xs ys hx hy
  set l := geodesicAll eps xs ys with hl
  have hs0 : 0 ≤ l.sum := List.sum_nonneg (fun g hg => (hr g hg).1)
  have hsn : l.sum ≤ (l.length : ℝ) * Real.pi := sum_le_card_mul l Real.pi (fun g hg => (hr g hg).2)
  unfold geodesicMean geodesicSum
  rw [← hl, sumL_eq_sum]
  refine ⟨⟨?_, ?_⟩, hs0, hsn⟩
  · simp only [k_real]; positivity
  · simp only [k_real]
    rcases Nat.eq_zero_or_pos l.length with h | h
    · rw [h]; simp [Real.pi_pos.le]
    · have hn : (0 : ℝ) < (l.length : ℝ) := by exact_mod_cast h
      rw [div_le_iff₀ hn]; linarith

/-! ### non-vacuity -/
example : SO3.Valid (⟨0.6, 0, 0, 0.8⟩ : Quat ℝ) := by unfold SO3.Valid; lie_unfold; norm_num
example : stats ([3, -4] : List ℝ) = stats [3, -4] ∧ ([3, -4] : List ℝ) ≠ [] := ⟨rfl, by simp⟩
/-- the hypotheses of `associate_jitter` are satisfiable: two stamps, jitter 0.001, diff 0.01 -/
example : ∀ (i : Nat) (hi : i < ([0.001, 1.001] : List ℝ).length),
    |([0.001, 1.001] : List ℝ)[i] + 0 - ([0, 1] : List ℝ)[i]'(by simpa using hi)| < 0.01 := by
  intro i hi
  have : i = 0 ∨ i = 1 := by simp at hi; omega
  rcases this with rfl | rfl <;> norm_num [abs_lt]

/-! a NON-TRIVIAL instance of the `svdstf` contract: source = the six vertices `±eᵢ` of the octahedron (not collinear), target =
the octahedron scaled by 2, rotated by `q₀ = (0, 0, 0.6, 0.8)` (angle `2·atan(3/4)` about z) and shifted by `d = (1, 2, 3)`; rigid
mode (scale fixed to 1). The optimum is `A = (d, q₀, 1) ≠ identity` with NON-ZERO residual `6`, and it is unique as a
transformation: for every admissible `T = (t, q, 1)`, `cost T = 6 + 6‖t − d‖² + 32 (x² + y² + (0.8 z − 0.6 w)²)`. -/

/-- the contract holds at a rotated, shifted, scaled target with non-zero residual (non-vacuity of `AlignOK`, rigid mode) -/
theorem alignOK_octahedron : AlignOK true octaA octaP octaQ ∧ cost octaA octaP octaQ = 6 ∧ ¬ Sim3Equiv octaA Sim3one := by
  have hA : cost octaA octaP octaQ = 6 := by
    unfold octaA
    rw [cost_octa _ _ (by norm_num)]
    norm_num
  have hform : ∀ T : Sim3 ℝ, Sim3.Valid T → T.s = 1 →
      cost T octaP octaQ = 6 + 6 * ((T.t.x - 1) ^ 2 + (T.t.y - 2) ^ 2 + (T.t.z - 3) ^ 2)
        + 32 * (T.q.x ^ 2 + T.q.y ^ 2 + (4 / 5 * T.q.z - 3 / 5 * T.q.w) ^ 2) := by
    intro T hT hs
    have hq : T.q.x * T.q.x + T.q.y * T.q.y + T.q.z * T.q.z + T.q.w * T.q.w = 1 := hT.1
    have : T = ⟨T.t, T.q, 1⟩ := by cases T; simp only at hs; rw [hs]
    rw [this]; exact cost_octa _ _ hq
  refine ⟨⟨⟨by unfold octaA; lie_unfold; norm_num, by unfold octaA; norm_num⟩, fun _ => rfl, ?_, ?_⟩, hA, ?_⟩
  · intro T hT hs
    rw [hA, hform T hT (hs rfl)]
    have n1 := sq_nonneg (T.t.x - 1)
    have n2 := sq_nonneg (T.t.y - 2)
    have n3 := sq_nonneg (T.t.z - 3)
    have n4 := sq_nonneg T.q.x
    have n5 := sq_nonneg T.q.y
    have n6 := sq_nonneg (4 / 5 * T.q.z - 3 / 5 * T.q.w)
    linarith
  · intro T hT hs hc
    rw [hA, hform T hT (hs rfl)] at hc
    have hq : T.q.x * T.q.x + T.q.y * T.q.y + T.q.z * T.q.z + T.q.w * T.q.w = 1 := hT.1
    have n1 := sq_nonneg (T.t.x - 1)
    have n2 := sq_nonneg (T.t.y - 2)
    have n3 := sq_nonneg (T.t.z - 3)
    have n4 := sq_nonneg T.q.x
    have n5 := sq_nonneg T.q.y
    have n6 := sq_nonneg (4 / 5 * T.q.z - 3 / 5 * T.q.w)
    have z1 : (T.t.x - 1) ^ 2 = 0 := by linarith
    have z2 : (T.t.y - 2) ^ 2 = 0 := by linarith
    have z3 : (T.t.z - 3) ^ 2 = 0 := by linarith
    have z4 : T.q.x ^ 2 = 0 := by linarith
    have z5 : T.q.y ^ 2 = 0 := by linarith
    have z6 : (4 / 5 * T.q.z - 3 / 5 * T.q.w) ^ 2 = 0 := by linarith
    have e1 : T.t.x = 1 := by have := pow_eq_zero_iff (two_ne_zero) |>.mp z1; linarith
    have e2 : T.t.y = 2 := by have := pow_eq_zero_iff (two_ne_zero) |>.mp z2; linarith
    have e3 : T.t.z = 3 := by have := pow_eq_zero_iff (two_ne_zero) |>.mp z3; linarith
    have e4 : T.q.x = 0 := pow_eq_zero_iff (two_ne_zero) |>.mp z4
    have e5 : T.q.y = 0 := pow_eq_zero_iff (two_ne_zero) |>.mp z5
    have e6 : T.q.z = 3 / 4 * T.q.w := by have := pow_eq_zero_iff (two_ne_zero) |>.mp z6; linarith
    rw [e4, e5, e6] at hq
    have hw : (T.q.w - 4 / 5) * (T.q.w + 4 / 5) = 0 := by ring_nf; ring_nf at hq; linarith
    refine ⟨by ext <;> simp [octaA, e1, e2, e3], by rw [hs rfl]; rfl, ?_⟩
    rcases mul_eq_zero.mp hw with h | h
    · left
      have hw' : T.q.w = 4 / 5 := by linarith
      ext <;> simp only [octaA, e4, e5, e6, hw'] <;> norm_num
    · right
      have hw' : T.q.w = -(4 / 5) := by linarith
      ext <;> simp only [octaA, Quat.neg, e4, e5, e6, hw'] <;> norm_num
  · intro h
    have := congrArg Vec3.x h.1
    simp [octaA, Sim3one, Vec3.zero] at this

/-- the octahedron vertices are not collinear: consistent with `alignOK_collinear_false` -/
example : ¬ Collinear octaP := fun h => alignOK_collinear_false true octaA octaP octaQ h alignOK_octahedron.1

/-- non-vacuity of `rpeCore_align_invariant_partial` / `apeCore_align_invariant_partial` with a NON-trivial transform: estimate positions
on the octahedron, reference positions its scaled / rotated / shifted image, `S` = the rigid motion `octaA` itself (rotation by
`2·atan(3/4)` about z and shift (1,2,3)); an `alignFn` meeting the contract at both point sets exists. -/
example : ∃ alignFn : List (Vec3 ℝ) → List (Vec3 ℝ) → Sim3 ℝ,
    AlignOK true (alignFn octaP octaQ) octaP octaQ ∧
    AlignOK true (alignFn (octaP.map (Sim3Act octaA)) octaQ) (octaP.map (Sim3Act octaA)) octaQ ∧ ¬ Sim3Equiv octaA Sim3one := by
  classical
  have hA := alignOK_octahedron
  have hSv : Sim3.Valid octaA := hA.1.valid
  refine ⟨fun P _ => if P = octaP then octaA else Sim3Mul octaA (Sim3Inv octaA), ?_, ?_, hA.2.2⟩
  · simp only [if_true]; exact hA.1
  · have hne : octaP.map (Sim3Act octaA) ≠ octaP := by
      intro h
      have h0 := congrArg (fun l => (l.headD Vec3.zero).z) h
      simp only [octaP, octaA, Sim3Act, List.map_cons, List.headD_cons, Quat.act, Vec3.cross, Quat.vec, Vec3.add, Vec3.smul] at h0
      norm_num at h0
    simp only [hne, if_false]
    exact alignOK_transport true octaA octaA octaP octaQ hSv (fun _ => rfl) hA.1


/-- the `svdstf` contract is satisfiable: three non-collinear points aligned with themselves -/
example : AlignOK false Sim3one [Vec3.zero, Vec3.e0, Vec3.e1] [Vec3.zero, Vec3.e0, (Vec3.e1 : Vec3 ℝ)] := by
  have hone : Sim3.Valid (Sim3one : Sim3 ℝ) := ⟨SO3_valid_one, by simp [Sim3one]⟩
  refine ⟨hone, fun h => by simp at h, ?_, ?_⟩
  · intro T _ _
    rw [cost_self_one]; exact cost_nonneg _ _ _
  · intro T hT _ hc
    rw [cost_self_one] at hc
    have h0 := cost_nonneg T [Vec3.zero, Vec3.e0, Vec3.e1] [Vec3.zero, Vec3.e0, (Vec3.e1 : Vec3 ℝ)]
    have hz : cost T [Vec3.zero, Vec3.e0, Vec3.e1] [Vec3.zero, Vec3.e0, (Vec3.e1 : Vec3 ℝ)] = 0 := le_antisymm hc h0
    simp only [cost, List.zipWith_cons_cons, List.zipWith_nil_right, List.sum_cons, List.sum_nil, add_zero] at hz
    have n1 := Vec3.normSq_nonneg ((Sim3Act T Vec3.zero).sub Vec3.zero)
    have n2 := Vec3.normSq_nonneg ((Sim3Act T Vec3.e0).sub Vec3.e0)
    have n3 := Vec3.normSq_nonneg ((Sim3Act T Vec3.e1).sub Vec3.e1)
    have z1 := normSq_eq_zero _ (by linarith : ((Sim3Act T Vec3.zero).sub Vec3.zero).normSq = 0)
    have z2 := normSq_eq_zero _ (by linarith : ((Sim3Act T Vec3.e0).sub Vec3.e0).normSq = 0)
    have z3 := normSq_eq_zero _ (by linarith : ((Sim3Act T Vec3.e1).sub Vec3.e1).normSq = 0)
    obtain ⟨hq, hs⟩ := hT
    have hq' : T.q.x * T.q.x + T.q.y * T.q.y + T.q.z * T.q.z + T.q.w * T.q.w = 1 := hq
    have t1 := congrArg Vec3.x z1; have t2 := congrArg Vec3.y z1; have t3 := congrArg Vec3.z z1
    have a1 := congrArg Vec3.x z2; have a2 := congrArg Vec3.y z2; have a3 := congrArg Vec3.z z2
    have b1 := congrArg Vec3.x z3; have b2 := congrArg Vec3.y z3; have b3 := congrArg Vec3.z z3
    simp only [Sim3Act, Vec3.sub, Vec3.add, Vec3.smul, Quat.act, Vec3.cross, Quat.vec, Vec3.zero, Vec3.e0, Vec3.e1,
      k_real, Nat.cast_zero, Nat.cast_one] at t1 t2 t3 a1 a2 a3 b1 b2 b3
    ring_nf at t1 t2 t3 a1 a2 a3 b1 b2 b3
    have hsne : T.s ≠ 0 := ne_of_gt hs
    set x := T.q.x; set y := T.q.y; set z := T.q.z; set w := T.q.w
    have e1 : w * z + y * x = 0 := by
      have : T.s * (w * z + y * x) = 0 := by linarith
      exact (mul_eq_zero.mp this).resolve_left hsne
    have e2 : x * z - w * y = 0 := by
      have : T.s * (x * z - w * y) = 0 := by linarith
      exact (mul_eq_zero.mp this).resolve_left hsne
    have hA : T.s * (1 - 2 * y ^ 2 - 2 * z ^ 2) = 1 := by linarith
    have hB : T.s * (1 - 2 * z ^ 2 - 2 * x ^ 2) = 1 := by linarith
    have hAeq : 1 - 2 * y ^ 2 - 2 * z ^ 2 = w * w + x * x - y * y - z * z := by rw [← hq']; ring
    have hN : (1 - 2 * y ^ 2 - 2 * z ^ 2) ^ 2 = 1 := by
      have id1 : (w * w + x * x - y * y - z * z) ^ 2 + (2 * (w * z + y * x)) ^ 2 + (2 * (x * z - w * y)) ^ 2
          = (x * x + y * y + z * z + w * w) ^ 2 := by ring
      rw [e1, e2, hq'] at id1
      rw [hAeq]; linarith
    have hApos : 0 < 1 - 2 * y ^ 2 - 2 * z ^ 2 := by
      by_contra hn
      have : T.s * (1 - 2 * y ^ 2 - 2 * z ^ 2) ≤ 0 := mul_nonpos_of_nonneg_of_nonpos hs.le (not_lt.mp hn)
      linarith
    have hA1 : 1 - 2 * y ^ 2 - 2 * z ^ 2 = 1 := by
      have : (1 - 2 * y ^ 2 - 2 * z ^ 2 - 1) * (1 - 2 * y ^ 2 - 2 * z ^ 2 + 1) = 0 := by ring_nf; ring_nf at hN; linarith
      rcases mul_eq_zero.mp this with h | h
      · linarith
      · linarith
    have hs1 : T.s = 1 := by rw [hA1, mul_one] at hA; exact hA
    have hyz : y ^ 2 + z ^ 2 = 0 := by linarith only [hA1]
    have hy : y = 0 := by
      have : y ^ 2 = 0 := le_antisymm (by linarith only [hyz, sq_nonneg z]) (sq_nonneg y)
      exact pow_eq_zero_iff (by norm_num) |>.mp this
    have hz0 : z = 0 := by
      have : z ^ 2 = 0 := le_antisymm (by linarith only [hyz, sq_nonneg y]) (sq_nonneg z)
      exact pow_eq_zero_iff (by norm_num) |>.mp this
    have hx : x = 0 := by
      rw [hs1, hz0] at hB
      have : x ^ 2 = 0 := by linarith only [hB]
      exact pow_eq_zero_iff (by norm_num) |>.mp this
    have hw2 : w * w = 1 := by rw [hx, hy, hz0] at hq'; linarith only [hq']
    refine ⟨?_, by rw [hs1]; simp [Sim3one], ?_⟩
    · ext <;> simp [Sim3one, Vec3.zero, t1, t2, t3]
    · have : w = 1 ∨ w = -1 := by
        have : (w - 1) * (w + 1) = 0 := by linear_combination hw2
        rcases mul_eq_zero.mp this with h | h
        · left; linarith
        · right; linarith
      rcases this with h | h
      · left; ext <;> simp [Sim3one, Quat.one] <;> assumption
      · right; ext <;> simp [Sim3one, Quat.one, Quat.neg] <;> assumption

end PP.Traj
