#!/usr/bin/env python3
"""Prints the markdown status table of DESIGN §10.1 from the live sources: theorem counts from
lean/Proofs/Props/Cxx.lean, `partial` lists from harness/cxx.py META, last evidence numbers."""
import importlib, json, re, sys, warnings
from pathlib import Path
V = Path(__file__).resolve().parent.parent
sys.path.insert(0, str(V))
warnings.filterwarnings("ignore")
print("| id | theorems | last evidence (tier, cases, distinct non-trivial, seconds) | still partial (from the check's own META) |")
print("|---|---|---|---|")
tot = 0
for i in range(1, 21):
    pid = f"C{i:02d}"
    f = V / "lean" / "Proofs" / "Props" / f"{pid}.lean"
    n = sum(1 for l in f.read_text().splitlines() if re.match(r"^(?:@\[[^\]]*\]\s*)?(?:private\s+|protected\s+)?theorem\s+\S+", l))
    tot += n
    try:
        meta = importlib.import_module(f"harness.c{i:02d}").META
        part = "; ".join(re.sub(r"\s+", " ", p)[:220] + ("…" if len(p) > 220 else "") for p in meta.get("partial", [])) or "—"
    except Exception as e:  # noqa
        part = f"(META not importable: {e})"
    ev = "—"
    try:
        e = json.loads((V / "evidence" / f"{pid}.json").read_text())
        c = e.get("coverage", {})
        ev = f"{e.get('tier')}, {c.get('evaluations')}, {c.get('distinct_nontrivial', c.get('distinct_non_trivial', '?'))}, {e.get('wall_s', '?')}"
    except Exception:
        pass
    print(f"| {pid} | {n} | {ev} | {part.replace('|', '/')} |")
print(f"\nTotal: {tot} theorems.")
