import Pose.Model.Batch
/-!
# Helper lemmas for C06 (row-major indexing, broadcasting projections). Core Lean only.
-/
namespace PP.Batch

theorem inb_length : ∀ {s : Shape} {i : List Nat}, inb s i → i.length = s.length
  | [], [], _ => rfl
  | [], _ :: _, h => by simp [inb] at h
  | _ :: _, [], h => by simp [inb] at h
  | _ :: s, _ :: is, h => by
    simp only [inb] at h
    simp [inb_length h.2]

/-- pointwise characterisation of `inb` -/
theorem inb_iff : ∀ {s : Shape} {i : List Nat},
    inb s i ↔ i.length = s.length ∧ ∀ k, k < s.length → i.getD k 0 < s.getD k 0
  | [], [] => by simp [inb]
  | [], _ :: _ => by simp [inb]
  | _ :: _, [] => by simp [inb]
  | n :: s, j :: is => by
    simp only [inb, List.length_cons]
    rw [inb_iff (s := s) (i := is)]
    constructor
    · rintro ⟨h0, hl, hk⟩
      refine ⟨by omega, ?_⟩
      intro k hk'
      cases k with
      | zero => simpa using h0
      | succ k => simpa using hk k (by omega)
    · rintro ⟨hl, hk⟩
      refine ⟨by simpa using hk 0 (by omega), by omega, ?_⟩
      intro k hk'
      simpa using hk (k + 1) (by omega)

theorem numel_pos_of_inb : ∀ {s : Shape} {i : List Nat}, inb s i → 0 < numel s
  | [], [], _ => by simp [numel]
  | [], _ :: _, h => by simp [inb] at h
  | _ :: _, [], h => by simp [inb] at h
  | n :: s, j :: is, h => by
    simp only [inb] at h
    simp only [numel]
    exact Nat.mul_pos (by omega) (numel_pos_of_inb h.2)

theorem ravel_lt : ∀ {s : Shape} {i : List Nat}, inb s i → ravel s i < numel s
  | [], [], _ => by simp [ravel, numel]
  | [], _ :: _, h => by simp [inb] at h
  | _ :: _, [], h => by simp [inb] at h
  | n :: s, j :: is, h => by
    simp only [inb] at h
    simp only [ravel, numel]
    have h2 := ravel_lt h.2
    calc j * numel s + ravel s is < j * numel s + numel s := by omega
      _ = (j + 1) * numel s := by rw [Nat.add_mul, Nat.one_mul]
      _ ≤ n * numel s := Nat.mul_le_mul_right _ (by omega)

theorem unravel_inb : ∀ {s : Shape} {k : Nat}, k < numel s → inb s (unravel s k)
  | [], _, _ => by simp [unravel, inb]
  | n :: s, k, h => by
    simp only [numel] at h
    simp only [unravel, inb]
    have hpos : 0 < numel s := by
      rcases Nat.eq_zero_or_pos (numel s) with h0 | h0
      · rw [h0] at h; omega
      · exact h0
    refine ⟨?_, unravel_inb (Nat.mod_lt _ hpos)⟩
    exact Nat.div_lt_of_lt_mul (by rw [Nat.mul_comm]; exact h)

/-- **unravel ∘ ravel = id** on valid multi-indices -/
theorem unravel_ravel' : ∀ {s : Shape} {i : List Nat}, inb s i → unravel s (ravel s i) = i
  | [], [], _ => by simp [unravel]
  | [], _ :: _, h => by simp [inb] at h
  | _ :: _, [], h => by simp [inb] at h
  | n :: s, j :: is, h => by
    simp only [inb] at h
    have hr := ravel_lt h.2
    have hpos : 0 < numel s := by omega
    simp only [ravel, unravel]
    have e1 : (j * numel s + ravel s is) / numel s = j := by
      rw [Nat.add_comm, Nat.add_mul_div_right _ _ hpos, Nat.div_eq_of_lt hr]; omega
    have e2 : (j * numel s + ravel s is) % numel s = ravel s is := by
      rw [Nat.add_comm, Nat.add_mul_mod_self_right]; exact Nat.mod_eq_of_lt hr
    rw [e1, e2, unravel_ravel' h.2]

/-- **ravel ∘ unravel = id** on valid flat indices -/
theorem ravel_unravel' : ∀ {s : Shape} {k : Nat}, k < numel s → ravel s (unravel s k) = k
  | [], k, h => by simp [numel] at h; simp [ravel, h]
  | n :: s, k, h => by
    simp only [numel] at h
    have hpos : 0 < numel s := by
      rcases Nat.eq_zero_or_pos (numel s) with h0 | h0
      · rw [h0] at h; omega
      · exact h0
    simp only [unravel, ravel]
    rw [ravel_unravel' (Nat.mod_lt _ hpos)]
    have := Nat.div_add_mod k (numel s)
    rw [Nat.mul_comm] at this
    exact this

/-! ### broadcasting -/

theorem bdim_some {a b d : Nat} (h : bdim a b = some d) :
    (a = d ∨ a = 1) ∧ (b = d ∨ b = 1) ∧ (d = a ∨ d = b) := by
  unfold bdim at h
  split at h
  · simp at h; omega
  · split at h
    · simp at h; omega
    · split at h
      · simp at h; omega
      · simp at h

theorem bdim_comm (a b : Nat) : bdim a b = bdim b a := by
  unfold bdim
  by_cases h1 : a = b
  · subst h1; rfl
  · have h1' : ¬ b = a := fun h => h1 h.symm
    simp only [h1, h1', if_false]
    by_cases ha : a = 1 <;> by_cases hb : b = 1 <;> simp [ha, hb]

theorem bzip_length : ∀ {p q r : Shape}, bzip p q = some r → r.length = p.length ∧ r.length = q.length
  | [], [], r, h => by simp [bzip] at h; subst h; simp
  | [], _ :: _, _, h => by simp [bzip] at h
  | _ :: _, [], _, h => by simp [bzip] at h
  | a :: as, b :: bs, r, h => by
    simp only [bzip] at h
    split at h
    · rename_i d r' hd hr
      simp at h; subst h
      have := bzip_length hr
      simp [this.1.symm, this.2.symm]
    · simp at h

theorem bzip_comm : ∀ (p q : Shape), bzip p q = bzip q p
  | [], [] => rfl
  | [], _ :: _ => rfl
  | _ :: _, [] => rfl
  | a :: as, b :: bs => by
    simp only [bzip]
    rw [bdim_comm a b, bzip_comm as bs]

theorem bzip_spec : ∀ {p q r : Shape}, bzip p q = some r → ∀ k, k < r.length →
      (p.getD k 0 = r.getD k 0 ∨ p.getD k 0 = 1) ∧ (q.getD k 0 = r.getD k 0 ∨ q.getD k 0 = 1) ∧
      (r.getD k 0 = p.getD k 0 ∨ r.getD k 0 = q.getD k 0)
  | [], [], r, h => by simp [bzip] at h; subst h; simp
  | [], _ :: _, _, h => by simp [bzip] at h
  | _ :: _, [], _, h => by simp [bzip] at h
  | a :: as, b :: bs, r, h => by
    simp only [bzip] at h
    split at h
    · rename_i d r' hd hr
      simp at h; subst h
      intro k hk
      cases k with
      | zero => simpa using bdim_some hd
      | succ k => simpa using bzip_spec hr k (by simpa using hk)
    · simp at h

theorem padTo_length {n : Nat} {s : Shape} (h : s.length ≤ n) : (padTo n s).length = n := by
  simp [padTo]; omega

theorem padTo_self (s : Shape) : padTo s.length s = s := by simp [padTo]

/-- validity of the equal-rank projection -/
theorem projEq_inb : ∀ {p q r : Shape} {i : List Nat}, bzip p q = some r → inb r i → inb p (projEq p i)
  | [], [], r, i, h, hi => by
    simp [bzip] at h; subst h
    cases i with
    | nil => simp [projEq, inb]
    | cons _ _ => simp [inb] at hi
  | [], _ :: _, _, _, h, _ => by simp [bzip] at h
  | _ :: _, [], _, _, h, _ => by simp [bzip] at h
  | a :: as, b :: bs, r, i, h, hi => by
    simp only [bzip] at h
    split at h
    · rename_i d r' hd hr
      simp at h; subst h
      cases i with
      | nil => simp [inb] at hi
      | cons j is =>
        simp only [inb] at hi
        simp only [projEq, inb]
        refine ⟨?_, projEq_inb hr hi.2⟩
        have := bdim_some hd
        by_cases ha : a = 1
        · simp [ha]
        · simp only [ha, if_false]; omega
    · simp at h

theorem projEq_replicate_one : ∀ (m : Nat) (s : Shape) (i : List Nat), m ≤ i.length →
    projEq (List.replicate m 1 ++ s) i = List.replicate m 0 ++ projEq s (i.drop m)
  | 0, s, i, _ => by simp
  | m + 1, s, [], h => by simp at h
  | m + 1, s, j :: is, h => by
    simp only [List.length_cons] at h
    simp only [List.replicate_succ, List.cons_append, projEq, List.drop_succ_cons, if_true]
    rw [projEq_replicate_one m s is (by omega)]

theorem inb_replicate_drop : ∀ (m : Nat) (s : Shape) (i : List Nat), inb (List.replicate m 1 ++ s) i →
    inb s (i.drop m)
  | 0, s, i, h => by simpa using h
  | m + 1, s, [], h => by simp [List.replicate_succ, inb] at h
  | m + 1, s, j :: is, h => by
    simp only [List.replicate_succ, List.cons_append, inb] at h
    simpa using inb_replicate_drop m s is h.2

theorem inb_of_replicate_zero : ∀ (m : Nat) (s : Shape) (j : List Nat),
    inb (List.replicate m 1 ++ s) (List.replicate m 0 ++ j) → inb s j
  | 0, s, j, h => by simpa using h
  | m + 1, s, j, h => by
    simp only [List.replicate_succ, List.cons_append, inb] at h
    exact inb_of_replicate_zero m s j h.2

/-- **The broadcasting projection lands on a real item of the operand.** -/
theorem proj_inb_left {a b out : Shape} {i : List Nat} (h : broadcastShapes a b = some out) (hi : inb out i) :
    inb a (proj a i) := by
  unfold broadcastShapes at h
  simp only at h
  have hla : a.length ≤ max a.length b.length := Nat.le_max_left _ _
  have hlen := bzip_length h
  rw [padTo_length hla] at hlen
  have hil := inb_length hi
  have h1 := projEq_inb h hi
  unfold padTo at h1
  rw [projEq_replicate_one _ _ _ (by omega)] at h1
  have h2 := inb_of_replicate_zero _ _ _ h1
  unfold proj
  have e : i.length - a.length = max a.length b.length - a.length := by omega
  rw [e]; exact h2

theorem broadcastShapes_comm (a b : Shape) : broadcastShapes a b = broadcastShapes b a := by
  unfold broadcastShapes
  simp only [Nat.max_comm a.length b.length]
  exact bzip_comm _ _

theorem proj_inb_right {a b out : Shape} {i : List Nat} (h : broadcastShapes a b = some out) (hi : inb out i) :
    inb b (proj b i) := by
  rw [broadcastShapes_comm] at h
  exact proj_inb_left h hi

theorem bdim_self (a : Nat) : bdim a a = some a := by simp [bdim]

theorem bzip_self : ∀ (s : Shape), bzip s s = some s
  | [] => rfl
  | a :: s => by simp [bzip, bdim_self, bzip_self s]

theorem bdim_of_spec {a b d : Nat} (ha : a = d ∨ a = 1) (hb : b = d ∨ b = 1) (hd : d = a ∨ d = b) : bdim a b = some d := by
  unfold bdim
  rcases ha with rfl | rfl <;> rcases hb with rfl | rfl
  · simp
  · by_cases h : a = 1 <;> simp [h]
  · by_cases h : 1 = b
    · simp [h]
    · simp [h]
  · rcases hd with rfl | rfl <;> simp

theorem bzip_of_spec : ∀ (p q r : Shape), p.length = r.length → q.length = r.length →
    (∀ k, k < r.length → (p.getD k 0 = r.getD k 0 ∨ p.getD k 0 = 1) ∧ (q.getD k 0 = r.getD k 0 ∨ q.getD k 0 = 1) ∧
      (r.getD k 0 = p.getD k 0 ∨ r.getD k 0 = q.getD k 0)) → bzip p q = some r
  | [], [], [], _, _, _ => rfl
  | [], [], _ :: _, h, _, _ => by simp at h
  | [], _ :: _, [], _, h, _ => by simp at h
  | [], _ :: _, _ :: _, h, _, _ => by simp at h
  | _ :: _, [], r, h1, h2, _ => by rw [← h2] at h1; simp at h1
  | _ :: _, _ :: _, [], h, _, _ => by simp at h
  | a :: p, b :: q, d :: r, h1, h2, h => by
    have h0 := h 0 (by simp)
    simp only [List.getD_cons_zero] at h0
    have hrec := bzip_of_spec p q r (by simpa using h1) (by simpa using h2) (fun k hk => by simpa using h (k + 1) (by simpa using hk))
    simp [bzip, bdim_of_spec h0.1 h0.2.1 h0.2.2, hrec]

/-! ### torch's own broadcast loop -/

theorem merge1_eq_bdim (c s : Nat) : merge1 c s = bdim c s := by
  unfold merge1 bdim
  by_cases h1 : s = c
  · subst h1; simp
  · have h1' : ¬ c = s := fun h => h1 h.symm
    simp only [h1, h1', if_false]
    by_cases hc : c = 1
    · subst hc
      have : ¬ s = 1 := h1
      simp [this]
    · simp only [hc, if_false]
      by_cases hs : s = 1
      · simp [hs]
      · simp [hs, h1']

theorem bzip_ones_left : ∀ (b : Shape), bzip (List.replicate b.length 1) b = some b
  | [] => rfl
  | y :: ys => by
    simp only [List.length_cons, List.replicate_succ, bzip, bzip_ones_left ys]
    have : bdim 1 y = some y := by unfold bdim; by_cases h : 1 = y <;> simp [h]
    simp [this]

theorem bzip_snoc : ∀ (p q : Shape) (x y : Nat), p.length = q.length →
    bzip (p ++ [x]) (q ++ [y]) = match bzip p q, bdim x y with
      | some r, some d => some (r ++ [d])
      | _, _ => none
  | [], [], x, y, _ => by
    simp only [List.nil_append, bzip]
    cases bdim x y <;> simp
  | [], _ :: _, _, _, h => by simp at h
  | _ :: _, [], _, _, h => by simp at h
  | a :: p, b :: q, x, y, h => by
    simp only [List.cons_append, bzip]
    rw [bzip_snoc p q x y (by simpa using h)]
    cases bdim a b <;> cases bzip p q <;> cases bdim x y <;> simp

theorem padTo_snoc (n : Nat) (a : Shape) (x : Nat) (h : a.length + 1 ≤ n + 1) :
    padTo (n + 1) (a ++ [x]) = padTo n a ++ [x] := by
  unfold padTo
  simp only [List.length_append, List.length_cons, List.length_nil]
  have : n + 1 - (a.length + 0 + 1) = n - a.length := by omega
  rw [this, List.append_assoc]

theorem padTo_nil (n : Nat) : padTo n [] = List.replicate n 1 := by simp [padTo]

/-- the padded, leading-aligned definition and the trailing-aligned recursion agree -/
theorem broadcastShapes_eq_bcastRev : ∀ (k : Nat) (a b : Shape), a.length + b.length = k →
    broadcastShapes a b = (bcastRev a.reverse b.reverse).map List.reverse := by
  intro k
  induction k using Nat.strongRecOn with
  | ind k ih =>
    intro a b hk
    rcases List.eq_nil_or_concat a with rfl | ⟨a', x, ha⟩
    · unfold broadcastShapes
      simp only [List.length_nil, Nat.zero_max, padTo_nil, padTo_self, List.reverse_nil]
      rw [bzip_ones_left]
      cases hb : b.reverse <;> simp [bcastRev, ← hb]
    · rw [List.concat_eq_append] at ha
      subst ha
      rcases List.eq_nil_or_concat b with rfl | ⟨b', y, hb⟩
      · rw [broadcastShapes_comm]
        unfold broadcastShapes
        simp only [List.length_nil, Nat.zero_max, padTo_nil, padTo_self, List.reverse_nil]
        rw [bzip_ones_left]
        simp only [List.reverse_append, List.reverse_cons, List.reverse_nil, List.nil_append, List.singleton_append, bcastRev]
        simp
      · rw [List.concat_eq_append] at hb
        subst hb
        have hlen : max (a' ++ [x]).length (b' ++ [y]).length = max a'.length b'.length + 1 := by
          simp only [List.length_append, List.length_cons, List.length_nil]; omega
        have ih' := ih (a'.length + b'.length) (by simp at hk; omega) a' b' rfl
        unfold broadcastShapes at ih' ⊢
        simp only at ih' ⊢
        rw [hlen, padTo_snoc _ a' x (by have := Nat.le_max_left a'.length b'.length; omega),
          padTo_snoc _ b' y (by have := Nat.le_max_right a'.length b'.length; omega),
          bzip_snoc _ _ x y (by rw [padTo_length (Nat.le_max_left _ _), padTo_length (Nat.le_max_right _ _)]), ih']
        simp only [List.reverse_append, List.reverse_cons, List.reverse_nil, List.nil_append, List.singleton_append, bcastRev]
        cases bcastRev a'.reverse b'.reverse <;> cases bdim x y <;> simp

theorem mergeRev_ones : ∀ (n : Nat) (s : List Nat), s.length ≤ n →
    mergeRev (List.replicate n 1) s = some (s ++ List.replicate (n - s.length) 1)
  | n, [], _ => by simp [mergeRev]
  | 0, _ :: _, h => by simp at h
  | n + 1, y :: ys, h => by
    simp only [List.replicate_succ, mergeRev, List.length_cons]
    rw [mergeRev_ones n ys (by simpa using h), merge1_eq_bdim]
    have : bdim 1 y = some y := by unfold bdim; by_cases h : 1 = y <;> simp [h]
    simp [this]

theorem mergeRev_pad : ∀ (xs ys : List Nat),
    mergeRev (xs ++ List.replicate (max xs.length ys.length - xs.length) 1) ys = bcastRev xs ys
  | [], ys => by
    simp only [List.nil_append, List.length_nil, Nat.zero_max, Nat.sub_zero]
    rw [mergeRev_ones _ ys (Nat.le_refl _)]
    cases ys <;> simp [bcastRev]
  | x :: xs, [] => by simp [mergeRev, bcastRev]
  | x :: xs, y :: ys => by
    simp only [List.cons_append, List.length_cons, mergeRev, bcastRev]
    have : max (xs.length + 1) (ys.length + 1) - (xs.length + 1) = max xs.length ys.length - xs.length := by omega
    rw [this, mergeRev_pad xs ys, merge1_eq_bdim]

/-! ### facts used for `LieTensor.add` -/

theorem bdim_absorb {a b d : Nat} (h : bdim a b = some d) : bdim b d = some d := by
  have := bdim_some h
  unfold bdim
  by_cases h1 : b = d
  · simp [h1]
  · have hb : b = 1 := by omega
    subst hb
    simp [h1]

theorem bzip_absorb : ∀ {p q r : Shape}, bzip p q = some r → bzip q r = some r
  | [], [], r, h => by simp [bzip] at h; subst h; simp [bzip]
  | [], _ :: _, _, h => by simp [bzip] at h
  | _ :: _, [], _, h => by simp [bzip] at h
  | a :: as, b :: bs, r, h => by
    simp only [bzip] at h
    split at h
    · rename_i d r' hd hr
      simp at h; subst h
      simp [bzip, bdim_absorb hd, bzip_absorb hr]
    · simp at h

theorem broadcastShapes_absorb {a b out : Shape} (h : broadcastShapes a b = some out) :
    broadcastShapes b out = some out := by
  unfold broadcastShapes at h ⊢
  simp only at h ⊢
  have hl := (bzip_length h).1
  rw [padTo_length (Nat.le_max_left _ _)] at hl
  have hb : b.length ≤ out.length := by have := Nat.le_max_right a.length b.length; omega
  have e : max b.length out.length = out.length := Nat.max_eq_right hb
  rw [e]
  have e2 : padTo out.length out = out := padTo_self out
  rw [e2]
  have := bzip_absorb h
  rw [← hl] at this
  exact this

theorem projEq_self : ∀ {s : Shape} {i : List Nat}, inb s i → projEq s i = i
  | [], [], _ => rfl
  | [], _ :: _, h => by simp [inb] at h
  | _ :: _, [], h => by simp [inb] at h
  | n :: s, j :: is, h => by
    simp only [inb] at h
    simp only [projEq, projEq_self h.2]
    by_cases hn : n = 1
    · simp [hn]; omega
    · simp [hn]

theorem proj_self {s : Shape} {i : List Nat} (h : inb s i) : proj s i = i := by
  unfold proj
  rw [inb_length h]
  simp [projEq_self h]

/-! ### `getD` helpers -/

theorem getD_of_lt {l : List Nat} {k : Nat} (h : k < l.length) : l.getD k 0 = l[k] := by
  simp [List.getD_eq_getElem?_getD, List.getElem?_eq_getElem h]

theorem getD_set (l : List Nat) (d k v : Nat) :
    (l.set d v).getD k 0 = if d = k ∧ d < l.length then v else l.getD k 0 := by
  simp only [List.getD_eq_getElem?_getD, List.getElem?_set]
  by_cases h : d = k
  · subst h
    by_cases h2 : d < l.length
    · simp [h2]
    · simp [h2]
  · simp [h]

theorem getD_modify (l : List Nat) (d k : Nat) (f : Nat → Nat) (hk : k < l.length) :
    (l.modify d f).getD k 0 = if d = k then f (l.getD k 0) else l.getD k 0 := by
  simp only [List.getD_eq_getElem?_getD, List.getElem?_modify, List.getElem?_eq_getElem hk]
  by_cases h : d = k <;> simp [h]

/-! ### validity of the single-input steps: the map sends valid output indices to valid input indices -/

theorem reshape_inb {s s' : Shape} (h : numel s' = numel s) {i : List Nat} (hi : inb s' i) :
    inb s (unravel s (ravel s' i)) := by
  apply unravel_inb
  rw [← h]; exact ravel_lt hi

theorem isPerm_spec {p : List Nat} {n : Nat} (h : isPerm p n = true) :
    p.length = n ∧ ∀ a, a < n → a ∈ p := by
  unfold isPerm at h
  simp only [Bool.and_eq_true, beq_iff_eq, List.all_eq_true, List.mem_range] at h
  refine ⟨h.1, fun a ha => ?_⟩
  have := h.2 a ha
  exact List.contains_iff_mem.mp this

theorem permute_inb {s : Shape} {p : List Nat} (hp : isPerm p s.length = true) {i : List Nat}
    (hi : inb (p.map (fun a => s.getD a 0)) i) : inb s (unpermute p i) := by
  obtain ⟨hlen, hmem⟩ := isPerm_spec hp
  rw [inb_iff] at hi ⊢
  obtain ⟨hil, hik⟩ := hi
  simp only [List.length_map] at hil hik
  refine ⟨by simp [unpermute, hlen], ?_⟩
  intro k hk
  have hkm := hmem k hk
  have hm : p.idxOf k < p.length := List.idxOf_lt_length_of_mem hkm
  have hpk : p[p.idxOf k] = k := List.getElem_idxOf hm
  have e1 : (unpermute p i).getD k 0 = i.getD (p.idxOf k) 0 := by
    unfold unpermute
    simp only [List.getD_eq_getElem?_getD, List.getElem?_map]
    rw [List.getElem?_range (by omega)]
    simp
  rw [e1]
  have h2 := hik (p.idxOf k) hm
  have e2 : (p.map (fun a => s.getD a 0)).getD (p.idxOf k) 0 = s.getD k 0 := by
    simp only [List.getD_eq_getElem?_getD, List.getElem?_map, List.getElem?_eq_getElem hm, hpk]
    simp
  rw [e2] at h2
  exact h2

theorem index_inb {s : Shape} {dim : Nat} {idx : List Nat} (hd : dim < s.length)
    (hidx : idx.all (fun j => decide (j < s.getD dim 0)) = true) {i : List Nat}
    (hi : inb (s.set dim idx.length) i) : inb s (i.modify dim (fun j => idx.getD j 0)) := by
  rw [inb_iff] at hi ⊢
  obtain ⟨hil, hik⟩ := hi
  simp only [List.length_set] at hil hik
  refine ⟨by simp [List.length_modify, hil], ?_⟩
  intro k hk
  rw [getD_modify _ _ _ _ (by omega)]
  have h2 := hik k hk
  rw [getD_set] at h2
  by_cases hdk : dim = k
  · subst hdk
    simp only [hd, and_self, if_true] at h2 ⊢
    have hj : idx.getD (i.getD dim 0) 0 ∈ idx := by
      rw [getD_of_lt h2]; exact List.getElem_mem _
    have := (List.all_eq_true.mp hidx) _ hj
    simpa using this
  · simp only [hdk, false_and, if_false] at h2 ⊢
    exact h2

theorem modEq_inb : ∀ {reps sp : Shape} {i : List Nat}, reps.length = sp.length →
    inb (mulEq reps sp) i → inb sp (modEq sp i)
  | [], [], i, _, h => by
    cases i with
    | nil => simp [modEq, inb]
    | cons _ _ => simp [mulEq, inb] at h
  | [], _ :: _, _, hl, _ => by simp at hl
  | _ :: _, [], _, hl, _ => by simp at hl
  | r :: rs, n :: sp, i, hl, h => by
    cases i with
    | nil => simp [mulEq, inb] at h
    | cons j is =>
      simp only [mulEq, inb] at h
      simp only [modEq, inb]
      refine ⟨?_, modEq_inb (by simpa using hl) h.2⟩
      apply Nat.mod_lt
      rcases Nat.eq_zero_or_pos n with h0 | h0
      · subst h0; simp at h
      · exact h0

theorem mulEq_length : ∀ {reps sp : Shape}, reps.length = sp.length → (mulEq reps sp).length = sp.length
  | [], [], _ => rfl
  | [], _ :: _, hl => by simp at hl
  | _ :: _, [], hl => by simp at hl
  | _ :: rs, _ :: sp, hl => by simp [mulEq, mulEq_length (reps := rs) (sp := sp) (by simpa using hl)]

theorem repeat_inb {s reps : Shape} (h : s.length ≤ reps.length) {i : List Nat}
    (hi : inb (mulEq reps (padTo reps.length s)) i) :
    inb s ((modEq (padTo reps.length s) i).drop (reps.length - s.length)) := by
  have hl : reps.length = (padTo reps.length s).length := (padTo_length h).symm
  have h1 := modEq_inb hl hi
  unfold padTo at h1 ⊢
  exact inb_replicate_drop _ _ _ h1

/-- every step maps valid output indices to valid input indices -/
theorem step_inb {s s' : Shape} {st : Step} {g : List Nat → List Nat} (h : st.apply s = some (s', g))
    {i : List Nat} (hi : inb s' i) : inb s (g i) := by
  cases st with
  | reshape t =>
    simp only [Step.apply] at h
    split at h
    · rename_i hn
      simp only [Option.some.injEq, Prod.mk.injEq] at h
      obtain ⟨rfl, rfl⟩ := h
      exact reshape_inb hn hi
    · simp at h
  | permute p =>
    simp only [Step.apply] at h
    split at h
    · rename_i hp
      simp only [Option.some.injEq, Prod.mk.injEq] at h
      obtain ⟨rfl, rfl⟩ := h
      exact permute_inb hp hi
    · simp at h
  | index dim idx =>
    simp only [Step.apply] at h
    split at h
    · rename_i hc
      simp only [Option.some.injEq, Prod.mk.injEq] at h
      obtain ⟨rfl, rfl⟩ := h
      exact index_inb hc.1 hc.2 hi
    · simp at h
  | expand t =>
    simp only [Step.apply] at h
    split at h
    · rename_i hc
      simp only [Option.some.injEq, Prod.mk.injEq] at h
      obtain ⟨rfl, rfl⟩ := h
      exact proj_inb_left hc.1 hi
    · simp at h
  | repeat_ reps =>
    simp only [Step.apply] at h
    split at h
    · rename_i hc
      simp only [Option.some.injEq, Prod.mk.injEq] at h
      obtain ⟨rfl, rfl⟩ := h
      exact repeat_inb hc hi
    · simp at h

/-! ### several inputs -/

theorem locate_spec : ∀ (ls : List Nat) (j : Nat), j < ls.sum →
    (locate ls j).1 < ls.length ∧ (locate ls j).2 < ls.getD (locate ls j).1 0 ∧
    j = (ls.take (locate ls j).1).sum + (locate ls j).2
  | [], j, h => by simp at h
  | l :: ls, j, h => by
    simp only [locate]
    by_cases hj : j < l
    · simp [hj]
    · simp only [hj, if_false]
      have h' : j - l < ls.sum := by simp only [List.sum_cons] at h; omega
      obtain ⟨h1, h2, h3⟩ := locate_spec ls (j - l) h'
      refine ⟨by simpa using h1, by simpa using h2, ?_⟩
      simp only [List.take_succ_cons, List.sum_cons]
      omega

theorem getD_map_shape (ss : List Shape) (dim t : Nat) (ht : t < ss.length) :
    (ss.map (fun s => s.getD dim 0)).getD t 0 = (ss.getD t []).getD dim 0 := by
  simp [List.getD_eq_getElem?_getD, List.getElem?_map, List.getElem?_eq_getElem ht]

theorem cat_valid {ss : List Shape} {dim : Nat} {out : Shape} {g : List Nat → Nat × List Nat}
    (h : catMap ss dim = some (out, g)) {i : List Nat} (hi : inb out i) :
    (g i).1 < ss.length ∧ inb (ss.getD (g i).1 []) (g i).2 := by
  cases ss with
  | nil => simp [catMap] at h
  | cons s0 rest =>
    simp only [catMap] at h
    split at h
    · rename_i hc
      obtain ⟨hd, hall⟩ := hc
      simp only [Option.some.injEq, Prod.mk.injEq] at h
      obtain ⟨rfl, rfl⟩ := h
      generalize hss : (s0 :: rest) = ss at *
      rw [inb_iff] at hi
      obtain ⟨hil, hik⟩ := hi
      simp only [List.length_set] at hil hik
      have hdim := hik dim hd
      rw [getD_set] at hdim
      simp only [hd, and_self, if_true] at hdim
      obtain ⟨h1, h2, _⟩ := locate_spec _ _ hdim
      simp only [List.length_map] at h1
      refine ⟨h1, ?_⟩
      simp only
      rw [getD_map_shape ss dim _ h1] at h2
      have hmem : ss.getD (locate (ss.map fun s => s.getD dim 0) (i.getD dim 0)).1 [] ∈ ss := by
        rw [List.getD_eq_getElem?_getD, List.getElem?_eq_getElem h1]; simp
      have hprop := (List.all_eq_true.mp hall) _ hmem
      simp only [Bool.and_eq_true, beq_iff_eq] at hprop
      obtain ⟨hlen, hset⟩ := hprop
      generalize ss.getD (locate (ss.map fun s => s.getD dim 0) (i.getD dim 0)).1 [] = st at *
      generalize (locate (ss.map fun s => s.getD dim 0) (i.getD dim 0)).2 = r at *
      rw [inb_iff]
      refine ⟨by simp [List.length_set, hil, hlen], ?_⟩
      intro k hk
      rw [getD_set]
      by_cases hdk : dim = k
      · subst hdk
        have : dim < i.length := by omega
        simp only [this, and_self, if_true]
        exact h2
      · simp only [hdk, false_and, if_false]
        have h3 := hik k (by omega)
        rw [getD_set] at h3
        simp only [hdk, false_and, if_false] at h3
        have e : st.getD k 0 = s0.getD k 0 := by
          have := congrArg (fun l => l.getD k 0) hset
          simp only [getD_set, hdk, false_and, if_false] at this
          exact this
        rw [e]; exact h3
    · simp at h

theorem overwrite_valid {s : Shape} {dim : Nat} {idx : List Nat} {out : Shape} {g : List Nat → Nat × List Nat}
    (h : overwriteMap s dim idx = some (out, g)) {i : List Nat} (hi : inb out i) :
    out = s ∧ (((g i).1 = 0 ∧ (g i).2 = i ∧ ¬ i.getD dim 0 ∈ idx) ∨
      ((g i).1 = 1 ∧ inb (s.set dim idx.length) (g i).2 ∧ idx.getD ((g i).2.getD dim 0) 0 = i.getD dim 0 ∧
        ∀ k, k ≠ dim → (g i).2.getD k 0 = i.getD k 0)) := by
  simp only [overwriteMap] at h
  split at h
  · rename_i hc
    obtain ⟨hd, _, _⟩ := hc
    simp only [Option.some.injEq, Prod.mk.injEq] at h
    obtain ⟨rfl, rfl⟩ := h
    refine ⟨rfl, ?_⟩
    by_cases hm : idx.contains (i.getD dim 0) = true
    · right
      simp only [hm, if_true]
      have hmem : i.getD dim 0 ∈ idx := List.contains_iff_mem.mp hm
      have hlt : idx.idxOf (i.getD dim 0) < idx.length := List.idxOf_lt_length_of_mem hmem
      rw [inb_iff] at hi ⊢
      obtain ⟨hil, hik⟩ := hi
      have hdi : dim < i.length := by omega
      refine ⟨trivial, ⟨by simp [List.length_set, hil], ?_⟩, ?_, ?_⟩
      · intro k hk
        simp only [List.length_set] at hk
        rw [getD_set, getD_set]
        by_cases hdk : dim = k
        · subst hdk; simp only [hd, hdi, and_self, if_true]; exact hlt
        · simp only [hdk, false_and, if_false]; exact hik k hk
      · rw [getD_set]; simp only [hdi, and_self, if_true]
        rw [getD_of_lt hlt]; exact List.getElem_idxOf hlt
      · intro k hk
        rw [getD_set]; simp [Ne.symm hk]
    · left
      simp only [hm, Bool.false_eq_true, if_false]
      refine ⟨trivial, trivial, ?_⟩
      intro hmem; exact hm (List.contains_iff_mem.mpr hmem)
  · simp at h

theorem gather_valid {s si : Shape} {dim : Nat} {index : Nat → Nat} {out : Shape} {g : List Nat → List Nat}
    (h : gatherMap s si dim index = some (out, g)) {i : List Nat} (hi : inb out i) :
    out = si ∧ inb s (g i) ∧ (g i).getD dim 0 = index (ravel si i) ∧ ∀ k, k ≠ dim → (g i).getD k 0 = i.getD k 0 := by
  simp only [gatherMap] at h
  split at h
  · rename_i hc
    obtain ⟨hd, hlen, hle, hidx⟩ := hc
    simp only [Option.some.injEq, Prod.mk.injEq] at h
    obtain ⟨rfl, rfl⟩ := h
    have hr := ravel_lt hi
    have hix : index (ravel si i) < s.getD dim 0 := by
      have := (List.all_eq_true.mp hidx) (ravel si i) (List.mem_range.mpr hr)
      simpa using this
    rw [inb_iff] at hi
    obtain ⟨hil, hik⟩ := hi
    have hdi : dim < i.length := by omega
    refine ⟨rfl, ?_, ?_, ?_⟩
    · rw [inb_iff]
      refine ⟨by simp [List.length_set]; omega, ?_⟩
      intro k hk
      rw [getD_set]
      by_cases hdk : dim = k
      · subst hdk; simp only [hdi, and_self, if_true]; exact hix
      · simp only [hdk, false_and, if_false]
        have h1 := hik k (by omega)
        have h2 := (List.all_eq_true.mp hle) k (List.mem_range.mpr hk)
        simp only [Bool.or_eq_true, beq_iff_eq, decide_eq_true_eq] at h2
        rcases h2 with h2 | h2
        · exact absurd h2.symm hdk
        · omega
    · rw [getD_set]; simp [hdi]
    · intro k hk; rw [getD_set]; simp [Ne.symm hk]
  · simp at h

theorem scatter_valid {s si ssrc : Shape} {dim : Nat} {index : Nat → Nat} (hd : dim < s.length)
    (hsi : si.length = s.length) (hsrc : ssrc.length = s.length)
    (hle : ∀ k, k < s.length → si.getD k 0 ≤ ssrc.getD k 0) {i : List Nat} (hi : inb s i) :
    ((scatterMap s si dim index i).1 = 0 ∧ (scatterMap s si dim index i).2 = i) ∨
    ((scatterMap s si dim index i).1 = 1 ∧ inb ssrc (scatterMap s si dim index i).2 ∧
      inb si (scatterMap s si dim index i).2 ∧
      index (ravel si (scatterMap s si dim index i).2) = i.getD dim 0 ∧
      ∀ k, k ≠ dim → (scatterMap s si dim index i).2.getD k 0 = i.getD k 0) := by
  unfold scatterMap
  simp only
  split
  · rename_i p hin hhit
    right
    have hp := List.mem_of_find?_eq_some hhit
    have hpred := List.find?_some hhit
    simp only [List.mem_range] at hp
    simp only [beq_iff_eq] at hpred
    rw [inb_iff] at hi
    obtain ⟨hil, hik⟩ := hi
    have hdi : dim < i.length := by omega
    have hall := List.all_eq_true.mp hin
    have hcoord : ∀ k, k < s.length → k ≠ dim → i.getD k 0 < si.getD k 0 := by
      intro k hk hne
      have := hall k (List.mem_range.mpr hk)
      simp only [Bool.or_eq_true, beq_iff_eq, decide_eq_true_eq] at this
      rcases this with h | h
      · exact absurd h hne
      · exact h
    have hinb_si : inb si (i.set dim p) := by
      rw [inb_iff]
      refine ⟨by simp [List.length_set]; omega, ?_⟩
      intro k hk
      rw [getD_set]
      by_cases hdk : dim = k
      · subst hdk; simp only [hdi, and_self, if_true]; exact hp
      · simp only [hdk, false_and, if_false]; exact hcoord k (by omega) (Ne.symm hdk)
    refine ⟨rfl, ?_, hinb_si, hpred, ?_⟩
    · show inb ssrc (i.set dim p)
      rw [inb_iff] at hinb_si ⊢
      refine ⟨by simp [List.length_set]; omega, ?_⟩
      intro k hk
      have := hinb_si.2 k (by omega)
      have := hle k (by omega)
      omega
    · intro k hk
      show (i.set dim p).getD k 0 = i.getD k 0
      rw [getD_set]; simp [Ne.symm hk]
  · left; exact ⟨rfl, rfl⟩

/-! ### `retain_ltype` -/
namespace Retain

theorem patch_other : ∀ (fs : List Fn) (t : Table) (q : Nat), (∀ f ∈ fs, home f ≠ q) → patch t fs q = t q
  | [], _, _, _ => rfl
  | f :: fs, t, q, h => by
    simp only [patch]
    rw [patch_other fs _ q (fun g hg => h g (List.mem_cons_of_mem _ hg))]
    have := h f (List.mem_cons_self)
    simp [Table.set, Ne.symm this]

theorem restore_other : ∀ (fs : List Fn) (t : Table) (q : Nat), (∀ f ∈ fs, home f ≠ q) → restore t fs q = t q
  | [], _, _, _ => rfl
  | f :: fs, t, q, h => by
    simp only [restore]
    rw [restore_other fs _ q (fun g hg => h g (List.mem_cons_of_mem _ hg))]
    have := h f (List.mem_cons_self)
    simp [Table.set, Ne.symm this]

theorem restore_hit : ∀ (fs : List Fn) (t : Table) (q : Nat) (v : Fn), (∃ f ∈ fs, home f = q) →
    (∀ f ∈ fs, home f = q → f = v) → restore t fs q = v
  | [], _, _, _, h, _ => by simp at h
  | f :: fs, t, q, v, _, hall => by
    simp only [restore]
    by_cases hex : ∃ g ∈ fs, home g = q
    · exact restore_hit fs _ q v hex (fun g hg => hall g (List.mem_cons_of_mem _ hg))
    · have hno : ∀ g ∈ fs, home g ≠ q := fun g hg hq => hex ⟨g, hg, hq⟩
      rw [restore_other fs _ q hno]
      have hf : home f = q := by
        rename_i h
        obtain ⟨g, hg, hq⟩ := h
        rcases List.mem_cons.mp hg with rfl | hg'
        · exact hq
        · exact absurd hq (hno g hg')
      have hv := hall f List.mem_cons_self hf
      subst hv
      simp [Table.set, hf]

/-- every captured function's `(__module__, __name__)` designates the slot it was read from, or the
pypose-side slot 3 (a wrapper) — never another protected slot -/
def WellHomed (ord : List Nat) (t : Table) : Prop := ∀ s ∈ ord, home (t s) = s ∨ home (t s) = 3

theorem wellHomed_congr {ord : List Nat} (h3 : 3 ∉ ord) {t t' : Table} (h : ∀ q, q ≠ 3 → t' q = t q)
    (hw : WellHomed ord t) : WellHomed ord t' := by
  intro s hs
  have : s ≠ 3 := fun e => h3 (e ▸ hs)
  rw [h s this]; exact hw s hs

/-- patching keeps the table well homed: a written slot holds a wrapper (home 3), the others are untouched -/
theorem wellHomed_patch {ord : List Nat} : ∀ (fs : List Fn) {t : Table}, WellHomed ord t → WellHomed ord (patch t fs)
  | [], _, hw => hw
  | f :: fs, t, hw => by
    simp only [patch]
    apply wellHomed_patch fs
    intro s hs
    simp only [Table.set]
    by_cases e : s = home f
    · simp [e, home]
    · simp only [e, if_false]; exact hw s hs

theorem patch_congr : ∀ (fs : List Fn) (t t' : Table), (∀ q, q ≠ 3 → t q = t' q) → ∀ q, q ≠ 3 → patch t fs q = patch t' fs q
  | [], _, _, h, q, hq => h q hq
  | f :: fs, t, t', h, q, hq => by
    simp only [patch]
    apply patch_congr fs _ _ _ q hq
    intro q' hq'
    simp only [Table.set]
    split
    · rfl
    · exact h q' hq'

theorem restore_congr : ∀ (fs : List Fn) (t t' : Table), (∀ q, q ≠ 3 → t q = t' q) → ∀ q, q ≠ 3 → restore t fs q = restore t' fs q
  | [], _, _, h, q, hq => h q hq
  | f :: fs, t, t', h, q, hq => by
    simp only [restore]
    apply restore_congr fs _ _ _ q hq
    intro q' hq'
    simp only [Table.set]
    split
    · rfl
    · exact h q' hq'

theorem captured_congr (ord : List Nat) (h3 : 3 ∉ ord) (t t' : Table) (h : ∀ q, q ≠ 3 → t q = t' q) :
    captured t ord = captured t' ord := by
  unfold captured
  apply List.map_congr_left
  intro s hs
  exact h s (fun e => h3 (e ▸ hs))

end Retain

end PP.Batch
