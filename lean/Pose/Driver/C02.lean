import Pose.Wire
import Pose.Driver.Lie
/-! Driver ops for C02. -/
namespace PP.Driver
open PP Wire

def opsC02 : List (String × Handler) := []

end PP.Driver
