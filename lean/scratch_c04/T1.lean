import Proofs.Lemmas.Quat
import Pose.Model.Autograd
import Mathlib.Analysis.Calculus.Deriv.Mul
import Mathlib.Analysis.Calculus.Deriv.Add
import Mathlib.Tactic.FunProp
open PP PP.AD

example (X Y : ℝ → List ℝ) (dX dY : Fin 4 → ℝ)
    (hX : ∀ i : Fin 4, HasDerivAt (fun t => nth (X t) i) (dX i) 0)
    (hY : ∀ i : Fin 4, HasDerivAt (fun t => nth (Y t) i) (dY i) 0) :
    HasDerivAt (fun t => nth (mulF .SO3 (X t) (Y t)) 0)
      (nth (X 0) 3 * dY 0 + dX 3 * nth (Y 0) 0 + (nth (X 0) 0 * dY 3 + dX 0 * nth (Y 0) 3)
        + ((nth (X 0) 1 * dY 2 + dX 1 * nth (Y 0) 2) - (nth (X 0) 2 * dY 1 + dX 2 * nth (Y 0) 1))) 0 := by
  have hX0 := hX 0; have hX1 := hX 1; have hX2 := hX 2; have hX3 := hX 3
  have hY0 := hY 0; have hY1 := hY 1; have hY2 := hY 2; have hY3 := hY 3
  simp only [Fin.isValue, Fin.val_zero, Fin.val_one, Fin.val_two] at *
  have e : (fun t => nth (mulF .SO3 (X t) (Y t)) 0) = fun t =>
      nth (X t) 3 * nth (Y t) 0 + nth (X t) 0 * nth (Y t) 3 + (nth (X t) 1 * nth (Y t) 2 - nth (X t) 2 * nth (Y t) 1) := by
    funext t; simp [mulF, Quat.toList, Quat.mul, qt, nth]
  rw [e]
  have := ((hX3.mul hY0).add (hX0.mul hY3)).add ((hX1.mul hY2).sub (hX2.mul hY1))
  convert this using 1
  simp; ring
