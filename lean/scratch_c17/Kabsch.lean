import Proofs.Lemmas.Align
namespace PP
open Vec3 Quat Mat3 Align

/-! ## the trace inequality behind Kabsch / Umeyama -/

theorem Mat3.IsRot.trace_ge {P : Mat3 ℝ} (h : Mat3.IsRot P) : -1 ≤ P.trace := by
  have H := h.rotEqs
  -- 4·t₃ = t₃² + ‖antisymmetric part‖²  with t₃ = 1 + tr P
  have key : 4 * (1 + P.r0.x + P.r1.y + P.r2.z) = (1 + P.r0.x + P.r1.y + P.r2.z) ^ 2 + (P.r2.y - P.r1.z) ^ 2
      + (P.r0.z - P.r2.x) ^ 2 + (P.r1.x - P.r0.y) ^ 2 := by
    linear_combination (-1 : ℝ) * H.hr00 + (-1 : ℝ) * H.hr11 + (-1 : ℝ) * H.hr22 + (-2 : ℝ) * H.ha00
      + (-2 : ℝ) * H.ha11 + (-2 : ℝ) * H.ha22
  simp only [Mat3.trace]
  nlinarith [sq_nonneg (1 + P.r0.x + P.r1.y + P.r2.z), sq_nonneg (P.r2.y - P.r1.z), sq_nonneg (P.r0.z - P.r2.x),
    sq_nonneg (P.r1.x - P.r0.y)]

theorem Mat3.trace_neg (A : Mat3 ℝ) : A.neg.trace = -A.trace := by lie_unfold; ring

/-- an orthogonal matrix with determinant `-1` has trace `≤ 1` -/
theorem Mat3.IsOrth.trace_le_of_det_neg {Q : Mat3 ℝ} (h : Mat3.IsOrth Q) (hd : Q.det = -1) : Q.trace ≤ 1 := by
  have hP : Mat3.IsRot Q.neg := ⟨h.neg, by rw [Mat3.det_neg, hd]; ring⟩
  have := hP.trace_ge
  rw [Mat3.trace_neg] at this
  linarith

/-- **von Neumann / Kabsch trace inequality, 3×3**: for orthogonal `Q` and `s₁ ≥ s₂ ≥ s₃ ≥ 0`,
`Σ Q_ii s_i ≤ s₁ + s₂ + det(Q)·s₃`. -/
theorem kabsch_ineq (Q : Mat3 ℝ) (hQ : Mat3.IsOrth Q) (s : Vec3 ℝ) (h12 : s.y ≤ s.x) (h23 : s.z ≤ s.y)
    (h3 : 0 ≤ s.z) : Q.r0.x * s.x + Q.r1.y * s.y + Q.r2.z * s.z ≤ s.x + s.y + Q.det * s.z := by
  obtain ⟨a1, a2, a3, b1, b2, b3⟩ := hQ.diag_le
  rcases hQ.det_cases with hd | hd
  · rw [hd]; nlinarith [mul_nonneg (sub_nonneg.mpr a1) (le_trans h3 (le_trans h23 h12)),
      mul_nonneg (sub_nonneg.mpr a2) (le_trans h3 h23), mul_nonneg (sub_nonneg.mpr a3) h3]
  · have ht := hQ.trace_le_of_det_neg hd
    simp only [Mat3.trace] at ht
    rw [hd]
    nlinarith [mul_nonneg (sub_nonneg.mpr a1) (sub_nonneg.mpr (le_trans h23 h12)),
      mul_nonneg (sub_nonneg.mpr a2) (sub_nonneg.mpr h23), mul_nonneg (sub_nonneg.mpr ht) h3]

/-- pairing with an SVD: `⟨R, U diag(s) Vh⟩ = Σ (Uᵀ R Vhᵀ)_ii s_i` (no orthogonality needed) -/
theorem frob_svd (R U Vh : Mat3 ℝ) (s : Vec3 ℝ) :
    Mat3.frob R ((U.mul (diag3 s)).mul Vh) =
      ((U.transpose.mul R).mul Vh.transpose).r0.x * s.x + ((U.transpose.mul R).mul Vh.transpose).r1.y * s.y
        + ((U.transpose.mul R).mul Vh.transpose).r2.z * s.z := by
  simp only [Mat3.frob, diag3]; lie_unfold; ring

/-- the SVD contract at one matrix -/
structure SVDOk (M : Mat3 ℝ) (d : SVD3 ℝ) : Prop where
  recon : (d.U.mul (diag3 d.S)).mul d.Vh = M
  orthU : Mat3.IsOrth d.U
  orthV : Mat3.IsOrth d.Vh
  s12 : d.S.y ≤ d.S.x
  s23 : d.S.z ≤ d.S.y
  s3 : 0 ≤ d.S.z

theorem flipLastCol_eq (U : Mat3 ℝ) : flipLastCol U = U.mul (diag3 ⟨1, 1, -1⟩) := by
  simp only [flipLastCol, diag3]; mat3_ext <;> lie_unfold <;> ring

theorem isOrth_diagF : Mat3.IsOrth (diag3 (⟨1, 1, -1⟩ : Vec3 ℝ)) := by
  simp only [Mat3.IsOrth, diag3]; mat3_ext <;> lie_unfold <;> ring

theorem det_diag3 (s : Vec3 ℝ) : (diag3 s).det = s.x * s.y * s.z := by
  simp only [diag3]; lie_unfold; ring

/-- the rotation chosen by `svdtf` for given SVD factors: `U'·Vh`, last column of `U` negated iff `det(U Vh) < 0` -/
noncomputable def rotOf (d : SVD3 ℝ) : Mat3 ℝ :=
  (if (d.U.mul d.Vh).det < 0 then flipLastCol d.U else d.U).mul d.Vh

theorem svdtfRot_eq (svd : Mat3 ℝ → SVD3 ℝ) (detK : Mat3 ℝ → ℝ) (hdet : ∀ M, detK M = M.det) (M : Mat3 ℝ) :
    svdtfRot svd detK M = rotOf (svd M) := by
  simp only [svdtfRot, rotOf, hdet, lt_real, k_real, Nat.cast_zero, decide_eq_true_eq]

/-- `rotOf` is a proper rotation (whatever the sign of `det(U Vh)`) -/
theorem rotOf_isRot (d : SVD3 ℝ) (hU : Mat3.IsOrth d.U) (hV : Mat3.IsOrth d.Vh) : Mat3.IsRot (rotOf d) := by
  have hUV := hU.mul hV
  unfold rotOf
  split_ifs with hneg
  · rw [flipLastCol_eq]
    refine ⟨(hU.mul isOrth_diagF).mul hV, ?_⟩
    rcases hUV.det_cases with h1 | h1
    · rw [h1] at hneg; norm_num at hneg
    · rw [Mat3.det_mul] at h1
      rw [Mat3.det_mul, Mat3.det_mul, det_diag3]; simp only []; linarith
  · refine ⟨hUV, ?_⟩
    rcases hUV.det_cases with h1 | h1
    · exact h1
    · rw [h1] at hneg; norm_num at hneg

/-- value of the pairing at the chosen rotation: `s₁ + s₂ + det(U Vh)·s₃` -/
theorem frob_rotOf (M : Mat3 ℝ) (d : SVD3 ℝ) (h : SVDOk M d) :
    Mat3.frob (rotOf d) M = d.S.x + d.S.y + (d.U.mul d.Vh).det * d.S.z := by
  have hU := h.orthU.tmul
  have hV : d.Vh.mul d.Vh.transpose = Mat3.one := h.orthV
  have hUV := h.orthU.mul h.orthV
  conv_lhs => rw [← h.recon]
  rw [frob_svd]
  unfold rotOf
  split_ifs with hneg
  · have hd : (d.U.mul d.Vh).det = -1 := by
      rcases hUV.det_cases with h1 | h1
      · rw [h1] at hneg; norm_num at hneg
      · exact h1
    have : (d.U.transpose.mul ((flipLastCol d.U).mul d.Vh)).mul d.Vh.transpose = diag3 ⟨1, 1, -1⟩ := by
      rw [flipLastCol_eq, Mat3.mul_assoc', Mat3.mul_assoc', Mat3.mul_assoc', hV, Mat3.mul_one', ← Mat3.mul_assoc',
        hU, Mat3.one_mul']
    rw [this, hd]; simp only [diag3]; ring
  · have hd : (d.U.mul d.Vh).det = 1 := by
      rcases hUV.det_cases with h1 | h1
      · exact h1
      · rw [h1] at hneg; norm_num at hneg
    have : (d.U.transpose.mul (d.U.mul d.Vh)).mul d.Vh.transpose = Mat3.one := by
      rw [Mat3.mul_assoc', Mat3.mul_assoc', hV, Mat3.mul_one', hU]
    rw [this, hd]; lie_unfold; ring

/-- **the chosen rotation maximises `⟨R, M⟩` over all proper rotations** -/
theorem frob_le_rotOf (M : Mat3 ℝ) (d : SVD3 ℝ) (h : SVDOk M d) (R' : Mat3 ℝ) (hR' : Mat3.IsRot R') :
    Mat3.frob R' M ≤ Mat3.frob (rotOf d) M := by
  rw [frob_rotOf M d h]
  conv_lhs => rw [← h.recon]
  rw [frob_svd]
  have hQ : Mat3.IsOrth ((d.U.transpose.mul R').mul d.Vh.transpose) :=
    (h.orthU.transpose.mul hR'.1).mul h.orthV.transpose
  have hdet : ((d.U.transpose.mul R').mul d.Vh.transpose).det = (d.U.mul d.Vh).det := by
    rw [Mat3.det_mul, Mat3.det_mul, Mat3.det_mul, Mat3.det_transpose, Mat3.det_transpose, hR'.2]; ring
  have := kabsch_ineq _ hQ d.S h.s12 h.s23 h.s3
  rw [hdet] at this
  exact this

end PP
