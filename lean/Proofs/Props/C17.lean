import Proofs.Lemmas.Align
/-!
# C17 — point-set alignment: `svdtf`, `svdstf`, ICP

Property theorems only (helpers: `Proofs/Lemmas/Align.lean`).  The model is `Pose/Model/Align.lean`.
External kernels enter as hypotheses: `SVDOk M (svd M)` (the contract of `torch.linalg.svd` at the matrix the
code decomposes), `detK = det`, and for ICP the nearest-neighbour contract `NNOk`.
-/
namespace PP.C17
open PP Vec3 Quat Mat3 Align

/-! ## `svdtf` -/

/-- **Trace identity** (DESIGN §5 C17): for a symmetric `A` and *any* quaternion `z = (v, w)` (the code's rotation
formula `R(z) = 1 + 2w[v]× + 2[v]×²`), `tr A − tr(A·R(z)) = 2 vᵀ(tr(A)·1 − A) v`. -/
theorem trace_rotation_identity (A : Mat3 ℝ) (hA : A.transpose = A) (z : Quat ℝ) :
    A.trace - (A.mul (SO3matrix z)).trace
      = 2 * z.vec.dot ((Mat3.sub (Mat3.smul A.trace Mat3.one) A).mulVec z.vec) := by
  have e : ∀ (X Y : Mat3 ℝ), X = Y → X.r0.y = Y.r0.y ∧ X.r0.z = Y.r0.z ∧ X.r1.z = Y.r1.z := by
    intro X Y h; subst h; simp
  obtain ⟨h01, h02, h12⟩ := e _ _ hA
  revert h01 h02 h12
  unfold SO3matrix; lie_unfold
  intro h01 h02 h12
  linear_combination (2 * z.w * z.z) * h01 + (-2 * z.w * z.y) * h02 + (2 * z.w * z.x) * h12

/-- the rigid map of an `SE3` element is the affine map of its rotation matrix and translation -/
theorem SE3Act_eq_affine (X : SE3 ℝ) : SE3Act X = affine (SO3matrix X.q) X.t := by
  funext p
  simp only [SE3Act, affine, SO3matrix_mulVec]
  apply Vec3.ext' <;> simp only [Vec3.add] <;> ring

/-- **`svdtf` returns a proper rigid transform**: under the SVD contract the rotation block `U'·Vh` is orthogonal
with determinant `+1` whatever the sign of `det(U Vh)`, the returned quaternion has unit norm and its rotation
matrix is exactly that block (the branch-selected conversion inverts `matrix()` on *every* proper rotation),
the translation is `c_target − R c_source`. -/
theorem svdtf_proper (svd : Mat3 ℝ → SVD3 ℝ) (detK : Mat3 ℝ → ℝ) (hdet : ∀ M, detK M = M.det) (atol : ℝ)
    (ha : |atol| < 1) (ps : Pairs ℝ) (h : SVDOk (crossCov (centered ps)) (svd (crossCov (centered ps)))) :
    (svdtf svd detK atol ps).q.normSq = 1 ∧
    Mat3.IsRot (SO3matrix (svdtf svd detK atol ps).q) ∧
    SO3matrix (svdtf svd detK atol ps).q = rotOf (svd (crossCov (centered ps))) ∧
    (svdtf svd detK atol ps).t
      = (mean (tgts ps)).sub ((rotOf (svd (crossCov (centered ps)))).mulVec (mean (srcs ps))) := by
  have hrot := rotOf_isRot _ h.orthU h.orthV
  have hq := mat2SO3Raw_of_rotation _ hrot atol ha
  simp only [svdtf, svdtfMat, svdtfRot_eq svd detK hdet]
  exact ⟨hq.1, by rw [hq.2]; exact hrot, hq.2, trivial⟩

/-- cost of `svdtf`'s result in closed form: `Σ‖s̃‖² + Σ‖t̃‖² − 2(s₁ + s₂ + det(U Vh)·s₃)` -/
theorem svdtf_cost (svd : Mat3 ℝ → SVD3 ℝ) (detK : Mat3 ℝ → ℝ) (hdet : ∀ M, detK M = M.det) (atol : ℝ)
    (ha : |atol| < 1) (ps : Pairs ℝ) (h : SVDOk (crossCov (centered ps)) (svd (crossCov (centered ps)))) :
    cost (SE3Act (svdtf svd detK atol ps)) ps
      = energyS (centered ps) + energyT (centered ps)
        - 2 * ((svd (crossCov (centered ps))).S.x + (svd (crossCov (centered ps))).S.y
            + ((svd (crossCov (centered ps))).U.mul (svd (crossCov (centered ps))).Vh).det
              * (svd (crossCov (centered ps))).S.z) := by
  obtain ⟨_, hrot, hm, ht⟩ := svdtf_proper svd detK hdet atol ha ps h
  rw [SE3Act_eq_affine, cost_affine_centered, cost_expand _ hrot.1, hm, ht, frob_rotOf _ _ h]
  have : ((((rotOf (svd (crossCov (centered ps)))).mulVec (mean (srcs ps))).add
      ((mean (tgts ps)).sub ((rotOf (svd (crossCov (centered ps)))).mulVec (mean (srcs ps))))).sub
      (mean (tgts ps))).normSq = 0 := by lie_unfold; ring
  rw [this]; ring

/-- **Optimality of `svdtf`, matrix form**: its sum of squared residuals is not larger than that of *any* proper
rotation matrix `R'` with *any* translation `t'` — for every list of correspondences (any count, planar,
collinear, duplicated, 3 points, reflection-prone: no rank or sign assumption). -/
theorem svdtf_optimal_mat (svd : Mat3 ℝ → SVD3 ℝ) (detK : Mat3 ℝ → ℝ) (hdet : ∀ M, detK M = M.det) (atol : ℝ)
    (ha : |atol| < 1) (ps : Pairs ℝ) (h : SVDOk (crossCov (centered ps)) (svd (crossCov (centered ps))))
    (R' : Mat3 ℝ) (hR' : Mat3.IsRot R') (t' : Vec3 ℝ) :
    cost (SE3Act (svdtf svd detK atol ps)) ps ≤ cost (affine R' t') ps := by
  obtain ⟨_, hrot, hm, ht⟩ := svdtf_proper svd detK hdet atol ha ps h
  rw [SE3Act_eq_affine, cost_affine_centered, cost_affine_centered, cost_expand _ hrot.1, cost_expand _ hR'.1, hm, ht]
  have h0 : ((((rotOf (svd (crossCov (centered ps)))).mulVec (mean (srcs ps))).add
      ((mean (tgts ps)).sub ((rotOf (svd (crossCov (centered ps)))).mulVec (mean (srcs ps))))).sub
      (mean (tgts ps))).normSq = 0 := by lie_unfold; ring
  rw [h0]
  have h1 := frob_le_rotOf _ _ h R' hR'
  have h2 : 0 ≤ (ps.length : ℝ) * (((R'.mulVec (mean (srcs ps))).add t').sub (mean (tgts ps))).normSq :=
    mul_nonneg (Nat.cast_nonneg _) (Align.normSq_nonneg _)
  linarith

/-- **Optimality of `svdtf`** over all rigid transforms given as `SE3` elements (unit quaternion `q'`, translation
`t'`): `cost(q', t') ≥ cost(svdtf)`. -/
theorem svdtf_optimal (svd : Mat3 ℝ → SVD3 ℝ) (detK : Mat3 ℝ → ℝ) (hdet : ∀ M, detK M = M.det) (atol : ℝ)
    (ha : |atol| < 1) (ps : Pairs ℝ) (h : SVDOk (crossCov (centered ps)) (svd (crossCov (centered ps))))
    (X' : SE3 ℝ) (hX' : X'.q.normSq = 1) :
    cost (SE3Act (svdtf svd detK atol ps)) ps ≤ cost (SE3Act X') ps := by
  rw [SE3Act_eq_affine X']
  exact svdtf_optimal_mat svd detK hdet atol ha ps h _ (isRot_SO3matrix _ hX') _

/-- **Exact correspondences are reproduced exactly**: if `targetᵢ = X₀·sourceᵢ` for a rigid `X₀`, the returned
transform maps every source point onto its target (also for collinear / duplicated sources, where the
transform itself is not unique). -/
theorem svdtf_exact (svd : Mat3 ℝ → SVD3 ℝ) (detK : Mat3 ℝ → ℝ) (hdet : ∀ M, detK M = M.det) (atol : ℝ)
    (ha : |atol| < 1) (ps : Pairs ℝ) (h : SVDOk (crossCov (centered ps)) (svd (crossCov (centered ps))))
    (X₀ : SE3 ℝ) (hX₀ : X₀.q.normSq = 1) (hex : ∀ p ∈ ps, SE3Act X₀ p.1 = p.2) :
    ∀ p ∈ ps, SE3Act (svdtf svd detK atol ps) p.1 = p.2 := by
  have h0 : cost (SE3Act X₀) ps = 0 := (cost_eq_zero_iff _ _).mpr hex
  have h1 := svdtf_optimal svd detK hdet atol ha ps h X₀ hX₀
  have h2 := cost_nonneg (SE3Act (svdtf svd detK atol ps)) ps
  exact (cost_eq_zero_iff _ _).mp (by linarith)


/-! ## `svdstf` (Umeyama) -/

/-- the matrix `svdstf` decomposes: `H = target_ᵀ source_ / N` -/
noncomputable def Hmat (ps : Pairs ℝ) : Mat3 ℝ := Mat3.smul (1 / (ps.length : ℝ)) (crossCov (centered ps))

/-- the scale `svdstf` computes: `(d₁ + d₂ + sign·d₃) / var_source` -/
noncomputable def umeyamaScale (d : SVD3 ℝ) (ps : Pairs ℝ) : ℝ :=
  (d.S.x + d.S.y + (d.U.mul d.Vh).det * d.S.z) / varSource ps

theorem frob_Hmat (R : Mat3 ℝ) (ps : Pairs ℝ) :
    Mat3.frob R (Hmat ps) = 1 / (ps.length : ℝ) * Mat3.frob R (crossCov (centered ps)) := by
  rw [Hmat, Mat3.frob_smul]

/-- what `svdstf` hands to `mat2Sim3`: same rotation `rotOf` as `svdtf`, Umeyama's scale, `t = c_t − s R c_s` -/
theorem svdstfMat_eq (svd : Mat3 ℝ → SVD3 ℝ) (detK : Mat3 ℝ → ℝ) (hdet : ∀ M, detK M = M.det) (ws : Bool)
    (ps : Pairs ℝ) (h : SVDOk (Hmat ps) (svd (Hmat ps))) :
    svdstfMat svd detK ws ps =
      (if ws then umeyamaScale (svd (Hmat ps)) ps else 1, rotOf (svd (Hmat ps)),
        (mean (tgts ps)).sub ((Mat3.smul (if ws then umeyamaScale (svd (Hmat ps)) ps else 1)
          (rotOf (svd (Hmat ps)))).mulVec (mean (srcs ps)))) := by
  obtain ⟨hrot, hsg⟩ := svdstf_rot_eq (svd (Hmat ps)) h.orthU h.orthV
  have hH : Mat3.smul (k 1 / k ps.length) (crossCov (centered ps)) = Hmat ps := by
    simp only [Hmat, k_real, Nat.cast_one]
  rw [hsg] at hrot
  simp only [svdstfMat, hH, hdet, hsg]
  simp only [k_real, Nat.cast_one, one_mul, hrot, umeyamaScale]

theorem varSource_eq (ps : Pairs ℝ) : varSource ps = energyS (centered ps) * (1 / (ps.length : ℝ)) := by
  simp only [varSource, energyS, k_real, Nat.cast_one]

/-- Umeyama's scale is `⟨R*, M⟩ / Σ‖s̃‖²` with `M = Σ t̃ s̃ᵀ` -/
theorem umeyamaScale_eq (ps : Pairs ℝ) (hN : ps ≠ []) (hA : energyS (centered ps) ≠ 0) (d : SVD3 ℝ)
    (h : SVDOk (Hmat ps) d) :
    umeyamaScale d ps * energyS (centered ps) = Mat3.frob (rotOf d) (crossCov (centered ps)) := by
  have hN' : (ps.length : ℝ) ≠ 0 := by
    have : 0 < ps.length := List.length_pos_of_ne_nil hN
    positivity
  have hf := frob_rotOf (Hmat ps) d h
  rw [frob_Hmat] at hf
  unfold umeyamaScale
  rw [← hf, varSource_eq]
  field_simp

/-- **`svdstf` returns an optimal similarity transform.**  For a non-empty list of correspondences whose sources are
not all equal, under the SVD contract at `H`, if Umeyama's scale exceeds `mat2Sim3`'s rank-test threshold `atol`
(default `1e-5`; true on the property's range of scales `0.1..10`): the call does not raise, returns a valid
`Sim3` element (unit quaternion, positive scale), and its sum of squared residuals is not larger than that of
**any** similarity transform (unit quaternion, scale `≥ 0`, any translation) — jointly in rotation, scale and
translation; any point count, planar / collinear / reflection-prone configurations included. -/
theorem svdstf_optimal (svd : Mat3 ℝ → SVD3 ℝ) (detK : Mat3 ℝ → ℝ) (hdet : ∀ M, detK M = M.det) (rtol atol : ℝ)
    (hr : 0 ≤ rtol) (ha0 : 0 ≤ atol) (ha1 : atol < 1) (ps : Pairs ℝ) (hN : ps ≠ [])
    (hA : 0 < energyS (centered ps)) (h : SVDOk (Hmat ps) (svd (Hmat ps)))
    (hbig : atol < umeyamaScale (svd (Hmat ps)) ps) :
    ∃ X : Sim3 ℝ, svdstf svd detK rtol atol true ps = .ok X ∧ X.q.normSq = 1 ∧ 0 < X.s ∧
      X.s = umeyamaScale (svd (Hmat ps)) ps ∧ SO3matrix X.q = rotOf (svd (Hmat ps)) ∧
      ∀ X' : Sim3 ℝ, X'.q.normSq = 1 → 0 ≤ X'.s → cost (Sim3Act X) ps ≤ cost (Sim3Act X') ps := by
  have hrot := rotOf_isRot _ h.orthU h.orthV
  have hmat := svdstfMat_eq svd detK hdet true ps h
  simp only [if_true] at hmat
  obtain ⟨X, hX, hXt, hXs, hXq, hXm⟩ := mat2Sim3_of_scaled_rotation detK hdet rtol atol hr ha0 ha1 _ hrot _ hbig
    ((mean (tgts ps)).sub ((Mat3.smul (umeyamaScale (svd (Hmat ps)) ps) (rotOf (svd (Hmat ps)))).mulVec
      (mean (srcs ps)))) Vec3.zero 0
  refine ⟨X, ?_, hXq, by rw [hXs]; linarith, hXs, hXm, ?_⟩
  · simp only [svdstf, hmat, k_real, Nat.cast_zero]; exact hX
  intro X' hq' hs'
  have hrot' := isRot_SO3matrix _ hq'
  have hN' : (0:ℝ) < (ps.length : ℝ) := by
    have : 0 < ps.length := List.length_pos_of_ne_nil hN
    positivity
  rw [Sim3Act_eq_affine X, Sim3Act_eq_affine X', cost_affine_centered, cost_affine_centered,
    cost_expand_scaled _ (by rw [hXm]; exact hrot.1), cost_expand_scaled _ hrot'.1, hXm, hXt, hXs]
  have h0 : ((((Mat3.smul (umeyamaScale (svd (Hmat ps)) ps) (rotOf (svd (Hmat ps)))).mulVec (mean (srcs ps))).add
      ((mean (tgts ps)).sub ((Mat3.smul (umeyamaScale (svd (Hmat ps)) ps) (rotOf (svd (Hmat ps)))).mulVec
        (mean (srcs ps))))).sub (mean (tgts ps))).normSq = 0 := by lie_unfold; ring
  rw [h0]
  have hle := frob_le_rotOf _ _ h _ hrot'
  rw [frob_Hmat, frob_Hmat] at hle
  have hle' : Mat3.frob (SO3matrix X'.q) (crossCov (centered ps)) ≤
      Mat3.frob (rotOf (svd (Hmat ps))) (crossCov (centered ps)) := by
    have hpos : (0:ℝ) < 1 / (ps.length : ℝ) := by positivity
    exact le_of_mul_le_mul_left hle hpos
  have hc := umeyamaScale_eq ps hN hA.ne' _ h
  have hd' : 0 ≤ (ps.length : ℝ) * (((Mat3.smul X'.s (SO3matrix X'.q)).mulVec (mean (srcs ps))).add X'.t |>.sub
      (mean (tgts ps))).normSq := mul_nonneg hN'.le (Align.normSq_nonneg _)
  generalize umeyamaScale (svd (Hmat ps)) ps = c at hc ⊢
  generalize Mat3.frob (rotOf (svd (Hmat ps))) (crossCov (centered ps)) = m at hc hle' ⊢
  generalize Mat3.frob (SO3matrix X'.q) (crossCov (centered ps)) = m' at hle' ⊢
  generalize energyS (centered ps) = A at hA hc ⊢
  generalize energyT (centered ps) = B
  have h1 : 0 ≤ A * (X'.s - c) ^ 2 := mul_nonneg hA.le (sq_nonneg _)
  have h2 : 0 ≤ X'.s * (m - m') := mul_nonneg hs' (sub_nonneg.mpr hle')
  subst hc
  nlinarith [h1, h2, hd']

/-- **Exact similarity correspondences are reproduced exactly** by `svdstf` (scale included). -/
theorem svdstf_exact (svd : Mat3 ℝ → SVD3 ℝ) (detK : Mat3 ℝ → ℝ) (hdet : ∀ M, detK M = M.det) (rtol atol : ℝ)
    (hr : 0 ≤ rtol) (ha0 : 0 ≤ atol) (ha1 : atol < 1) (ps : Pairs ℝ) (hN : ps ≠ [])
    (hA : 0 < energyS (centered ps)) (h : SVDOk (Hmat ps) (svd (Hmat ps)))
    (hbig : atol < umeyamaScale (svd (Hmat ps)) ps)
    (X₀ : Sim3 ℝ) (hq₀ : X₀.q.normSq = 1) (hs₀ : 0 ≤ X₀.s) (hex : ∀ p ∈ ps, Sim3Act X₀ p.1 = p.2) :
    ∃ X : Sim3 ℝ, svdstf svd detK rtol atol true ps = .ok X ∧ ∀ p ∈ ps, Sim3Act X p.1 = p.2 := by
  obtain ⟨X, hX, _, _, _, _, hopt⟩ := svdstf_optimal svd detK hdet rtol atol hr ha0 ha1 ps hN hA h hbig
  refine ⟨X, hX, ?_⟩
  have h0 : cost (Sim3Act X₀) ps = 0 := (cost_eq_zero_iff _ _).mpr hex
  have h1 := hopt X₀ hq₀ hs₀
  have h2 := cost_nonneg (Sim3Act X) ps
  exact (cost_eq_zero_iff _ _).mp (by linarith)

/-- **`svdstf(with_scale=False)`** returns scale exactly 1 and the rigid optimum: not worse than any rigid transform
(unit quaternion, scale 1, any translation). -/
theorem svdstf_noscale_optimal (svd : Mat3 ℝ → SVD3 ℝ) (detK : Mat3 ℝ → ℝ) (hdet : ∀ M, detK M = M.det)
    (rtol atol : ℝ) (hr : 0 ≤ rtol) (ha0 : 0 ≤ atol) (ha1 : atol < 1) (ps : Pairs ℝ)
    (h : SVDOk (Hmat ps) (svd (Hmat ps))) :
    ∃ X : Sim3 ℝ, svdstf svd detK rtol atol false ps = .ok X ∧ X.q.normSq = 1 ∧ X.s = 1 ∧
      ∀ X' : SE3 ℝ, X'.q.normSq = 1 → cost (Sim3Act X) ps ≤ cost (SE3Act X') ps := by
  have hrot := rotOf_isRot _ h.orthU h.orthV
  have hmat := svdstfMat_eq svd detK hdet false ps h
  simp only [Bool.false_eq_true, if_false] at hmat
  obtain ⟨X, hX, hXt, hXs, hXq, hXm⟩ := mat2Sim3_of_scaled_rotation detK hdet rtol atol hr ha0 ha1 _ hrot 1 ha1
    ((mean (tgts ps)).sub ((Mat3.smul 1 (rotOf (svd (Hmat ps)))).mulVec (mean (srcs ps)))) Vec3.zero 0
  refine ⟨X, ?_, hXq, hXs, ?_⟩
  · simp only [svdstf, hmat, k_real, Nat.cast_zero]; exact hX
  intro X' hq'
  have hrot' := isRot_SO3matrix _ hq'
  rw [Sim3Act_eq_affine X, SE3Act_eq_affine X', hXs, hXm, hXt, Mat3.one_smul', cost_affine_centered,
    cost_affine_centered, cost_expand _ hrot.1, cost_expand _ hrot'.1]
  have h0 : ((((rotOf (svd (Hmat ps))).mulVec (mean (srcs ps))).add
      ((mean (tgts ps)).sub ((rotOf (svd (Hmat ps))).mulVec (mean (srcs ps))))).sub
      (mean (tgts ps))).normSq = 0 := by lie_unfold; ring
  rw [h0]
  have hd' : 0 ≤ (ps.length : ℝ) * ((((SO3matrix X'.q).mulVec (mean (srcs ps))).add X'.t).sub
      (mean (tgts ps))).normSq := mul_nonneg (Nat.cast_nonneg _) (Align.normSq_nonneg _)
  have hle := frob_le_rotOf _ _ h _ hrot'
  rw [frob_Hmat, frob_Hmat] at hle
  by_cases hN : ps = []
  · subst hN; simp [energyS, energyT, centered, crossCov, Mat3.frob]; lie_unfold; norm_num
  · have hN' : (0:ℝ) < (ps.length : ℝ) := by
      have : 0 < ps.length := List.length_pos_of_ne_nil hN
      positivity
    have hpos : (0:ℝ) < 1 / (ps.length : ℝ) := by positivity
    have hle' := le_of_mul_le_mul_left hle hpos
    linarith


/-! ## ICP -/

/-- contract of `knn(…, k=1)` (= `topk(k=1, largest=False)` over Euclidean distances) on a target cloud: the
returned index designates a target point that is at least as close as every other target point -/
def NNOk (nn : Cloud ℝ → Vec3 ℝ → Nat) (tgt : Cloud ℝ) : Prop :=
  ∀ p : Vec3 ℝ, tgt.getD (nn tgt p) Vec3.zero ∈ tgt ∧
    ∀ q ∈ tgt, (p.sub (tgt.getD (nn tgt p) Vec3.zero)).normSq ≤ (p.sub q).normSq

/-- contract of the aligner used inside ICP: a valid `SE3` element that is optimal among rigid transforms -/
structure AlignOk (align : Pairs ℝ → SE3 ℝ) : Prop where
  unit : ∀ ps, (align ps).q.normSq = 1
  opt : ∀ ps (X' : SE3 ℝ), X'.q.normSq = 1 → cost (SE3Act (align ps)) ps ≤ cost (SE3Act X') ps

/-- `svdtf` satisfies the aligner contract (SVD contract at every matrix it is given) -/
theorem svdtf_alignOk (svd : Mat3 ℝ → SVD3 ℝ) (detK : Mat3 ℝ → ℝ) (hdet : ∀ M, detK M = M.det) (atol : ℝ)
    (ha : |atol| < 1) (hsvd : ∀ M, SVDOk M (svd M)) : AlignOk (svdtf svd detK atol) :=
  ⟨fun ps => (svdtf_proper svd detK hdet atol ha ps (hsvd _)).1,
   fun ps X' hX' => svdtf_optimal svd detK hdet atol ha ps (hsvd _) X' hX'⟩

theorem SE3Act_one (p : Vec3 ℝ) : SE3Act (SE3one : SE3 ℝ) p = p := by
  simp only [SE3Act, SE3one, Quat.one_act]; apply Vec3.ext' <;> simp [Vec3.add, Vec3.zero]

theorem SE3Act_mul (X Y : SE3 ℝ) (hX : X.q.normSq = 1) (hY : Y.q.normSq = 1) (p : Vec3 ℝ) :
    SE3Act (SE3Mul X Y) p = SE3Act X (SE3Act Y p) := by
  simp only [SE3Act, SE3Mul, Quat.act_mul X.q Y.q hX hY, Quat.act_add]
  apply Vec3.ext' <;> simp only [Vec3.add] <;> ring

theorem sscd_eq_cost (nn : Cloud ℝ → Vec3 ℝ → Nat) (tgt cur : Cloud ℝ) :
    sscd nn tgt cur = cost (SE3Act SE3one) (matchNN nn tgt cur) := by
  simp only [sscd, cost, SE3Act_one]

/-- **One ICP pass never increases the sum of squared closest-point distances.** -/
theorem icpStep_le (align : Pairs ℝ → SE3 ℝ) (hal : AlignOk align) (nn : Cloud ℝ → Vec3 ℝ → Nat)
    (tgt : Cloud ℝ) (hnn : NNOk nn tgt) (cur : Cloud ℝ) :
    sscd nn tgt (icpStep align nn tgt cur) ≤ sscd nn tgt cur := by
  have h1 : cost (SE3Act (align (matchNN nn tgt cur))) (matchNN nn tgt cur) ≤ sscd nn tgt cur := by
    rw [sscd_eq_cost]
    exact hal.opt _ SE3one (by simp [SE3one, Quat.one, Quat.normSq])
  refine le_trans ?_ h1
  simp only [sscd, icpStep, cost, matchNN, List.map_map]
  apply ssum_le_ssum
  intro p _
  simp only [Function.comp]
  exact (hnn _).2 _ (hnn p).1

/-- any number of passes -/
theorem icpIter_le (align : Pairs ℝ → SE3 ℝ) (hal : AlignOk align) (nn : Cloud ℝ → Vec3 ℝ → Nat)
    (tgt : Cloud ℝ) (hnn : NNOk nn tgt) (n : Nat) (cur : Cloud ℝ) :
    sscd nn tgt (icpIter align nn tgt n cur) ≤ sscd nn tgt cur := by
  induction n generalizing cur with
  | zero => simp [icpIter]
  | succ n ih => exact le_trans (ih _) (icpStep_le align hal nn tgt hnn cur)

/-- monotone along the whole run: the value after `n+1` passes is at most the value after `n` passes -/
theorem icp_monotone (align : Pairs ℝ → SE3 ℝ) (hal : AlignOk align) (nn : Cloud ℝ → Vec3 ℝ → Nat)
    (tgt : Cloud ℝ) (hnn : NNOk nn tgt) (n : Nat) (cur : Cloud ℝ) :
    sscd nn tgt (icpIter align nn tgt (n + 1) cur) ≤ sscd nn tgt (icpIter align nn tgt n cur) := by
  have : ∀ (n : Nat) (c : Cloud ℝ), icpIter align nn tgt (n + 1) c = icpStep align nn tgt (icpIter align nn tgt n c) := by
    intro n; induction n with
    | zero => intro c; simp [icpIter]
    | succ n ih => intro c; rw [icpIter, ih]; simp [icpIter]
  rw [this]; exact icpStep_le align hal nn tgt hnn _

/-- the iterate stays a rigid image of the source cloud -/
theorem icpIter_rigid (align : Pairs ℝ → SE3 ℝ) (hal : AlignOk align) (nn : Cloud ℝ → Vec3 ℝ → Nat)
    (tgt : Cloud ℝ) (src : Cloud ℝ) (n : Nat) (X₀ : SE3 ℝ) (h₀ : X₀.q.normSq = 1) :
    ∃ X : SE3 ℝ, X.q.normSq = 1 ∧ icpIter align nn tgt n (src.map (SE3Act X₀)) = src.map (SE3Act X) := by
  induction n generalizing X₀ with
  | zero => exact ⟨X₀, h₀, rfl⟩
  | succ n ih =>
    simp only [icpIter, icpStep, List.map_map]
    have hT := hal.unit (matchNN nn tgt (src.map (SE3Act X₀)))
    obtain ⟨X, hX, hXe⟩ := ih (SE3Mul (align (matchNN nn tgt (src.map (SE3Act X₀)))) X₀)
      (by simp only [SE3Mul, Quat.normSq_mul, hT, h₀]; ring)
    refine ⟨X, hX, ?_⟩
    rw [← hXe]; congr 1
    apply List.map_congr_left; intro p _
    simp only [Function.comp, SE3Act_mul _ _ hT h₀]

theorem icpStart_rigid (init : Option (SE3 ℝ)) (hinit : ∀ T, init = some T → T.q.normSq = 1) (src : Cloud ℝ) :
    ∃ X₀ : SE3 ℝ, X₀.q.normSq = 1 ∧ icpStart init src = src.map (SE3Act X₀) := by
  cases init with
  | none =>
    refine ⟨SE3one, by simp [SE3one, Quat.one, Quat.normSq], ?_⟩
    simp only [icpStart]
    rw [List.map_congr_left (g := id) (fun p _ => SE3Act_one p), List.map_id]
  | some T => exact ⟨T, hinit T rfl, rfl⟩

theorem cost_zip_map (X : SE3 ℝ) (src : Cloud ℝ) : cost (SE3Act X) (src.zip (src.map (SE3Act X))) = 0 := by
  rw [cost_eq_zero_iff]
  intro p hp
  induction src with
  | nil => simp at hp
  | cons s ss ih =>
    simp only [List.map_cons, List.zip_cons_cons, List.mem_cons] at hp
    rcases hp with rfl | hp
    · rfl
    · exact ih hp

/-- the final `svdtf(source, temporal)` reproduces the accumulated rigid motion on every source point -/
theorem icp_final_exact (align : Pairs ℝ → SE3 ℝ) (hal : AlignOk align) (X : SE3 ℝ) (hX : X.q.normSq = 1)
    (src : Cloud ℝ) :
    src.map (SE3Act (align (src.zip (src.map (SE3Act X))))) = src.map (SE3Act X) := by
  have h0 := cost_zip_map X src
  have h1 := hal.opt (src.zip (src.map (SE3Act X))) X hX
  have h2 := cost_nonneg (SE3Act (align (src.zip (src.map (SE3Act X))))) (src.zip (src.map (SE3Act X)))
  have hz := (cost_eq_zero_iff _ _).mp (le_antisymm (by linarith) h2)
  generalize align (src.zip (src.map (SE3Act X))) = Y at hz ⊢
  clear h0 h1 h2
  induction src with
  | nil => rfl
  | cons s ss ih =>
    simp only [List.map_cons, List.zip_cons_cons] at hz ⊢
    rw [hz (s, SE3Act X s) (List.mem_cons_self ..), ih fun p hp => hz p (List.mem_cons_of_mem _ hp)]

/-- **ICP's result is never worse than its initial transform**: for every number of passes `n` (hence for every
stepper), every initial transform (or none), with an optimal aligner and a nearest-neighbour kernel meeting
their contracts: the sum — hence the mean — of squared closest-point distances of `result·source` is at most that
of `init·source`. -/
theorem icp_result_le_init (align : Pairs ℝ → SE3 ℝ) (hal : AlignOk align) (nn : Cloud ℝ → Vec3 ℝ → Nat)
    (src tgt : Cloud ℝ) (hnn : NNOk nn tgt) (init : Option (SE3 ℝ)) (hinit : ∀ T, init = some T → T.q.normSq = 1)
    (n : Nat) :
    sscd nn tgt (src.map (SE3Act (icp align nn init n src tgt))) ≤ sscd nn tgt (icpStart init src) := by
  obtain ⟨X₀, h₀, hs⟩ := icpStart_rigid init hinit src
  obtain ⟨X, hX, hXe⟩ := icpIter_rigid align hal nn tgt src n X₀ h₀
  unfold icp
  rw [hs, hXe, icp_final_exact align hal X hX src, ← hXe, ← hs]
  exact icpIter_le align hal nn tgt hnn n _

/-- the same for the mean squared closest-point distance (the property's wording) -/
theorem icp_result_mscd_le_init (align : Pairs ℝ → SE3 ℝ) (hal : AlignOk align) (nn : Cloud ℝ → Vec3 ℝ → Nat)
    (src tgt : Cloud ℝ) (hnn : NNOk nn tgt) (init : Option (SE3 ℝ)) (hinit : ∀ T, init = some T → T.q.normSq = 1)
    (n : Nat) :
    mscd nn tgt (src.map (SE3Act (icp align nn init n src tgt))) ≤ mscd nn tgt (icpStart init src) := by
  have h := icp_result_le_init align hal nn src tgt hnn init hinit n
  have hl : (icpStart init src).length = src.length := by cases init <;> simp [icpStart]
  simp only [mscd, List.length_map, hl, k_real, Nat.cast_one]
  exact mul_le_mul_of_nonneg_right h (by positivity)

/-- the loop driven by a stepper runs some number `m ≤ fuel` of passes -/
theorem icpLoop_eq_iter (align : Pairs ℝ → SE3 ℝ) (nn : Cloud ℝ → Vec3 ℝ → Nat) (cont : List ℝ → Bool)
    (tgt : Cloud ℝ) (fuel : Nat) (cur : Cloud ℝ) (errs : List ℝ) :
    ∃ m ≤ fuel, (icpLoop align nn cont tgt fuel cur errs).1 = icpIter align nn tgt m cur := by
  induction fuel generalizing cur errs with
  | zero => exact ⟨0, le_refl _, rfl⟩
  | succ f ih =>
    simp only [icpLoop]
    split_ifs with hc
    · obtain ⟨m, hm, he⟩ := ih (icpStep align nn tgt cur) (icpError nn tgt cur :: errs)
      exact ⟨m + 1, by omega, by rw [he]; rfl⟩
    · exact ⟨0, by omega, rfl⟩

/-- **…for every stepper** (`cont` decides from the history of errors whether to continue) and every bound on the
number of passes. -/
theorem icpWith_result_le_init (align : Pairs ℝ → SE3 ℝ) (hal : AlignOk align) (nn : Cloud ℝ → Vec3 ℝ → Nat)
    (src tgt : Cloud ℝ) (hnn : NNOk nn tgt) (init : Option (SE3 ℝ)) (hinit : ∀ T, init = some T → T.q.normSq = 1)
    (cont : List ℝ → Bool) (fuel : Nat) :
    sscd nn tgt (src.map (SE3Act (icpWith align nn cont fuel init src tgt))) ≤ sscd nn tgt (icpStart init src) := by
  obtain ⟨m, _, he⟩ := icpLoop_eq_iter align nn cont tgt fuel (icpStart init src) []
  have := icp_result_le_init align hal nn src tgt hnn init hinit m
  unfold icp at this
  unfold icpWith
  rw [he]; exact this

end PP.C17
