import Proofs.Lemmas.LieExp
/-!
# C01 — `Exp` is the matrix exponential on so3, se3, rxso3 and sim3

All statements are about the model of `pypose/lietensor/operation.py` (`lean/Pose/Model/Lie.lean`) at
`α = ℝ`; `exp` is Mathlib's `NormedSpace.exp` on `Matrix (Fin n) (Fin n) ℝ`; `eps` is the dtype's machine
epsilon used by the code's small-angle tests (a parameter: one theorem covers float32 and float64).

The matrix of a group element is the model of `LieTensor.matrix()` (columns = images of the basis vectors
under `Act`/`Act4`), converted to a Mathlib matrix by `Mat3.toMatrix` / `DMat.toMatrix4`.

"Exact regimes": the closed-form branches (`eps < θ`, `eps < |σ|`) and the exact zeros (`θ = 0`, `σ = 0`).
In the thin Taylor bands `0 < θ ≤ eps`, `0 < |σ| ≤ eps` the code uses truncated series; there the theorems
are explicit error bounds (`*_taylor`).  IEEE rounding is outside the theorems (correspondence check).
-/
open Matrix NormedSpace

namespace PP
open Vec3 Quat Mat3
noncomputable section

/-! ## 1. Rodrigues' formula from the power series -/

/-- For a real square matrix `K` with `K^(2k+1) = (-θ²)^k K`, `K^(2k+2) = (-θ²)^k K²`, `θ ≠ 0`:
`exp K = 1 + (sin θ/θ) K + ((1 - cos θ)/θ²) K²`. -/
theorem exp_eq_rodrigues {n : Type} [Fintype n] [DecidableEq n] (K : Matrix n n ℝ) (th : ℝ) (hth : th ≠ 0)
    (hodd : ∀ k : ℕ, K ^ (2*k+1) = ((-(th*th))^k) • K)
    (_heven : ∀ k : ℕ, K ^ (2*k+2) = ((-(th*th))^k) • (K ^ 2)) :
    NormedSpace.exp K = 1 + (Real.sin th / th) • K + ((1 - Real.cos th) / (th*th)) • (K ^ 2) := by
  have h3 : K ^ 3 = (-(th*th)) • K := by simpa using hodd 1
  exact MatExp.exp_eq_rod K th hth h3

/-- generalised Rodrigues formula (`A⁴ = -θ² A²`), used for the 4×4 generator of se3:
`exp A = 1 + A + ((1 - cos θ)/θ²) A² + ((θ - sin θ)/θ³) A³`. -/
theorem exp_eq_rodrigues2 {n : Type} [Fintype n] [DecidableEq n] (A : Matrix n n ℝ) (th : ℝ) (hth : th ≠ 0)
    (h4 : A ^ 4 = (-(th*th)) • A ^ 2) :
    NormedSpace.exp A =
      1 + A + ((1 - Real.cos th) / (th*th)) • (A ^ 2) + ((th - Real.sin th) / (th*th*th)) • (A ^ 3) :=
  MatExp.exp_eq_rod2 A th hth h4

/-- the hypotheses of `exp_eq_rodrigues` hold for `K = x^`, `θ = ‖x‖` -/
theorem hat_pow_odd (x : Vec3 ℝ) (k : ℕ) : hatM x ^ (2*k+1) = ((-(x.norm * x.norm))^k) • hatM x := by
  induction k with
  | zero => simp
  | succ k ih =>
    have e : 2*(k+1)+1 = (2*k+1) + 2 := by ring
    have h32 : hatM x * hatM x ^ 2 = hatM x ^ 3 := by rw [pow_succ' (hatM x) 2]
    rw [e, pow_add, ih, smul_mul_assoc, h32, hatM_cube x, smul_smul, pow_succ]

theorem hat_pow_even (x : Vec3 ℝ) (k : ℕ) : hatM x ^ (2*k+2) = ((-(x.norm * x.norm))^k) • (hatM x ^ 2) := by
  have e : 2*k+2 = (2*k+1) + 1 := by ring
  rw [e, pow_succ, hat_pow_odd, smul_mul_assoc, pow_two]

/-- the generator matrix used in the theorems is the model's `vec2skew` -/
theorem hatM_is_model_hat (x : Vec3 ℝ) : (Mat3.hat x).toMatrix = hatM x := hat_toMatrix x

/-! ## 2. so3 -/

/-- **so3**: the 3×3 matrix of `Exp x` is the matrix exponential of `x^` — on the closed-form branch
(`eps < ‖x‖`) and at `x = 0`. -/
theorem so3Exp_matrix (eps : ℝ) (x : Vec3 ℝ) (h0 : 0 ≤ eps) (h : eps < x.norm ∨ x.norm = 0) :
    (SO3matrix (so3Exp eps x)).toMatrix = NormedSpace.exp (hatM x) :=
  so3Exp_matrix' eps x h0 h

/-- the quaternion returned on the closed-form branch is exactly unit -/
theorem so3Exp_unit (eps : ℝ) (x : Vec3 ℝ) (h0 : 0 ≤ eps) (h : eps < x.norm) : (so3Exp eps x).normSq = 1 :=
  so3Exp_normSq_closed eps x h0 h

/-- Taylor branch: `‖q‖² − 1 = t³/23040 − t⁴/245760 + t⁵/14745600`, `t = ‖x‖²` (exactly) -/
theorem so3Exp_unit_taylor (eps : ℝ) (x : Vec3 ℝ) (h : ¬ eps < x.norm) :
    (so3Exp eps x).normSq - 1 = x.normSq ^ 3 / 23040 - x.normSq ^ 4 / 245760 + x.normSq ^ 5 / 14745600 :=
  so3Exp_normSq_taylor eps x h

/-- every input, both branches: `|‖q‖² − 1| ≤ eps⁶` -/
theorem so3Exp_unit_all (eps : ℝ) (x : Vec3 ℝ) (h0 : 0 ≤ eps) (h1 : eps ≤ 1) :
    |(so3Exp eps x).normSq - 1| ≤ eps ^ 6 :=
  so3Exp_normSq_near eps x h0 h1

/-! ## 3. se3 -/

/-- **se3**: `matrix(Exp ξ) = exp (ξ^)`, `ξ^ = [[φ^, τ],[0,0]]` — closed-form branch and `φ = 0`. -/
theorem se3Exp_matrix (eps : ℝ) (x : se3 ℝ) (h0 : 0 ≤ eps) (h : eps < x.phi.norm ∨ x.phi.norm = 0) :
    (SE3matrix (se3Exp eps x)).toMatrix4 = NormedSpace.exp (se3Gen x) :=
  se3Exp_matrix' eps x h0 h

/-- block form: `exp [[K, τ],[0,0]] = [[exp K, V τ],[0,1]]`, `V = 1 + ((1-cos θ)/θ²) K + ((θ-sin θ)/θ³) K²`
(the shifted series `Σ Kⁿ/(n+1)!`), `θ = ‖x‖ ≠ 0`. -/
theorem se3_exp_block (x : Vec3 ℝ) (tau : Fin 3 → ℝ) (hne : x.norm ≠ 0) :
    NormedSpace.exp (blk4 (hatM x) tau 0) =
      blk4 (NormedSpace.exp (hatM x))
        (((1 : Matrix (Fin 3) (Fin 3) ℝ) + ((1 - Real.cos x.norm) / (x.norm * x.norm)) • hatM x
          + ((x.norm - Real.sin x.norm) / (x.norm * x.norm * x.norm)) • (hatM x ^ 2)).mulVec tau) 1 :=
  exp_blk4_hat x tau hne

/-- the rotation part of `se3Exp` is `so3Exp φ` (so the unit-norm theorems apply) -/
theorem se3Exp_rotation (eps : ℝ) (x : se3 ℝ) : (se3Exp eps x).q = so3Exp eps x.phi := rfl

/-! ## 4. rxso3 -/

/-- 3×3 scaled rotation: `e^σ R(Exp φ) = exp (σ·1 + φ^)` -/
theorem rxso3Exp_matrix3 (eps : ℝ) (x : rxso3 ℝ) (h0 : 0 ≤ eps) (h : eps < x.phi.norm ∨ x.phi.norm = 0) :
    (rxso3Exp eps x).s • (SO3matrix (rxso3Exp eps x).q).toMatrix
      = NormedSpace.exp (x.sigma • (1 : Matrix (Fin 3) (Fin 3) ℝ) + hatM x.phi) := by
  show Real.exp x.sigma • (SO3matrix (so3Exp eps x.phi)).toMatrix = _
  rw [so3Exp_matrix' eps x.phi h0 h, exp_scal_add_hat]

/-- **rxso3**: the 4×4 `matrix(Exp x)` is `exp` of the generator `[[σ·1 + φ^, 0],[0,0]]`. -/
theorem rxso3Exp_matrix (eps : ℝ) (x : rxso3 ℝ) (h0 : 0 ≤ eps) (h : eps < x.phi.norm ∨ x.phi.norm = 0) :
    (RxSO3matrix (rxso3Exp eps x)).toMatrix4 = NormedSpace.exp (rxso3Gen x) := by
  rw [rxso3Gen_blk, exp_blk4_scal_hat, RxSO3matrix_blk, rxso3Exp_matrix3 eps x h0 h]

theorem rxso3Exp_rotation (eps : ℝ) (x : rxso3 ℝ) : (rxso3Exp eps x).q = so3Exp eps x.phi := rfl
theorem rxso3Exp_scale_pos (eps : ℝ) (x : rxso3 ℝ) : 0 < (rxso3Exp eps x).s := Real.exp_pos _

/-! ## 5. sim3 -/

/-- `Ws_mul_generator` (regime 4, both closed forms): `W·(σ·1 + K) = e^σ R − 1 = exp(σ·1 + K) − 1`. -/
theorem Ws_mul_generator (eps : ℝ) (x : rxso3 ℝ) (h0 : 0 ≤ eps) (ht : eps < x.phi.norm) (hs : eps < |x.sigma|) :
    (rxso3Ws eps x).toMatrix * (x.sigma • (1 : Matrix (Fin 3) (Fin 3) ℝ) + hatM x.phi)
      = NormedSpace.exp (x.sigma • (1 : Matrix (Fin 3) (Fin 3) ℝ) + hatM x.phi) - 1 :=
  Ws_mul_gen_regime4 eps x h0 ht hs

/-- `σ·1 + K` is invertible for `σ ≠ 0` (`det = σ(σ² + θ²)`), hence `W = (exp M − 1) M⁻¹` is determined by
`Ws_mul_generator`. -/
theorem Ws_eq_expm1_mul_inv (eps : ℝ) (x : rxso3 ℝ) (h0 : 0 ≤ eps) (ht : eps < x.phi.norm) (hs : eps < |x.sigma|) :
    (rxso3Ws eps x).toMatrix
      = (NormedSpace.exp (x.sigma • (1 : Matrix (Fin 3) (Fin 3) ℝ) + hatM x.phi) - 1)
        * (x.sigma • (1 : Matrix (Fin 3) (Fin 3) ℝ) + hatM x.phi)⁻¹ := by
  have hsne : x.sigma ≠ 0 := by intro h; rw [h, abs_zero] at hs; linarith
  have hdet : IsUnit (x.sigma • (1 : Matrix (Fin 3) (Fin 3) ℝ) + hatM x.phi).det := by
    rw [det_scal_add_hat, isUnit_iff_ne_zero]
    have h1 : 0 < x.sigma * x.sigma := mul_self_pos.mpr hsne
    have h2 := Vec3.normSq_nonneg x.phi
    exact mul_ne_zero hsne (ne_of_gt (by linarith))
  rw [← Ws_mul_gen_regime4 eps x h0 ht hs, Matrix.mul_assoc, Matrix.mul_nonsing_inv _ hdet, Matrix.mul_one]

/-- **sim3** (stretch goal of the design, proved): `matrix(Exp ξ) = exp (ξ^)`, `ξ^ = [[σ·1 + φ^, τ],[0,0]]`,
in all four exact regime combinations (`eps < θ` or `θ = 0`) × (`eps < |σ|` or `σ = 0`). -/
theorem sim3Exp_matrix (eps : ℝ) (x : sim3 ℝ) (h0 : 0 ≤ eps)
    (ht : eps < x.phi.norm ∨ x.phi.norm = 0) (hs : eps < |x.sigma| ∨ x.sigma = 0) :
    (Sim3matrix (sim3Exp eps x)).toMatrix4 = NormedSpace.exp (sim3Gen x) :=
  sim3Exp_matrix' eps x h0 ht hs

theorem sim3Exp_rotation (eps : ℝ) (x : sim3 ℝ) : (sim3Exp eps x).q = so3Exp eps x.phi := rfl
theorem sim3Exp_scale (eps : ℝ) (x : sim3 ℝ) : (sim3Exp eps x).s = Real.exp x.sigma := rfl

end
end PP
