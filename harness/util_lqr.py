"""C14 helpers: structured LQ problems, the systems handed to the real LQR/MPC, an independent dense
reference solution with componentwise error scales (numpy, float64), and the wire encoding for the
Lean driver.  Everything random derives from `case["data_seed"]` (itself drawn from ctx.rng)."""
from __future__ import annotations

import math

import numpy as np
import torch

from . import common


def pp():
    import pypose
    return pypose


# ----------------------------------------------------------------------------- data generation

def _orth(rs, n):
    q, r = np.linalg.qr(rs.standard_normal((n, n)))
    return q * np.sign(np.diag(r) + (np.diag(r) == 0))


def _spd(rs, n, cond, scale):
    """symmetric PD with the given condition number (log-spaced spectrum), exactly symmetric"""
    lam = scale * np.logspace(0, -math.log10(cond), n) if n > 1 else np.array([scale])
    if n > 1 and rs.rand() < 0.3:      # one small / one large eigenvalue, rest clustered
        lam = scale * np.ones(n)
        lam[-1] = scale / cond
    U = _orth(rs, n)
    M = (U * lam) @ U.T
    return (M + M.T) / 2


def _amat(rs, n, rho, style):
    """state matrix with spectral radius `rho`"""
    if style == "zero" or rho == 0.0:
        return np.zeros((n, n))
    if style == "diag":
        d = rho * rs.choice([-1.0, 1.0], n) * rs.uniform(0.2, 1.0, n)
        d[rs.randint(n)] = rho * rs.choice([-1.0, 1.0])
        return np.diag(d)
    if style == "rot":      # orthogonal times rho: every mode on the circle of radius rho
        return rho * _orth(rs, n)
    if style == "jordan":   # defective: one Jordan block
        M = rho * np.eye(n) + np.diag(np.ones(n - 1), 1) * 0.5
        return M
    M = rs.standard_normal((n, n))
    r = max(abs(np.linalg.eigvals(M)))
    return M * (rho / r) if r > 0 else M


RHOS = [0.0, 0.3, 0.9, 1.0, 1.05, 1.3, 2.0, 3.0]


def build_problem(case: dict) -> dict:
    """float64 numpy arrays (already rounded to the case dtype) for one LQ problem.
    keys: A (B,L,ns,ns) B_ (B,L,ns,nc) c (B,L,ns) Q (B,T,n,n) p (B,T,n) x0 (B,ns)  [L = system time slots]"""
    rs = np.random.RandomState(case["data_seed"] % (2 ** 32))
    Bn, T, ns, nc = case["B"], case["T"], case["ns"], case["nc"]
    n = ns + nc
    tv = case["sys"] in ("ltv", "ltvc", "ltvp")
    L = T + case.get("extra", 0) if tv else 1
    A = np.zeros((Bn, L, ns, ns))
    Bm = np.zeros((Bn, L, ns, nc))
    c = np.zeros((Bn, L, ns))
    shared = case["sys"] == "lti_shared"
    for b in range(Bn):
        for l in range(L):
            if shared and b > 0:
                A[b, l], Bm[b, l], c[b, l] = A[0, l], Bm[0, l], c[0, l]
                continue
            rho = case["rho"] if not tv else case["rho"] * rs.choice([0.5, 1.0, 1.0])
            A[b, l] = _amat(rs, ns, rho, case["astyle"])
            Bm[b, l] = rs.standard_normal((ns, nc)) * case["bscale"]
            if case["bstyle"] == "zerocol" and nc > 1:
                Bm[b, l][:, rs.randint(nc)] = 0.0
            elif case["bstyle"] == "zero" and l % 2 == 1:
                Bm[b, l] = 0.0
            elif case["bstyle"] == "rank1":
                Bm[b, l] = np.outer(rs.standard_normal(ns), rs.standard_normal(nc)) * case["bscale"]
            if case["c1"] == "rand":
                c[b, l] = rs.standard_normal(ns) * case["cscale"]
            if not tv:
                break
        if case["sys"] == "ltv":       # LTV with constant c1 buffer
            c[b, :] = c[b, 0]
        if case["sys"] == "echo":      # x+ = x
            A[b, 0], Bm[b, 0], c[b, 0] = np.eye(ns), 0.0, 0.0
        if case["sys"] == "view":      # x+ = u[:ns]
            A[b, 0], c[b, 0] = 0.0, 0.0
            Bm[b, 0] = np.eye(ns, nc)
    Q = np.zeros((Bn, T, n, n))
    p = np.zeros((Bn, T, n))
    mixed = bool(case.get("mixed"))
    # mixed-regime batch: item 0 is the all-zero problem (x0 = p = 0), item 1 large and ill-conditioned, item 2 ordinary
    reg_m = [0.0, 1e3, 1.0]
    reg_c = [1.0, 1e6, case["condQ"]]
    for b in range(Bn):
        condb = reg_c[b % 3] if mixed else case["condQ"]
        if mixed and case["dtype"] == "float32":
            condb = min(condb, 10)
        for t in range(T):
            if case["qshape"] in ("q3", "q3p2") and t > 0:
                Q[b, t] = Q[b, 0]
            elif case.get("qstyle") == "psd":
                # the code's exact guard (theorems `*_psd`): Q_t only positive SEMI-definite (singular state block, cross
                # terms present) with a positive definite input block
                r = ns // 2
                M = rs.standard_normal((r, n)) if r > 0 else np.zeros((0, n))
                Qt = M.T @ M * case["qscale"]
                Qt[ns:, ns:] += _spd(rs, nc, min(condb, 1e3), case["qscale"])
                Q[b, t] = (Qt + Qt.T) / 2
            elif case.get("qstyle") == "nearsym":
                # NEARLY symmetric (1e-6 relative asymmetry, far above round-off, below allclose's default rtol): outside
                # "symmetric PD"; the model (which uses Q as given, like the code) is the reference for what the code does
                Qs = _spd(rs, n, min(condb, 1e3), case["qscale"])
                K = np.triu(rs.uniform(0.5, 1.0, (n, n)), 1)
                Q[b, t] = Qs * (1 + 1e-6 * (K - K.T))          # ENTRYWISE relative asymmetry 1e-6: `allclose(Q, Q.mT)` is True
            elif case.get("qstyle") == "eye":        # EXACT TIE: all eigenvalues equal, Q_t = s I bit for bit
                Q[b, t] = np.eye(n) * case["qscale"]
            elif case.get("qstyle") == "psd0":       # EXACT TIE: state block and cross terms exactly zero
                Q[b, t] = 0.0
                Q[b, t][ns:, ns:] = _spd(rs, nc, min(condb, 1e3), case["qscale"])
            else:
                Q[b, t] = _spd(rs, n, condb, case["qscale"])
            if case["qshape"] in ("p2", "q3p2") and t > 0:
                p[b, t] = p[b, 0]
            else:
                p[b, t] = rs.standard_normal(n) * case["pscale"]
    x0 = rs.standard_normal((Bn, ns)) * case["x0scale"]
    if mixed:
        for b in range(Bn):
            x0[b] *= reg_m[b % 3]
            p[b] *= reg_m[b % 3]
            if not shared:
                c[b] *= reg_m[b % 3]
    # SIGN PATTERNS of the affine data: tests of "all zero" written as max()==0 / sum()==0 differ exactly here
    sp = case.get("signpat")
    if sp:
        def pat(a):
            a = np.abs(a) if sp == "nonneg" else -np.abs(a)
            if sp == "nonpos0":                    # non-positive with exact zeros: max() == 0 although the array is not zero
                flat = a.reshape(-1, a.shape[-1])
                flat[:, 0] = 0.0
            return a
        p, x0, c = pat(p), pat(x0), pat(c)
        if case["c1"] != "rand" and case["sys"] != "ltvc":
            c = c * 0.0
    if case.get("dup"):                            # EXACT TIE: identical batch items
        for arr in (A, Bm, c, Q, p, x0):
            arr[1:] = arr[:1]
    dt = getattr(torch, case["dtype"])
    rnd = lambda a: torch.tensor(a, dtype=torch.float64).to(dt).to(torch.float64).numpy()
    Qr = rnd(Q)
    if case.get("qstyle") != "nearsym":
        Qr = (Qr + np.swapaxes(Qr, -1, -2)) / 2 if case["dtype"] == "float64" else Qr   # float32: rounding keeps symmetry
    return {"A": rnd(A), "B": rnd(Bm), "c": rnd(c), "Q": Qr, "p": rnd(p), "x0": rnd(x0), "L": L, "tv": tv}


def nominal(case: dict, prob: dict, spec, prev_u=None):
    """u_traj variants (numpy (B,T,nc) or None)"""
    Bn, T, nc = case["B"], case["T"], case["nc"]
    if spec is None or spec == "none":
        return None
    if spec == "zeros":
        return np.zeros((Bn, T, nc))
    if spec == "prev" and prev_u is not None:
        return np.array(prev_u, dtype=np.float64)
    kind, scale, seed = spec if isinstance(spec, (list, tuple)) else ("rand", 1.0, 0)
    rs = np.random.RandomState((case["data_seed"] + 7919 * (seed + 1)) % (2 ** 32))
    u = rs.standard_normal((Bn, T, nc)) * scale
    if case.get("signpat"):
        u = np.abs(u) if case["signpat"] == "nonneg" else -np.abs(u)
        if case["signpat"] == "nonpos0":
            u[..., 0] = 0.0
    if case.get("dup"):
        u[1:] = u[:1]
    dt = getattr(torch, case["dtype"])
    return torch.tensor(u, dtype=torch.float64).to(dt).to(torch.float64).numpy()


# ----------------------------------------------------------------------------- systems for the real code

_LTV_CLASSES = {}


def ltv_class(timevarying_c: bool):
    """user-style LTV subclass: matrices indexed by the system clock `_t` (as in pypose's own test)"""
    key = bool(timevarying_c)
    if key in _LTV_CLASSES:
        return _LTV_CLASSES[key]
    P = pp()

    class IndexedLTV(P.module.LTV):
        def __init__(self, A, B, C, D, c1=None, c2=None):
            super().__init__(A, B, C, D, c1, c2)

        vfh14_fail_at = -1       # user code raising: the k-th read of A from now raises (then disarms itself)

        @property
        def A(self):
            if self.vfh14_fail_at >= 0:
                self.vfh14_fail_at -= 1
                if self.vfh14_fail_at < 0:
                    raise ArithmeticError("user system raised (injected by the harness)")
            return self._A[..., self._t, :, :]

        @property
        def B(self):
            return self._B[..., self._t, :, :]

        @property
        def C(self):
            return self._C[..., self._t, :, :]

        @property
        def D(self):
            return self._D[..., self._t, :, :]

    if timevarying_c:
        class IndexedLTVc(IndexedLTV):
            @property
            def c1(self):
                return self._c1[..., self._t, :]
        cls = IndexedLTVc
    else:
        cls = IndexedLTV
    # module-level name so that pickle finds the class
    cls.__qualname__ = cls.__name__
    cls.__module__ = __name__
    globals()[cls.__name__] = cls
    _LTV_CLASSES[key] = cls
    return cls


def make_system(case: dict, prob: dict):
    P = pp()
    dt = getattr(torch, case["dtype"])
    T_ = lambda a: torch.tensor(a, dtype=dt)
    Bn, ns, nc = case["B"], case["ns"], case["nc"]
    L = prob["L"]
    if case["sys"] == "ltvp":
        return user_classes()["PropLTV"](T_(prob["A"]), T_(prob["B"]), T_(prob["c"]), ns, nc)
    if case["sys"] == "echo":
        return user_classes()["EchoSys"]()
    if case["sys"] == "view":
        return user_classes()["ViewSys"](ns)
    if prob["tv"]:
        A, Bm = T_(prob["A"]), T_(prob["B"])
        C = torch.eye(ns, dtype=dt).repeat(Bn, L, 1, 1)
        D = torch.zeros(Bn, L, ns, nc, dtype=dt)
        if case["sys"] == "ltvc":
            return ltv_class(True)(A, Bm, C, D, T_(prob["c"]), None)
        c1 = None if case["c1"] == "none" else T_(prob["c"][:, 0])
        return ltv_class(False)(A, Bm, C, D, c1, None)
    if case["sys"] == "lti_shared":
        A, Bm = T_(prob["A"][0, 0]), T_(prob["B"][0, 0])
        C, D = torch.eye(ns, dtype=dt), torch.zeros(ns, nc, dtype=dt)
        c1 = None if case["c1"] == "none" else T_(prob["c"][0, 0])
        return P.module.LTI(A, Bm, C, D, c1, None)
    A, Bm = T_(prob["A"][:, 0]), T_(prob["B"][:, 0])
    C = torch.eye(ns, dtype=dt).repeat(Bn, 1, 1)
    D = torch.zeros(Bn, ns, nc, dtype=dt)
    c1 = None if case["c1"] == "none" else T_(prob["c"][:, 0])
    c2 = torch.zeros(Bn, ns, dtype=dt) if case.get("c2") else None
    if case.get("subclass") == "MyLTI":
        return user_classes()["MyLTI"](A, Bm, C, D, c1, c2)
    if case.get("subclass") == "ShiftLTI":       # prob["c"] is the system's OWN constant: the buffer holds half of it
        return user_classes()["ShiftLTI"](A, Bm, C, D, None if c1 is None else c1 / 2, c2)
    return P.module.LTI(A, Bm, C, D, c1, c2)


def make_lqr(case: dict, prob: dict, system):
    P = pp()
    dt = getattr(torch, case["dtype"])
    Q = torch.tensor(prob["Q"], dtype=dt)
    p = torch.tensor(prob["p"], dtype=dt)
    if case["qshape"] in ("q3", "q3p2"):
        Q = Q[:, 0]
        if case.get("qexpand"):       # the same matrix for every step, given as an expanded (stride-0) 4-D view
            Q = Q.unsqueeze(1).expand(-1, case["T"], -1, -1)
    if case["qshape"] in ("p2", "q3p2"):
        p = p[:, 0]
        if case.get("qexpand"):
            p = p.unsqueeze(1).expand(-1, case["T"], -1)
    cls = user_classes()["MyLQR"] if case.get("subclass") else P.module.LQR
    return cls(system, Q, p, case["T"])


_SIN_CLASS = []


def sin_class():
    """NLS test system  f_i(x,u,t) = (A x + B u + c)_i + a_i sin(w_i.x + r_i.u + phi_i t)  (= Lqr.Sys.sinSys)"""
    if _SIN_CLASS:
        return _SIN_CLASS[0]
    P = pp()

    class SinSys(P.module.NLS):
        def __init__(self, A, B, c, a, phi, W, R):
            super().__init__()
            for nme, v in (("vfh14_A", A), ("vfh14_B", B), ("vfh14_c", c), ("vfh14_a", a), ("vfh14_phi", phi), ("vfh14_W", W), ("vfh14_R", R)):
                self.register_buffer(nme, v)

        vfh14_fail_at = -1       # user code raising: the k-th call of state_transition from now raises (then disarms itself)

        def state_transition(self, state, input, t=None):
            if self.vfh14_fail_at >= 0:
                self.vfh14_fail_at -= 1
                if self.vfh14_fail_at < 0:
                    raise ArithmeticError("user system raised (injected by the harness)")
            lin = state @ self.vfh14_A.mT + input @ self.vfh14_B.mT + self.vfh14_c
            return lin + self.vfh14_a * torch.sin(state @ self.vfh14_W.mT + input @ self.vfh14_R.mT + self.vfh14_phi * t)

        def observation(self, state, input, t=None):
            return state

    SinSys.__qualname__, SinSys.__module__ = "SinSys", __name__
    globals()["SinSys"] = SinSys
    _SIN_CLASS.append(SinSys)
    return SinSys


# ----------------------------------------------------------------------------- dense reference

class Ref:
    """independent reference for one batch item: condensed QP in the inputs, numpy float64.
    u = argmin, x its roll-out, J its cost; sg = componentwise magnitude of the terms of the gradient (the
    rounding scale of a gradient evaluation); tol_u / tol_x = |H^-1| sg, |G| tol_u + xa  (times c*eps outside)."""

    def __init__(self, A, B, c, Q, p, x0):
        T, ns, nc = Q.shape[0], A.shape[-1], B.shape[-1]
        self.T, self.ns, self.nc = T, ns, nc
        self.A, self.B, self.c, self.Q, self.p, self.x0 = A, B, c, Q, p, x0
        # x_t = G[t] u + xf[t],  t = 0..T   (formed in extended precision: the condensed problem squares the growth of the
        # roll-out, a float64 H, g would be less accurate than the tolerance on the most ill-conditioned problems)
        LD = np.longdouble
        Al, Bl, cl, Ql, pl = A.astype(LD), B.astype(LD), c.astype(LD), Q.astype(LD), p.astype(LD)
        G = np.zeros((T + 1, ns, T * nc), dtype=LD)
        xf = np.zeros((T + 1, ns), dtype=LD)
        xf[0] = x0
        for t in range(T):
            G[t + 1] = Al[t] @ G[t]
            G[t + 1][:, t * nc:(t + 1) * nc] += Bl[t]
            xf[t + 1] = Al[t] @ xf[t] + cl[t]
        H = np.zeros((T * nc, T * nc), dtype=LD)
        g = np.zeros(T * nc, dtype=LD)
        for t in range(T):
            Qxx, Qxu, Qux, Quu = Ql[t][:ns, :ns], Ql[t][:ns, ns:], Ql[t][ns:, :ns], Ql[t][ns:, ns:]
            sl = slice(t * nc, (t + 1) * nc)
            H += G[t].T @ Qxx @ G[t]
            H[:, sl] += G[t].T @ Qxu
            H[sl, :] += Qux @ G[t]
            H[sl, sl] += Quu
            g += G[t].T @ (Qxx @ xf[t] + pl[t][:ns])
            g[sl] += Qux @ xf[t] + pl[t][ns:]
        Hl = (H + H.T) / 2
        self.G, self.xf = G.astype(np.float64), xf.astype(np.float64)
        self.H, self.g = Hl.astype(np.float64), g.astype(np.float64)
        # float64 solve + iterative refinement with extended-precision residuals
        u = np.linalg.solve(self.H, -self.g)
        for _ in range(4):
            r = -(Hl @ u.astype(LD) + g)
            du = np.linalg.solve(self.H, r.astype(np.float64))
            u = (u.astype(LD) + du.astype(LD)).astype(np.float64)
            if np.abs(du).max() <= 1e-17 * (np.abs(u).max() + 1e-300):
                break
        self.u = u.reshape(T, nc)
        self.x = self.rollout(self.u)
        self.J, self.Jabs = self.cost(self.x, self.u)
        self.Hinv_abs = np.abs(np.linalg.inv(self.H))
        self.tol_u, self.tol_x, self.sg = self.tols(None)
        ev = np.linalg.eigvalsh(self.H)
        self.condH = float(ev[-1] / ev[0]) if ev[0] > 0 else float("inf")

    def tols(self, ubar, eps=2.0 ** -52):
        """componentwise error scales (to be multiplied by c*eps): |H^-1| sg and |G| tol_u + xa, where sg / xa are the
        magnitudes of the terms in the gradient / roll-out at the optimum plus, when a nominal trajectory is supplied,
        at the nominal (the code forms u = ubar + du, x - xbar: rounding proportional to the nominal's size).
        Absolute floor: eps * (size of the data) is added to every scale, i.e. quantities below eps^2 relative to the
        problem's own magnitude count as zero (float32 underflows there)."""
        sg, xa = self.grad_scale(self.u)
        S = float(max(np.abs(self.x).max(), np.abs(self.u).max(), np.abs(self.c).max(), 0.0))
        if ubar is not None:
            sg2, xa2 = self.grad_scale(np.asarray(ubar, dtype=np.float64))
            sg, xa = sg + sg2, xa + xa2
            S = max(S, float(np.abs(ubar).max()))
        Sg = float(np.abs(self.Q).max() * S + np.abs(self.p).max())
        sg = sg + eps * Sg
        tol_u = (self.Hinv_abs @ sg.reshape(-1)).reshape(self.T, self.nc) + eps * S
        tx = np.zeros((self.T + 1, self.ns))
        for t in range(self.T + 1):
            tx[t] = np.abs(self.G[t]) @ tol_u.reshape(-1) + xa[t] + eps * S
        return tol_u, tx, sg

    def floor(self, ubar, eps):
        """absolute floor eps^2 * (data magnitude) for residual-type checks: (value floor, cost floor)"""
        S = float(max(np.abs(self.x).max(), np.abs(self.u).max(), np.abs(self.c).max(), 0.0))
        if ubar is not None:
            S = max(S, float(np.abs(ubar).max()))
        return eps * eps * S, eps * eps * float(np.abs(self.Q).max() * S * S + np.abs(self.p).max() * S)

    def rollout(self, u):
        LD = np.longdouble
        x = np.zeros((self.T + 1, self.ns), dtype=LD)
        x[0] = self.x0
        for t in range(self.T):
            x[t + 1] = self.A[t].astype(LD) @ x[t] + self.B[t].astype(LD) @ u[t].astype(LD) + self.c[t]
        return x.astype(np.float64)

    def cost(self, x, u):
        J = Ja = 0.0
        for t in range(self.T):
            tau = np.concatenate([x[t], u[t]])
            J += 0.5 * tau @ self.Q[t] @ tau + self.p[t] @ tau
            Ja += 0.5 * np.abs(tau) @ np.abs(self.Q[t]) @ np.abs(tau) + np.abs(self.p[t]) @ np.abs(tau)
        return float(J), float(Ja)

    def grad(self, u):
        """gradient of the total cost w.r.t. every input, through the exact linear roll-out (adjoint recursion)"""
        x = self.rollout(u)
        ns = self.ns
        lam = np.zeros(ns)
        gr = np.zeros((self.T, self.nc))
        for t in range(self.T - 1, -1, -1):
            tau = np.concatenate([x[t], u[t]])
            gt = self.Q[t] @ tau + self.p[t]
            gr[t] = gt[ns:] + self.B[t].T @ lam
            lam = gt[:ns] + self.A[t].T @ lam
        self.lam0 = lam          # costate at t = 0 = d(optimal cost)/d(x_init) when u is the optimum (envelope theorem)
        return gr

    def grad_scale(self, u):
        """the same recursion on absolute values: magnitude of the terms summed in the gradient"""
        ns = self.ns
        xa = np.zeros((self.T + 1, ns))
        xa[0] = np.abs(self.x0)
        for t in range(self.T):
            xa[t + 1] = np.abs(self.A[t]) @ xa[t] + np.abs(self.B[t]) @ np.abs(u[t]) + np.abs(self.c[t])
        lam = np.zeros(ns)
        sg = np.zeros((self.T, self.nc))
        for t in range(self.T - 1, -1, -1):
            tau = np.concatenate([xa[t], np.abs(u[t])])
            gt = np.abs(self.Q[t]) @ tau + np.abs(self.p[t])
            sg[t] = gt[ns:] + np.abs(self.B[t]).T @ lam
            lam = gt[:ns] + np.abs(self.A[t]).T @ lam
        self.lam0_abs = lam        # magnitude of the terms summed in the costate at t = 0
        return sg, xa


def item_data(prob: dict, b: int, T: int, clock0: int = 0):
    """(A_t, B_t, c_t) for t = 0..T-1 as the solve sees them (clock starts at 0 after reset)"""
    if prob["tv"]:
        idx = list(range(T))
    else:
        idx = [0] * T
    return (np.stack([prob["A"][b, i] for i in idx]), np.stack([prob["B"][b, i] for i in idx]),
            np.stack([prob["c"][b, i] for i in idx]))


def make_ref(prob: dict, b: int, T: int) -> Ref:
    A, B, c = item_data(prob, b, T)
    return Ref(A, B, c, prob["Q"][b], prob["p"][b], prob["x0"][b])


# ----------------------------------------------------------------------------- wire

def arg_flags(case: dict):
    """how the user spells the arguments: Q once / per step, p once / per step, c1 given or None"""
    qonce = 1 if case["qshape"] in ("q3", "q3p2") else 0
    ponce = 1 if case["qshape"] in ("p2", "q3p2") else 0
    hasc = 0 if (case["c1"] == "none" and case["sys"] not in ("ltvc", "ltvp")) else 1
    return qonce, ponce, hasc


def linear_nums(case: dict, prob: dict, b: int, ubar):
    """numbers of one batch item in the layout of the driver's `readLinearX` (arguments as the user gives them: the
    model tiles Q / p given once and takes the `c1 is None` branch itself)"""
    ns, nc, T = case["ns"], case["nc"], case["T"]
    qonce, ponce, hasc = arg_flags(case)
    L = prob["L"] if prob["tv"] else 0
    nums = list(prob["x0"][b])
    for l in range(max(L, 1)):
        nums += list(prob["A"][b, l].reshape(-1)) + list(prob["B"][b, l].reshape(-1))
        if hasc:
            nums += list(prob["c"][b, l])
    for t in range(1 if qonce else T):
        nums += list(prob["Q"][b, t].reshape(-1))
    for t in range(1 if ponce else T):
        nums += list(prob["p"][b, t])
    if ubar is not None:
        nums += list(np.asarray(ubar)[b].reshape(-1))
    return [float(v) for v in nums], L


def lqr_line(case: dict, prob: dict, b: int, ubar, dt: int = 1) -> str:
    """`ubar` may have any number of steps: T steps -> flag 1, m != T steps -> flag 2+m (the model's wrong-length error branch)"""
    ns, nc, T = case["ns"], case["nc"], case["T"]
    qonce, ponce, hasc = arg_flags(case)
    nums, L = linear_nums(case, prob, b, ubar)
    hasu = 0 if ubar is None else (1 if np.asarray(ubar).shape[1] == T else 2 + np.asarray(ubar).shape[1])
    return f"c14.lqrx {ns} {nc} {T} {dt} {L} {hasu} {qonce} {ponce} {hasc} " + common.wire_list(nums)


def parse_lqr_reply(rep: str, ns: int, nc: int, T: int, gains: bool = True):
    st, toks = common.parse_reply(rep)
    if st != "ok":
        if str(toks).startswith("contract"):
            raise common.InfraError(f"stand-in solver violated its contract: {rep}")
        raise common.InfraError(f"model error reply: {rep[:200]}")
    v = np.array([float(common.from_wire(t)) for t in toks])
    o = 0
    x = v[o:o + (T + 1) * ns].reshape(T + 1, ns); o += (T + 1) * ns
    u = v[o:o + T * nc].reshape(T, nc); o += T * nc
    cost = float(v[o]); o += 1
    if not gains:
        return x, u, cost, None, None
    K = v[o:o + T * nc * ns].reshape(T, nc, ns); o += T * nc * ns
    k = v[o:o + T * nc].reshape(T, nc)
    return x, u, cost, K, k


# ----------------------------------------------------------------------------- nonlinear (sin) system

def build_sin_problem(case: dict) -> dict:
    """float64 arrays of the sin system + costs (batch 1).  `amp` bounds |a_i| * ||w_i|| (nonlinearity strength)."""
    rs = np.random.RandomState(case["data_seed"] % (2 ** 32))
    T, ns, nc = case["T"], case["ns"], case["nc"]
    n = ns + nc
    A = _amat(rs, ns, case["rho"], case["astyle"])
    Bm = rs.standard_normal((ns, nc)) * case["bscale"]
    c = rs.standard_normal(ns) * case["cscale"]
    W = rs.standard_normal((ns, ns))
    R = rs.standard_normal((ns, nc)) * 0.5
    a = case["amp"] * rs.uniform(-1, 1, ns) / np.maximum(np.linalg.norm(W, axis=1), 1e-3)
    phi = rs.uniform(-1, 1, ns) * case["phi"]
    Q = np.stack([_spd(rs, n, case["condQ"], case["qscale"]) for _ in range(T)])
    p = rs.standard_normal((T, n)) * case["pscale"]
    x0 = rs.standard_normal(ns) * case["x0scale"]
    return {"A": A, "B": Bm, "c": c, "a": a, "phi": phi, "W": W, "R": R, "Q": Q, "p": p, "x0": x0}


def sin_f(sp: dict, x, u, t):
    return sp["A"] @ x + sp["B"] @ u + sp["c"] + sp["a"] * np.sin(sp["W"] @ x + sp["R"] @ u + sp["phi"] * t)


def sin_f_scale(sp: dict, x, u):
    return np.abs(sp["A"]) @ np.abs(x) + np.abs(sp["B"]) @ np.abs(u) + np.abs(sp["c"]) + np.abs(sp["a"]) * (
        1 + np.abs(sp["W"]) @ np.abs(x) + np.abs(sp["R"]) @ np.abs(u))


def sin_lin(sp: dict, x, u, t):
    cz = np.cos(sp["W"] @ x + sp["R"] @ u + sp["phi"] * t)
    return sp["A"] + (sp["a"] * cz)[:, None] * sp["W"], sp["B"] + (sp["a"] * cz)[:, None] * sp["R"]


def make_sin_system(sp: dict):
    T_ = lambda a: torch.tensor(a, dtype=torch.float64)
    return sin_class()(T_(sp["A"]), T_(sp["B"]), T_(sp["c"]), T_(sp["a"]), T_(sp["phi"]), T_(sp["W"]), T_(sp["R"]))


def sin_nums(case: dict, sp: dict, ubar):
    nums = list(sp["x0"]) + list(sp["A"].reshape(-1)) + list(sp["B"].reshape(-1)) + list(sp["c"]) + list(sp["a"]) \
        + list(sp["phi"]) + list(sp["W"].reshape(-1)) + list(sp["R"].reshape(-1))
    for t in range(case["T"]):
        nums += list(sp["Q"][t].reshape(-1)) + list(sp["p"][t])
    if ubar is not None:
        nums += list(np.asarray(ubar).reshape(-1))
    return [float(v) for v in nums]


def nls_line(case: dict, sp: dict, ubar) -> str:
    return f"c14.nls {case['ns']} {case['nc']} {case['T']} {0 if ubar is None else 1} " + common.wire_list(sin_nums(case, sp, ubar))


def mpc_line(case: dict, nums, L: int, has_u: bool, steps: int, patience: int, pc0: int, decreasing: float, tol: float) -> str:
    """`steps` … are the constructor arguments of the stepper handed to `MPC(...)` (ignored for `stepper=None`, flag
    `given = 0`); the model applies `MPC.__init__` (`mpcInit`) itself"""
    kind = 1 if case["kind"] == "mpc_nls" else 0
    given = 0 if case.get("default_stepper") else 1
    qonce, ponce, hasc = arg_flags(case) if kind == 0 else (0, 0, 1)
    return (f"c14.mpcx {kind} {case['ns']} {case['nc']} {case['T']} {L} {1 if has_u else 0} {given} {steps} {patience} {pc0} "
            f"{qonce} {ponce} {hasc} " + common.wire_list([float(decreasing), float(tol)] + nums))


def parse_mpc_reply(rep: str, ns: int, nc: int, T: int):
    st, toks = common.parse_reply(rep)
    if st != "ok":
        if str(toks).startswith("contract"):
            raise common.InfraError(f"stand-in solver violated its contract: {rep}")
        raise common.InfraError(f"model error reply: {rep[:200]}")
    niter, pc, max_steps = int(toks[0]), int(toks[1]), int(toks[2])
    v = np.array([float(common.from_wire(t)) for t in toks[3:]])
    x = v[:(T + 1) * ns].reshape(T + 1, ns)
    u = v[(T + 1) * ns:(T + 1) * ns + T * nc].reshape(T, nc)
    return niter, pc, x, u, float(v[-1]), max_steps


# ----------------------------------------------------------------------------- hardening helpers

def refresh_from_system(case: dict, prob: dict, system) -> dict:
    """re-read A, B, c1 from the system's buffers (after the caller updated its tensors in place)"""
    bufs = dict(system.named_buffers())
    if case["sys"] == "ltvp":
        new = dict(prob)
        new["A"], new["B"], new["c"] = (bufs[k].detach().double().numpy().copy() for k in ("vfh14_tabA", "vfh14_tabB", "vfh14_tabc"))
        return new
    Bn, L = case["B"], prob["L"]
    A, Bm, c1 = bufs["_A"].detach().double().numpy(), bufs["_B"].detach().double().numpy(), bufs.get("_c1")
    new = dict(prob)
    if prob["tv"]:
        new["A"], new["B"] = A.copy(), Bm.copy()
        if c1 is None:
            new["c"] = np.zeros_like(prob["c"])
        elif case["sys"] == "ltvc":
            new["c"] = c1.detach().double().numpy().copy()
        else:
            new["c"] = np.repeat(c1.detach().double().numpy()[:, None, :], L, axis=1)
    elif case["sys"] == "lti_shared":
        new["A"] = np.broadcast_to(A, (Bn, 1) + A.shape).copy()
        new["B"] = np.broadcast_to(Bm, (Bn, 1) + Bm.shape).copy()
        new["c"] = np.zeros_like(prob["c"]) if c1 is None else np.broadcast_to(c1.detach().double().numpy(), (Bn, 1, A.shape[-1])).copy()
    else:
        new["A"], new["B"] = A[:, None].copy(), Bm[:, None].copy()
        new["c"] = np.zeros_like(prob["c"]) if c1 is None else c1.detach().double().numpy()[:, None].copy()
        if case.get("subclass") == "ShiftLTI":     # the system's own constant input is twice its buffer
            new["c"] = 2.0 * new["c"]
    return new


def item_problem(case: dict, prob: dict, b: int):
    """the sub-problem of batch item b as a batch of one"""
    cb = dict(case, B=1, mixed=False)
    pb = dict(prob)
    for k in ("A", "B", "c", "Q", "p", "x0"):
        pb[k] = prob[k][b:b + 1].copy()
    return cb, pb


def as_view(t: torch.Tensor, mode: str):
    """the same values as `t` presented as a view of a larger / strided buffer; returns (view, base)"""
    if mode == "noncontig":          # every second element of the last axis
        base = torch.full(t.shape[:-1] + (2 * t.shape[-1],), 7.5, dtype=t.dtype)
        v = base[..., ::2]
        v.copy_(t)
        return v, base
    if mode == "slice":              # interior block of a larger buffer
        shp = (t.shape[0] + 2,) + tuple(t.shape[1:-1]) + (t.shape[-1] + 3,)
        base = torch.full(shp, -3.25, dtype=t.dtype)
        v = base[1:1 + t.shape[0], ..., 2:2 + t.shape[-1]]
        v.copy_(t)
        return v, base
    if mode == "transposed" and t.ndim >= 3:   # last two axes stored swapped
        base = torch.empty(t.shape[:-2] + (t.shape[-1], t.shape[-2]), dtype=t.dtype)
        v = base.transpose(-1, -2)
        v.copy_(t)
        return v, base
    return t, t


def riccati_np(A, B, c, Q, p, x0, ubar, with_cond=False):
    """independent float64 Riccati recursion (delta formulation around the rolled-out nominal): K (T,nc,ns), k (T,nc)"""
    T, ns, nc = Q.shape[0], A.shape[-1], B.shape[-1]
    ub = np.zeros((T, nc)) if ubar is None else np.asarray(ubar, dtype=np.float64)
    xb = np.zeros((T, ns))
    xb[0] = x0
    for t in range(T - 1):
        xb[t + 1] = A[t] @ xb[t] + B[t] @ ub[t] + c[t]
    K, k = np.zeros((T, nc, ns)), np.zeros((T, nc))
    V, v = np.zeros((ns, ns)), np.zeros(ns)
    conds = np.ones(T)
    for t in range(T - 1, -1, -1):
        F = np.concatenate([A[t], B[t]], axis=1)
        pb = Q[t] @ np.concatenate([xb[t], ub[t]]) + p[t]
        Qt = Q[t] + F.T @ V @ F
        qt = pb + F.T @ v
        Qxx, Qxu, Qux, Quu = Qt[:ns, :ns], Qt[:ns, ns:], Qt[ns:, :ns], Qt[ns:, ns:]
        K[t] = -np.linalg.solve(Quu, Qux)
        k[t] = -np.linalg.solve(Quu, qt[ns:])
        conds[t] = np.linalg.cond(Quu) if with_cond else 1.0
        V = Qxx + Qxu @ K[t]
        V = (V + V.T) / 2
        v = qt[:ns] + Qxu @ k[t]
    return (K, k, conds) if with_cond else (K, k)


def gains_tolerance(r: "Ref", ubar, seed: int):
    """per-step error scales of (K_t, k_t): change under two random 1e-8 relative perturbations of all data
    (a backward-stable recursion is allowed eps-sized ones) plus the size of the gains times the condition number of
    the Quu actually factorised at this and the later steps (the error of those solves)"""
    rs = np.random.RandomState(seed % (2 ** 32))
    d = 1e-8
    K0, k0, conds = riccati_np(r.A, r.B, r.c, r.Q, r.p, r.x0, ubar, with_cond=True)
    cmax = np.maximum.accumulate(conds[::-1])[::-1]
    sK, sk = np.zeros(r.T), np.zeros(r.T)
    for _ in range(4):
        pert = lambda a: a + d * rs.uniform(-1, 1, a.shape) * (np.abs(a) + 0.01 * np.abs(a).max())
        Qp = pert(r.Q)
        Qp = (Qp + np.swapaxes(Qp, -1, -2)) / 2
        K1, k1 = riccati_np(pert(r.A), pert(r.B), pert(r.c), Qp, pert(r.p), pert(r.x0), None if ubar is None else pert(np.asarray(ubar)))
        sK = np.maximum(sK, np.abs(K1 - K0).reshape(r.T, -1).max(axis=1) / d)
        sk = np.maximum(sk, np.abs(k1 - k0).reshape(r.T, -1).max(axis=1) / d)
    return sK + cmax * np.abs(K0).reshape(r.T, -1).max(axis=1), sk + cmax * np.abs(k0).reshape(r.T, -1).max(axis=1)


def expected_iterations(costs, steps: int, patience: int, decreasing: float, tol: float):
    """documented `ReduceToBason` semantics replayed on the recorded costs of the inner solves (independent of the
    code; `steps` = the budget the stepper was built with, MPC.__init__ takes one off): returns
    (index of the first iteration after which the loop has to stop or None, patience counter then, fragile?) —
    fragile when a float comparison is within rounding of its threshold"""
    max_steps = steps - 1            # MPC.__init__: n-1 loops, 1 loop with gradient
    last, pc, frag = float("inf"), 0, False
    for i, c in enumerate(costs):
        stop = c < tol or (i + 1) >= max_steps
        frag |= 0 < abs(c - tol) <= 1e-9 * (1 + abs(c))        # an EXACT tie is decided identically everywhere
        with np.errstate(all="ignore"):
            ratio = (np.float64(last) - np.float64(c)) / np.float64(c)
        slow = bool(ratio < decreasing)
        if np.isfinite(ratio):
            frag |= 0 < abs(float(ratio) - decreasing) <= 1e-7 * (1 + abs(decreasing))
        pc = pc + 1 if slow else 0
        last = c
        if pc >= patience:
            stop = True
        if stop:
            return i, pc, frag
    return None, pc, frag


def stepper_flags(losses, max_steps: int, patience: int, decreasing: float, tol: float, pc0: int = 0):
    """documented `ReduceToBason` rules on a loss sequence after `reset()` with the patience counter at `pc0`:
    (`continual()` after every step, final patience counter, fragile?) — independent of the code"""
    last, pc, cont, frag, flags = float("inf"), pc0, True, False, []
    for i, c in enumerate(losses):
        if c < tol:
            cont = False
        if (i + 1) >= max_steps:
            cont = False
        with np.errstate(all="ignore"):
            ratio = (np.float64(last) - np.float64(c)) / np.float64(c)
        if np.isfinite(ratio):
            frag |= 0 < abs(float(ratio) - decreasing) <= 1e-9 * (1 + abs(decreasing))
        frag |= 0 < abs(c - tol) <= 1e-12 * (1 + abs(c))
        pc = pc + 1 if bool(ratio < decreasing) else 0
        last = c
        if pc >= patience:
            cont = False
        flags.append(1 if cont else 0)
    return flags, pc, frag


def storage_ptr(t: torch.Tensor):
    try:
        return t.untyped_storage().data_ptr()
    except Exception:
        return None


def owns_memory(out: torch.Tensor, others) -> str:
    """'' when `out` has no internal overlap (stride-0 axis of extent > 1) and shares storage with none of `others`
    (list of (name, tensor)); otherwise a description"""
    if any(st == 0 and sz > 1 for st, sz in zip(out.stride(), out.shape)):
        return "has internally overlapping memory (stride 0)"
    po = storage_ptr(out)
    for name, t in others:
        if isinstance(t, torch.Tensor) and t.numel() > 0 and storage_ptr(t) == po and po is not None:
            return f"shares its storage with {name}"
    return ""


# ----------------------------------------------------------------------------- user subclasses of the shipped classes

_USER = {}


def user_classes():
    """classes a user would derive from the shipped ones: each must behave by ITS OWN methods"""
    if _USER:
        return _USER
    P = pp()

    class MyLTI(P.module.LTI):
        """same system, state_transition overridden with another spelling"""
        def state_transition(self, state, input):
            z = (self.A @ state.unsqueeze(-1)).squeeze(-1) + (self.B @ input.unsqueeze(-1)).squeeze(-1)
            return z if self.c1 is None else z + self.c1

    class ShiftLTI(P.module.LTI):
        """a DIFFERENT system: the constant input is twice the stored buffer (property overridden)"""
        @property
        def c1(self):
            return None if self._c1 is None else 2.0 * self._c1

    class MyLQR(P.module.LQR):
        def forward(self, x_init, dt=1, u_traj=None, u_lower=None, u_upper=None, du=None):
            return super().forward(x_init, dt, u_traj, u_lower, u_upper, du)

    class MyMPC(P.module.MPC):
        pass

    class FixedSteps(P.utils.ReduceToBason):
        """user stepper derived from the shipped one: stop after exactly `k` steps, whatever the losses"""
        def __init__(self, k):
            super().__init__(steps=10 ** 6)
            self.vfh14_k = k

        def step(self, loss):
            self.steps = self.steps + 1
            self.last = loss
            if self.steps >= self.vfh14_k:
                self._continual = False

    class DuckStepper:
        """user stepper NOT derived from anything: the protocol MPC uses (max_steps, reset, continual, step)"""
        def __init__(self, k):
            self.k, self.max_steps, self.n, self.go = k, 10 ** 6, 0, True

        def reset(self):
            self.n, self.go = 0, True

        def continual(self):
            return self.go

        def step(self, loss):
            self.n += 1
            self.go = self.n < self.k

    class PropLTV(P.module.LTV):
        """user LTV whose A, B, c1 are PROPERTIES computed from the clock; the constructor receives None for all of them"""
        def __init__(self, At, Bt, ct, ns, nc):
            super().__init__(None, None, None, None, None, None)
            self.register_buffer("vfh14_tabA", At)
            self.register_buffer("vfh14_tabB", Bt)
            self.register_buffer("vfh14_tabc", ct)
            self.vfh14_ns, self.vfh14_nc = ns, nc

        @property
        def A(self):
            return self.vfh14_tabA[..., self._t, :, :]

        @property
        def B(self):
            return self.vfh14_tabB[..., self._t, :, :]

        @property
        def C(self):
            return torch.eye(self.vfh14_ns, dtype=self.vfh14_tabA.dtype).expand(self.vfh14_tabA.shape[0], -1, -1)

        @property
        def D(self):
            return torch.zeros(self.vfh14_tabA.shape[0], self.vfh14_ns, self.vfh14_nc, dtype=self.vfh14_tabA.dtype)

        @property
        def c1(self):
            return self.vfh14_tabc[..., self._t, :]

    class EchoSys(P.module.NLS):
        """callbacks that RETURN THEIR ARGUMENT: x+ = x (the very tensor), y = x"""
        def state_transition(self, state, input, t=None):
            return state

        def observation(self, state, input, t=None):
            return state

    class ViewSys(P.module.NLS):
        """callbacks that return a VIEW of an argument: x+ = u[..., :ns], y = x[..., :1]"""
        def __init__(self, ns):
            super().__init__()
            self.vfh14_ns = ns

        def state_transition(self, state, input, t=None):
            return input[..., :self.vfh14_ns]

        def observation(self, state, input, t=None):
            return state[..., :1]

    for c_ in (MyLTI, ShiftLTI, MyLQR, MyMPC, FixedSteps, DuckStepper, PropLTV, EchoSys, ViewSys):
        c_.__qualname__, c_.__module__ = c_.__name__, __name__
        globals()[c_.__name__] = c_
        _USER[c_.__name__] = c_
    return _USER
