import Proofs.Lemmas.AutogradChain
import Proofs.Lemmas.AutogradExp
import Proofs.Lemmas.AutogradZero
import Proofs.Lemmas.AutogradSemantic
import Proofs.Lemmas.AutogradGrad
import Proofs.Lemmas.AutogradBatch
import Proofs.Lemmas.AutogradExamples
import Proofs.Lemmas.AutogradRoot
import Proofs.Lemmas.AutogradDenoms
import Proofs.Lemmas.AutogradSim3Trunc
import Proofs.Lemmas.AutogradLocalSO3a
import Proofs.Lemmas.AutogradLocalSO3b
import Proofs.Lemmas.AutogradLocalSE3a
import Proofs.Lemmas.AutogradLocalSE3b
import Proofs.Lemmas.AutogradLocalRxSO3a
import Proofs.Lemmas.AutogradLocalRxSO3b
import Proofs.Lemmas.AutogradLocalSim3a
import Proofs.Lemmas.AutogradLocalSim3b
/-!
# C04 — autograd through LieTensor ops gives exact left-perturbation Jacobians

Model: `lean/Pose/Model/Autograd.lean` (every hand-written `backward` of `operation.py` as written, expression trees
`Prog`, `eval`, `backprop`, `grad`) on top of the forward passes of `Lie.lean`; everything below is at `α = ℝ`.

Vocabulary (`Proofs/Lemmas/Autograd.lean`):
* `LCurve n γ d` — the first `n` storage coordinates of the curve `γ` are differentiable at `0` with derivatives `d`;
* `liftG g X τ` — storage-coordinate velocity at `t = 0` of the left perturbation `t ↦ Exp(tτ)·X`
  (`q̇ = ½(φ,0)·q`, `ṫ = ρ + φ×t (+ σt)`, `ṡ = σs`);  `GTangent g γ τ := LCurve g.gdim γ (liftG g (γ 0) τ)`;
* `UnitQ`, `ScalePos` — the stored element is valid (unit quaternion, POSITIVE scale: `torch.log` of a negative scale is NaN while
  `Real.log x = log |x|`); `ScaleNZ` (scale `≠ 0`) is what the algebraic lemmas `Inv` / `AdjT` need and is implied by `ScalePos`.

Clauses of the property and where they are proved
1. *Every local backward is the true left-perturbation derivative* — §1: for each of the four groups and each of
   `Mul, Inv, Act, Act4, Adj, AdjT, matrix()`: if the inputs move along **arbitrary** differentiable curves with
   left-perturbation tangents `τ` (group inputs) / ordinary derivatives (algebra, Euclidean inputs), the output moves with
   the tangent built from the very matrices the `backward` multiplies by.  The curve formulation composes, so these are
   statements about every position inside a program, not only about perturbed leaves.  §2: `so3_Exp` (closed-form
   branch and zero vector): `so3_Jl` *is* the left Jacobian of the exponential.
2. *Chain rule for all programs* — §3 `backprop_adjoint`: for every well-typed expression tree, of any depth and with any
   sharing of leaves, `Σ_leaves ⟨contribution, τ_leaf⟩ = ⟨c, forward tangent⟩`, the forward tangent composing the local
   Jacobians; `eval_length`, `tangent_length` (typing is preserved).
3. *Remaining slot zero* — §4 `backprop_slot_zero`, `grad_last_slot_zero`.
4. *No NaN / Inf at the identity / zero vector* — NOT a theorem: the code evaluates both branches and masks (`idx * nan_to_num(…)`),
   which the model's `if` cannot represent; decided by the harness (structural check of every case, corner and tie corpora).  §5 states
   which linear maps the backward passes are there (`c ↦ c[:-1]`, `c ↦ (c,0)`; true for any coefficients since `hat 0 = 0`) and that the
   model selects the Taylor branches there (`Taylor_branch_selected_at_zero`); §7 that these maps are the true derivatives.
5. *sim3 truncation* — §6: distance of `sim3_Jl` / `sim3_Jl_inv` from the exact left-Jacobian series `≤ C·‖ad ξ‖⁶` for `‖ad ξ‖ ≤ 1`
   (`_partial`: the link series = derivative of the coded `sim3_Exp` is not proved).
6. *Group-valued roots* — §7 `group_root_gradient_exact_algebraic` (full strength), `group_root_gradient_exact_partial`: `.grad` for the
   storage cotangent `(c,0)` is the derivative of `⟨c, Log(Y(t)·Y(0)⁻¹)⟩`.
7. *Not covered by any theorem*: the SE3 `calcQ` series branch `eps < θ ≤ 0.05`, the Taylor branches at `0 < θ ≤ eps`, float rounding.
-/
namespace PP.AD
open PP

/-! ## 1. Local correctness of the algebraic `Function`s (all four groups) -/

-- BEGIN GENERATED LOCAL

/-! ### `SO3` -/

/-- `SO3_Mul.backward`: `X_grad = c[:-1]`, `Y_grad = c[:-1] @ Adj(X)` are the transposes of the true tangent map -/
theorem SO3_Mul_tangent (X Y : ℝ → DVec ℝ) (a0 a1 a2 b0 b1 b2 : ℝ)
    (hX : GTangent .SO3 X [a0, a1, a2]) (hY : GTangent .SO3 Y [b0, b1, b2]) (hu : UnitQ .SO3 (X 0)) :
    GTangent .SO3 (fun t => mulF .SO3 (X t) (Y t)) (DVec.add [a0, a1, a2] ((AdjMat .SO3 (X 0)).mulVec [b0, b1, b2])) :=
  mul_tangent_SO3 X Y a0 a1 a2 b0 b1 b2 hX hY hu

/-- `SO3_Inv.backward`: `-(c[:-1] @ Adj(Y))`, `Y = X⁻¹` -/
theorem SO3_Inv_tangent (X : ℝ → DVec ℝ) (a0 a1 a2 : ℝ) (hX : GTangent .SO3 X [a0, a1, a2]) (hu : UnitQ .SO3 (X 0)) :
    GTangent .SO3 (fun t => invF .SO3 (X t)) (DVec.neg ((AdjMat .SO3 (invF .SO3 (X 0))).mulVec [a0, a1, a2])) :=
  inv_tangent_SO3 X a0 a1 a2 hX hu

/-- `SO3_Act.backward`: `X_grad = c @ Act_Jacobian(out)`, `p_grad = c @ Matrix(X)[:3,:3]` -/
theorem SO3_Act_tangent (X p : ℝ → DVec ℝ) (a0 a1 a2 b0 b1 b2 : ℝ)
    (hX : GTangent .SO3 X [a0, a1, a2]) (hp : LCurve 3 p [b0, b1, b2]) (hu : UnitQ .SO3 (X 0)) :
    LCurve 3 (fun t => actF .SO3 (X t) (p t))
      (DVec.add ((ActJac .SO3 (v3 (actF .SO3 (X 0) (p 0)))).mulVec [a0, a1, a2]) (DMat.mulVec (Mat33 .SO3 (X 0)).toRows [b0, b1, b2])) :=
  act_tangent_SO3 X p a0 a1 a2 b0 b1 b2 hX hp hu

/-- `SO3_Act4.backward` (homogeneous points, any `w`) -/
theorem SO3_Act4_tangent (X p : ℝ → DVec ℝ) (a0 a1 a2 b0 b1 b2 b3 : ℝ)
    (hX : GTangent .SO3 X [a0, a1, a2]) (hp : LCurve 4 p [b0, b1, b2, b3]) (hu : UnitQ .SO3 (X 0)) :
    LCurve 4 (fun t => act4F .SO3 (X t) (p t))
      (DVec.add ((Act4Jac .SO3 (v3 (act4F .SO3 (X 0) (p 0))) (nth (act4F .SO3 (X 0) (p 0)) 3)).mulVec [a0, a1, a2])
        ((Mat44 .SO3 (X 0)).mulVec [b0, b1, b2, b3])) :=
  act4_tangent_SO3 X p a0 a1 a2 b0 b1 b2 b3 hX hp hu

/-- `SO3_AdjXa.backward`: `X_grad = -c @ adj(out)`, `a_grad = c @ Adj(X)` -/
theorem SO3_Adj_tangent (X : ℝ → DVec ℝ) (al0 al1 al2 : ℝ → ℝ) (a0 a1 a2 b0 b1 b2 : ℝ)
    (hX : GTangent .SO3 X [a0, a1, a2]) (hal0 : HasDerivAt al0 b0 0) (hal1 : HasDerivAt al1 b1 0) (hal2 : HasDerivAt al2 b2 0) (hu : UnitQ .SO3 (X 0)) :
    LCurve 3 (fun t => adjF .SO3 (X t) [al0 t, al1 t, al2 t])
      (DVec.add (DVec.neg ((adMat .SO3 (adjF .SO3 (X 0) [al0 0, al1 0, al2 0])).mulVec [a0, a1, a2])) ((AdjMat .SO3 (X 0)).mulVec [b0, b1, b2])) :=
  adj_tangent_SO3 X al0 al1 al2 a0 a1 a2 b0 b1 b2 hX hal0 hal1 hal2 hu

/-- `SO3_AdjTXa.backward`: both returned gradients are transposes of `Adj(X⁻¹)·adj(a)·τ + Adj(X⁻¹)·da` -/
theorem SO3_AdjT_tangent (X : ℝ → DVec ℝ) (al0 al1 al2 : ℝ → ℝ) (a0 a1 a2 b0 b1 b2 : ℝ)
    (hX : GTangent .SO3 X [a0, a1, a2]) (hal0 : HasDerivAt al0 b0 0) (hal1 : HasDerivAt al1 b1 0) (hal2 : HasDerivAt al2 b2 0) (hu : UnitQ .SO3 (X 0)) :
    LCurve 3 (fun t => adjTF .SO3 (X t) [al0 t, al1 t, al2 t])
      (DVec.add ((AdjMat .SO3 (invF .SO3 (X 0))).mulVec ((adMat .SO3 [al0 0, al1 0, al2 0]).mulVec [a0, a1, a2]))
        ((AdjMat .SO3 (invF .SO3 (X 0))).mulVec [b0, b1, b2])) :=
  adjT_tangent_SO3 X al0 al1 al2 a0 a1 a2 b0 b1 b2 hX hal0 hal1 hal2 hu

/-- `matrix()` of a `SO3` element (`3×3`, through `Act` on the identity columns) -/
theorem SO3_matrix_tangent (X : ℝ → DVec ℝ) (a0 a1 a2 : ℝ) (hX : GTangent .SO3 X [a0, a1, a2]) (hu : UnitQ .SO3 (X 0)) :
    LCurve 9 (fun t => matrixF .SO3 (X t)) (matrixT .SO3 (X 0) [a0, a1, a2]) :=
  matrix_tangent_SO3 X a0 a1 a2 hX hu

/-! ### `SE3` -/

/-- `SE3_Mul.backward`: `X_grad = c[:-1]`, `Y_grad = c[:-1] @ Adj(X)` are the transposes of the true tangent map -/
theorem SE3_Mul_tangent (X Y : ℝ → DVec ℝ) (a0 a1 a2 a3 a4 a5 b0 b1 b2 b3 b4 b5 : ℝ)
    (hX : GTangent .SE3 X [a0, a1, a2, a3, a4, a5]) (hY : GTangent .SE3 Y [b0, b1, b2, b3, b4, b5]) (hu : UnitQ .SE3 (X 0)) :
    GTangent .SE3 (fun t => mulF .SE3 (X t) (Y t)) (DVec.add [a0, a1, a2, a3, a4, a5] ((AdjMat .SE3 (X 0)).mulVec [b0, b1, b2, b3, b4, b5])) :=
  mul_tangent_SE3 X Y a0 a1 a2 a3 a4 a5 b0 b1 b2 b3 b4 b5 hX hY hu

/-- `SE3_Inv.backward`: `-(c[:-1] @ Adj(Y))`, `Y = X⁻¹` -/
theorem SE3_Inv_tangent (X : ℝ → DVec ℝ) (a0 a1 a2 a3 a4 a5 : ℝ) (hX : GTangent .SE3 X [a0, a1, a2, a3, a4, a5]) (hu : UnitQ .SE3 (X 0)) :
    GTangent .SE3 (fun t => invF .SE3 (X t)) (DVec.neg ((AdjMat .SE3 (invF .SE3 (X 0))).mulVec [a0, a1, a2, a3, a4, a5])) :=
  inv_tangent_SE3 X a0 a1 a2 a3 a4 a5 hX hu

/-- `SE3_Act.backward`: `X_grad = c @ Act_Jacobian(out)`, `p_grad = c @ Matrix(X)[:3,:3]` -/
theorem SE3_Act_tangent (X p : ℝ → DVec ℝ) (a0 a1 a2 a3 a4 a5 b0 b1 b2 : ℝ)
    (hX : GTangent .SE3 X [a0, a1, a2, a3, a4, a5]) (hp : LCurve 3 p [b0, b1, b2]) (hu : UnitQ .SE3 (X 0)) :
    LCurve 3 (fun t => actF .SE3 (X t) (p t))
      (DVec.add ((ActJac .SE3 (v3 (actF .SE3 (X 0) (p 0)))).mulVec [a0, a1, a2, a3, a4, a5]) (DMat.mulVec (Mat33 .SE3 (X 0)).toRows [b0, b1, b2])) :=
  act_tangent_SE3 X p a0 a1 a2 a3 a4 a5 b0 b1 b2 hX hp hu

/-- `SE3_Act4.backward` (homogeneous points, any `w`) -/
theorem SE3_Act4_tangent (X p : ℝ → DVec ℝ) (a0 a1 a2 a3 a4 a5 b0 b1 b2 b3 : ℝ)
    (hX : GTangent .SE3 X [a0, a1, a2, a3, a4, a5]) (hp : LCurve 4 p [b0, b1, b2, b3]) (hu : UnitQ .SE3 (X 0)) :
    LCurve 4 (fun t => act4F .SE3 (X t) (p t))
      (DVec.add ((Act4Jac .SE3 (v3 (act4F .SE3 (X 0) (p 0))) (nth (act4F .SE3 (X 0) (p 0)) 3)).mulVec [a0, a1, a2, a3, a4, a5])
        ((Mat44 .SE3 (X 0)).mulVec [b0, b1, b2, b3])) :=
  act4_tangent_SE3 X p a0 a1 a2 a3 a4 a5 b0 b1 b2 b3 hX hp hu

/-- `SE3_AdjXa.backward`: `X_grad = -c @ adj(out)`, `a_grad = c @ Adj(X)` -/
theorem SE3_Adj_tangent (X : ℝ → DVec ℝ) (al0 al1 al2 al3 al4 al5 : ℝ → ℝ) (a0 a1 a2 a3 a4 a5 b0 b1 b2 b3 b4 b5 : ℝ)
    (hX : GTangent .SE3 X [a0, a1, a2, a3, a4, a5]) (hal0 : HasDerivAt al0 b0 0) (hal1 : HasDerivAt al1 b1 0) (hal2 : HasDerivAt al2 b2 0) (hal3 : HasDerivAt al3 b3 0) (hal4 : HasDerivAt al4 b4 0) (hal5 : HasDerivAt al5 b5 0) (hu : UnitQ .SE3 (X 0)) :
    LCurve 6 (fun t => adjF .SE3 (X t) [al0 t, al1 t, al2 t, al3 t, al4 t, al5 t])
      (DVec.add (DVec.neg ((adMat .SE3 (adjF .SE3 (X 0) [al0 0, al1 0, al2 0, al3 0, al4 0, al5 0])).mulVec [a0, a1, a2, a3, a4, a5])) ((AdjMat .SE3 (X 0)).mulVec [b0, b1, b2, b3, b4, b5])) :=
  adj_tangent_SE3 X al0 al1 al2 al3 al4 al5 a0 a1 a2 a3 a4 a5 b0 b1 b2 b3 b4 b5 hX hal0 hal1 hal2 hal3 hal4 hal5 hu

/-- `SE3_AdjTXa.backward`: both returned gradients are transposes of `Adj(X⁻¹)·adj(a)·τ + Adj(X⁻¹)·da` -/
theorem SE3_AdjT_tangent (X : ℝ → DVec ℝ) (al0 al1 al2 al3 al4 al5 : ℝ → ℝ) (a0 a1 a2 a3 a4 a5 b0 b1 b2 b3 b4 b5 : ℝ)
    (hX : GTangent .SE3 X [a0, a1, a2, a3, a4, a5]) (hal0 : HasDerivAt al0 b0 0) (hal1 : HasDerivAt al1 b1 0) (hal2 : HasDerivAt al2 b2 0) (hal3 : HasDerivAt al3 b3 0) (hal4 : HasDerivAt al4 b4 0) (hal5 : HasDerivAt al5 b5 0) (hu : UnitQ .SE3 (X 0)) :
    LCurve 6 (fun t => adjTF .SE3 (X t) [al0 t, al1 t, al2 t, al3 t, al4 t, al5 t])
      (DVec.add ((AdjMat .SE3 (invF .SE3 (X 0))).mulVec ((adMat .SE3 [al0 0, al1 0, al2 0, al3 0, al4 0, al5 0]).mulVec [a0, a1, a2, a3, a4, a5]))
        ((AdjMat .SE3 (invF .SE3 (X 0))).mulVec [b0, b1, b2, b3, b4, b5])) :=
  adjT_tangent_SE3 X al0 al1 al2 al3 al4 al5 a0 a1 a2 a3 a4 a5 b0 b1 b2 b3 b4 b5 hX hal0 hal1 hal2 hal3 hal4 hal5 hu

/-- `matrix()` of a `SE3` element (`4×4`, through `Act` on the identity columns) -/
theorem SE3_matrix_tangent (X : ℝ → DVec ℝ) (a0 a1 a2 a3 a4 a5 : ℝ) (hX : GTangent .SE3 X [a0, a1, a2, a3, a4, a5]) (hu : UnitQ .SE3 (X 0)) :
    LCurve 16 (fun t => matrixF .SE3 (X t)) (matrixT .SE3 (X 0) [a0, a1, a2, a3, a4, a5]) :=
  matrix_tangent_SE3 X a0 a1 a2 a3 a4 a5 hX hu

/-! ### `RxSO3` -/

/-- `RxSO3_Mul.backward`: `X_grad = c[:-1]`, `Y_grad = c[:-1] @ Adj(X)` are the transposes of the true tangent map -/
theorem RxSO3_Mul_tangent (X Y : ℝ → DVec ℝ) (a0 a1 a2 a3 b0 b1 b2 b3 : ℝ)
    (hX : GTangent .RxSO3 X [a0, a1, a2, a3]) (hY : GTangent .RxSO3 Y [b0, b1, b2, b3]) (hu : UnitQ .RxSO3 (X 0)) :
    GTangent .RxSO3 (fun t => mulF .RxSO3 (X t) (Y t)) (DVec.add [a0, a1, a2, a3] ((AdjMat .RxSO3 (X 0)).mulVec [b0, b1, b2, b3])) :=
  mul_tangent_RxSO3 X Y a0 a1 a2 a3 b0 b1 b2 b3 hX hY hu

/-- `RxSO3_Inv.backward`: `-(c[:-1] @ Adj(Y))`, `Y = X⁻¹` -/
theorem RxSO3_Inv_tangent (X : ℝ → DVec ℝ) (a0 a1 a2 a3 : ℝ) (hX : GTangent .RxSO3 X [a0, a1, a2, a3]) (hu : UnitQ .RxSO3 (X 0)) (hs : ScaleNZ .RxSO3 (X 0)) :
    GTangent .RxSO3 (fun t => invF .RxSO3 (X t)) (DVec.neg ((AdjMat .RxSO3 (invF .RxSO3 (X 0))).mulVec [a0, a1, a2, a3])) :=
  inv_tangent_RxSO3 X a0 a1 a2 a3 hX hu hs

/-- `RxSO3_Act.backward`: `X_grad = c @ Act_Jacobian(out)`, `p_grad = c @ Matrix(X)[:3,:3]` -/
theorem RxSO3_Act_tangent (X p : ℝ → DVec ℝ) (a0 a1 a2 a3 b0 b1 b2 : ℝ)
    (hX : GTangent .RxSO3 X [a0, a1, a2, a3]) (hp : LCurve 3 p [b0, b1, b2]) (hu : UnitQ .RxSO3 (X 0)) :
    LCurve 3 (fun t => actF .RxSO3 (X t) (p t))
      (DVec.add ((ActJac .RxSO3 (v3 (actF .RxSO3 (X 0) (p 0)))).mulVec [a0, a1, a2, a3]) (DMat.mulVec (Mat33 .RxSO3 (X 0)).toRows [b0, b1, b2])) :=
  act_tangent_RxSO3 X p a0 a1 a2 a3 b0 b1 b2 hX hp hu

/-- `RxSO3_Act4.backward` (homogeneous points, any `w`) -/
theorem RxSO3_Act4_tangent (X p : ℝ → DVec ℝ) (a0 a1 a2 a3 b0 b1 b2 b3 : ℝ)
    (hX : GTangent .RxSO3 X [a0, a1, a2, a3]) (hp : LCurve 4 p [b0, b1, b2, b3]) (hu : UnitQ .RxSO3 (X 0)) :
    LCurve 4 (fun t => act4F .RxSO3 (X t) (p t))
      (DVec.add ((Act4Jac .RxSO3 (v3 (act4F .RxSO3 (X 0) (p 0))) (nth (act4F .RxSO3 (X 0) (p 0)) 3)).mulVec [a0, a1, a2, a3])
        ((Mat44 .RxSO3 (X 0)).mulVec [b0, b1, b2, b3])) :=
  act4_tangent_RxSO3 X p a0 a1 a2 a3 b0 b1 b2 b3 hX hp hu

/-- `RxSO3_AdjXa.backward`: `X_grad = -c @ adj(out)`, `a_grad = c @ Adj(X)` -/
theorem RxSO3_Adj_tangent (X : ℝ → DVec ℝ) (al0 al1 al2 al3 : ℝ → ℝ) (a0 a1 a2 a3 b0 b1 b2 b3 : ℝ)
    (hX : GTangent .RxSO3 X [a0, a1, a2, a3]) (hal0 : HasDerivAt al0 b0 0) (hal1 : HasDerivAt al1 b1 0) (hal2 : HasDerivAt al2 b2 0) (hal3 : HasDerivAt al3 b3 0) (hu : UnitQ .RxSO3 (X 0)) :
    LCurve 4 (fun t => adjF .RxSO3 (X t) [al0 t, al1 t, al2 t, al3 t])
      (DVec.add (DVec.neg ((adMat .RxSO3 (adjF .RxSO3 (X 0) [al0 0, al1 0, al2 0, al3 0])).mulVec [a0, a1, a2, a3])) ((AdjMat .RxSO3 (X 0)).mulVec [b0, b1, b2, b3])) :=
  adj_tangent_RxSO3 X al0 al1 al2 al3 a0 a1 a2 a3 b0 b1 b2 b3 hX hal0 hal1 hal2 hal3 hu

/-- `RxSO3_AdjTXa.backward`: both returned gradients are transposes of `Adj(X⁻¹)·adj(a)·τ + Adj(X⁻¹)·da` -/
theorem RxSO3_AdjT_tangent (X : ℝ → DVec ℝ) (al0 al1 al2 al3 : ℝ → ℝ) (a0 a1 a2 a3 b0 b1 b2 b3 : ℝ)
    (hX : GTangent .RxSO3 X [a0, a1, a2, a3]) (hal0 : HasDerivAt al0 b0 0) (hal1 : HasDerivAt al1 b1 0) (hal2 : HasDerivAt al2 b2 0) (hal3 : HasDerivAt al3 b3 0) (hu : UnitQ .RxSO3 (X 0)) (hs : ScaleNZ .RxSO3 (X 0)) :
    LCurve 4 (fun t => adjTF .RxSO3 (X t) [al0 t, al1 t, al2 t, al3 t])
      (DVec.add ((AdjMat .RxSO3 (invF .RxSO3 (X 0))).mulVec ((adMat .RxSO3 [al0 0, al1 0, al2 0, al3 0]).mulVec [a0, a1, a2, a3]))
        ((AdjMat .RxSO3 (invF .RxSO3 (X 0))).mulVec [b0, b1, b2, b3])) :=
  adjT_tangent_RxSO3 X al0 al1 al2 al3 a0 a1 a2 a3 b0 b1 b2 b3 hX hal0 hal1 hal2 hal3 hu hs

/-- `matrix()` of a `RxSO3` element (`4×4`, through `Act` on the identity columns) -/
theorem RxSO3_matrix_tangent (X : ℝ → DVec ℝ) (a0 a1 a2 a3 : ℝ) (hX : GTangent .RxSO3 X [a0, a1, a2, a3]) (hu : UnitQ .RxSO3 (X 0)) :
    LCurve 16 (fun t => matrixF .RxSO3 (X t)) (matrixT .RxSO3 (X 0) [a0, a1, a2, a3]) :=
  matrix_tangent_RxSO3 X a0 a1 a2 a3 hX hu

/-! ### `Sim3` -/

/-- `Sim3_Mul.backward`: `X_grad = c[:-1]`, `Y_grad = c[:-1] @ Adj(X)` are the transposes of the true tangent map -/
theorem Sim3_Mul_tangent (X Y : ℝ → DVec ℝ) (a0 a1 a2 a3 a4 a5 a6 b0 b1 b2 b3 b4 b5 b6 : ℝ)
    (hX : GTangent .Sim3 X [a0, a1, a2, a3, a4, a5, a6]) (hY : GTangent .Sim3 Y [b0, b1, b2, b3, b4, b5, b6]) (hu : UnitQ .Sim3 (X 0)) :
    GTangent .Sim3 (fun t => mulF .Sim3 (X t) (Y t)) (DVec.add [a0, a1, a2, a3, a4, a5, a6] ((AdjMat .Sim3 (X 0)).mulVec [b0, b1, b2, b3, b4, b5, b6])) :=
  mul_tangent_Sim3 X Y a0 a1 a2 a3 a4 a5 a6 b0 b1 b2 b3 b4 b5 b6 hX hY hu

/-- `Sim3_Inv.backward`: `-(c[:-1] @ Adj(Y))`, `Y = X⁻¹` -/
theorem Sim3_Inv_tangent (X : ℝ → DVec ℝ) (a0 a1 a2 a3 a4 a5 a6 : ℝ) (hX : GTangent .Sim3 X [a0, a1, a2, a3, a4, a5, a6]) (hu : UnitQ .Sim3 (X 0)) (hs : ScaleNZ .Sim3 (X 0)) :
    GTangent .Sim3 (fun t => invF .Sim3 (X t)) (DVec.neg ((AdjMat .Sim3 (invF .Sim3 (X 0))).mulVec [a0, a1, a2, a3, a4, a5, a6])) :=
  inv_tangent_Sim3 X a0 a1 a2 a3 a4 a5 a6 hX hu hs

/-- `Sim3_Act.backward`: `X_grad = c @ Act_Jacobian(out)`, `p_grad = c @ Matrix(X)[:3,:3]` -/
theorem Sim3_Act_tangent (X p : ℝ → DVec ℝ) (a0 a1 a2 a3 a4 a5 a6 b0 b1 b2 : ℝ)
    (hX : GTangent .Sim3 X [a0, a1, a2, a3, a4, a5, a6]) (hp : LCurve 3 p [b0, b1, b2]) (hu : UnitQ .Sim3 (X 0)) :
    LCurve 3 (fun t => actF .Sim3 (X t) (p t))
      (DVec.add ((ActJac .Sim3 (v3 (actF .Sim3 (X 0) (p 0)))).mulVec [a0, a1, a2, a3, a4, a5, a6]) (DMat.mulVec (Mat33 .Sim3 (X 0)).toRows [b0, b1, b2])) :=
  act_tangent_Sim3 X p a0 a1 a2 a3 a4 a5 a6 b0 b1 b2 hX hp hu

/-- `Sim3_Act4.backward` (homogeneous points, any `w`) -/
theorem Sim3_Act4_tangent (X p : ℝ → DVec ℝ) (a0 a1 a2 a3 a4 a5 a6 b0 b1 b2 b3 : ℝ)
    (hX : GTangent .Sim3 X [a0, a1, a2, a3, a4, a5, a6]) (hp : LCurve 4 p [b0, b1, b2, b3]) (hu : UnitQ .Sim3 (X 0)) :
    LCurve 4 (fun t => act4F .Sim3 (X t) (p t))
      (DVec.add ((Act4Jac .Sim3 (v3 (act4F .Sim3 (X 0) (p 0))) (nth (act4F .Sim3 (X 0) (p 0)) 3)).mulVec [a0, a1, a2, a3, a4, a5, a6])
        ((Mat44 .Sim3 (X 0)).mulVec [b0, b1, b2, b3])) :=
  act4_tangent_Sim3 X p a0 a1 a2 a3 a4 a5 a6 b0 b1 b2 b3 hX hp hu

/-- `Sim3_AdjXa.backward`: `X_grad = -c @ adj(out)`, `a_grad = c @ Adj(X)` -/
theorem Sim3_Adj_tangent (X : ℝ → DVec ℝ) (al0 al1 al2 al3 al4 al5 al6 : ℝ → ℝ) (a0 a1 a2 a3 a4 a5 a6 b0 b1 b2 b3 b4 b5 b6 : ℝ)
    (hX : GTangent .Sim3 X [a0, a1, a2, a3, a4, a5, a6]) (hal0 : HasDerivAt al0 b0 0) (hal1 : HasDerivAt al1 b1 0) (hal2 : HasDerivAt al2 b2 0) (hal3 : HasDerivAt al3 b3 0) (hal4 : HasDerivAt al4 b4 0) (hal5 : HasDerivAt al5 b5 0) (hal6 : HasDerivAt al6 b6 0) (hu : UnitQ .Sim3 (X 0)) :
    LCurve 7 (fun t => adjF .Sim3 (X t) [al0 t, al1 t, al2 t, al3 t, al4 t, al5 t, al6 t])
      (DVec.add (DVec.neg ((adMat .Sim3 (adjF .Sim3 (X 0) [al0 0, al1 0, al2 0, al3 0, al4 0, al5 0, al6 0])).mulVec [a0, a1, a2, a3, a4, a5, a6])) ((AdjMat .Sim3 (X 0)).mulVec [b0, b1, b2, b3, b4, b5, b6])) :=
  adj_tangent_Sim3 X al0 al1 al2 al3 al4 al5 al6 a0 a1 a2 a3 a4 a5 a6 b0 b1 b2 b3 b4 b5 b6 hX hal0 hal1 hal2 hal3 hal4 hal5 hal6 hu

/-- `Sim3_AdjTXa.backward`: both returned gradients are transposes of `Adj(X⁻¹)·adj(a)·τ + Adj(X⁻¹)·da` -/
theorem Sim3_AdjT_tangent (X : ℝ → DVec ℝ) (al0 al1 al2 al3 al4 al5 al6 : ℝ → ℝ) (a0 a1 a2 a3 a4 a5 a6 b0 b1 b2 b3 b4 b5 b6 : ℝ)
    (hX : GTangent .Sim3 X [a0, a1, a2, a3, a4, a5, a6]) (hal0 : HasDerivAt al0 b0 0) (hal1 : HasDerivAt al1 b1 0) (hal2 : HasDerivAt al2 b2 0) (hal3 : HasDerivAt al3 b3 0) (hal4 : HasDerivAt al4 b4 0) (hal5 : HasDerivAt al5 b5 0) (hal6 : HasDerivAt al6 b6 0) (hu : UnitQ .Sim3 (X 0)) (hs : ScaleNZ .Sim3 (X 0)) :
    LCurve 7 (fun t => adjTF .Sim3 (X t) [al0 t, al1 t, al2 t, al3 t, al4 t, al5 t, al6 t])
      (DVec.add ((AdjMat .Sim3 (invF .Sim3 (X 0))).mulVec ((adMat .Sim3 [al0 0, al1 0, al2 0, al3 0, al4 0, al5 0, al6 0]).mulVec [a0, a1, a2, a3, a4, a5, a6]))
        ((AdjMat .Sim3 (invF .Sim3 (X 0))).mulVec [b0, b1, b2, b3, b4, b5, b6])) :=
  adjT_tangent_Sim3 X al0 al1 al2 al3 al4 al5 al6 a0 a1 a2 a3 a4 a5 a6 b0 b1 b2 b3 b4 b5 b6 hX hal0 hal1 hal2 hal3 hal4 hal5 hal6 hu hs

/-- `matrix()` of a `Sim3` element (`4×4`, through `Act` on the identity columns) -/
theorem Sim3_matrix_tangent (X : ℝ → DVec ℝ) (a0 a1 a2 a3 a4 a5 a6 : ℝ) (hX : GTangent .Sim3 X [a0, a1, a2, a3, a4, a5, a6]) (hu : UnitQ .Sim3 (X 0)) :
    LCurve 16 (fun t => matrixF .Sim3 (X t)) (matrixT .Sim3 (X 0) [a0, a1, a2, a3, a4, a5, a6]) :=
  matrix_tangent_Sim3 X a0 a1 a2 a3 a4 a5 a6 hX hu

-- END GENERATED LOCAL

/-- non-vacuity of the hypotheses of §1: any stored element is the base point of a curve with any tangent, e.g. the
unit quaternion `(0.6, 0, 0, 0.8)` with tangent `(0.3, -0.2, 0.5)`; it is unit, so `SO3_Mul_tangent` etc. apply to it -/
example : ∃ X : ℝ → DVec ℝ, GTangent .SO3 X [0.3, -0.2, 0.5] ∧ UnitQ .SO3 (X 0) :=
  ⟨affine .SO3 [0.6, 0, 0, 0.8] [0.3, -0.2, 0.5], gtangent_affine _ _ _ rfl, by
    rw [affine_zero _ _ _ rfl]; simp [UnitQ, qt, Quat.normSq]; norm_num⟩
example : ∃ X : ℝ → DVec ℝ, GTangent .Sim3 X [1, 2, 3, 0.3, -0.2, 0.5, 0.1] ∧ UnitQ .Sim3 (X 0) ∧ ScaleNZ .Sim3 (X 0) :=
  ⟨affine .Sim3 [1, -1, 2, 0.6, 0, 0, 0.8, 1.5] [1, 2, 3, 0.3, -0.2, 0.5, 0.1], gtangent_affine _ _ _ rfl, by
    rw [affine_zero _ _ _ rfl]; simp [UnitQ, qt, Quat.normSq]; norm_num, by
    rw [affine_zero _ _ _ rfl]; simp [ScaleNZ]; norm_num⟩

/-! ## 2. `Exp` -/

/-- **`so3_Exp.backward` multiplies by the true derivative** (closed-form branch `eps < ‖x‖`, every such `x`, also
beyond `π`): a curve `x(t)` with velocity `d` is mapped to a curve of quaternions with left-perturbation tangent
`so3_Jl(x(0))·d`. -/
theorem so3_Exp_tangent (eps : ℝ) (heps : 0 ≤ eps) (x : ℝ → DVec ℝ) (d0 d1 d2 : ℝ)
    (hx : LCurve 3 x [d0, d1, d2]) (hth : eps < (v3 (x 0)).norm) :
    GTangent .SO3 (fun t => expF .SO3 eps (x t)) ((JlMat .SO3 eps (x 0)).mulVec [d0, d1, d2]) :=
  so3Exp_tangent eps heps x d0 d1 d2 hx hth

/-- the same at the zero vector (identity element; Taylor branch) -/
theorem so3_Exp_tangent_zero (eps : ℝ) (heps : 0 < eps) (x : ℝ → DVec ℝ) (d0 d1 d2 : ℝ)
    (hx : LCurve 3 x [d0, d1, d2]) (hz : v3 (x 0) = ⟨0, 0, 0⟩) :
    GTangent .SO3 (fun t => expF .SO3 eps (x t)) ((JlMat .SO3 eps (x 0)).mulVec [d0, d1, d2]) :=
  so3Exp_tangent_zero eps heps x d0 d1 d2 hx hz

/-- non-vacuity: the straight line `x(t) = (0.3 + t, -0.2, 0.5 + 2t)` at float64 `eps` -/
example : ∃ x : ℝ → DVec ℝ, LCurve 3 x [1, 0, 2] ∧ (2:ℝ)^(-52:ℤ) < (v3 (x 0)).norm := by
  refine ⟨fun t => [0.3 + t, -0.2, 0.5 + 2 * t], ?_, ?_⟩
  · intro i hi
    interval_cases i
    · simpa using ((hasDerivAt_id (0:ℝ)).const_add (0.3:ℝ))
    · simpa using (hasDerivAt_const (0:ℝ) (-0.2:ℝ))
    · simpa using (((hasDerivAt_id (0:ℝ)).const_mul (2:ℝ)).const_add (0.5:ℝ))
  · have h1 : (2:ℝ)^(-52:ℤ) < 0.3 := by
      rw [zpow_neg]; norm_num
    have h2 : (0.3:ℝ) ≤ (v3 ([0.3 + 0, -0.2, 0.5 + 2 * 0] : DVec ℝ)).norm := by
      simp only [Vec3.norm, Vec3.normSq, v3, nth_cons_zero, nth_cons_succ]
      apply Real.le_sqrt_of_sq_le; norm_num
    exact lt_of_lt_of_le h1 h2

/-- **`se3_Exp.backward` multiplies by the true derivative** on the closed-form branches (`θ > eps` for `so3_Jl`,
`θ > 0.05` for `calcQ`): a curve `x(t) = (τ(t); φ(t))` with velocity `d` is mapped to a curve in `SE3` with
left-perturbation tangent `se3_Jl(x(0))·d`.  The translation block is the statement that `calcQ` is the derivative of
`so3_Jl(φ)·τ` with respect to `φ` (up to the lever-arm term) — the block the D25 repair touched. -/
theorem se3_Exp_tangent (eps : ℝ) (heps : 0 ≤ eps) (x : ℝ → DVec ℝ) (d0 d1 d2 d3 d4 d5 : ℝ)
    (hx : LCurve 6 x [d0, d1, d2, d3, d4, d5]) (hth : eps < (v3 (x 0) 3).norm) (hq : (5:ℝ)/100 < (v3 (x 0) 3).norm) :
    GTangent .SE3 (fun t => expF .SE3 eps (x t)) ((JlMat .SE3 eps (x 0)).mulVec [d0, d1, d2, d3, d4, d5]) :=
  se3Exp_tangent eps heps x d0 d1 d2 d3 d4 d5 hx hth hq

/-- non-vacuity: the constant-velocity curve `x(t) = (1 + t, 0, 2, 0.3, -0.2 + t, 0.5)`, `‖φ(0)‖ ≥ 0.3 > 0.05` -/
example : ∃ x : ℝ → DVec ℝ, LCurve 6 x [1, 0, 0, 0, 1, 0] ∧ (5:ℝ)/100 < (v3 (x 0) 3).norm := by
  refine ⟨fun t => [1 + t, 0, 2, 0.3, -0.2 + t, 0.5], ?_, ?_⟩
  · intro i hi
    interval_cases i
    · simpa using ((hasDerivAt_id (0:ℝ)).const_add (1:ℝ))
    · simpa using (hasDerivAt_const (0:ℝ) (0:ℝ))
    · simpa using (hasDerivAt_const (0:ℝ) (2:ℝ))
    · simpa using (hasDerivAt_const (0:ℝ) (0.3:ℝ))
    · simpa using ((hasDerivAt_id (0:ℝ)).const_add (-0.2:ℝ))
    · simpa using (hasDerivAt_const (0:ℝ) (0.5:ℝ))
  · have h2 : (0.3:ℝ) ≤ (v3 ([1 + 0, 0, 2, 0.3, -0.2 + 0, 0.5] : DVec ℝ) 3).norm := by
      simp only [Vec3.norm, Vec3.normSq, v3, nth_cons_zero, nth_cons_succ]
      apply Real.le_sqrt_of_sq_le; norm_num
    exact lt_of_lt_of_le (by norm_num) h2

/-- **`rxso3_Exp.backward`** on the closed-form branch: tangent `rxso3_Jl(x)·d` -/
theorem rxso3_Exp_tangent (eps : ℝ) (heps : 0 ≤ eps) (x : ℝ → DVec ℝ) (d0 d1 d2 d3 : ℝ)
    (hx : LCurve 4 x [d0, d1, d2, d3]) (hth : eps < (v3 (x 0)).norm) :
    GTangent .RxSO3 (fun t => expF .RxSO3 eps (x t)) ((JlMat .RxSO3 eps (x 0)).mulVec [d0, d1, d2, d3]) :=
  rxso3Exp_tangent eps heps x d0 d1 d2 d3 hx hth

/-- **`RxSO3_Log.backward`** in regime 1 of the rotation logarithm: velocity `rxso3_Jl_inv(Log X)·τ`.  The scale must be *positive*
(`ScalePos`): `torch.log` of a negative scale is NaN, whereas `Real.log x = log |x|` would make the statement provable for `s < 0` too. -/
theorem RxSO3_Log_tangent (eps : ℝ) (heps : 0 ≤ eps) (X : ℝ → DVec ℝ) (a0 a1 a2 a3 : ℝ)
    (hX : GTangent .RxSO3 X [a0, a1, a2, a3]) (hu : UnitQ .RxSO3 (X 0)) (hs : ScalePos .RxSO3 (X 0))
    (hv : eps < (qt (X 0)).vec.norm) (hw : eps < |(qt (X 0)).w|)
    (hφ : eps < (v3 (logF .SO3 eps [nth (X 0) 0, nth (X 0) 1, nth (X 0) 2, nth (X 0) 3])).norm) :
    LCurve 4 (fun t => logF .RxSO3 eps (X t)) ((JlInvMat .RxSO3 eps (logF .RxSO3 eps (X 0))).mulVec [a0, a1, a2, a3]) :=
  RxSO3Log_tangent eps heps X a0 a1 a2 a3 hX hu hs hv hw hφ

/-- **`SO3_Log.backward` multiplies by the true derivative** (regime 1 of the logarithm: `‖v‖ > eps`, `|w| > eps`, both
hemispheres; closed-form branch of `so3_Jl_inv`): a curve of unit quaternions with left-perturbation tangent `τ` is mapped
to a curve in `so3` with velocity `so3_Jl_inv(Log X(0))·τ`. -/
theorem SO3_Log_tangent (eps : ℝ) (heps : 0 ≤ eps) (X : ℝ → DVec ℝ) (a0 a1 a2 : ℝ)
    (hX : GTangent .SO3 X [a0, a1, a2]) (hu : UnitQ .SO3 (X 0))
    (hv : eps < (qt (X 0)).vec.norm) (hw : eps < |(qt (X 0)).w|) (hφ : eps < (v3 (logF .SO3 eps (X 0))).norm) :
    LCurve 3 (fun t => logF .SO3 eps (X t)) ((JlInvMat .SO3 eps (logF .SO3 eps (X 0))).mulVec [a0, a1, a2]) :=
  SO3Log_tangent eps heps X a0 a1 a2 hX hu hv hw hφ

/-- non-vacuity of `SO3_Log_tangent` at a positive threshold (`eps = 1/2`): the quarter turn `q = (√2/2, 0, 0, √2/2)` is unit, in
regime 1, and its logarithm `(π/2, 0, 0)` has norm `> eps` -/
example : UnitQ .SO3 [qr, 0, 0, qr] ∧ (1/2:ℝ) < (qt ([qr, 0, 0, qr] : DVec ℝ)).vec.norm ∧ (1/2:ℝ) < |(qt ([qr, 0, 0, qr] : DVec ℝ)).w| ∧
    (1/2:ℝ) < (v3 (logF .SO3 (1/2) [qr, 0, 0, qr])).norm := by
  have e : qt ([qr, 0, 0, qr] : DVec ℝ) = ⟨qr, 0, 0, qr⟩ := by simp [qt]
  have hg := qr_gt
  refine ⟨?_, ?_, ?_, ?_⟩
  · simp only [UnitQ, e, Quat.normSq]; have := qr_sq; nlinarith
  · rw [e, quarter_vnorm]; linarith
  · rw [e, quarter_w]; linarith
  · rw [quarter_logF (1/2) (by norm_num)]
    have : v3 ([Real.pi / 2, 0, 0] : DVec ℝ) = ⟨Real.pi / 2, 0, 0⟩ := by simp [v3]
    rw [this, pihalf_norm]; have := pihalf_gt; linarith

/-- **`Exp₁` agrees with the true retraction** (`SO3`): the curve `t ↦ so3_Exp(t·τ) @ X`, along which the property defines
`X.grad`, passes through `X` with exactly the velocity `liftG` that all local theorems use. -/
theorem SO3_retraction_tangent (eps : ℝ) (heps : 0 < eps) (X τ : DVec ℝ) (hX : X.length = 4) (hτ : τ.length = 3) :
    GTangent .SO3 (fun t => retrF .SO3 eps X [t * nth τ 0, t * nth τ 1, t * nth τ 2]) τ :=
  retr_tangent_SO3 eps heps X τ hX hτ

/-- `so3_Jl(x)·so3_Jl_inv(x) = 1` on the closed-form branch: the matrices of `so3_Exp.backward` and `SO3_Log.backward` are
inverse to each other (whenever `sin(θ/2) ≠ 0`, i.e. away from `θ = 2π, 4π, …`) -/
theorem so3_Jl_mul_JlInv (eps : ℝ) (x : Vec3 ℝ) (h : eps < x.norm) (h0 : 0 ≤ eps) (hs : Real.sin (1/2 * x.norm) ≠ 0) :
    (so3Jl eps x).mul (so3JlInv eps x) = Mat3.one :=
  so3Jl_mul_so3JlInv eps x h h0 hs

/-! ## 3. Chain rule for all programs -/

/-- **Reverse mode = transpose of forward mode, for every program.**  `lt` are the leaf types, `env` the leaf values,
`tan` arbitrary leaf tangents (manifold dimension for group leaves), `go` the cotangent of the output.  The contributions
emitted by the reverse sweep pair with the leaf tangents to exactly `⟨go, tangent⟩`, where `tangent` pushes the leaf
tangents forward through the local Jacobians of §1–2 (`jvp1`, `jvp2`).  Structural induction: no bound on depth, size or
on how often a leaf is shared. -/
theorem backprop_adjoint (dJ : DJ ℝ) (hdJ : DJShape dJ) (eps : ℝ) (lt : List Ty) (env tan : List (DVec ℝ))
    (hE : EnvOK lt env tan) (p : Prog) (ty : Ty) (go : DVec ℝ) (hty : tyOf lt p = some ty) (hgo : go.length = ty.dim) :
    pairSum tan (backprop dJ eps env p go) = DVec.dot go (tangent dJ eps env tan p) :=
  (backprop_adjoint_aux dJ hdJ eps lt env tan hE p ty go hty hgo).1

/-- well-typed programs evaluate to vectors of the storage length of their type -/
theorem eval_length (dJ : DJ ℝ) (hdJ : DJShape dJ) (eps : ℝ) (lt : List Ty) (env tan : List (DVec ℝ))
    (hE : EnvOK lt env tan) (p : Prog) (ty : Ty) (hty : tyOf lt p = some ty) : (eval eps env p).length = ty.dim :=
  (backprop_adjoint_aux dJ hdJ eps lt env tan hE p ty (List.replicate ty.dim 0) hty (by simp)).2.1

/-- … and their forward tangents have the manifold dimension -/
theorem tangent_length (dJ : DJ ℝ) (hdJ : DJShape dJ) (eps : ℝ) (lt : List Ty) (env tan : List (DVec ℝ))
    (hE : EnvOK lt env tan) (p : Prog) (ty : Ty) (hty : tyOf lt p = some ty) :
    (tangent dJ eps env tan p).length = ty.tdim :=
  (backprop_adjoint_aux dJ hdJ eps lt env tan hE p ty (List.replicate ty.dim 0) hty (by simp)).2.2

/-- a concrete well-typed program with a shared leaf: `Act(Retr(X, a) @ X, p)` on SE3; types `X : SE3`, `a : se3`, `p : ℝ³` -/
example : tyOf [.G .SE3, .V 6, .V 3]
    (.bin .Act .SE3 (.bin .Mul .SE3 (Prog.retr .SE3 (.leaf 0) (.leaf 1)) (.leaf 0)) (.leaf 2)) = some (.V 3) := by decide

/-! ## 3b. The forward tangent is the true derivative: exact gradients for whole programs

`CurveOK ty γ τ` (`Proofs/Lemmas/AutogradSemantic.lean`): `γ` is a curve of stored values of type `ty`, valid at `t = 0`
(unit quaternion, non-zero scale), moving with tangent `τ` — the left-perturbation tangent for group types. -/

/-- **Semantic chain rule, algebraic programs.**  For every well-typed program over `{Inv, @, Act, Act4, Adj, AdjT,
matrix()}` — any depth, any sharing — whose leaves move along arbitrary valid curves, the value of the program moves with
the forward tangent that `backprop_adjoint` transposes (for group-valued programs: as a left-perturbation tangent). -/
theorem program_tangent_exact_algebraic (dJ : DJ ℝ) (eps : ℝ) (lt : List Ty) (env : ℝ → List (DVec ℝ)) (tan : List (DVec ℝ))
    (hleaf : ∀ i t, lt[i]? = some t → CurveOK t (fun s => (env s).getD i []) (tan.getD i []))
    (p : Prog) (hp : p.algebraic = true) (ty : Ty) (hty : tyOf lt p = some ty) :
    CurveOK ty (fun s => eval eps (env s) p) (tangent dJ eps (env 0) tan p) :=
  eval_tangent_algebraic dJ eps lt env tan hleaf p hp ty hty

/-- **Exact gradients for every program over the algebraic operators**: with all leaves moving at once (group leaves
by left perturbations `Exp(tτᵢ)·Xᵢ` or any curve with that tangent, algebra / Euclidean leaves with velocities `τᵢ`),

  `d/dt ⟨c, p(leaves(t))⟩ |_{t=0} = Σ_leaves ⟨contribution of the reverse sweep, τᵢ⟩`

for every cotangent `c`.  With `τ` a basis vector at one leaf this is: the first manifold-dimension slots of `.grad` of a
group leaf are the left-perturbation Jacobian; Euclidean / algebra leaves get the ordinary Jacobian. -/
theorem gradient_exact_algebraic (dJ : DJ ℝ) (hdJ : DJShape dJ) (eps : ℝ) (lt : List Ty) (env : ℝ → List (DVec ℝ))
    (tan : List (DVec ℝ)) (hE : EnvOK lt (env 0) tan)
    (hleaf : ∀ i t, lt[i]? = some t → CurveOK t (fun s => (env s).getD i []) (tan.getD i []))
    (p : Prog) (hp : p.algebraic = true) (n : Nat) (hty : tyOf lt p = some (.V n)) (c : DVec ℝ) (hc : c.length = n) :
    HasDerivAt (fun s => DVec.dot c (eval eps (env s) p)) (pairSum tan (backprop dJ eps (env 0) p c)) 0 :=
  alg_program_gradient_exact dJ hdJ eps lt env tan hE hleaf p hp n hty c hc

/-- **All programs (incl. `Exp`, `Log`, `Jinvp`), partial**: the chain rule is proved; what is assumed (`TransSpec`) is
local correctness of the transcendental nodes at their positions.  Proved instances of that hypothesis: `so3` `Exp`
nodes on the closed-form branch (`so3_Exp_node`), `se3` `Exp` nodes on the closed-form branches (`se3_Exp_node`) and
`SO3` `Log` nodes in regime 1 (`so3_Log_node`), `rxso3` `Exp` / `RxSO3` `Log` (`rxso3_Exp_node`, `RxSO3_Log_node`).  For
`sim3` `Exp`, the `SE3`/`Sim3` logarithms, the other regimes and `Jinvp` it is not proved in Lean (for `sim3` it holds only up to the documented truncation, §6) and rides on the 192-bit finite-difference
oracle of the check. -/
theorem gradient_exact_partial (dJ : DJ ℝ) (hdJ : DJShape dJ) (eps : ℝ) (lt : List Ty) (env : ℝ → List (DVec ℝ))
    (tan : List (DVec ℝ)) (hE : EnvOK lt (env 0) tan)
    (hleaf : ∀ i t, lt[i]? = some t → CurveOK t (fun s => (env s).getD i []) (tan.getD i []))
    (p : Prog) (hT : TransSpec dJ eps lt env tan p) (n : Nat) (hty : tyOf lt p = some (.V n)) (c : DVec ℝ) (hc : c.length = n) :
    HasDerivAt (fun s => DVec.dot c (eval eps (env s) p)) (pairSum tan (backprop dJ eps (env 0) p c)) 0 :=
  program_gradient_exact_of_transSpec dJ hdJ eps lt env tan hE hleaf p hT n hty c hc

/-- the value of any program moves with the forward tangent, given `TransSpec` (group-valued outputs included) -/
theorem program_tangent_exact_partial (dJ : DJ ℝ) (eps : ℝ) (lt : List Ty) (env : ℝ → List (DVec ℝ)) (tan : List (DVec ℝ))
    (hleaf : ∀ i t, lt[i]? = some t → CurveOK t (fun s => (env s).getD i []) (tan.getD i []))
    (p : Prog) (hT : TransSpec dJ eps lt env tan p) (ty : Ty) (hty : tyOf lt p = some ty) :
    CurveOK ty (fun s => eval eps (env s) p) (tangent dJ eps (env 0) tan p) :=
  eval_tangent_of_transSpec dJ eps lt env tan hleaf p hT ty hty

/-- an `so3` `Exp` node on the closed-form branch satisfies its `TransSpec` obligation -/
theorem so3_Exp_node (dJ : DJ ℝ) (eps : ℝ) (heps : 0 ≤ eps) (lt : List Ty) (env : ℝ → List (DVec ℝ)) (tan : List (DVec ℝ))
    (p : Prog) (hp : NodeOK dJ eps lt env tan p) (hth : eps < (v3 (eval eps (env 0) p)).norm) :
    NodeOK dJ eps lt env tan (.un .Exp .SO3 p) :=
  so3_Exp_nodeOK dJ eps heps lt env tan p hp hth

/-- an `se3` `Exp` node on the closed-form branches satisfies its `TransSpec` obligation -/
theorem se3_Exp_node (dJ : DJ ℝ) (eps : ℝ) (heps : 0 ≤ eps) (lt : List Ty) (env : ℝ → List (DVec ℝ)) (tan : List (DVec ℝ))
    (p : Prog) (hp : NodeOK dJ eps lt env tan p) (hth : eps < (v3 (eval eps (env 0) p) 3).norm)
    (hq : (5:ℝ)/100 < (v3 (eval eps (env 0) p) 3).norm) :
    NodeOK dJ eps lt env tan (.un .Exp .SE3 p) :=
  se3_Exp_nodeOK dJ eps heps lt env tan p hp hth hq

/-- `rxso3` `Exp` nodes (closed-form branch) and `RxSO3` `Log` nodes (regime 1) satisfy their `TransSpec` obligations -/
theorem rxso3_Exp_node (dJ : DJ ℝ) (eps : ℝ) (heps : 0 ≤ eps) (lt : List Ty) (env : ℝ → List (DVec ℝ)) (tan : List (DVec ℝ))
    (p : Prog) (hp : NodeOK dJ eps lt env tan p) (hth : eps < (v3 (eval eps (env 0) p)).norm) :
    NodeOK dJ eps lt env tan (.un .Exp .RxSO3 p) :=
  rxso3_Exp_nodeOK dJ eps heps lt env tan p hp hth
theorem RxSO3_Log_node (dJ : DJ ℝ) (eps : ℝ) (heps : 0 ≤ eps) (lt : List Ty) (env : ℝ → List (DVec ℝ)) (tan : List (DVec ℝ))
    (p : Prog) (hp : NodeOK dJ eps lt env tan p)
    (hv : eps < (qt (eval eps (env 0) p)).vec.norm) (hw : eps < |(qt (eval eps (env 0) p)).w|)
    (hφ : eps < (v3 (logF .SO3 eps [nth (eval eps (env 0) p) 0, nth (eval eps (env 0) p) 1, nth (eval eps (env 0) p) 2,
      nth (eval eps (env 0) p) 3])).norm) :
    NodeOK dJ eps lt env tan (.un .Log .RxSO3 p) :=
  rxso3_Log_nodeOK dJ eps heps lt env tan p hp hv hw hφ

/-- an `SO3` `Log` node in regime 1 satisfies its `TransSpec` obligation -/
theorem so3_Log_node (dJ : DJ ℝ) (eps : ℝ) (heps : 0 ≤ eps) (lt : List Ty) (env : ℝ → List (DVec ℝ)) (tan : List (DVec ℝ))
    (p : Prog) (hp : NodeOK dJ eps lt env tan p)
    (hv : eps < (qt (eval eps (env 0) p)).vec.norm) (hw : eps < |(qt (eval eps (env 0) p)).w|)
    (hφ : eps < (v3 (logF .SO3 eps (eval eps (env 0) p))).norm) :
    NodeOK dJ eps lt env tan (.un .Log .SO3 p) :=
  so3_Log_nodeOK dJ eps heps lt env tan p hp hv hw hφ

/-- non-vacuity of `CurveOK` at a group type: the affine curve through the unit quaternion `(0.6,0,0,0.8)` -/
example : CurveOK (.G .SO3) (affine .SO3 [0.6, 0, 0, 0.8] [0.3, -0.2, 0.5]) [0.3, -0.2, 0.5] :=
  ⟨gtangent_affine _ _ _ rfl, by rw [affine_zero _ _ _ rfl]; simp [UnitQ, qt, Quat.normSq]; norm_num, trivial, rfl⟩
/-- the program of the example above is algebraic once `Retr` is replaced by a product -/
example : (Prog.bin .Act .SE3 (.bin .Mul .SE3 (.un .Inv .SE3 (.leaf 0)) (.leaf 1)) (.leaf 2)).algebraic = true := by decide

/-! ## 3c. Call sequences and aliased arguments — lemmas only, not property theorems

That two backward passes accumulate (`backprop_accumulates`), that the order of deposits is irrelevant (`pairSum_append` + commutativity),
and that aliasing = sharing (`eval_mapLeaf`, `backprop_mapLeaf`) are facts of a *pure* model (`Proofs/Lemmas/AutogradChain.lean`): the
model has no state, so they cannot fail.  That the REAL code is stateless across calls and treats aliased arguments as shared leaves is
decided by the harness only (streams reuse / stale / views / interleave / copies / fresh-modes). -/

/-- `X @ X` is `X₀ @ X₁` with both leaves renamed to `0` -/
example : (Prog.bin .Mul .SE3 (.leaf 0) (.leaf 1)).mapLeaf (fun _ => 0) = .bin .Mul .SE3 (.leaf 0) (.leaf 0) := rfl

/-! ## 4. The remaining storage slot of every group gradient is zero -/

/-- every contribution delivered to a leaf of group type `g` by a program that is not that bare leaf has `0` in slot
`g.adim` (the last storage slot) -/
theorem backprop_slot_zero (dJ : DJ ℝ) (eps : ℝ) (lt : List Ty) (env : List (DVec ℝ)) (p : Prog) (ty : Ty) (go : DVec ℝ)
    (hty : tyOf lt p = some ty) (hp : p.isLeaf = false) :
    ∀ c ∈ backprop dJ eps env p go, ∀ g, lt[c.1]? = some (.G g) → nth c.2 g.adim = 0 :=
  backprop_lastZero dJ eps lt env p ty go hty (Or.inr hp)

/-- hence `.grad` of every group leaf (the sum of its contributions) has last storage slot exactly `0` -/
theorem grad_last_slot_zero (dJ : DJ ℝ) (eps : ℝ) (lt : List Ty) (env : List (DVec ℝ)) (p : Prog) (ty : Ty) (go : DVec ℝ)
    (hty : tyOf lt p = some ty) (hp : p.isLeaf = false) (i : Nat) (g : Grp) (hi : lt[i]? = some (.G g)) (n : Nat) :
    nth (grad n i (backprop dJ eps env p go)) g.adim = 0 :=
  grad_slot_zero n i g.adim _ (fun c hc hci => backprop_slot_zero dJ eps lt env p ty go hty hp c hc g (by rw [hci]; exact hi))

/-! ## 5. Identity element / zero vector: the matrices of the backward passes are the identity

What these statements do and do not say (auditor's item 1): `Jl_at_zero`, `JlInv_at_zero`, `Log_identity` and the two backward maps
hold for ANY coefficients, because `hat 0 = 0` (and `x/0 = 0` in `ℝ`) — they say which linear maps the backward passes are at these
points, NOT that no NaN / Inf arises.  The code evaluates both branches and masks (`idx * nan_to_num(closed form)` in `so3_Jl_inv`,
`calcQ`, `SO3_Log`), which the model's `if` does not represent.  The clause "no NaN / Inf, including at the identity and the zero
vector" is decided by the harness only (structural check on every case, corner corpus, tie corpus).  What IS proved about branch
selection: `Taylor_branch_selected_at_zero` below (the coefficients at `0` are the Taylor values, which the closed forms do not give). -/

/-- every `*_Jl` at the zero vector is the identity matrix -/
theorem Jl_at_zero (g : Grp) (eps : ℝ) (h : 0 ≤ eps) : JlMat g eps (DVec.zero g.adim) = DMat.one g.adim :=
  JlMat_zero g eps h
/-- every `*_Jl_inv` at the zero vector is the identity matrix -/
theorem JlInv_at_zero (g : Grp) (eps : ℝ) (h : 0 ≤ eps) : JlInvMat g eps (DVec.zero g.adim) = DMat.one g.adim :=
  JlInvMat_zero g eps h
/-- `*_Exp.backward` at the zero vector is the map `c ↦ c[:-1]` -/
theorem Exp_backward_at_zero (g : Grp) (eps : ℝ) (h : 0 ≤ eps) (go : DVec ℝ) :
    expB g eps (DVec.zero g.adim) go = headN g.adim go := expB_zero g eps h go
/-- the coded `Log` of the identity element is the zero vector -/
theorem Log_identity (g : Grp) (eps : ℝ) (h : 0 ≤ eps) : logF g eps (identG g) = DVec.zero g.adim := logF_ident g eps h
/-- `*_Log.backward` at the identity element is the map `c ↦ (c, 0)` -/
theorem Log_backward_at_identity (g : Grp) (eps : ℝ) (h : 0 ≤ eps) (go : DVec ℝ) (hgo : go.length = g.adim) :
    logB g eps (logF g eps (identG g)) go = pad0 go := by
  rw [logF_ident g eps h]; exact logB_zero g eps h go hgo

/-- **the Taylor / series branches are the ones selected at the zero vector and at the identity** (model): the coefficients of `so3_Jl`,
`so3_Jl_inv`, `rxso3_Ws` at `θ = 0` (`σ = 0`) and the factor of `SO3_Log` at `q = ±1` are the Taylor values `(1/2, 1/6)`, `1/12`,
`(1/2, 1/6, 1)`, `±2` — the closed forms evaluate to other numbers there (`closed_forms_at_zero_differ`), so unlike the statements above
this one would be false for a model that divided by `θ`. -/
theorem Taylor_branch_selected_at_zero (eps : ℝ) (h : 0 ≤ eps) :
    so3JlCoef eps 0 = (1/2, 1/6) ∧ so3JlInvCoef eps 0 = 1/12 ∧ rxso3WsCoef eps 0 0 = (1/2, 1/6, 1) ∧
    so3LogFactor eps 0 1 = 2 ∧ so3LogFactor eps 0 (-1) = -2 :=
  ⟨so3JlCoef_zero eps h, so3JlInvCoef_zero eps h, rxso3WsCoef_zero eps h, (so3LogFactor_identity eps h).1, (so3LogFactor_identity eps h).2⟩

/-! ## 6. The documented truncation for sim3

`sim3_Jl` / `sim3_Jl_inv` are by definition the polynomials `Σ_{n≤5} adⁿ/(n+1)!` and `1 − ad/2 + ad²/12 − ad⁴/720` in `ad ξ`
(`sim3Jl`, `sim3JlInv` in `Lie.lean`; that is a reading of the code, not a theorem).  Proved (series lemmas shared with C05,
`Proofs/Lemmas/TangentBern.lean`): their distance from the exact left Jacobian `J_l(ad ξ) = Σ adⁿ/(n+1)!` of the matrix exponential and
from its inverse is at most a constant times `‖ad ξ‖⁶` for `‖ad ξ‖ ≤ 1` (row-sum operator norm) — the property's "error bounded by a
constant times |ad ξ|⁶".  `_partial`: NOT proved is that `J_l(ad ξ)` is the left-perturbation derivative of the *coded* `sim3_Exp` in
storage coordinates (the coded forward is itself the closed-form `rxso3_Ws`, exact only up to its own regime switches), and there is no
bound for `‖ad ξ‖ > 1`; away from the zero vector the sim3 gradients ride on the finite-difference oracle with the allowance of §6. -/

section
open scoped Matrix.Norms.Operator
open PP.Bern

/-- the matrix `sim3_Exp.backward` multiplies by is within `‖ad ξ‖⁶/4320` of the exact left Jacobian series -/
theorem sim3_Jl_truncation_bound_partial (x : sim3 ℝ) (h : ‖sim3adM x‖ ≤ 1) :
    ‖JlSeries (sim3adM x) - DMat.toM 7 (sim3Jl x)‖ ≤ ‖sim3adM x‖ ^ 6 / 4320 ∧
    JlSeries (sim3adM x) * sim3adM x = NormedSpace.exp (sim3adM x) - 1 :=
  ⟨sim3Jl_near_series x h, jlSeries_is_left_jacobian x⟩

/-- the matrix `Sim3_Log.backward` / `Jinvp` multiplies by is within `‖ad ξ‖⁶/4700` of the inverse of the exact left Jacobian -/
theorem sim3_JlInv_truncation_bound_partial (x : sim3 ℝ) (h : ‖sim3adM x‖ ≤ 1) :
    ∃ J : Matrix (Fin 7) (Fin 7) ℝ, J * JlSeries (sim3adM x) = 1 ∧ JlSeries (sim3adM x) * J = 1 ∧
      ‖DMat.toM 7 (sim3JlInv x) - J‖ ≤ ‖sim3adM x‖ ^ 6 / 4700 :=
  sim3JlInv_near_inverse x h

/-- non-vacuity: `ξ = (τ; φ; σ) = (0.1, 0, 0.2; 0.1, −0.1, 0; 0.3)` has `‖ad ξ‖ ≤ 0.8 ≤ 1` -/
example : ‖sim3adM ⟨⟨0.1, 0, 0.2⟩, ⟨0.1, -0.1, 0⟩, 0.3⟩‖ ≤ 1 := by
  refine le_trans (norm_sim3adM_le' _) ?_
  norm_num [abs_of_pos, abs_of_neg]
end

/-! ## 7. Pass 3 — zero vector / identity element at full strength, `SE3_Log`, `Jinvp`, regimes instead of `TransSpec`,
and the property in its own terms (`.grad` along the true retraction)

§5 shows that at the zero vector / identity the backward passes are the division-free maps `c ↦ c[:-1]`, `c ↦ (c,0)`.  Here: these maps
*are the true derivatives* of the coded forward passes there, for all four groups. -/

/-- **`Exp.backward` at the zero vector is the true derivative, every group** (`Jl(0) = 1`, Taylor branches of `so3_Exp`, `so3_Jl`,
series branch of `calcQ`, regime 1 of `rxso3_Ws`): a curve of algebra elements through `0` with velocity `d` is mapped by the coded
`Exp` to a curve through the identity with left-perturbation tangent `d`. -/
theorem Exp_tangent_zero (g : Grp) (eps : ℝ) (heps : 0 < eps) (x : ℝ → DVec ℝ) (d : DVec ℝ) (hd : d.length = g.adim)
    (hx : LCurve g.adim x d) (hx0 : x 0 = DVec.zero g.adim) :
    GTangent g (fun t => expF g eps (x t)) d :=
  exp_tangent_zero g eps heps x d hd hx hx0

/-- non-vacuity: the ray `t ↦ t·d` passes through the zero vector with velocity `d` -/
example : ∃ x : ℝ → DVec ℝ, LCurve 7 x [1, 2, 3, 0.3, -0.2, 0.5, 0.1] ∧ x 0 = DVec.zero (Grp.Sim3).adim :=
  ⟨fun t => DVec.smul t [1, 2, 3, 0.3, -0.2, 0.5, 0.1], lcurve_ray _ _, by
    show DVec.smul 0 [1, 2, 3, 0.3, -0.2, 0.5, 0.1] = DVec.zero (Grp.Sim3).adim
    rw [smul_zero_left]; rfl⟩

/-- `se3_Exp.backward` at rotation part zero, **any translation part** (`calcQ(τ, 0) = ½ hat τ`) -/
theorem se3_Exp_tangent_zero_rotation (eps : ℝ) (heps : 0 < eps) (x : ℝ → DVec ℝ) (d0 d1 d2 d3 d4 d5 : ℝ)
    (hx : LCurve 6 x [d0, d1, d2, d3, d4, d5]) (hzp : v3 (x 0) 3 = ⟨0, 0, 0⟩) :
    GTangent .SE3 (fun t => expF .SE3 eps (x t)) ((JlMat .SE3 eps (x 0)).mulVec [d0, d1, d2, d3, d4, d5]) :=
  se3Exp_tangent_zerorot eps heps x d0 d1 d2 d3 d4 d5 hx hzp

/-- non-vacuity: translation part `(1, -1, 2) + t·(…)`, rotation part through `0` -/
example : ∃ x : ℝ → DVec ℝ, LCurve 6 x [1, 0, 0, 0.3, -0.2, 0.5] ∧ v3 (x 0) 3 = ⟨0, 0, 0⟩ ∧ v3 (x 0) ≠ ⟨0, 0, 0⟩ := by
  refine ⟨fun t => [1 + t, -1, 2, t * 0.3, t * (-0.2), t * 0.5], ?_, by simp [v3], by simp [v3]⟩
  intro i hi
  interval_cases i
  · simpa using ((hasDerivAt_id (0:ℝ)).const_add (1:ℝ))
  · simpa using (hasDerivAt_const (0:ℝ) (-1:ℝ))
  · simpa using (hasDerivAt_const (0:ℝ) (2:ℝ))
  · simpa using ((hasDerivAt_id (0:ℝ)).mul_const (0.3:ℝ))
  · simpa using ((hasDerivAt_id (0:ℝ)).mul_const (-0.2:ℝ))
  · simpa using ((hasDerivAt_id (0:ℝ)).mul_const (0.5:ℝ))

/-- `rxso3_Exp.backward` at rotation part zero, any log-scale -/
theorem rxso3_Exp_tangent_zero_rotation (eps : ℝ) (heps : 0 < eps) (x : ℝ → DVec ℝ) (d0 d1 d2 d3 : ℝ)
    (hx : LCurve 4 x [d0, d1, d2, d3]) (hz : v3 (x 0) = ⟨0, 0, 0⟩) :
    GTangent .RxSO3 (fun t => expF .RxSO3 eps (x t)) ((JlMat .RxSO3 eps (x 0)).mulVec [d0, d1, d2, d3]) :=
  rxso3Exp_tangent_zero eps heps x d0 d1 d2 d3 hx hz

example : ∃ x : ℝ → DVec ℝ, LCurve 4 x [0.3, -0.2, 0.5, 1] ∧ v3 (x 0) = ⟨0, 0, 0⟩ ∧ nth (x 0) 3 = 0.7 := by
  refine ⟨fun t => [t * 0.3, t * (-0.2), t * 0.5, 0.7 + t], ?_, by simp [v3], by simp⟩
  intro i hi
  interval_cases i
  · simpa using ((hasDerivAt_id (0:ℝ)).mul_const (0.3:ℝ))
  · simpa using ((hasDerivAt_id (0:ℝ)).mul_const (-0.2:ℝ))
  · simpa using ((hasDerivAt_id (0:ℝ)).mul_const (0.5:ℝ))
  · simpa using ((hasDerivAt_id (0:ℝ)).const_add (0.7:ℝ))

/-- `sim3_Exp.backward` at the zero vector (regime 1 of `rxso3_Ws`).  Away from `τ = 0` regime 1 has *constant* coefficients, so the coded
forward does not depend on `σ` there and the statement holds only up to the documented truncation. -/
theorem sim3_Exp_tangent_zero (eps : ℝ) (heps : 0 < eps) (x : ℝ → DVec ℝ) (d0 d1 d2 d3 d4 d5 d6 : ℝ)
    (hx : LCurve 7 x [d0, d1, d2, d3, d4, d5, d6]) (hzt : v3 (x 0) = ⟨0, 0, 0⟩) (hzp : v3 (x 0) 3 = ⟨0, 0, 0⟩) (hzs : nth (x 0) 6 = 0) :
    GTangent .Sim3 (fun t => expF .Sim3 eps (x t)) ((JlMat .Sim3 eps (x 0)).mulVec [d0, d1, d2, d3, d4, d5, d6]) :=
  sim3Exp_tangent_zero eps heps x d0 d1 d2 d3 d4 d5 d6 hx hzt hzp hzs

/-- **`Log.backward` at the identity element is the true derivative, every group** (regime 3 of `SO3_Log`, Taylor branch of `so3_Jl_inv`,
regime 1 of `rxso3_Ws` and its adjugate inverse): a curve through the identity with left-perturbation tangent `τ` is mapped by the
coded `Log` to a curve of algebra elements with velocity `τ`. -/
theorem Log_tangent_identity (g : Grp) (eps : ℝ) (heps : 0 < eps) (X : ℝ → DVec ℝ) (τ : DVec ℝ) (hτ : τ.length = g.adim)
    (hX : GTangent g X τ) (h0 : X 0 = identG g) :
    LCurve g.adim (fun t => logF g eps (X t)) τ :=
  log_tangent_identity g eps heps X τ hτ hX h0

/-- non-vacuity: the retraction of the identity is a curve through the identity with any tangent -/
example : ∃ X : ℝ → DVec ℝ, GTangent .Sim3 X [1, 2, 3, 0.3, -0.2, 0.5, 0.1] ∧ X 0 = identG .Sim3 :=
  ⟨fun t => retrF .Sim3 (2⁻¹) (identG .Sim3) (DVec.smul t [1, 2, 3, 0.3, -0.2, 0.5, 0.1]),
    retr_tangent .Sim3 _ (by norm_num) _ _ rfl, by
      show retrF .Sim3 (2⁻¹) (identG .Sim3) (DVec.smul 0 [1, 2, 3, 0.3, -0.2, 0.5, 0.1]) = identG .Sim3
      rw [smul_zero_left]; exact retrF_zero .Sim3 _ (by norm_num) _ rfl⟩

/-- `SO3_Log.backward` at `q = ±1` (either representative) -/
theorem SO3_Log_tangent_identity (eps : ℝ) (heps : 0 < eps) (X : ℝ → DVec ℝ) (a0 a1 a2 : ℝ)
    (hX : GTangent .SO3 X [a0, a1, a2]) (hv : (qt (X 0)).vec = ⟨0, 0, 0⟩) (hw : nth (X 0) 3 * nth (X 0) 3 = 1) :
    LCurve 3 (fun t => logF .SO3 eps (X t)) ((JlInvMat .SO3 eps (logF .SO3 eps (X 0))).mulVec [a0, a1, a2]) :=
  PP.AD.SO3Log_tangent_identity eps heps X a0 a1 a2 hX hv hw

/-- `SE3_Log.backward` at rotation part `±1`, **any translation** -/
theorem SE3_Log_tangent_identity (eps : ℝ) (heps : 0 < eps) (X : ℝ → DVec ℝ) (a0 a1 a2 a3 a4 a5 : ℝ)
    (hX : GTangent .SE3 X [a0, a1, a2, a3, a4, a5]) (hv : (qt (X 0) 3).vec = ⟨0, 0, 0⟩) (hw : nth (X 0) 6 * nth (X 0) 6 = 1) :
    LCurve 6 (fun t => logF .SE3 eps (X t)) ((JlInvMat .SE3 eps (logF .SE3 eps (X 0))).mulVec [a0, a1, a2, a3, a4, a5]) :=
  PP.AD.SE3Log_tangent_identity eps heps X a0 a1 a2 a3 a4 a5 hX hv hw

/-- non-vacuity: a pure translation `(1, -1, 2)`, the representative `q = -1` -/
example : ∃ X : ℝ → DVec ℝ, GTangent .SE3 X [1, 0, 2, 0.3, -0.2, 0.5] ∧ (qt (X 0) 3).vec = ⟨0, 0, 0⟩ ∧ nth (X 0) 6 * nth (X 0) 6 = 1 :=
  ⟨affine .SE3 [1, -1, 2, 0, 0, 0, -1] [1, 0, 2, 0.3, -0.2, 0.5], gtangent_affine _ _ _ rfl, by
    rw [affine_zero _ _ _ rfl]; simp [qt, Quat.vec], by rw [affine_zero _ _ _ rfl]; simp⟩

/-- `RxSO3_Log.backward` at rotation part `±1`, any scale -/
theorem RxSO3_Log_tangent_identity (eps : ℝ) (heps : 0 < eps) (X : ℝ → DVec ℝ) (a0 a1 a2 a3 : ℝ)
    (hX : GTangent .RxSO3 X [a0, a1, a2, a3]) (hs : 0 < nth (X 0) 4) (hv : (qt (X 0)).vec = ⟨0, 0, 0⟩)
    (hw : nth (X 0) 3 * nth (X 0) 3 = 1) :
    LCurve 4 (fun t => logF .RxSO3 eps (X t)) ((JlInvMat .RxSO3 eps (logF .RxSO3 eps (X 0))).mulVec [a0, a1, a2, a3]) :=
  PP.AD.RxSO3Log_tangent_identity eps heps X a0 a1 a2 a3 hX hs hv hw

/-- `Sim3_Log.backward` at the identity element (`t = 0`, `q = ±1`, `s = 1`) -/
theorem Sim3_Log_tangent_identity (eps : ℝ) (heps : 0 < eps) (X : ℝ → DVec ℝ) (a0 a1 a2 a3 a4 a5 a6 : ℝ)
    (hX : GTangent .Sim3 X [a0, a1, a2, a3, a4, a5, a6]) (ht : v3 (X 0) = ⟨0, 0, 0⟩) (hv : (qt (X 0) 3).vec = ⟨0, 0, 0⟩)
    (hw : nth (X 0) 6 * nth (X 0) 6 = 1) (hs : nth (X 0) 7 = 1) :
    LCurve 7 (fun t => logF .Sim3 eps (X t)) ((JlInvMat .Sim3 eps (logF .Sim3 eps (X 0))).mulVec [a0, a1, a2, a3, a4, a5, a6]) :=
  PP.AD.Sim3Log_tangent_identity eps heps X a0 a1 a2 a3 a4 a5 a6 hX ht hv hw hs

/-- `so3_Jl_inv(x)·so3_Jl(x) = 1` (the other order of `so3_Jl_mul_JlInv`; both are polynomials in `hat x`) -/
theorem so3_JlInv_mul_Jl (eps : ℝ) (x : Vec3 ℝ) (h : eps < x.norm) (h0 : 0 ≤ eps) (hs : Real.sin (1/2 * x.norm) ≠ 0) :
    (so3JlInv eps x).mul (so3Jl eps x) = Mat3.one :=
  so3JlInv_mul_so3Jl eps x h h0 hs

/-- **`SE3_Log.backward` is the true derivative** in the closed-form regime (regime 1 of `SO3_Log`, `θ > eps`, `θ > 0.05` = closed form of
`calcQ`, `sin(θ/2) ≠ 0`), for every translation: the block `−Jl_inv·Q·Jl_inv` is the derivative of `t ↦ Jl_inv(φ(t))·t(t)` with
respect to the rotation.  Proof by the implicit equation `Exp(Log X) = X`, the proven `se3_Exp` derivative and `Jl·Jl_inv = Jl_inv·Jl = 1`. -/
theorem SE3_Log_tangent (eps : ℝ) (heps : 0 ≤ eps) (X : ℝ → DVec ℝ) (a0 a1 a2 a3 a4 a5 : ℝ)
    (hX : GTangent .SE3 X [a0, a1, a2, a3, a4, a5]) (hu : UnitQ .SE3 (X 0))
    (hv : eps < (qt (X 0) 3).vec.norm) (hw : eps < |(qt (X 0) 3).w|)
    (hφ : eps < (v3 (logF .SE3 eps (X 0)) 3).norm) (hq : (5:ℝ)/100 < (v3 (logF .SE3 eps (X 0)) 3).norm)
    (hs : Real.sin (1/2 * (v3 (logF .SE3 eps (X 0)) 3).norm) ≠ 0) :
    LCurve 6 (fun t => logF .SE3 eps (X t)) ((JlInvMat .SE3 eps (logF .SE3 eps (X 0))).mulVec [a0, a1, a2, a3, a4, a5]) :=
  PP.AD.SE3Log_tangent eps heps X a0 a1 a2 a3 a4 a5 hX hu hv hw hφ hq hs

/-- non-vacuity of `SE3_Log_tangent` at a positive threshold (`eps = 1/2`): translation `(1,-1,2)`, rotation by `π/2` about the `x`-axis,
`q = (√2/2, 0, 0, √2/2)`; `Log` has rotation part `(π/2, 0, 0)` -/
example : UnitQ .SE3 [1, -1, 2, qr, 0, 0, qr] ∧
    (1/2:ℝ) < (qt ([1, -1, 2, qr, 0, 0, qr] : DVec ℝ) 3).vec.norm ∧
    (1/2:ℝ) < |(qt ([1, -1, 2, qr, 0, 0, qr] : DVec ℝ) 3).w| ∧
    (1/2:ℝ) < (v3 (logF .SE3 (1/2) [1, -1, 2, qr, 0, 0, qr]) 3).norm ∧
    (5:ℝ)/100 < (v3 (logF .SE3 (1/2) [1, -1, 2, qr, 0, 0, qr]) 3).norm ∧
    Real.sin (1/2 * (v3 (logF .SE3 (1/2) [1, -1, 2, qr, 0, 0, qr]) 3).norm) ≠ 0 := by
  have hq : qt ([1, -1, 2, qr, 0, 0, qr] : DVec ℝ) 3 = ⟨qr, 0, 0, qr⟩ := by simp [qt]
  have hφ : v3 (logF .SE3 (1/2) [1, -1, 2, qr, 0, 0, qr]) 3 = ⟨Real.pi / 2, 0, 0⟩ := by
    simp only [logF, SE3Log, toSE3, hq, quarter_SO3Log (1/2) (by norm_num), se3.toList]
    simp [v3, Vec3.toList]
  have hg := qr_gt
  have hp := pihalf_gt
  rw [hφ, hq, pihalf_norm, quarter_vnorm, quarter_w]
  refine ⟨?_, by linarith, by linarith, by linarith, by linarith, sin_quarter_ne⟩
  simp only [UnitQ, hq, Quat.normSq]; have := qr_sq; nlinarith

/-! ### the curves that define gradients and Jacobians -/

/-- **`Exp₁` is the true retraction, every group** (generalises `SO3_retraction_tangent`): `t ↦ Exp(t·τ) @ X`, along which the property
defines `X.grad`, passes through `X` with exactly the velocity `liftG` that all local theorems use. -/
theorem retraction_tangent (g : Grp) (eps : ℝ) (heps : 0 < eps) (X τ : DVec ℝ) (hτ : τ.length = g.adim) :
    GTangent g (fun t => retrF g eps X (DVec.smul t τ)) τ :=
  retr_tangent g eps heps X τ hτ

/-- `Exp(0) @ X = X` -/
theorem retraction_at_zero (g : Grp) (eps : ℝ) (heps : 0 < eps) (X : DVec ℝ) (hX : X.length = g.gdim) :
    retrF g eps X (DVec.zero g.adim) = X :=
  retrF_zero g eps heps X hX

/-- `X · X⁻¹` is the identity element (unit quaternion, non-zero scale) -/
theorem mul_inv_identity (g : Grp) (X : DVec ℝ) (hu : UnitQ g X) (hs : ScaleNZ g X) : mulF g X (invF g X) = identG g :=
  mulF_invF g X hu hs

/-- **group-valued outputs are read in the chart `Log(Y·Y₀⁻¹)`**: if `Y(t)` has left-perturbation tangent `τ`, its chart coordinates
around `Y₀ = Y(0)` move with velocity `τ` -/
theorem chart_reads_tangent (g : Grp) (eps : ℝ) (heps : 0 < eps) (Y : ℝ → DVec ℝ) (τ : DVec ℝ) (hτ : τ.length = g.adim)
    (hY : GTangent g Y τ) (hu : UnitQ g (Y 0)) (hs : ScalePos g (Y 0)) :
    LCurve g.adim (fun t => chartF g eps (Y 0) (Y t)) τ :=
  chart_tangent g eps heps Y τ hτ hY hu hs

/-! ### `Jinvp` -/

/-- **`Jinvp` node = `Log` node + the kernel contract `DJSpec`.**  `Jinvp(X,p) = Jl_inv(Log X)·p` is not an autograd `Function`; the
derivative of `φ ↦ Jl_inv(φ)·p` is PyTorch's autograd of built-in operations, the model parameter `dJ`.  `DJSpec dJ g eps φ₀ p₀` says
exactly: along every differentiable curve `φ` through `φ₀` with velocity `d`, the entries of `Jl_inv(φ(t))` are differentiable and
`dJ(φ₀,p₀)·d` is the derivative of `Jl_inv(φ(t))·p₀`. -/
theorem Jinvp_node_of_contract (dJ : DJ ℝ) (hdJs : DJShape dJ) (eps : ℝ) (lt : List Ty) (env : ℝ → List (DVec ℝ)) (tan : List (DVec ℝ))
    (g : Grp) (p q : Prog) (hq : NodeOK dJ eps lt env tan q) (hlog : NodeOK dJ eps lt env tan (.un .Log g p))
    (hdj : DJSpec dJ g eps (logF g eps (eval eps (env 0) p)) (eval eps (env 0) q)) :
    NodeOK dJ eps lt env tan (.bin .Jinvp g p q) :=
  jinvp_nodeOK_of dJ hdJs eps lt env tan g p q hq hlog hdj

/-- **the contract is satisfiable where the property needs it — away from the zero rotation**: the analytic kernel `dJclosed`
(`½ hat p + (c′(θ)/θ)·(K²p)φᵀ − c(θ)(hat(φ×p) + K·hat p)`, `c` the closed-form coefficient of `so3_Jl_inv`) meets `DJSpec` for `SO3` at
every `φ₀` on the closed-form branch (`θ₀ > eps`, `sin(θ₀/2) ≠ 0`) and every `p₀`.  For `SE3`/`RxSO3`/`Sim3` no witness is proved
(`dJclosed` is the zero matrix there); their `Jinvp` gradients rest on the driver's Richardson-checked stand-in and the oracle. -/
theorem Jinvp_contract_satisfiable (eps : ℝ) (heps : 0 ≤ eps) (φ0 p0 : DVec ℝ) (hφl : φ0.length = 3) (hp : p0.length = 3)
    (hth : eps < (v3 φ0).norm) (hs : Real.sin (1/2 * (v3 φ0).norm) ≠ 0) : DJSpec dJclosed .SO3 eps φ0 p0 :=
  djSpec_SO3_closed eps heps φ0 p0 hφl hp hth hs

/-- … and at the zero rotation (outside the property's domain for `Jinvp`) by the kernel `½ hat p` -/
theorem Jinvp_contract_at_zero (eps : ℝ) (heps : 0 < eps) (p0 : DVec ℝ) (hp : p0.length = 3) :
    DJSpec dJzero .SO3 eps [0, 0, 0] p0 :=
  djSpec_SO3_zero eps heps p0 hp

/-- non-vacuity: `φ₀ = (π/2, 0, 0)`, `eps = 1/2` -/
example : (1/2:ℝ) < (v3 ([Real.pi / 2, 0, 0] : DVec ℝ)).norm ∧ Real.sin (1/2 * (v3 ([Real.pi / 2, 0, 0] : DVec ℝ)).norm) ≠ 0 := by
  have : v3 ([Real.pi / 2, 0, 0] : DVec ℝ) = ⟨Real.pi / 2, 0, 0⟩ := by simp [v3]
  rw [this, pihalf_norm]
  exact ⟨by have := pihalf_gt; linarith, sin_quarter_ne⟩

/-! ### the exact-gradient theorem on explicit regimes -/

/-- local correctness of every `Exp` node evaluated in `ExpRegime` -/
theorem Exp_node_of_regime (dJ : DJ ℝ) (eps : ℝ) (heps : 0 < eps) (lt : List Ty) (env : ℝ → List (DVec ℝ)) (tan : List (DVec ℝ))
    (g : Grp) (p : Prog) (hp : NodeOK dJ eps lt env tan p) (hR : ExpRegime g eps (eval eps (env 0) p)) :
    NodeOK dJ eps lt env tan (.un .Exp g p) :=
  exp_nodeOK_of_regime dJ eps heps lt env tan g p hp hR

/-- local correctness of every `Log` node evaluated in `LogRegime` -/
theorem Log_node_of_regime (dJ : DJ ℝ) (eps : ℝ) (heps : 0 < eps) (lt : List Ty) (env : ℝ → List (DVec ℝ)) (tan : List (DVec ℝ))
    (g : Grp) (p : Prog) (hp : NodeOK dJ eps lt env tan p) (hR : LogRegime g eps (eval eps (env 0) p)) :
    NodeOK dJ eps lt env tan (.un .Log g p) :=
  log_nodeOK_of_regime dJ eps heps lt env tan g p hp hR

/-- **`Regimes` discharges `TransSpec`**: the abstract hypothesis of `gradient_exact_partial` follows from conditions on the *values* at
the evaluation point. -/
theorem transSpec_from_regimes (dJ : DJ ℝ) (hdJ : DJShape dJ) (eps : ℝ) (heps : 0 < eps) (lt : List Ty) (env : ℝ → List (DVec ℝ))
    (tan : List (DVec ℝ)) (hleaf : ∀ i t, lt[i]? = some t → CurveOK t (fun s => (env s).getD i []) (tan.getD i []))
    (p : Prog) (hR : Regimes dJ eps (env 0) p) : TransSpec dJ eps lt env tan p :=
  transSpec_of_regimes dJ hdJ eps heps lt env tan hleaf p hR

/-- algebraic programs satisfy `Regimes` trivially -/
theorem regimes_algebraic (dJ : DJ ℝ) (eps : ℝ) (env0 : List (DVec ℝ)) (p : Prog) (hp : p.algebraic = true) :
    Regimes dJ eps env0 p :=
  regimes_of_algebraic dJ eps env0 p hp

/-- the chart program's `Log` is always evaluated in a proved regime -/
theorem chart_in_regime (g : Grp) (eps : ℝ) (Y : DVec ℝ) (hu : UnitQ g Y) (hs : ScalePos g Y) :
    LogRegime g eps (mulF g Y (invF g Y)) :=
  logRegime_chart g eps Y hu hs

/-- **Exact gradients for every program whose transcendental nodes are evaluated in proved regimes** (`Regimes`: closed-form branches,
zero vector / identity; `Jinvp`: the kernel contract).  `_partial`: what is *not* covered is exactly where the code itself is only
approximately the derivative of its forward pass — Taylor branches at non-zero `θ ≤ eps`, the series branch of `calcQ` at `0 < θ ≤ 0.05`,
regimes 2 (`|w| ≤ eps`) and 3 (`0 < ‖v‖ ≤ eps`) of `SO3_Log`, `sim3` `Exp` / `Sim3` `Log` away from zero / identity (truncated series). -/
theorem gradient_exact_regimes_partial (dJ : DJ ℝ) (hdJ : DJShape dJ) (eps : ℝ) (heps : 0 < eps) (lt : List Ty)
    (env : ℝ → List (DVec ℝ)) (tan : List (DVec ℝ)) (hE : EnvOK lt (env 0) tan)
    (hleaf : ∀ i t, lt[i]? = some t → CurveOK t (fun s => (env s).getD i []) (tan.getD i []))
    (p : Prog) (hR : Regimes dJ eps (env 0) p) (n : Nat) (hty : tyOf lt p = some (.V n)) (c : DVec ℝ) (hc : c.length = n) :
    HasDerivAt (fun s => DVec.dot c (eval eps (env s) p)) (pairSum tan (backprop dJ eps (env 0) p c)) 0 :=
  program_gradient_exact_of_regimes dJ hdJ eps heps lt env tan hE hleaf p hR n hty c hc

/-! ### the property in its own terms: `.grad` along the true retraction -/

/-- every contribution the reverse sweep delivers to a leaf has the storage length of that leaf -/
theorem backprop_contribution_lengths (dJ : DJ ℝ) (hdJ : DJShape dJ) (eps : ℝ) (lt : List Ty) (env : List (DVec ℝ)) (p : Prog)
    (ty : Ty) (go : DVec ℝ) (hty : tyOf lt p = some ty) (hgo : go.length = ty.dim) :
    ∀ c ∈ backprop dJ eps env p go, ∀ t, lt[c.1]? = some t → c.2.length = t.dim :=
  backprop_lengths dJ hdJ eps lt env p ty go hty hgo

/-- **the pairing of all theorems above is the pairing with `.grad`**: with tangent `τ` at leaf `i` and zero elsewhere,
`Σ ⟨contribution, tangent⟩ = ⟨gradᵢ, τ⟩`, `gradᵢ` the accumulated sum of the contributions to leaf `i`. -/
theorem pairing_is_grad (lt : List Ty) (i n : Nat) (τ : DVec ℝ) (hi : i < lt.length) (cs : List (Nat × DVec ℝ))
    (hlen : ∀ c ∈ cs, c.1 = i → c.2.length = n) :
    pairSum (oneTan lt i τ) cs = DVec.dot (grad n i cs) τ :=
  pairSum_oneTan lt i n τ hi cs hlen

/-- **`X.grad` is the left-perturbation Jacobian, algebraic programs — full strength.**  For every well-typed program `p` over
`{Inv, @, Act, Act4, Adj, AdjT, matrix()}` with vector-valued output, every valid point `env0`, every cotangent `c`, every group leaf `i`
and direction `τ`:  `d/dt ⟨c, p(…, Exp(t·τ) @ Xᵢ, …)⟩ |_{t=0} = ⟨gradᵢ, τ⟩`, where `gradᵢ` is what the reverse sweep accumulates
in `.grad` of leaf `i` and `Exp` is the coded exponential (`Exp₁`, the true retraction). -/
theorem leaf_gradient_exact_algebraic (dJ : DJ ℝ) (hdJ : DJShape dJ) (eps : ℝ) (heps : 0 < eps) (lt : List Ty) (env0 : List (DVec ℝ))
    (hP : PointOK lt env0) (i : Nat) (g : Grp) (hi : lt[i]? = some (.G g)) (τ : DVec ℝ) (hτ : τ.length = g.adim)
    (p : Prog) (hp : p.algebraic = true) (n : Nat) (hty : tyOf lt p = some (.V n)) (c : DVec ℝ) (hc : c.length = n) :
    HasDerivAt (fun t => DVec.dot c (eval eps (curveEnv env0 i (fun s => retrF g eps (env0.getD i []) (DVec.smul s τ)) t) p))
      (DVec.dot (grad g.gdim i (backprop dJ eps env0 p c)) τ) 0 :=
  leaf_gradient_exact dJ hdJ eps heps lt env0 hP i g hi τ hτ p (regimes_of_algebraic dJ eps env0 p hp) n hty c hc

/-- the same for every program whose transcendental nodes are evaluated in proved regimes (see `gradient_exact_regimes_partial`) -/
theorem leaf_gradient_exact_partial (dJ : DJ ℝ) (hdJ : DJShape dJ) (eps : ℝ) (heps : 0 < eps) (lt : List Ty) (env0 : List (DVec ℝ))
    (hP : PointOK lt env0) (i : Nat) (g : Grp) (hi : lt[i]? = some (.G g)) (τ : DVec ℝ) (hτ : τ.length = g.adim)
    (p : Prog) (hR : Regimes dJ eps env0 p) (n : Nat) (hty : tyOf lt p = some (.V n)) (c : DVec ℝ) (hc : c.length = n) :
    HasDerivAt (fun t => DVec.dot c (eval eps (curveEnv env0 i (fun s => retrF g eps (env0.getD i []) (DVec.smul s τ)) t) p))
      (DVec.dot (grad g.gdim i (backprop dJ eps env0 p c)) τ) 0 :=
  leaf_gradient_exact dJ hdJ eps heps lt env0 hP i g hi τ hτ p hR n hty c hc

/-- **`.grad` of a Euclidean / Lie-algebra leaf is the ordinary gradient** (straight line `xᵢ + t·d`), same programs -/
theorem vector_leaf_gradient_exact_partial (dJ : DJ ℝ) (hdJ : DJShape dJ) (eps : ℝ) (heps : 0 < eps) (lt : List Ty)
    (env0 : List (DVec ℝ)) (hP : PointOK lt env0) (i m : Nat) (hi : lt[i]? = some (.V m)) (d : DVec ℝ) (hd : d.length = m)
    (p : Prog) (hR : Regimes dJ eps env0 p) (n : Nat) (hty : tyOf lt p = some (.V n)) (c : DVec ℝ) (hc : c.length = n) :
    HasDerivAt (fun t => DVec.dot c (eval eps (curveEnv env0 i (fun s => DVec.add (env0.getD i []) (DVec.smul s d)) t) p))
      (DVec.dot (grad m i (backprop dJ eps env0 p c)) d) 0 :=
  vleaf_gradient_exact dJ hdJ eps heps lt env0 hP i m hi d hd p hR n hty c hc

/-- **group-valued roots, algebraic programs — full strength** (pass 7).  For every well-typed program `p` over
`{Inv, @, Act, Act4, Adj, AdjT, matrix()}` whose VALUE is an element of the group `g'`, every valid point, every group leaf `i`,
direction `τ` and `c ∈ ℝ^{adim g'}`:

  `d/dt ⟨c, Log(p(…, Exp(t·τ) @ Xᵢ, …) · p(…, Xᵢ, …)⁻¹)⟩ |_{t=0} = ⟨gradᵢ, τ⟩`,

`gradᵢ` = what the reverse sweep started with the storage cotangent `(c, 0)` accumulates in `.grad` of leaf `i`: the Jacobian of a
group-valued program, read in the left-perturbation chart of its output, is what autograd delivers; the last storage slot of the
cotangent plays no role. -/
theorem group_root_gradient_exact_algebraic (dJ : DJ ℝ) (hdJ : DJShape dJ) (eps : ℝ) (heps : 0 < eps) (lt : List Ty) (env0 : List (DVec ℝ))
    (hP : PointOK lt env0) (i : Nat) (g : Grp) (hi : lt[i]? = some (.G g)) (τ : DVec ℝ) (hτ : τ.length = g.adim)
    (p : Prog) (hp : p.algebraic = true) (g' : Grp) (hty : tyOf lt p = some (.G g')) (c : DVec ℝ) (hc : c.length = g'.adim) :
    HasDerivAt (fun t => DVec.dot c (chartF g' eps (eval eps env0 p)
        (eval eps (curveEnv env0 i (fun s => retrF g eps (env0.getD i []) (DVec.smul s τ)) t) p)))
      (DVec.dot (grad g.gdim i (backprop dJ eps env0 p (pad0 c))) τ) 0 :=
  group_root_leaf_gradient_exact dJ hdJ eps heps lt env0 hP i g hi τ hτ p (regimes_of_algebraic dJ eps env0 p hp) g' hty c hc

/-- the same for every group-valued program whose transcendental nodes are evaluated in proved regimes, leaf `i` of any type moving along
any valid curve (`_partial` for the reasons of `gradient_exact_regimes_partial`) -/
theorem group_root_gradient_exact_partial (dJ : DJ ℝ) (hdJ : DJShape dJ) (eps : ℝ) (heps : 0 < eps) (lt : List Ty) (env0 : List (DVec ℝ))
    (hP : PointOK lt env0) (i : Nat) (ti : Ty) (hi : lt[i]? = some ti) (γ : ℝ → DVec ℝ) (τ : DVec ℝ)
    (hγ : CurveOK ti γ τ) (hγ0 : γ 0 = env0.getD i []) (hτ : τ.length = ti.tdim)
    (p : Prog) (hR : Regimes dJ eps env0 p) (g' : Grp) (hty : tyOf lt p = some (.G g')) (c : DVec ℝ) (hc : c.length = g'.adim) :
    HasDerivAt (fun t => DVec.dot c (chartF g' eps (eval eps env0 p) (eval eps (curveEnv env0 i γ t) p)))
      (DVec.dot (grad ti.dim i (backprop dJ eps env0 p (pad0 c))) τ) 0 :=
  group_root_curve_gradient_exact dJ hdJ eps heps lt env0 hP i ti hi γ τ hγ hγ0 hτ p hR g' hty c hc

/-- non-vacuity: the group-valued algebraic program `X⁻¹ @ Y` on `SE3` at `X = (1,-1,2; 0.6,0,0,0.8)`, `Y = (0,0,1; 0,0,0,1)` -/
example : PointOK [.G .SE3, .G .SE3] [[1, -1, 2, 0.6, 0, 0, 0.8], [0, 0, 1, 0, 0, 0, 1]] ∧
    (Prog.bin .Mul .SE3 (.un .Inv .SE3 (.leaf 0)) (.leaf 1)).algebraic = true ∧
    tyOf [.G .SE3, .G .SE3] (.bin .Mul .SE3 (.un .Inv .SE3 (.leaf 0)) (.leaf 1)) = some (.G .SE3) := by
  refine ⟨⟨rfl, ?_⟩, by decide, by decide⟩
  intro j t hj
  match j, hj with
  | 0, hj =>
    simp at hj; subst hj
    refine ⟨rfl, fun g hg => ?_⟩
    cases hg
    exact ⟨by simp [UnitQ, qt, Quat.normSq]; norm_num, trivial⟩
  | 1, hj =>
    simp at hj; subst hj
    refine ⟨rfl, fun g hg => ?_⟩
    cases hg
    exact ⟨by simp [UnitQ, qt, Quat.normSq], trivial⟩
  | (k+2), hj => simp at hj

/-- **the reverse sweep is per leaf** (class 37, model side): `.grad` of leaf `i` is the same whichever set `S ∋ i` of leaves is
differentiated — the contributions addressed to leaves outside `S` (operands with `requires_grad = False`, constants) are simply not
delivered, and no contribution to `i` depends on them.  In the real code this is the business of the `ctx.needs_input_grad` guards; that
they behave like this is decided by the `subsets` stream only (seed C04-5 nested one of them). -/
theorem leaf_gradient_independent_of_differentiated_set (dJ : DJ ℝ) (eps : ℝ) (env : List (DVec ℝ)) (p : Prog) (c : DVec ℝ)
    (n i : Nat) (S : Nat → Bool) (hS : S i = true) :
    grad n i ((backprop dJ eps env p c).filter (fun k => S k.1)) = grad n i (backprop dJ eps env p c) :=
  grad_filter n i S hS _

/-- non-vacuity of `PointOK` / `Regimes`: the program `Act(Exp(a) @ X, p)` on `SO3` — `X.grad` read through the retraction — at
`X = (0.6, 0, 0, 0.8)`, `a = 0`, `p = (1, 2, 3)`: the `Exp` node is evaluated at the zero vector, a proved regime -/
example : PointOK [.G .SO3, .V 3, .V 3] [[0.6, 0, 0, 0.8], [0, 0, 0], [1, 2, 3]] ∧
    Regimes dJzero (2⁻¹) [[0.6, 0, 0, 0.8], [0, 0, 0], [1, 2, 3]] (.bin .Act .SO3 (Prog.retr .SO3 (.leaf 0) (.leaf 1)) (.leaf 2)) ∧
    tyOf [.G .SO3, .V 3, .V 3] (.bin .Act .SO3 (Prog.retr .SO3 (.leaf 0) (.leaf 1)) (.leaf 2)) = some (.V 3) := by
  refine ⟨⟨rfl, ?_⟩, ?_, by decide⟩
  · intro j t hj
    match j, hj with
    | 0, hj =>
      simp at hj; subst hj
      refine ⟨rfl, fun g hg => ?_⟩
      cases hg
      exact ⟨by simp [UnitQ, qt, Quat.normSq]; norm_num, trivial⟩
    | 1, hj => simp at hj; subst hj; exact ⟨rfl, fun g hg => by cases hg⟩
    | 2, hj => simp at hj; subst hj; exact ⟨rfl, fun g hg => by cases hg⟩
    | (k+3), hj => simp at hj
  · simp only [Regimes, Prog.retr, eval, and_true, true_and]
    right
    simp [v3]

/-- non-vacuity of `Regimes` through the NON-trivial disjuncts, at `eps = 1/2 > 0`: the program `Act(Exp(Log X), p)` at the quarter turn
`X = (√2/2, 0, 0, √2/2)` — the `Log` node is in regime 1 (`‖v‖ = |w| = √2/2 > eps`, `‖Log X‖ = π/2 > eps`), the `Exp` node on the
closed-form branch (`θ = π/2 > eps`); and `Jinvp(X, p)` with the analytic kernel `dJclosed` meeting its contract at `Log X` -/
example : Regimes dJclosed (1/2) [[qr, 0, 0, qr], [1, 2, 3]] (.bin .Act .SO3 (.un .Exp .SO3 (.un .Log .SO3 (.leaf 0))) (.leaf 1)) ∧
    Regimes dJclosed (1/2) [[qr, 0, 0, qr], [1, 2, 3]] (.bin .Jinvp .SO3 (.leaf 0) (.leaf 1)) := by
  have e : qt ([qr, 0, 0, qr] : DVec ℝ) = ⟨qr, 0, 0, qr⟩ := by simp [qt]
  have hv3 : v3 ([Real.pi / 2, 0, 0] : DVec ℝ) = ⟨Real.pi / 2, 0, 0⟩ := by simp [v3]
  have hg := qr_gt
  have hp := pihalf_gt
  have hL : LogRegime .SO3 (1/2) [qr, 0, 0, qr] := by
    left
    refine ⟨by rw [e, quarter_vnorm]; linarith, by rw [e, quarter_w]; linarith, ?_⟩
    rw [quarter_logF (1/2) (by norm_num), hv3, pihalf_norm]; linarith
  constructor
  · simp only [Regimes, eval, fwd1, and_true, true_and]
    refine ⟨hL, ?_⟩
    left
    show (1/2:ℝ) < (v3 (logF .SO3 (1/2) (List.getD [[qr, 0, 0, qr], [1, 2, 3]] 0 []))).norm
    simp only [List.getD_cons_zero]
    rw [quarter_logF (1/2) (by norm_num), hv3, pihalf_norm]; linarith
  · simp only [Regimes, eval, and_true, true_and]
    refine ⟨by simpa using hL, ?_⟩
    simp only [List.getD_cons_zero, List.getD_cons_succ]
    rw [quarter_logF (1/2) (by norm_num)]
    exact djSpec_SO3_closed (1/2) (by norm_num) _ _ rfl rfl (by rw [hv3, pihalf_norm]; linarith) (by rw [hv3, pihalf_norm]; exact sin_quarter_ne)

/-! ## 8. Pass 3 — the batched / broadcasting layer (`Pose/Model/AutogradBatch.lean`, driver op `c04.bcall`)

`broadcast_inputs` + autograd's reduction of expanded tensors, as definitions over the per-item model; compared with the code by the
`batch` stream. -/

/-- **accepted batch shapes satisfy the precondition**: if `torch.broadcast_shapes(a, b)` accepts, both shapes broadcast to the result
(right-aligned, every dimension equal or `1`) -/
theorem broadcast_accepts_compatible (a b c : List Nat) (h : bcast2 a b = some c) :
    CompatRev c.reverse a.reverse ∧ CompatRev c.reverse b.reverse :=
  bcast2_compat a b c h

/-- the error path: a dimension on which the shapes disagree and neither is `1` is rejected (`none` = the code raises) -/
theorem broadcast_rejects (x y : Nat) (a b : List Nat) (hxy : x ≠ y) (hx : x ≠ 1) (hy : y ≠ 1) :
    bcastRev (x :: a) (y :: b) = none :=
  bcastRev_none_cons x y a b hxy hx hy

example : bcast2 [3, 1] [2] = some [3, 2] := by decide
example : bcast2 [2, 1, 3] [4, 1] = some [2, 4, 3] := by decide
example : bcast2 [2] [3] = none := by decide
example : progShape [[3, 1], [2], []] (.bin .Act .SO3 (.bin .Mul .SO3 (.leaf 0) (.leaf 2)) (.leaf 1)) = some [3, 2] := by decide

/-- **index safety**: the item that batch index `k` reads from a leaf of a compatible batch shape exists -/
theorem broadcast_index_in_range (bs ls : List Nat) (k : Nat) (h : CompatRev bs.reverse ls.reverse) (hp : ∀ d ∈ ls, 0 < d) :
    itemIndex bs ls k < numel ls :=
  itemIndex_lt bs ls k h hp

/-- a leaf that already has the broadcast shape is read item by item; a leaf of batch shape `()` is read at item `0` by everyone -/
theorem broadcast_index_self (bs : List Nat) (k : Nat) (h : k < numel bs) : itemIndex bs bs k = k := itemIndex_self bs k h
theorem broadcast_index_scalar (bs : List Nat) (k : Nat) : itemIndex bs [] k = 0 := itemIndex_scalar bs k

/-- row-major: in batch shape `(2, 3)` flat index `4` is `(1, 1)`; a leaf of shape `(3,)` is read at `1`, of shape `(2, 1)` at `1` -/
example : itemIndex [2, 3] [3] 4 = 1 ∧ itemIndex [2, 3] [2, 1] 4 = 1 ∧ itemIndex [2, 3] [1, 3] 5 = 2 := by decide

/-! Not property theorems (lemmas in `Proofs/Lemmas/AutogradBatch.lean`): `bcontribs_pairing`, `batched_adjoint`, `bcontribs_unbatched` —
`bcontribs` is DEFINED as the per-item sweeps addressed to the leaf items, so "batched = sum of items" is true by construction of the
model.  That `broadcast_inputs` + `expand` + autograd's reduction in the real code behave like this definition rests on the `batch`
stream (`c04.bcall` against the code) only. -/

/-! ## 9. Pass 10 — the selected branches never divide by zero; group-valued roots with all leaves moving

The "no NaN / Inf" clause is decided by the harness (§5).  What the exact model CAN say about it: wherever the model's `if` takes its value
from a closed form, every denominator of that closed form is non-zero, so the convention `x/0 = 0` of `ℝ` is never exercised on a selected
branch and the model value is the honest real number.  `_partial`: not covered are the masked-out branch the code also evaluates
(`idx * nan_to_num(…)`) and floating-point overflow / underflow. -/

/-- **coefficients of `so3_Jl`, `so3_Jl_inv`, `calcQ`, `rxso3_Ws`, `so3_Exp` on their closed-form branches**: the model value is the closed
form and all its denominators are non-zero (`so3_Jl_inv`: for `θ < 2π`; a `Log` returns `θ ≤ π`) -/
theorem selected_branch_well_defined_partial (eps th sigma : ℝ) (h0 : 0 ≤ eps) :
    (eps < th → so3JlCoef eps th = ((1 - Real.cos th) / (th * th), (th - Real.sin th) / (th * (th * th))) ∧ th * th ≠ 0 ∧ th * (th * th) ≠ 0) ∧
    (eps < th → th < 2 * Real.pi →
      so3JlInvCoef eps th = (1 - th * Real.cos (1/2 * th) / (2 * Real.sin (1/2 * th))) / (th * th) ∧ 2 * Real.sin (1/2 * th) ≠ 0 ∧ th * th ≠ 0) ∧
    ((5:ℝ)/100 < th → th * th * th ≠ 0 ∧ 2 * (th * th * (th * th)) ≠ 0 ∧ 2 * (th * th * (th * th)) * th ≠ 0) ∧
    (eps < |sigma| → sigma ≠ 0 ∧ sigma * sigma ≠ 0 ∧ sigma * sigma * sigma ≠ 0) ∧
    (eps < th → th * th ≠ 0 ∧ th * th * th ≠ 0) ∧
    (eps < |sigma| → eps < th → th * (th * th + sigma * sigma) ≠ 0 ∧ th * th + sigma * sigma ≠ 0) :=
  ⟨so3JlCoef_closed_wellDefined eps th h0, so3JlInvCoef_closed_wellDefined eps th h0, calcQ_closed_wellDefined th,
   (rxso3WsCoef_wellDefined eps th sigma h0).1, (rxso3WsCoef_wellDefined eps th sigma h0).2.1, (rxso3WsCoef_wellDefined eps th sigma h0).2.2⟩

/-- **`SO3_Log`**: regime 1 (`‖v‖ > eps`, `|w| > eps`) divides by `w` and `‖v‖`, regime 2 by `‖v‖`, regime 3 (`‖v‖ ≤ eps`, unit quaternion,
`eps < 1`) by `w` and `3w³` — non-zero on their own branch, and the model value is the corresponding closed form -/
theorem SO3_Log_selected_branch_well_defined_partial (eps vn w : ℝ) (h0 : 0 ≤ eps) :
    (eps < vn → eps < |w| → so3LogFactor eps vn w = 2 * Real.arctan (vn / w) / vn ∧ vn ≠ 0 ∧ w ≠ 0) ∧
    (eps < vn → ¬ eps < |w| → vn ≠ 0) ∧
    (¬ eps < vn → eps < 1 → 0 ≤ vn → vn * vn + w * w = 1 →
      so3LogFactor eps vn w = 2 * (1 / w - vn * vn / (3 * (w * w * w))) ∧ w ≠ 0 ∧ 3 * (w * w * w) ≠ 0) :=
  so3LogFactor_wellDefined eps vn w h0

/-- non-vacuity: `θ = 1`, `σ = 1`, `eps = 1/2` satisfy every hypothesis of `selected_branch_well_defined_partial`; the quarter turn
(`‖v‖ = w = √2/2`) is in regime 1 and the identity (`‖v‖ = 0`, `w = 1`) in regime 3 of `SO3_Log_selected_branch_well_defined_partial` -/
example : (1/2:ℝ) < 1 ∧ (1:ℝ) < 2 * Real.pi ∧ (5:ℝ)/100 < 1 ∧ (1/2:ℝ) < |(1:ℝ)| ∧
    ((1/2:ℝ) < qr ∧ (1/2:ℝ) < |qr| ∧ qr * qr + qr * qr = 1) ∧ (¬ (1/2:ℝ) < 0 ∧ (0:ℝ) * 0 + 1 * 1 = 1) := by
  have hg := qr_gt
  have hp := Real.two_le_pi
  refine ⟨by norm_num, by linarith, by norm_num, by norm_num, ⟨by linarith, by rw [abs_of_pos qr_pos]; linarith, by have := qr_sq; linarith⟩,
    by norm_num, by norm_num⟩

/-- **group-valued roots with all leaves moving at once** (the chart version of `gradient_exact_regimes_partial`): for every well-typed
program whose value is an element of `g'`, transcendental nodes in proved regimes, all leaves moving along arbitrary valid curves,
`d/dt ⟨c, Log(p(env(t))·p(env(0))⁻¹)⟩|₀ = Σ_leaves ⟨contribution, τ_leaf⟩` for the reverse sweep started with the storage cotangent `(c, 0)`.
`_partial` for the same reasons as `gradient_exact_regimes_partial`; for algebraic programs `Regimes` holds trivially (`regimes_algebraic`). -/
theorem group_root_gradient_exact_all_leaves_partial (dJ : DJ ℝ) (hdJ : DJShape dJ) (eps : ℝ) (heps : 0 < eps) (lt : List Ty)
    (env : ℝ → List (DVec ℝ)) (tan : List (DVec ℝ)) (hE : EnvOK lt (env 0) tan)
    (hleaf : ∀ i t, lt[i]? = some t → CurveOK t (fun s => (env s).getD i []) (tan.getD i []))
    (p : Prog) (hR : Regimes dJ eps (env 0) p) (g' : Grp) (hty : tyOf lt p = some (.G g')) (c : DVec ℝ) (hc : c.length = g'.adim) :
    HasDerivAt (fun s => DVec.dot c (chartF g' eps (eval eps (env 0) p) (eval eps (env s) p)))
      (pairSum tan (backprop dJ eps (env 0) p (pad0 c))) 0 :=
  group_root_program_gradient_exact dJ hdJ eps heps lt env tan hE hleaf p hR g' hty c hc

/-- **the `Jinvp` kernel contract is satisfiable for `RxSO3` as well** (pass 10; `Jinvp_contract_satisfiable` is the `SO3` case): the kernel
`dJclosedR` — the analytic `SO3` kernel on the rotation block, zero on the constant scale block of `rxso3_Jl_inv` — meets `DJSpec` at every
`(φ₀, σ₀)` on the closed-form branch (`θ₀ > eps`, `sin(θ₀/2) ≠ 0`) and every `p₀`.  Still no witness for `SE3` / `Sim3` (their `Jl_inv` depends
on the translation through `calcQ` resp. is the truncated series): those rest on the driver's Richardson-checked stand-in. -/
theorem Jinvp_contract_satisfiable_RxSO3 (eps : ℝ) (heps : 0 ≤ eps) (φ0 p0 : DVec ℝ) (hφl : φ0.length = 4) (hp : p0.length = 4)
    (hth : eps < (v3 φ0).norm) (hs : Real.sin (1/2 * (v3 φ0).norm) ≠ 0) : DJSpec dJclosedR .RxSO3 eps φ0 p0 :=
  djSpec_RxSO3_closed eps heps φ0 p0 hφl hp hth hs

/-- non-vacuity: `(φ₀, σ₀) = (π/2, 0, 0; 0.3)`, `eps = 1/2` -/
example : (1/2:ℝ) < (v3 ([Real.pi / 2, 0, 0, 0.3] : DVec ℝ)).norm ∧ Real.sin (1/2 * (v3 ([Real.pi / 2, 0, 0, 0.3] : DVec ℝ)).norm) ≠ 0 := by
  have : v3 ([Real.pi / 2, 0, 0, 0.3] : DVec ℝ) = ⟨Real.pi / 2, 0, 0⟩ := by simp [v3]
  rw [this, pihalf_norm]
  exact ⟨by have := pihalf_gt; linarith, sin_quarter_ne⟩

/-- **pass 11: the hypothesis `sin(θ/2) ≠ 0` replaced by the exact natural guard.**  For every rotation vector with `eps < θ < 2π` (every vector a
`Log` returns has `θ ≤ π`) `so3_Jl` and `so3_Jl_inv` are inverse to each other in both orders (`so3_Jl_mul_JlInv`, `so3_JlInv_mul_Jl` without the
side condition) -/
theorem so3_Jl_JlInv_inverse_lt_two_pi (eps : ℝ) (x : Vec3 ℝ) (h0 : 0 ≤ eps) (h : eps < x.norm) (h2 : x.norm < 2 * Real.pi) :
    (so3Jl eps x).mul (so3JlInv eps x) = Mat3.one ∧ (so3JlInv eps x).mul (so3Jl eps x) = Mat3.one :=
  so3Jl_JlInv_inverse_pair eps x h0 h h2

/-- … and `SE3_Log.backward` is the true derivative for every curve through an `X` in regime 1 of `SO3_Log` whose logarithm has
`max(eps, 0.05) < θ < 2π` (`SE3_Log_tangent` with `sin(θ/2) ≠ 0` discharged) -/
theorem SE3_Log_tangent_lt_two_pi (eps : ℝ) (heps : 0 ≤ eps) (X : ℝ → DVec ℝ) (a0 a1 a2 a3 a4 a5 : ℝ)
    (hX : GTangent .SE3 X [a0, a1, a2, a3, a4, a5]) (hu : UnitQ .SE3 (X 0))
    (hv : eps < (qt (X 0) 3).vec.norm) (hw : eps < |(qt (X 0) 3).w|)
    (hφ : eps < (v3 (logF .SE3 eps (X 0)) 3).norm) (hq : (5:ℝ)/100 < (v3 (logF .SE3 eps (X 0)) 3).norm)
    (h2 : (v3 (logF .SE3 eps (X 0)) 3).norm < 2 * Real.pi) :
    LCurve 6 (fun t => logF .SE3 eps (X t)) ((JlInvMat .SE3 eps (logF .SE3 eps (X 0))).mulVec [a0, a1, a2, a3, a4, a5]) :=
  SE3Log_tangent_lt_two_pi eps heps X a0 a1 a2 a3 a4 a5 hX hu hv hw hφ hq h2

/-- non-vacuity: `x = (π/2, 0, 0)` has `1/2 < ‖x‖ = π/2 < 2π`; it is the rotation part of `Log` of the quarter turn used in the `SE3_Log_tangent` example -/
example : (1/2:ℝ) < (⟨Real.pi / 2, 0, 0⟩ : Vec3 ℝ).norm ∧ (⟨Real.pi / 2, 0, 0⟩ : Vec3 ℝ).norm < 2 * Real.pi := by
  rw [pihalf_norm]
  have := pihalf_gt; have hp := Real.pi_pos
  exact ⟨by linarith, by linarith⟩

end PP.AD
