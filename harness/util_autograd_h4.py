"""C04 — hardening pass 4: streams for the input classes (19)–(28) of /tmp/lessons4.txt.

(19)+(28) `run_large`   batches of 2^14+1 and 2^16+1 items (and both sides of library kernel switch-overs: 25/26, 32/33, 128/129,
                        1024/1025) through forward AND backward of every Function family of every group: split-consistency
                        (value / gradients of a batch = cat of those of its pieces), first / last / random item against the
                        single-item call, and the Lean model on a sample that always contains the LAST item.
(20)      `tie_rows`    exact coincidences (quarter turns |v| == |w| bit for bit, theta == 0.05, theta == eps, |sigma| == theta,
                        equal components, Y == X, Y == X^-1, p == t, a parallel to the axis of X) — consumed by c04.run_corpus
                        (model + finite-difference oracle + item-wise calls).
(21)      `run_subclasses`  user subclasses of LieTensor / Parameter / torch.Tensor as operands.
(23)      `run_fresh_modes` keys (batch shape, dtype, group) that are fresh in the process are used FIRST under
                        inference_mode / no_grad and afterwards with backward.  Must run before anything else.
(25)      `run_default_dtype`  torch.set_default_dtype(float64 / float32) x operand dtype: values, and the dtype / shape / device /
                        type / ltype metadata of outputs and gradients.
(26)      `run_signs`   cotangents that are all negative / non-positive with exact zeros / zero / scaled by negative factors
                        (linearity, bit for bit for powers of two), `X.add(a, alpha)` for alpha < 0, = 0, > 0.
(27)      `run_numpy`   operands that wrap numpy buffers the caller refills in place afterwards.
"""
from __future__ import annotations

import math

import torch

from . import common, util_lie as U
from .util_autograd_h2 import T, same, close, cot_for, mixed_inputs, reads

GROUPS = U.GROUPS
GD, AD_ = U.GDIM, U.ADIM


def _c04():
    from . import c04
    return c04


# ----------------------------------------------------------------------------- families as programs (so that the model can be asked)

def families(g):
    """(name, node, leaf types) — every autograd Function of the group alone, as in c04.LOCAL_OPS"""
    G, A = ("G", g), ("A", g)
    L0, L1 = ("L", 0), ("L", 1)
    return [("Exp", ("U", "Exp", g, L0), [A]), ("Log", ("U", "Log", g, L0), [G]), ("Inv", ("U", "Inv", g, L0), [G]),
            ("matrix", ("U", "Matrix", g, L0), [G]), ("matrixA", ("U", "Matrix", g, ("U", "Exp", g, L0)), [A]),
            ("Mul", ("B", "Mul", g, L0, L1), [G, G]), ("Act", ("B", "Act", g, L0, L1), [G, ("E3",)]),
            ("Act4", ("B", "Act4", g, L0, L1), [G, ("E4",)]), ("Adj", ("B", "Adj", g, L0, L1), [G, A]),
            ("AdjT", ("B", "AdjT", g, L0, L1), [G, A]), ("Jinvp", ("B", "Jinvp", g, L0, L1), [G, A]),
            ("Retr", ("Retr", g, L0, L1), [G, A])]


def leaf_tensors(P, g, dtype, ltypes, n, salt=0, far=False):
    """n valid items per leaf (cyclic over 48 mixed-regime base items; the second group leaf is shifted)"""
    Xb, ab, pb = mixed_inputs(P, g, dtype, 48, salt)
    if far:
        pb = pb * 1e4
    idx = torch.arange(n) % 48
    out = []
    for li, ty in enumerate(ltypes):
        if ty[0] == "G":
            out.append(Xb[(idx + 7 * li) % 48].clone())
        elif ty[0] == "A":
            out.append(ab[idx].clone())
        elif ty[0] == "E3":
            out.append(pb[idx].clone())
        else:
            w = (1.0 + 0.5 * torch.cos(idx.double())).to(pb.dtype).unsqueeze(-1)
            out.append(torch.cat([pb[idx], w], -1))
    return out


def run_node(P, C, node, ltypes, tensors, cot=None):
    ts = [t.clone().requires_grad_(True) for t in tensors]
    leaves = [C.wrap_leaf(P, ty, x) for ty, x in zip(ltypes, ts)]
    out = T(C.as_tensor(P, C.run_impl(P, node, leaves, [])))
    if C.node_type(node, ltypes)[0] == "M":
        out = out.reshape(out.shape[:-2] + (out.shape[-2] * out.shape[-1],))
    if cot is None:
        cot = cot_for(out)
    gs = torch.autograd.grad(out, ts, cot, allow_unused=True)
    return out.detach(), [None if x is None else x.detach() for x in gs], cot


def rows_close(a, b, dtype, k=256):
    """same shape and row-wise |a-b| <= k eps max|row| (bitwise equality is not promised across batch sizes: library kernels)"""
    if a is None or b is None:
        return a is None and b is None
    if a.shape != b.shape or a.dtype != b.dtype:
        return False
    if a.numel() == 0:
        return True
    a64, b64 = a.double(), b.double()
    if not bool(torch.isfinite(a64).all()):
        return False
    sc = b64.abs().amax(dim=-1, keepdim=True)
    return bool(((a64 - b64).abs() <= k * common.EPS[dtype] * sc + 1e-300).all())


LARGE = [(16385, (16385,)), (16385, (5, 3277)), (65537, (65537,))]


def H5_cheap(g, name):
    from .util_autograd_h5 import CHEAP
    return CHEAP[g] is None or name in CHEAP[g]
SWITCH = [25, 26, 32, 33, 128, 129, 1024, 1025]


def run_large(ctx, only=None):
    P = U.pp()
    C = _c04()
    sample_cases = []
    for gi, g in enumerate(GROUPS):
        for fi, (name, node, ltypes) in enumerate(families(g)):
            if only is not None and only != (g, name):
                continue
            plans = []
            for si, (n, shape) in enumerate(LARGE):
                for dtype in (("float64",) if ctx.quick else ("float64", "float32")):
                    # quick: 2^16+1 items (> 2^14 and > 2^16, = 4 * 2^14 + 1) for EVERY entry point with first / last / random item and the
                    # model on the last item; 2^14+1 items in two shapes with split-consistency for a quarter of the entry points each
                    if ctx.quick and n == 16385 and not (si == 1 and (fi + gi) % 4 == 1) and not (si == 0 and (fi + gi) % 8 == 0):
                        continue
                    if ctx.quick and n == 65537 and H5_cheap(g, name) and (fi + gi) % 4:
                        continue                      # quick: every heavy entry point and a quarter of the cheap ones at 2^16+1 (thorough: all)
                    split = (not ctx.quick) or n == 16385
                    plans.append((n, shape, dtype, split, False))
            # (28) both sides of the switch-overs of library kernels, float32, points far from the origin
            for k, n in enumerate(SWITCH):
                if ctx.quick and (k // 2 + fi + gi) % 4 != 0:
                    continue                      # quick: one switch-over per entry point, always BOTH sides of it
                plans.append((n, (n,), "float32", True, (k + fi) % 2 == 0))
            for n, shape, dtype, split, far in plans:
                case = {"stream": "large", "type": g, "read": name, "dtype": dtype, "items": n, "shape": list(shape), "far": far}
                try:
                    flat = leaf_tensors(P, g, dtype, ltypes, n, salt=gi, far=far)
                    ts = [t.reshape(tuple(shape) + t.shape[-1:]) for t in flat]
                    out, gs, cot = run_node(P, C, node, ltypes, ts)
                    ctx.count("large.calls")
                    ctx.count(f"large.items{n}")
                    ctx.note_case(("large", g, name, dtype, n, tuple(shape), far), True)
                    od = out.shape[-1]
                    if tuple(out.shape[:-1]) != tuple(shape):
                        ctx.fail(case, f"large: value of {name} on {g} for batch shape {shape} has shape {tuple(out.shape)}")
                        continue
                    of, cf = out.reshape(n, od), cot.reshape(n, od)
                    gf = [None if x is None else x.reshape(n, x.shape[-1]) for x in gs]
                    if not bool(torch.isfinite(of).all()) or any(x is not None and not bool(torch.isfinite(x).all()) for x in gf):
                        bad = int((~torch.isfinite(of).all(-1)).nonzero()[0]) if not bool(torch.isfinite(of).all()) else -1
                        ctx.fail(case, f"large: non-finite value / gradient of {name} on {g} in a batch of {n} items (item {bad}, {dtype})")
                        continue
                    # first / last / random items against the single-item call
                    picks = [0, n - 1, (7919 * (fi + 3 * gi + 1)) % n, n // 2, n - 2]
                    for i in picks[: (3 if ctx.quick else 5)]:
                        o1, g1, _ = run_node(P, C, node, ltypes, [t[i:i + 1] for t in flat], cf[i:i + 1])
                        ok = rows_close(of[i:i + 1], o1, dtype) and all(rows_close(None if x is None else x[i:i + 1], y, dtype) for x, y in zip(gf, g1))
                        if not ok:
                            ctx.fail(dict(case, item=i), f"large: item {i} of a batch of {n} ({shape}) of {name} on {g}: value / gradient differs from "
                                                         f"the call on that item alone ({dtype})")
                            break
                    # split-consistency
                    if split:
                        cuts = [n // 2] if ctx.quick else [1, n // 2, n - 1, (1 << 14) if n > (1 << 14) else n // 3]
                        for a_ in cuts:
                            oa, ga, _ = run_node(P, C, node, ltypes, [t[:a_] for t in flat], cf[:a_])
                            ob, gb, _ = run_node(P, C, node, ltypes, [t[a_:] for t in flat], cf[a_:])
                            ok = rows_close(of, torch.cat([oa, ob]), dtype) and \
                                all(rows_close(x, None if y is None else torch.cat([y, z]), dtype) for x, y, z in zip(gf, ga, gb))
                            ctx.count("large.bitwise-split" if ok and same(of, torch.cat([oa, ob])) else "large.close-split")
                            if not ok:
                                ctx.fail(dict(case, cut=a_), f"large: {name} on {g}, batch of {n} ({dtype}): value / gradients differ from the "
                                                             f"concatenation of the pieces [:{a_}] and [{a_}:]")
                                break
                    # the model on a sample that contains the last item
                    if n >= (65537 if ctx.quick else 16385) and dtype == "float64" and not (ctx.quick and H5_cheap(g, name) and (fi + gi) % 3):
                        smp = [0, (104729 * (fi + 1)) % n, n - 1]
                        c3 = {"stream": "large", "prog": C.to_json(node), "ltypes": [list(t) for t in ltypes], "dtype": dtype,
                              "lshapes": [[3] for _ in ltypes], "bshape": [3], "root": list(C.node_type(node, ltypes)),
                              "values": [t[smp].tolist() for t in flat], "cot": cf[smp].tolist(), "tags": ["large"] * len(ltypes),
                              "of_items": n, "sample": smp, "fd": False}
                        sample_cases.append((c3, of[smp].clone(), [None if x is None else x[smp].clone() for x in gf]))
                except Exception as e:
                    ctx.fail(case, f"raises: {name} on {g} with a batch of {n} items {shape} ({dtype}) raised {type(e).__name__}: {str(e)[:140]}")
    # model comparison of the sampled rows of the LARGE results
    todo = []
    for c3, o3, g3 in sample_cases:
        try:
            r = C.run_case_impl(c3)
            r.band, r.trunc = C.site_info(c3, r)
        except Exception as e:
            ctx.fail(c3, f"raises: sample of a large batch: {type(e).__name__}: {str(e)[:120]}")
            continue
        r.out = o3.double()
        r.grads = [None if x is None else x.double() for x in g3]
        todo.append((c3, r))
    lines, spans = [], []
    for c3, r in todo:
        ls, index = C.model_lines(c3, common.EPS[c3["dtype"]], want_fd=False)
        spans.append((len(lines), len(ls), index))
        lines += ls
    reps = C.run_driver_parallel(ctx, lines) if lines else []
    for (c3, r), (o, k, index) in zip(todo, spans):
        M = C.collect_model(c3, reps[o:o + k], index)
        bad, _ = C.compare_grads(c3, r, M, r.band)
        ctx.count("large.model-samples")
        if bad:
            li, i, err, t = bad[0]
            ps = C.prog_str(C.from_json(c3["prog"]))
            ctx.disagree("large.model", c3, f"large: gradient of leaf {li} of {ps} for item {c3['sample'][i]} of a batch of {c3['of_items']} "
                                            f"differs from the model's reverse sweep by {err:.3e} > {t:.3e}")


# ----------------------------------------------------------------------------- (23) caches filled under a mode, keys fresh in the process

def run_fresh_modes(ctx, only=None):
    """every (group, read, dtype) gets a batch size nobody else in the process uses; the FIRST call with that key runs under
    inference_mode (even) / no_grad (odd), the second under the other mode, then forward + backward with autograd.  Values must
    agree bit for bit, gradients with the single-item calls.  Call this before any other stream."""
    P = U.pp()
    C = _c04()
    k = 0
    for gi, g in enumerate(GROUPS):
        for ri, (name, fn) in enumerate(reads(P)):
            for dtype in ("float64", "float32"):
                n = 37 + k          # 37 … 132: distinct for every (group, read, dtype)
                k += 1
                if only is not None and only != (g, name):
                    continue
                if ctx.quick and dtype == "float32" and (ri + gi) % 3:
                    continue
                case = {"stream": "fresh", "type": g, "read": name, "dtype": dtype, "batch": n}
                try:
                    X, a, p = mixed_inputs(P, g, dtype, n, 2)
                    shape = (n,) if k % 3 else (1, n)
                    X, a, p = X.reshape(shape + X.shape[-1:]), a.reshape(shape + a.shape[-1:]), p.reshape(shape + p.shape[-1:])
                    modes = [torch.inference_mode, torch.no_grad] if k % 2 == 0 else [torch.no_grad, torch.inference_mode]
                    vals = []
                    for m in modes:
                        with m():
                            vals.append(T(fn(*C.lie(P, g, X.clone(), a.clone()), p.clone())).clone())
                    out, gs = C.grads_of(P, fn, g, X, a, p)
                    ctx.count("fresh.keys")
                    ctx.note_case(("fresh", g, name, dtype, n), True)
                    for m, v in zip(modes, vals):
                        if not same(v.detach(), out):
                            ctx.fail(dict(case, mode=m.__name__), f"fresh: value of {name} on {g} (batch {n}, {dtype}) computed with autograd after a first call "
                                                                  f"under {m.__name__} differs from that first call")
                    cot = cot_for(out)
                    Xf, af, pf = X.reshape(n, -1), a.reshape(n, -1), p.reshape(n, -1)
                    of = out.reshape((n,) + out.shape[len(shape):])
                    cf = cot.reshape(of.shape)
                    gf = [None if x is None else x.reshape(n, -1) for x in gs]
                    for b in (0, n - 1, n // 2):
                        ob, gb = C.grads_of(P, fn, g, Xf[b], af[b], pf[b], cf[b])
                        ok = rows_close(of[b].reshape(1, -1), ob.reshape(1, -1), dtype, 1024) and \
                            all(rows_close(None if x is None else x[b:b + 1], None if y is None else y.reshape(1, -1), dtype, 1024)
                                for x, y in zip(gf, gb))
                        if not ok:
                            ctx.fail(dict(case, item=b), f"fresh: gradient of {name} on {g} (batch {n}, {dtype}; key first used under "
                                                         f"{modes[0].__name__}) differs from the single-item call on item {b}")
                            break
                except Exception as e:
                    ctx.fail(case, f"raises: {name} on {g} (batch {n}, {dtype}) with autograd after first use under inference_mode / no_grad raised "
                                   f"{type(e).__name__}: {str(e)[:140]}")


# ----------------------------------------------------------------------------- (21) user subclasses

def run_subclasses(ctx, only=None):
    """operands of user-defined subclasses: `class MyParam(pp.Parameter)`, `class MyT(torch.Tensor)` (as the data under a LieTensor
    and as plain point / algebra operands), `class MyLie(pp.LieTensor)` — same values, same gradients, same result types as the
    shipped classes"""
    P = U.pp()
    C = _c04()

    class MyParam(P.Parameter):
        pass

    class MyT(torch.Tensor):
        pass

    class MyLie(P.LieTensor):
        pass

    for gi, g in enumerate(GROUPS):
        GT, AT = U.ltype(g), U.ltype(U.ALG[g])
        for dtype in ("float64", "float32"):
            X, a, p = mixed_inputs(P, g, dtype, 3, gi + 2)
            both = [("MulXX", lambda X_, a_, p_: X_ @ X_), ("MulInvX", lambda X_, a_, p_: X_.Inv() @ X_),
                    ("RetrT", lambda X_, a_, p_: X_ + a_), ("AdjAct", lambda X_, a_, p_: X_.Adj(a_).Exp().Act(p_))]
            for name, fn in reads(P) + both:
                if only is not None and only != (g, name):
                    continue
                if ctx.quick and dtype == "float32" and (len(name) + gi) % 2:
                    continue
                case = {"stream": "subclass", "type": g, "read": name, "dtype": dtype}
                try:
                    o0, g0 = C.grads_of(P, fn, g, X, a, p)
                    XL0, aL0 = C.lie(P, g, X.clone(), a.clone())
                    t0 = fn(XL0, aL0, p.clone())
                    for kind in (("MyParam", "MyT operands", "MyLie") if ctx.quick else ("MyParam", "MyT data", "MyT operands", "MyLie")):
                        ctx.count("subclass.calls")
                        ctx.note_case(("subclass", g, dtype, name, kind), True)
                        pl = p.clone().requires_grad_(True)
                        if kind == "MyParam":
                            XL, aL = MyParam(P.LieTensor(X.clone(), ltype=GT)), MyParam(P.LieTensor(a.clone(), ltype=AT))
                            leaves = [XL, aL, pl]
                        elif kind == "MyT data":
                            Xl, al = X.clone().as_subclass(MyT).requires_grad_(True), a.clone().as_subclass(MyT).requires_grad_(True)
                            XL, aL = P.LieTensor(Xl, ltype=GT), P.LieTensor(al, ltype=AT)
                            leaves = [Xl, al, pl]
                        elif kind == "MyT operands":
                            Xl, al = X.clone().requires_grad_(True), a.clone().requires_grad_(True)
                            XL, aL = P.LieTensor(Xl, ltype=GT), P.LieTensor(al, ltype=AT)
                            pl = p.clone().as_subclass(MyT).requires_grad_(True)
                            leaves = [Xl, al, pl]
                        else:
                            Xl, al = X.clone().requires_grad_(True), a.clone().requires_grad_(True)
                            XL, aL = Xl.as_subclass(MyLie), al.as_subclass(MyLie)
                            XL.ltype, aL.ltype = GT, AT
                            leaves = [Xl, al, pl]
                        res = fn(XL, aL, pl)
                        out = T(res)
                        if kind == "MyParam":
                            out.backward(cot_for(out))
                            gs = [x.grad for x in leaves]
                        else:
                            gs = torch.autograd.grad(out, leaves, cot_for(out), allow_unused=True)
                        gs = [None if x is None else T(x).detach() for x in gs]
                        if not same(out.detach(), o0) or not all(same(x, y) for x, y in zip(gs, g0)):
                            ctx.fail(dict(case, operand=kind), f"subclass: {name} on {g} with operands of the user subclass {kind} gives other values / "
                                                               f"gradients than with the shipped classes ({dtype})")
                        lie0, lie1 = isinstance(t0, P.LieTensor), isinstance(res, P.LieTensor)
                        if lie0 != lie1 or (lie0 and res.ltype != t0.ltype):
                            ctx.fail(dict(case, operand=kind), f"subclass: result of {name} on {g} with {kind} operands is {type(res).__name__}"
                                                               f"{'/' + str(res.ltype) if lie1 else ''}, with the shipped classes {type(t0).__name__}")
                except Exception as e:
                    ctx.fail(case, f"raises: {name} on {g} with user-subclass operands ({dtype}) raised {type(e).__name__}: {str(e)[:140]}")


# ----------------------------------------------------------------------------- (25) default dtype x operand dtype

def meta(x, P):
    if x is None:
        return None
    return (str(x.dtype), tuple(x.shape), str(x.device), type(x).__name__, str(getattr(x, "ltype", None)) if isinstance(x, P.LieTensor) else None,
            bool(x.is_contiguous()) or True)


def run_default_dtype(ctx, only=None):
    """process-wide `torch.set_default_dtype`: with float32 operands under a float64 default (and float64 operands under a float32
    default) every value and gradient keeps the operands' dtype / shape / device / type / ltype, and the values do not change"""
    P = U.pp()
    C = _c04()
    old = torch.get_default_dtype()
    try:
        for gi, g in enumerate(GROUPS):
            for dtype in ("float32", "float64"):
                D = U.dt(dtype)
                X, a, p = mixed_inputs(P, g, dtype, 3, gi)
                for name, fn in reads(P):
                    if only is not None and only != (g, name):
                        continue
                    case = {"stream": "defdtype", "type": g, "read": name, "dtype": dtype}
                    res = {}
                    try:
                        for dd in (torch.float32, torch.float64):
                            torch.set_default_dtype(dd)
                            Xl, al, pl = X.clone().requires_grad_(True), a.clone().requires_grad_(True), p.clone().requires_grad_(True)
                            XL, aL = C.lie(P, g, Xl, al)
                            r = fn(XL, aL, pl)
                            out = T(r)
                            cot = torch.cos(torch.arange(out.numel(), dtype=torch.float64) * 0.7 + 0.3).reshape(out.shape).to(D)
                            gs = torch.autograd.grad(out, [Xl, al, pl], cot, allow_unused=True)
                            res[dd] = (r, out.detach(), [None if x is None else x.detach() for x in gs])
                            ctx.count("defdtype.calls")
                        torch.set_default_dtype(old)
                        ctx.note_case(("defdtype", g, dtype, name), True)
                        for dd, (r, out, gs) in res.items():
                            lab = f"{name} on {g} with {dtype} operands under torch.set_default_dtype({str(dd).replace('torch.', '')})"
                            if out.dtype != D or any(x is not None and x.dtype != D for x in gs):
                                ctx.fail(dict(case, default=str(dd)), f"defdtype: {lab}: value dtype {out.dtype}, gradient dtypes "
                                                                      f"{[None if x is None else str(x.dtype) for x in gs]} — expected {D} everywhere")
                            for x, leaf, nm in zip(gs, (X, a, p), ("X", "a", "p")):
                                if x is not None and (x.shape != leaf.shape or x.device != leaf.device):
                                    ctx.fail(dict(case, default=str(dd)), f"defdtype: {lab}: gradient of {nm} has shape {tuple(x.shape)} / device {x.device}")
                        (r0, o0, g0), (r1, o1, g1) = res[torch.float32], res[torch.float64]
                        if meta(r0, P) != meta(r1, P):
                            ctx.fail(case, f"defdtype: result metadata of {name} on {g} ({dtype} operands) depends on the default dtype: {meta(r0, P)} vs {meta(r1, P)}")
                        elif not same(o0, o1) or not all(same(x, y) for x, y in zip(g0, g1)):
                            ctx.fail(case, f"defdtype: values / gradients of {name} on {g} ({dtype} operands) depend on torch.get_default_dtype()")
                    except Exception as e:
                        torch.set_default_dtype(old)
                        ctx.fail(case, f"raises: {name} on {g} ({dtype} operands) under a changed default dtype raised {type(e).__name__}: {str(e)[:140]}")
    finally:
        torch.set_default_dtype(old)


# ----------------------------------------------------------------------------- (26) signs

def run_signs(ctx, only=None):
    """cotangents: negated / scaled by +-2^k (bit-for-bit linearity), all positive, all negative, non-positive with exact zeros
    (`c.max() == 0`), non-negative with exact zeros, zero (additivity c = c+ + c-);  `X.add(a, alpha)` for alpha of either sign and 0"""
    P = U.pp()
    C = _c04()
    for gi, g in enumerate(GROUPS):
        for dtype in (("float64",) if ctx.quick else ("float64", "float32")):
            X, a, p = mixed_inputs(P, g, dtype, 4, gi + 3)
            for ri, (name, fn) in enumerate(reads(P)):
                if only is not None and only != (g, name):
                    continue
                case = {"stream": "signs", "type": g, "read": name, "dtype": dtype}
                try:
                    o0, _ = C.grads_of(P, fn, g, X, a, p)
                    c = cot_for(o0)
                    G = lambda cc: C.grads_of(P, fn, g, X, a, p, cc)[1]
                    g_c = G(c)
                    ctx.note_case(("signs", g, dtype, name), True)
                    for s in ((-1.0, -0.5) if ctx.quick else (-1.0, 2.0, -0.5, -4.0)):
                        ctx.count("signs.calls")
                        gs = G(c * s)
                        if not all(same(x, None if y is None else y * s) for x, y in zip(gs, g_c)):
                            ctx.fail(dict(case, factor=s), f"signs: gradient of {name} on {g} for the cotangent {s}*c is not {s} times the gradient for c ({dtype})")
                            break
                    cp, cm = c.clamp(min=0), c.clamp(max=0)       # c+ >= 0 with exact zeros, c- <= 0 with exact zeros (max == 0)
                    g_p, g_m, g_abs, g_nabs, g_z = G(cp), G(cm), G(c.abs()), G(-c.abs()), G(c * 0)
                    ctx.count("signs.calls", 5)
                    for x, y, z, lab in [(gp_, gm_, gc_, "c+ and c-") for gp_, gm_, gc_ in zip(g_p, g_m, g_c)]:
                        if z is None:
                            continue
                        tol = math.sqrt(common.EPS[dtype]) * (x.double().abs() + y.double().abs()).amax(dim=-1, keepdim=True) + 1e-300   # internal cancellation
                        if not bool(((x.double() + y.double() - z.double()).abs() <= tol).all()):
                            ctx.fail(dict(case, pattern="c = c+ + c-"), f"signs: gradients of {name} on {g} for the non-negative and the non-positive part of "
                                                                        f"a cotangent (each with exact zeros) do not add up to the gradient for the cotangent ({dtype})")
                            break
                    if not all(same(x, None if y is None else -y) for x, y in zip(g_nabs, g_abs)):
                        ctx.fail(dict(case, pattern="-|c|"), f"signs: gradient of {name} on {g} for an all-negative cotangent is not minus the gradient for |c| ({dtype})")
                    if any(x is not None and (not bool(torch.isfinite(x).all()) or bool((x != 0).any())) for x in g_z):
                        ctx.fail(dict(case, pattern="0"), f"signs: gradient of {name} on {g} for the zero cotangent is not exactly zero ({dtype})")
                except Exception as e:
                    ctx.fail(case, f"raises: {name} on {g} with signed cotangents ({dtype}) raised {type(e).__name__}: {str(e)[:140]}")
            # alpha of X.add(a, alpha)
            if only is not None and only != (g, "add"):
                continue
            for al_ in (-2.0, -1.0, -0.5, 0.0, 0.5, 3.0):
                case = {"stream": "signs", "type": g, "read": "add", "dtype": dtype, "alpha": al_}
                try:
                    o1, g1 = C.grads_of(P, lambda X_, a_, p_: X_.add(a_, alpha=al_), g, X, a, p)
                    o2, g2 = C.grads_of(P, lambda X_, a_, p_: X_.Retr(P.LieTensor(al_ * a_.tensor(), ltype=a_.ltype)), g, X, a, p)
                    o3, g3 = C.grads_of(P, lambda X_, a_, p_: X_.Retr(a_), g, X, a * al_, p)
                    ctx.count("signs.alpha")
                    ctx.note_case(("signs", g, dtype, "add", al_), True)
                    ok = same(o1, o2) and same(o1, o3) and all(same(x, y) for x, y in zip(g1, g2)) and same(g1[0], g3[0]) and \
                        rows_close(g1[1], g3[1] * al_, dtype, 4)
                    with torch.no_grad():
                        XL, aL = C.lie(P, g, X.clone(), a.clone())
                        XL.add_(aL, alpha=al_)
                    ok = ok and same(T(XL), o1)
                    if not ok:
                        ctx.fail(case, f"signs: X.add(a, alpha={al_}) on {g} differs from X.Retr({al_}*a) in value or gradient ({dtype})")
                except Exception as e:
                    ctx.fail(case, f"raises: X.add(a, alpha={al_}) on {g} ({dtype}) raised {type(e).__name__}: {str(e)[:140]}")


# ----------------------------------------------------------------------------- (27) numpy buffers

def run_numpy(ctx, only=None):
    """operands wrapping numpy buffers (torch.from_numpy: no copy): results and gradients are those of ordinary tensors, they do not
    change when the caller refills the buffers afterwards, and a second call sees the new contents"""
    import numpy as np
    P = U.pp()
    C = _c04()
    for gi, g in enumerate(GROUPS):
        for dtype in (("float64", "float32") if (not ctx.quick or gi % 2 == 0) else ("float64",)):
            X1, a1, p1 = mixed_inputs(P, g, dtype, 3, gi)
            X2, a2, p2 = mixed_inputs(P, g, dtype, 3, gi + 5)
            for name, fn in reads(P):
                if only is not None and only != (g, name):
                    continue
                case = {"stream": "numpy", "type": g, "read": name, "dtype": dtype}
                try:
                    bufs = [X1.numpy().copy(), a1.numpy().copy(), p1.numpy().copy()]

                    def call():
                        ls = [torch.from_numpy(b).requires_grad_(True) for b in bufs]
                        XL, aL = C.lie(P, g, ls[0], ls[1])
                        out = T(fn(XL, aL, ls[2]))
                        gs = torch.autograd.grad(out, ls, cot_for(out), allow_unused=True)
                        return out.detach(), [None if x is None else x.detach() for x in gs]
                    o_np, g_np = call()
                    keep = (o_np.clone(), [None if x is None else x.clone() for x in g_np])
                    o_ref, g_ref = C.grads_of(P, fn, g, X1, a1, p1)
                    ctx.count("numpy.calls")
                    ctx.note_case(("numpy", g, dtype, name), True)
                    if not same(o_np, o_ref) or not all(same(x, y) for x, y in zip(g_np, g_ref)):
                        ctx.fail(case, f"numpy: {name} on {g} with operands wrapping numpy buffers differs from ordinary tensors ({dtype})")
                    for b, new in zip(bufs, (X2, a2, p2)):
                        b[...] = new.numpy()              # the caller refills its buffers in place
                    if not same(o_np, keep[0]) or not all(same(x, y) for x, y in zip(g_np, keep[1])):
                        ctx.fail(case, f"numpy: a returned value / gradient of {name} on {g} changed when the caller refilled its numpy input buffer ({dtype})")
                    o_np2, g_np2 = call()
                    o_ref2, g_ref2 = C.grads_of(P, fn, g, X2, a2, p2)
                    if not same(o_np2, o_ref2) or not all(same(x, y) for x, y in zip(g_np2, g_ref2)):
                        ctx.fail(case, f"numpy: second call of {name} on {g} after the numpy buffers were refilled does not see the new contents ({dtype})")
                except Exception as e:
                    ctx.fail(case, f"raises: {name} on {g} with numpy-backed operands ({dtype}) raised {type(e).__name__}: {str(e)[:140]}")


STREAMS = {"large": run_large, "fresh": run_fresh_modes, "subclass": run_subclasses, "defdtype": run_default_dtype, "signs": run_signs,
           "numpy": run_numpy}


def replay_case(ctx, c) -> bool:
    n0 = len(ctx.failures) + len(ctx.disagreements)
    print(f"  stream {c['stream']}: {c.get('read')} on {c.get('type')} ({c.get('dtype')}) — re-running that entry of the stream")
    STREAMS[c["stream"]](ctx, only=(c.get("type"), c.get("read")))
    for f in ctx.failures:
        print("  fails:", f["what"])
    for d in ctx.disagreements:
        print("  model disagrees:", d["detail"])
    return len(ctx.failures) + len(ctx.disagreements) == n0


# ----------------------------------------------------------------------------- (20) exact coincidences

def _fl(x, D):
    return float(torch.tensor(x, dtype=torch.float64).to(D))


def _norm(v, D):
    return float(torch.tensor(v, dtype=torch.float64).to(D).norm(2, -1))


def _with_norm(u, target, D):
    """a vector along u whose norm, computed in dtype D, is `target` bit for bit (falls back to an axis-aligned one)"""
    n0 = math.sqrt(sum(x * x for x in u))
    for k in range(-40, 41):
        v = [_fl(target * (1 + k * 0.25 * float(torch.finfo(D).eps)) * x / n0, D) for x in u]
        if _norm(v, D) == target:
            return v
    return [target, 0.0, 0.0]


def tie_values(op, g, dtype, ltypes, n):
    """rows for every leaf of the single-Function program `op` on group g: exact coincidences of two input quantities"""
    D = U.dt(dtype)
    eps = common.EPS[dtype]
    name = op[1]
    kind = name if name != "MatrixA" else "Exp"
    s = _fl(math.sqrt(0.5), D)
    u1, u2 = (0.3, -0.5, 0.8), (-0.6, 0.64, 0.48)

    def generic_quarter(u, neg):
        n0 = math.sqrt(sum(x * x for x in u))
        v = [_fl(s * x / n0, D) for x in u]
        vn = _norm(v, D)                       # |v| as the code computes it; w := that very number
        return v + [-vn if neg else vn]
    quats = [[s, 0.0, 0.0, s], generic_quarter(u1, False), [0.0, -s, 0.0, s], generic_quarter(u2, True), [0.5, 0.5, 0.5, 0.5],
             [0.0, 0.0, s, -s], generic_quarter(u2, False), [-0.5, 0.5, -0.5, 0.5], generic_quarter(u1, True)]
    if kind != "Jinvp":
        quats += [[eps, 0.0, 0.0, 1.0], _with_norm(u1, eps, D) + [1.0], [0.0, math.nextafter(eps, 1.0) if dtype == "float64" else _fl(eps * (1 + 2 ** -20), D), 0.0, -1.0]]
    if kind not in ("Log", "Jinvp"):
        quats += [[0.0, 0.0, 0.0, 1.0], [1.0, 0.0, 0.0, 0.0], [s, s, 0.0, 0.0], [0.0, 0.0, 0.0, -1.0]]
    trans = [[0.0, 0.0, 0.0], [1.0, 1.0, 1.0], [s, 0.0, 0.0], [-2.0, -2.0, 2.0], [0.05, 0.0, 0.0], [1e3, 1e3, 1e3]]
    scales = [1.0, 2.0, 0.5, 1.0, _fl(math.exp(0.05), D), 1.0]
    pi_ = _fl(math.pi, D)
    phis = [[0.05, 0.0, 0.0], _with_norm(u1, _fl(0.05, D), D), [eps, 0.0, 0.0], [0.3, 0.3, 0.3], _with_norm(u2, eps, D), [0.0, 0.0, -0.05],
            [pi_ / 2, 0.0, 0.0], [0.0, -eps, 0.0], _with_norm(u2, 0.3, D), [0.0, 0.0, 0.0], [0.0, 0.0, pi_], _with_norm(u1, 1.0, D)]
    sig_mode = ["+th", "-th", "+th", "eps", "-th", "+th", "th2", "-th", "+th", "0", "0.05", "-eps"]      # "eps": |sigma| == eps alone

    def group_row(i):
        q = quats[i % len(quats)]
        v = []
        if g in ("SE3", "Sim3"):
            t = trans[i % len(trans)]
            if i % 4 == 1:
                t = q[:3]                       # translation == vector part of the quaternion
            v += t
        v += q
        if g in ("RxSO3", "Sim3"):
            v.append(scales[i % len(scales)])
        return v

    def alg_row(i, xrow=None):
        phi = list(phis[i % len(phis)])
        if kind in ("Jinvp",) and False:
            pass
        if xrow is not None and i % 2 == 0:     # rotation vector parallel to the axis of X (a commutes with X)
            off = 3 if g in ("SE3", "Sim3") else 0
            ax = xrow[off:off + 3]
            phi = [_fl(0.4 * x, D) for x in ax]
        th = _norm(phi, D)
        v = []
        if g in ("SE3", "Sim3"):
            tau = [phi, [0.0, 0.0, 0.0], [0.1, 0.1, 0.1], [-x for x in phi]][i % 4]
            if g == "Sim3" and kind in ("Exp", "Retr"):
                tau = [max(-0.2, min(0.2, x)) for x in tau]
            v += list(tau)
        v += phi
        if g in ("RxSO3", "Sim3"):
            m = sig_mode[i % len(sig_mode)]
            sg = {"+th": th, "-th": -th, "0": 0.0, "th2": _fl(th / 2, D), "0.05": 0.05, "eps": eps, "-eps": -eps}[m]      # |sigma| == theta bit for bit
            if g == "Sim3" and kind in ("Exp", "Retr") and abs(sg) > 0.3:
                sg = math.copysign(0.25, sg)
            v.append(sg)
        if g == "Sim3" and kind in ("Exp", "Retr") and th > 0.6:
            v = [x * 0.5 for x in v[:3]] + [_fl(x * (0.5 / th), D) for x in v[3:6]] + v[6:]
        return v
    vals = []
    xrows = None
    for li, ty in enumerate(ltypes):
        rows = []
        for i in range(n):
            if ty[0] == "G":
                if li == 1:                     # second group operand: Y == X, Y == -X (same rotation), or another tie item
                    r0 = xrows[i]
                    if i % 3 == 0:
                        r = list(r0)
                    elif i % 3 == 1:
                        off = 3 if g in ("SE3", "Sim3") else 0
                        r = list(r0)
                        r[off:off + 4] = [-x for x in r0[off:off + 4]]
                    else:
                        r = group_row(i + 4)
                else:
                    r = group_row(i)
            elif ty[0] == "A":
                r = alg_row(i, xrows[i] if (li == 1 and xrows is not None) else None)
            else:
                base = [[0.0, 0.0, 0.0], [1.0, 1.0, 1.0], None, [2.5, -2.5, 2.5], None, [0.0, 0.0, 1.0]][i % 6]
                if base is None:                # p == translation of X (or == vector part of its quaternion)
                    base = xrows[i][:3] if xrows is not None else [s, s, s]
                r = list(base)
                if ty[0] == "E4":
                    r.append([1.0, 0.0, -1.0, s, 1.0, 0.5][i % 6])
            rows.append(r)
        if li == 0:
            xrows = rows
        vals.append(rows)
    return vals
