#!/bin/bash
# Builds the Lean model, every property's theorems and its driver executable, offline, from files on disk.
# The shared core must build; each property is then built on its own so that one property's files can never
# take another property's check down (each check re-runs `lake build` for its own targets anyway).
cd "$(dirname "$0")/lean" || exit 2
lake build Pose Proofs || exit 1
rc=0
for i in 01 02 03 04 05 06 07 08 09 10 11 12 13 14 15 16 17 18 19 20; do
  if [ -f "Proofs/Props/C$i.lean" ]; then
    lake build "Proofs.Props.C$i" "drv_c$i" >/tmp/setup_C$i.log 2>&1 || { echo "setup: building C$i failed (see its check)"; tail -5 /tmp/setup_C$i.log; }
  fi
done
exit $rc
