import Proofs.Lemmas.Quat
import Proofs.Lemmas.So3Exp
import Mathlib.Tactic.Positivity
import Mathlib.Tactic.NormNum
import Mathlib.Analysis.SpecialFunctions.Exp
import Mathlib.Analysis.Real.Pi.Bounds
/-! Helper lemmas for C03 (extensionality, the quaternion norm as a norm: Cauchy–Schwarz / triangle inequality,
norm of `so3Exp`, a concrete closed-form exponential). Property theorems are in `Proofs/Props/C03.lean`. -/
namespace PP
open Vec3 Quat Mat3

noncomputable def Quat.nrm (p : Quat ℝ) : ℝ := Real.sqrt p.normSq
def Quat.dist2 (p q : Quat ℝ) : ℝ := (p.x - q.x) ^ 2 + (p.y - q.y) ^ 2 + (p.z - q.z) ^ 2 + (p.w - q.w) ^ 2

@[ext] theorem SE3.ext' {a b : SE3 ℝ} (ht : a.t = b.t) (hq : a.q = b.q) : a = b := by
  cases a; cases b; simp_all
@[ext] theorem RxSO3.ext' {a b : RxSO3 ℝ} (hq : a.q = b.q) (hs : a.s = b.s) : a = b := by
  cases a; cases b; simp_all
@[ext] theorem Sim3.ext' {a b : Sim3 ℝ} (ht : a.t = b.t) (hq : a.q = b.q) (hs : a.s = b.s) : a = b := by
  cases a; cases b; simp_all

theorem vadd_assoc (a b c : Vec3 ℝ) : (a.add b).add c = a.add (b.add c) := by ext <;> lie_unfold <;> ring

theorem Quat.normSq_nonneg' (p : Quat ℝ) : 0 ≤ p.normSq := by
  unfold Quat.normSq; nlinarith [mul_self_nonneg p.x, mul_self_nonneg p.y, mul_self_nonneg p.z, mul_self_nonneg p.w]
theorem Quat.dist2_nonneg (p q : Quat ℝ) : 0 ≤ Quat.dist2 p q := by unfold Quat.dist2; positivity
theorem Quat.dist2_comm (p q : Quat ℝ) : Quat.dist2 p q = Quat.dist2 q p := by unfold Quat.dist2; ring
theorem Quat.nrm_nonneg (p : Quat ℝ) : 0 ≤ p.nrm := Real.sqrt_nonneg _
theorem Quat.nrm_mul (p q : Quat ℝ) : (p.mul q).nrm = p.nrm * q.nrm := by
  unfold Quat.nrm; rw [Quat.normSq_mul, Real.sqrt_mul (Quat.normSq_nonneg' p)]
theorem Quat.nrm_conj (p : Quat ℝ) : p.conj.nrm = p.nrm := by unfold Quat.nrm; rw [Quat.normSq_conj]

/-- triangle inequality for the quaternion norm (Cauchy–Schwarz through Lagrange's identity) -/
theorem Quat.nrm_le_add (p q : Quat ℝ) : p.nrm ≤ q.nrm + Real.sqrt (Quat.dist2 p q) := by
  have hq := Quat.normSq_nonneg' q
  have hd := Quat.dist2_nonneg p q
  set r : Quat ℝ := ⟨p.x - q.x, p.y - q.y, p.z - q.z, p.w - q.w⟩ with hr
  have hrn : r.normSq = Quat.dist2 p q := by simp only [hr, Quat.normSq, Quat.dist2]; ring
  -- Cauchy–Schwarz
  have cs : (q.x * r.x + q.y * r.y + q.z * r.z + q.w * r.w) ^ 2 ≤ q.normSq * r.normSq := by
    unfold Quat.normSq
    nlinarith [sq_nonneg (q.x * r.y - q.y * r.x), sq_nonneg (q.x * r.z - q.z * r.x), sq_nonneg (q.x * r.w - q.w * r.x),
      sq_nonneg (q.y * r.z - q.z * r.y), sq_nonneg (q.y * r.w - q.w * r.y), sq_nonneg (q.z * r.w - q.w * r.z)]
  have cs' : q.x * r.x + q.y * r.y + q.z * r.z + q.w * r.w ≤ q.nrm * Real.sqrt (Quat.dist2 p q) := by
    have h1 := Real.abs_le_sqrt cs
    rw [Real.sqrt_mul hq, hrn] at h1
    exact le_trans (le_abs_self _) h1
  unfold Quat.nrm at *
  rw [Real.sqrt_le_iff]
  refine ⟨by positivity, ?_⟩
  have e : p.normSq = q.normSq + 2 * (q.x * r.x + q.y * r.y + q.z * r.z + q.w * r.w) + Quat.dist2 p q := by
    simp only [hr, Quat.normSq, Quat.dist2]; ring
  have s1 := Real.sq_sqrt hq
  have s2 := Real.sq_sqrt hd
  rw [e]
  nlinarith [cs', s1, s2]

/-- a computed value within relative distance `γ` of the exact one has a norm within `(1±γ)` of it -/
theorem Quat.nrm_near (E X' : Quat ℝ) (γ : ℝ) (hγ : 0 ≤ γ) (h : Quat.dist2 X' E ≤ γ ^ 2 * E.normSq) :
    (1 - γ) * E.nrm ≤ X'.nrm ∧ X'.nrm ≤ (1 + γ) * E.nrm := by
  have hd : Real.sqrt (Quat.dist2 X' E) ≤ γ * E.nrm := by
    unfold Quat.nrm
    rw [← Real.sqrt_sq hγ, ← Real.sqrt_mul (sq_nonneg γ)]
    exact Real.sqrt_le_sqrt h
  have t1 := Quat.nrm_le_add X' E
  have t2 := Quat.nrm_le_add E X'
  rw [Quat.dist2_comm E X'] at t2
  constructor <;> linarith

theorem so3Exp_nrm_near (eps : ℝ) (h0 : 0 ≤ eps) (h1 : eps ≤ 1) (a : Vec3 ℝ) :
    1 - eps ^ 6 ≤ (so3Exp eps a).nrm ∧ (so3Exp eps a).nrm ≤ 1 + eps ^ 6 := by
  have hm := abs_le.mp (so3Exp_normSq_near eps a h0 h1)
  have ht0 : 0 ≤ eps ^ 6 := by positivity
  have ht1 : eps ^ 6 ≤ 1 := pow_le_one₀ h0 h1
  unfold Quat.nrm
  constructor
  · apply Real.le_sqrt_of_sq_le
    nlinarith
  · rw [Real.sqrt_le_iff]
    refine ⟨by linarith, ?_⟩
    nlinarith

theorem norm_pi_x : (⟨Real.pi, 0, 0⟩ : Vec3 ℝ).norm = Real.pi := by
  unfold Vec3.norm Vec3.normSq
  simp only [sqrt_real, mul_zero, add_zero]
  exact Real.sqrt_mul_self Real.pi_pos.le
theorem so3Exp_pi_x : so3Exp (1/1000 : ℝ) ⟨Real.pi, 0, 0⟩ = ⟨1, 0, 0, 0⟩ := by
  unfold so3Exp
  rw [norm_pi_x]
  have h : (1/1000 : ℝ) < Real.pi := by linarith [Real.pi_gt_d2]
  simp only [lt_real, h, decide_true, if_true, sin_real, cos_real, q_real, Nat.cast_one, Nat.cast_ofNat]
  rw [show (1:ℝ)/2 * Real.pi = Real.pi/2 by ring, Real.sin_pi_div_two, Real.cos_pi_div_two]
  ext <;> simp [Quat.mk', Vec3.smul, Real.pi_ne_zero]

end PP
