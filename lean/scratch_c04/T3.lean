import Proofs.Lemmas.Quat
import Pose.Model.Autograd
import Mathlib.Analysis.Calculus.Deriv.Mul
import Mathlib.Analysis.Calculus.Deriv.Add
import Mathlib.Tactic.FunProp
open PP PP.AD

structure QCurve (X : ℝ → Quat ℝ) (d : Quat ℝ) : Prop where
  x : HasDerivAt (fun t => (X t).x) d.x 0
  y : HasDerivAt (fun t => (X t).y) d.y 0
  z : HasDerivAt (fun t => (X t).z) d.z 0
  w : HasDerivAt (fun t => (X t).w) d.w 0

noncomputable def liftQ (q : Quat ℝ) (φ : Vec3 ℝ) : Quat ℝ := (Quat.mk' (φ.smul (1/2)) 0).mul q

theorem t3 (X Y : ℝ → Quat ℝ) (τx τy : Vec3 ℝ) (hX : QCurve X (liftQ (X 0) τx)) (hY : QCurve Y (liftQ (Y 0) τy))
    (hu : (X 0).normSq = 1) :
    QCurve (fun t => (X t).mul (Y t)) (liftQ ((X 0).mul (Y 0)) (τx.add ((SO3Mat (X 0)).mulVec τy))) := by
  obtain ⟨hx, hy, hz, hw⟩ := hX
  obtain ⟨kx, ky, kz, kw⟩ := hY
  have dx := hx.differentiableAt; have dy := hy.differentiableAt; have dz := hz.differentiableAt; have dw := hw.differentiableAt
  have ex := kx.differentiableAt; have ey := ky.differentiableAt; have ez := kz.differentiableAt; have ew := kw.differentiableAt
  have hu' : (X 0).x * (X 0).x + (X 0).y * (X 0).y + (X 0).z * (X 0).z + (X 0).w * (X 0).w = 1 := hu
  constructor
  all_goals
    simp only [Quat.mul]
    refine HasDerivAt.congr_deriv (DifferentiableAt.hasDerivAt (by fun_prop)) ?_
    simp (disch := fun_prop) only [deriv_fun_add, deriv_fun_sub, deriv_fun_mul, hx.deriv, hy.deriv, hz.deriv, hw.deriv,
      kx.deriv, ky.deriv, kz.deriv, kw.deriv]
    simp only [liftQ, SO3Mat]
    lie_unfold
    grind
#print axioms t3
