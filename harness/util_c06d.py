"""C06, round-4 lesson classes: (25) process-wide torch settings x operand dtype with explicit METADATA comparison,
(19) large batches with split-consistency, (23) order of grad modes on keys that are fresh in the process,
(21) user subclasses of LieTensor / Parameter as operands.  Deterministic; every oracle is the real code itself."""
from __future__ import annotations

import warnings

import torch

from . import common
from .util_batch import same_values
from .util_batch import ALGEBRA, DIM, DT, GROUPS, LTYPES, MANIFOLD, ltype_name, ltype_of, numel, pp


def C():
    from . import c06
    return c06


def _meta(r):
    """(python type, ltype, shape, dtype, device) of every tensor in a result"""
    c06 = C()
    return [(type(o).__name__, ltype_name(getattr(o, "ltype", None)), tuple(o.shape), str(o.dtype), str(o.device)) for o in c06._flatten_result(r)]


def _vals(r):
    c06 = C()
    return [c06._plain(o).detach().clone() for o in c06._flatten_result(r)]


def entry_points(handled_names=None, with_handled=True):
    """[(label, fn(dtype_name) -> result)]: every unary op (every spelling), every binary site (every spelling, Lie and plain
    partner), constructors with explicit dtype / *_like, one deterministic recipe of every handled function.  All operands are
    built INSIDE fn with explicit dtypes, so a process-wide default can only enter through the library."""
    P = pp()
    c06 = C()
    E = []
    for lt in LTYPES:
        for op, apis, _ in c06.unary_ops(lt):
            for api in sorted(apis):
                E.append((f"{lt}.{op} ({api})", (lambda lt, fn: lambda dt: fn(c06._lie(c06.regime_corpus(lt, dt)[1][:12].clone(), lt)))(lt, apis[api])))
        d = DIM[lt]
        E.append((f"identity_{lt}(dtype=)", (lambda lt: lambda dt: getattr(P, "identity_" + lt)(2, 3, dtype=DT[dt]))(lt)))
        E.append((f"randn_{lt}(dtype=) meta", (lambda lt: lambda dt: torch.zeros_like(getattr(P, "randn_" + lt)(2, dtype=DT[dt])))(lt)))
        E.append((f"randn_like({lt}) meta", (lambda lt, d: lambda dt: torch.zeros_like(P.randn_like(c06._lie(torch.zeros(2, d, dtype=DT[dt]), lt))))(lt, d)))
        E.append((f"identity_like({lt}, dtype=)", (lambda lt, d: lambda dt: P.identity_like(c06._lie(torch.zeros(2, d, dtype=DT[dt]), lt), dtype=DT[dt]))(lt, d)))
        E.append((f"{lt}.lview", (lambda lt: lambda dt: c06._lie(c06.POOLS.get(lt, dt)[:6].clone(), lt).lview(2, 3))(lt)))
        E.append((f"Parameter({lt}).clone", (lambda lt: lambda dt: P.Parameter(c06._lie(c06.POOLS.get(lt, dt)[:3].clone(), lt)).clone().detach())(lt)))
    for sk in c06.SITE_KEYS:
        spec = c06.SITES[sk]
        for api in sorted(spec["apis"]):
            for ycase in ("lie", "plain"):
                def f(dt, sk=sk, spec=spec, api=api, ycase=ycase):
                    X = c06._lie(c06.POOLS.get(spec["px"], dt)[:4].clone(), spec["px"])
                    y = c06.wrap_second(sk, ycase, c06.POOLS.get(spec["py"], dt)[4:8].clone())
                    return c06.site_call(sk, api, X, y)
                E.append((f"{sk[0]}.{sk[1]} ({api}, {ycase} partner)", f))
    if with_handled:
        from . import util_handled as UH
        if handled_names is None:
            from pypose.lietensor import lietensor as L
            handled_names = list(L.HANDLED_FUNCTIONS)
        rng = c06.det_rng()
        UH.EXTENTS = [1, 2, 3, 2, 3]
        try:
            for n in sorted(set(handled_names)):
                if n not in c06.RECIPES or n in c06.NO_CALLABLE or n == "cuda" or n in ("float", "double", "to"):
                    continue
                c = UH.gen(rng, n)
                c.update({"lt": LTYPES[len(E) % 8], "param": False})

                def f(dt, c=c):
                    b = UH.build(dict(c, dtype=dt))
                    ins = [t for t, _ in b["inputs"]]
                    r = b["call"](ins)
                    return ins[0] if r is None else r
                E.append((f"handled {n} on {c['lt']}", f))
        finally:
            UH.EXTENTS = [0, 1, 2, 3, 2, 3]
    return E


# ============================================================================= (25) process-wide default dtype, low-precision dtypes

def stream_defaults(ctx, names=None):
    """metadata (type, ltype, shape, DTYPE, device) and values of every entry point with float32 operands under
    `torch.set_default_dtype(torch.float64)` == under the stock default; float64 operands likewise; float16 / bfloat16
    operands (stock default) return their own dtype; constructors without dtype follow the default as documented."""
    P = pp()
    c06 = C()
    E = entry_points(names)
    stock = torch.get_default_dtype()
    if stock != torch.float32:
        raise common.InfraError("the process does not start with torch's stock default dtype")
    ref = {}
    with warnings.catch_warnings():
        warnings.simplefilter("ignore")
        for label, f in E:
            for dt in ("float32", "float64"):
                try:
                    r = f(dt)
                    ref[(label, dt)] = (_meta(r), _vals(r))
                except Exception as e:
                    ref[(label, dt)] = e
        try:
            torch.set_default_dtype(torch.float64)
            for label, f in E:
                for dt in ("float32", "float64"):
                    case = {"kind": "defaults", "entry": label, "operand_dtype": dt, "default_dtype": "float64"}
                    ctx.note_case(("defaults", label, dt), True)
                    ctx.count("defaults.float64_default")
                    want = ref[(label, dt)]
                    try:
                        r = f(dt)
                    except Exception as e:
                        if not isinstance(want, Exception):
                            ctx.fail(case, f"defaults: {label} with {dt} operands raises {type(e).__name__}: {str(e)[:80]} once the process default dtype is float64")
                        continue
                    if isinstance(want, Exception):
                        continue
                    m, v = _meta(r), _vals(r)
                    if m != want[0]:
                        bad = next((a, b) for a, b in zip(m, want[0]) if a != b) if len(m) == len(want[0]) else (m, want[0])
                        ctx.fail(case, f"defaults-meta: {label} with {dt} operands returns {bad[0]} when torch.set_default_dtype(torch.float64) is in force, "
                                       f"{bad[1]} under the stock default — the result's dtype must come from the operands, not from the process default")
                    elif any(not same_values(a, b) for a, b in zip(v, want[1])):
                        ctx.fail(case, f"defaults-values: {label} with {dt} operands returns other values under a float64 process default")
            # constructors WITHOUT dtype follow the default (documented: "uses a global default")
            for lt in LTYPES:
                for cn, cf in (("identity", lambda: getattr(P, "identity_" + lt)(2)), ("randn", lambda: getattr(P, "randn_" + lt)(2)),
                               ("identity_like", lambda: P.identity_like(c06._lie(torch.zeros(2, DIM[lt], dtype=torch.float32), lt))),
                               ("alias ctor from list", lambda: getattr(P, lt)([0.0] * (DIM[lt] - 1) + [1.0]))):
                    case = {"kind": "defaults", "entry": f"{cn}_{lt} without dtype", "default_dtype": "float64"}
                    ctx.count("defaults.ctor")
                    try:
                        r = cf()
                        if r.dtype != torch.float64 or r.ltype is not ltype_of(lt):
                            ctx.fail(case, f"defaults-meta: {cn} of {lt} without dtype returns {r.dtype} under a float64 default (documented: the global default)")
                    except Exception as e:
                        ctx.fail(case, f"defaults: {cn} of {lt} raises {type(e).__name__}: {str(e)[:80]} under a float64 default")
                r = P.randn_like(c06._lie(torch.zeros(2, DIM[lt], dtype=torch.float32), lt))
                if r.dtype != torch.float32:
                    ctx.fail({"kind": "defaults", "entry": f"randn_like({lt})"}, f"defaults-meta: randn_like of a float32 {lt} returns {r.dtype} under a float64 default (documented: the input's dtype)")
        finally:
            torch.set_default_dtype(stock)
        if torch.get_default_dtype() != stock:
            raise common.InfraError("could not restore the default dtype")
        # low-precision operands under the stock default: every float dtype comes back as itself
        for label, f in entry_points(names, with_handled=False):
            if "randn" in label or "Parameter" in label:
                continue
            for dtn, dtt in (("float16", torch.float16), ("bfloat16", torch.bfloat16)):
                case = {"kind": "defaults", "entry": label, "operand_dtype": dtn, "default_dtype": "float32"}
                ctx.count("defaults.lowprec")
                DT[dtn] = dtt
                common.EPS.setdefault(dtn, 2.0 ** -10 if dtn == "float16" else 2.0 ** -7)
                try:
                    try:
                        r = f(dtn)
                    except Exception:
                        ctx.count("defaults.lowprec.unsupported")      # kernels not implemented for half: nothing to compare
                        continue
                    m = _meta(r)
                    w = ref[(label, "float32")]
                    if isinstance(w, Exception):
                        continue
                    want_m = [(a, b, c, f"torch.{dtn}", e) for a, b, c, d, e in w[0]]
                    if m != want_m:
                        bad = next((a, b) for a, b in zip(m, want_m) if a != b) if len(m) == len(want_m) else (m, want_m)
                        ctx.fail(case, f"defaults-meta: {label} with {dtn} operands returns {bad[0]}, expected {bad[1]} (the operands' dtype)")
                finally:
                    DT.pop(dtn, None)


# ============================================================================= (19) large batches, split-consistency

def _large_input(lt, n, dtype):
    c06 = C()
    _, Cx = c06.regime_corpus(lt, dtype)
    pool = c06.POOLS.get(lt, dtype)
    src = torch.cat([Cx, pool])
    idx = (torch.arange(n) * 7 + 3) % src.shape[0]
    x = src[idx].clone()
    x[-1] = Cx[2 % Cx.shape[0]]           # a special-regime item in the LAST position
    x[0] = Cx[3 % Cx.shape[0]]
    return x


def stream_large(ctx):
    """batches of 2^k, 2^k±1 items (> 2^14, > 2^16 and > 2^17 in quick; 2^18+1, 2^18+37, 2^20+1 in thorough): f(x) == cat(f(x[:a]), f(x[a:])) for several cuts, and
    f(x)[i] == f(x[i:i+1]) for the first, last and some inner items — for every unary op and binary site, in two layouts"""
    P = pp()
    c06 = C()
    sizes_all = sorted({2 ** k + d for k in (10, 12, 14, 15, 16) for d in (-1, 0, 1)})
    with warnings.catch_warnings():
        warnings.simplefilter("ignore")
        eps_list = []
        for lt in LTYPES:
            for op, apis, _ in c06.unary_ops(lt):
                eps_list.append((f"{lt}.{op}", lt, None, apis[sorted(apis)[0]]))
        for sk in c06.SITE_KEYS:
            spec = c06.SITES[sk]
            eps_list.append((f"{sk[0]}.{sk[1]}", spec["px"], sk, None))
        for ei, (label, lt, sk, fn) in enumerate(eps_list):
            if ctx.quick:
                sizes = ([2 ** 14 + 1] if (ei + ctx.seed) % 2 == 0 else []) + ([2 ** 16 + 1] if ei % 16 == 0 else [])      # expensive entries: every second one per seed
                # round 5 (class 34): one size beyond 2^17 with a non-trivial remainder for every block size 2^k, k ≤ 17 (all cheap entries; a sixth of the expensive ones, rotating with the seed)
                op = label.split(".")[1]
                cheap = op in ("Inv", "tensor", "quat2unit", "mul", "act3", "act4", "alg_add") or (lt in GROUPS and op in ("rotation", "translation", "scale", "euler")) \
                    or (lt in ("SO3", "RxSO3") and op in ("add", "retr"))            # < 0.05 s per call at this size: every seed
                if cheap or (ei + ctx.seed) % 6 == 1:
                    sizes = [2 ** 17 + 37] + ([2 ** 14 + 1] if ei % 3 == 0 else [])     # subsumes 2^16+1 and (mostly) 2^14+1: full batch vs tail block and single items
            else:
                sizes = sizes_all + [2 ** 17 + 37, 2 ** 18 + 1, 2 ** 18 + 37, 2 ** 20 + 1]
            for n in sizes:
                dtype = "float64" if (ei + n) % 3 else "float32"
                if n > 2 ** 19:
                    dtype = "float32"          # 2^20+1 items of 7x7 blocks: keep the peak below 2.5 GB
                case = {"kind": "large", "entry": label, "n": n, "dtype": dtype}
                ctx.note_case(("large", label, n), True)
                ctx.count("large")
                x = _large_input(lt, n, dtype)
                if sk is not None:
                    spec = c06.SITES[sk]
                    if spec["py"] in ("p3", "p4"):
                        ysrc = c06.POOLS.get(spec["py"], dtype)
                        y = ysrc[(torch.arange(n) * 5 + 1) % ysrc.shape[0]].clone()
                    else:
                        y = _large_input(spec["py"], n, dtype).flip(0).contiguous()
                    api = sorted(spec["apis"])[0]

                    def g(lo, hi, sk=sk, api=api, x=x, y=y, spec=spec):
                        return c06._plain(c06.site_call(sk, api, c06._lie(x[lo:hi].clone(), spec["px"]), c06.wrap_second(sk, "lie", y[lo:hi].clone())))
                else:
                    def g(lo, hi, fn=fn, x=x, lt=lt):
                        return c06._plain(fn(c06._lie(x[lo:hi].clone(), lt)))
                try:
                    full = g(0, n)
                    if full.shape[0] != n:
                        ctx.fail(case, f"large: {label} on a batch of {n} items returns leading extent {full.shape[0]}")
                        continue
                    if not bool(torch.isfinite(full[-1]).all()) and bool(torch.isfinite(g(n - 1, n)).all()):
                        ctx.fail(case, f"large: {label} on a batch of {n} items: the LAST output item is not finite although the op on that item alone is")
                        continue
                    if n > 2 ** 17:          # the LAST n % 2^k items for every k: the tail block alone, bit for bit up to the regime tolerance
                        tail = g(n - 64, n)
                        bad = [j for j in range(64) if not c06._close(full[n - 64 + j], tail[j], dtype)]
                        if bad:
                            ctx.fail(case, f"split-consistency: {label} on {n} items: output item {n - 64 + bad[-1]} (one of the last n % 2^k items) is "
                                           f"{full[n - 64 + bad[-1]].flatten()[:4].tolist()}, the op on the last 64 items alone gives {tail[bad[-1]].flatten()[:4].tolist()}")
                            continue
                    cuts = (1, n // 2 + 1, n - 1) if not ctx.quick else ((n // 2 + 1, n - 1) if ei % 4 == 0 else (n // 2 + 1,))
                    if n > 2 ** 17:
                        cuts = () if ctx.quick else (n // 2 + 1,)        # quick: the tail block and the single items below only
                    for a in cuts:
                        parts = torch.cat([g(0, a), g(a, n)])
                        if parts.shape != full.shape or not same_values(parts, full):
                            pos = int((~((parts == full) | (torch.isnan(parts) & torch.isnan(full)))).reshape(n, -1).any(-1).nonzero()[0]) if parts.shape == full.shape else -1
                            if pos < 0 or not c06._close(full[pos], parts[pos], dtype):
                                ctx.fail(case, f"split-consistency: {label} on {n} items ≠ cat(f(x[:{a}]), f(x[{a}:])) — first differing item {pos}: "
                                               f"{full[pos].flatten()[:4].tolist() if pos >= 0 else full.shape} vs {parts[pos].flatten()[:4].tolist() if pos >= 0 else parts.shape}")
                                break
                    for i in (0, n - 1, n - 2, (n * 5) // 7, 2 ** 14 - 1 if n > 2 ** 14 else n // 3):
                        one = g(i, i + 1)[0]
                        if not c06._close(full[i], one, dtype):
                            ctx.fail(case, f"split-consistency: {label} on {n} items: output item {i} is {full[i].flatten()[:4].tolist()}, the op on x[{i}:{i + 1}] gives {one.flatten()[:4].tolist()}")
                            break
                    if ei % 5 == 0:           # another layout with the same element count
                        xr = c06._lie(x.reshape(n, 1, -1).clone(), lt)
                        if sk is None:
                            r2 = c06._plain(fn(xr))
                            if r2.shape[:2] != (n, 1) or not same_values(r2.reshape(full.shape), full):
                                ctx.fail(case, f"large: {label} on lshape ({n}, 1) differs from lshape ({n},)")
                except Exception as e:
                    ctx.fail(case, f"raises: {label} on a batch of {n} items raises {type(e).__name__}: {str(e)[:80]}")
        # constructors and shape functions at size
        for lt in LTYPES:
            n = 2 ** 16 + 1
            case = {"kind": "large", "entry": f"ctor/handled {lt}", "n": n}
            ctx.count("large.ctor")
            try:
                I = getattr(P, "identity_" + lt)(n, dtype=torch.float32)
                Rn = getattr(P, "randn_" + lt)(n, 1, dtype=torch.float32)
                ok = tuple(I.shape) == (n, DIM[lt]) and tuple(Rn.shape) == (n, 1, DIM[lt]) and I.ltype is ltype_of(lt) and not any(s == 0 for s in I.stride()) \
                    and bool((I[-1] == torch.tensor(c06.IDENTITY_ITEM[lt])).all()) and bool(torch.isfinite(Rn.tensor()[-1]).all())
                if not ok:
                    ctx.fail(case, f"large: identity_/randn_{lt} with {n} items: wrong shape / last item / strides")
                X = c06._lie(_large_input(lt, n, "float32"), lt)
                idx = torch.tensor([0, n - 1, n // 2, n - 1])
                for nm, r, w in (("index_select", X.index_select(0, idx), X.tensor().index_select(0, idx)), ("cat", torch.cat([X, X[:3]]), torch.cat([X.tensor(), X.tensor()[:3]])),
                                 ("view", X.view(-1, 1, DIM[lt]), X.tensor().view(-1, 1, DIM[lt])), ("getitem", X[n - 2:], X.tensor()[n - 2:]),
                                 ("chunk", X.chunk(3)[-1], X.tensor().chunk(3)[-1]), ("flip-free permute", X.unsqueeze(0).permute(1, 0, 2), X.tensor().unsqueeze(0).permute(1, 0, 2))):
                    if type(r) is not P.LieTensor or r.ltype is not X.ltype or not torch.equal(r.tensor(), w):
                        ctx.fail(case, f"large: {nm} on a {lt} LieTensor of {n} items: wrong type / ltype / values")
            except Exception as e:
                ctx.fail(case, f"raises: large constructors / shape functions on {lt} raise {type(e).__name__}: {str(e)[:80]}")


# ============================================================================= (23) order of grad modes on fresh keys

def stream_modeorder(ctx):
    """for every unary op and binary site: a batch length that no earlier call in this process used, called FIRST under
    inference_mode (or no_grad), THEN with requires_grad operands followed by backward(), then plain — and the other way
    round on another fresh length.  Same values every time, backward works (a module-level cache filled with inference
    tensors breaks exactly here)."""
    P = pp()
    c06 = C()
    import contextlib
    fresh = [1009]

    def next_len():
        fresh[0] += 2
        return fresh[0]
    with warnings.catch_warnings():
        warnings.simplefilter("ignore")
        eps_list = []
        for lt in LTYPES:
            for op, apis, _ in c06.unary_ops(lt):
                eps_list.append((f"{lt}.{op}", lt, None, apis[sorted(apis)[0]]))
        for sk in c06.SITE_KEYS:
            eps_list.append((f"{sk[0]}.{sk[1]}", c06.SITES[sk]["px"], sk, None))
        # the conversions of convert.py (they build index constants internally): operand = the matrices / angles of pool items
        for g_ in GROUPS:
            eps_list.append((f"mat2{g_}(X.matrix())", g_, None, (lambda g_: lambda X: getattr(P, "mat2" + g_)(X.matrix(), check=False))(g_)))
        eps_list.append(("from_matrix(SE3)", "SE3", None, lambda X: P.from_matrix(X.matrix(), ltype_of("SE3"), check=False)))
        eps_list.append(("euler2SO3(X.euler())", "SO3", None, lambda X: P.euler2SO3(X.euler())))
        orders = [("inference_mode", "grad", "no_grad", "plain"), ("grad", "inference_mode", "plain", "no_grad"), ("no_grad", "grad", "inference_mode", "plain")]
        # control: backward through the op with nothing before it, on its own fresh length.  Where that already fails on this
        # tree (observation: quat2unit of SE3 / RxSO3 / Sim3 writes into a tensor its own graph needs) the backward is left
        # out of the histories — the histories are about the ORDER of modes, not about differentiability.
        grad_ok = {}
        for label, lt, sk, fn in eps_list:
            n = next_len()
            xsrc = c06.POOLS.get(lt, "float64")
            xt = xsrc[torch.arange(n) % xsrc.shape[0]].clone().requires_grad_(True)
            try:
                X = P.LieTensor(xt, ltype=ltype_of(lt))
                if sk is None:
                    r = fn(X)
                else:
                    spec = c06.SITES[sk]
                    ysrc = c06.POOLS.get(spec["py"], "float64")
                    r = c06.site_call(sk, sorted(spec["apis"])[0], X, c06.wrap_second(sk, "lie", ysrc[(torch.arange(n) + 1) % ysrc.shape[0]].clone()))
                rp = c06._plain(r)
                if rp.requires_grad:
                    torch.nan_to_num(rp).sum().backward()
                grad_ok[label] = True
            except Exception:
                grad_ok[label] = False
                ctx.count("modeorder.observation.backward_unsupported")
        for ei, (label, lt, sk, fn) in enumerate(eps_list):
            for oi, order in enumerate(orders if not ctx.quick else [orders[0], orders[1 + ei % 2]]):
                n = next_len()
                dtype = "float64" if (ei + oi) % 2 == 0 else "float32"
                case = {"kind": "modeorder", "entry": label, "order": list(order), "n": n, "dtype": dtype}
                ctx.note_case(("modeorder", label, order), True)
                ctx.count("modeorder")
                xsrc = c06.POOLS.get(lt, dtype)
                xb = xsrc[torch.arange(n) % xsrc.shape[0]].clone()
                if sk is not None:
                    spec = c06.SITES[sk]
                    ysrc = c06.POOLS.get(spec["py"], dtype)
                    yb = ysrc[(torch.arange(n) + 1) % ysrc.shape[0]].clone()
                vals = {}
                for mode in order:
                    cm = {"inference_mode": torch.inference_mode, "no_grad": torch.no_grad}.get(mode, contextlib.nullcontext)
                    try:
                        with cm():
                            xt = xb.clone()
                            if mode == "grad":
                                xt.requires_grad_(True)
                            X = P.LieTensor(xt, ltype=ltype_of(lt))
                            if sk is None:
                                r = fn(X)
                            else:
                                r = c06.site_call(sk, sorted(spec["apis"])[0], X, c06.wrap_second(sk, "lie", yb.clone()))
                            rp = c06._plain(r)
                            if mode == "grad" and rp.requires_grad and grad_ok.get(label, True):
                                torch.nan_to_num(rp).sum().backward()
                            vals[mode] = rp.detach().clone()
                    except Exception as e:
                        ctx.fail(case, f"modeorder: {label} in mode `{mode}` (call order {order}, batch length {n} fresh in this process) raises "
                                       f"{type(e).__name__}: {str(e)[:90]}")
                        break
                base = vals.get("plain")
                for mode, v in vals.items():
                    if base is not None and (v.shape != base.shape or not same_values(v, base)):
                        ctx.fail(case, f"modeorder: {label} returns other values in mode `{mode}` than plain (call order {order}, batch length {n})")
                        break


# ============================================================================= (21) user subclasses as operands

def stream_subclass(ctx):
    """operands that are instances of a USER subclass of LieTensor / pp.Parameter (made with as_subclass, carrying the ltype):
    every unary op and binary site returns the values and the ltype it returns for a plain LieTensor, as a LieTensor"""
    P = pp()
    c06 = C()

    class UserLie(P.LieTensor):
        pass

    class UserParam(P.Parameter):
        pass

    def mk(cls, t, lt):
        x = t.clone().as_subclass(cls)
        x.ltype = ltype_of(lt)
        return x
    with warnings.catch_warnings():
        warnings.simplefilter("ignore")
        for cls in (UserLie, UserParam):
            for lt in LTYPES:
                for dtype in ("float64", "float32") if not ctx.quick else ("float64",):
                    xb = c06.POOLS.get(lt, dtype)[:4].clone()
                    calls = [(op, apis[sorted(apis)[0]]) for op, apis, _ in c06.unary_ops(lt)]
                    calls += [("clone", lambda X: X.clone()), ("getitem", lambda X: X[1:3]), ("cat", lambda X: torch.cat([X, X])), ("view", lambda X: X.view(2, 2, -1)),
                              ("unbind", lambda X: X.unbind(0)[1]), ("index_select", lambda X: X.index_select(0, torch.tensor([2, 0])))]
                    for sk in c06.SITE_KEYS:
                        if sk[0] != lt:
                            continue
                        spec = c06.SITES[sk]
                        yb = c06.POOLS.get(spec["py"], dtype)[4:8].clone()
                        for ys in ("lie", "user"):
                            if ys == "user" and spec["wrap_y"] is None:
                                continue
                            for api in sorted(spec["apis"]):          # every spelling: `*`, `@`, `.mul`, `pp.mul`, … dispatch separately
                                def f(X, sk=sk, spec=spec, yb=yb, ys=ys, cls=cls, api=api):
                                    y = c06.wrap_second(sk, "lie", yb.clone())
                                    if ys == "user":
                                        y = mk(cls if cls is UserLie else UserLie, c06._plain(y), spec["py"])
                                    return c06.site_call(sk, api, X, y)
                                calls.append((f"{sk[1]} ({api}, {ys} partner)", f))
                    for op, fn in calls:
                        case = {"kind": "subclass", "cls": cls.__name__, "lt": lt, "dtype": dtype, "op": op}
                        ctx.note_case(("subclass", cls.__name__, lt, dtype, op), True)
                        ctx.count("subclass")
                        try:
                            want = fn(c06._lie(xb.clone(), lt))
                            got = fn(mk(cls, xb, lt))
                        except Exception as e:
                            ctx.fail(case, f"subclass: {lt}.{op} on an operand of user class {cls.__name__} raises {type(e).__name__}: {str(e)[:80]}")
                            continue
                        ok = (isinstance(got, P.LieTensor) == isinstance(want, P.LieTensor)) and getattr(got, "ltype", None) is getattr(want, "ltype", None) \
                            and got.shape == want.shape and got.dtype == want.dtype \
                            and same_values(c06._plain(got).detach(), c06._plain(want).detach())
                        if not ok:
                            ctx.fail(case, f"subclass: {lt}.{op} on an operand of user class {cls.__name__} returns {type(got).__name__}/"
                                           f"{ltype_name(getattr(got, 'ltype', None))} — other type / ltype / values than for a LieTensor operand")
