import Pose.Model.LMNormal
import Proofs.Lemmas.LMLoop
/-!
# Contracting the damped normal equations with the step (helper lemmas for `Proofs/Props/C08.lean`)
-/
namespace PP.LMLoop
open PP

theorem ddot_eq (a b : List ℝ) : DVec.dot a b = (List.zipWith (· * ·) a b).sum := by
  unfold DVec.dot; rw [dsum_eq]

theorem ddot_comm (a b : List ℝ) : DVec.dot a b = DVec.dot b a := by
  rw [ddot_eq, ddot_eq]
  induction a generalizing b with
  | nil => cases b <;> simp
  | cons x a ih =>
    cases b with
    | nil => simp
    | cons y b => simp [ih b, mul_comm]

theorem ddot_zero_left (n : Nat) (d : List ℝ) : DVec.dot (DVec.zero n : DVec ℝ) d = 0 := by
  rw [ddot_eq]; unfold DVec.zero
  simp only [k_real, Nat.cast_zero]
  induction n generalizing d with
  | zero => simp
  | succ n ih =>
    cases d with
    | nil => simp
    | cons y d => simp [List.replicate_succ, ih d]

theorem ddot_smul_left (c : ℝ) (r d : List ℝ) : DVec.dot (DVec.smul c r) d = c * DVec.dot r d := by
  rw [ddot_eq, ddot_eq]; unfold DVec.smul
  induction r generalizing d with
  | nil => simp
  | cons x r ih =>
    cases d with
    | nil => simp
    | cons y d => simp [ih d]; ring

theorem ddot_neg_left (a d : List ℝ) : DVec.dot (DVec.neg a) d = -DVec.dot a d := by
  rw [ddot_eq, ddot_eq]; unfold DVec.neg
  induction a generalizing d with
  | nil => simp
  | cons x a ih =>
    cases d with
    | nil => simp
    | cons y d => simp [ih d]; ring

/-- additivity in the first argument, for vectors of the same length as the second -/
theorem ddot_add_left (a b d : List ℝ) (ha : a.length = d.length) (hb : b.length = d.length) :
    DVec.dot (DVec.add a b) d = DVec.dot a d + DVec.dot b d := by
  rw [ddot_eq, ddot_eq, ddot_eq]; unfold DVec.add
  induction d generalizing a b with
  | nil => simp
  | cons y d ih =>
    cases a with
    | nil => simp at ha
    | cons x a =>
      cases b with
      | nil => simp at hb
      | cons z b =>
        simp only [List.zipWith_cons_cons, List.sum_cons]
        rw [ih a b (by simpa using ha) (by simpa using hb)]; ring

theorem tmulVec_length (n : Nat) (J : DMat ℝ) (u : DVec ℝ) (hw : ∀ r ∈ J, r.length = n) :
    (tmulVec n J u).length = n := by
  induction J generalizing u with
  | nil => simp [tmulVec, DVec.zero]
  | cons r J ih =>
    cases u with
    | nil => simp [tmulVec, DVec.zero]
    | cons ui u =>
      have h1 : r.length = n := hw r (List.mem_cons_self ..)
      have h2 := ih u (fun r' hr' => hw r' (List.mem_cons_of_mem _ hr'))
      simp [tmulVec, DVec.add, DVec.smul, h1, h2]

/-- **adjoint identity** `(Jᵀu)·d = u·(J d)` for a matrix whose rows have the length of `d` -/
theorem tmulVec_dot (J : DMat ℝ) (u d : DVec ℝ) (hw : ∀ r ∈ J, r.length = d.length) :
    DVec.dot (tmulVec d.length J u) d = DVec.dot u (DMat.mulVec J d) := by
  induction J generalizing u with
  | nil =>
    have : DMat.mulVec ([] : DMat ℝ) d = [] := rfl
    have hz : tmulVec d.length ([] : DMat ℝ) u = DVec.zero d.length := by cases u <;> rfl
    rw [this, hz, ddot_zero_left, ddot_eq]; simp
  | cons r J ih =>
    cases u with
    | nil =>
      show DVec.dot (DVec.zero d.length) d = DVec.dot [] _
      rw [ddot_zero_left, ddot_eq]; simp
    | cons ui u =>
      have hw' : ∀ r' ∈ J, r'.length = d.length := fun r' hr' => hw r' (List.mem_cons_of_mem _ hr')
      have h1 : r.length = d.length := hw r (List.mem_cons_self ..)
      have hm : DMat.mulVec (r :: J) d = DVec.dot r d :: DMat.mulVec J d := rfl
      show DVec.dot (DVec.add (DVec.smul ui r) (tmulVec d.length J u)) d = _
      rw [ddot_add_left _ _ _ (by simp [DVec.smul, h1]) (tmulVec_length _ J u hw'), ddot_smul_left, ih u hw', hm]
      rw [ddot_eq (ui :: u), ddot_eq u]
      simp

theorem wsq_eq (lam d : List ℝ) : wsq lam d = DVec.dot (List.zipWith (· * ·) lam d) d := by
  unfold wsq; rw [dsum_eq, ddot_eq]
  induction lam generalizing d with
  | nil => simp
  | cons l lam ih =>
    cases d with
    | nil => simp
    | cons y d => simp [ih d]

theorem wsq_nonneg (lam d : List ℝ) (hl : ∀ l ∈ lam, 0 < l) : 0 ≤ wsq lam d := by
  unfold wsq; rw [dsum_eq]
  induction lam generalizing d with
  | nil => simp
  | cons l lam ih =>
    cases d with
    | nil => simp
    | cons y d =>
      have h1 : 0 < l := hl l (List.mem_cons_self ..)
      have h2 := ih d (fun l' hl' => hl l' (List.mem_cons_of_mem _ hl'))
      simp only [List.zipWith_cons_cons, List.sum_cons]
      have : 0 ≤ l * y * y := by rw [mul_assoc]; exact mul_nonneg h1.le (mul_self_nonneg y)
      linarith

/-- `Dᵀ Λ D > 0` for a positive diagonal and a step with a non-zero entry -/
theorem wsq_pos (lam d : List ℝ) (hl : ∀ l ∈ lam, 0 < l) (hlen : lam.length = d.length) (hd : ∃ x ∈ d, x ≠ 0) :
    0 < wsq lam d := by
  induction lam generalizing d with
  | nil =>
    obtain ⟨x, hx, _⟩ := hd
    have : d = [] := List.length_eq_zero_iff.mp (by simpa using hlen.symm)
    rw [this] at hx; simp at hx
  | cons l lam ih =>
    cases d with
    | nil => obtain ⟨x, hx, _⟩ := hd; simp at hx
    | cons y d =>
      have h1 : 0 < l := hl l (List.mem_cons_self ..)
      have hl' : ∀ l' ∈ lam, 0 < l' := fun l' h => hl l' (List.mem_cons_of_mem _ h)
      have hstep : wsq (l :: lam) (y :: d) = l * y * y + wsq lam d := by
        unfold wsq; rw [dsum_eq, dsum_eq]; simp
      rw [hstep]
      have hy : 0 ≤ l * y * y := by rw [mul_assoc]; exact mul_nonneg h1.le (mul_self_nonneg y)
      obtain ⟨x, hx, hx0⟩ := hd
      rcases List.mem_cons.mp hx with rfl | hx'
      · have : 0 < l * x * x := by rw [mul_assoc]; exact mul_pos h1 (mul_self_pos.mpr hx0)
        have := wsq_nonneg lam d hl'
        linarith
      · have := ih d hl' (by simpa using hlen) ⟨x, hx', hx0⟩
        linarith

end PP.LMLoop

/-! ## pass 10: the diagonal the code hands to the solver -/
namespace PP.LMLoop
open PP

theorem tclamp_eq (lo hi x : ℝ) : tclamp lo hi x = min (max x lo) hi := by
  unfold tclamp
  simp only [lt_real, decide_eq_true_eq]
  by_cases h1 : x < lo
  · rw [if_pos h1, max_eq_right h1.le]
    by_cases h2 : hi < lo
    · rw [if_pos h2, min_eq_right h2.le]
    · rw [if_neg h2, min_eq_left (not_lt.mp h2)]
  · rw [if_neg h1, max_eq_left (not_lt.mp h1)]
    by_cases h2 : hi < x
    · rw [if_pos h2, min_eq_right h2.le]
    · rw [if_neg h2, min_eq_left (not_lt.mp h2)]

/-- inside the upper bound the clamp only raises: `clamp(a) = max(a, lo) ≥ a, lo` -/
theorem tclamp_of_le (lo hi a : ℝ) (hlh : lo ≤ hi) (ha : a ≤ hi) : tclamp lo hi a = max a lo := by
  rw [tclamp_eq]; exact min_eq_left (max_le ha hlh)

theorem foldl_damp (d : ℝ) (damps : List ℝ) :
    damps.foldl (fun d lam => d + d * lam) d = d * (damps.map (fun lam => 1 + lam)).prod := by
  induction damps generalizing d with
  | nil => simp
  | cons l damps ih =>
    simp only [List.foldl_cons, List.map_cons, List.prod_cons]
    rw [ih]; ring

theorem prod_one_add_ge (damps : List ℝ) (hp : ∀ l ∈ damps, 0 < l) : 1 ≤ (damps.map (fun lam => 1 + lam)).prod := by
  induction damps with
  | nil => simp
  | cons l damps ih =>
    have h1 : 0 < l := hp l (List.mem_cons_self ..)
    have h2 := ih (fun l' h => hp l' (List.mem_cons_of_mem _ h))
    simp only [List.map_cons, List.prod_cons]
    nlinarith

theorem prod_one_add_gt (damps : List ℝ) (hp : ∀ l ∈ damps, 0 < l) (hne : damps ≠ []) :
    1 < (damps.map (fun lam => 1 + lam)).prod := by
  cases damps with
  | nil => exact absurd rfl hne
  | cons l damps =>
    have h1 : 0 < l := hp l (List.mem_cons_self ..)
    have h2 := prod_one_add_ge damps (fun l' h => hp l' (List.mem_cons_of_mem _ h))
    simp only [List.map_cons, List.prod_cons]
    nlinarith

theorem diagJtJ_length (n : Nat) (J : DMat ℝ) (hw : ∀ r ∈ J, r.length = n) : (diagJtJ n J).length = n := by
  induction J with
  | nil => simp [diagJtJ, DVec.zero]
  | cons r J ih =>
    have h1 : r.length = n := hw r (List.mem_cons_self ..)
    have h2 := ih (fun r' hr' => hw r' (List.mem_cons_of_mem _ hr'))
    simp [diagJtJ, DVec.add, h1, h2]

end PP.LMLoop
