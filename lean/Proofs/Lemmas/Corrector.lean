import Proofs.Real
import Pose.Model.Corrector
import Mathlib.Algebra.BigOperators.Group.Finset.Basic
import Mathlib.Algebra.BigOperators.Intervals
import Mathlib.Algebra.BigOperators.Ring.Finset
import Mathlib.Algebra.Order.BigOperators.Ring.Finset
import Mathlib.Tactic.Ring
import Mathlib.Tactic.Linarith
import Mathlib.Tactic.FieldSimp
/-!
# Helper lemmas for the corrector part of C09: `sumN` over ℝ is `Finset.sum` over `range`
-/
namespace PP.Corrector
open Finset

theorem sumN_eq_sum (n : Nat) (f : Nat → ℝ) : sumN n f = ∑ i ∈ range n, f i := by
  induction n with
  | zero => simp [sumN]
  | succ n ih => simp only [sumN, ih, sum_range_succ]

theorem normSq_eq_sum (d : Nat) (R : Nat → ℝ) : normSq d R = ∑ a ∈ range d, R a * R a := by
  unfold normSq; exact sumN_eq_sum _ _

theorem normSq_nonneg (d : Nat) (R : Nat → ℝ) : 0 ≤ normSq d R := by
  rw [normSq_eq_sum]; exact sum_nonneg fun a _ => mul_self_nonneg (R a)

/-- `‖R‖² = 0` exactly when every component (below `d`) vanishes -/
theorem normSq_eq_zero_iff (d : Nat) (R : Nat → ℝ) : normSq d R = 0 ↔ ∀ a < d, R a = 0 := by
  rw [normSq_eq_sum, sum_eq_zero_iff_of_nonneg (fun a _ => mul_self_nonneg (R a))]
  constructor
  · intro h a ha; exact mul_self_eq_zero.mp (h a (mem_range.mpr ha))
  · intro h a ha; rw [h a (mem_range.mp ha)]; ring

theorem isZero_real (x : ℝ) : isZero x = decide (x = 0) := by
  unfold isZero
  simp only [le_real, k_real, Nat.cast_zero]
  by_cases h : x = 0
  · simp [h]
  · rcases lt_or_gt_of_ne h with h' | h'
    · simp [h, not_le.mpr h']
    · simp [h, not_le.mpr h']

theorem mask_real (x g2 : ℝ) : mask x g2 = decide (x ≠ 0 ∧ 0 < g2) := by
  unfold mask
  rw [isZero_real]
  simp only [le_real, k_real, Nat.cast_zero]
  by_cases h : x = 0 <;> by_cases h2 : g2 ≤ 0 <;> simp [h, h2, not_lt.mpr, lt_of_not_ge]

theorem smax_real (a b : ℝ) : smax a b = max a b := by
  unfold smax
  simp only [lt_real]
  by_cases h : a < b
  · simp [h, max_eq_right (le_of_lt h)]
  · simp [h, max_eq_left (not_lt.mp h)]

/-! ### one item of `FastTriggs` / `Triggs` -/

section item
variable (d : Nat) (x g1 g2 : ℝ) (R : Nat → ℝ) (J : Nat → Nat → ℝ)

theorem fast_R (a : Nat) : (fast g1 R J).R a = Real.sqrt g1 * R a := rfl
theorem fast_J (a l : Nat) : (fast g1 R J).J a l = Real.sqrt g1 * J a l := rfl

theorem triggs_unmasked (hm : mask x g2 = false) : triggs d x g1 g2 R J = fast g1 R J := by
  unfold triggs fast
  simp only [hm]
  rfl

theorem triggs_R_masked (hm : mask x g2 = true) (a : Nat) :
    (triggs d x g1 g2 R J).R a = Real.sqrt g1 * R a / (1 - alpha x g1 g2) := by
  unfold triggs
  simp only [hm, if_true, sqrt_real, k_real, Nat.cast_one]

theorem triggs_J_masked (hm : mask x g2 = true) (a l : Nat) :
    (triggs d x g1 g2 R J).J a l =
      Real.sqrt g1 * (J a l - alpha x g1 g2 / x * R a * ∑ b ∈ range d, R b * J b l) := by
  unfold triggs
  simp only [hm, if_true, sqrt_real, sumN_eq_sum]
  have : ∑ b ∈ range d, R a * R b * (Real.sqrt g1 * J b l)
      = R a * Real.sqrt g1 * ∑ b ∈ range d, R b * J b l := by
    rw [mul_sum]; exact sum_congr rfl fun b _ => by ring
  rw [this]; ring

/-- on the mask (with `ρ' > 0`, `x = ‖R‖² > 0`) `1 - α = √(1 + 2xρ''/ρ')`, which is `> 1` -/
theorem one_sub_alpha (hx : 0 < x) (h1 : 0 < g1) (h2 : 0 < g2) :
    1 - alpha x g1 g2 = Real.sqrt (1 + 2 * x * g2 / g1) ∧ 1 < Real.sqrt (1 + 2 * x * g2 / g1) := by
  have ht : 0 < 2 * x * g2 / g1 := by positivity
  constructor
  · unfold alpha
    simp only [sqrt_real, k_real, smax_real, Nat.cast_zero, Nat.cast_one, Nat.cast_ofNat]
    rw [max_eq_right (by linarith)]; ring
  · rw [show (1:ℝ) = Real.sqrt 1 by simp]
    apply Real.sqrt_lt_sqrt (by norm_num)
    simp only [Real.sqrt_one]; linarith

/-- `α` is a root of `½α² − α − (ρ''/ρ')‖R‖² = 0` -/
theorem alpha_root (hx : 0 < x) (h1 : 0 < g1) (h2 : 0 < g2) :
    (1/2) * (alpha x g1 g2)^2 - alpha x g1 g2 - g2 / g1 * x = 0 := by
  obtain ⟨he, hs⟩ := one_sub_alpha x g1 g2 hx h1 h2
  have ht : 0 ≤ 1 + 2 * x * g2 / g1 := by positivity
  have hsq := Real.mul_self_sqrt ht
  have ha : alpha x g1 g2 = 1 - Real.sqrt (1 + 2 * x * g2 / g1) := by linarith
  rw [ha]
  field_simp
  field_simp at hsq
  nlinarith [hsq]


theorem fast_item_grad (h1 : 0 ≤ g1) (l : Nat) :
    ∑ a ∈ range d, (fast g1 R J).J a l * (fast g1 R J).R a = g1 * ∑ a ∈ range d, J a l * R a := by
  simp only [fast_R, fast_J]
  rw [mul_sum]
  refine sum_congr rfl fun a _ => ?_
  have := Real.mul_self_sqrt h1
  calc Real.sqrt g1 * J a l * (Real.sqrt g1 * R a) = (Real.sqrt g1 * Real.sqrt g1) * (J a l * R a) := by ring
    _ = g1 * (J a l * R a) := by rw [this]

theorem fast_item_hess (h1 : 0 ≤ g1) (l m : Nat) :
    ∑ a ∈ range d, (fast g1 R J).J a l * (fast g1 R J).J a m = g1 * ∑ a ∈ range d, J a l * J a m := by
  simp only [fast_J]
  rw [mul_sum]
  refine sum_congr rfl fun a _ => ?_
  have := Real.mul_self_sqrt h1
  calc Real.sqrt g1 * J a l * (Real.sqrt g1 * J a m) = (Real.sqrt g1 * Real.sqrt g1) * (J a l * J a m) := by ring
    _ = g1 * (J a l * J a m) := by rw [this]

/-- gradient identity of one masked item -/
theorem triggs_item_grad_masked (hxR : x = ∑ a ∈ range d, R a * R a) (hx : 0 < x) (h1 : 0 < g1) (h2 : 0 < g2)
    (l : Nat) :
    ∑ a ∈ range d, (triggs d x g1 g2 R J).J a l * (triggs d x g1 g2 R J).R a
      = g1 * ∑ a ∈ range d, J a l * R a := by
  have hm : mask x g2 = true := by rw [mask_real]; simp [hx.ne', h2]
  obtain ⟨he, hs⟩ := one_sub_alpha x g1 g2 hx h1 h2
  set s := Real.sqrt (1 + 2 * x * g2 / g1) with hsdef
  have hs0 : s ≠ 0 := by linarith
  have hg := Real.mul_self_sqrt h1.le
  simp only [triggs_R_masked d x g1 g2 R J hm, triggs_J_masked d x g1 g2 R J hm]
  set al := alpha x g1 g2 with hal
  rw [he]
  set c := ∑ b ∈ range d, R b * J b l with hc
  have e1 : ∀ a, Real.sqrt g1 * (J a l - al / x * R a * c) * (Real.sqrt g1 * R a / s)
      = (g1 / s) * (R a * J a l) - (g1 / s * (al / x) * c) * (R a * R a) := by
    intro a
    calc _ = (Real.sqrt g1 * Real.sqrt g1) / s * (R a * J a l) - ((Real.sqrt g1 * Real.sqrt g1) / s * (al / x) * c) * (R a * R a) := by ring
      _ = _ := by rw [hg]
  simp only [e1]
  rw [sum_sub_distrib, ← mul_sum, ← mul_sum, ← hc, ← hxR]
  have hc' : ∑ a ∈ range d, J a l * R a = c := by
    rw [hc]; exact sum_congr rfl fun a _ => by ring
  rw [hc']
  have hal' : al = 1 - s := by linarith
  rw [hal']
  field_simp
  ring

/-- Hessian identity of one masked item -/
theorem triggs_item_hess_masked (hxR : x = ∑ a ∈ range d, R a * R a) (hx : 0 < x) (h1 : 0 < g1) (h2 : 0 < g2)
    (l m : Nat) :
    ∑ a ∈ range d, (triggs d x g1 g2 R J).J a l * (triggs d x g1 g2 R J).J a m
      = g1 * ∑ a ∈ range d, J a l * J a m
        + 2 * g2 * ((∑ a ∈ range d, J a l * R a) * (∑ a ∈ range d, R a * J a m)) := by
  have hm : mask x g2 = true := by rw [mask_real]; simp [hx.ne', h2]
  obtain ⟨he, hs⟩ := one_sub_alpha x g1 g2 hx h1 h2
  have hroot := alpha_root x g1 g2 hx h1 h2
  have hg := Real.mul_self_sqrt h1.le
  simp only [triggs_J_masked d x g1 g2 R J hm]
  set al := alpha x g1 g2 with hal
  set cl := ∑ b ∈ range d, R b * J b l with hcl
  set cm := ∑ b ∈ range d, R b * J b m with hcm
  have e1 : ∀ a, Real.sqrt g1 * (J a l - al / x * R a * cl) * (Real.sqrt g1 * (J a m - al / x * R a * cm))
      = g1 * (J a l * J a m) - (g1 * (al / x) * cm) * (R a * J a l) - (g1 * (al / x) * cl) * (R a * J a m)
        + (g1 * (al / x)^2 * cl * cm) * (R a * R a) := by
    intro a
    calc _ = (Real.sqrt g1 * Real.sqrt g1) * ((J a l - al / x * R a * cl) * (J a m - al / x * R a * cm)) := by ring
      _ = g1 * ((J a l - al / x * R a * cl) * (J a m - al / x * R a * cm)) := by rw [hg]
      _ = _ := by ring
  simp only [e1]
  rw [sum_add_distrib, sum_sub_distrib, sum_sub_distrib, ← mul_sum, ← mul_sum, ← mul_sum, ← mul_sum,
    ← hcl, ← hcm, ← hxR]
  have hc' : ∑ a ∈ range d, J a l * R a = cl := by
    rw [hcl]; exact sum_congr rfl fun a _ => by ring
  rw [hc']
  have hx0 : x ≠ 0 := hx.ne'
  have hg0 : g1 ≠ 0 := h1.ne'
  have key : g1 * ((al / x)^2 * x - 2 * (al / x)) = 2 * g2 := by
    field_simp
    field_simp at hroot
    nlinarith [hroot]
  calc _ = g1 * ∑ a ∈ range d, J a l * J a m + (g1 * ((al / x)^2 * x - 2 * (al / x))) * (cl * cm) := by ring
    _ = _ := by rw [key]

end item


/-! ### moved from Props (audit): generic list / sum facts behind the hardening oracles, flat indexing, generic-α components -/
theorem sumN_add (n m : Nat) (f : Nat → ℝ) : sumN (n + m) f = sumN n f + sumN m (fun i => f (n + i)) := by
  simp only [sumN_eq_sum]
  rw [sum_range_add]

/-- **Item-wise = batched** (correctors): corrected item `i` depends on `(R i, J i)` only — two batches that agree on
item `i` give the same corrected item, whatever the other items (zero rows, masked rows, …) are. -/
theorem corrector_itemwise (ρ1 ρ2 : ℝ → ℝ) (d : Nat) (R R' : Nat → Nat → ℝ) (J J' : Nat → Nat → Nat → ℝ) (i : Nat)
    (hR : R i = R' i) (hJ : J i = J' i) :
    (fun k => triggsOf ρ1 ρ2 d (R k) (J k)) i = (fun k => triggsOf ρ1 ρ2 d (R' k) (J' k)) i ∧
    (fun k => fastOf ρ1 d (R k) (J k)) i = (fun k => fastOf ρ1 d (R' k) (J' k)) i := by
  simp only [hR, hJ, and_self]

/-- **Splitting a batch**: `J'ᵀR'`, `J'ᵀJ'` and the loss of a batch of `N + M` items are the sums over the first `N` and
the remaining `M` items — calling the corrector on parts of a batch and stacking is the same as one call. -/
theorem batch_split (N M d : Nat) (out : Nat → Out ℝ) (ρ : ℝ → ℝ) (R : Nat → Nat → ℝ) (l m : Nat) :
    JtR (N + M) d out l = JtR N d out l + JtR M d (fun i => out (N + i)) l ∧
    JtJ (N + M) d out l m = JtJ N d out l m + JtJ M d (fun i => out (N + i)) l m ∧
    lossOne ρ (N + M) d R = lossOne ρ N d R + lossOne ρ M d (fun i => R (N + i)) := by
  unfold JtR JtJ lossOne
  exact ⟨sumN_add N M _, sumN_add N M _, sumN_add N M _⟩

/-- **Statelessness of a call history**: the model of a corrector object is a function of the call's own arguments,
so the results of a sequence of calls are the calls' individual results, in any order and with any repetition — a later
call cannot depend on an earlier one (what the `history` stream checks on the real objects). -/
theorem history_stateless {α β : Type} (f : α → β) (calls : List α) (k : Nat) (c : α) (h : calls[k]? = some c) :
    (calls.map f)[k]? = some (f c) := by
  simp [h]

/-- **A failing call is atomic** (model of an object whose calls may fail, `none` = raises): the results of the calls that
succeed are the same as in the history from which the failing calls are removed — a call that raised leaves no trace. -/
theorem failed_calls_atomic {α β : Type} (f : α → Option β) (calls : List α) :
    calls.filterMap f = (calls.filter fun c => (f c).isSome).filterMap f := by
  induction calls with
  | nil => rfl
  | cons c cs ih =>
    cases h : f c with
    | none => simp [h, ih]
    | some b => simp [h, ih]

/-- **Copies and several objects are independent**: in a history of calls tagged with the object they are made on, the
results seen on object `a` are exactly the results of `a`'s own sub-history (an object and its copy share `f`, not state). -/
theorem objects_independent {τ α β : Type} [DecidableEq τ] (f : α → β) (calls : List (τ × α)) (a : τ) :
    ((calls.map fun tc => (tc.1, f tc.2)).filter fun r => r.1 = a).map (·.2)
      = ((calls.filter fun tc => tc.1 = a).map (·.2)).map f := by
  induction calls with
  | nil => rfl
  | cons c cs ih =>
    by_cases h : c.1 = a
    · simp [h, ih]
    · simp [h, ih]

/-- **Values do not depend on the grad mode**: the model of a kernel / corrector call has no mode argument at all; stated
for an explicit mode parameter `m`: any implementation `g` that agrees with the pure model `f` in one mode and ignores the
mode agrees with it in every mode. -/
theorem mode_independent {μ α β : Type} (f : α → β) (g : μ → α → β) (m0 : μ) (h0 : ∀ x, g m0 x = f x)
    (hm : ∀ m m' x, g m x = g m' x) (m : μ) (x : α) : g m x = f x := by
  rw [hm m m0 x, h0 x]

/-- a sum over the `N*d` flat rows is the double sum over items and components -/
theorem sumN_flat (N d : Nat) (f : Nat → ℝ) : sumN (N * d) f = sumN N fun i => sumN d fun a => f (i * d + a) := by
  induction N with
  | zero => simp [sumN]
  | succ n ih =>
    rw [Nat.succ_mul, sumN_add, ih]
    simp only [sumN]

theorem flat_index (d i a : Nat) (ha : a < d) : itemOf d (i * d + a) = i ∧ compOf d (i * d + a) = a := by
  unfold itemOf compOf
  constructor
  · rw [Nat.add_comm, Nat.add_mul_div_right _ _ (by omega), Nat.div_eq_of_lt ha]; omega
  · rw [Nat.add_comm, Nat.add_mul_mod_self_right]; exact Nat.mod_eq_of_lt ha

section itemAlpha
variable (d : Nat) (x g1 al : ℝ) (R : Nat → ℝ) (J : Nat → Nat → ℝ)
theorem triggsAlpha_R (a : Nat) : (triggsAlpha d x g1 al R J).R a = Real.sqrt g1 * R a / (1 - al) := by
  unfold triggsAlpha; simp only [sqrt_real, k_real, Nat.cast_one]

theorem triggsAlpha_J (a l : Nat) :
    (triggsAlpha d x g1 al R J).J a l = Real.sqrt g1 * (J a l - al / x * R a * ∑ b ∈ range d, R b * J b l) := by
  unfold triggsAlpha
  simp only [sqrt_real, sumN_eq_sum]
  have : ∑ b ∈ range d, R a * R b * (Real.sqrt g1 * J b l) = R a * Real.sqrt g1 * ∑ b ∈ range d, R b * J b l := by
    rw [mul_sum]; exact sum_congr rfl fun b _ => by ring
  rw [this]; ring

end itemAlpha

end PP.Corrector
