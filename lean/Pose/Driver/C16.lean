import Pose.Wire
import Pose.Driver.Lie
/-! Driver ops for C16. -/
namespace PP.Driver
open PP Wire

def opsC16 : List (String × Handler) := []

end PP.Driver
