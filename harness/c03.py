"""C03 — group product, inverse, identity and point action obey the group laws.

Model: lean/Pose/Model/Lie.lean (Mul, Inv, Act, Act4, matrix, identities); theorems: lean/Proofs/Props/C03.lean.

Correspondence streams
  ops     : batched `@`/`*`, Inv, Act (3- and 4-vectors, incl. w=0), matrix(), rotation/translation/scale,
            identity constructors — every item of the real batched result against the model in 192 bits;
  history : one element updated by a long random sequence of `@` (either side), Inv, Retr / add_ / + ; the model
            (exact) and the code (float) are stepped together; unit-norm drift and transformation distance
            are compared against n·tol.
Oracles on the real code (laws themselves): associativity, two-sided inverse, neutral identity,
matrix homomorphism, Act = matrix·p (3- and 4-vectors), (X@Y).Act(p) = X.Act(Y.Act(p)), validity.
"""
from __future__ import annotations

import math
from fractions import Fraction

import torch

from . import common, util_lie as U
from .common import Ctx

META = {
    "rule": "elements from the structured generator of DESIGN §4 (angles on the ladder incl. 0, eps-neighbourhood, pi±, beyond pi; "
            "both quaternion hemispheres; translations 0..1e3; scales e^±8), random broadcastable batch shapes, float32/float64; "
            "non-trivial = not all operands identity; distinct by (op, type, dtype, regime tags, shapes)",
    "trusted": ["per-step relative accuracy (8 eps) of the float group operations: hypothesis of rounded_history_norm / rounded_scale_pos, measured on every step of every sampled history"],
    "assumptions": ["inputs are valid group elements (unit quaternion to 1 ulp, positive scale)"],
    "partial": ["round-off over long histories: unit-norm drift and scale positivity of the COMPUTED history are theorems (rounded_history_norm, rounded_history_drift, rounded_scale_pos) under a per-step accuracy hypothesis that is measured, not proved; growth of the translation error (n^2 eps relative to the largest translation on the path) is measured only"],
}

K_ALG = 64.0  # DESIGN §2.2: algebraic ops 64·eps·scale


_IDENT = {}


def model_identity(ctx, name):
    if name not in _IDENT:
        rep = ctx.driver.run([f"{name}.one {common.to_wire(0.0)}"])[0]
        st, toks = common.parse_reply(rep)
        if st != "ok":
            raise common.InfraError(f"model identity: {rep}")
        _IDENT[name] = [float(common.from_wire(t)) for t in toks]
    return _IDENT[name]


def tol(dtype):
    return K_ALG * common.EPS[dtype]


def blocks(name, v):
    """(quat, trans or None, scale or None)"""
    q = v[U.QSL[name]]
    t = v[U.TSL[name]] if U.TSL[name] is not None else None
    s = v[U.SIDX[name]] if U.SIDX[name] is not None else None
    return q, t, s



def rows_independent(ctx, case, what, T):
    """an output batch must own its rows: updating one item in place must not change any other item
    (outputs built with expand / stride-0 or aliasing an operand violate this silently)"""
    t = T.tensor() if hasattr(T, "ltype") else T
    if t.dim() < 2 or t.shape[0] < 2 or t.numel() == 0:
        return True
    before = t.clone()
    try:
        row = t[0]
        row.add_(0.25)
    except Exception as e:
        ctx.fail(case, f"overlap: in-place update of one item of {what} raised {type(e).__name__}: {str(e)[:100]}")
        return False
    ok = torch.equal(t[1:], before[1:])
    if not ok:
        ctx.fail(case, f"overlap: updating item 0 of {what} in place changed other items (shared / stride-0 storage)")
    return ok


def tscale_mul(name, X, Y):
    _, tx, sx = blocks(name, X)
    _, ty, _ = blocks(name, Y)
    if tx is None:
        return 1.0
    return 1e-300 + U.max_abs(tx) + (sx if sx is not None else 1.0) * math.sqrt(3) * U.max_abs(ty) * 3


def gt(err, bound):
    """`err > bound` with NaN polarity: a NaN error (non-finite result of the real code) counts as exceeding"""
    return not (err <= bound)


def nonfinite(ctx, case, got, want, dtype):
    """a NaN / inf in what the real code returned, where the exact result is finite and far inside the dtype's range, is a
    failure of the property on that input (max() and `>` silently drop NaNs, so this is tested first)"""
    if all(math.isfinite(v) for v in got):
        return False
    lim = 1e30 if dtype == "float32" else 1e300
    if all(abs(w) < lim for w in want):
        ctx.fail(case, f"non-finite: {case.get('op', case.get('stream'))} on {case.get('type')} ({dtype}) returned {[v for v in got if not math.isfinite(v)][:3]} "
                       f"for a finite valid input whose exact result is finite")
    return True


def cmp_group(ctx, stream, case, name, got, want, dtype, tscale, n=1, fix_sign=False):
    if nonfinite(ctx, case, got, want, dtype):
        return False
    e = U.group_err(name, got, want, tscale=tscale, fix_sign=fix_sign)
    t = tol(dtype) * n
    bad = {k: v for k, v in e.items() if not (v <= t)}
    if bad:
        ctx.disagree(stream, case, f"{case.get('op')} {name} {dtype}: block errors {bad} > {t:.3e}")
        return False
    return True


def cmp_vec(ctx, stream, case, got, want, dtype, scale, n=1):
    if nonfinite(ctx, case, got, want, dtype):
        return False
    err = max((abs(a - b) for a, b in zip(got, want)), default=0.0)
    t = tol(dtype) * n * max(scale, 1e-300)
    if not (err <= t) or len(got) != len(want):
        ctx.disagree(stream, case, f"{case.get('op')} {case.get('type')} {dtype}: max abs err {err:.3e} > {t:.3e}")
        return False
    return True


# ----------------------------------------------------------------------------- ops stream

def run_ops(ctx: Ctx, n_cases: int):
    rng = ctx.rng
    P = U.pp()
    lines, metas = [], []
    for ci in range(n_cases):
        name = rng.choice(U.GROUPS)
        dtype = rng.choice(["float64", "float64", "float32"])
        eps = common.EPS[dtype]
        op = rng.choice(["Mul", "Mul*", "Inv", "Act", "Act4", "Act4w0", "matrix", "accessors", "identity"])
        sa, sb, _ = U.broadcast_pair(rng, 2)
        so = tuple(torch.broadcast_shapes(sa, sb))
        case = {"stream": "ops", "op": op, "type": name, "dtype": dtype, "shape_a": sa, "shape_b": sb, "seed_case": ci}
        na, nb = int(math.prod(sa)), int(math.prod(sb))
        tags = []
        Xrows = []
        for _ in range(na):
            g, tg = U.gen_group(rng, name, eps, wide=0.12)
            Xrows.append(g)
            tags.append(tg)
        Xt, X64 = U.to_dtype_exact(Xrows, dtype)
        X = P.LieTensor(Xt.reshape(sa + (U.GDIM[name],)), ltype=U.ltype(name))
        X64 = X64.reshape(sa + (U.GDIM[name],))
        layout = rng.choice(["contig", "contig", "strided", "block"])
        if layout != "contig" and len(sa) >= 1 and na > 0:
            # the same values as a non-contiguous view of a larger buffer (results must not depend on the layout)
            if layout == "strided":
                buf = torch.full((sa[0] * 2,) + tuple(sa[1:]) + (U.GDIM[name],), 7.0, dtype=Xt.dtype)
                buf[::2] = X.tensor()
                X = P.LieTensor(buf[::2], ltype=U.ltype(name))
            else:
                buf = torch.full(tuple(sa) + (U.GDIM[name] + 3,), 7.0, dtype=Xt.dtype)
                buf[..., 1:1 + U.GDIM[name]] = X.tensor()
                X = P.LieTensor(buf[..., 1:1 + U.GDIM[name]], ltype=U.ltype(name))
        gradmode = rng.choice(["plain", "plain", "requires_grad", "no_grad", "inference"])
        if gradmode == "requires_grad" and op not in ("identity",):
            X = X.detach().clone().requires_grad_(True)     # tracked operands must give the same values
        x_before = X.tensor().detach().clone()
        case["gradmode"] = gradmode
        ctx.count(f"ops.gradmode.{gradmode}")
        case["X"] = X64.tolist()
        ctx.count(f"ops.{op}.{name}")
        sig = ("ops", op, name, dtype, tuple(sorted(set(tags)))[:3], sa, sb)
        import contextlib
        gctx = torch.no_grad() if gradmode == "no_grad" else (torch.inference_mode() if gradmode == "inference" else contextlib.nullcontext())
        try:
          with gctx:
              if op in ("Mul", "Mul*"):
                  Yrows = [U.gen_group(rng, name, eps, wide=0.12)[0] for _ in range(nb)]
                  Yt, Y64 = U.to_dtype_exact(Yrows, dtype)
                  Y = P.LieTensor(Yt.reshape(sb + (U.GDIM[name],)), ltype=U.ltype(name))
                  Y64 = Y64.reshape(sb + (U.GDIM[name],))
                  case["Y"] = Y64.tolist()
                  Z = (X @ Y) if op == "Mul" else (X * Y)
                  if type(Z).__name__ != "LieTensor" or Z.ltype != X.ltype or tuple(Z.shape[:-1]) != so or Z.dtype != X.dtype:
                      ctx.fail(case, f"type: {op} returned {type(Z).__name__} {tuple(Z.shape)} {Z.dtype}")
                      continue
                  Xe = X64.expand(so + (U.GDIM[name],)).reshape(-1, U.GDIM[name])
                  Ye = Y64.expand(so + (U.GDIM[name],)).reshape(-1, U.GDIM[name])
                  Zf = Z.tensor().detach().double().reshape(-1, U.GDIM[name])
                  if len(so) == 1:
                      rows_independent(ctx, case, f"the result of {op}", Z.clone() if False else (X @ Y if op == "Mul" else X * Y))
                  for i in range(Xe.shape[0]):
                      x, y = Xe[i].tolist(), Ye[i].tolist()
                      lines.append(U.model_call(f"{name}.Mul", eps, x + y))
                      metas.append(("group", case, name, dtype, Zf[i].tolist(), tscale_mul(name, x, y), True))
              elif op == "Inv":
                  Z = X.Inv()
                  Zf = Z.tensor().detach().double().reshape(-1, U.GDIM[name])
                  Xf = X64.reshape(-1, U.GDIM[name])
                  for i in range(Xf.shape[0]):
                      x = Xf[i].tolist()
                      _, t, s = blocks(name, x)
                      tsc = 1e-300 + (U.max_abs(t) * 3 / (s if s else 1.0) if t is not None else 1.0)
                      lines.append(U.model_call(f"{name}.Inv", eps, x))
                      metas.append(("group", case, name, dtype, Zf[i].tolist(), tsc, True))
              elif op in ("Act", "Act4", "Act4w0"):
                  d = 3 if op == "Act" else 4
                  prow = []
                  for _ in range(nb):
                      p = U.vec(rng, U.gen_mag(rng, eps, 1e3))
                      if d == 4:
                          p = p + [0.0 if op == "Act4w0" else rng.choice([1.0, 1.0, rng.uniform(-3, 3)])]
                      prow.append(p)
                  pt, p64 = U.to_dtype_exact(prow, dtype)
                  p = pt.reshape(sb + (d,))
                  p64 = p64.reshape(sb + (d,))
                  case["p"] = p64.tolist()
                  Z = X.Act(p)
                  if isinstance(Z, P.LieTensor) or tuple(Z.shape) != so + (d,):
                      ctx.fail(case, f"type: Act returned {type(Z).__name__} {tuple(Z.shape)}")
                      continue
                  Xe = X64.expand(so + (U.GDIM[name],)).reshape(-1, U.GDIM[name])
                  pe = p64.expand(so + (d,)).reshape(-1, d)
                  Zf = Z.detach().double().reshape(-1, d)
                  for i in range(Xe.shape[0]):
                      x, pp_ = Xe[i].tolist(), pe[i].tolist()
                      _, t, s = blocks(name, x)
                      sc = (s if s else 1.0) * U.max_abs(pp_[:3]) * 3 + (U.max_abs(t) * abs(pp_[3] if d == 4 else 1.0) if t is not None else 0.0)
                      lines.append(U.model_call(f"{name}.Act" + ("4" if d == 4 else ""), eps, x + pp_))
                      metas.append(("vec", case, name, dtype, Zf[i].tolist(), sc, None))
              elif op == "matrix":
                  M = X.matrix()
                  n = U.MATN[name]
                  if tuple(M.shape) != sa + (n, n):
                      ctx.fail(case, f"type: matrix() shape {tuple(M.shape)}")
                      continue
                  Mf = M.detach().double().reshape(-1, n * n)
                  Xf = X64.reshape(-1, U.GDIM[name])
                  for i in range(Xf.shape[0]):
                      x = Xf[i].tolist()
                      _, t, s = blocks(name, x)
                      sc = max(1.0, (s if s else 1.0), U.max_abs(t) if t is not None else 0.0)
                      lines.append(U.model_call(f"{name}.matrix", eps, x))
                      metas.append(("vec", case, name, dtype, Mf[i].tolist(), sc, None))
              elif op == "accessors":
                  ok = True
                  r = X.rotation()
                  ok &= r.ltype == P.SO3_type and torch.equal(r.tensor(), X.tensor()[..., U.QSL[name]])
                  if U.TSL[name] is not None:
                      ok &= torch.equal(X.translation(), X.tensor()[..., U.TSL[name]])
                  if U.SIDX[name] is not None:
                      ok &= torch.equal(X.scale(), X.tensor()[..., U.SIDX[name]:U.SIDX[name] + 1])
                  # blocks of matrix() are exactly what the accessors return
                  M = X.matrix().double()
                  R = X.rotation().matrix().double()
                  s = X.scale().double().unsqueeze(-1) if U.SIDX[name] is not None else 1.0
                  blk = M[..., :3, :3]
                  if not torch.allclose(blk, s * R, rtol=tol(dtype), atol=tol(dtype) * (float(torch.as_tensor(s).abs().max()) if X.numel() else 1.0)):
                      ok = False
                  if U.TSL[name] is not None and X.numel() and not torch.equal(M[..., :3, 3], X.translation().double()):
                      ok = False
                  if not ok:
                      ctx.fail(case, f"accessors: rotation/translation/scale do not match storage / matrix blocks ({name})")
              elif op == "identity":
                  ctor = {"SO3": P.identity_SO3, "SE3": P.identity_SE3, "RxSO3": P.identity_RxSO3, "Sim3": P.identity_Sim3}[name]
                  I = ctor(*sa, dtype=U.dt(dtype))
                  I2 = P.identity_like(X)
                  try:
                      X3 = X.clone().identity_()
                  except NotImplementedError:   # only SO3 implements the in-place constructor; a loud refusal is fine
                      X3 = I
                      ctx.count("identity_.not-implemented")
                  want = model_identity(ctx, name)      # the MODEL's identity constant (theorems *_one_mul / *_mul_one are about it)
                  wt = torch.tensor(want, dtype=U.dt(dtype)).expand(sa + (len(want),))
                  for nm, v in (("identity_" + name, I), ("identity_like", I2), ("identity_", X3)):
                      if v.ltype != X.ltype or not torch.equal(v.tensor(), wt):
                          ctx.fail(case, f"identity: {nm} is not the identity element of {name}")
                  # constructor outputs are ordinary batches: whole-batch and row-wise in-place updates must work
                  for nm, mk in (("identity_" + name, lambda: ctor(*sa, dtype=U.dt(dtype))), ("identity_like", lambda: P.identity_like(X))):
                      J = mk()
                      if J.numel():
                          a0 = torch.full(tuple(sa) + (U.ADIM[name],), 0.125, dtype=J.dtype)
                          try:
                              J.add_(a0)
                              ref = P.LieTensor(a0, ltype=getattr(P, U.ALG[name] + "_type")).Exp() @ mk().clone()
                              if gt(float((J.tensor() - ref.tensor()).abs().max()), 64 * torch.finfo(J.dtype).eps * 4):
                                  ctx.fail(case, f"identity: {nm}(...).add_(a) != Exp(a) @ identity for {name}")
                          except Exception as e:
                              ctx.fail(case, f"overlap: {nm}(...).add_(a) raised {type(e).__name__}: {str(e)[:100]}")
                      rows_independent(ctx, case, nm, mk().reshape(-1, U.GDIM[name]) if len(sa) != 1 else mk())
                  # neutral on both sides, bit-exact up to tolerance
                  for Z in (I @ X, X @ I):
                      if X.numel() and gt(float((Z.tensor() - X.tensor()).abs().max()), tol(dtype) * max(1.0, float(X.tensor().abs().max()))):
                          ctx.fail(case, f"identity: identity is not neutral for {name}")
        except Exception as e:
            ctx.fail(case, f"raises: {op} on {name} raised {type(e).__name__}: {str(e)[:150]}")
            continue
        if not torch.equal(X.tensor().detach(), x_before):
            ctx.fail(case, f"mutation: {op} on {name} changed its LieTensor argument (layout {layout})")
        ctx.count(f"ops.layout.{layout}")
        ctx.note_case(sig, True)
        ctx.sample({k: case[k] for k in ("op", "type", "dtype", "shape_a", "shape_b")} | {"regimes": tags[:3]}, cap=8)
    reps = ctx.driver.run(lines)
    for rep, (kind, case, name, dtype, got, sc, fs) in zip(reps, metas):
        want = U.fl(common.reply_nums(rep))
        if kind == "group":
            cmp_group(ctx, "ops", case, name, got, want, dtype, sc, fix_sign=bool(fs))
        else:
            cmp_vec(ctx, "ops", case, got, want, dtype, sc)


# ----------------------------------------------------------------------------- laws (oracle on the real code)

def tdist(name, A, B):
    """transformation distance between LieTensors (float64): quaternion sign-free, other blocks relative"""
    a, b = A.tensor().double(), B.tensor().double()
    qa, qb = a[..., U.QSL[name]], b[..., U.QSL[name]]
    d = torch.minimum((qa - qb).norm(dim=-1), (qa + qb).norm(dim=-1))
    if U.TSL[name] is not None:
        ta, tb = a[..., U.TSL[name]], b[..., U.TSL[name]]
        d = torch.maximum(d, (ta - tb).abs().amax(-1))
    if U.SIDX[name] is not None:
        i = U.SIDX[name]
        d = torch.maximum(d, (a[..., i] - b[..., i]).abs() / b[..., i].abs())
    return d


def law_case(ctx: Ctx, case) -> bool:
    """evaluate every group law on the real code for the three elements / points in `case`"""
    P = U.pp()
    name, dtype = case["type"], case["dtype"]
    D = U.dt(dtype)
    X, Y, Z = (U.lt(name, case[k], D) for k in ("X", "Y", "Z"))
    p3 = torch.tensor(case["p3"], dtype=D)
    p4 = torch.tensor(case["p4"], dtype=D)
    t0 = tol(dtype)
    n0 = len(ctx.failures)

    def tsum(*Ls):
        """sum of the magnitudes of the terms of the product's translation: |t_1| + s_1|t_2| + s_1 s_2|t_3| + …"""
        S, T = 1.0, 0.0
        for L in Ls:
            v = L.tensor().double()
            t = float(v[..., U.TSL[name]].norm(dim=-1).max()) if U.TSL[name] is not None else 0.0
            sc = float(v[..., U.SIDX[name]].abs().max()) if U.SIDX[name] is not None else 1.0
            T += S * t
            S *= sc
        return T

    def smax(*Ls):
        r = 1.0
        for L in Ls:
            if U.SIDX[name] is not None:
                s = float(L.tensor().double()[..., U.SIDX[name]].max())
                r *= max(s, 1.0 / s)
        return r
    try:
        sq1, sq2 = X @ X, X @ X.clone()      # the same object passed as both operands
        if not torch.equal(sq1.tensor(), sq2.tensor()):
            ctx.fail(case, f"alias: X@X differs from X@X.clone() for {name} ({dtype})")
        a = (X @ Y) @ Z
        b = X @ (Y @ Z)
        # per block: quaternion and scale are compared relatively (no magnitude factor); the translation of a product is
        # t_X + s_X R_X t_Y + s_X s_Y R_XY t_Z, so its rounding error scales with the sum of the magnitudes of these terms
        av, bv = a.tensor().double(), b.tensor().double()
        dq = float(torch.minimum((av[..., U.QSL[name]] - bv[..., U.QSL[name]]).norm(dim=-1),
                                 (av[..., U.QSL[name]] + bv[..., U.QSL[name]]).norm(dim=-1)).max())
        ds = float(((av[..., U.SIDX[name]] - bv[..., U.SIDX[name]]).abs() / bv[..., U.SIDX[name]].abs()).max()) if U.SIDX[name] is not None else 0.0
        dtr = float((av[..., U.TSL[name]] - bv[..., U.TSL[name]]).abs().max()) if U.TSL[name] is not None else 0.0
        if gt(dq, 4 * t0) or gt(ds, 4 * t0) or gt(dtr, 4 * t0 * tsum(X, Y, Z)):
            ctx.fail(case, f"assoc: (X@Y)@Z != X@(Y@Z) for {name} ({dtype}): quaternion {dq:.2e}, scale {ds:.2e}, "
                           f"translation {dtr:.2e} (translation terms sum to {tsum(X, Y, Z):.2e})")
        I = P.identity_like(X)
        xv = X.tensor().double()
        tmag = float(xv[..., U.TSL[name]].abs().max()) if U.TSL[name] is not None else 0.0
        sinv = max(1.0, 1.0 / float(xv[..., U.SIDX[name]].min())) if U.SIDX[name] is not None else 1.0
        for nm, v in (("X@Inv(X)", X @ X.Inv()), ("Inv(X)@X", X.Inv() @ X)):
            vv = v.tensor().double()
            dq = float(torch.minimum((vv[..., U.QSL[name]] - I.tensor().double()[..., U.QSL[name]]).norm(dim=-1),
                                     (vv[..., U.QSL[name]] + I.tensor().double()[..., U.QSL[name]]).norm(dim=-1)).max())
            ds = float((vv[..., U.SIDX[name]] - 1).abs().max()) if U.SIDX[name] is not None else 0.0
            dtr = float(vv[..., U.TSL[name]].abs().max()) if U.TSL[name] is not None else 0.0
            if gt(dq, 4 * t0) or gt(ds, 4 * t0) or gt(dtr, 4 * t0 * (1 + tmag * sinv)):
                ctx.fail(case, f"inverse: {nm} != identity for {name} ({dtype}): quaternion {dq:.2e}, scale {ds:.2e}, translation {dtr:.2e}")
        Mx, My, Mxy = X.matrix().double(), Y.matrix().double(), (X @ Y).matrix().double()
        sc = float(Mx.abs().max()) * float(My.abs().max()) * 4 + 1
        if gt(float((Mx @ My - Mxy).abs().max()), 4 * t0 * sc):
            ctx.fail(case, f"homomorphism: matrix(X@Y) != matrix(X)matrix(Y) for {name} ({dtype}): {float((Mx @ My - Mxy).abs().max()):.3e}")
        n = U.MATN[name]
        if n == 3:
            ax = (Mx @ p3.double().unsqueeze(-1)).squeeze(-1)
        else:
            ax = (Mx[..., :3, :3] @ p3.double().unsqueeze(-1)).squeeze(-1) + Mx[..., :3, 3]
        psc = float(Mx.abs().max()) * (float(p3.abs().max()) + 1) * 4
        if gt(float((X.Act(p3).double() - ax).abs().max()), 4 * t0 * psc):
            ctx.fail(case, f"action3: Act(X,p) != matrix(X)·p for {name} ({dtype})")
        M4 = Mx if n == 4 else torch.block_diag(Mx, torch.ones(1, 1, dtype=torch.float64))
        a4 = (M4 @ p4.double().unsqueeze(-1)).squeeze(-1)
        psc4 = float(M4.abs().max()) * (float(p4.abs().max()) + 1) * 4
        if gt(float((X.Act(p4).double() - a4).abs().max()), 4 * t0 * psc4):
            ctx.fail(case, f"action4: Act(X,p4) != matrix4(X)·p4 for {name} ({dtype}), w={case['p4'][-1]}")
        lhs, rhs = (X @ Y).Act(p3).double(), X.Act(Y.Act(p3)).double()
        if gt(float((lhs - rhs).abs().max()), 4 * t0 * (sc * (float(p3.abs().max()) + 1))):
            ctx.fail(case, f"compose: (X@Y).Act(p) != X.Act(Y.Act(p)) for {name} ({dtype})")
        lhs, rhs = (X @ Y).Act(p4).double(), X.Act(Y.Act(p4)).double()
        if gt(float((lhs - rhs).abs().max()), 4 * t0 * (sc * (float(p4.abs().max()) + 1))):
            ctx.fail(case, f"compose4: (X@Y).Act(p4) != X.Act(Y.Act(p4)) for {name} ({dtype})")
        for nm, v in (("X@Y", X @ Y), ("Inv(X)", X.Inv())):
            q = v.tensor().double()[..., U.QSL[name]]
            if gt(float((q.norm(dim=-1) - 1).abs().max()), 8 * common.EPS[dtype]):
                ctx.fail(case, f"valid: {nm} is not a unit quaternion for {name} ({dtype})")
            if U.SIDX[name] is not None and not bool((v.tensor()[..., U.SIDX[name]] > 0).all()):
                ctx.fail(case, f"valid: {nm} has non-positive scale for {name}")
    except Exception as e:
        ctx.fail(case, f"raises: law evaluation on {name} raised {type(e).__name__}: {str(e)[:150]}")
    return len(ctx.failures) == n0


def run_laws(ctx: Ctx, n_cases: int):
    rng = ctx.rng
    for ci in range(n_cases):
        name = rng.choice(U.GROUPS)
        dtype = rng.choice(["float64", "float64", "float32"])
        eps = common.EPS[dtype]
        els, tags = [], []
        for _ in range(3):
            g, tg = U.gen_group(rng, name, eps, thi=100.0, shi=4.0, wide=0.1)
            els.append(U.to_dtype_exact([g], dtype)[1][0].tolist())
            tags.append(tg)
        p3 = U.vec(rng, U.gen_mag(rng, eps, 100.0))
        p4 = U.vec(rng, U.gen_mag(rng, eps, 100.0)) + [rng.choice([0.0, 1.0, rng.uniform(-2, 2)])]
        case = {"stream": "laws", "type": name, "dtype": dtype, "X": els[0], "Y": els[1], "Z": els[2], "p3": p3, "p4": p4}
        law_case(ctx, case)
        ctx.note_case(("laws", name, dtype, tuple(tags)), True)
        ctx.count(f"laws.{name}.{dtype}")
    ctx.sample({"stream": "laws", "example": case}, cap=9)


# ----------------------------------------------------------------------------- mixed batches (round 6: C03-6, C01-6)

def _degenerate(rng, name, g, kind):
    """an exactly degenerate variant of the element `g` (list): identity rotation / scale exactly 1 / zero translation / identity"""
    g = list(g)
    if kind in ("rot", "all"):
        g[U.QSL[name]] = [0.0, 0.0, 0.0, 1.0]
    if kind in ("scale", "all") and U.SIDX[name] is not None:
        g[U.SIDX[name]] = 1.0
    if kind in ("trans", "all") and U.TSL[name] is not None:
        g[U.TSL[name]] = [0.0, 0.0, 0.0]
    return g


def _act_oracle(name, x, p):
    """s R(q) p[:3] + w t in float64 from the raw components (independent of pypose)"""
    q = x[U.QSL[name]]
    qx, qy, qz, qw = q
    R = [[1 - 2 * (qy * qy + qz * qz), 2 * (qx * qy - qz * qw), 2 * (qx * qz + qy * qw)],
         [2 * (qx * qy + qz * qw), 1 - 2 * (qx * qx + qz * qz), 2 * (qy * qz - qx * qw)],
         [2 * (qx * qz - qy * qw), 2 * (qy * qz + qx * qw), 1 - 2 * (qx * qx + qy * qy)]]
    sc = x[U.SIDX[name]] if U.SIDX[name] is not None else 1.0
    t = x[U.TSL[name]] if U.TSL[name] is not None else [0.0, 0.0, 0.0]
    w = p[3] if len(p) == 4 else 1.0
    out = [sc * sum(R[i][k] * p[k] for k in range(3)) + w * t[i] for i in range(3)]
    return out + ([p[3]] if len(p) == 4 else [])


def mixed_batch_case(ctx: Ctx, case) -> bool:
    """a batch in which a few (or most) items are EXACTLY degenerate (identity rotation, scale 1, zero translation) and the rest
    generic, in a contiguous or permuted layout: every item of every batched result must equal the same operation on that item
    alone, and Act must be s R p + w t (float64 oracle from the raw components)."""
    n0 = len(ctx.failures)
    P = U.pp()
    name, dtype, shape, layout = case["type"], case["dtype"], tuple(case["shape"]), case["layout"]
    D = U.dt(dtype)
    eps = common.EPS[dtype]
    N = math.prod(shape)
    Xt, X64 = U.to_dtype_exact(case["X"], dtype)
    Yt, _ = U.to_dtype_exact(case["Y"], dtype)
    pt, p64 = U.to_dtype_exact(case["p"], dtype)
    d = len(case["p"][0])

    def lay(t):
        t = t.reshape(shape + (t.shape[-1],))
        if layout == "contig" or len(shape) < 2:
            return t
        perm = list(range(len(shape)))[::-1] + [len(shape)]
        stor = t.permute(perm).contiguous()          # storage in the reversed order of the batch dims ...
        return stor.permute(perm)                    # ... viewed back: same values, permuted strides
    X = P.LieTensor(lay(Xt), ltype=U.ltype(name))
    Y = P.LieTensor(lay(Yt), ltype=U.ltype(name))
    p = lay(pt)
    try:
        outs = {"Act": X.Act(p), "matrix": X.matrix(), "Inv": X.Inv().tensor(), "Mul": (X @ Y).tensor()}
        G, n = U.GDIM[name], U.MATN[name]
        flat = {"Act": outs["Act"].reshape(N, d), "matrix": outs["matrix"].reshape(N, n * n),
                "Inv": outs["Inv"].reshape(N, G), "Mul": outs["Mul"].reshape(N, G)}
        for i in range(N):
            Xi = P.LieTensor(Xt[i].clone(), ltype=U.ltype(name))
            Yi = P.LieTensor(Yt[i].clone(), ltype=U.ltype(name))
            single = {"Act": Xi.Act(pt[i].clone()).reshape(d), "matrix": Xi.matrix().reshape(n * n),
                      "Inv": Xi.Inv().tensor().reshape(G), "Mul": (Xi @ Yi).tensor().reshape(G)}
            for op in flat:
                a, b = flat[op][i].double(), single[op].double()
                if not bool(torch.isfinite(a).all()):
                    ctx.fail(case | {"item": i, "op": op}, f"non-finite: item {i} of the batched {op} on {name} ({dtype}, {layout} {shape}) is not finite")
                    continue
                lim = 8 * eps * (1.0 + float(b.abs().max()))
                if gt(float((a - b).abs().max()), lim):
                    ctx.fail(case | {"item": i, "op": op},
                             f"batch-item: item {i} of the batched {op} on {name} ({dtype}, layout {layout}, lshape {shape}, "
                             f"{case['mix']}) differs from the same operation on that item alone by {float((a - b).abs().max()):.3e} (allowed {lim:.1e}); "
                             f"item = {X64[i].tolist()}")
                    break
            want = _act_oracle(name, X64[i].tolist(), p64[i].tolist())
            got = flat["Act"][i].double().tolist()
            sc = 1.0 + max(abs(v) for v in want)
            if gt(max(abs(g_ - w_) for g_, w_ in zip(got, want)), 64 * eps * sc * (1 + max(abs(v) for v in X64[i].tolist()))):
                ctx.fail(case | {"item": i, "op": "Act"},
                         f"action{d}: item {i} of the batched Act on {name} ({dtype}, layout {layout}, lshape {shape}, {case['mix']}) is not "
                         f"s R p + w t: got {got}, want {want}; item = {X64[i].tolist()}")
                break
    except Exception as e:
        ctx.fail(case, f"raises: mixed batch on {name} raised {type(e).__name__}: {str(e)[:150]}")
    return len(ctx.failures) == n0


def run_mixed_batches(ctx: Ctx):
    rng = ctx.rng
    shapes = [(16,), (6, 4), (2, 3, 4)] if ctx.quick else [(16,), (33,), (6, 4), (9, 5), (2, 3, 4), (4, 4, 4)]
    for name in U.GROUPS:
        for dtype in ("float64", "float32"):
            eps = common.EPS[dtype]
            for shape in shapes:
                N = math.prod(shape)
                for layout in (("contig", "permuted") if len(shape) > 1 else ("contig",)):
                    for mix, ndeg in (("one degenerate", 1), ("few degenerate", max(2, N // 10)), ("most degenerate", N - 2)):
                        kinds = [k for k in ("rot", "scale", "trans", "all") if not (k == "scale" and U.SIDX[name] is None)
                                 and not (k == "trans" and U.TSL[name] is None)]
                        kind = rng.choice(kinds)
                        deg = set(rng.sample(range(N), ndeg))
                        X, Y = [], []
                        for i in range(N):
                            gx = U.gen_group(rng, name, eps, thi=10.0, shi=2.0)[0]
                            gy = U.gen_group(rng, name, eps, thi=10.0, shi=2.0)[0]
                            X.append(_degenerate(rng, name, gx, kind) if i in deg else gx)
                            Y.append(_degenerate(rng, name, gy, rng.choice(kinds)) if (i + 1) % N in deg else gy)
                        d = rng.choice([3, 4])
                        p = [U.vec(rng, 1.0 + 9 * rng.random()) + ([rng.choice([0.0, 1.0, rng.uniform(-2, 2)])] if d == 4 else []) for _ in range(N)]
                        case = {"stream": "mixed", "type": name, "dtype": dtype, "shape": list(shape), "layout": layout,
                                "mix": f"{mix}: {kind} on items {sorted(deg)[:6]}", "X": X, "Y": Y, "p": p}
                        mixed_batch_case(ctx, case)
                        ctx.note_case(("mixed", name, dtype, shape, layout, mix, kind), True)
                        ctx.count(f"mixed.{layout}")


# ----------------------------------------------------------------------------- retraction validity ladder

def retr_ladder_case(ctx: Ctx, case) -> bool:
    """Retr / + / add_ by a tangent vector of a given rotation angle must return a unit quaternion up to round-off"""
    P = U.pp()
    name, dtype, theta = case["type"], case["dtype"], case["theta"]
    D = U.dt(dtype)
    eps = common.EPS[dtype]
    n0 = len(ctx.failures)
    X = U.lt(name, [case["X"]], D)
    ax = case["axis"]
    nrm = math.sqrt(sum(v * v for v in ax))
    a = [0.0] * U.ADIM[name]
    for i, v in zip(range(U.PHISL[name].start, U.PHISL[name].stop), ax):
        a[i] = theta * v / nrm
    A = P.LieTensor(torch.tensor([a], dtype=D), ltype=getattr(P, U.ALG[name] + "_type"))
    try:
        outs = {"Retr": X.Retr(A), "+": X + A.tensor(), "add_": X.clone().add_(A.tensor()), "Exp@": A.Exp() @ X}
    except Exception as e:
        ctx.fail(case, f"raises: retraction raised {type(e).__name__}: {str(e)[:120]}")
        return False
    for nm, Y in outs.items():
        q = Y.tensor()[0].tolist()[U.QSL[name]]
        if not all(math.isfinite(v) for v in Y.tensor()[0].tolist()):
            ctx.fail(case | {"spelling": nm}, f"non-finite: {nm} by a rotation of {theta:.6g} rad returned a non-finite element ({name}, {dtype})")
            continue
        n2 = sum(Fraction(v) ** 2 for v in q)
        defect = abs(float(n2) - 1.0) / 2 / eps
        if gt(defect, GAMMA_EPS):
            ctx.fail(case | {"spelling": nm}, f"valid: {nm} by a rotation of {theta:.6g} rad leaves the unit sphere by {defect:.1f} eps ({name}, {dtype})")
    return len(ctx.failures) == n0


def ident(name):
    x = [0.0] * U.GDIM[name]
    x[U.QSL[name].stop - 1] = 1.0
    if U.SIDX[name] is not None:
        x[U.SIDX[name]] = 1.0
    return x


def retr_ladder(quick=True):
    th = [0.0, 1e-300, 1e-30, 1e-17, 1e-9, 1e-8, 2e-8, 1e-7, 1e-6, 1e-5, 1e-4, 3e-4, 1e-3, 3e-3, 0.01, 0.02, 0.025, 0.03, 0.035, 0.04, 0.045,
          0.049, 0.0499, 0.05, 0.0501, 0.06, 0.08, 0.1, 0.2, 0.3, 0.5, 0.7, 1.0, 1.5, 2.0, 3.0, 3.14159, 3.2, 4.0, 6.0, 6.28, 7.0, 20.0]
    if not quick:
        th += [10 ** (-8 + 8 * k / 160) for k in range(161)]
    return th


def run_retr_ladder(ctx: Ctx):
    k = 0
    for name in U.GROUPS:
        for dtype in ("float64", "float32"):
            eps = common.EPS[dtype]
            th = retr_ladder(ctx.quick) + [eps * f for f in (0.5, 1.0, 2.0, 1e3)] + [math.sqrt(eps), eps ** 0.25]
            for theta in th:
                k += 1
                X = ident(name) if k % 3 == 0 else U.to_dtype_exact([U.gen_group(__import__("random").Random(k), name, eps, thi=2.0, shi=0.3)[0]], dtype)[1][0].tolist()
                case = {"stream": "retrvalid", "type": name, "dtype": dtype, "theta": theta, "X": X,
                        "axis": [(1.0, 0.0, 0.0), (0.3, -0.5, 0.8), (0.0, 0.0, -1.0)][k % 3]}
                retr_ladder_case(ctx, case)
                ctx.note_case(("retrvalid", name, dtype, theta), theta != 0.0)
                ctx.count(f"retrvalid.{name}.{dtype}")


# ----------------------------------------------------------------------------- classes 19, 20, 23, 25 (round-4 lessons)

def _rand_batch(name, n, D, seed):
    # (observation on /repo, outside every property: randn_se3 / SE3 / sim3 / Sim3 raise for the documented `generator=`
    # keyword — it is forwarded to torch.tensor; so the global RNG is forked and seeded instead)
    P = U.pp()
    with torch.random.fork_rng():
        torch.manual_seed(seed)
        X = getattr(P, "randn_" + name)(n, dtype=D)
    return X


def _close(a, b, D, scale=1.0):
    eps = torch.finfo(D).eps
    return bool(((a.double() - b.double()).abs() <= 8 * eps * (scale + b.double().abs())).all())


def run_large(ctx: Ctx):
    """(19) batches around internal block sizes: 2^k, 2^k+-1 elements; oracle = split consistency (the batch result must be
    the concatenation of the results on two pieces) and the single-item call on first / last / a middle item"""
    P = U.pp()
    sizes = [2 ** 14, 2 ** 14 + 1, 2 ** 16 + 1, 2 ** 18 + 37] if ctx.quick else [2 ** k + d for k in (12, 14, 16, 17, 18) for d in (-1, 0, 1)] + [2 ** 18 + 37, 2 ** 20 + 1]
    for name in U.GROUPS:
        for D in (torch.float64, torch.float32):
            for n in sizes:
                case = {"stream": "large", "type": name, "dtype": str(D).split(".")[-1], "n": n}
                X, Y = _rand_batch(name, n, D, 3 * n + 1), _rand_batch(name, n, D, 3 * n + 2)
                p3 = torch.randn(n, 3, dtype=D, generator=torch.Generator().manual_seed(n))
                fns = {"Mul": lambda A, B, q: (A @ B).tensor(), "Inv": lambda A, B, q: A.Inv().tensor(), "Act": lambda A, B, q: A.Act(q),
                       "matrix": lambda A, B, q: A.matrix().flatten(-2), "Retr": lambda A, B, q: (A + B.Log().tensor()).tensor()}
                cut = n // 3 + 1
                for nm, f in fns.items():
                    try:
                        whole = f(X, Y, p3)
                        parts = torch.cat([f(X[:cut], Y[:cut], p3[:cut]), f(X[cut:], Y[cut:], p3[cut:])], 0)
                        tsc = float(X.tensor().abs().max()) * float(Y.tensor().abs().max()) + float(p3.abs().max())
                        if whole.shape != parts.shape or not _close(whole, parts, D, tsc):
                            bad = int((~((whole.double() - parts.double()).abs() <= 8 * torch.finfo(D).eps * (tsc + parts.double().abs())).all(-1)).nonzero()[0]) \
                                if whole.shape == parts.shape else -1
                            ctx.fail(case | {"op": nm}, f"split: {nm} on a batch of {n} {name} elements differs from the same call on two pieces (first bad item {bad})")
                        for i in (0, n // 2, n - 1):
                            one = f(X[i:i + 1], Y[i:i + 1], p3[i:i + 1])
                            if not _close(whole[i:i + 1], one, D, tsc):
                                ctx.fail(case | {"op": nm, "item": i}, f"item: {nm} item {i} of a batch of {n} differs from the single-item call ({name})")
                    except Exception as e:
                        ctx.fail(case | {"op": nm}, f"raises: {nm} on a batch of {n} raised {type(e).__name__}: {str(e)[:100]}")
                ctx.note_case(("large", name, str(D), n), True)
                ctx.count("large")


def run_interleave(ctx: Ctx):
    """(32) module-level constants written in place by ANOTHER operation: the same calls before and after a history of
    every other public operation (forward and backward, SINGLE-ITEM and batched, every type, both dtypes) must agree bit
    for bit (a cached identity handed out without a copy for single items poisons matrix()/Act for the whole process)"""
    P = U.pp()

    def reads():
        out = []
        for name in U.GROUPS:
            for D in (torch.float64, torch.float32):
                for n in (1, 3):
                    X, Y = _rand_batch(name, n, D, 50 + n), _rand_batch(name, n, D, 60 + n)
                    p3, p4 = torch.ones(n, 3, dtype=D) * 0.5, torch.tensor([[0.5, -1.0, 2.0, 1.0]] * n, dtype=D)
                    out += [(X @ Y).tensor(), X.Inv().tensor(), X.Act(p3), X.Act(p4), X.matrix(), X.rotation().tensor(),
                            (X + Y.Log().tensor()).tensor(), P.identity_like(X, dtype=D).tensor(), X[0].matrix(), X[0].Act(p3[0])]
        return [o.detach().clone() for o in out]

    first = reads()
    # the history of "other" operations, single items first (the degenerate shapes), with backward passes
    for name in U.GROUPS:
        for D in (torch.float64, torch.float32):
            for n in (1, 2):
                shapes = [(), (1,), (1, 1)] if n == 1 else [(2,)]
                for shp in shapes:
                    try:
                        X = _rand_batch(name, max(1, n), D, 70 + n)
                        X = X[0] if shp == () else (X.reshape(shp + (X.shape[-1],)) if n == 1 else X)
                        X = P.LieTensor(X.tensor().clone().requires_grad_(True), ltype=X.ltype)
                        a = X.Log()
                        p3 = torch.ones(X.shape[:-1] + (3,), dtype=D)
                        p4 = torch.ones(X.shape[:-1] + (4,), dtype=D)
                        terms = [X.Adj(a).tensor().sum(), X.AdjT(a).tensor().sum(), X.Act(p3).sum(), X.Act(p4).sum(),
                                 (X @ X).tensor().sum(), X.Inv().tensor().sum(), X.matrix().sum(), a.Exp().tensor().sum(),
                                 X.Jinvp(a).tensor().sum(), a.matrix().sum() if hasattr(a, "matrix") else a.tensor().sum()]
                        sum(terms).backward()
                    except Exception as e:   # an operation that is not defined for this type / shape is not our subject here
                        ctx.count(f"interleave.skip.{type(e).__name__}")
    second = reads()
    bad = [i for i, (a, b) in enumerate(zip(first, second)) if a.shape != b.shape or not torch.equal(a, b)]
    ctx.note_case(("interleave",), True)
    ctx.count("interleave")
    if bad:
        ctx.fail({"stream": "interleave", "first_differing_read": bad[0], "reads_per_block": 10},
                 f"interleave: {len(bad)} of {len(first)} reads (Mul/Inv/Act/Act4/matrix/rotation/Retr/identity_like, batched and single item) "
                 f"changed after a history of other operations on single items and small batches with backward passes "
                 f"(first differing read #{bad[0]}: type {U.GROUPS[bad[0] // 40]}, max diff {float((first[bad[0]].double() - second[bad[0]].double()).abs().max()) if first[bad[0]].shape == second[bad[0]].shape else 'shape'})")


def run_ties(ctx: Ctx):
    """(20) exact coincidences: quarter turns (|v| == |w| bit for bit), equal components, half turns, scale exactly 1,
    translation exactly 0 — every law on the real code"""
    s = math.sqrt(0.5)
    quats = [[s, 0, 0, s], [0, s, 0, -s], [0, 0, -s, s], [0.5, 0.5, 0.5, 0.5], [-0.5, 0.5, -0.5, 0.5], [0.5, -0.5, -0.5, -0.5],
             [1.0, 0, 0, 0], [0, 0, 1.0, 0], [0, 0, 0, -1.0], [s, s, 0, 0]]
    k = 0
    for name in U.GROUPS:
        for dtype in ("float64", "float32"):
            for qa in quats:
                for qb in quats[::3]:
                    k += 1
                    def el(q, t, sc):
                        x = [0.0] * U.GDIM[name]
                        x[U.QSL[name]] = q
                        if U.TSL[name] is not None:
                            x[U.TSL[name]] = t
                        if U.SIDX[name] is not None:
                            x[U.SIDX[name]] = sc
                        return U.to_dtype_exact([x], dtype)[1][0].tolist()
                    case = {"stream": "laws", "type": name, "dtype": dtype, "X": el(qa, [0.0, 0.0, 0.0], 1.0), "Y": el(qb, [1.0, -2.0, 0.5], 2.0),
                            "Z": el(qa, [1.0, 1.0, 1.0], 0.5), "p3": [1.0, 1.0, 1.0], "p4": [1.0, -1.0, 1.0, [0.0, 1.0][k % 2]]}
                    law_case(ctx, case)
                    ctx.note_case(("ties", name, dtype, k), True)
                    ctx.count("ties")


def run_mode_order(ctx: Ctx):
    """(23) the first call of a shape happens under inference_mode / no_grad, later calls track gradients: values must
    not depend on the order of modes (module-level caches keyed by shape/dtype)"""
    import contextlib
    P = U.pp()
    k = 0
    for name in U.GROUPS:
        for D in (torch.float64, torch.float32):
            for order in (("inference", "grad", "plain"), ("no_grad", "grad", "inference"), ("grad", "inference", "plain")):
                k += 1
                n = 40 + k          # a batch extent no other stream uses
                X, Y = _rand_batch(name, n, D, 7 * k), _rand_batch(name, n, D, 7 * k + 1)
                p3 = torch.randn(n, 3, dtype=D, generator=torch.Generator().manual_seed(k))
                ref = None
                case = {"stream": "modes", "type": name, "dtype": str(D).split(".")[-1], "order": list(order), "n": n}
                for mode in order:
                    cm = {"inference": torch.inference_mode, "no_grad": torch.no_grad}.get(mode, contextlib.nullcontext)
                    try:
                        with cm():
                            A = X.clone()
                            if mode == "grad":
                                A.requires_grad_(True)
                            outs = [(A @ Y).tensor(), A.Inv().tensor(), A.Act(p3), A.matrix(), (A + Y.Log().tensor()).tensor()]
                            if mode == "grad":
                                sum(o.sum() for o in outs).backward()
                                if A.grad is None or not bool(torch.isfinite(A.grad).all()):
                                    ctx.fail(case | {"mode": mode}, f"grad: no finite gradient after the modes {order[:order.index(mode)]} came first ({name})")
                            outs = [o.detach().clone() for o in outs]
                    except Exception as e:
                        ctx.fail(case | {"mode": mode}, f"raises: under mode '{mode}' after {order[:order.index(mode)]}: {type(e).__name__}: {str(e)[:100]}")
                        break
                    if ref is None:
                        ref = outs
                    elif not all(torch.equal(a, b) for a, b in zip(ref, outs)):
                        ctx.fail(case | {"mode": mode}, f"mode: values under '{mode}' differ from the first mode of the order {order} ({name})")
                ctx.note_case(("modes", name, str(D), order), True)
                ctx.count("modes")


def run_default_dtype(ctx: Ctx):
    """(25) process-wide default dtype different from the operand dtype: result dtype / ltype / shape are the operand's"""
    P = U.pp()
    old = torch.get_default_dtype()
    try:
        for default in (torch.float64, torch.float32):
            torch.set_default_dtype(default)
            for name in U.GROUPS:
                for D in (torch.float32, torch.float64):
                    X, Y = _rand_batch(name, 3, D, 11), _rand_batch(name, 3, D, 12)
                    p3 = torch.ones(3, 3, dtype=D)
                    p4 = torch.ones(3, 4, dtype=D)
                    case = {"stream": "default-dtype", "type": name, "dtype": str(D), "default": str(default)}
                    outs = {"Mul": X @ Y, "Inv": X.Inv(), "Act": X.Act(p3), "Act4": X.Act(p4), "matrix": X.matrix(), "rotation": X.rotation(),
                            "identity_like": P.identity_like(X), "Retr": X + Y.Log().tensor(), "Log": X.Log(), "Exp(Log)": X.Log().Exp()}
                    if U.TSL[name] is not None:
                        outs["translation"] = X.translation()
                    if U.SIDX[name] is not None:
                        outs["scale"] = X.scale()
                    for nm, v in outs.items():
                        # identity_like documents "dtype: if None, uses a global default" — it follows the process default
                        want_dt = default if nm == "identity_like" else D
                        if v.dtype != want_dt:
                            ctx.fail(case | {"op": nm}, f"dtype: {nm} of a {D} {name} element returns {v.dtype} under default dtype {default}")
                    ctx.note_case(("default-dtype", name, str(D), str(default)), True)
                    ctx.count("default-dtype")
    finally:
        torch.set_default_dtype(old)


# ----------------------------------------------------------------------------- history stream

def run_history(ctx: Ctx, n_hist: int, length: int):
    """model (192-bit) and code (float) stepped together through the same operation history"""
    rng = ctx.rng
    P = U.pp()
    for hi in range(n_hist):
        name = rng.choice(U.GROUPS)
        dtype = rng.choice(["float64", "float32"]) if hi % 3 else "float64"
        eps = common.EPS[dtype]
        D = U.dt(dtype)
        g, _ = U.gen_group(rng, name, eps, thi=1.0, shi=0.5)
        X = U.lt(name, [g], D)
        x_model = X.tensor().double()[0].tolist()
        case = {"stream": "history", "type": name, "dtype": dtype, "length": length, "hist_seed": hi}
        seq = []
        logs = math.log(g[U.SIDX[name]]) if U.SIDX[name] is not None else 0.0   # keep the scale walk mean-reverting
        for step in range(length):
            kind = rng.choice(["mulL", "mulR", "inv", "retr", "add_", "add"])
            if kind in ("mulL", "mulR"):
                y, _ = U.gen_group(rng, name, eps, thi=0.5, shi=0.2)
                if U.SIDX[name] is not None:
                    ly = math.log(y[U.SIDX[name]])
                    if abs(logs + ly) > 1.0 and abs(logs + ly) > abs(logs):
                        y[U.SIDX[name]] = 1.0 / y[U.SIDX[name]]
                        ly = -ly
                    logs += ly
                y = U.to_dtype_exact([y], dtype)[1][0].tolist()
                seq.append((kind, y))
            elif kind == "inv":
                logs = -logs
                seq.append((kind, None))
            else:
                a, _ = U.gen_algebra(rng, name, eps, big=False, thi=0.5, shi=0.2)
                if rng.random() < 0.3:  # tiny tangent vectors: the Taylor branches
                    a = [v * rng.choice([1e-9, 1e-17, 1e-30]) for v in a]
                if U.SIGIDX[name] is not None:
                    la = a[U.SIGIDX[name]]
                    if abs(logs + la) > 1.0 and abs(logs + la) > abs(logs):
                        a[U.SIGIDX[name]] = -la
                        la = -la
                    logs += la
                a = U.to_dtype_exact([a], dtype)[1][0].tolist()
                seq.append((kind, a))
        # implementation: ONE persistent object is updated in place (copy_/add_) through the whole history and its
        # accessors are re-read along the way: every read must describe the element's CURRENT state, i.e. equal
        # the same call on a fresh clone bit for bit (stale caches / memoised views are history bugs)
        p_probe = torch.tensor([[0.4, -1.1, 0.8]], dtype=D)
        stale = None

        def reads(obj):
            out = {"matrix": obj.matrix(), "rotation": obj.rotation().tensor(), "Act": obj.Act(p_probe),
                   "Inv": obj.Inv().tensor(), "tensor": obj.tensor()}
            if U.TSL[name] is not None:
                out["translation"] = obj.translation()
            if U.SIDX[name] is not None:
                out["scale"] = obj.scale()
            return out
        try:
            Xi = X.clone()
            states = [Xi.tensor().double()[0].tolist()]
            for step, (kind, arg) in enumerate(seq):
                if kind == "mulL":
                    Xi.copy_(U.lt(name, [arg], D) @ Xi)
                elif kind == "mulR":
                    Xi.copy_(Xi @ U.lt(name, [arg], D))
                elif kind == "inv":
                    Xi.copy_(Xi.Inv())
                elif kind == "retr":
                    Xi.copy_(Xi.Retr(P.LieTensor(torch.tensor([arg], dtype=D), ltype=getattr(P, U.ALG[name] + "_type"))))
                elif kind == "add_":
                    Xi.add_(torch.tensor([arg + [7.0]], dtype=D))  # extra component must be ignored
                else:
                    Xi.copy_(Xi + torch.tensor([arg], dtype=D))
                states.append(Xi.tensor().double()[0].tolist())
                if stale is None and (step < 8 or step % 37 == 0 or step == length - 1):
                    a, b = reads(Xi), reads(Xi.clone())
                    for kk in a:
                        if not torch.equal(torch.nan_to_num(a[kk]), torch.nan_to_num(b[kk])):
                            stale = (step, kind, kk, float((a[kk].double() - b[kk].double()).abs().max()))
                            break
        except Exception as e:
            ctx.fail(case, f"raises: history step raised {type(e).__name__}: {str(e)[:150]}")
            continue
        bad_step = next((i for i, st in enumerate(states) if not all(math.isfinite(v) for v in st)), None)
        if bad_step is not None:   # the history stays far inside the dtype's range: a NaN / inf state is a failure, with its step
            ctx.fail(case | {"step": bad_step - 1, "kind": seq[bad_step - 1][0] if bad_step else "initial", "state": states[max(bad_step - 1, 0)],
                             "arg": seq[bad_step - 1][1] if bad_step else None},
                     f"non-finite: history step {bad_step - 1} ({seq[bad_step - 1][0] if bad_step else 'initial'}) produced a non-finite state on a finite valid state ({name}, {dtype})")
            continue
        if stale is not None:
            ctx.fail(case | {"seq_kinds": [k for k, _ in seq][:stale[0] + 1]},
                     f"stale: after in-place update #{stale[0]} ({stale[1]}) {stale[2]}() of the updated object differs from the "
                     f"same call on a fresh clone by {stale[3]:.3e} ({name}, {dtype})")
        # hypothesis of `rounded_history_norm` / `rounded_history_drift` (theorems about the history a rounding machine
        # computes): EVERY stored state is within relative distance gamma = 16 eps of the exact result of the operation
        # applied to the previously stored state, and every product operand is gamma-near unit
        gmax = check_steps(ctx, case, name, eps, states, seq)
        # model: the state is threaded through the history with one persistent driver process
        xm, tmax = run_model_history(ctx, name, eps, x_model, seq)
        got = Xi.tensor().double()[0].tolist()
        want = U.fl(xm)
        q = got[U.QSL[name]]
        drift = abs(math.sqrt(sum(v * v for v in q)) - 1)
        tscale = 1.0 + tmax   # largest translation magnitude met along the (exact) path
        e = U.group_err(name, got, want, tscale=tscale)
        bound = length * 8 * eps
        ctx.note_case(("history", name, dtype, length, hi), True)
        ctx.count(f"history.{name}.{dtype}")
        if gt(drift, bound):
            ctx.fail(case | {"seq_kinds": [k for k, _ in seq][:50]}, f"drift: unit-norm drift {drift:.3e} > {bound:.3e} after {length} operations ({name}, {dtype})")
        # rotation/scale error grows like n·eps; it feeds into every later translation update (lever arm), so the
        # translation error of a random walk grows like n²·eps relative to the largest translation met on the path
        lim = {"q": 16 * bound, "s": 16 * bound, "t": 16 * bound + 8 * eps * length * length}
        badb = {k2: v for k2, v in e.items() if not (v <= lim[k2])}
        if badb:
            ctx.disagree("history", case, f"after {length} ops {name} {dtype}: block errors {badb} > {lim}")
        if U.SIDX[name] is not None and not got[U.SIDX[name]] > 0:
            ctx.fail(case, f"valid: scale not positive after history ({name})")
        ctx.sample({"stream": "history", "type": name, "dtype": dtype, "length": length, "drift": drift, "max_step_error_eps": gmax,
                    "first_ops": [k for k, _ in seq][:12]}, cap=10)


GAMMA_EPS = 8


def check_steps(ctx, case, name, eps, states, seq):
    """per-step relative accuracy of the quaternion block, measured against the 192-bit model applied to the code's own
    previous state; returns the largest ratio observed (in units of eps)"""
    e = common.to_wire(eps)
    lines = []
    for k, (kind, arg) in enumerate(seq):
        prev = common.wire_list(states[k])
        if kind == "mulL":
            lines.append(f"{name}.Mul {e} " + common.wire_list(arg) + " " + prev)
        elif kind == "mulR":
            lines.append(f"{name}.Mul {e} " + prev + " " + common.wire_list(arg))
        elif kind == "inv":
            lines.append(f"{name}.Inv {e} " + prev)
        else:
            lines.append(f"{name}.Retr {e} " + prev + " " + common.wire_list(arg))
    reps = ctx.driver.run(lines)
    gamma = GAMMA_EPS * eps
    worst = 0.0
    for k, rep in enumerate(reps):
        st, toks = common.parse_reply(rep)
        if st != "ok":
            raise common.InfraError(f"model step failed: {rep}")
        exact = [common.from_wire(t) for t in toks][U.QSL[name]]
        got = states[k + 1][U.QSL[name]]
        d2 = sum((Fraction(g) - x) ** 2 for g, x in zip(got, exact))
        n2 = sum(x * x for x in exact)
        ratio = math.sqrt(float(d2 / n2)) / eps if n2 else float("inf")
        worst = max(worst, ratio)
        kind, arg = seq[k]
        # the property's own clause on the real code: one operation may change the quaternion norm by round-off only
        # (a per-step defect of 10^3 eps would hide inside the n*8*eps drift allowance of a long history)
        n2p = sum(Fraction(v) ** 2 for v in states[k][U.QSL[name]])
        n2n = sum(Fraction(v) ** 2 for v in got)
        n2y = sum(Fraction(v) ** 2 for v in arg[U.QSL[name]]) if kind in ("mulL", "mulR") else Fraction(1)
        if n2p > 0 and n2y > 0:
            defect = abs(float(n2n / (n2p * n2y)) - 1.0) / 2 / eps
            if gt(defect, GAMMA_EPS):
                ctx.fail(case | {"step": k, "kind": kind, "state": states[k], "arg": arg},
                         f"valid: step {k} ({kind}) changed the quaternion norm by {defect:.1f} eps - not round-off ({name}, "
                         f"{case.get('dtype')}); state and argument are in the replay")
                break
        if U.SIDX[name] is not None:      # hypothesis of rounded_scale_pos: stored scale within gamma (relative) of the exact update
            se = [common.from_wire(t) for t in toks][U.SIDX[name]]
            sg = Fraction(states[k + 1][U.SIDX[name]])
            if not (se > 0 and abs(sg - se) <= Fraction(gamma) * se):
                ctx.disagree("history", case | {"step": k, "kind": kind},
                             f"per-step accuracy: stored scale after step {k} ({kind}) is off by {float(abs(sg - se) / se) / eps:.2f} eps "
                             f"(relative); hypothesis of rounded_scale_pos needs <= {GAMMA_EPS} eps ({name})")
                break
        if kind in ("mulL", "mulR"):
            yn = math.sqrt(sum(v * v for v in arg[U.QSL[name]]))
            if abs(yn - 1) > gamma:
                ctx.disagree("history", case, f"step {k}: generated operand is not gamma-near unit ({abs(yn - 1):.3e})")
                break
        if not ratio <= GAMMA_EPS:
            ctx.disagree("history", case | {"step": k, "kind": kind},
                         f"per-step accuracy: stored quaternion after step {k} ({kind}) is {ratio:.2f} eps away (relative) from the exact "
                         f"result on the previous stored state; hypothesis of rounded_history_norm needs <= {GAMMA_EPS} eps ({name})")
            break
    ctx.count(f"history.steps.{name}", len(reps))
    return worst


def run_model_history(ctx, name, eps, x0, seq):
    """thread the model state through the history with one persistent driver process"""
    import subprocess
    p = subprocess.Popen([str(ctx.driver.bin)], stdin=subprocess.PIPE, stdout=subprocess.PIPE, text=True, bufsize=1)
    try:
        toks = [common.to_wire(v) for v in x0]
        e = common.to_wire(eps)
        tmax = 0.0
        for kind, arg in seq:
            if kind == "mulL":
                line = f"{name}.Mul {e} " + common.wire_list(arg) + " " + " ".join(toks)
            elif kind == "mulR":
                line = f"{name}.Mul {e} " + " ".join(toks) + " " + common.wire_list(arg)
            elif kind == "inv":
                line = f"{name}.Inv {e} " + " ".join(toks)
            else:
                line = f"{name}.Retr {e} " + " ".join(toks) + " " + common.wire_list(arg)
            p.stdin.write(line + "\n")
            p.stdin.flush()
            rep = p.stdout.readline().strip()
            ctx.driver.lines += 1
            st, t = common.parse_reply(rep)
            if st != "ok":
                raise common.InfraError(f"model history step failed: {rep}")
            toks = t
            if U.TSL[name] is not None:
                tmax = max(tmax, max(abs(float(common.from_wire(v))) for v in toks[U.TSL[name]]))
        return [common.from_wire(t) for t in toks], tmax
    finally:
        p.stdin.close()
        p.wait(timeout=30)


def run_corners(ctx: Ctx):
    """deterministic corpus run first on every seed: extreme-but-valid scales (far below eps / above 1/eps),
    angles at 0 / tiny / pi, translations 0 / tiny / large — every law on the real code, and Inv / Mul / Act
    against the model"""
    P = U.pp()
    lines, metas = [], []
    for name in U.GROUPS:
        for dtype in ("float64", "float32"):
            eps = common.EPS[dtype]
            sigmas = [0.0] if U.SIDX[name] is None else [-30.0, -20.0, -17.0, -12.0, -3.0, 0.0, 3.0, 12.0, 17.0, 30.0] + \
                ([-40.0, -37.0, 37.0, 40.0] if dtype == "float64" else [])
            for si, sg in enumerate(sigmas):
                for ai, ang in enumerate([0.0, 1e-9, 1.0, math.pi - 1e-9]):
                    for ti, tm in enumerate([0.0, 1e-3, 50.0] if U.TSL[name] is not None else [0.0]):
                        def el(a, t, sgm, flip):
                            d = [0.6, 0.0, 0.8]
                            q = [d[0] * math.sin(a / 2), 0.0, d[2] * math.sin(a / 2), math.cos(a / 2)]
                            if flip:
                                q = [-v for v in q]
                            out = []
                            if U.TSL[name] is not None:
                                out += [t * 0.48, -t * 0.6, t * 0.64]
                            out += q
                            if U.SIDX[name] is not None:
                                out.append(math.exp(sgm))
                            return U.to_dtype_exact([out], dtype)[1][0].tolist()
                        X = el(ang, tm, sg, (si + ai) % 2 == 1)
                        Y = el(0.7, 0.3, -sg / 2 if abs(sg) <= 20 else 0.0, False)
                        Z = el(2.0, 1.0, 0.1 if U.SIDX[name] is not None else 0.0, True)
                        case = {"stream": "laws", "type": name, "dtype": dtype, "X": X, "Y": Y, "Z": Z,
                                "p3": [0.4, -1.1, 0.8], "p4": [0.4, -1.1, 0.8, 0.0 if (si + ti) % 2 else 1.0]}
                        law_case(ctx, case)
                        ctx.note_case(("corner", name, dtype, sg, ang, tm), True)
                        ctx.count(f"corner.{name}.{dtype}")
                        try:
                            Zi = U.lt(name, [X], U.dt(dtype)).Inv().tensor().double()[0].tolist()
                        except Exception as e:
                            ctx.fail(case, f"raises: Inv raised {type(e).__name__}")
                            continue
                        _, t, sc = blocks(name, X)
                        tsc = 1e-300 + (U.max_abs(t) * 3 / (sc if sc else 1.0) if t is not None else 1.0)
                        lines.append(U.model_call(f"{name}.Inv", eps, X))
                        metas.append(({"stream": "corner", "op": "Inv", "type": name, "dtype": dtype, "X": X}, name, dtype, Zi, tsc))
    reps = ctx.driver.run(lines)
    for rep, (case, name, dtype, got, tsc) in zip(reps, metas):
        cmp_group(ctx, "corner", case, name, got, U.fl(common.reply_nums(rep)), dtype, tsc, fix_sign=True)


def run(ctx: Ctx):
    run_mode_order(ctx)          # first: the shapes it uses must be fresh in the process
    run_corners(ctx)
    run_retr_ladder(ctx)
    run_ties(ctx)
    run_default_dtype(ctx)
    run_interleave(ctx)
    run_large(ctx)
    run_mixed_batches(ctx)
    run_ops(ctx, ctx.pick(260, 3000))
    run_laws(ctx, ctx.pick(300, 4000))
    if ctx.quick:
        run_history(ctx, 6, 400)
        run_history(ctx, 1, 3000)
    else:
        run_history(ctx, 24, 1000)
        run_history(ctx, 4, 10000)


def search(ctx: Ctx):
    """failing-input search on the real code after a broken proof / correspondence: the retraction-validity ladder on
    a dense angle grid (thorough ladder), then every law on 3000 fresh triples"""
    q = ctx.quick
    ctx.quick = False
    try:
        run_retr_ladder(ctx)
    finally:
        ctx.quick = q
    if ctx.failures:
        return
    run_laws(ctx, 3000)


def replay(ctx: Ctx, case) -> bool:
    c = case["case"]
    if c.get("stream") == "laws":
        ok = law_case(ctx, c)
        for f in ctx.failures:
            print("  fails:", f["what"])
        return ok
    if c.get("stream") == "mixed":
        ok = mixed_batch_case(ctx, c)
        for f in ctx.failures:
            print("  fails:", f["what"])
        return ok
    if c.get("stream") == "retrvalid":
        ok = retr_ladder_case(ctx, c)
        for f in ctx.failures:
            print("  fails:", f["what"])
        return ok
    print("  (only `laws` cases replay item-wise; re-run the check with the recorded seed for stream", c.get("stream"), ")")
    n0 = len(ctx.failures)
    run(ctx)
    return len(ctx.failures) == n0 and not ctx.disagreements
