import Pose.Model.Lie
import Pose.Model.Batch
/-!
# Tangent-space operations of `lietensor.py` that are not in `Model/Lie.lean` (property C05)

* `LieTensor.add / add_ / __add__` on group elements: `X.copy_(Exp(other[..., :m]) * X)` — only the first
  `m = manifold dimension` components of `other` are read (`SO3Type.add_ … Sim3Type.add_`);
  `add(other, alpha)` first forms `alpha * other`.
* `LieType.add_` on algebra elements: `x + other[..., :m]` (plain vector addition).
* `SO3Type.Jr` : `X.Log().Jr()`.
* reading a flat tensor back as an algebra element (`LieTensor(out, ltype=se3_type)` etc.).

`Retr`, `Adj`, `AdjT`, `Jinvp`, `so3Jr` themselves are in `Model/Lie.lean`.
-/
namespace PP

variable {α : Type} [Scalar α]

/-- components `o, o+1, o+2` of a flat tensor (missing entries read as 0 — callers guard the length) -/
def vec3At (l : List α) (o : Nat) : Vec3 α := ⟨l.getD o (k 0), l.getD (o + 1) (k 0), l.getD (o + 2) (k 0)⟩

/-- `LieTensor(t, ltype=so3_type)` … : a flat tensor read in PyPose storage order -/
def so3.ofList (l : List α) : Vec3 α := vec3At l 0
def se3.ofList (l : List α) : se3 α := ⟨vec3At l 0, vec3At l 3⟩
def rxso3.ofList (l : List α) : rxso3 α := ⟨vec3At l 0, l.getD 3 (k 0)⟩
def sim3.ofList (l : List α) : sim3 α := ⟨vec3At l 0, vec3At l 3, l.getD 6 (k 0)⟩

/-- `alpha * other` -/
def scaleList (alpha : α) (o : List α) : List α := o.map (fun x => alpha * x)

/-! ## `X + other` on group elements: `Exp(other[..., :m]) · X`; `none` when `other` has fewer than `m`
components (the real code raises). -/

def SO3Add (eps : α) (X : Quat α) (o : List α) : Option (Quat α) :=
  if o.length < 3 then none else some (SO3Retr eps X (so3.ofList (o.take 3)))
def SE3Add (eps : α) (X : SE3 α) (o : List α) : Option (SE3 α) :=
  if o.length < 6 then none else some (SE3Retr eps X (se3.ofList (o.take 6)))
def RxSO3Add (eps : α) (X : RxSO3 α) (o : List α) : Option (RxSO3 α) :=
  if o.length < 4 then none else some (RxSO3Retr eps X (rxso3.ofList (o.take 4)))
def Sim3Add (eps : α) (X : Sim3 α) (o : List α) : Option (Sim3 α) :=
  if o.length < 7 then none else some (Sim3Retr eps X (sim3.ofList (o.take 7)))

/-- `LieType.add_` for algebra types (`on_manifold`): `x + other[..., :m]`, `m = len x` — a plain torch addition of the last axis, so
`other` of width ≥ m is cut to `m`, width exactly 1 BROADCASTS against the `m` components (`so3([1,2,3]) + [10.] = [11,12,13]`), and
widths 0 and 2..m−1 raise.  (The property speaks about operands of at least the manifold dimension; the width-1 case is modelled
because the code accepts it.) -/
def algAdd (x o : List α) : Option (List α) :=
  if x.length ≤ o.length then some (DVec.add x (o.take x.length))
  else if o.length = 1 then some (x.map (fun v => v + o.getD 0 (k 0)))
  else none

/-- `SO3Type.Jr` : `X.Log().Jr()` -/
def SO3Jr (eps : α) (X : Quat α) : Mat3 α := so3Jr eps (SO3Log eps X)


/-! ## One dispatch for every spelling of `+` on group elements (batched, with broadcasting)

```
X + o, X.add(o, alpha), pp.add(X, o, alpha)   -> LieTensor.add :  shape = broadcast_shapes(X.lshape, o.lshape)
                                                  X.expand(shape).clone().add_(alpha * o)
X.add_(o, alpha), pp.add_(X, o, alpha)        -> ltype.add_    :  X.copy_(Exp((alpha*o)[..., :m]) * X)      (copy_ needs the product's
                                                                                                          shape to be X's own shape)
X.Retr(a), pp.Retr(X, a)                      -> a.Exp() * X   :  a an algebra LieTensor (width exactly m, no alpha)
```
`retr l x` is the item-level `Exp(l[:m]) · x` (total; the width test is made once for the whole tensor, like `Exp` does). -/

inductive AddSpelling
  | plus | add | ppAdd          -- out of place
  | addInplace | ppAddInplace   -- in place
  | retr | ppRetr               -- `a.Exp() * X`
deriving Repr, DecidableEq, Inhabited

def AddSpelling.inplace : AddSpelling → Bool
  | .addInplace | .ppAddInplace => true
  | _ => false
def AddSpelling.isRetr : AddSpelling → Bool
  | .retr | .ppRetr => true
  | _ => false

/-- outcome of a call: the result batch, or the kind of error the code raises -/
inductive AddError | short | wide | broadcast | inplaceShape
deriving Repr, DecidableEq, Inhabited

open Batch in
/-- every spelling of `X + o`: `m` manifold dimension, `d` group dimension, `w` last extent of `o` -/
def lieAdd {G : Type} (m d : Nat) (retr : List α → G → G) (sp : AddSpelling) (alpha : α)
    (x : T G) (o : T (List α)) (w : Nat) : Except AddError (Out G) :=
  if w < m then .error .short                       -- `LieTensor(other[..., :m], ltype=alg).Exp()` on too few components
  else if sp.isRetr && w ≠ m then .error .wide       -- OUTCOME CLASS only: an algebra LieTensor wider than `m` makes the code raise later
                                                     -- (RuntimeError / AttributeError inside Exp / Mul); there is no dedicated width check in the code
  else
    let a : T (List α) := ⟨o.shape, fun k => if sp.isRetr then o.data k else scaleList alpha (o.data k)⟩
    if sp.isRetr then
      match binop retr d d a x with                   -- `a.Exp() * X` : the `Mul` op site
      | none => .error .broadcast
      | some r => .ok r
    else
      match addOp retr d x a with                     -- `LieTensor.add` (C06's model of expand / clone / add_)
      | none => .error .broadcast
      | some r => if sp.inplace && r.shape ≠ x.shape then .error .inplaceShape else .ok r

def SO3retrItem (eps : α) (l : List α) (X : Quat α) : Quat α := SO3Retr eps X (so3.ofList (l.take 3))
def SE3retrItem (eps : α) (l : List α) (X : SE3 α) : SE3 α := SE3Retr eps X (se3.ofList (l.take 6))
def RxSO3retrItem (eps : α) (l : List α) (X : RxSO3 α) : RxSO3 α := RxSO3Retr eps X (rxso3.ofList (l.take 4))
def Sim3retrItem (eps : α) (l : List α) (X : Sim3 α) : Sim3 α := Sim3Retr eps X (sim3.ofList (l.take 7))

end PP
