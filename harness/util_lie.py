"""Shared helpers for the Lie-group properties (C01–C05, C07, C11, C16, C19): layouts, structured
generators (DESIGN §4), model calls, block-wise comparison."""
from __future__ import annotations

import math
import random
from fractions import Fraction

import torch

from . import common

GROUPS = ["SO3", "SE3", "RxSO3", "Sim3"]
ALG = {"SO3": "so3", "SE3": "se3", "RxSO3": "rxso3", "Sim3": "sim3"}
GDIM = {"SO3": 4, "SE3": 7, "RxSO3": 5, "Sim3": 8}
ADIM = {"SO3": 3, "SE3": 6, "RxSO3": 4, "Sim3": 7}
# slices into group storage
QSL = {"SO3": slice(0, 4), "SE3": slice(3, 7), "RxSO3": slice(0, 4), "Sim3": slice(3, 7)}
TSL = {"SO3": None, "SE3": slice(0, 3), "RxSO3": None, "Sim3": slice(0, 3)}
SIDX = {"SO3": None, "SE3": None, "RxSO3": 4, "Sim3": 7}
# slices into algebra storage
PHISL = {"SO3": slice(0, 3), "SE3": slice(3, 6), "RxSO3": slice(0, 3), "Sim3": slice(3, 6)}
TAUSL = {"SO3": None, "SE3": slice(0, 3), "RxSO3": None, "Sim3": slice(0, 3)}
SIGIDX = {"SO3": None, "SE3": None, "RxSO3": 3, "Sim3": 6}
MATN = {"SO3": 3, "SE3": 4, "RxSO3": 4, "Sim3": 4}


def pp():
    import pypose
    return pypose


def ltype(name):
    return getattr(pp(), name + "_type")


def lt(name, data, dtype=torch.float64):
    """LieTensor of type `name` from nested list / tensor"""
    t = data if isinstance(data, torch.Tensor) else torch.tensor(data, dtype=torch.float64)
    return pp().LieTensor(t.to(dtype), ltype=ltype(name))


def dt(name):
    return {"float64": torch.float64, "float32": torch.float32}[name]


# ----------------------------------------------------------------------------- generators

def gen_angle(rng: random.Random, eps: float, big: bool = True) -> float:
    lad = common.ladder(eps) + (common.ladder_big() if big else [])
    c = rng.random()
    if c < 0.55:
        return rng.choice(lad)
    if c < 0.8:
        return rng.uniform(0, math.pi)
    if c < 0.9:
        return 10 ** rng.uniform(-18, 0)
    return rng.uniform(0, 7.0) if big else rng.uniform(0, math.pi)


def gen_mag(rng: random.Random, eps: float, hi: float = 1e3) -> float:
    """magnitude for translation-like blocks"""
    c = rng.random()
    if c < 0.15:
        return 0.0
    if c < 0.5:
        return rng.choice([v for v in (1e-30, 1e-20, eps, math.sqrt(eps), 1e-6, 1e-3, 0.1, 1.0, 3.0, 10.0, 100.0) if v <= hi] + [hi])
    return 10 ** rng.uniform(-6, math.log10(hi))


def gen_sigma(rng: random.Random, eps: float, hi: float = 8.0, wide: float = 0.0) -> float:
    """log-scale; with probability `wide` an extreme one (scales far below eps / far above 1/eps are still
    valid group elements: |log s| up to 30 for float32, 40 for float64)"""
    c = rng.random()
    s = rng.choice([-1.0, 1.0])
    if wide and rng.random() < wide:
        return s * rng.choice([12.0, 17.0, 20.0, 30.0] + ([37.0, 40.0] if eps < 1e-10 else []))
    if c < 0.15:
        return 0.0
    if c < 0.6:
        return s * rng.choice([v for v in (1e-30, 1e-20, eps / 2, eps * (1 - 2 ** -10), eps * (1 + 2 ** -10), 2 * eps, 1e-12,
                                           1e-9, math.sqrt(eps), 1e-6, 1e-3, 0.1, 0.7, 1.0, 3.0) if v <= hi] + [hi])
    return s * rng.uniform(0, hi) if c < 0.85 else s * 10 ** rng.uniform(-18, 0)


def vec(rng, mag, n=3):
    d = common.rand_dir(rng, n)
    return [mag * x for x in d]


def gen_algebra(rng: random.Random, name: str, eps: float, big: bool = True, thi: float = 1e3, shi: float = 8.0):
    """one algebra element (list of floats in storage order) + regime tag"""
    th = gen_angle(rng, eps, big)
    phi = vec(rng, th)
    out = []
    tag = [f"th{common.sig_mag(th)}"]
    if name in ("SE3", "Sim3"):
        m = gen_mag(rng, eps, thi)
        out += vec(rng, m)
        tag.append(f"t{common.sig_mag(m)}")
    out += phi
    if name in ("RxSO3", "Sim3"):
        s = gen_sigma(rng, eps, shi)
        out.append(s)
        tag.append(f"s{common.sig_mag(s)}")
    return out, "/".join(tag)


def gen_unit_quat(rng: random.Random, eps: float):
    """structured unit quaternion (both hemispheres, |w| ~ eps, |v| ~ eps, near pi), exact-ish unit in float64"""
    c = rng.random()
    if c < 0.6:
        th = gen_angle(rng, eps, big=True)
        d = common.rand_dir(rng, 3)
        s, w = math.sin(th / 2), math.cos(th / 2)
        q = [d[0] * s, d[1] * s, d[2] * s, w]
        tag = f"ang{common.sig_mag(th)}"
    elif c < 0.75:  # |w| tiny
        w = rng.choice([0.0, 1e-30, eps / 2, eps, 2 * eps, 1e-12, 1e-8, 1e-4]) * rng.choice([-1, 1])
        d = common.rand_dir(rng, 3)
        s = math.sqrt(max(0.0, 1 - w * w))
        q = [d[0] * s, d[1] * s, d[2] * s, w]
        tag = f"w{common.sig_mag(w)}"
    elif c < 0.9:  # |v| tiny
        vn = rng.choice([0.0, 1e-30, eps / 2, eps, 2 * eps, 1e-12, 1e-8, 1e-4])
        d = common.rand_dir(rng, 3)
        w = math.sqrt(max(0.0, 1 - vn * vn)) * rng.choice([-1, 1])
        q = [d[0] * vn, d[1] * vn, d[2] * vn, w]
        tag = f"v{common.sig_mag(vn)}"
    else:  # uniform on S^3
        q = [rng.gauss(0, 1) for _ in range(4)]
        tag = "uniform"
    n = math.sqrt(sum(x * x for x in q)) or 1.0
    q = [x / n for x in q]
    if rng.random() < 0.5:
        q = [-x for x in q]
    return q, tag


def gen_group(rng: random.Random, name: str, eps: float, thi: float = 1e3, shi: float = 8.0, wide: float = 0.0):
    q, tag = gen_unit_quat(rng, eps)
    out, tags = [], [tag]
    if name in ("SE3", "Sim3"):
        m = gen_mag(rng, eps, thi)
        out += vec(rng, m)
        tags.append(f"t{common.sig_mag(m)}")
    out += q
    if name in ("RxSO3", "Sim3"):
        s = gen_sigma(rng, eps, shi, wide)
        out.append(math.exp(s))
        tags.append(f"s{common.sig_mag(s)}")
    return out, "/".join(tags)


def rand_shape(rng: random.Random, maxrank: int = 3, exts=(1, 2, 3)):
    return tuple(rng.choice(exts) for _ in range(rng.randint(0, maxrank)))


def broadcast_pair(rng: random.Random, maxrank: int = 3):
    """two broadcastable lshapes and their broadcast"""
    out = rand_shape(rng, maxrank)
    def drop(shape):
        s = [1 if rng.random() < 0.3 else e for e in shape]
        k = rng.randint(0, len(s))
        while k > 0 and all(e == 1 for e in s[:k]) is False:
            k -= 1
        return tuple(s[k:]) if all(e == 1 for e in s[:k]) else tuple(s)
    return drop(out), drop(out), out


def to_dtype_exact(rows, dtype_name):
    """tensor in the requested dtype and the float64 values it actually holds (what the model must see)"""
    t = torch.tensor(rows, dtype=torch.float64).to(dt(dtype_name))
    return t, t.to(torch.float64)


# ----------------------------------------------------------------------------- comparison

def fl(fracs):
    return [float(x) for x in fracs]


def quat_dist(a, b):
    """sign-free distance between two quaternions given as lists"""
    d1 = math.sqrt(sum((x - y) ** 2 for x, y in zip(a, b)))
    d2 = math.sqrt(sum((x + y) ** 2 for x, y in zip(a, b)))
    return min(d1, d2)


def group_err(name, got, want, tscale=None, fix_sign=False):
    """block-wise error of a group element `got` (impl, list of float) against `want` (model):
    returns dict(q=…, t=… (relative to tscale), s=… (relative))"""
    out = {}
    qs = QSL[name]
    gq, wq = got[qs], want[qs]
    out["q"] = math.sqrt(sum((x - y) ** 2 for x, y in zip(gq, wq))) if fix_sign else quat_dist(gq, wq)
    if TSL[name] is not None:
        ts = TSL[name]
        sc = tscale if tscale is not None else max(1e-300, max(abs(v) for v in want[ts]))
        out["t"] = max(abs(x - y) for x, y in zip(got[ts], want[ts])) / sc
    if SIDX[name] is not None:
        i = SIDX[name]
        out["s"] = abs(got[i] - want[i]) / max(abs(want[i]), 1e-300)
    return out


def max_abs(xs):
    return max((abs(x) for x in xs), default=0.0)


def model_call(op: str, eps: float, args) -> str:
    return f"{op} " + common.wire_list([eps] + list(args))


# ----------------------------------------------------------------------------- persistent-object probe

def persistent_probe(ctx, prop_reads, names=GROUPS, algebra=False, dtypes=("float64", "float32"), n_updates=5):
    """History probe shared by the Lie properties: ONE LieTensor object (no grad) is updated in place
    (add_, copy_, item assignment, identity_ where implemented) and after every update each public read in
    `prop_reads(name) -> {label: fn(obj) -> tensor}` must equal the same read on a fresh clone bit for bit.
    A memoised / cached result that is not invalidated by in-place updates is a history bug that single-shot
    sampling on fresh objects cannot see.  Deterministic (runs identically for every seed)."""
    P = pp()
    import random as _r
    rng = _r.Random(20260925)
    for name in names:
        for dtype in dtypes:
            eps = common.EPS[dtype]
            D = dt(dtype)
            tname = ALG[name] if algebra else name
            ltp = getattr(P, tname + "_type")

            def fresh(k):
                rows = [(gen_algebra(rng, name, eps, big=False, thi=2.0, shi=0.5)[0] if algebra
                         else gen_group(rng, name, eps, thi=2.0, shi=0.5)[0]) for _ in range(k)]
                return P.LieTensor(torch.tensor(rows, dtype=torch.float64).to(D), ltype=ltp)
            obj = fresh(3)
            reads = prop_reads(name)
            case = {"stream": "persistent", "type": tname, "dtype": dtype}
            try:
                for fn in reads.values():        # first reads (this is where a cache would be filled)
                    fn(obj)
                for u in range(n_updates):
                    kind = ["add_", "copy_", "setitem", "add_", "identity_"][u % 5]
                    if kind == "add_":
                        a = torch.tensor([gen_algebra(rng, name, eps, big=False, thi=1.0, shi=0.3)[0] for _ in range(3)],
                                         dtype=torch.float64).to(D)
                        obj.add_(a)
                    elif kind == "copy_":
                        obj.copy_(fresh(3))
                    elif kind == "setitem":
                        obj[1] = fresh(1)[0]
                    else:
                        try:
                            obj.identity_()
                        except (NotImplementedError, AttributeError):
                            obj.copy_(fresh(3))
                    ref = obj.clone()
                    for label, fn in reads.items():
                        a1, b1 = fn(obj), fn(ref)
                        a1 = a1.tensor() if hasattr(a1, "ltype") else a1
                        b1 = b1.tensor() if hasattr(b1, "ltype") else b1
                        ctx.note_case(("persistent", tname, dtype, label, u), True)
                        ctx.count(f"persistent.{tname}")
                        if a1.shape != b1.shape or not torch.equal(torch.nan_to_num(a1), torch.nan_to_num(b1)):
                            err = float((a1.double() - b1.double()).abs().max()) if a1.shape == b1.shape else float("nan")
                            ctx.fail(case | {"update": kind, "update_index": u, "read": label},
                                     f"stale: {label} of a {tname} object after in-place update #{u} ({kind}) differs from the "
                                     f"same call on a fresh clone by {err:.3e} ({dtype})")
                            break
            except Exception as e:
                ctx.fail(case, f"raises: persistent-object probe on {tname} raised {type(e).__name__}: {str(e)[:120]}")
