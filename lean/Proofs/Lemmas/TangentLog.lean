import Proofs.Lemmas.Tangent
import Mathlib.Analysis.SpecialFunctions.Trigonometric.Arctan
import Mathlib.Analysis.Real.Pi.Bounds
/-! C05: the rotation angle of `SO3_Log` is at most `π` (all three regimes) — self-contained, so that the `Jinvp` theorems need no
hypothesis on `sin(θ/2)`.  (C02 proves the same fact with its own lemma library; importing it here would duplicate declaration names.) -/
set_option linter.unusedSimpArgs false
namespace PP
open Vec3 Quat Mat3

theorem Vec3.norm_smul (c : ℝ) (v : Vec3 ℝ) : (v.smul c).norm = |c| * v.norm := by
  unfold Vec3.norm
  rw [Vec3.normSq_smul, sqrt_real, sqrt_real, show c * c * v.normSq = c ^ 2 * v.normSq by ring,
    Real.sqrt_mul (sq_nonneg c), Real.sqrt_sq_eq_abs]

/-- the rotation angle of `Log q` is at most `π` for every unit quaternion (`eps ≤ 1/2`), all three regimes of `SO3_Log` -/
theorem SO3Log_norm_le_pi' (eps : ℝ) (q : Quat ℝ) (hq : q.normSq = 1) (h0 : 0 ≤ eps) (he : eps ≤ 1 / 2) :
    (SO3Log eps q).norm ≤ Real.pi := by
  unfold SO3Log so3LogFactor
  rw [Vec3.norm_smul]
  set vn := q.vec.norm with hvn
  have hvn0 : 0 ≤ vn := Vec3.norm_nonneg _
  by_cases h1 : eps < vn
  · have hpos : 0 < vn := lt_of_le_of_lt h0 h1
    by_cases h2 : eps < |q.w|
    · simp only [lt_real, sabs_real, h1, h2, decide_true, if_true, atan_real, k_real, Nat.cast_ofNat]
      rw [abs_div, abs_of_pos hpos, div_mul_cancel₀ _ (ne_of_gt hpos), abs_mul, abs_of_pos (by norm_num : (0:ℝ) < 2)]
      have := abs_lt.mpr ⟨Real.neg_pi_div_two_lt_arctan (vn / q.w), Real.arctan_lt_pi_div_two (vn / q.w)⟩
      linarith
    · simp only [lt_real, sabs_real, h1, h2, decide_true, decide_false, if_true, if_false, Bool.false_eq_true, pi_real]
      rw [abs_div, abs_of_pos hpos, div_mul_cancel₀ _ (ne_of_gt hpos), abs_mul, abs_of_pos Real.pi_pos]
      have : |spm q.w| = 1 := by
        unfold spm; simp only [lt_real, k_real, Nat.cast_zero, Nat.cast_one]
        by_cases hw : q.w < 0 <;> simp [hw]
      rw [this, one_mul]
  · simp only [lt_real, h1, decide_false, if_false, Bool.false_eq_true, k_real, Nat.cast_ofNat, Nat.cast_one]
    have hvle : vn ≤ 1 / 2 := le_trans (not_lt.mp h1) he
    have hsq : vn * vn + q.w * q.w = 1 := by
      rw [hvn, Vec3.norm_sq]; have := hq; simp only [Quat.normSq, Quat.vec, Vec3.normSq] at this ⊢; linarith
    have hw2 : 3 / 4 ≤ q.w * q.w := by nlinarith
    have hw0 : q.w ≠ 0 := by intro h; rw [h] at hw2; norm_num at hw2
    have habs : 3 / 4 ≤ |q.w| * |q.w| := by rw [← abs_mul, abs_of_nonneg (mul_self_nonneg _)]; exact hw2
    have hwa : 3 / 4 ≤ |q.w| := by
      by_contra hc; rw [not_le] at hc
      have := abs_nonneg q.w
      nlinarith
    have e : 1 / q.w - vn * vn / (3 * (q.w * q.w * q.w)) = (3 * (q.w * q.w) - vn * vn) / (3 * (q.w * q.w * q.w)) := by
      field_simp
    rw [e, abs_mul, abs_of_pos (by norm_num : (0:ℝ) < 2), abs_div, abs_mul, abs_of_pos (by norm_num : (0:ℝ) < 3)]
    have hnum : |3 * (q.w * q.w) - vn * vn| ≤ 3 := by
      rw [abs_le]; constructor <;> nlinarith
    have hden : 27 / 64 ≤ |q.w * q.w * q.w| := by
      rw [abs_mul, abs_mul]; nlinarith [abs_nonneg q.w]
    have hdpos : 0 < 3 * |q.w * q.w * q.w| := by linarith
    have hfrac : |3 * (q.w * q.w) - vn * vn| / (3 * |q.w * q.w * q.w|) ≤ 3 / (3 * (27 / 64)) := by
      apply div_le_div₀ (by norm_num) hnum (by norm_num) (by linarith)
    have hpi := Real.pi_gt_three
    calc 2 * (|3 * (q.w * q.w) - vn * vn| / (3 * |q.w * q.w * q.w|)) * vn ≤ 2 * (3 / (3 * (27 / 64))) * (1 / 2) := by gcongr
      _ ≤ Real.pi := by norm_num; linarith

/-- for a unit quaternion whose `Log` is on the closed-form branch of the Jacobians, `sin(θ/2) ≠ 0` automatically -/
theorem SO3Log_sin_half_ne_zero (eps : ℝ) (q : Quat ℝ) (hq : q.normSq = 1) (h0 : 0 ≤ eps) (he : eps ≤ 1 / 2)
    (h : eps < (SO3Log eps q).norm) : Real.sin (1 / 2 * (SO3Log eps q).norm) ≠ 0 := by
  have hle := SO3Log_norm_le_pi' eps q hq h0 he
  have hpos : 0 < (SO3Log eps q).norm := lt_of_le_of_lt h0 h
  apply ne_of_gt
  apply Real.sin_pos_of_pos_of_lt_pi <;> nlinarith [Real.pi_pos]
end PP
