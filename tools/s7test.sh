#!/bin/bash
# final probe: tools/s7test.sh <group> <scratch worktree> <prop...> : run the checks on /tmp/s7_<group>/S1, S2
g=$1; wt=$2; shift 2
H=$(git -C /repo rev-parse HEAD)
cd "$(dirname "$0")/.."
for k in S1 S2; do
  d=/tmp/s7_$g/$k
  [ -f $d/patch.diff ] || { echo "$g $k: no patch"; continue; }
  git -C $wt checkout -q -- . ; git -C $wt checkout -q --detach $H
  PYTHONPATH=$wt /venv/bin/python $d/demo.py >/dev/null 2>&1; c=$?
  if ! git -C $wt apply $d/patch.diff 2>/tmp/apply_$g.err; then echo "$g $k: APPLY FAILED $(head -2 /tmp/apply_$g.err)"; continue; fi
  PYTHONPATH=$wt /venv/bin/python $d/demo.py >/dev/null 2>&1; m=$?
  mp=$(python3 -c "import json;print(json.load(open('$d/meta.json')).get('property','?'))")
  echo "$g $k: demo clean rc=$c patched rc=$m ; meta property $mp"
  for p in "$@"; do
    out=$(PYPOSE_REPO=$wt timeout 1800 /venv/bin/python check.py --property $p --tier quick --no-lean 2>&1); rc=$?
    echo "$g $k $p: rc=$rc $(echo "$out" | grep -c 'no-failing-input-found') nofail | $(echo "$out" | grep "$p quick" | tail -1 | cut -c1-150)"
    [ $rc -ne 0 ] && python3 - <<PY
import json,glob
for f in sorted(glob.glob('/verif/replays/${p}_seed0_0.json'))[:1]:
    d=json.load(open(f)); print('    ', str(d.get('what', d.get('kind')))[:220])
PY
  done
  git -C $wt checkout -q -- .
done
