import Proofs.Lemmas.Convert
import Proofs.Lemmas.ConvertGeneral
import Pose.Model.ConvertCall
/-!
# C11 — matrix and Euler conversions are exact inverses of `matrix()` / of each other

All statements are about the model `Pose/Model/Convert.lean` (+ `matrix()` of `Pose/Model/Lie.lean`) at `α = ℝ`.
`detK` is the determinant kernel (`torch.det`), a parameter with the contract `hdet : ∀ M, detK M = M.det`.
`canonQ atol p` is `p` or `−p` — the representative whose dominant component (the one the selected candidate
divides by) is positive; `canonQ_cases`, `canonQ_normSq`, `SO3matrix_canonQ` say it is the same rotation.
Floating-point rounding is outside the theorems (measured by the correspondence check).
-/
namespace PP
open Vec3 Quat Mat3

/-- unit quaternion (and positive scale): what the property calls "an element" -/
def C11.ValidSE3 (X : SE3 ℝ) : Prop := X.q.normSq = 1
def C11.ValidSim3 (X : Sim3 ℝ) : Prop := X.q.normSq = 1 ∧ 0 < X.s
def C11.ValidRxSO3 (X : RxSO3 ℝ) : Prop := X.q.normSq = 1 ∧ 0 < X.s

/-! ## 1. `mat2SO3` inverts `matrix()` — all four branch regions, every angle incl. π -/

/-- in whichever of the four mask regions the matrix of a unit quaternion falls, the selected `t_i` is
`≥ 1 − |atol|` : the square root is taken of a positive number and nothing is divided by ~0 -/
theorem mat2SO3_selected_t_pos (p : Quat ℝ) (h : p.normSq = 1) (atol : ℝ) :
    1 - |atol| ≤ (candOf (SO3matrix p).transpose (mat2SO3Region atol (SO3matrix p).transpose)).t :=
  selected_t_ge p h atol

/-- branch agreement: *any* of the four candidates whose own component is non-zero gives `±p`, so a different
(e.g. rounded) mask decision changes at most the sign of the result -/
theorem mat2SO3_any_branch (p : Quat ℝ) (h : p.normSq = 1) (r : Nat) (hr : domComp r p ≠ 0) :
    (candOf (SO3matrix p).transpose r).toQuat = p ∨ (candOf (SO3matrix p).transpose r).toQuat = p.neg := by
  rw [cand_any_branch p h r hr]; split_ifs <;> simp

/-- the conversion proper on `matrix()` of a unit quaternion: exactly `±p` -/
theorem mat2SO3Raw_matrix (p : Quat ℝ) (h : p.normSq = 1) (atol : ℝ) (ha : |atol| < 1) :
    mat2SO3Raw atol (SO3matrix p) = canonQ atol p := mat2SO3Raw_rot p h atol ha

/-- **`mat2SO3(X.matrix())`**, `check` on or off, any tolerances `0 ≤ rtol`, `0 ≤ atol < 1`: never raises and
returns `±X` -/
theorem mat2SO3_matrix (detK : Mat3 ℝ → ℝ) (hdet : ∀ M, detK M = M.det) (check : Bool) (rtol atol : ℝ)
    (hr : 0 ≤ rtol) (ha0 : 0 ≤ atol) (ha1 : atol < 1) (p : Quat ℝ) (h : p.normSq = 1) :
    mat2SO3 detK check rtol atol (SO3matrix p) = .ok (canonQ atol p) := by
  unfold mat2SO3
  rw [orthOk_rot p h _ _ hr ha0, hdet, detOk_rot p h _ _ hr ha0, mat2SO3Raw_rot p h atol (by rw [abs_of_nonneg ha0]; exact ha1)]
  simp

/-- … hence same matrix, unit quaternion, equal to `X` up to sign -/
theorem mat2SO3_matrix_spec (detK : Mat3 ℝ → ℝ) (hdet : ∀ M, detK M = M.det) (check : Bool) (rtol atol : ℝ)
    (hr : 0 ≤ rtol) (ha0 : 0 ≤ atol) (ha1 : atol < 1) (p : Quat ℝ) (h : p.normSq = 1) :
    ∃ r, mat2SO3 detK check rtol atol (SO3matrix p) = .ok r ∧ SO3matrix r = SO3matrix p ∧ r.normSq = 1 ∧
      (r = p ∨ r = p.neg) ∧ ∀ v, r.act v = p.act v :=
  ⟨canonQ atol p, mat2SO3_matrix detK hdet check rtol atol hr ha0 ha1 p h, SO3matrix_canonQ atol p,
    by rw [canonQ_normSq, h], canonQ_cases atol p, canonQ_act atol p⟩

/-- batches of any length (the `allclose` tests look at the whole batch) -/
theorem mat2SO3Batch_matrix (detK : Mat3 ℝ → ℝ) (hdet : ∀ M, detK M = M.det) (check : Bool) (rtol atol : ℝ)
    (hr : 0 ≤ rtol) (ha0 : 0 ≤ atol) (ha1 : atol < 1) (ps : List (Quat ℝ)) (h : ∀ p ∈ ps, p.normSq = 1) :
    mat2SO3Batch detK check rtol atol (ps.map SO3matrix) = .ok (ps.map (canonQ atol)) := by
  rw [mat2SO3Batch_ok_of_all, List.map_map]
  · congr 1; apply List.map_congr_left; intro p hp
    exact mat2SO3Raw_rot p (h p hp) atol (by rw [abs_of_nonneg ha0]; exact ha1)
  · intro R hR
    obtain ⟨p, hp, rfl⟩ := List.mem_map.mp hR
    exact ⟨orthOk_rot p (h p hp) _ _ hr ha0, by rw [hdet]; exact detOk_rot p (h p hp) _ _ hr ha0⟩

/-- the double cover is exactly two-to-one: unit quaternions with the same matrix are equal up to sign -/
theorem SO3matrix_injective_up_to_sign (p r : Quat ℝ) (hp : p.normSq = 1) (hr : r.normSq = 1)
    (h : SO3matrix p = SO3matrix r) : p = r ∨ p = r.neg := SO3matrix_inj p r hp hr h

/-- **general form**: for *any* proper rotation matrix `R` (`R Rᵀ = 1`, `det R = 1` — not assumed to come from
`matrix()`), `mat2SO3` (check on or off) returns a unit quaternion whose matrix is `R` again -/
theorem mat2SO3_general (detK : Mat3 ℝ → ℝ) (hdet : ∀ M, detK M = M.det) (check : Bool) (rtol atol : ℝ)
    (hr : 0 ≤ rtol) (ha0 : 0 ≤ atol) (ha1 : atol < 1) (R : Mat3 ℝ) (hO : R.mul R.transpose = Mat3.one)
    (hD : R.det = 1) :
    ∃ r, mat2SO3 detK check rtol atol R = .ok r ∧ r.normSq = 1 ∧ SO3matrix r = R := by
  refine ⟨mat2SO3Raw atol R, ?_, mat2SO3Raw_general R hO hD atol (by rw [abs_of_nonneg ha0]; exact ha1)⟩
  have h1 : orthOk rtol atol R = true := by unfold orthOk; rw [hO]; exact Mat3.allclose_self _ _ _ hr ha0
  have h2 : detOk rtol atol (detK R) = true := by
    unfold detOk; rw [hdet, hD]; simpa using closeTo_self rtol atol 1 hr ha0
  unfold mat2SO3; simp [h1, h2]

/-- every proper rotation matrix is the matrix of a unit quaternion (surjectivity of the double cover), the
witness being what `mat2SO3` computes -/
theorem rotation_has_quaternion (R : Mat3 ℝ) (hO : R.mul R.transpose = Mat3.one) (hD : R.det = 1) :
    ∃ r : Quat ℝ, r.normSq = 1 ∧ SO3matrix r = R :=
  ⟨mat2SO3Raw 0 R, mat2SO3Raw_general R hO hD 0 (by simp)⟩

/-- on *any* matrix at all (valid or not) the selected `t_i` is positive — the mask inequalities alone give
`t0 > 1 − atol` in region 0, …, `t3 ≥ 1 + atol` in region 3 — so `mat2SO3(check=False)` never takes the root of a
negative number or divides by zero -/
theorem mat2SO3_selected_t_pos_any (R : Mat3 ℝ) (atol : ℝ) (ha : |atol| < 1) :
    0 < (candOf R.transpose (mat2SO3Region atol R.transpose)).t := selected_t_pos_general R atol ha

/-! ## 2. layouts 3×3 / 3×4 / 4×4, translation and scale blocks -/

/-- `SO3` from any layout: only the top-left 3×3 block of the input is read -/
theorem fromMatrix_SO3_block (lay : Layout) (p : Quat ℝ) : (MatIn.ofDMat lay (SO3matrix p).toRows).R = SO3matrix p :=
  MatIn.ofDMat_SO3 lay p

/-- `mat2SE3` on `X.matrix()` given as 3×3 (translation dropped → zeros), 3×4 or 4×4, batch of any length -/
theorem mat2SE3Batch_matrix (detK : Mat3 ℝ → ℝ) (hdet : ∀ M, detK M = M.det) (check : Bool) (rtol atol : ℝ)
    (hr : 0 ≤ rtol) (ha0 : 0 ≤ atol) (ha1 : atol < 1) (lay : Layout) (Xs : List (SE3 ℝ))
    (h : ∀ X ∈ Xs, C11.ValidSE3 X) :
    mat2SE3Batch detK check rtol atol (Xs.map fun X => MatIn.ofDMat lay (SE3matrix X))
      = .ok (Xs.map fun X => ⟨if lay = .m33 then Vec3.zero else X.t, canonQ atol X.q⟩) := by
  unfold mat2SE3Batch
  have hR : (Xs.map fun X => MatIn.ofDMat lay (SE3matrix X)).map (·.R) = (Xs.map (·.q)).map SO3matrix := by
    rw [List.map_map, List.map_map]; apply List.map_congr_left; intro X _
    simp [MatIn.ofDMat_SE3]
  rw [hR, mat2SO3Batch_matrix detK hdet check rtol atol hr ha0 ha1 (Xs.map (·.q))
    (by intro p hp; obtain ⟨X, hX, rfl⟩ := List.mem_map.mp hp; exact h X hX)]
  simp only [List.map_map, List.zipWith_map, List.zipWith_self]
  congr 1; apply List.map_congr_left; intro X _
  simp only [MatIn.ofDMat_SE3, MatIn.tOf, Function.comp]
  cases lay <;> simp

/-- scale extraction: the cube root of the determinant of `s·R(q)` is `s` -/
theorem cbrt_det (s : ℝ) (hs : 0 < s) (p : Quat ℝ) (h : p.normSq = 1) :
    powThird (Mat3.smul s (SO3matrix p)).det = some s := by
  rw [Mat3.det_smul, rot_det p h, mul_one, powThird_cube s hs]

/-- `mat2Sim3` on `X.matrix()` in any layout, batch of any length (incl. empty), not all scales `≤ atol`:
same translation, `±` same quaternion, same scale.
(`hbig` is implied by the property's range `s ∈ [1e-3, 1e3]` and the default `atol = 1e-5`.) -/
theorem mat2Sim3Batch_matrix (detK : Mat3 ℝ → ℝ) (hdet : ∀ M, detK M = M.det) (check : Bool)
    (rtol atol : ℝ) (hr : 0 ≤ rtol) (ha0 : 0 ≤ atol) (ha1 : atol < 1) (lay : Layout) (Xs : List (Sim3 ℝ))
    (h : ∀ X ∈ Xs, C11.ValidSim3 X) (hbig : Xs ≠ [] → ∃ X ∈ Xs, atol < X.s) :
    mat2Sim3Batch detK check rtol atol (Xs.map fun X => MatIn.ofDMat lay (Sim3matrix X))
      = .ok (Xs.map fun X => ⟨if lay = .m33 then Vec3.zero else X.t, canonQ atol X.q, X.s⟩) := by
  unfold mat2Sim3Batch
  have hR : (Xs.map fun X => MatIn.ofDMat lay (Sim3matrix X)).map (·.R)
      = (Xs.map fun X => (X.q, X.s)).map fun p => Mat3.smul p.2 (SO3matrix p.1) := by
    rw [List.map_map, List.map_map]; apply List.map_congr_left; intro X _
    simp [MatIn.ofDMat_Sim3]
  rw [hR, scaledRotBatch_valid detK hdet check rtol atol hr ha0 ha1 (Xs.map fun X => (X.q, X.s))
    (by intro p hp; obtain ⟨X, hX, rfl⟩ := List.mem_map.mp hp; exact h X hX)
    (by intro hne; obtain ⟨X, hX, hb⟩ := hbig (by intro h0; rw [h0] at hne; exact hne rfl)
        exact ⟨(X.q, X.s), List.mem_map.mpr ⟨X, hX, rfl⟩, hb⟩)]
  simp only [List.map_map, List.zipWith_map, List.zipWith_self]
  congr 1; apply List.map_congr_left; intro X _
  simp only [MatIn.ofDMat_Sim3, MatIn.tOf, Function.comp]
  cases lay <;> simp

/-- `mat2RxSO3` likewise (the translation column of a 3×4 / 4×4 input is ignored) -/
theorem mat2RxSO3Batch_matrix (detK : Mat3 ℝ → ℝ) (hdet : ∀ M, detK M = M.det) (check : Bool)
    (rtol atol : ℝ) (hr : 0 ≤ rtol) (ha0 : 0 ≤ atol) (ha1 : atol < 1) (lay : Layout) (Xs : List (RxSO3 ℝ))
    (h : ∀ X ∈ Xs, C11.ValidRxSO3 X) (hbig : Xs ≠ [] → ∃ X ∈ Xs, atol < X.s) :
    mat2RxSO3Batch detK check rtol atol (Xs.map fun X => MatIn.ofDMat lay (RxSO3matrix X))
      = .ok (Xs.map fun X => ⟨canonQ atol X.q, X.s⟩) := by
  unfold mat2RxSO3Batch
  have hR : (Xs.map fun X => MatIn.ofDMat lay (RxSO3matrix X)).map (·.R)
      = (Xs.map fun X => (X.q, X.s)).map fun p => Mat3.smul p.2 (SO3matrix p.1) := by
    rw [List.map_map, List.map_map]; apply List.map_congr_left; intro X _
    simp [MatIn.ofDMat_RxSO3]
  rw [hR, scaledRotBatch_valid detK hdet check rtol atol hr ha0 ha1 (Xs.map fun X => (X.q, X.s))
    (by intro p hp; obtain ⟨X, hX, rfl⟩ := List.mem_map.mp hp; exact h X hX)
    (by intro hne; obtain ⟨X, hX, hb⟩ := hbig (by intro h0; rw [h0] at hne; exact hne rfl)
        exact ⟨(X.q, X.s), List.mem_map.mpr ⟨X, hX, rfl⟩, hb⟩)]
  simp only [List.map_map]
  congr 1

/-- one item -/
theorem mat2Sim3_matrix (detK : Mat3 ℝ → ℝ) (hdet : ∀ M, detK M = M.det) (check : Bool) (rtol atol : ℝ)
    (hr : 0 ≤ rtol) (ha0 : 0 ≤ atol) (ha1 : atol < 1) (lay : Layout) (X : Sim3 ℝ) (h : C11.ValidSim3 X)
    (hbig : atol < X.s) :
    mat2Sim3 detK check rtol atol (MatIn.ofDMat lay (Sim3matrix X))
      = .ok ⟨if lay = .m33 then Vec3.zero else X.t, canonQ atol X.q, X.s⟩ := by
  have := mat2Sim3Batch_matrix detK hdet check rtol atol hr ha0 ha1 lay [X]
    (by intro Y hY; rw [List.mem_singleton.mp hY]; exact h) (fun _ => ⟨X, by simp, hbig⟩)
  simp only [List.map_cons, List.map_nil] at this
  unfold mat2Sim3; rw [this]

theorem mat2RxSO3_matrix (detK : Mat3 ℝ → ℝ) (hdet : ∀ M, detK M = M.det) (check : Bool) (rtol atol : ℝ)
    (hr : 0 ≤ rtol) (ha0 : 0 ≤ atol) (ha1 : atol < 1) (lay : Layout) (X : RxSO3 ℝ) (h : C11.ValidRxSO3 X)
    (hbig : atol < X.s) :
    mat2RxSO3 detK check rtol atol (MatIn.ofDMat lay (RxSO3matrix X)) = .ok ⟨canonQ atol X.q, X.s⟩ := by
  have := mat2RxSO3Batch_matrix detK hdet check rtol atol hr ha0 ha1 lay [X]
    (by intro Y hY; rw [List.mem_singleton.mp hY]; exact h) (fun _ => ⟨X, by simp, hbig⟩)
  simp only [List.map_cons, List.map_nil] at this
  unfold mat2RxSO3; rw [this]

/-- **general form** of the scaled conversion: any `[s·R | t]` with `R` a proper rotation (not assumed to come from
a quaternion), `s > atol`: same translation, same scale, a unit quaternion with matrix `R` -/
theorem mat2Sim3_general (detK : Mat3 ℝ → ℝ) (hdet : ∀ M, detK M = M.det) (check : Bool) (rtol atol : ℝ)
    (hr : 0 ≤ rtol) (ha0 : 0 ≤ atol) (ha1 : atol < 1) (lay : Layout) (R : Mat3 ℝ)
    (hO : R.mul R.transpose = Mat3.one) (hD : R.det = 1) (t : Vec3 ℝ) (s : ℝ) (hs : atol < s) :
    ∃ X, mat2Sim3 detK check rtol atol ⟨lay, Mat3.smul s R, t, ⟨0, 0, 0⟩, 1⟩ = .ok X ∧ X.s = s ∧
      X.t = (if lay = .m33 then Vec3.zero else t) ∧ X.q.normSq = 1 ∧ SO3matrix X.q = R := by
  obtain ⟨r, hr1, hrR⟩ := rotation_has_quaternion R hO hD
  have h := mat2Sim3_matrix detK hdet check rtol atol hr ha0 ha1 lay ⟨t, r, s⟩ ⟨hr1, lt_of_le_of_lt ha0 hs⟩ hs
  rw [MatIn.ofDMat_Sim3] at h
  simp only [hrR] at h
  exact ⟨_, h, rfl, rfl, by rw [canonQ_normSq]; exact hr1, by rw [SO3matrix_canonQ]; exact hrR⟩

theorem mat2RxSO3_general (detK : Mat3 ℝ → ℝ) (hdet : ∀ M, detK M = M.det) (check : Bool) (rtol atol : ℝ)
    (hr : 0 ≤ rtol) (ha0 : 0 ≤ atol) (ha1 : atol < 1) (lay : Layout) (R : Mat3 ℝ)
    (hO : R.mul R.transpose = Mat3.one) (hD : R.det = 1) (s : ℝ) (hs : atol < s) :
    ∃ X, mat2RxSO3 detK check rtol atol ⟨lay, Mat3.smul s R, ⟨0, 0, 0⟩, ⟨0, 0, 0⟩, 1⟩ = .ok X ∧ X.s = s ∧
      X.q.normSq = 1 ∧ SO3matrix X.q = R := by
  obtain ⟨r, hr1, hrR⟩ := rotation_has_quaternion R hO hD
  have h := mat2RxSO3_matrix detK hdet check rtol atol hr ha0 ha1 lay ⟨r, s⟩ ⟨hr1, lt_of_le_of_lt ha0 hs⟩ hs
  rw [MatIn.ofDMat_RxSO3] at h
  simp only [hrR] at h
  exact ⟨_, h, rfl, by rw [canonQ_normSq]; exact hr1, by rw [SO3matrix_canonQ]; exact hrR⟩

theorem mat2SE3_general (detK : Mat3 ℝ → ℝ) (hdet : ∀ M, detK M = M.det) (check : Bool) (rtol atol : ℝ)
    (hr : 0 ≤ rtol) (ha0 : 0 ≤ atol) (ha1 : atol < 1) (m : MatIn ℝ)
    (hO : m.R.mul m.R.transpose = Mat3.one) (hD : m.R.det = 1) :
    ∃ X, mat2SE3 detK check rtol atol m = .ok X ∧ X.t = m.tOf ∧ X.q.normSq = 1 ∧ SO3matrix X.q = m.R := by
  obtain ⟨r, h1, h2, h3⟩ := mat2SO3_general detK hdet check rtol atol hr ha0 ha1 m.R hO hD
  exact ⟨⟨m.tOf, r⟩, by unfold mat2SE3; rw [h1], rfl, h2, h3⟩

/-- "same matrix": the element returned for `X.matrix()` has the matrix of `X` again (4×4 input) -/
theorem mat2Sim3_same_matrix (atol : ℝ) (X : Sim3 ℝ) :
    Sim3matrix ⟨X.t, canonQ atol X.q, X.s⟩ = Sim3matrix X := by
  simp only [Sim3matrix, matrix4, Sim3Act4, canonQ_act]
theorem mat2SE3_same_matrix (atol : ℝ) (X : SE3 ℝ) : SE3matrix ⟨X.t, canonQ atol X.q⟩ = SE3matrix X := by
  simp only [SE3matrix, matrix4, SE3Act4, canonQ_act]
theorem mat2RxSO3_same_matrix (atol : ℝ) (X : RxSO3 ℝ) : RxSO3matrix ⟨canonQ atol X.q, X.s⟩ = RxSO3matrix X := by
  simp only [RxSO3matrix, matrix4, RxSO3Act4, canonQ_act]

/-- the empty batch converts to the empty batch (this is what the D26 repair restored: before it the rank test
fired on an empty batch, and the comparison raised for batch shapes like `(2,3)`) -/
theorem mat2Sim3Batch_empty (detK : Mat3 ℝ → ℝ) (check : Bool) (rtol atol : ℝ) :
    mat2Sim3Batch detK check rtol atol [] = .ok [] ∧ mat2RxSO3Batch detK check rtol atol [] = .ok [] := by
  simp [mat2Sim3Batch, mat2RxSO3Batch, scaledRotBatch, rankTestFails, mat2SO3Batch]

/-- `from_matrix` dispatches to the four converters (result in storage order) -/
theorem fromMatrix_dispatch (detK : Mat3 ℝ → ℝ) (check : Bool) (rtol atol : ℝ) (ms : List (MatIn ℝ)) :
    fromMatrixBatch .SO3 detK check rtol atol ms = (mat2SO3Batch detK check rtol atol (ms.map (·.R))).map (·.map Quat.toList) ∧
    fromMatrixBatch .SE3 detK check rtol atol ms = (mat2SE3Batch detK check rtol atol ms).map (·.map SE3.toList) ∧
    fromMatrixBatch .Sim3 detK check rtol atol ms = (mat2Sim3Batch detK check rtol atol ms).map (·.map Sim3.toList) ∧
    fromMatrixBatch .RxSO3 detK check rtol atol ms = (mat2RxSO3Batch detK check rtol atol ms).map (·.map RxSO3.toList) :=
  ⟨rfl, rfl, rfl, rfl⟩

/-! ## 3. Euler angles -/

/-- `euler2SO3 (roll, pitch, yaw)` is the rotation `Rz(yaw)·Ry(pitch)·Rx(roll)`, for all real angles -/
theorem euler2SO3_eq (e : Vec3 ℝ) : SO3matrix (euler2SO3 e) = eulerMat e := euler2SO3_matrix' e
/-- … and a unit quaternion -/
theorem euler2SO3_unit (e : Vec3 ℝ) : (euler2SO3 e).normSq = 1 := euler2SO3_normSq' e

/-- `euler ∘ euler2SO3 = id` on the principal ranges whenever `|sin pitch| < 1 − eps` -/
theorem euler_inverse (eps : ℝ) (heps : 0 ≤ eps) (e : Vec3 ℝ)
    (hr : e.x ∈ Set.Ioc (-Real.pi) Real.pi) (hp : e.y ∈ Set.Icc (-(Real.pi / 2)) (Real.pi / 2))
    (hy : e.z ∈ Set.Ioc (-Real.pi) Real.pi) (hreg : |Real.sin e.y| < 1 - eps) :
    SO3euler eps (euler2SO3 e) = e := SO3euler_euler2SO3 eps e hr hp hy hreg heps

/-- **converse**: for every unit `X` away from gimbal lock (`|sin pitch| = |t2| < 1 − eps`),
`euler2SO3 (X.euler())` has the matrix of `X` … -/
theorem euler2SO3_euler_same_rotation (eps : ℝ) (heps : 0 ≤ eps) (p : Quat ℝ) (h : p.normSq = 1)
    (hreg : eulerRegular eps p = true) : SO3matrix (euler2SO3 (SO3euler eps p)) = SO3matrix p := by
  rw [euler2SO3_matrix', eulerMat_SO3euler eps heps p h hreg]

/-- … i.e. it is `X` or `−X` -/
theorem euler2SO3_euler (eps : ℝ) (heps : 0 ≤ eps) (p : Quat ℝ) (h : p.normSq = 1)
    (hreg : eulerRegular eps p = true) :
    euler2SO3 (SO3euler eps p) = p ∨ euler2SO3 (SO3euler eps p) = p.neg :=
  SO3matrix_inj _ _ (euler2SO3_normSq' _) h (euler2SO3_euler_same_rotation eps heps p h hreg)

/-- **inside the gimbal-lock band, documented expectation**: exactly at lock (`sin pitch = ±1`) the singular-branch
formulas of `euler()` (`roll = 0`, `pitch = ±π/2`, `yaw = −2·pm(t2)·atan2(x, w)`) reproduce the rotation exactly,
`Rz(yaw)·Ry(pitch)·Rx(0) = R(X)`; away from lock inside the band the deviation grows with `acos|sin pitch| ≤ √(2·eps)`
(measured ≤ 1.12·acos|t2| by the harness oracle `gimbal`, not proved) -/
theorem euler_gimbal_lock_exact (eps : ℝ) (heps : 0 ≤ eps) (p : Quat ℝ) (h : p.normSq = 1)
    (hlock : 2 * (p.w * p.y - p.z * p.x) = 1 ∨ 2 * (p.w * p.y - p.z * p.x) = -1) :
    SO3matrix (euler2SO3 (SO3euler eps p)) = SO3matrix p ∧
      (euler2SO3 (SO3euler eps p) = p ∨ euler2SO3 (SO3euler eps p) = p.neg) := by
  have hm : SO3matrix (euler2SO3 (SO3euler eps p)) = SO3matrix p := by
    rw [euler2SO3_matrix', eulerMat_SO3euler_gimbal eps heps p h hlock]
  exact ⟨hm, SO3matrix_inj _ _ (euler2SO3_normSq' _) h hm⟩

/-- `eulerRegular` is the stated condition: on a unit quaternion `t2 = 2(wy − zx) = sin(pitch)` -/
theorem eulerRegular_iff (eps : ℝ) (p : Quat ℝ) (h : p.normSq = 1) :
    eulerRegular eps p = true ↔ |2 * (p.w * p.y - p.z * p.x)| < 1 - eps := by
  simp [eulerRegular, eulerT_unit p h, sabs_real]

/-- returned angles are in their principal ranges: roll, yaw ∈ (−π, π] (regular branch), pitch ∈ [−π/2, π/2] (always) -/
theorem euler_ranges (eps : ℝ) (p : Quat ℝ) (hreg : eulerRegular eps p = true) :
    (SO3euler eps p).x ∈ Set.Ioc (-Real.pi) Real.pi ∧ (SO3euler eps p).y ∈ Set.Icc (-(Real.pi / 2)) (Real.pi / 2) ∧
    (SO3euler eps p).z ∈ Set.Ioc (-Real.pi) Real.pi :=
  ⟨(SO3euler_ranges eps p hreg).1, SO3euler_pitch_range eps p, (SO3euler_ranges eps p hreg).2⟩

/-- the pitch returned is `arcsin (sin pitch)` clamped — in range for *every* quaternion, also at gimbal lock -/
theorem euler_pitch_range (eps : ℝ) (p : Quat ℝ) :
    (SO3euler eps p).y ∈ Set.Icc (-(Real.pi / 2)) (Real.pi / 2) := SO3euler_pitch_range eps p

/-! ## 4. `check=True` : accepts every valid input, rejects beyond the tolerances -/

/-- valid inputs never raise (SO3 block tests): exact rotations pass both `allclose` tests for any
`rtol, atol ≥ 0` -/
theorem check_accepts_valid (rtol atol : ℝ) (hr : 0 ≤ rtol) (ha : 0 ≤ atol) (p : Quat ℝ) (h : p.normSq = 1) :
    orthOk rtol atol (SO3matrix p) = true ∧ detOk rtol atol (SO3matrix p).det = true :=
  ⟨orthOk_rot p h rtol atol hr ha, detOk_rot p h rtol atol hr ha⟩

/-- the acceptance test, spelled out: `mat2SO3(check=True)` returns iff every entry of `R Rᵀ − 1` is within
`atol` (`atol + rtol` on the diagonal) and `|det R − 1| ≤ atol + rtol`; the value is then the conversion proper -/
theorem mat2SO3_check_iff (detK : Mat3 ℝ → ℝ) (hdet : ∀ M, detK M = M.det) (rtol atol : ℝ) (R : Mat3 ℝ) (q : Quat ℝ) :
    mat2SO3 detK true rtol atol R = .ok q ↔
      ((|(R.mul R.transpose).r0.x - 1| ≤ atol + rtol ∧ |(R.mul R.transpose).r1.y - 1| ≤ atol + rtol ∧
        |(R.mul R.transpose).r2.z - 1| ≤ atol + rtol) ∧
       (|(R.mul R.transpose).r0.y| ≤ atol ∧ |(R.mul R.transpose).r0.z| ≤ atol ∧ |(R.mul R.transpose).r1.x| ≤ atol ∧
        |(R.mul R.transpose).r1.z| ≤ atol ∧ |(R.mul R.transpose).r2.x| ≤ atol ∧ |(R.mul R.transpose).r2.y| ≤ atol)) ∧
      |R.det - 1| ≤ atol + rtol ∧ q = mat2SO3Raw atol R := by
  rw [mat2SO3_ok_iff, orthOk_iff, hdet, detOk_iff]

/-- rejection: a matrix that fails either test raises (`ValueError`), with the orthogonality message first -/
theorem check_rejects (detK : Mat3 ℝ → ℝ) (rtol atol : ℝ) (R : Mat3 ℝ)
    (hbad : orthOk rtol atol R = false ∨ detOk rtol atol (detK R) = false) :
    mat2SO3 detK true rtol atol R = .error .notOrthogonal ∨ mat2SO3 detK true rtol atol R = .error .detNotOne := by
  unfold mat2SO3
  by_cases h1 : orthOk rtol atol R = true
  · rcases hbad with hb | hb
    · rw [hb] at h1; exact absurd h1 (by simp)
    · right; simp [h1, hb]
  · left; simp [h1]

/-- in a batch one bad item anywhere makes the whole call raise -/
theorem check_rejects_batch (detK : Mat3 ℝ → ℝ) (rtol atol : ℝ) (Rs : List (Mat3 ℝ))
    (h : ∃ R ∈ Rs, orthOk rtol atol R = false ∨ detOk rtol atol (detK R) = false) :
    ∃ e, mat2SO3Batch detK true rtol atol Rs = .error e := mat2SO3Batch_error_of_bad detK rtol atol Rs h

/-- and a batch is accepted iff every item passes both tests -/
theorem check_batch_iff (detK : Mat3 ℝ → ℝ) (rtol atol : ℝ) (Rs : List (Mat3 ℝ)) :
    mat2SO3Batch detK true rtol atol Rs = .ok (Rs.map (mat2SO3Raw atol)) ↔
      ∀ R ∈ Rs, orthOk rtol atol R = true ∧ detOk rtol atol (detK R) = true := by
  constructor
  · intro hok R hR
    by_contra hc
    have hbad : orthOk rtol atol R = false ∨ detOk rtol atol (detK R) = false := by
      by_cases h1 : orthOk rtol atol R = true
      · right; simpa [h1] using hc
      · left; simpa using h1
    obtain ⟨e, he⟩ := mat2SO3Batch_error_of_bad detK rtol atol Rs ⟨R, hR, hbad⟩
    rw [he] at hok; exact absurd hok (by simp)
  · exact mat2SO3Batch_ok_of_all detK true rtol atol Rs

/-- a uniformly scaled rotation `c·R(q)` with `|c² − 1| > atol + rtol` is *not* a rotation: `mat2SO3` raises -/
theorem check_rejects_scaled (detK : Mat3 ℝ → ℝ) (rtol atol c : ℝ) (p : Quat ℝ) (h : p.normSq = 1)
    (hc : atol + rtol < |c * c - 1|) :
    mat2SO3 detK true rtol atol (Mat3.smul c (SO3matrix p)) = .error .notOrthogonal := by
  have horth : orthOk rtol atol (Mat3.smul c (SO3matrix p)) = false := by
    apply Bool.eq_false_iff.mpr; intro hok
    have h00 := ((orthOk_iff _ _ _).mp hok).1.1
    have e : ((Mat3.smul c (SO3matrix p)).mul (Mat3.smul c (SO3matrix p)).transpose).r0.x
        = c * c * ((SO3matrix p).mul (SO3matrix p).transpose).r0.x := by lie_unfold; ring
    rw [e, rot_orthogonal p h] at h00
    simp only [Mat3.one, Vec3.e0, k_real, Nat.cast_one, mul_one] at h00
    linarith
  unfold mat2SO3; simp [horth]

/-- scaled conversions: a non-empty rank-deficient batch (every determinant `0`) raises "not full rank" whatever `check` -/
theorem scaled_rejects_rank_deficient (detK : Mat3 ℝ → ℝ) (check : Bool) (rtol atol : ℝ) (hr : 0 ≤ rtol)
    (ha : 0 ≤ atol) (Rs : List (Mat3 ℝ)) (hne : Rs ≠ []) (h : ∀ R ∈ Rs, detK R = 0) :
    scaledRotBatch detK check rtol atol Rs = .error .notFullRank := by
  have : rankTestFails rtol atol (Rs.map fun R => powThird (detK R)) = true := by
    unfold rankTestFails
    rw [Bool.and_eq_true]
    refine ⟨by simpa using hne, ?_⟩
    apply List.all_eq_true.mpr; intro s hs
    obtain ⟨R, hR, rfl⟩ := List.mem_map.mp hs
    rw [h R hR]
    have : powThird (0 : ℝ) = some 0 := by simp [powThird]
    rw [this]; simpa [scaleTiny] using closeTo_self rtol atol 0 hr ha
  unfold scaledRotBatch; simp only [this, if_true]

/-- scaled conversions with `check=True`: an item with non-positive determinant (reflection, rank-deficient
item in a batch of good ones) makes the call raise -/
theorem scaled_rejects_nonpositive_det (detK : Mat3 ℝ → ℝ) (rtol atol : ℝ) (Rs : List (Mat3 ℝ))
    (h : ∃ R ∈ Rs, detK R ≤ 0) : ∃ e, scaledRotBatch detK true rtol atol Rs = .error e := by
  obtain ⟨R, hR, hd⟩ := h
  unfold scaledRotBatch
  by_cases h1 : rankTestFails rtol atol (Rs.map fun R => powThird (detK R)) = true
  · exact ⟨.notFullRank, by simp only [h1, if_true]⟩
  · have h2 : ((Rs.map fun R => powThird (detK R)).all fun s => (scaleUsable s).isSome) = false := by
      apply Bool.eq_false_iff.mpr; intro hall
      have := List.all_eq_true.mp hall (powThird (detK R)) (List.mem_map.mpr ⟨R, hR, rfl⟩)
      have hnp : ¬ (0 : ℝ) < detK R := not_lt.mpr hd
      by_cases hneg : detK R < 0
      · simp [powThird, hnp, hneg, scaleUsable] at this
      · simp [powThird, hnp, hneg, scaleUsable] at this
    exact ⟨.notOrthogonal, by simp [h1, h2]⟩

/-- rejection for the scaled conversions: a block with positive determinant whose normalisation `R / det^{1/3}`
fails the orthogonality or determinant test makes the call raise -/
theorem scaled_rejects_nonrotation (detK : Mat3 ℝ → ℝ) (rtol atol : ℝ) (Rs : List (Mat3 ℝ))
    (h : ∃ R ∈ Rs, 0 < detK R ∧ (orthOk rtol atol (Mat3.divS R (cbrtOf (detK R))) = false ∨
      detOk rtol atol (detK (Mat3.divS R (cbrtOf (detK R)))) = false)) :
    ∃ e, scaledRotBatch detK true rtol atol Rs = .error e := by
  by_cases hrank : rankTestFails rtol atol (Rs.map fun R => powThird (detK R)) = true
  · exact ⟨.notFullRank, by unfold scaledRotBatch; simp only [hrank, if_true]⟩
  · by_cases hpos : ∀ R ∈ Rs, 0 < detK R
    · rw [scaledRotBatch_pos detK true rtol atol Rs hpos (by simpa using hrank)]
      obtain ⟨R, hR, _, hbad⟩ := h
      obtain ⟨e, he⟩ := mat2SO3Batch_error_of_bad detK rtol atol (Rs.map fun R => Mat3.divS R (cbrtOf (detK R)))
        ⟨_, List.mem_map.mpr ⟨R, hR, rfl⟩, hbad⟩
      exact ⟨e, by rw [he]⟩
    · have hpos' : ∃ R ∈ Rs, detK R ≤ 0 := by
        by_contra hc
        exact hpos (fun R hR => by by_contra hn; exact hc ⟨R, hR, not_lt.mp hn⟩)
      obtain ⟨R, hR, hd⟩ := hpos'
      have h2 : ((Rs.map fun R => powThird (detK R)).all fun s => (scaleUsable s).isSome) = false := by
        apply Bool.eq_false_iff.mpr; intro hall
        have := List.all_eq_true.mp hall (powThird (detK R)) (List.mem_map.mpr ⟨R, hR, rfl⟩)
        have hnp : ¬ (0 : ℝ) < detK R := not_lt.mpr hd
        by_cases hneg : detK R < 0
        · simp [powThird, hnp, hneg, scaleUsable] at this
        · simp [powThird, hnp, hneg, scaleUsable] at this
      exact ⟨.notOrthogonal, by unfold scaledRotBatch; simp [hrank, h2]⟩

/-- acceptance, complete: with every determinant positive and not all scales tiny, the scaled conversions return
iff every normalised block passes both tests; the value is then `(mat2SO3Raw (R/ŝ), ŝ)` item-wise -/
theorem scaled_check_iff (detK : Mat3 ℝ → ℝ) (rtol atol : ℝ) (Rs : List (Mat3 ℝ))
    (hpos : ∀ R ∈ Rs, 0 < detK R)
    (hrank : rankTestFails rtol atol (Rs.map fun R => powThird (detK R)) = false) :
    scaledRotBatch detK true rtol atol Rs
        = .ok (Rs.map fun R => (mat2SO3Raw atol (Mat3.divS R (cbrtOf (detK R))), cbrtOf (detK R))) ↔
      ∀ R ∈ Rs, orthOk rtol atol (Mat3.divS R (cbrtOf (detK R))) = true ∧
        detOk rtol atol (detK (Mat3.divS R (cbrtOf (detK R)))) = true := by
  rw [scaledRotBatch_pos detK true rtol atol Rs hpos hrank]
  constructor
  · intro hok R hR
    by_contra hc
    have hbad : orthOk rtol atol (Mat3.divS R (cbrtOf (detK R))) = false ∨
        detOk rtol atol (detK (Mat3.divS R (cbrtOf (detK R)))) = false := by
      by_cases h1 : orthOk rtol atol (Mat3.divS R (cbrtOf (detK R))) = true
      · right; simpa [h1] using hc
      · left; simpa using h1
    obtain ⟨e, he⟩ := mat2SO3Batch_error_of_bad detK rtol atol (Rs.map fun R => Mat3.divS R (cbrtOf (detK R)))
      ⟨_, List.mem_map.mpr ⟨R, hR, rfl⟩, hbad⟩
    rw [he] at hok; exact absurd hok (by simp)
  · intro hall
    rw [mat2SO3Batch_ok_of_all detK true rtol atol _ (by
      intro Q hQ; obtain ⟨R, hR, rfl⟩ := List.mem_map.mp hQ; exact hall R hR)]
    simp only [List.map_map, List.zip_eq_zipWith, List.zipWith_map, List.zipWith_self, Function.comp]

/-! ## 5. batched = item-wise (no batch-level shortcut in the model of the code) -/

/-- **batched = item-wise** (`mat2SO3`): the batch call returns iff every item converted alone returns, and then the
batch result is the list of the item results -/
theorem mat2SO3Batch_itemwise (detK : Mat3 ℝ → ℝ) (check : Bool) (rtol atol : ℝ) (Rs : List (Mat3 ℝ)) :
    mat2SO3Batch detK check rtol atol Rs = .ok (Rs.map (mat2SO3Raw atol)) ↔
      ∀ R ∈ Rs, mat2SO3 detK check rtol atol R = .ok (mat2SO3Raw atol R) := by
  cases check with
  | false => simp [mat2SO3Batch, mat2SO3]
  | true =>
    rw [check_batch_iff]
    constructor
    · intro h R hR; exact (mat2SO3_ok_iff detK rtol atol R _).mpr ⟨(h R hR).1, (h R hR).2, rfl⟩
    · intro h R hR
      have := (mat2SO3_ok_iff detK rtol atol R _).mp (h R hR)
      exact ⟨this.1, this.2.1⟩

/-- … and the batch call raises iff some item raises when converted alone (no batch-level `any`/`all` shortcut) -/
theorem mat2SO3Batch_raises_iff (detK : Mat3 ℝ → ℝ) (rtol atol : ℝ) (Rs : List (Mat3 ℝ)) :
    (∃ e, mat2SO3Batch detK true rtol atol Rs = .error e) ↔
      ∃ R ∈ Rs, ∃ e, mat2SO3 detK true rtol atol R = .error e := by
  constructor
  · rintro ⟨e, he⟩
    by_contra hc
    have hall : ∀ R ∈ Rs, mat2SO3 detK true rtol atol R = .ok (mat2SO3Raw atol R) := by
      intro R hR
      by_contra hne
      apply hc
      refine ⟨R, hR, ?_⟩
      rcases hm : mat2SO3 detK true rtol atol R with e' | q
      · exact ⟨e', rfl⟩
      · exfalso; apply hne; rw [hm]
        have := (mat2SO3_ok_iff detK rtol atol R q).mp hm
        rw [this.2.2]
    rw [(mat2SO3Batch_itemwise detK true rtol atol Rs).mpr hall] at he
    exact absurd he (by simp)
  · rintro ⟨R, hR, e, he⟩
    apply mat2SO3Batch_error_of_bad detK rtol atol Rs
    refine ⟨R, hR, ?_⟩
    by_contra hc
    have h1 : orthOk rtol atol R = true := by
      by_contra h; exact hc (Or.inl (by simpa using h))
    have h2 : detOk rtol atol (detK R) = true := by
      by_contra h; exact hc (Or.inr (by simpa using h))
    have := (mat2SO3_ok_iff detK rtol atol R _).mpr ⟨h1, h2, rfl⟩
    rw [this] at he; exact absurd he (by simp)

/-- **batched = item-wise** for the scaled conversions: with positive determinants and no item's scale inside the
rank-test tolerance, a batch is accepted iff each of its items is accepted when converted alone, with the same values -/
theorem scaledRotBatch_itemwise (detK : Mat3 ℝ → ℝ) (rtol atol : ℝ) (Rs : List (Mat3 ℝ))
    (hpos : ∀ R ∈ Rs, 0 < detK R) (hnt : ∀ R ∈ Rs, scaleTiny rtol atol (powThird (detK R)) = false) :
    scaledRotBatch detK true rtol atol Rs
        = .ok (Rs.map fun R => (mat2SO3Raw atol (Mat3.divS R (cbrtOf (detK R))), cbrtOf (detK R))) ↔
      ∀ R ∈ Rs, scaledRotBatch detK true rtol atol [R]
        = .ok [(mat2SO3Raw atol (Mat3.divS R (cbrtOf (detK R))), cbrtOf (detK R))] := by
  have hrank : rankTestFails rtol atol (Rs.map fun R => powThird (detK R)) = false := by
    unfold rankTestFails
    cases Rs with
    | nil => simp
    | cons R rest =>
      have := hnt R (by simp)
      simp [this]
  rw [scaled_check_iff detK rtol atol Rs hpos hrank]
  constructor
  · intro h R hR
    have h1 : rankTestFails rtol atol ([R].map fun R => powThird (detK R)) = false := by
      simp [rankTestFails, hnt R hR]
    have := (scaled_check_iff detK rtol atol [R] (by intro Q hQ; rw [List.mem_singleton.mp hQ]; exact hpos R hR) h1).mpr
      (by intro Q hQ; rw [List.mem_singleton.mp hQ]; exact h R hR)
    simpa using this
  · intro h R hR
    have h1 : rankTestFails rtol atol ([R].map fun R => powThird (detK R)) = false := by
      simp [rankTestFails, hnt R hR]
    have := (scaled_check_iff detK rtol atol [R] (by intro Q hQ; rw [List.mem_singleton.mp hQ]; exact hpos R hR) h1).mp
      (by simpa using h R hR)
    exact this R (by simp)


/-! ## 6. the optional arguments: what the result may and may not depend on -/

/-- on valid input the result does not depend on `check` nor on `rtol` (nor on the way they were passed): any two
admissible settings give the same element -/
theorem mat2SO3_matrix_indep (detK : Mat3 ℝ → ℝ) (hdet : ∀ M, detK M = M.det) (check check' : Bool)
    (rtol rtol' atol : ℝ) (hr : 0 ≤ rtol) (hr' : 0 ≤ rtol') (ha0 : 0 ≤ atol) (ha1 : atol < 1) (p : Quat ℝ)
    (h : p.normSq = 1) :
    mat2SO3 detK check rtol atol (SO3matrix p) = mat2SO3 detK check' rtol' atol (SO3matrix p) := by
  rw [mat2SO3_matrix detK hdet check rtol atol hr ha0 ha1 p h, mat2SO3_matrix detK hdet check' rtol' atol hr' ha0 ha1 p h]

/-- … and changing `atol` (which also moves the mask threshold) changes at most the sign of the quaternion -/
theorem mat2SO3_matrix_indep_atol (detK : Mat3 ℝ → ℝ) (hdet : ∀ M, detK M = M.det) (check check' : Bool)
    (rtol rtol' atol atol' : ℝ) (hr : 0 ≤ rtol) (hr' : 0 ≤ rtol') (ha0 : 0 ≤ atol) (ha1 : atol < 1)
    (ha0' : 0 ≤ atol') (ha1' : atol' < 1) (p : Quat ℝ) (h : p.normSq = 1) :
    ∃ q q', mat2SO3 detK check rtol atol (SO3matrix p) = .ok q ∧ mat2SO3 detK check' rtol' atol' (SO3matrix p) = .ok q' ∧
      (q = q' ∨ q = q'.neg) := by
  refine ⟨canonQ atol p, canonQ atol' p, mat2SO3_matrix detK hdet check rtol atol hr ha0 ha1 p h,
    mat2SO3_matrix detK hdet check' rtol' atol' hr' ha0' ha1' p h, ?_⟩
  rcases canonQ_cases atol p with a | a <;> rcases canonQ_cases atol' p with b | b <;> rw [a, b]
  · left; rfl
  · right; exact (Quat.neg_neg' p).symm
  · right; rfl
  · left; rfl

/-- the two tolerances are **not** interchangeable: the sheared matrix `1 + 3·10⁻⁴·e₀e₁ᵀ` is rejected with
`(rtol, atol) = (10⁻², 10⁻⁵)` and accepted with the two swapped — an implementation (or a caller) that passes them in
the wrong order is observably different -/
theorem check_tolerances_not_symmetric :
    orthOk (1 / 100) (1 / 100000) (⟨⟨1, 3 / 10000, 0⟩, ⟨0, 1, 0⟩, ⟨0, 0, 1⟩⟩ : Mat3 ℝ) = false ∧
    orthOk (1 / 100000) (1 / 100) (⟨⟨1, 3 / 10000, 0⟩, ⟨0, 1, 0⟩, ⟨0, 0, 1⟩⟩ : Mat3 ℝ) = true ∧
    detOk (1 / 100000) (1 / 100) (⟨⟨1, 3 / 10000, 0⟩, ⟨0, 1, 0⟩, ⟨0, 0, 1⟩⟩ : Mat3 ℝ).det = true := by
  refine ⟨?_, ?_, ?_⟩
  · apply Bool.eq_false_iff.mpr; intro hok
    have h := ((orthOk_iff _ _ _).mp hok).2.1
    revert h; lie_unfold; norm_num [abs_of_pos]
  · rw [orthOk_iff]; lie_unfold; norm_num [abs_of_pos, abs_of_nonneg]
  · rw [detOk_iff]; lie_unfold; norm_num


/-! ## 7. pass 3: ties, exact guards, guard band, calling glue -/
set_option linter.unusedTactic false
set_option linter.unreachableTactic false
set_option linter.unusedSimpArgs false

/-! ## which mask wins — the comparison operators of the code, ties included -/

theorem mat2SO3Region_zero_iff (atol : ℝ) (T : Mat3 ℝ) :
    mat2SO3Region atol T = 0 ↔ T.r2.z < atol ∧ T.r1.y < T.r0.x := by
  simp only [mat2SO3Region, lt_real]
  by_cases c2 : T.r2.z < atol <;> by_cases c01 : T.r1.y < T.r0.x <;> by_cases c3 : T.r0.x < -T.r1.y <;>
    simp [c2, c01, c3]
theorem mat2SO3Region_one_iff (atol : ℝ) (T : Mat3 ℝ) :
    mat2SO3Region atol T = 1 ↔ T.r2.z < atol ∧ T.r0.x ≤ T.r1.y := by
  simp only [mat2SO3Region, lt_real]
  by_cases c2 : T.r2.z < atol <;> by_cases c01 : T.r1.y < T.r0.x <;> by_cases c3 : T.r0.x < -T.r1.y <;>
    simp [c2, c01, c3, not_lt.mp, le_of_lt] <;> first | exact not_lt.mp c01 | exact c01 | skip
theorem mat2SO3Region_two_iff (atol : ℝ) (T : Mat3 ℝ) :
    mat2SO3Region atol T = 2 ↔ atol ≤ T.r2.z ∧ T.r0.x < -T.r1.y := by
  simp only [mat2SO3Region, lt_real]
  by_cases c2 : T.r2.z < atol <;> by_cases c01 : T.r1.y < T.r0.x <;> by_cases c3 : T.r0.x < -T.r1.y <;>
    simp [c2, c01, c3] <;> first | exact not_lt.mp c2 | exact c2 | skip
theorem mat2SO3Region_three_iff (atol : ℝ) (T : Mat3 ℝ) :
    mat2SO3Region atol T = 3 ↔ atol ≤ T.r2.z ∧ -T.r1.y ≤ T.r0.x := by
  simp only [mat2SO3Region, lt_real]
  by_cases c2 : T.r2.z < atol <;> by_cases c01 : T.r1.y < T.r0.x <;> by_cases c3 : T.r0.x < -T.r1.y <;>
    simp [c2, c01, c3] <;> first | exact ⟨not_lt.mp c2, not_lt.mp c3⟩ | exact fun _ => c3 | exact c2 | skip
/-! ## the exact guard on `atol` -/

/-- for `−1 < atol ≤ 1` the component the selected candidate divides by is non-zero on every rotation matrix -/
theorem region_dom_ne_zero (p : Quat ℝ) (h : p.normSq = 1) (atol : ℝ) (h1 : -1 < atol) (h2 : atol ≤ 1) :
    domComp (mat2SO3Region atol (SO3matrix p).transpose) p ≠ 0 := by
  have h' : p.x * p.x + p.y * p.y + p.z * p.z + p.w * p.w = 1 := h
  obtain ⟨e0, e1, e2⟩ := rot_diag p
  simp only [mat2SO3Region, lt_real, e0, e1, e2]
  by_cases c2 : 1 - 2 * (p.x * p.x + p.y * p.y) < atol
  · by_cases c01 : 1 - 2 * (p.x * p.x + p.z * p.z) < 1 - 2 * (p.y * p.y + p.z * p.z)
    · simp only [c2, c01, decide_true, ↓reduceIte, domComp]
      intro h0; have hq : p.x * p.x = 0 := by rw [h0]; ring
      nlinarith [mul_self_nonneg p.y]
    · simp only [c2, c01, decide_true, decide_false, ↓reduceIte, Bool.false_eq_true, domComp]
      intro h0; have hq : p.y * p.y = 0 := by rw [h0]; ring
      nlinarith [mul_self_nonneg p.x]
  · by_cases c0n1 : 1 - 2 * (p.y * p.y + p.z * p.z) < -(1 - 2 * (p.x * p.x + p.z * p.z))
    · simp only [c2, c0n1, decide_true, decide_false, ↓reduceIte, Bool.false_eq_true, domComp]
      intro h0; have hq : p.z * p.z = 0 := by rw [h0]; ring
      nlinarith [mul_self_nonneg p.w]
    · simp only [c2, c0n1, decide_false, ↓reduceIte, Bool.false_eq_true, domComp]
      intro h0; have hq : p.w * p.w = 0 := by rw [h0]; ring
      nlinarith [mul_self_nonneg p.z]

/-- **exact guard**: the round trip `mat2SO3Raw atol (R(p)) = ±p` holds for every mask threshold `−1 < atol ≤ 1`
(the property theorems assumed `0 ≤ atol < 1`) -/
theorem mat2SO3Raw_matrix_exact_guard (p : Quat ℝ) (h : p.normSq = 1) (atol : ℝ) (h1 : -1 < atol) (h2 : atol ≤ 1) :
    mat2SO3Raw atol (SO3matrix p) = canonQ atol p := by
  unfold mat2SO3Raw canonQ
  exact cand_any_branch p h _ (region_dom_ne_zero p h atol h1 h2)

/-- … and the guard is sharp above: for every `atol > 1` the identity matrix is sent to the zero quaternion
(candidate 1 with `t1 = 0`; in floating point `0/0 = NaN`) -/
theorem mat2SO3Raw_guard_sharp_above (atol : ℝ) (h : 1 < atol) :
    (mat2SO3Raw atol (SO3matrix (Quat.one : Quat ℝ))).normSq = 0 := by
  have e : SO3matrix (Quat.one : Quat ℝ) = Mat3.one := by unfold SO3matrix; ext <;> lie_unfold <;> ring
  rw [e]
  have hr : mat2SO3Region atol (Mat3.one : Mat3 ℝ).transpose = 1 := by
    rw [mat2SO3Region_one_iff]; lie_unfold; constructor <;> linarith
  unfold mat2SO3Raw
  simp only [hr, candOf, cand1, Cand.toQuat]
  lie_unfold
  simp

/-- … and below: for every `atol ≤ −1` the rotation by π about the x axis is sent to the zero quaternion -/
theorem mat2SO3Raw_guard_sharp_below (atol : ℝ) (h : atol ≤ -1) :
    (mat2SO3Raw atol (SO3matrix (⟨1, 0, 0, 0⟩ : Quat ℝ))).normSq = 0 := by
  have e : SO3matrix (⟨1, 0, 0, 0⟩ : Quat ℝ) = ⟨⟨1, 0, 0⟩, ⟨0, -1, 0⟩, ⟨0, 0, -1⟩⟩ := by
    unfold SO3matrix; ext <;> lie_unfold <;> ring
  rw [e]
  have hr : mat2SO3Region atol (⟨⟨1, 0, 0⟩, ⟨0, -1, 0⟩, ⟨0, 0, -1⟩⟩ : Mat3 ℝ).transpose = 3 := by
    rw [mat2SO3Region_three_iff]; lie_unfold; constructor <;> linarith
  unfold mat2SO3Raw
  simp only [hr, candOf, cand3, Cand.toQuat]
  lie_unfold
  simp

/-! ## ties: which candidate wins and which sign comes out -/

/-- tie `R00 = R11` (i.e. `x² = y²`) with `R22 < atol`: the code's strict `>` hands the tie to candidate 1, the result
has the sign of `y` -/
theorem mat2SO3Raw_tie_xy (p : Quat ℝ) (h : p.normSq = 1) (atol : ℝ) (h1 : -1 < atol) (h2 : atol ≤ 1)
    (hd2 : 1 - 2 * (p.x * p.x + p.y * p.y) < atol) (htie : p.x * p.x = p.y * p.y) :
    mat2SO3Raw atol (SO3matrix p) = if 0 < p.y then p else p.neg := by
  rw [mat2SO3Raw_matrix_exact_guard p h atol h1 h2]
  obtain ⟨e0, e1, e2⟩ := rot_diag p
  have hr : mat2SO3Region atol (SO3matrix p).transpose = 1 := by
    rw [mat2SO3Region_one_iff, e0, e1, e2]; exact ⟨hd2, by rw [htie]⟩
  unfold canonQ; rw [hr]; rfl

/-- tie `R00 = −R11` (i.e. `z² = w²`) with `R22 ≥ atol`: the strict `<` hands the tie to candidate 3, sign of `w` -/
theorem mat2SO3Raw_tie_zw (p : Quat ℝ) (h : p.normSq = 1) (atol : ℝ) (h1 : -1 < atol) (h2 : atol ≤ 1)
    (hd2 : atol ≤ 1 - 2 * (p.x * p.x + p.y * p.y)) (htie : p.z * p.z = p.w * p.w) :
    mat2SO3Raw atol (SO3matrix p) = if 0 < p.w then p else p.neg := by
  have h' : p.x * p.x + p.y * p.y + p.z * p.z + p.w * p.w = 1 := h
  rw [mat2SO3Raw_matrix_exact_guard p h atol h1 h2]
  obtain ⟨e0, e1, e2⟩ := rot_diag p
  have hr : mat2SO3Region atol (SO3matrix p).transpose = 3 := by
    rw [mat2SO3Region_three_iff, e0, e1, e2]; exact ⟨hd2, by nlinarith⟩
  unfold canonQ; rw [hr]; rfl

/-- the threshold itself belongs to the upper side: `R22 = atol` exactly selects candidate 2 or 3 (`<` is strict) -/
theorem mat2SO3Region_at_threshold (atol : ℝ) (T : Mat3 ℝ) (h : T.r2.z = atol) : 2 ≤ mat2SO3Region atol T := by
  by_cases c : T.r0.x < -T.r1.y
  · rw [(mat2SO3Region_two_iff atol T).mpr ⟨le_of_eq h.symm, c⟩]
  · rw [(mat2SO3Region_three_iff atol T).mpr ⟨le_of_eq h.symm, not_lt.mp c⟩]; norm_num


/-! ## exact guards of the acceptance clause -/

/-- exact rotations pass the two `allclose` tests **iff** `0 ≤ atol` and `0 ≤ atol + rtol` (the earlier theorems
assumed `0 ≤ rtol`, `0 ≤ atol`, which is stronger than what the tests need) -/
theorem check_accepts_valid_iff (rtol atol : ℝ) (p : Quat ℝ) (h : p.normSq = 1) :
    (orthOk rtol atol (SO3matrix p) = true ∧ detOk rtol atol (SO3matrix p).det = true) ↔
      0 ≤ atol ∧ 0 ≤ atol + rtol := by
  rw [orthOk_iff, detOk_iff, rot_orthogonal p h, rot_det p h]
  simp only [Mat3.one, Vec3.e0, Vec3.e1, Vec3.e2, k_real, Nat.cast_one, Nat.cast_zero, sub_self, abs_zero]
  constructor
  · rintro ⟨⟨⟨a, _, _⟩, ⟨b, _⟩⟩, _⟩; exact ⟨b, a⟩
  · rintro ⟨a, b⟩; exact ⟨⟨⟨b, b, b⟩, ⟨a, a, a, a, a, a⟩⟩, b⟩

/-- the rank test on valid elements, both directions: a non-empty batch of valid `s·R(q)` blocks is refused with
"not full rank" **iff** every scale is `≤ atol` -/
theorem scaled_valid_rank_iff (detK : Mat3 ℝ → ℝ) (hdet : ∀ M, detK M = M.det) (check : Bool) (rtol atol : ℝ)
    (hr : 0 ≤ rtol) (ha0 : 0 ≤ atol) (ha1 : atol < 1) (ps : List (Quat ℝ × ℝ)) (hne : ps ≠ [])
    (hv : ∀ p ∈ ps, p.1.normSq = 1 ∧ 0 < p.2) :
    scaledRotBatch detK check rtol atol (ps.map fun p => Mat3.smul p.2 (SO3matrix p.1)) = .error .notFullRank ↔
      ∀ p ∈ ps, p.2 ≤ atol := by
  constructor
  · intro herr p hp
    by_contra hc
    have := scaledRotBatch_valid detK hdet check rtol atol hr ha0 ha1 ps hv (fun _ => ⟨p, hp, not_le.mp hc⟩)
    rw [this] at herr; exact absurd herr (by simp)
  · intro hall
    have hss : (ps.map fun p => Mat3.smul p.2 (SO3matrix p.1)).map (fun R => powThird (detK R))
        = ps.map (fun p => some p.2) := by
      rw [List.map_map]; apply List.map_congr_left; intro p hp
      obtain ⟨h1, h2⟩ := hv p hp
      simp only [Function.comp, hdet, Mat3.det_smul, rot_det p.1 h1, mul_one, powThird_cube p.2 h2]
    have hrank : rankTestFails rtol atol (ps.map (fun p => some p.2)) = true := by
      unfold rankTestFails
      rw [Bool.and_eq_true]
      refine ⟨by simpa using hne, List.all_eq_true.mpr ?_⟩
      intro s hs
      obtain ⟨p, hp, rfl⟩ := List.mem_map.mp hs
      rw [scaleTiny_some _ _ _ (hv p hp).2]; simpa using hall p hp
    unfold scaledRotBatch
    simp only [hss, hrank, if_true]

/-! ## the guard band of the rejection clause, as a theorem

The float code evaluates `R Rᵀ` and `det R` with some absolute error `δ`. If the *exact* matrix passes with the
tolerance reduced by `δ` the float evaluation passes; if the exact matrix fails with the tolerance enlarged by `δ` the
float evaluation fails. Between the two (the band the harness accepts either verdict in) nothing is claimed. -/

theorem closeTo_mono (rtol rtol' atol atol' a b : ℝ) (hr : rtol ≤ rtol') (ha : atol ≤ atol')
    (h : closeTo rtol atol a b = true) : closeTo rtol' atol' a b = true := by
  rw [closeTo_iff] at *
  have := mul_le_mul_of_nonneg_right hr (abs_nonneg b); linarith

theorem closeTo_of_near (rtol atol δ a a' b : ℝ) (hδ : |a' - a| ≤ δ)
    (h : closeTo rtol (atol - δ) a b = true) : closeTo rtol atol a' b = true := by
  rw [closeTo_iff] at *
  calc |a' - b| = |(a' - a) + (a - b)| := by ring_nf
    _ ≤ |a' - a| + |a - b| := abs_add_le _ _
    _ ≤ atol + rtol * |b| := by linarith

theorem closeTo_false_of_near (rtol atol δ a a' b : ℝ) (hδ : |a' - a| ≤ δ)
    (h : closeTo rtol (atol + δ) a b = false) : closeTo rtol atol a' b = false := by
  apply Bool.eq_false_iff.mpr; intro hc
  have : closeTo rtol (atol + δ) a b = true := by
    apply closeTo_of_near rtol (atol + δ) δ a' a b (by rw [abs_sub_comm]; exact hδ)
    simpa using hc
  rw [h] at this; exact absurd this (by simp)

/-- entrywise distance of two matrices at most `δ` -/
def Vec3.Near (δ : ℝ) (a b : Vec3 ℝ) : Prop := |a.x - b.x| ≤ δ ∧ |a.y - b.y| ≤ δ ∧ |a.z - b.z| ≤ δ
def Mat3.Near (δ : ℝ) (A B : Mat3 ℝ) : Prop := Vec3.Near δ A.r0 B.r0 ∧ Vec3.Near δ A.r1 B.r1 ∧ Vec3.Near δ A.r2 B.r2

/-- **guard band, accept side**: a computed `E'` within `δ` of the exact `E = R Rᵀ` passes `allclose(·, 1, rtol, atol)`
whenever `E` passes with `atol − δ` -/
theorem guard_band_accept (rtol atol δ : ℝ) (E E' B : Mat3 ℝ) (hn : Mat3.Near δ E' E)
    (h : Mat3.allclose rtol (atol - δ) E B = true) : Mat3.allclose rtol atol E' B = true := by
  obtain ⟨⟨a1, a2, a3⟩, ⟨b1, b2, b3⟩, ⟨c1, c2, c3⟩⟩ := hn
  simp only [Mat3.allclose, Vec3.allclose, Bool.and_eq_true] at h ⊢
  obtain ⟨⟨⟨⟨h1, h2⟩, h3⟩, ⟨⟨h4, h5⟩, h6⟩⟩, ⟨⟨h7, h8⟩, h9⟩⟩ := h
  exact ⟨⟨⟨⟨closeTo_of_near _ _ δ _ _ _ a1 h1, closeTo_of_near _ _ δ _ _ _ a2 h2⟩, closeTo_of_near _ _ δ _ _ _ a3 h3⟩,
    ⟨⟨closeTo_of_near _ _ δ _ _ _ b1 h4, closeTo_of_near _ _ δ _ _ _ b2 h5⟩, closeTo_of_near _ _ δ _ _ _ b3 h6⟩⟩,
    ⟨⟨closeTo_of_near _ _ δ _ _ _ c1 h7, closeTo_of_near _ _ δ _ _ _ c2 h8⟩, closeTo_of_near _ _ δ _ _ _ c3 h9⟩⟩

/-- **guard band, reject side**: if the exact `E` fails even with `atol + δ`, every `E'` within `δ` of it fails with `atol` -/
theorem guard_band_reject (rtol atol δ : ℝ) (E E' B : Mat3 ℝ) (hn : Mat3.Near δ E' E)
    (h : Mat3.allclose rtol (atol + δ) E B = false) : Mat3.allclose rtol atol E' B = false := by
  apply Bool.eq_false_iff.mpr; intro hc
  have hn' : Mat3.Near δ E E' := by
    obtain ⟨⟨a1, a2, a3⟩, ⟨b1, b2, b3⟩, ⟨c1, c2, c3⟩⟩ := hn
    refine ⟨⟨?_, ?_, ?_⟩, ⟨?_, ?_, ?_⟩, ⟨?_, ?_, ?_⟩⟩ <;> rw [abs_sub_comm] <;> assumption
  have := guard_band_accept rtol (atol + δ) δ E' E B hn' (by simpa using hc)
  rw [h] at this; exact absurd this (by simp)

/-- the tests are monotone in both tolerances (so the verdicts at `tol·(1−b)`, `tol`, `tol·(1+b)` are nested) -/
theorem orthOk_mono (rtol rtol' atol atol' : ℝ) (R : Mat3 ℝ) (hr : rtol ≤ rtol') (ha : atol ≤ atol')
    (h : orthOk rtol atol R = true) : orthOk rtol' atol' R = true := by
  unfold orthOk at *
  simp only [Mat3.allclose, Vec3.allclose, Bool.and_eq_true] at h ⊢
  obtain ⟨⟨⟨⟨h1, h2⟩, h3⟩, ⟨⟨h4, h5⟩, h6⟩⟩, ⟨⟨h7, h8⟩, h9⟩⟩ := h
  exact ⟨⟨⟨⟨closeTo_mono _ _ _ _ _ _ hr ha h1, closeTo_mono _ _ _ _ _ _ hr ha h2⟩, closeTo_mono _ _ _ _ _ _ hr ha h3⟩,
    ⟨⟨closeTo_mono _ _ _ _ _ _ hr ha h4, closeTo_mono _ _ _ _ _ _ hr ha h5⟩, closeTo_mono _ _ _ _ _ _ hr ha h6⟩⟩,
    ⟨⟨closeTo_mono _ _ _ _ _ _ hr ha h7, closeTo_mono _ _ _ _ _ _ hr ha h8⟩, closeTo_mono _ _ _ _ _ _ hr ha h9⟩⟩

theorem detOk_mono (rtol rtol' atol atol' d : ℝ) (hr : rtol ≤ rtol') (ha : atol ≤ atol')
    (h : detOk rtol atol d = true) : detOk rtol' atol' d = true := closeTo_mono _ _ _ _ _ _ hr ha h


/-! ## the calling glue: shape validation, dispatch, defaults -/

/-- which shapes are accepted: at least two dimensions and a trailing `3×3`, `3×4` or `4×4` -/
theorem layoutOf_some_iff (rank rows cols : Nat) (l : Layout) :
    layoutOf rank rows cols = some l ↔
      2 ≤ rank ∧ ((rows = 3 ∧ cols = 3 ∧ l = .m33) ∨ (rows = 3 ∧ cols = 4 ∧ l = .m34) ∨ (rows = 4 ∧ cols = 4 ∧ l = .m44)) := by
  unfold layoutOf
  by_cases hr : rank < 2
  · simp [hr]
  · have h2 : 2 ≤ rank := by omega
    by_cases h33 : rows = 3 ∧ cols = 3
    · obtain ⟨a, b⟩ := h33; subst a; subst b; simp [hr, h2]; exact eq_comm
    · by_cases h34 : rows = 3 ∧ cols = 4
      · obtain ⟨a, b⟩ := h34; subst a; subst b; simp [hr, h2]; exact eq_comm
      · by_cases h44 : rows = 4 ∧ cols = 4
        · obtain ⟨a, b⟩ := h44; subst a; subst b; simp [hr, h2]; exact eq_comm
        · have e33 : (rows == 3 && cols == 3) = false := by
            cases h : (rows == 3 && cols == 3) with
            | false => rfl
            | true => simp at h; exact absurd h h33
          have e34 : (rows == 3 && cols == 4) = false := by
            cases h : (rows == 3 && cols == 4) with
            | false => rfl
            | true => simp at h; exact absurd h h34
          have e44 : (rows == 4 && cols == 4) = false := by
            cases h : (rows == 4 && cols == 4) with
            | false => rfl
            | true => simp at h; exact absurd h h44
          simp only [hr, e33, e34, e44, if_false, Bool.false_eq_true]
          constructor
          · intro h; exact absurd h (by simp)
          · rintro ⟨_, h | h | h⟩
            · exact absurd ⟨h.1, h.2.1⟩ h33
            · exact absurd ⟨h.1, h.2.1⟩ h34
            · exact absurd ⟨h.1, h.2.1⟩ h44

/-- a call raises the shape error **iff** the shape is not one of the accepted ones — whatever else is wrong with the
call (the shape tests come first) -/
theorem convCall_badShape_iff (detK : Mat3 ℝ → ℝ) (e : Entry) (rank rows cols : Nat) (a : CallArgs ℝ)
    (Ms : List (DMat ℝ)) :
    convCall detK e rank rows cols a Ms = .error .badShape ↔ layoutOf rank rows cols = none := by
  unfold convCall
  cases hl : layoutOf rank rows cols with
  | none => simp
  | some lay =>
    simp only []
    constructor
    · intro h
      cases e with
      | fromMatrix lt =>
        cases lt with
        | none => simp at h
        | some ty =>
          simp only [] at h
          cases hb : fromMatrixBatch ty detK a.effCheck a.effRtol a.effAtol (Ms.map (MatIn.ofDMat lay)) <;> simp [hb] at h
      | direct ty =>
        simp only [] at h
        cases hb : fromMatrixBatch ty detK a.effCheck a.effRtol a.effAtol (Ms.map (MatIn.ofDMat lay)) <;> simp [hb] at h
    · intro h; exact absurd h (by simp)

/-- `from_matrix(mat, X_type, …)` **is** `mat2X(mat, …)` — the dispatch table passes every argument through unchanged -/
theorem convCall_fromMatrix_eq_direct (detK : Mat3 ℝ → ℝ) (ty : GTy) (rank rows cols : Nat) (a : CallArgs ℝ)
    (Ms : List (DMat ℝ)) :
    convCall detK (.fromMatrix (some ty)) rank rows cols a Ms = convCall detK (.direct ty) rank rows cols a Ms := by
  unfold convCall; cases layoutOf rank rows cols <;> rfl

/-- an `ltype` that is not one of the four group types is refused (after the shape tests) -/
theorem convCall_badLtype (detK : Mat3 ℝ → ℝ) (rank rows cols : Nat) (a : CallArgs ℝ) (Ms : List (DMat ℝ)) (l : Layout)
    (h : layoutOf rank rows cols = some l) :
    convCall detK (.fromMatrix none) rank rows cols a Ms = .error .badLtype := by
  unfold convCall; rw [h]

/-- **defaulting**: leaving an argument out is the same as passing its default (`check=True`, `rtol=atol=1e-5`),
independently for each of the three arguments -/
theorem convCall_defaults (detK : Mat3 ℝ → ℝ) (e : Entry) (rank rows cols : Nat) (a : CallArgs ℝ) (Ms : List (DMat ℝ)) :
    convCall detK e rank rows cols a Ms =
      convCall detK e rank rows cols ⟨some a.effCheck, some a.effRtol, some a.effAtol⟩ Ms := by
  unfold convCall CallArgs.effCheck CallArgs.effRtol CallArgs.effAtol
  simp only [Option.getD_some]

theorem callArgs_none_eff : (⟨none, none, none⟩ : CallArgs ℝ).effCheck = true ∧
    (⟨none, none, none⟩ : CallArgs ℝ).effRtol = 1 / 100000 ∧ (⟨none, none, none⟩ : CallArgs ℝ).effAtol = 1 / 100000 := by
  simp [CallArgs.effCheck, CallArgs.effRtol, CallArgs.effAtol, defCheck, defRtol, defAtol]

/-- the wrapped core: on an accepted shape a call of `mat2X` / `from_matrix(·, X_type)` is `fromMatrixBatch` on the
blocks of the input with the effective arguments -/
theorem convCall_eq_core (detK : Mat3 ℝ → ℝ) (ty : GTy) (rank rows cols : Nat) (l : Layout) (a : CallArgs ℝ)
    (Ms : List (DMat ℝ)) (h : layoutOf rank rows cols = some l) (r : List (List ℝ)) :
    convCall detK (.direct ty) rank rows cols a Ms = .ok r ↔
      fromMatrixBatch ty detK a.effCheck a.effRtol a.effAtol (Ms.map (MatIn.ofDMat l)) = .ok r := by
  unfold convCall; rw [h]; simp only []
  cases hb : fromMatrixBatch ty detK a.effCheck a.effRtol a.effAtol (Ms.map (MatIn.ofDMat l)) <;> simp

/-- **round trip through the public call**, any subset of the optional arguments given: a batch of valid Sim3 elements
passed as 4×4 matrices to `from_matrix(·, Sim3_type, …)` or `mat2Sim3(·, …)` comes back (up to the quaternion sign), as
long as the given tolerances are admissible (`0 ≤ rtol`, `0 ≤ atol < 1`; the defaults are) and not all scales are `≤ atol` -/
theorem convCall_Sim3_matrix (detK : Mat3 ℝ → ℝ) (hdet : ∀ M, detK M = M.det) (e : Entry)
    (he : e = .fromMatrix (some .Sim3) ∨ e = .direct .Sim3) (rank : Nat) (hrank : 2 ≤ rank) (a : CallArgs ℝ)
    (hr : ∀ r, a.rtol = some r → 0 ≤ r) (ha : ∀ t, a.atol = some t → 0 ≤ t ∧ t < 1) (Xs : List (Sim3 ℝ))
    (h : ∀ X ∈ Xs, C11.ValidSim3 X) (hbig : Xs ≠ [] → ∃ X ∈ Xs, a.effAtol < X.s) :
    convCall detK e rank 4 4 a (Xs.map Sim3matrix)
      = .ok (Xs.map fun X => Sim3.toList ⟨X.t, canonQ a.effAtol X.q, X.s⟩) := by
  have hrt : 0 ≤ a.effRtol := by
    unfold CallArgs.effRtol; cases hh : a.rtol with
    | none => simp [defRtol]
    | some r => simpa using hr r hh
  have hat : 0 ≤ a.effAtol ∧ a.effAtol < 1 := by
    unfold CallArgs.effAtol; cases hh : a.atol with
    | none => simp [defAtol]; norm_num
    | some t => simpa using ha t hh
  have hl : layoutOf rank 4 4 = some .m44 := (layoutOf_some_iff rank 4 4 .m44).mpr ⟨hrank, Or.inr (Or.inr ⟨rfl, rfl, rfl⟩)⟩
  have core := mat2Sim3Batch_matrix detK hdet a.effCheck a.effRtol a.effAtol hrt hat.1 hat.2 .m44 Xs h hbig
  have hmap : (Xs.map Sim3matrix).map (MatIn.ofDMat .m44) = Xs.map fun X => MatIn.ofDMat .m44 (Sim3matrix X) := by
    rw [List.map_map]; rfl
  rcases he with rfl | rfl <;>
  · unfold convCall; rw [hl]; simp only [fromMatrixBatch, hmap, core]
    simp [Except.map, List.map_map, Function.comp]

/-- `euler()` with the default `eps = 2·10⁻⁴`: the glue only fills in the default … -/
theorem SO3eulerCall_default (p : Quat ℝ) : SO3eulerCall none p = SO3euler (1 / 5000) p := by
  simp [SO3eulerCall, defEulerEps]
theorem SO3eulerCall_some (eps : ℝ) (p : Quat ℝ) : SO3eulerCall (some eps) p = SO3euler eps p := rfl

/-- … so the converse holds for the call as the user makes it, with the code's own default band -/
theorem eulerCall_default_converse (p : Quat ℝ) (h : p.normSq = 1) (hreg : |2 * (p.w * p.y - p.z * p.x)| < 1 - 1 / 5000) :
    euler2SO3 (SO3eulerCall none p) = p ∨ euler2SO3 (SO3eulerCall none p) = p.neg := by
  rw [SO3eulerCall_default]
  exact euler2SO3_euler (1 / 5000) (by norm_num) p h ((eulerRegular_iff _ p h).mpr hreg)

/-! ## 8. pass 3: the round trip is not a contraction; coincidences with the tolerance -/

/-- candidate 3 on the matrix the code builds from an arbitrary (not necessarily unit) quaternion -/
theorem cand3_rot_general (p : Quat ℝ) :
    cand3 (SO3matrix p).transpose = ⟨4 - 4 * (p.x * p.x + p.y * p.y + p.z * p.z), 4 - 4 * (p.x * p.x + p.y * p.y + p.z * p.z),
      4 * p.w * p.x, 4 * p.w * p.y, 4 * p.w * p.z⟩ := by
  unfold cand3 SO3matrix; ext <;> lie_unfold <;> ring

/-- **the round trip is not a contraction**: if `‖p‖² = 1 + e` (a rounding-level norm defect `e`) and the `w` candidate is
selected, `mat2SO3(matrix(p))` has `‖·‖² − 1 = e·(1 − w² + e)/(w² − e)` — the defect is multiplied by `(1 − w²)/w²`, up to 3
at `w² = 1/4`; iterating the round trip drifts away from the unit sphere geometrically (observed on the real code) -/
theorem roundtrip_norm_amplification (p : Quat ℝ) (atol e : ℝ) (he : p.normSq = 1 + e)
    (hreg : mat2SO3Region atol (SO3matrix p).transpose = 3) (hpos : 0 < p.w * p.w - e) :
    (mat2SO3Raw atol (SO3matrix p)).normSq - 1 = e * (1 - p.w * p.w + e) / (p.w * p.w - e) := by
  have he' : p.x * p.x + p.y * p.y + p.z * p.z + p.w * p.w = 1 + e := he
  have ht : 4 - 4 * (p.x * p.x + p.y * p.y + p.z * p.z) = 4 * (p.w * p.w - e) := by linarith
  have htpos : 0 < 4 - 4 * (p.x * p.x + p.y * p.y + p.z * p.z) := by rw [ht]; linarith
  unfold mat2SO3Raw
  simp only [hreg, candOf, cand3_rot_general]
  obtain ⟨eq, hi⟩ := Cand.toQuat_scaled_inv
    (⟨4 - 4 * (p.x * p.x + p.y * p.y + p.z * p.z), 4 - 4 * (p.x * p.x + p.y * p.y + p.z * p.z),
      4 * p.w * p.x, 4 * p.w * p.y, 4 * p.w * p.z⟩ : Cand ℝ) htpos
  rw [eq]
  simp only [] at hi ⊢
  set i := 1 / (2 * Real.sqrt (4 - 4 * (p.x * p.x + p.y * p.y + p.z * p.z))) with hidef
  have hne : p.w * p.w - e ≠ 0 := ne_of_gt hpos
  rw [eq_div_iff hne]
  simp only [Quat.normSq]
  -- 4 t i² = 1 with t = 4 (w² − e)
  have hi' : 16 * (p.w * p.w - e) * i * i = 1 := by rw [ht] at hi; linarith
  have hxyz : p.x * p.x + p.y * p.y + p.z * p.z = 1 + e - p.w * p.w := by linarith
  have key : (4 * p.w * p.x * i) * (4 * p.w * p.x * i) + (4 * p.w * p.y * i) * (4 * p.w * p.y * i)
      + (4 * p.w * p.z * i) * (4 * p.w * p.z * i)
      + ((4 - 4 * (p.x * p.x + p.y * p.y + p.z * p.z)) * i) * ((4 - 4 * (p.x * p.x + p.y * p.y + p.z * p.z)) * i)
      = 16 * i * i * (p.w * p.w * (1 + e - p.w * p.w) + (p.w * p.w - e) * (p.w * p.w - e)) := by
    rw [ht]; linear_combination (16 * i * i * (p.w * p.w)) * hxyz
  rw [key]
  linear_combination ((p.w * p.w * (1 + e - p.w * p.w) + (p.w * p.w - e) * (p.w * p.w - e))) * hi'

/-- instance: at `w² = 1/4` a defect `e = 1/100` is more than tripled -/
example : 3 * (1 / 100 : ℝ) < (1 / 100) * (1 - 1 / 4 + 1 / 100) / (1 / 4 - 1 / 100) := by norm_num

/-- exact coincidence with the tolerance: an off-diagonal entry of `R Rᵀ` **equal** to `atol` passes (`allclose` is `≤`) … -/
theorem check_tie_accepts (a : ℝ) (h0 : 0 ≤ a) (h1 : a ≤ 1) :
    orthOk 0 a (⟨⟨1, a, 0⟩, ⟨0, 1, 0⟩, ⟨0, 0, 1⟩⟩ : Mat3 ℝ) = true := by
  rw [orthOk_iff]; lie_unfold
  have : a * a ≤ a := by nlinarith
  have h2 : 0 ≤ a * a := mul_self_nonneg a
  simp only [mul_one, mul_zero, add_zero, zero_add, one_mul, zero_mul, sub_self, abs_zero]
  refine ⟨⟨?_, by simpa using h0, by simpa using h0⟩, ?_, by simpa using h0, ?_, by simpa using h0, by simpa using h0, by simpa using h0⟩
  · rw [show (1 : ℝ) + a * a - 1 = a * a by ring, abs_of_nonneg h2]; linarith
  · rw [abs_of_nonneg h0]
  · rw [abs_of_nonneg h0]

/-- … and anything above it is refused -/
theorem check_tie_rejects_above (a b : ℝ) (h0 : 0 ≤ a) (hb : a < b) :
    orthOk 0 a (⟨⟨1, b, 0⟩, ⟨0, 1, 0⟩, ⟨0, 0, 1⟩⟩ : Mat3 ℝ) = false := by
  apply Bool.eq_false_iff.mpr; intro hok
  have h := ((orthOk_iff _ _ _).mp hok).2.1
  revert h; lie_unfold
  simp only [mul_one, mul_zero, add_zero, zero_add, one_mul, zero_mul]
  intro h; rw [abs_of_pos (by linarith)] at h; linarith

/-! ## 9. pass 3: the gimbal band -/

/-- on a unit quaternion `t2 = sin(pitch)` lies in `[-1, 1]`, and the rest of the third row of `R(X)` has length `cos(pitch)`:
`R21² + R22² = 1 − t2²` -/
theorem euler_t2_bounds (p : Quat ℝ) (h : p.normSq = 1) :
    |2 * (p.w * p.y - p.z * p.x)| ≤ 1 ∧
    ((SO3matrix p).r2.y) ^ 2 + ((SO3matrix p).r2.z) ^ 2 = 1 - (2 * (p.w * p.y - p.z * p.x)) ^ 2 ∧
    (SO3matrix p).r2.x = -(2 * (p.w * p.y - p.z * p.x)) := by
  have h' : p.x * p.x + p.y * p.y + p.z * p.z + p.w * p.w = 1 := h
  have e : ((SO3matrix p).r2.y) ^ 2 + ((SO3matrix p).r2.z) ^ 2 = 1 - (2 * (p.w * p.y - p.z * p.x)) ^ 2 := by
    unfold SO3matrix; lie_unfold
    linear_combination (4 * (p.x * p.x + p.y * p.y)) * h'
  refine ⟨?_, e, ?_⟩
  · have hn : 0 ≤ 1 - (2 * (p.w * p.y - p.z * p.x)) ^ 2 := by rw [← e]; positivity
    rw [abs_le]; constructor <;> nlinarith
  · unfold SO3matrix; lie_unfold; ring
/-- **inside (and outside) the gimbal band the pitch is exact and the third row is off by at most `2·cos(pitch)`**: for every
unit `X` and every `eps`, `Rz(yaw)Ry(pitch)Rx(roll)` of the angles returned by `euler()` has third row
`(−sin pitch, ·, ·)` with `−sin pitch = R20(X)` exactly; in the band (`roll = 0`) that row is `(−t2, 0, √(1−t2²))` while
`R(X)` has `(−t2, a, b)` with `a² + b² = 1 − t2² ≤ 2·eps`. (The full 3×3 bound `O(√(2·eps))` is measured by the `gimbal`
oracle, worst case `1.12·acos|t2|`; only this row is proved — hence `_partial`.) -/
theorem euler_band_third_row_partial (eps : ℝ) (p : Quat ℝ) (h : p.normSq = 1) :
    (eulerMat (SO3euler eps p)).r2.x = (SO3matrix p).r2.x ∧
    (eulerRegular eps p = false →
      (eulerMat (SO3euler eps p)).r2 = ⟨-(2 * (p.w * p.y - p.z * p.x)), 0, Real.sqrt (1 - (2 * (p.w * p.y - p.z * p.x)) ^ 2)⟩) ∧
    ((SO3matrix p).r2.y) ^ 2 + ((SO3matrix p).r2.z) ^ 2 = 1 - (2 * (p.w * p.y - p.z * p.x)) ^ 2 := by
  obtain ⟨hb, hrow, h20⟩ := euler_t2_bounds p h
  have hT := eulerT_unit p h
  obtain ⟨hlo, hhi⟩ := abs_le.mp hb
  have hclamp := sclamp_of_mem _ hlo hhi
  have hasin := sasin_real _ hb
  have hpitch : (SO3euler eps p).y = Real.arcsin (2 * (p.w * p.y - p.z * p.x)) := by
    unfold SO3euler; simp only [hT, k_real, Nat.cast_one, hclamp, hasin]
  refine ⟨?_, ?_, hrow⟩
  · rw [h20]
    unfold eulerMat rotX rotY rotZ
    lie_unfold
    simp only [sin_real, cos_real, hpitch, Real.sin_arcsin hlo hhi]
    ring
  · intro hreg
    have hroll : (SO3euler eps p).x = 0 := by
      unfold SO3euler; simp [hreg]
    unfold eulerMat rotX rotY rotZ
    ext <;> lie_unfold <;> simp only [sin_real, cos_real, hpitch, hroll, Real.sin_arcsin hlo hhi, Real.cos_arcsin,
      Real.sin_zero, Real.cos_zero] <;> ring

/-! ### non-vacuity: the hypotheses are satisfiable by non-trivial values -/

/-- rotation by exactly π about the x axis (`w = 0`): region 0, recovered exactly -/
example : mat2SO3Raw (1 / 100000) (SO3matrix (⟨1, 0, 0, 0⟩ : Quat ℝ)) = ⟨1, 0, 0, 0⟩ := by
  rw [mat2SO3Raw_rot _ (by lie_unfold; norm_num) _ (by rw [abs_of_pos] <;> norm_num)]
  unfold canonQ
  have : mat2SO3Region (1 / 100000 : ℝ) (SO3matrix (⟨1, 0, 0, 0⟩ : Quat ℝ)).transpose = 0 := by
    obtain ⟨e0, e1, e2⟩ := rot_diag (⟨1, 0, 0, 0⟩ : Quat ℝ)
    simp only [mat2SO3Region, lt_real, e0, e1, e2]; norm_num
  rw [this]; simp [domComp]
example : C11.ValidSim3 (⟨⟨1, 2, 3⟩, ⟨0, 0.6, 0, 0.8⟩, 2⟩ : Sim3 ℝ) := by
  refine ⟨?_, by norm_num⟩; lie_unfold; norm_num
example : (⟨0.3, -0.5, 2⟩ : Vec3 ℝ).x ∈ Set.Ioc (-Real.pi) Real.pi ∧
    (⟨0.3, -0.5, 2⟩ : Vec3 ℝ).y ∈ Set.Icc (-(Real.pi / 2)) (Real.pi / 2) := by
  have := Real.two_le_pi
  refine ⟨⟨by simp only []; linarith, by simp only []; linarith⟩, ⟨by simp only []; linarith, by simp only []; linarith⟩⟩
/-- `check_rejects_scaled` has instances: `c = 2`, default tolerances -/
example : (1 / 100000 : ℝ) + 1 / 100000 < |(2 : ℝ) * 2 - 1| := by rw [abs_of_pos] <;> norm_num
/-- exact gimbal lock is attained by a unit quaternion: `p = (0, √½, 0, √½)` has `2(wy − zx) = 1` -/
example : ∃ p : Quat ℝ, p.normSq = 1 ∧ 2 * (p.w * p.y - p.z * p.x) = 1 := by
  refine ⟨⟨0, Real.sqrt (1 / 2), 0, Real.sqrt (1 / 2)⟩, ?_, ?_⟩
  · lie_unfold; have := Real.mul_self_sqrt (show (0 : ℝ) ≤ 1 / 2 by norm_num); linarith
  · simp only []; have := Real.mul_self_sqrt (show (0 : ℝ) ≤ 1 / 2 by norm_num); linarith
/-- identity is regular for the default `eps = 2e-4` -/
example : eulerRegular (2 / 10000 : ℝ) (⟨0, 0, 0, 1⟩ : Quat ℝ) = true := by
  rw [eulerRegular_iff _ _ (by lie_unfold; norm_num)]; norm_num
/-- `mat2SO3_general` applies to matrices that are not written as `R(q)`: the cyclic permutation matrix -/
example : (⟨⟨0, 0, 1⟩, ⟨1, 0, 0⟩, ⟨0, 1, 0⟩⟩ : Mat3 ℝ).mul (⟨⟨0, 0, 1⟩, ⟨1, 0, 0⟩, ⟨0, 1, 0⟩⟩ : Mat3 ℝ).transpose = Mat3.one ∧
    (⟨⟨0, 0, 1⟩, ⟨1, 0, 0⟩, ⟨0, 1, 0⟩⟩ : Mat3 ℝ).det = 1 := by
  constructor
  · ext <;> lie_unfold <;> norm_num
  · lie_unfold; norm_num
/-- hypotheses of `scaled_check_iff` / `scaled_rejects_nonrotation`: `2·1` has determinant `8 > 0` -/
example : (0 : ℝ) < (Mat3.smul 2 Mat3.one : Mat3 ℝ).det := by lie_unfold; norm_num
/-- tie hypotheses of `mat2SO3Raw_tie_xy` are met by the rotation by π about the `(1,−1,0)` diagonal -/
example : (⟨Real.sqrt (1 / 2), -Real.sqrt (1 / 2), 0, 0⟩ : Quat ℝ).normSq = 1 ∧
    (Real.sqrt (1 / 2)) * (Real.sqrt (1 / 2)) = (-Real.sqrt (1 / 2)) * (-Real.sqrt (1 / 2)) := by
  have := Real.mul_self_sqrt (show (0 : ℝ) ≤ 1 / 2 by norm_num)
  constructor
  · lie_unfold; linarith
  · ring
/-- `scaled_valid_rank_iff` / `convCall_Sim3_matrix`: a non-empty valid batch with a scale above the default `atol` -/
example : ([(⟨0, 0.6, 0, 0.8⟩, 2)] : List (Quat ℝ × ℝ)) ≠ [] ∧ (1 / 100000 : ℝ) < 2 := ⟨by simp, by norm_num⟩
/-- `guard_band_accept` has non-trivial instances: `Near` with `δ = 10⁻⁷` -/
example : Mat3.Near (1 / 10000000) (⟨⟨1 + 1 / 20000000, 0, 0⟩, ⟨0, 1, 0⟩, ⟨0, 0, 1⟩⟩ : Mat3 ℝ) Mat3.one := by
  refine ⟨⟨?_, ?_, ?_⟩, ⟨?_, ?_, ?_⟩, ⟨?_, ?_, ?_⟩⟩ <;> lie_unfold <;> norm_num [abs_of_pos]
/-- the band of `euler_band_third_row_partial` is inhabited: exact gimbal lock is not regular for any `eps ≥ 0` -/
example : eulerRegular (1 / 5000 : ℝ) (⟨0, Real.sqrt (1 / 2), 0, Real.sqrt (1 / 2)⟩ : Quat ℝ) = false := by
  have hs := Real.mul_self_sqrt (show (0 : ℝ) ≤ 1 / 2 by norm_num)
  have hu : (⟨0, Real.sqrt (1 / 2), 0, Real.sqrt (1 / 2)⟩ : Quat ℝ).normSq = 1 := by lie_unfold; linarith
  apply Bool.eq_false_iff.mpr; intro hc
  have := (eulerRegular_iff _ _ hu).mp hc
  simp only [] at this
  rw [show 2 * (Real.sqrt (1 / 2) * Real.sqrt (1 / 2) - 0 * 0) = 1 by rw [hs]; norm_num, abs_one] at this
  norm_num at this

end PP
