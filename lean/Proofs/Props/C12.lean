import Proofs.Lemmas.Scan
/-!
# C12 — cumulative products equal the sequential left/right fold, for every length

Property theorems only (helpers are in `Proofs/Lemmas/Scan.lean`). Core Lean, no Mathlib.
-/
namespace PP.Scan
variable {α : Type} (op : α → α → α)

/-- **Right order.** For every length `L`, every `j < L` and every associative (not necessarily
commutative) `op`: position `j` of `cumops` holds `x₀ ∘ x₁ ∘ … ∘ x_j`. -/
theorem cumops_spec (hassoc : ∀ a b c : α, op (op a b) c = op a (op b c))
    (L : Nat) (v : Nat → α) (j : Nat) (hj : j < L) :
    cumops op L v j = seg op v 0 j := by
  unfold cumops strides
  apply fold_strides op hassoc L v L 1 v (by omega)
  · have := Nat.lt_two_pow_self (n := L); omega
  · intro j _; unfold W; simp [seg]
  · exact hj

/-- `seg` of the flipped operation is the left-ordered fold. -/
theorem seg_flip (v : Nat → α) (j : Nat) : seg (fun a b => op b a) v 0 j = segLeft op v j := by
  induction j with
  | zero => simp [seg, segLeft]
  | succ n ih => simp only [seg, segLeft, ih]; simp

/-- **Left order** (`cumprod`/`cummul` with `left=True`): position `j` holds `x_j ∘ … ∘ x₁ ∘ x₀`. -/
theorem cumopsLeft_spec (hassoc : ∀ a b c : α, op (op a b) c = op a (op b c))
    (L : Nat) (v : Nat → α) (j : Nat) (hj : j < L) :
    cumopsLeft op L v j = segLeft op v j := by
  unfold cumopsLeft
  rw [cumops_spec (fun a b => op b a) (by intro a b c; exact (hassoc c b a).symm) L v j hj]
  exact seg_flip op v j

/-- The schedule: every stride is `< L` and positive, so every `index_select(index - i)` is in range. -/
theorem strides_lt (L : Nat) : ∀ i ∈ strides L, 1 ≤ i ∧ i < L := by
  unfold strides
  have : ∀ (fuel p : Nat), 1 ≤ p → ∀ i ∈ stridesFrom L fuel p, 1 ≤ i ∧ i < L := by
    intro fuel
    induction fuel with
    | zero => intro p _ i hi; simp [stridesFrom] at hi
    | succ f ih =>
      intro p hp i hi
      unfold stridesFrom at hi
      by_cases h : p < L
      · simp only [h, if_true, List.mem_cons] at hi
        rcases hi with rfl | hi
        · exact ⟨hp, h⟩
        · exact ih (2*p) (by omega) i hi
      · simp [h] at hi
  exact this L 1 (by omega)

/-- Length 1 (and 0): no rounds, the tensor is returned as is. -/
theorem cumops_len_one (v : Nat → α) : cumops op 1 v = v := by
  unfold cumops strides stridesFrom; simp

/-- Positions outside the scanned range are never touched. -/
theorem step_outside (L i : Nat) (v : Nat → α) (j : Nat) (hj : L ≤ j) : step op L i v j = v j := by
  unfold step; simp; intro _ h; omega

theorem ofFn_getD {β} [Inhabited β] (n : Nat) (f : Fin n → β) (j : Nat) (hj : j < n) :
    (Array.ofFn f).getD j default = f ⟨j, hj⟩ := by
  rw [Array.getD_eq_getD_getElem?]
  simp [hj]

/-- The executable array variant run by the driver computes `cumops`. -/
theorem cumopsArr_eq [Inhabited α] (xs : Array α) (j : Nat) (hj : j < xs.size) :
    (cumopsArr op xs).getD j default = cumops op xs.size (fun j => xs.getD j default) j := by
  unfold cumopsArr cumops
  generalize hL : xs.size = L at hj
  have key : ∀ (l : List Nat) (a : Array α) (w : Nat → α), a.size = L → (∀ j, j < L → a.getD j default = w j) →
      ∀ j, j < L → (l.foldl (fun a i => stepArr op L i a) a).getD j default
        = l.foldl (fun w i => step op L i w) w j := by
    intro l
    induction l with
    | nil => intro a w _ h j hj; simpa using h j hj
    | cons i l ih =>
      intro a w hs h j hj
      simp only [List.foldl_cons]
      apply ih _ _ (by simp [stepArr]) _ j hj
      intro j hj
      unfold stepArr step
      rw [ofFn_getD _ _ j hj]
      by_cases hij : i ≤ j
      · simp only [hij, hj, and_self, if_true]
        rw [h j hj, h (j - i) (by omega)]
      · simp only [hij, false_and, if_false]
        exact h j hj
  exact key (strides L) xs _ hL (fun j _ => rfl) j hj

/-- Scanning along `dim` of a `(outer, L, inner)` tensor: every fibre is the ordered fold of its own
items — for every shape. -/
theorem cumopsDim_spec [Inhabited α] (hassoc : ∀ a b c : α, op (op a b) c = op a (op b c))
    (outer L inner : Nat) (v : Nat → α) (o j i : Nat) (hj : j < L) (hi : i < inner) :
    cumopsDim op outer L inner v ((o * L + j) * inner + i)
      = seg op (fun j' => v ((o * L + j') * inner + i)) 0 j := by
  unfold cumopsDim
  have hin : 0 < inner := by omega
  have e1 : ((o * L + j) * inner + i) % inner = i := by
    rw [Nat.add_comm, Nat.add_mul_mod_self_right]; exact Nat.mod_eq_of_lt hi
  have e2 : ((o * L + j) * inner + i) / inner = o * L + j := by
    rw [Nat.add_comm, Nat.add_mul_div_right _ _ hin, Nat.div_eq_of_lt hi]; omega
  have e3 : (o * L + j) % L = j := by
    rw [Nat.add_comm, Nat.add_mul_mod_self_right]; exact Nat.mod_eq_of_lt hj
  have e4 : ((o * L + j) * inner + i) / (inner * L) = o := by
    rw [← Nat.div_div_eq_div_mul, e2, Nat.add_comm, Nat.add_mul_div_right _ _ (by omega), Nat.div_eq_of_lt hj]
    omega
  simp only [e1, e2, e3, e4]
  exact cumops_spec op hassoc L _ j hj

/-! ### non-vacuity: a concrete non-commutative associative operation (list append), L = 5 -/
example : (List.range 5).map (cumops (α := List Nat) (· ++ ·) 5 (fun j => [j])) =
    [[0], [0,1], [0,1,2], [0,1,2,3], [0,1,2,3,4]] := by decide
example : (List.range 5).map (cumopsLeft (α := List Nat) (· ++ ·) 5 (fun j => [j])) =
    [[0], [1,0], [2,1,0], [3,2,1,0], [4,3,2,1,0]] := by decide
example : strides 5 = [1, 2, 4] ∧ strides 8 = [1, 2, 4] ∧ strides 9 = [1, 2, 4, 8] ∧ strides 1 = [] := by decide

end PP.Scan
