import Proofs.Lemmas.Spline
import Mathlib.Analysis.SpecialFunctions.Trigonometric.Basic
/-!
# One-parameter-subgroup law of the modelled `so3Exp` / `se3Exp` on the closed-form branch

`Exp(a ξ)·Exp(b ξ) = Exp((a+b) ξ)` for `a, b > 0` whenever both scaled rotation angles exceed `eps` (the code's
closed-form branch).  On the Taylor branch (`a·θ ≤ eps`) the code's truncated series satisfy the law only up to
`O(eps⁴)`, so it is not claimed there.  Used to discharge the hypotheses of the constant-twist theorems of C19.
-/
namespace PP.Spline
open PP

/-- `α τ + β (φ×τ) + γ (φ×(φ×τ))` -/
noncomputable def lin3 (φ τ : Vec3 ℝ) (α β γ : ℝ) : Vec3 ℝ :=
  ((τ.smul α).add ((Vec3.cross φ τ).smul β)).add ((Vec3.cross φ (Vec3.cross φ τ)).smul γ)

/-- quaternion with vector part `s·φ` and scalar part `c` -/
noncomputable def axisQuat (φ : Vec3 ℝ) (s c : ℝ) : Quat ℝ := ⟨φ.x * s, φ.y * s, φ.z * s, c⟩

theorem axisQuat_mul (φ : Vec3 ℝ) (s1 c1 s2 c2 : ℝ) :
    (axisQuat φ s1 c1).mul (axisQuat φ s2 c2) = axisQuat φ (c1 * s2 + s1 * c2) (c1 * c2 - s1 * s2 * φ.normSq) := by
  unfold axisQuat; ext <;> lie_unfold <;> ring

theorem axisQuat_normSq (φ : Vec3 ℝ) (s c : ℝ) : (axisQuat φ s c).normSq = s * s * φ.normSq + c * c := by
  unfold axisQuat; lie_unfold; ring

theorem axisQuat_act_lin3 (φ τ : Vec3 ℝ) (s c α β γ : ℝ) :
    (axisQuat φ s c).act (lin3 φ τ α β γ) =
      lin3 φ τ α (β + 2 * c * s * α - φ.normSq * (2 * c * s * γ + 2 * s * s * β))
        (γ + 2 * c * s * β + 2 * s * s * α - φ.normSq * (2 * s * s) * γ) := by
  unfold axisQuat lin3; ext <;> lie_unfold <;> ring

theorem lin3_add (φ τ : Vec3 ℝ) (α β γ α' β' γ' : ℝ) :
    (lin3 φ τ α β γ).add (lin3 φ τ α' β' γ') = lin3 φ τ (α + α') (β + β') (γ + γ') := by
  unfold lin3; ext <;> lie_unfold <;> ring

theorem polyK_mulVec_smul (φ τ : Vec3 ℝ) (a c1 c2 : ℝ) :
    (polyK (1 : ℝ) c1 c2 (φ.smul a)).mulVec (τ.smul a) = lin3 φ τ a (c1 * a * a) (c2 * a * a * a) := by
  unfold polyK lin3; ext <;> lie_unfold <;> ring

theorem norm_smul_pos (φ : Vec3 ℝ) (a : ℝ) (ha : 0 < a) : (φ.smul a).norm = a * φ.norm := by
  unfold Vec3.norm
  simp only [sqrt_real]
  rw [Vec3.normSq_smul, Real.sqrt_mul (mul_self_nonneg a), Real.sqrt_mul_self ha.le]

/-- closed-form branch of `so3Exp` on a positive multiple of `φ` -/
theorem so3Exp_smul_closed (eps : ℝ) (φ : Vec3 ℝ) (a : ℝ) (h0 : 0 ≤ eps) (ha : 0 < a) (h : eps < a * φ.norm) :
    so3Exp eps (φ.smul a) = axisQuat φ (Real.sin (a * φ.norm / 2) / φ.norm) (Real.cos (a * φ.norm / 2)) := by
  have hθ : 0 < φ.norm := by
    by_contra hc
    have : φ.norm = 0 := le_antisymm (not_lt.mp hc) (Vec3.norm_nonneg φ)
    rw [this, mul_zero] at h; linarith
  unfold so3Exp
  rw [norm_smul_pos φ a ha]
  simp only [lt_real, h, decide_true, if_true, sin_real, cos_real, q_real, Nat.cast_one, Nat.cast_ofNat]
  have e : (1 : ℝ) / 2 * (a * φ.norm) = a * φ.norm / 2 := by ring
  rw [e]
  unfold axisQuat Quat.mk' Vec3.smul
  ext <;> simp only [] <;> field_simp

/-- closed-form branch of `so3Jl(aφ)·(aτ)` -/
theorem so3Jl_smul_closed (eps : ℝ) (φ τ : Vec3 ℝ) (a : ℝ) (h0 : 0 ≤ eps) (ha : 0 < a) (h : eps < a * φ.norm) :
    (so3Jl eps (φ.smul a)).mulVec (τ.smul a) =
      lin3 φ τ a ((1 - Real.cos (a * φ.norm)) / (φ.norm * φ.norm))
        ((a * φ.norm - Real.sin (a * φ.norm)) / (φ.norm * φ.norm * φ.norm)) := by
  have hθ : 0 < φ.norm := by
    by_contra hc
    have : φ.norm = 0 := le_antisymm (not_lt.mp hc) (Vec3.norm_nonneg φ)
    rw [this, mul_zero] at h; linarith
  unfold so3Jl so3JlCoef
  rw [norm_smul_pos φ a ha]
  simp only [lt_real, h, decide_true, if_true, sin_real, cos_real, k_real, Nat.cast_one]
  rw [polyK_mulVec_smul]
  congr 1 <;> field_simp

/-- **One-parameter law, rotation part** (closed-form branch). -/
theorem so3Exp_add (eps : ℝ) (φ : Vec3 ℝ) (a b : ℝ) (h0 : 0 ≤ eps) (ha : 0 < a) (hb : 0 < b)
    (hA : eps < a * φ.norm) (hB : eps < b * φ.norm) :
    (so3Exp eps (φ.smul a)).mul (so3Exp eps (φ.smul b)) = so3Exp eps (φ.smul (a + b)) := by
  have hθ : 0 < φ.norm := by
    by_contra hc
    have : φ.norm = 0 := le_antisymm (not_lt.mp hc) (Vec3.norm_nonneg φ)
    rw [this, mul_zero] at hA; linarith
  have hAB : eps < (a + b) * φ.norm := by nlinarith
  rw [so3Exp_smul_closed eps φ a h0 ha hA, so3Exp_smul_closed eps φ b h0 hb hB,
    so3Exp_smul_closed eps φ (a + b) h0 (by linarith) hAB, axisQuat_mul, ← Vec3.norm_sq]
  have e : (a + b) * φ.norm / 2 = a * φ.norm / 2 + b * φ.norm / 2 := by ring
  rw [e, Real.sin_add, Real.cos_add]
  congr 1 <;> field_simp <;> ring

theorem so3Exp_valid_closed (eps : ℝ) (φ : Vec3 ℝ) (h0 : 0 ≤ eps) (h : eps < φ.norm) :
    SO3.Valid (so3Exp eps φ) := so3Exp_normSq_closed eps φ h0 h

/-- `se3Exp` returns a valid pose on the closed-form branch and at zero rotation -/
theorem se3Exp_valid (eps : ℝ) (x : se3 ℝ) (h0 : 0 ≤ eps) (h : eps < x.phi.norm ∨ x.phi = Vec3.zero) :
    SE3.Valid (se3Exp eps x) := by
  unfold SE3.Valid se3Exp
  rcases h with h | h
  · exact so3Exp_normSq_closed eps x.phi h0 h
  · simp only [h, so3Exp_zero eps h0]; exact SO3_valid_one

/-- **One-parameter law of `se3Exp`** (closed-form branch): `Exp(a ξ)·Exp(b ξ) = Exp((a+b) ξ)` for `a, b > 0`
with `a‖φ‖ > eps`, `b‖φ‖ > eps`. -/
theorem se3Exp_add (eps : ℝ) (xi : se3 ℝ) (a b : ℝ) (h0 : 0 ≤ eps) (ha : 0 < a) (hb : 0 < b)
    (hA : eps < a * xi.phi.norm) (hB : eps < b * xi.phi.norm) :
    SE3Mul (se3Exp eps (scale xi a)) (se3Exp eps (scale xi b)) = se3Exp eps (scale xi (a + b)) := by
  have hθ : 0 < xi.phi.norm := by
    by_contra hc
    have : xi.phi.norm = 0 := le_antisymm (not_lt.mp hc) (Vec3.norm_nonneg xi.phi)
    rw [this, mul_zero] at hA; linarith
  have hθne : xi.phi.norm ≠ 0 := ne_of_gt hθ
  have hAB : eps < (a + b) * xi.phi.norm := by nlinarith
  have hab : 0 < a + b := by linarith
  unfold SE3Mul se3Exp scale
  ext1
  · simp only []
    rw [so3Jl_smul_closed eps xi.phi xi.tau a h0 ha hA, so3Jl_smul_closed eps xi.phi xi.tau b h0 hb hB,
      so3Jl_smul_closed eps xi.phi xi.tau (a + b) h0 hab hAB, so3Exp_smul_closed eps xi.phi a h0 ha hA,
      axisQuat_act_lin3, lin3_add, ← Vec3.norm_sq]
    set θ := xi.phi.norm with hθdef
    have eA : a * θ = 2 * (a * θ / 2) := by ring
    have hsin : Real.sin (a * θ) = 2 * Real.sin (a * θ / 2) * Real.cos (a * θ / 2) := by
      conv_lhs => rw [eA]
      exact Real.sin_two_mul _
    have hcos : Real.cos (a * θ) = 1 - 2 * Real.sin (a * θ / 2) * Real.sin (a * θ / 2) := by
      conv_lhs => rw [eA]
      rw [Real.cos_two_mul]
      have := Real.sin_sq_add_cos_sq (a * θ / 2)
      linear_combination (2 : ℝ) * this
    have eAB : (a + b) * θ = a * θ + b * θ := by ring
    rw [eAB, Real.sin_add, Real.cos_add, hsin, hcos]
    have hsinB := Real.sin_sq_add_cos_sq (b * θ)
    congr 1
    · field_simp; ring
    · field_simp; ring
  · exact so3Exp_add eps xi.phi a b h0 ha hb hA hB

/-! ## `Log ∘ Exp = id` on the closed-form branch, principal range -/

theorem axisQuat_vec_norm (φ : Vec3 ℝ) (s c : ℝ) (hs : 0 ≤ s) : (axisQuat φ s c).vec.norm = s * φ.norm := by
  have : (axisQuat φ s c).vec = φ.smul s := by
    unfold axisQuat Quat.vec Vec3.smul; ext <;> simp only [] <;> ring
  rw [this]
  unfold Vec3.norm
  simp only [sqrt_real]
  rw [Vec3.normSq_smul, Real.sqrt_mul (mul_self_nonneg s), Real.sqrt_mul_self hs]

/-- `SO3Log (so3Exp φ) = φ` for `eps < θ < π` as long as the quaternion is in the code's generic regime
(`sin(θ/2) > eps`, `cos(θ/2) > eps`) -/
theorem SO3Log_so3Exp (eps : ℝ) (φ : Vec3 ℝ) (h0 : 0 ≤ eps) (hθ : eps < φ.norm) (hπ : φ.norm < Real.pi)
    (hs : eps < Real.sin (φ.norm / 2)) (hc : eps < Real.cos (φ.norm / 2)) :
    SO3Log eps (so3Exp eps φ) = φ := by
  have hθ0 : 0 < φ.norm := lt_of_le_of_lt h0 hθ
  have hsp : 0 < Real.sin (φ.norm / 2) := lt_of_le_of_lt h0 hs
  have hcp : 0 < Real.cos (φ.norm / 2) := lt_of_le_of_lt h0 hc
  have h1 := so3Exp_smul_closed eps φ 1 h0 one_pos (by rw [one_mul]; exact hθ)
  rw [Vec3.smul_one', one_mul] at h1
  rw [h1]
  unfold SO3Log so3LogFactor
  rw [axisQuat_vec_norm φ _ _ (div_nonneg hsp.le hθ0.le)]
  have hvn : Real.sin (φ.norm / 2) / φ.norm * φ.norm = Real.sin (φ.norm / 2) := by field_simp
  rw [hvn]
  have hw : (axisQuat φ (Real.sin (φ.norm / 2) / φ.norm) (Real.cos (φ.norm / 2))).w = Real.cos (φ.norm / 2) := rfl
  rw [hw]
  have hcabs : eps < |Real.cos (φ.norm / 2)| := by rw [abs_of_pos hcp]; exact hc
  simp only [lt_real, hs, decide_true, if_true, sabs_real, hcabs, k_real, atan_real]
  rw [← Real.tan_eq_sin_div_cos, Real.arctan_tan (by linarith) (by linarith)]
  unfold axisQuat Quat.vec Vec3.smul
  ext <;> simp only [] <;> field_simp <;> norm_num

theorem polyK_mulVec_lin3 (φ τ : Vec3 ℝ) (b c α β γ : ℝ) :
    (polyK (1 : ℝ) b c φ).mulVec (lin3 φ τ α β γ) =
      lin3 φ τ α (β + b * α - φ.normSq * (b * γ + c * β)) (γ + b * β + c * α - φ.normSq * c * γ) := by
  unfold polyK lin3; ext <;> lie_unfold <;> ring

theorem lin3_one (φ τ : Vec3 ℝ) : lin3 φ τ 1 0 0 = τ := by
  unfold lin3; ext <;> lie_unfold <;> ring

/-- **`SE3Log (se3Exp ξ) = ξ`** in the principal range, generic regime of the code -/
theorem SE3Log_se3Exp (eps : ℝ) (xi : se3 ℝ) (h0 : 0 ≤ eps) (hθ : eps < xi.phi.norm) (hπ : xi.phi.norm < Real.pi)
    (hs : eps < Real.sin (xi.phi.norm / 2)) (hc : eps < Real.cos (xi.phi.norm / 2)) :
    SE3Log eps (se3Exp eps xi) = xi := by
  have hθ0 : 0 < xi.phi.norm := lt_of_le_of_lt h0 hθ
  have hsp : 0 < Real.sin (xi.phi.norm / 2) := lt_of_le_of_lt h0 hs
  have hlog := SO3Log_so3Exp eps xi.phi h0 hθ hπ hs hc
  unfold SE3Log se3Exp
  simp only [hlog]
  have hJ := so3Jl_smul_closed eps xi.phi xi.tau 1 h0 one_pos (by rw [one_mul]; exact hθ)
  rw [Vec3.smul_one', Vec3.smul_one', one_mul] at hJ
  rw [hJ]
  unfold so3JlInv so3JlInvCoef
  simp only [lt_real, hθ, decide_true, if_true, sin_real, cos_real, k_real, q_real, Nat.cast_one, Nat.cast_ofNat]
  rw [polyK_mulVec_lin3, ← Vec3.norm_sq]
  set θ := xi.phi.norm with hθdef
  have e2 : θ = 2 * (θ / 2) := by ring
  have hsin : Real.sin θ = 2 * Real.sin (θ / 2) * Real.cos (θ / 2) := by
    conv_lhs => rw [e2]
    exact Real.sin_two_mul _
  have hcos : Real.cos θ = 1 - 2 * Real.sin (θ / 2) * Real.sin (θ / 2) := by
    conv_lhs => rw [e2]
    rw [Real.cos_two_mul]
    have := Real.sin_sq_add_cos_sq (θ / 2)
    linear_combination (2 : ℝ) * this
  have e12 : (1 : ℝ) / 2 * θ = θ / 2 := by ring
  rw [e12, hsin, hcos]
  have hpy := Real.sin_sq_add_cos_sq (θ / 2)
  have hb : (1 - (1 - 2 * Real.sin (θ / 2) * Real.sin (θ / 2))) / (θ * θ) + -(1 / 2) * 1 -
      θ * θ * (-(1 / 2) * ((θ - 2 * Real.sin (θ / 2) * Real.cos (θ / 2)) / (θ * θ * θ)) +
        (1 - θ * Real.cos (θ / 2) / (2 * Real.sin (θ / 2))) / (θ * θ) *
          ((1 - (1 - 2 * Real.sin (θ / 2) * Real.sin (θ / 2))) / (θ * θ))) = 0 := by
    field_simp; ring
  have hg : (θ - 2 * Real.sin (θ / 2) * Real.cos (θ / 2)) / (θ * θ * θ) +
      -(1 / 2) * ((1 - (1 - 2 * Real.sin (θ / 2) * Real.sin (θ / 2))) / (θ * θ)) +
      (1 - θ * Real.cos (θ / 2) / (2 * Real.sin (θ / 2))) / (θ * θ) * 1 -
      θ * θ * ((1 - θ * Real.cos (θ / 2) / (2 * Real.sin (θ / 2))) / (θ * θ)) *
        ((θ - 2 * Real.sin (θ / 2) * Real.cos (θ / 2)) / (θ * θ * θ)) = 0 := by
    field_simp
    linear_combination (-2 * Real.sin (θ / 2) * θ) * hpy
  rw [hb, hg, lin3_one]

theorem scale_phi_norm (xi : se3 ℝ) (a : ℝ) (ha : 0 < a) : (scale xi a).phi.norm = a * xi.phi.norm :=
  norm_smul_pos xi.phi a ha

/-- consecutive samples `T₀·Exp(jξ)`, `T₀·Exp((j+1)ξ)` of a constant-twist motion have relative logarithm `ξ` -/
theorem delta_twist_step (eps : ℝ) (T0 : SE3 ℝ) (xi : se3 ℝ) (j : Nat) (h0 : 0 ≤ eps) (hT0 : SE3.Valid T0)
    (hj : 1 ≤ j) (hθ : eps < xi.phi.norm) (hπ : xi.phi.norm < Real.pi)
    (hs : eps < Real.sin (xi.phi.norm / 2)) (hc : eps < Real.cos (xi.phi.norm / 2)) :
    delta eps (SE3Mul T0 (se3Exp eps (scale xi (j : ℝ)))) (SE3Mul T0 (se3Exp eps (scale xi ((j + 1 : ℕ) : ℝ)))) = xi := by
  have hθ0 : 0 < xi.phi.norm := lt_of_le_of_lt h0 hθ
  have hjpos : (0 : ℝ) < (j : ℝ) := by exact_mod_cast hj
  have hj1 : (1 : ℝ) ≤ (j : ℝ) := by exact_mod_cast hj
  have hjθ : eps < (j : ℝ) * xi.phi.norm := by nlinarith
  have hEj : SE3.Valid (se3Exp eps (scale xi (j : ℝ))) :=
    se3Exp_valid eps _ h0 (Or.inl (by rw [scale_phi_norm xi _ hjpos]; exact hjθ))
  rw [delta_left_invariant eps T0 _ _ hT0 hEj]
  have hadd := se3Exp_add eps xi (j : ℝ) 1 h0 hjpos one_pos hjθ (by rw [one_mul]; exact hθ)
  have hc1 : ((j + 1 : ℕ) : ℝ) = (j : ℝ) + 1 := by push_cast; ring
  unfold delta
  rw [hc1, ← hadd, ← SE3_mul_assoc _ _ _ (SE3_valid_inv _ hEj) hEj, SE3_inv_mul _ hEj, SE3_one_mul, scale_one]
  exact SE3Log_se3Exp eps xi h0 hθ hπ hs hc

/-! ## `Exp ∘ Log ≅ id` (as a transformation) in the generic regime -/

theorem polyK_mulVec_comp (φ t : Vec3 ℝ) (b c b' c' : ℝ) :
    (polyK (1 : ℝ) b c φ).mulVec ((polyK (1 : ℝ) b' c' φ).mulVec t) =
      (polyK (1 : ℝ) (b + b' - φ.normSq * (b * c' + c * b')) (c + c' + b * b' - φ.normSq * (c * c')) φ).mulVec t := by
  unfold polyK; ext <;> lie_unfold <;> ring

theorem polyK_id_mulVec (φ t : Vec3 ℝ) : (polyK (1 : ℝ) 0 0 φ).mulVec t = t := by
  unfold polyK; ext <;> lie_unfold <;> ring

/-- the coefficients of `so3_Jl` and `so3_Jl_inv` (closed forms) cancel: `Jl · Jl⁻¹ = 1` as polynomials in `K` -/
theorem jl_coef_cancel (θ : ℝ) (hθ : 0 < θ) (hS : Real.sin (θ / 2) ≠ 0) :
    (1 - Real.cos θ) / (θ * θ) + -(1 / 2) - θ * θ * ((1 - Real.cos θ) / (θ * θ) *
        ((1 - θ * Real.cos (θ / 2) / (2 * Real.sin (θ / 2))) / (θ * θ)) + (θ - Real.sin θ) / (θ * (θ * θ)) * -(1 / 2)) = 0 ∧
    (θ - Real.sin θ) / (θ * (θ * θ)) + (1 - θ * Real.cos (θ / 2) / (2 * Real.sin (θ / 2))) / (θ * θ) +
        (1 - Real.cos θ) / (θ * θ) * -(1 / 2) - θ * θ * ((θ - Real.sin θ) / (θ * (θ * θ)) *
        ((1 - θ * Real.cos (θ / 2) / (2 * Real.sin (θ / 2))) / (θ * θ))) = 0 := by
  have e2 : θ = 2 * (θ / 2) := by ring
  have hsin : Real.sin θ = 2 * Real.sin (θ / 2) * Real.cos (θ / 2) := by
    conv_lhs => rw [e2]
    exact Real.sin_two_mul _
  have hcos : Real.cos θ = 1 - 2 * Real.sin (θ / 2) * Real.sin (θ / 2) := by
    conv_lhs => rw [e2]
    rw [Real.cos_two_mul]
    have := Real.sin_sq_add_cos_sq (θ / 2)
    linear_combination (2 : ℝ) * this
  have hpy := Real.sin_sq_add_cos_sq (θ / 2)
  rw [hsin, hcos]
  constructor
  · field_simp
    try ring
  · field_simp
    linear_combination (-2 * Real.sin (θ / 2) * θ) * hpy

theorem sin_arctan_abs (x : ℝ) : x * Real.sin |x| = |x| * Real.sin x := by
  rcases abs_choice x with h | h
  · rw [h]
  · rw [h, Real.sin_neg]; ring

/-- **`so3Exp (SO3Log q) = ±q`** for a unit quaternion in the code's generic regime (`eps < |v|`, `eps < |w|`,
resulting angle above `eps`): the sign is the sign of `w`. -/
theorem so3Exp_SO3Log (eps : ℝ) (q : Quat ℝ) (h0 : 0 ≤ eps) (hq : q.normSq = 1) (hv : eps < q.vec.norm)
    (hw : eps < |q.w|) (hθ : eps < 2 * |Real.arctan (q.vec.norm / q.w)|) :
    so3Exp eps (SO3Log eps q) = q ∨ so3Exp eps (SO3Log eps q) = q.neg := by
  have hvn : 0 < q.vec.norm := lt_of_le_of_lt h0 hv
  have hwne : q.w ≠ 0 := by intro h; rw [h, abs_zero] at hw; linarith
  have hrel : q.vec.norm * q.vec.norm + q.w * q.w = 1 := by
    rw [Vec3.norm_sq]
    have : q.vec.normSq + q.w * q.w = q.normSq := by unfold Vec3.normSq Quat.vec Quat.normSq; ring
    rw [this, hq]
  set x := Real.arctan (q.vec.norm / q.w) with hx
  have hxne : x ≠ 0 := by
    intro h; rw [h, abs_zero, mul_zero] at hθ; linarith
  have hxabs : 0 < |x| := abs_pos.mpr hxne
  -- the logarithm and its norm
  have hlog : SO3Log eps q = q.vec.smul (2 * x / q.vec.norm) := by
    unfold SO3Log so3LogFactor
    simp only [lt_real, hv, decide_true, if_true, sabs_real, hw, k_real, atan_real, Nat.cast_ofNat]
    rw [← hx]
  have hnorm : (q.vec.smul (2 * x / q.vec.norm)).norm = 2 * |x| := by
    unfold Vec3.norm
    simp only [sqrt_real]
    rw [Vec3.normSq_smul, Real.sqrt_mul (mul_self_nonneg _), Real.sqrt_mul_self_eq_abs]
    show |2 * x / q.vec.norm| * q.vec.norm = 2 * |x|
    rw [abs_div, abs_mul, abs_of_pos hvn, abs_of_pos (show (0 : ℝ) < 2 by norm_num)]
    field_simp
  rw [hlog]
  unfold so3Exp
  rw [hnorm]
  simp only [lt_real, hθ, decide_true, if_true, sin_real, cos_real, q_real, Nat.cast_one, Nat.cast_ofNat]
  have e : (1 : ℝ) / 2 * (2 * |x|) = |x| := by ring
  rw [e, Real.cos_abs]
  -- sin, cos of the arctangent
  have h1r : 1 + (q.vec.norm / q.w) ^ 2 = 1 / (q.w * q.w) := by field_simp; nlinarith
  have hsq : Real.sqrt (1 + (q.vec.norm / q.w) ^ 2) = 1 / |q.w| := by
    rw [h1r, ← abs_mul_abs_self q.w, ← one_div_mul_one_div, Real.sqrt_mul_self (by positivity)]
  have hcosx : Real.cos x = |q.w| := by rw [hx, Real.cos_arctan, hsq]; field_simp
  have hsinx : Real.sin x = q.vec.norm / q.w * |q.w| := by rw [hx, Real.sin_arctan, hsq]; field_simp
  have hsa := sin_arctan_abs x
  rcases lt_or_gt_of_ne hwne with hneg | hpos
  · right
    have habs : |q.w| = -q.w := abs_of_neg hneg
    unfold Quat.mk' Quat.neg Vec3.smul Quat.vec
    ext <;> simp only [hcosx, habs]
    · have : 2 * x / q.vec.norm * (Real.sin |x| / (2 * |x|)) = -1 := by
        have h2 : x * Real.sin |x| = |x| * (q.vec.norm / q.w * -q.w) := by rw [hsa, hsinx, habs]
        field_simp; field_simp at h2; linarith
      calc Real.sin |x| / (2 * |x|) * (2 * x / q.vec.norm * q.x) = (2 * x / q.vec.norm * (Real.sin |x| / (2 * |x|))) * q.x := by ring
        _ = -q.x := by rw [this]; ring
    · have : 2 * x / q.vec.norm * (Real.sin |x| / (2 * |x|)) = -1 := by
        have h2 : x * Real.sin |x| = |x| * (q.vec.norm / q.w * -q.w) := by rw [hsa, hsinx, habs]
        field_simp; field_simp at h2; linarith
      calc Real.sin |x| / (2 * |x|) * (2 * x / q.vec.norm * q.y) = (2 * x / q.vec.norm * (Real.sin |x| / (2 * |x|))) * q.y := by ring
        _ = -q.y := by rw [this]; ring
    · have : 2 * x / q.vec.norm * (Real.sin |x| / (2 * |x|)) = -1 := by
        have h2 : x * Real.sin |x| = |x| * (q.vec.norm / q.w * -q.w) := by rw [hsa, hsinx, habs]
        field_simp; field_simp at h2; linarith
      calc Real.sin |x| / (2 * |x|) * (2 * x / q.vec.norm * q.z) = (2 * x / q.vec.norm * (Real.sin |x| / (2 * |x|))) * q.z := by ring
        _ = -q.z := by rw [this]; ring
  · left
    have habs : |q.w| = q.w := abs_of_pos hpos
    unfold Quat.mk' Vec3.smul Quat.vec
    have key : 2 * x / q.vec.norm * (Real.sin |x| / (2 * |x|)) = 1 := by
      have h2 : x * Real.sin |x| = |x| * (q.vec.norm / q.w * q.w) := by rw [hsa, hsinx, habs]
      field_simp; field_simp at h2; linarith
    ext <;> simp only [hcosx, habs]
    · calc Real.sin |x| / (2 * |x|) * (2 * x / q.vec.norm * q.x) = (2 * x / q.vec.norm * (Real.sin |x| / (2 * |x|))) * q.x := by ring
        _ = q.x := by rw [key]; ring
    · calc Real.sin |x| / (2 * |x|) * (2 * x / q.vec.norm * q.y) = (2 * x / q.vec.norm * (Real.sin |x| / (2 * |x|))) * q.y := by ring
        _ = q.y := by rw [key]; ring
    · calc Real.sin |x| / (2 * |x|) * (2 * x / q.vec.norm * q.z) = (2 * x / q.vec.norm * (Real.sin |x| / (2 * |x|))) * q.z := by ring
        _ = q.z := by rw [key]; ring

theorem norm_smul_abs (c : ℝ) (v : Vec3 ℝ) : (v.smul c).norm = |c| * v.norm := by
  unfold Vec3.norm
  simp only [sqrt_real]
  rw [Vec3.normSq_smul, Real.sqrt_mul (mul_self_nonneg c), Real.sqrt_mul_self_eq_abs]

/-- `‖SO3Log q‖ = 2|arctan(|v|/w)|` in the generic regime -/
theorem SO3Log_norm_generic' (eps : ℝ) (q : Quat ℝ) (h0 : 0 ≤ eps) (hv : eps < q.vec.norm) (hw : eps < |q.w|) :
    (SO3Log eps q).norm = 2 * |Real.arctan (q.vec.norm / q.w)| := by
  have hvn : 0 < q.vec.norm := lt_of_le_of_lt h0 hv
  unfold SO3Log so3LogFactor
  simp only [lt_real, hv, decide_true, if_true, sabs_real, hw, k_real, atan_real, Nat.cast_ofNat]
  rw [norm_smul_abs, abs_div, abs_mul, abs_of_pos hvn, abs_of_pos (show (0 : ℝ) < 2 by norm_num)]
  field_simp

/-- **`se3Exp (SE3Log D) ≅ D`** (same rigid transformation) for a valid pose whose rotation is in the code's
generic regime: `eps < |v|`, `eps < |w|`, angle `2|arctan(|v|/w)| > eps`. -/
theorem se3Exp_SE3Log (eps : ℝ) (D : SE3 ℝ) (h0 : 0 ≤ eps) (hD : SE3.Valid D) (hv : eps < D.q.vec.norm)
    (hw : eps < |D.q.w|) (hθ : eps < 2 * |Real.arctan (D.q.vec.norm / D.q.w)|) :
    SE3Equiv (se3Exp eps (SE3Log eps D)) D := by
  have hnorm := SO3Log_norm_generic' eps D.q h0 hv hw
  have hθ' : eps < (SO3Log eps D.q).norm := by rw [hnorm]; exact hθ
  have hpos : 0 < (SO3Log eps D.q).norm := lt_of_le_of_lt h0 hθ'
  unfold se3Exp SE3Log
  refine ⟨?_, so3Exp_SO3Log eps D.q h0 hD hv hw hθ⟩
  simp only []
  unfold so3Jl so3JlInv so3JlCoef so3JlInvCoef
  simp only [lt_real, hθ', decide_true, if_true, sin_real, cos_real, k_real, q_real, Nat.cast_one, Nat.cast_ofNat]
  rw [polyK_mulVec_comp, ← Vec3.norm_sq]
  set θ := (SO3Log eps D.q).norm with hθdef
  have hx1 := Real.arctan_lt_pi_div_two (D.q.vec.norm / D.q.w)
  have hx2 := Real.neg_pi_div_two_lt_arctan (D.q.vec.norm / D.q.w)
  have hhalf : θ / 2 < Real.pi := by
    rw [hnorm]
    have : |Real.arctan (D.q.vec.norm / D.q.w)| < Real.pi / 2 := abs_lt.mpr ⟨by linarith, by linarith⟩
    have := Real.pi_pos
    linarith
  have hS : Real.sin (θ / 2) ≠ 0 := ne_of_gt (Real.sin_pos_of_pos_of_lt_pi (by linarith) hhalf)
  obtain ⟨hB, hC⟩ := jl_coef_cancel θ hpos hS
  have e12 : (1 : ℝ) / 2 * θ = θ / 2 := by ring
  rw [e12, hB, hC, polyK_id_mulVec]

/-! ## the one-parameter law on the Taylor branch (pass 3): defect of the truncated series -/

/-- the code's truncated series for `sin(t/2)/t` and `cos(t/2)` -/
noncomputable def tS (t : ℝ) : ℝ := 1 / 2 - t ^ 2 / 48 + t ^ 4 / 3840
noncomputable def tC (t : ℝ) : ℝ := 1 - t ^ 2 / 8 + t ^ 4 / 384

theorem mono_bound (u v : ℝ) (hu : 0 ≤ u) (hv : 0 ≤ v) (hs : u + v ≤ 1) (i j n : Nat) (hn : n ≤ i + j) :
    0 ≤ u ^ i * v ^ j ∧ u ^ i * v ^ j ≤ (u + v) ^ n := by
  have hs0 : 0 ≤ u + v := by linarith
  refine ⟨by positivity, ?_⟩
  calc u ^ i * v ^ j ≤ (u + v) ^ i * (u + v) ^ j :=
        mul_le_mul (pow_le_pow_left₀ hu (by linarith) i) (pow_le_pow_left₀ hv (by linarith) j) (by positivity) (by positivity)
    _ = (u + v) ^ (i + j) := (pow_add _ _ _).symm
    _ ≤ (u + v) ^ n := pow_le_pow_of_le_one hs0 hs hn

theorem taylor_dw (u v : ℝ) (hu : 0 ≤ u) (hv : 0 ≤ v) (hs : u + v ≤ 1) :
    |tC u * tC v - u * v * tS u * tS v - tC (u + v)| ≤ (u + v) ^ 6 / 700 := by
  have e : tC u * tC v - u * v * tS u * tS v - tC (u + v)
      = -(1 / 14745600) * (u ^ 5 * v ^ 5) + 1 / 184320 * (u ^ 5 * v ^ 3) - 1 / 7680 * (u ^ 5 * v ^ 1)
        + 1 / 147456 * (u ^ 4 * v ^ 4) - 1 / 3072 * (u ^ 4 * v ^ 2) + 1 / 184320 * (u ^ 3 * v ^ 5)
        - 1 / 2304 * (u ^ 3 * v ^ 3) - 1 / 3072 * (u ^ 2 * v ^ 4) - 1 / 7680 * (u ^ 1 * v ^ 5) := by
    unfold tC tS; ring
  rw [e]
  obtain ⟨a1, b1⟩ := mono_bound u v hu hv hs 5 5 6 (by norm_num)
  obtain ⟨a2, b2⟩ := mono_bound u v hu hv hs 5 3 6 (by norm_num)
  obtain ⟨a3, b3⟩ := mono_bound u v hu hv hs 5 1 6 (by norm_num)
  obtain ⟨a4, b4⟩ := mono_bound u v hu hv hs 4 4 6 (by norm_num)
  obtain ⟨a5, b5⟩ := mono_bound u v hu hv hs 4 2 6 (by norm_num)
  obtain ⟨a6, b6⟩ := mono_bound u v hu hv hs 3 5 6 (by norm_num)
  obtain ⟨a7, b7⟩ := mono_bound u v hu hv hs 3 3 6 (by norm_num)
  obtain ⟨a8, b8⟩ := mono_bound u v hu hv hs 2 4 6 (by norm_num)
  obtain ⟨a9, b9⟩ := mono_bound u v hu hv hs 1 5 6 (by norm_num)
  rw [abs_le]; constructor <;> linarith

theorem taylor_dv (u v : ℝ) (hu : 0 ≤ u) (hv : 0 ≤ v) (hs : u + v ≤ 1) :
    |u * tS u * tC v + v * tS v * tC u - (u + v) * tS (u + v)| ≤ (u + v) ^ 7 / 5000 := by
  have e : u * tS u * tC v + v * tS v * tC u - (u + v) * tS (u + v)
      = 1 / 1474560 * (u ^ 5 * v ^ 4) - 1 / 30720 * (u ^ 5 * v ^ 2) + 1 / 1474560 * (u ^ 4 * v ^ 5)
        - 1 / 18432 * (u ^ 4 * v ^ 3) - 1 / 18432 * (u ^ 3 * v ^ 4) - 1 / 30720 * (u ^ 2 * v ^ 5) := by
    unfold tC tS; ring
  rw [e]
  obtain ⟨a1, b1⟩ := mono_bound u v hu hv hs 5 4 7 (by norm_num)
  obtain ⟨a2, b2⟩ := mono_bound u v hu hv hs 5 2 7 (by norm_num)
  obtain ⟨a3, b3⟩ := mono_bound u v hu hv hs 4 5 7 (by norm_num)
  obtain ⟨a4, b4⟩ := mono_bound u v hu hv hs 4 3 7 (by norm_num)
  obtain ⟨a5, b5⟩ := mono_bound u v hu hv hs 3 4 7 (by norm_num)
  obtain ⟨a6, b6⟩ := mono_bound u v hu hv hs 2 5 7 (by norm_num)
  rw [abs_le]; constructor <;> linarith

theorem norm_smul_nonneg (φ : Vec3 ℝ) (a : ℝ) (ha : 0 ≤ a) : (φ.smul a).norm = a * φ.norm := by
  rw [norm_smul_abs, abs_of_nonneg ha]

/-- Taylor branch of `so3Exp` on a non-negative multiple of `φ` -/
theorem so3Exp_smul_taylor (eps : ℝ) (φ : Vec3 ℝ) (a : ℝ) (ha : 0 ≤ a) (h : ¬ eps < a * φ.norm) :
    so3Exp eps (φ.smul a) = axisQuat φ (a * tS (a * φ.norm)) (tC (a * φ.norm)) := by
  unfold so3Exp
  rw [norm_smul_nonneg φ a ha]
  simp only [lt_real, h, decide_false, Bool.false_eq_true, if_false, q_real, k_real, Nat.cast_one, Nat.cast_ofNat]
  unfold axisQuat Quat.mk' Vec3.smul tS tC
  ext <;> simp only [] <;> ring

/-! ## statements moved from Props/C19.lean (helpers / structural facts, pass 5) -/

/-- **One-parameter law on the Taylor branch, rotation part** (pass 3 — the branch excluded from
`exp_one_parameter_closed`): when all three angles `aθ, bθ, (a+b)θ` are at most `eps ≤ 1` (so the code uses its truncated
series three times), `Exp(aφ)·Exp(bφ)` and `Exp((a+b)φ)` differ by at most `eps⁶/700` in the scalar part and `eps⁷/5000` in
the norm of the vector part — the law holds up to the truncation order, for every `φ`, `a, b ≥ 0`. -/
theorem so3Exp_add_taylor (eps : ℝ) (φ : Vec3 ℝ) (a b : ℝ) (ha : 0 ≤ a) (hb : 0 ≤ b) (h1 : eps ≤ 1)
    (hAB : (a + b) * φ.norm ≤ eps) :
    |((so3Exp eps (φ.smul a)).mul (so3Exp eps (φ.smul b))).w - (so3Exp eps (φ.smul (a + b))).w| ≤ eps ^ 6 / 700 ∧
    (((so3Exp eps (φ.smul a)).mul (so3Exp eps (φ.smul b))).vec.sub (so3Exp eps (φ.smul (a + b))).vec).norm ≤ eps ^ 7 / 5000 := by
  have hθ := Vec3.norm_nonneg φ
  set θ := φ.norm with hθdef
  have hu : 0 ≤ a * θ := mul_nonneg ha hθ
  have hv : 0 ≤ b * θ := mul_nonneg hb hθ
  have hsum : a * θ + b * θ = (a + b) * θ := by ring
  have hs : a * θ + b * θ ≤ 1 := by rw [hsum]; linarith
  have hA : ¬ eps < a * θ := by apply not_lt.mpr; nlinarith
  have hB : ¬ eps < b * θ := by apply not_lt.mpr; nlinarith
  have hC : ¬ eps < (a + b) * θ := not_lt.mpr hAB
  rw [so3Exp_smul_taylor eps φ a ha hA, so3Exp_smul_taylor eps φ b hb hB,
    so3Exp_smul_taylor eps φ (a + b) (by linarith) hC, axisQuat_mul, ← Vec3.norm_sq, ← hθdef]
  have hs0 : 0 ≤ a * θ + b * θ := by linarith
  have hp6 : (a * θ + b * θ) ^ 6 ≤ eps ^ 6 := pow_le_pow_left₀ hs0 (by rw [hsum]; exact hAB) 6
  have hp7 : (a * θ + b * θ) ^ 7 ≤ eps ^ 7 := pow_le_pow_left₀ hs0 (by rw [hsum]; exact hAB) 7
  constructor
  · have := taylor_dw (a * θ) (b * θ) hu hv hs
    have e : (axisQuat φ (tC (a * θ) * (b * tS (b * θ)) + a * tS (a * θ) * tC (b * θ))
        (tC (a * θ) * tC (b * θ) - a * tS (a * θ) * (b * tS (b * θ)) * (θ * θ))).w
        - (axisQuat φ ((a + b) * tS ((a + b) * θ)) (tC ((a + b) * θ))).w
        = tC (a * θ) * tC (b * θ) - a * θ * (b * θ) * tS (a * θ) * tS (b * θ) - tC (a * θ + b * θ) := by
      unfold axisQuat; simp only [hsum]; ring
    rw [e]; linarith
  · have hvec : ((axisQuat φ (tC (a * θ) * (b * tS (b * θ)) + a * tS (a * θ) * tC (b * θ))
        (tC (a * θ) * tC (b * θ) - a * tS (a * θ) * (b * tS (b * θ)) * (θ * θ))).vec.sub
        (axisQuat φ ((a + b) * tS ((a + b) * θ)) (tC ((a + b) * θ))).vec)
        = φ.smul (tC (a * θ) * (b * tS (b * θ)) + a * tS (a * θ) * tC (b * θ) - (a + b) * tS ((a + b) * θ)) := by
      unfold axisQuat Quat.vec Vec3.sub Vec3.smul; ext <;> simp only [] <;> ring
    rw [hvec, norm_smul_abs, ← hθdef]
    have := taylor_dv (a * θ) (b * θ) hu hv hs
    have e : |tC (a * θ) * (b * tS (b * θ)) + a * tS (a * θ) * tC (b * θ) - (a + b) * tS ((a + b) * θ)| * θ
        = |a * θ * tS (a * θ) * tC (b * θ) + b * θ * tS (b * θ) * tC (a * θ) - (a * θ + b * θ) * tS (a * θ + b * θ)| := by
      rw [← abs_of_nonneg hθ, ← abs_mul, abs_of_nonneg hθ]
      congr 1; simp only [hsum]; ring
    rw [e]; linarith


/-! ## pure translations: `Exp`/`Log` when the rotation part is exactly trivial -/

theorem polyK_zero_mulVec (b c : ℝ) (t : Vec3 ℝ) : (polyK (1 : ℝ) b c Vec3.zero).mulVec t = t := by
  unfold polyK; ext <;> lie_unfold <;> simp [Vec3.zero]

/-- `Exp (τ; 0) = (τ, 1)` -/
theorem se3Exp_pure (eps : ℝ) (h0 : 0 ≤ eps) (t : Vec3 ℝ) : se3Exp eps ⟨t, Vec3.zero⟩ = ⟨t, Quat.one⟩ := by
  unfold se3Exp so3Jl
  simp only [so3Exp_zero eps h0, k_real, Nat.cast_one, polyK_zero_mulVec]

/-- `Log (t, q)` with `q.vec = 0` is `(t; 0)` -/
theorem SE3Log_pure (eps : ℝ) (D : SE3 ℝ) (hv : D.q.vec = Vec3.zero) : SE3Log eps D = ⟨D.t, Vec3.zero⟩ := by
  have hphi : SO3Log eps D.q = Vec3.zero := by unfold SO3Log; rw [hv, Vec3.smul_of_zero]
  unfold SE3Log so3JlInv
  simp only [hphi, k_real, Nat.cast_one, polyK_zero_mulVec]

/-- **`Exp(Log D) ≅ D` for poses whose rotation is exactly the identity (`q = ±1`)** — the case excluded by the generic regime -/
theorem se3Exp_SE3Log_pure (eps : ℝ) (D : SE3 ℝ) (h0 : 0 ≤ eps) (hD : SE3.Valid D) (hv : D.q.vec = Vec3.zero) :
    SE3Equiv (se3Exp eps (SE3Log eps D)) D := by
  rw [SE3Log_pure eps D hv, se3Exp_pure eps h0]
  refine ⟨rfl, ?_⟩
  have hx : D.q.x = 0 := by have := congrArg Vec3.x hv; simpa [Quat.vec, Vec3.zero] using this
  have hy : D.q.y = 0 := by have := congrArg Vec3.y hv; simpa [Quat.vec, Vec3.zero] using this
  have hz : D.q.z = 0 := by have := congrArg Vec3.z hv; simpa [Quat.vec, Vec3.zero] using this
  have hn : D.q.x * D.q.x + D.q.y * D.q.y + D.q.z * D.q.z + D.q.w * D.q.w = 1 := hD
  rw [hx, hy, hz] at hn
  have hw : (D.q.w - 1) * (D.q.w + 1) = 0 := by ring_nf; ring_nf at hn; linarith
  rcases mul_eq_zero.mp hw with h | h
  · left; ext <;> simp [Quat.one, hx, hy, hz]; linarith
  · right; ext <;> simp [Quat.one, Quat.neg, hx, hy, hz]; linarith

/-- samples of a pure translation motion: `Exp(a·(τ;0)) = (aτ, 1)` -/
theorem se3Exp_scale_pure (eps : ℝ) (h0 : 0 ≤ eps) (tau : Vec3 ℝ) (a : ℝ) :
    se3Exp eps (scale ⟨tau, Vec3.zero⟩ a) = ⟨tau.smul a, Quat.one⟩ := by
  unfold scale
  simp only [Vec3.smul_of_zero, se3Exp_pure eps h0]

theorem SE3Mul_pure (s t : Vec3 ℝ) : SE3Mul (⟨s, Quat.one⟩ : SE3 ℝ) ⟨t, Quat.one⟩ = ⟨s.add t, Quat.one⟩ := by
  unfold SE3Mul; ext <;> lie_unfold <;> simp [Quat.one]

/-- one-parameter law for pure translations: exact, every `a`, `b` -/
theorem se3Exp_add_pure (eps : ℝ) (h0 : 0 ≤ eps) (tau : Vec3 ℝ) (a b : ℝ) :
    SE3Mul (se3Exp eps (scale ⟨tau, Vec3.zero⟩ a)) (se3Exp eps (scale ⟨tau, Vec3.zero⟩ b))
      = se3Exp eps (scale ⟨tau, Vec3.zero⟩ (a + b)) := by
  rw [se3Exp_scale_pure eps h0, se3Exp_scale_pure eps h0, se3Exp_scale_pure eps h0, SE3Mul_pure]
  congr 1; ext <;> simp [Vec3.add, Vec3.smul] <;> ring

/-- consecutive samples of a pure translation motion have relative logarithm `(τ; 0)` -/
theorem delta_twist_step_pure (eps : ℝ) (h0 : 0 ≤ eps) (T0 : SE3 ℝ) (hT0 : SE3.Valid T0) (tau : Vec3 ℝ) (j : Nat) :
    delta eps (SE3Mul T0 (se3Exp eps (scale ⟨tau, Vec3.zero⟩ (j : ℝ))))
      (SE3Mul T0 (se3Exp eps (scale ⟨tau, Vec3.zero⟩ ((j + 1 : ℕ) : ℝ)))) = ⟨tau, Vec3.zero⟩ := by
  have hEj : SE3.Valid (se3Exp eps (scale ⟨tau, Vec3.zero⟩ (j : ℝ))) := by
    rw [se3Exp_scale_pure eps h0]; exact SO3_valid_one
  rw [delta_left_invariant eps T0 _ _ hT0 hEj]
  have hc1 : ((j + 1 : ℕ) : ℝ) = (j : ℝ) + 1 := by push_cast; ring
  unfold delta
  rw [hc1, ← se3Exp_add_pure eps h0 tau (j : ℝ) 1, ← SE3_mul_assoc _ _ _ (SE3_valid_inv _ hEj) hEj, SE3_inv_mul _ hEj,
    SE3_one_mul, scale_one, se3Exp_pure eps h0]
  exact SE3Log_pure eps _ (by ext <;> simp [Quat.vec, Quat.one, Vec3.zero])

/-- first step of a constant-twist motion (`j = 0`, generic regime): `Log(Exp(0·ξ)⁻¹ Exp(1·ξ)) = ξ` -/
theorem delta_twist_step_zero (eps : ℝ) (T0 : SE3 ℝ) (xi : se3 ℝ) (h0 : 0 ≤ eps) (hT0 : SE3.Valid T0)
    (hθ : eps < xi.phi.norm) (hπ : xi.phi.norm < Real.pi)
    (hs : eps < Real.sin (xi.phi.norm / 2)) (hc : eps < Real.cos (xi.phi.norm / 2)) :
    delta eps (SE3Mul T0 (se3Exp eps (scale xi ((0 : ℕ) : ℝ)))) (SE3Mul T0 (se3Exp eps (scale xi ((0 + 1 : ℕ) : ℝ)))) = xi := by
  have e0 : se3Exp eps (scale xi ((0 : ℕ) : ℝ)) = SE3one := by
    rw [Nat.cast_zero, scale_zero_right, se3Exp_zero eps h0]
  rw [e0, delta_left_invariant eps T0 _ _ hT0 SE3_valid_one]
  unfold delta
  have hinv : SE3Inv (SE3one : SE3 ℝ) = SE3one := by
    have := SE3_inv_mul (SE3one : SE3 ℝ) SE3_valid_one
    rwa [SE3_mul_one] at this
  rw [hinv, SE3_one_mul]
  simp only [Nat.zero_add, Nat.cast_one, scale_one]
  exact SE3Log_se3Exp eps xi h0 hθ hπ hs hc

end PP.Spline
