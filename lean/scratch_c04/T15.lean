import Proofs.Lemmas.AutogradChain
set_option linter.unusedSimpArgs false
namespace PP.AD
open PP

/-- affine curve in storage coordinates through `X0` with the left-perturbation velocity of tangent `τ` -/
noncomputable def affine (g : Grp) (X0 τ : DVec ℝ) (t : ℝ) : DVec ℝ :=
  (List.range g.gdim).map fun i => nth X0 i + t * nth (liftG g X0 τ) i

theorem nth_map_range (n i : Nat) (f : Nat → ℝ) (h : i < n) : nth ((List.range n).map f) i = f i := by
  simp [nth, h]

theorem affine_zero (g : Grp) (X0 τ : DVec ℝ) (h : X0.length = g.gdim) : affine g X0 τ 0 = X0 := by
  unfold affine
  simp only [zero_mul, add_zero]
  rw [← h]
  have := map_getD_range X0
  simpa [nth] using this

/-- non-vacuity of `GTangent`: every stored element is the base point of a curve with any prescribed tangent -/
theorem gtangent_affine (g : Grp) (X0 τ : DVec ℝ) (h : X0.length = g.gdim) : GTangent g (affine g X0 τ) τ := by
  unfold GTangent
  rw [affine_zero g X0 τ h]
  intro i hi
  have : (fun t => nth (affine g X0 τ t) i) = fun t => nth X0 i + t * nth (liftG g X0 τ) i := by
    funext t; unfold affine; exact nth_map_range _ _ _ hi
  rw [this]
  have := ((hasDerivAt_id (0:ℝ)).mul_const (nth (liftG g X0 τ) i)).const_add (nth X0 i)
  simpa using this
end PP.AD
