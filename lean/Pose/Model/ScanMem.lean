import Pose.Model.Scan
/-!
# Memory-level model of `cumops_` / `cumops` on strided views

`Pose/Model/Scan.lean` models one fibre as a pure sequence. This file models what the property says
about *storage*: the in-place variants overwrite exactly the elements of the view they are given
(which may be a transposed / strided / offset window of a larger buffer) and nothing else; the
out-of-place variants write a fresh buffer and leave the input storage untouched.

Storage is a flat address space `Nat → α`. A view is a family of `F` fibres of length `L`; element
`j` of fibre `f` lives at address `addr f j` (for a strided tensor: `base + Σ strideₖ·idxₖ`; the model
needs only the address map). `index_select` returns fresh tensors, so a round reads the memory *before*
the round; `index_copy_` then writes positions `i ≤ j < L` of every fibre.
-/
namespace PP.ScanMem
open PP.Scan
variable {α : Type} (op : α → α → α)

structure View where
  F : Nat
  L : Nat
  addr : Nat → Nat → Nat

/-- all index pairs of a view, fibre-major -/
def View.pairs (w : View) : List (Nat × Nat) :=
  (List.range w.F).flatMap fun f => (List.range w.L).map fun j => (f, j)

/-- which element of the view (if any) lives at address `a` -/
def View.find (w : View) (a : Nat) : Option (Nat × Nat) :=
  w.pairs.find? fun p => w.addr p.1 p.2 == a

/-- distinct elements of the view have distinct addresses (torch refuses in-place writes otherwise) -/
def View.NonOverlap (w : View) : Prop :=
  ∀ f j f' j', f < w.F → j < w.L → f' < w.F → j' < w.L → w.addr f j = w.addr f' j' → f = f' ∧ j = j'

/-- executable test of `NonOverlap` -/
def View.nonOverlapB (w : View) : Bool :=
  w.pairs.all fun p => w.pairs.all fun q => (w.addr p.1 p.2 != w.addr q.1 q.2) || (p == q)

/-- one in-place round with stride `i` -/
def stepMem (w : View) (i : Nat) (m : Nat → α) : Nat → α :=
  fun a => match w.find a with
    | some (f, j) => if i ≤ j then op (m (w.addr f (j - i))) (m (w.addr f j)) else m a
    | none => m a

/-- `cumops_(view, dim, ops)`: the storage after the call -/
def scanMem (w : View) (m : Nat → α) : Nat → α :=
  (strides w.L).foldl (fun m i => stepMem op w i m) m

/-- `cumops_` with torch's own guard: `index_copy_` refuses to write through a view in which two elements share
an address ("unsupported operation: more than one element of the written-to tensor refers to a single memory
location") — `none` models that `RuntimeError`. -/
def scanMemChecked (w : View) (m : Nat → α) : Option (Nat → α) :=
  if w.nonOverlapB then some (scanMem op w m) else none

/-- `cumops(view, dim, ops)` = `cumops_(view.clone(), …)`: the clone is fresh storage starting at `top` (an
address beyond everything allocated). The model lays the clone out fibre-major; torch's `clone()` keeps the
input's dimension order (`preserve_format`), which permutes addresses inside the fresh block but not which
logical element holds which value — results are compared logically. Returns the new storage. -/
def cloneView (w : View) (top : Nat) : View := ⟨w.F, w.L, fun f j => top + f * w.L + j⟩

def copyTo (w : View) (top : Nat) (m : Nat → α) : Nat → α :=
  fun a => match (cloneView w top).find a with
    | some (f, j) => m (w.addr f j)
    | none => m a

def scanOut (w : View) (top : Nat) (m : Nat → α) : Nat → α :=
  scanMem op (cloneView w top) (copyTo w top m)

/-! ### executable variant on a finite buffer (what the driver runs) -/

/-- strided view of rank ≤ 4 given as `(shape, strides)` lists, scanned along `dim`: fibres are the
index tuples of the other dimensions, in row-major order -/
def fibreBases (shape strides : List Nat) (dim : Nat) (base : Nat) : List Nat :=
  let rec go : List (Nat × Nat) → List Nat → List Nat
    | [], acc => acc
    | (n, s) :: rest, acc => go rest (acc.flatMap fun b => (List.range n).map fun k => b + s * k)
  let dims := (shape.zip strides).zipIdx.filterMap fun (p, k) => if k == dim then none else some p
  go dims [base]

def mkView (shape strides : List Nat) (dim : Nat) (base : Nat) : View :=
  let bases := (fibreBases shape strides dim base).toArray
  let sl := strides.getD dim 0
  ⟨bases.size, shape.getD dim 0, fun f j => bases.getD f 0 + sl * j⟩

/-- inverse address table for addresses `< n` (first pair wins, like `find`) -/
def invTable (w : View) (n : Nat) : Array (Option (Nat × Nat)) :=
  w.pairs.foldr (fun p t => t.setIfInBounds (w.addr p.1 p.2) (some p)) (Array.replicate n none)

def stepBuf [Inhabited α] (w : View) (tbl : Array (Option (Nat × Nat))) (i : Nat) (buf : Array α) : Array α :=
  Array.ofFn (n := buf.size) fun a =>
    match tbl.getD a.val none with
    | some (f, j) =>
      if i ≤ j then op (buf.getD (w.addr f (j - i)) default) (buf.getD (w.addr f j) default)
      else buf.getD a.val default
    | none => buf.getD a.val default

/-- `cumops_` on a finite buffer (`scanBuf_eq` ties it to `scanMem`) -/
def scanBuf [Inhabited α] (w : View) (buf : Array α) : Array α :=
  let tbl := invTable w buf.size
  (strides w.L).foldl (fun b i => stepBuf op w tbl i b) buf

/-- `cumops` (out of place) on a finite buffer: the clone is appended after the existing storage -/
def scanOutBuf [Inhabited α] (w : View) (buf : Array α) : Array α :=
  let ext := buf ++ (Array.ofFn (n := w.F * w.L) fun k => buf.getD (w.addr (k.val / w.L) (k.val % w.L)) default)
  scanBuf op (cloneView w buf.size) ext

end PP.ScanMem
