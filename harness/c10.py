"""C10 — linear solvers and sparse products return correct solutions or fail loudly.

Model: lean/Pose/Model/LinSolve.lean, lean/Pose/Model/SparseMM.lean; theorems: lean/Proofs/Props/C10.lean.

Streams (every stream runs the REAL code of /repo and compares with the model executed in 192-bit arithmetic
and with the property's own certificate, evaluated exactly by the driver):
  ls      PINV / LSTSQ on batched, rectangular, rank-deficient (exact integer factorisations A = B C), graded
          (condition ladder to 1e8) systems.  Oracles: normal-equation certificate |A^T(Ax-b)| (exact),
          distance to the model's own minimum-norm solution `lsRef` (Wedin-type forward bound),
          wrapper correspondence (kernel called with the solver's attributes + model matvec).
  chol    Cholesky(upper in {F,T}) on SPD ladders and on indefinite / singular / negative / one-bad-batch-item
          matrices.  The model classifies each matrix (PD with margin / non-PD with margin / rounding band) by an
          exact factorisation of A -+ tau*diag(A); outside the band the implementation must return the solution
          (residual certificate + model solve) resp. must raise.
  cg      CG on dense / CSR / COO / BSR SPD systems (condition <= 1e3), optional initial guess and
          preconditioner, scale ladders for A and b, b = 0.  Oracles: true residual <= tol*|b|, zero for b = 0,
          iteration count (observed through a tensor-subclass spy) <= maxiter.  Correspondence: on systems where
          floating-point and exact CG provably stay together (few iterations / tiny condition) iteration count
          and iterate equal the model's.
  history ONE solver object (CG with default budget, PINV, LSTSQ, Cholesky) reused over systems of different sizes /
          dtypes / layouts (small->large, large->small, mixed; a deterministic corner corpus is run by every seed):
          all oracles after every call + the object's public attributes must stay what the constructor set.
  sparse  bsr_bsc_matmul and the _sparse_csr_mm dispatch on random and structured block patterns (block sizes
          1..4, densities 0..1, empty rows / columns / operands), integer data (exact equality) and float data;
          all 36 layout pairs against the model's dispatch table.
"""
from __future__ import annotations

import math
from fractions import Fraction

import torch

from . import common
from .common import Ctx, to_wire, wire_list

META = {
    "rule": "ls: (solver, dtype, batch shape, m, n in 1..40, rank kind: float graded full rank kappa 1..1e8 | exact integer "
            "full rank | exact integer rank-deficient r<min(m,n) incl. r=0 with graded column scales, b: generic / "
            "consistent / zero / scaled); chol: (upper, dtype, batch, n in 1..40, kind: SPD kappa ladder / scaled / "
            "integer | indefinite with negative eigenvalue on a magnitude ladder / exactly singular / negative / zero / "
            "bad last pivot / bad first pivot / one bad batch item); cg: (layout, n in 1..40, spectrum kind, kappa<=1e3, "
            "scales of A and b over 2^-30..2^30, x0 kind, preconditioner kind and layout, tol, maxiter, b shape); sparse: "
            "(block grid 1..6, block dims 1..4, density ladder incl. 0 and 1, structured patterns, int / float data, "
            "dtype) + all 36 layout pairs; history: (solver kind, constructor arguments, 2..5 calls, order asc / desc / mixed, "
            "per-call size, dtype, layout, b shape, view mode, conditioning; `inplace` = the caller's own tensors overwritten "
            "between calls) on ONE reused solver object.  Every stream additionally draws: sizes beyond 40 / block dims "
            "beyond 4, scales 2^+-100, argument view modes (slice / strided / transposed storage / expanded / aliased), "
            "mixed-regime batches judged item by item against the single-item call, configured tolerances judged by the "
            "truncated-SVD law.  A deterministic corner corpus (corner_cases, corner_histories, empty batches; 130+ cases) "
            "runs first on every seed; it includes matrices NEARLY symmetric / triangular / diagonal / rank-deficient / zero at "
            "relative distances 1e-3..1e-14, complex operands, aliased operands, shared-default objects, property subclasses, "
            "batches up to 2^17+1 (2^20+1 thorough).  A case is non-trivial when the system has at least 2 unknowns (sparse: at "
            "least one stored block on each side) and distinct by its full discrete signature.  Sparse products additionally draw "
            "ILL-SCALED operands (one block row of A / block column of B times 1e5, 1e9, 2^53, 1e+-30, first / middle / last): integer "
            "data in float compared exactly, float data against the componentwise bound 64 n u sum|a||b| of each entry.",
    "trusted": [
        "torch.linalg.pinv / lstsq / cholesky_ex / cholesky_solve, torch.addmm and layout conversions (external kernels: "
        "hypotheses of the theorems; pinv's Penrose conditions are re-measured per case and reported)",
        "tensor-subclass spy (__torch_function__) used only to count matmul calls of CG.forward",
        "torch.linalg.svd / eigh as contract parameters of the streams ls.svd / ls.lsvd / ls.eigh (orthonormality and "
        "reconstruction re-measured per case by the driver: a violated contract is an infrastructure error)",
    ],
    "assumptions": [
        "float32 systems are restricted to condition <= 1e3 (kappa*max(m,n)*eps << 1), float64 to <= 1e8",
        "LSTSQ(driver='gels') assumes full rank (LAPACK): on rank-deficient input it violates the normal-equation contract of "
        "lstsq_forward_ls; the harness runs gels, and the configurations with a zero / negative cut-off, on full-rank systems only",
        "Cholesky: cholesky_ex reads one triangle; theorems and oracles are about symmetric arguments (IsSymm), as in the property",
        "CG theorems are exact-arithmetic statements under NoBreakdown (no vanishing denominator), which holds on SPD systems with "
        "tol > 0 (cg_spd_no_breakdown); tol <= 0 and non-SPD matrices (where the code can return NaN) are outside the property",
        "CG shapes: a rank-2 A with ONE right-hand side (n,) or (n,1) (cgInDomain); cgEntry itself accepts any rank pair",
        "compressed index arrays satisfy torch's invariants (sorted, distinct inside a row/column): hypothesis `WF`",
        "CG: single systems (b of shape (n,1) or (n,)), as documented",
        "LSTSQ with an SVD driver: a negative rcond means the driver's machine precision, measured as eps/2 in gelsd and eps in "
        "gelss (parameter `mach` of lstsqCutoff); the default driver gelsy decides the rank by incremental condition estimation, "
        "not by singular values: its rank decision is not modelled; GIVEN the rank, its result is the model lstsqForwardCod on a "
        "complete orthogonal decomposition (theorems lstsq_cod_forward_minnorm(_exact); stream ls.cod on exact-rank systems up to "
        "24 x 24, cond <= 1e6; binding on full column rank, informational on rank-deficient systems like ls.ref)",
    ],
    "partial": [
        "IEEE rounding is not modelled: accuracy of the float solvers is decided by measured agreement with the exact "
        "model at the stated tolerances (partial: rounding)",
        "CG within 10n iterations: proved in exact arithmetic (cg_exact_convergence: at most n passes); that the "
        "floating-point iteration also stops within 10n passes for condition <= 1e3 rides on sampling (partial: CG rate)",
        "PINV certificate tolerance is proportional to the effective condition number (pinv(A) @ b is not backward stable)",
    ],
}

EPS = common.EPS
STATS: dict = {}


def stat(key, ratio):
    """largest observed (error / tolerance) per oracle: reported in the evidence notes"""
    if ratio == ratio and ratio > STATS.get(key, 0.0):
        STATS[key] = ratio


def S():
    import pypose.optim.solver as s
    return s


def O():
    import pypose.sparse.ops as o
    return o


def tdt(name):
    return getattr(torch, name)


def gen(seed):
    return torch.Generator().manual_seed(int(seed))


def wl(t: torch.Tensor) -> str:
    return wire_list(t.detach().double().flatten().tolist())


def nums(rep):
    return [float(v) for v in common.reply_nums(rep)]


def rep_case(case):
    """the dict that is reported / replayed for `case`: the enclosing history when the call is one of a reused solver"""
    if "_report" in case:
        return {**case["_report"], "call": case["_call"]}
    return {k: v for k, v in case.items() if not k.startswith("_")}


def sfx(case):
    return f" [call {case['_call']} on a REUSED solver object, history of {len(case['_report']['calls'])} calls]" if "_report" in case else ""


def bad_result(ctx, cc, x, who, hs=""):
    """anything but a tensor coming back from the implementation is a failure of the property, not of the harness"""
    if isinstance(x, torch.Tensor):
        return False
    ctx.fail(cc, f"shape: {who} returned {type(x).__name__} instead of a tensor" + hs)
    return True


def guarded(ctx, case, fn, *args):
    """run one case; an exception raised from inside /repo's code outside the harness's own try blocks (or caused by
    an object the implementation handed back) is reported as a failure with the case — never as a harness crash"""
    import traceback
    try:
        return fn(ctx, case, *args)
    except common.InfraError:
        raise
    except Exception as e:
        tb = traceback.format_exc()
        if "/pypose/" in tb or "_impl_value" in tb:
            ctx.fail(rep_case(case), f"crash: {type(e).__name__}: {str(e)[:160]}" + sfx(case))
            return None
        raise


SENT = 7.25


class Views:
    """hands tensors to the implementation as views of larger, sentinel-filled buffers (interior slice, every-other
    element, transposed storage) and verifies afterwards that the buffers are bit-for-bit what they were — for an
    argument the API updates in place (CG's initial guess) that the storage OUTSIDE the view is untouched."""

    def __init__(self):
        self.owned = []

    def make(self, name, t, mode, writable=False):
        if mode in (None, "plain") or t.layout != torch.strided or t.dim() == 0:
            return t
        if mode == "T":
            if t.dim() < 2:
                return t
            v = t.mT.contiguous().mT
            buf, inside = v, None
        elif mode == "slice":
            shp = list(t.shape)
            shp[-1] += 3
            if t.dim() >= 2:
                shp[-2] += 2
            buf = torch.full(shp, SENT, dtype=t.dtype)
            v = buf[..., 1:1 + t.shape[-2], 2:2 + t.shape[-1]] if t.dim() >= 2 else buf[..., 2:2 + t.shape[-1]]
            v.copy_(t)
        else:  # "strided": every other element
            shp = list(t.shape)
            shp[-1] = 2 * shp[-1] + 1
            if t.dim() >= 2:
                shp[-2] = 2 * shp[-2]
            buf = torch.full(shp, SENT, dtype=t.dtype)
            v = buf[..., ::2, 1::2] if t.dim() >= 2 else buf[..., 1::2]
            v.copy_(t)
        self.owned.append((name, buf, buf.clone(), v if writable else None))
        return v

    def dirty(self):
        bad = []
        for name, buf, snap, wview in self.owned:
            if wview is not None:       # compare only the storage outside the writable view
                mask = torch.zeros_like(buf, dtype=torch.bool)   # position of the view inside its buffer
                mask.as_strided(wview.shape, wview.stride(), wview.storage_offset() - buf.storage_offset()).fill_(True)
                if not torch.equal(buf[~mask], snap[~mask]):
                    bad.append(name + " (storage outside the view)")
            elif not torch.equal(buf, snap):
                bad.append(name)
        return bad


def reuse_buf(case, name, t):
    """stale-read class: inside an `inplace` history the caller keeps ONE tensor per argument and overwrites it in place
    (copy_) between calls; the implementation must read the current contents"""
    buf = case.get("_buf")
    if buf is None:
        return t
    key = (name, tuple(t.shape), t.dtype)
    if key in buf:
        buf[key].copy_(t)
        return buf[key]
    buf[key] = t.clone()
    return buf[key]


GRAD_MODES = ["plain", "plain", "plain", "nograd", "inference", "rg", "graph", "param"]


def call_in_mode(mode, fn, tensors):
    """calls fn(*tensors') with the operands prepared for the autograd mode; returns the detached result"""
    import contextlib
    prep = list(tensors)
    cm = contextlib.nullcontext()
    if mode == "nograd":
        prep = [t if t is None or t.layout != torch.strided else t.clone().requires_grad_() for t in prep]
        cm = torch.no_grad()
    elif mode == "inference":
        cm = torch.inference_mode()
    elif mode == "rg":
        prep = [t if t is None or t.layout != torch.strided else t.clone().requires_grad_() for t in prep]
    elif mode == "graph":
        prep = [t if t is None or t.layout != torch.strided else t.clone().requires_grad_() * 1.0 for t in prep]
    elif mode == "param":
        prep = [t if t is None or t.layout != torch.strided else torch.nn.Parameter(t.clone()) for t in prep]
        cm = torch.no_grad()
    with cm:
        out = fn(*prep)
    return out.detach() if isinstance(out, torch.Tensor) else out


def values_differ(xp, x, eps):
    """result of the same call in another autograd mode / spelling: equal up to the rounding of a different memory layout"""
    if not isinstance(xp, torch.Tensor) or not isinstance(x, torch.Tensor) or tuple(xp.shape) != tuple(x.shape):
        return True
    if xp.is_complex() or x.is_complex():
        xp, x = torch.view_as_real(xp.detach().to(torch.complex128)), torch.view_as_real(x.detach().to(torch.complex128))
    if not torch.equal(torch.isfinite(xp.detach()), torch.isfinite(x.detach())):
        return True
    a, b_ = torch.nan_to_num(xp.detach().double()), torch.nan_to_num(x.detach().double())
    if a.numel() == 0:
        return False
    if a.dim() < 2:
        return not bool(((a - b_).abs() <= 64 * eps * max(a.numel(), 1) * torch.maximum(a.abs(), b_.abs()).amax()).all())
    return not bool(((a - b_).abs() <= 64 * eps * a.shape[-2] * torch.maximum(a.abs(), b_.abs()).amax(dim=(-2, -1), keepdim=True)).all())


class default_dtype:
    """(25) process-wide default dtype switched around the implementation call only (restored afterwards)"""

    def __init__(self, name):
        self.name = name

    def __enter__(self):
        self.old = torch.get_default_dtype()
        if self.name:
            torch.set_default_dtype(tdt(self.name))

    def __exit__(self, *a):
        torch.set_default_dtype(self.old)
        return False


def same_storage(x, t):
    try:
        return (isinstance(x, torch.Tensor) and isinstance(t, torch.Tensor) and x.layout == torch.strided
                and t.layout == torch.strided and x.numel() > 0 and t.numel() > 0
                and x.untyped_storage().data_ptr() == t.untyped_storage().data_ptr())
    except Exception:
        return False


def overlaps_itself(x):
    return isinstance(x, torch.Tensor) and x.layout == torch.strided and any(st == 0 and sz > 1 for st, sz in zip(x.stride(), x.shape))


def pub(case):
    return {k: v for k, v in case.items() if not k.startswith("_")}


# ============================================================================================ ls stream

LS_SOLVERS = ["PINV", "LSTSQ", "LSTSQ:gelsd", "LSTSQ:gelss", "PINV:herm", "PINV:rtol", "PINV:atol", "LSTSQ:rcond"]


# name -> (class, positional args, keyword args): every optional argument alone, in pairs, keyword and positional
SOLVER_CFG = {
    "PINV": ("PINV", (), {}),
    "PINV:herm": ("PINV", (), {"hermitian": True}),
    "PINV:rtol": ("PINV", (), {"atol": 1e-300, "rtol": 1e-2}),
    "PINV:atol": ("PINV", (), {"atol": 0.5, "rtol": 0.0}),
    "PINV:rtol1": ("PINV", (), {"rtol": 1e-2}),                    # exactly one of the two tolerances
    "PINV:atol1": ("PINV", (), {"atol": 0.5}),
    "PINV:both": ("PINV", (), {"atol": 0.3, "rtol": 1e-3}),        # rtol != atol, both active
    "PINV:herm+rtol": ("PINV", (), {"rtol": 1e-2, "hermitian": True}),
    "PINV:pos": ("PINV", (None, 1e-2, False), {}),                  # positional constructor arguments
    "PINV:negatol": ("PINV", (), {"atol": -1.0}),                   # sign of the scalar parameters: torch takes max(atol, rtol*s1)
    "PINV:negrtol": ("PINV", (), {"rtol": -1.0}),
    "PINV:zero": ("PINV", (), {"atol": 0.0, "rtol": 0.0}),
    "LSTSQ:negrcond": ("LSTSQ", (), {"rcond": -1.0, "driver": "gelsd"}),   # LAPACK: rcond < 0 means machine precision
    "LSTSQ:zerorcond": ("LSTSQ", (), {"rcond": 0.0, "driver": "gelss"}),
    "LSTSQ": ("LSTSQ", (), {}),
    "LSTSQ:gelsd": ("LSTSQ", (), {"driver": "gelsd"}),
    "LSTSQ:gelss": ("LSTSQ", (), {"driver": "gelss"}),
    "LSTSQ:gelsy": ("LSTSQ", (), {"driver": "gelsy"}),
    "LSTSQ:gels": ("LSTSQ", (), {"driver": "gels"}),               # full-rank driver (used on full-rank systems only)
    "LSTSQ:rcond": ("LSTSQ", (), {"rcond": 1e-2, "driver": "gelsd"}),
    "LSTSQ:rcond1": ("LSTSQ", (), {"rcond": 1e-2}),                # rcond alone (default driver: wrapper stream only)
    "LSTSQ:pos": ("LSTSQ", (1e-2, "gelss"), {}),
}
TRUNC_CUT = {   # documented cut-off of the configured tolerances, as a function of the largest singular value
    "PINV:rtol": lambda s1: max(1e-300, 1e-2 * s1), "PINV:atol": lambda s1: 0.5, "PINV:rtol1": lambda s1: 1e-2 * s1,
    "PINV:atol1": lambda s1: 0.5, "PINV:both": lambda s1: max(0.3, 1e-3 * s1), "PINV:herm+rtol": lambda s1: 1e-2 * s1,
    "PINV:pos": lambda s1: 1e-2 * s1, "LSTSQ:rcond": lambda s1: 1e-2 * s1, "LSTSQ:pos": lambda s1: 1e-2 * s1,
}
DEFAULT_CFG = ("PINV", "LSTSQ", "LSTSQ:gelsd", "LSTSQ:gelss", "LSTSQ:gelsy", "LSTSQ:gels", "PINV:herm",
               "PINV:negatol", "PINV:negrtol", "PINV:zero", "LSTSQ:negrcond", "LSTSQ:zerorcond")
# configurations whose cut-off is (next to) zero: judged on full-rank systems only, like the full-rank driver gels
FULLRANK_CFG = ("LSTSQ:gels", "PINV:negrtol", "PINV:zero", "LSTSQ:negrcond", "LSTSQ:zerorcond", "PINV:negatol")
HERM_CFG = ("PINV:herm", "PINV:herm+rtol")


def make_solver(name):
    cls, args, kw = SOLVER_CFG[name]
    return getattr(S(), cls)(*args, **kw)


def ls_item(it, m, n, dtype):
    """deterministic construction of one system: returns A (m,n), b (m,1) in dtype, exact factors B (m,r), C (r,n)
    as float64 tensors with A == B @ C exactly (checked), r."""
    g = gen(it["seed"])
    dt = tdt(dtype)
    kind = it["kind"]
    if kind == "diag":          # exact data: diagonal matrix with the given singular values (ties at a cut-off are EXACT)
        r = min(m, n)
        dv = torch.tensor((it["svs"] + [0.0] * r)[:r], dtype=torch.float64)
        A = torch.zeros(m, n, dtype=torch.float64)
        A[torch.arange(r), torch.arange(r)] = dv
        A = A.to(dt)
        rr = int((dv != 0).sum())
        keep = [i for i in range(r) if float(dv[i]) != 0.0]
        B = torch.zeros(m, rr, dtype=torch.float64); C = torch.zeros(rr, n, dtype=torch.float64)
        for t_, i_ in enumerate(keep):
            B[i_, t_] = A[i_, i_].double(); C[t_, i_] = 1.0
        r = rr
    elif kind == "float":
        r = min(m, n)
        U, _ = torch.linalg.qr(torch.randn(m, m, generator=g, dtype=torch.float64))
        V, _ = torch.linalg.qr(torch.randn(n, n, generator=g, dtype=torch.float64))
        s = torch.logspace(0, -it["cexp"], r, dtype=torch.float64) if r > 1 else torch.ones(1, dtype=torch.float64)
        if it.get("svs"):      # explicit (relative) singular values: spacing classes around a cut-off
            sv_ = torch.tensor(it["svs"][:r], dtype=torch.float64)
            s = torch.cat([sv_, s[len(sv_):] * float(sv_.min()) * 0.5]) if len(sv_) < r else sv_
        if it.get("sym"):      # symmetric indefinite matrix with the prescribed |eigenvalues|
            assert m == n
            sg = torch.where(torch.rand(r, generator=g) < 0.5, -1.0, 1.0).double()
            V = U * sg
        Abase = (U[:, :r] * s) @ V[:, :r].T
        nr = it.get("near")
        if nr:
            # (36) a matrix at relative distance 10^-dexp from a structured one (symmetric / triangular / diagonal /
            # rank-deficient / zero): the band between round-off and any "helpful" tolerance a heuristic might use
            dl = 10.0 ** -nr["dexp"]
            G = torch.randn(m, n, generator=g, dtype=torch.float64)
            if nr["struct"] in ("sym", "symrel") and m == n:
                Sb = (U * s) @ U.T
                Sb = (Sb + Sb.T) / 2
                if nr["struct"] == "symrel":       # element-wise relative asymmetry: S * (1 + delta * R)
                    Abase = Sb * (1 + dl * torch.rand(n, n, generator=g, dtype=torch.float64))
                else:
                    E = (G - G.T) / 2
                    Abase = Sb + dl * float(s[0]) * E / float(E.norm().clamp_min(1e-300)) * n
            elif nr["struct"] in ("tril", "triu") and m == n:
                T_ = torch.tril(G) * 0.3 / max(n, 1) ** 0.5 + torch.diag(s * torch.where(torch.rand(n, generator=g) < 0.5, -1.0, 1.0).double())
                T_ = torch.tril(T_)
                E = torch.triu(G, 1)
                Abase = T_ + dl * float(s[0]) * E / float(E.norm().clamp_min(1e-300)) * n
                if nr["struct"] == "triu":
                    Abase = Abase.T.contiguous()
            elif nr["struct"] == "diag" and m == n:
                E = G - torch.diag(torch.diag(G))
                Abase = torch.diag(s) + dl * float(s[0]) * E / float(E.norm().clamp_min(1e-300)) * n
            elif nr["struct"] == "stencil" and m == n:   # convection-diffusion stencil: off-diagonals -1 -+ delta
                Abase = 2.5 * torch.eye(n, dtype=torch.float64)
                for i_ in range(n - 1):
                    Abase[i_, i_ + 1] = -1 - dl
                    Abase[i_ + 1, i_] = -1 + dl
            elif nr["struct"] == "lowrank" and r > 1:   # smallest singular value = delta * largest
                s2 = s.clone(); s2[-1] = dl * float(s[0])
                Abase = (U[:, :r] * s2) @ V[:, :r].T
            elif nr["struct"] == "zero":
                Abase = dl * Abase
        A = (Abase * (2.0 ** it.get("ascale", 0))).to(dt)
        Ad = A.double()
        if it.get("sym"):
            Ad = ((Ad + Ad.T) / 2).to(dt).double()
            A = Ad.to(dt)
        if m >= n:
            B, C = Ad, torch.eye(n, dtype=torch.float64)
        else:
            B, C = torch.eye(m, dtype=torch.float64), Ad
    elif kind == "orth":
        # (pass 9) rank deficiency WITHOUT exact zeros anywhere: A = U diag(s) V^T, random orthogonal U, V, `zeros` singular values
        # equal to 0 (or the smallest equal to `smin` * largest): LU meets no exactly zero pivot, only round-off sized ones
        r0 = min(m, n)
        U, _ = torch.linalg.qr(torch.randn(m, m, generator=g, dtype=torch.float64))
        V, _ = torch.linalg.qr(torch.randn(n, n, generator=g, dtype=torch.float64))
        s = torch.logspace(0, -it.get("cexp", 1), r0, dtype=torch.float64) if r0 > 1 else torch.ones(1, dtype=torch.float64)
        kz = min(it.get("zeros", 0), r0)
        if kz:
            s[r0 - kz:] = 0.0
        if it.get("smin") is not None:
            s[r0 - kz - 1] = it["smin"] * float(s[0])
        A = (((U[:, :r0] * s) @ V[:, :r0].T) * (2.0 ** it.get("ascale", 0))).to(dt)
        B, C, r = None, None, r0 - kz
    elif kind == "lie":
        # (pass 9) the stacked Jacobians the default Gauss-Newton solver receives in an under-determined geometry: N so3 parameters
        # with ONE point pair each (blocks -[p]x, 3N x 3N of rank 2N: the rotation about the point is unobservable) or N se3
        # parameters with TWO pairs each (blocks [[1, -[p]x], [1, -[q]x]], 6N x 6N of rank 5N)
        N = it["N"]
        def skew(v):
            return torch.tensor([[0.0, -float(v[2]), float(v[1])], [float(v[2]), 0.0, -float(v[0])], [-float(v[1]), float(v[0]), 0.0]],
                                dtype=torch.float64)
        if it["group"] == "so3":
            assert m == n == 3 * N
            blocks = [-skew(torch.randn(3, generator=g, dtype=torch.float64)) for _ in range(N)]
            r = 2 * N
        else:
            assert m == n == 6 * N
            blocks = []
            for _ in range(N):
                p_, q_ = torch.randn(3, generator=g, dtype=torch.float64), torch.randn(3, generator=g, dtype=torch.float64)
                I3 = torch.eye(3, dtype=torch.float64)
                blocks.append(torch.cat([torch.cat([I3, -skew(p_)], 1), torch.cat([I3, -skew(q_)], 1)], 0))
            r = 5 * N
        A = torch.block_diag(*blocks)
        if it.get("mix"):     # the same system in other coordinates (no block structure left for a pivoting strategy to exploit)
            Q1, _ = torch.linalg.qr(torch.randn(m, m, generator=g, dtype=torch.float64))
            A = Q1 @ A
        A = A.to(dt)
        B, C = None, None
    elif kind == "int":  # exact integer factorisation, rank r
        r = it["r"]
        lim = 16 if dtype == "float64" else 4
        B8 = torch.randint(-lim, lim + 1, (m, r), generator=g, dtype=torch.int64)
        Ci = torch.randint(-3, 4, (r, n), generator=g, dtype=torch.int64)
        # make the factors full rank with probability one-ish: add identity pattern
        for t in range(r):
            if t < m:
                B8[t, t] += 2 * lim + 1
            if t < n:
                Ci[t, t] += 7
        ex = torch.tensor([it["cexp2"] * t // max(r - 1, 1) for t in range(r)], dtype=torch.int64) if r > 0 else \
            torch.zeros(0, dtype=torch.int64)
        Bs = B8 * (2 ** ex)[None, :] if r > 0 else B8
        A8 = Bs @ Ci  # exact int64
        A = (A8.double() / 8.0)
        assert float(A8.abs().max() if A8.numel() else 0) < (2 ** 52 if dtype == "float64" else 2 ** 23), "inexact A"
        B, C = Bs.double() / 8.0, Ci.double()
        A = A.to(dt)
        assert torch.equal(A.double(), B @ C)
    bk = it["b"]
    if bk == "zero":
        b = torch.zeros(m, 1, dtype=dt)
    elif bk == "consistent":
        b = (A.double() @ torch.randn(n, 1, generator=g, dtype=torch.float64)).to(dt)
    elif bk == "negative":      # every entry negative: max(b) < 0, sum(b) < 0
        b = (-torch.rand(m, 1, generator=g, dtype=torch.float64) - 0.25).to(dt)
    elif bk == "sumzero":       # non-zero entries that cancel exactly
        h_ = torch.randint(1, 9, ((m + 1) // 2, 1), generator=g).double()
        b = torch.cat([h_, -h_])[:m] if m % 2 == 0 else torch.cat([h_[:-1], -h_[:-1], torch.zeros(1, 1, dtype=torch.float64)])
        b = b.to(dt)
    else:
        b = torch.randn(m, 1, generator=g, dtype=torch.float64).to(dt)
    b = b * (2.0 ** it.get("bscale", 0))
    return A, b, B, C, r


def ls_build(case):
    m, n, dtype = case["m"], case["n"], case["dtype"]
    items = [ls_item(it, m, n, dtype) for it in case["items"]]
    bs = tuple(case["batch"])
    exp = case.get("expand") if len(items) > 1 else None
    if exp == "A":      # one matrix for the whole batch (stride-0 batch dimensions), own right-hand sides
        items = [(items[0][0], it[1], items[0][2], items[0][3], items[0][4]) for it in items]
    elif exp == "b":
        items = [(it[0], items[0][1], it[2], it[3], it[4]) for it in items]
    if case.get("alias"):   # the right-hand side IS the first column of A (a view of the same tensor)
        items = [(it[0], it[0][:, :1].clone(), it[2], it[3], it[4]) for it in items]
    if not items:           # empty batch
        return torch.zeros(bs + (m, n), dtype=tdt(dtype)), torch.zeros(bs + (m, 1), dtype=tdt(dtype)), items
    A = torch.stack([x[0] for x in items]).reshape(bs + (m, n))
    b = torch.stack([x[1] for x in items]).reshape(bs + (m, 1))
    if exp == "A":
        A = items[0][0].expand(bs + (m, n))
    elif exp == "b":
        b = items[0][1].expand(bs + (m, 1))
    if case.get("alias"):
        b = A[..., :, 0:1]
    return A, b, items


def kernel_ls(name, sol, A, b):
    """the external kernel called with the solver's own attributes (wrapper correspondence)"""
    if name.startswith("PINV"):
        return torch.linalg.pinv(A, atol=sol.atol, rtol=sol.rtol, hermitian=sol.hermitian)
    return torch.linalg.lstsq(A, b, rcond=sol.rcond, driver=sol.driver).solution


def check_ls(ctx: Ctx, case, lines_out=None) -> bool:
    """runs one (batched) ls case; oracle evaluation needs the driver -> two phases: phase 1 collects lines."""
    name, dtype, m, n = case["solver"], case["dtype"], case["m"], case["n"]
    eps = EPS[dtype]
    A, b, items = ls_build(case)
    V = Views()
    if "_buf" in case:
        A, b = reuse_buf(case, "A", A), reuse_buf(case, "b", b)
    elif not (case.get("alias") or case.get("expand")):
        A, b = V.make("A", A, case.get("view")), V.make("b", b, case.get("viewb"))
    A0, b0 = A.clone(), b.clone()
    if "_pre" in case:
        case["_pre"]()
    sol = case["_solf"]() if "_solf" in case else (case.get("_sol") or make_solver(name))
    default_cfg = name in DEFAULT_CFG  # others: wrapper stream + truncated-SVD law
    gm = case.get("grad", "plain")
    try:
        with default_dtype(case.get("defdt")):
            x = call_in_mode(gm, sol, [A, b]) if gm != "plain" else sol(A, b)
    except Exception as e:
        if "_post" in case:
            case["_post"]()
        ctx.fail(rep_case(case), f"raises: {name} raised on a finite system ({m}x{n}, autograd mode {gm}): {type(e).__name__}: {str(e)[:100]}" + sfx(case))
        return False
    ok = True
    if "_post" in case:
        case["_post"]()
    if bad_result(ctx, rep_case(case), x, name, sfx(case)):
        return False
    if gm != "plain":
        # value independence of the autograd mode: same numbers as the plain call
        ctx.count(f"grad.{gm}")
        xp = make_solver(name)(A.detach().clone(), b.detach().clone())
        if values_differ(xp, x, eps):
            dd = float((xp.double() - x.double()).abs().max()) if tuple(xp.shape) == tuple(x.shape) else float("nan")
            ctx.fail(rep_case(case), f"grad-mode: {name} returns different values under autograd mode `{gm}` than with plain tensors "
                                     f"(max difference {dd:.3e}, {m}x{n}, {dtype})" + sfx(case))
            ok = False
    if same_storage(x, A) or same_storage(x, b) or overlaps_itself(x):
        ctx.fail(rep_case(case), f"alias: the tensor returned by {name} shares memory with an argument or overlaps itself" + sfx(case))
        ok = False
    if not (torch.equal(A, A0) and torch.equal(b, b0)) or V.dirty():
        ctx.fail(rep_case(case), f"mutation: {name} changed its arguments {V.dirty()} (views {case.get('view')}/{case.get('viewb')})" + sfx(case))
        ok = False
    if tuple(x.shape) != tuple(case["batch"]) + (n, 1) or x.dtype != A.dtype:
        ctx.fail(rep_case(case), f"shape: {name} returned shape {tuple(x.shape)} dtype {x.dtype} for A {tuple(A.shape)}" + sfx(case))
        return False
    if not bool(torch.isfinite(x).all()):
        ctx.fail(rep_case(case), f"nonfinite: {name} returned a non-finite solution silently" + sfx(case))
        return False
    # wrapper correspondence with the kernel
    K = kernel_ls(name, sol, A, b)
    # (copies: inside an `inplace` history the caller's buffers are overwritten before the verdicts are computed)
    xf = x.reshape(-1, n, 1).double().clone()
    Af = A.reshape(-1, m, n).double().clone()
    bf = b.reshape(-1, m, 1).double().clone()
    Kf = K.reshape((-1,) + tuple(K.shape[-2:])).double().clone()
    recs = []
    for k, (Ai, bi, Bi, Ci, r) in enumerate(items):
        sv = torch.linalg.svdvals(Af[k]) if m * n > 0 else torch.zeros(0)
        s1 = float(sv[0]) if sv.numel() else 0.0
        sr = float(sv[r - 1]) if r > 0 else 0.0
        rec = {"k": k, "r": r, "s1": s1, "sr": sr, "x": xf[k].flatten(), "A": Af[k], "b": bf[k].flatten(),
               "B": Bi, "C": Ci, "K": Kf[k], "default": default_cfg}
        recs.append(rec)
        if len(items) > 1:
            # item-wise = batched: the same solver on item k alone (batch-level any()/all()/max() decisions show here)
            Ak = A.reshape(-1, m, n)[k].clone()
            bk = b.reshape(-1, m, 1)[k].clone()
            try:
                xa = make_solver(name)(Ak, bk)
                da = float((xa.double().flatten() - rec["x"]).norm())
                kap_k = (s1 / sr) if (r > 0 and sr > 0) else 1.0
                bnk = float(rec["b"].norm())
                tola = 64 * eps * max(m, n) * kap_k * (float(rec["x"].norm()) + (bnk / sr if sr > 0 else 0.0))
                ctx.count("ls.itemwise")
                if not (da <= tola + 1e-300):
                    ctx.fail({**rep_case(case), "item": k}, f"batch-item: {name} on item {k} of the batch differs from the same call on "
                                                           f"that item alone by {da:.3e} > {tola:.3e} ({m}x{n}, rank {r}, {dtype})" + sfx(case))
                    ok = False
            except Exception as e:
                ctx.fail({**rep_case(case), "item": k}, f"batch-item: {name} returned for the batch but raised on item {k} alone: "
                                                       f"{type(e).__name__}: {str(e)[:80]}" + sfx(case))
                ok = False
        if lines_out is not None:
            lines_out.append((case, rec, "cert", f"c10.lscert {m} {n} {wl(Af[k])} {wl(bf[k])} {wl(xf[k])}"))
            if default_cfg and r > 0 and Bi is not None:
                lines_out.append((case, rec, "ref", f"c10.lsref {m} {r} {n} {wl(Bi)} {wl(Ci)} {wl(bf[k])}"))
            # (the O(n^3) model streams cost ~0.5 s per 32 x 32 system: of the pass-9 systems only those marked `model` run them,
            #  all of them are judged by the O(n^2) exact certificates `cert` / `dtcert` and the wrapper product)
            heavy = case["items"][k].get("kind") in ("orth", "lie") and not (case["items"][k].get("model") and max(m, n) <= 40)
            if name.startswith("PINV") and m * n > 0 and not heavy:
                # the kernel unfolded one level: torch's SVD is the contract parameter, the tolerance defaulting
                # (`pinvCutoff`) and V S^+ U^T b are the Lean model's (`pinvForwardSvd`, theorem pinv_svd_forward_minnorm)
                Us, Ss, Vhs = torch.linalg.svd(Af[k], full_matrices=False)
                at_, rt_ = getattr(sol, "atol", None), getattr(sol, "rtol", None)
                rec["svd_s"] = Ss
                lines_out.append((case, rec, "svd",
                                  f"c10.pinvsvd {m} {n} {Ss.numel()} {0 if at_ is None else 1} {to_wire(float(at_ or 0.0))} "
                                  f"{0 if rt_ is None else 1} {to_wire(float(rt_ or 0.0))} {to_wire(eps)} {wl(Af[k])} {wl(Us)} {wl(Ss)} "
                                  f"{wl(Vhs.mT)} {wl(bf[k])}"))
            if name.startswith("LSTSQ") and getattr(sol, "driver", None) in ("gelsd", "gelss") and m * n > 0 and not heavy:
                # the SVD drivers unfolded one level: torch's SVD is the contract parameter; the rcond defaulting
                # (`lstsqCutoff`: None -> max(m,n)*eps, negative -> LAPACK machine precision: eps/2 in gelsd, eps in gelss),
                # the strict comparison with rcond*s1 and V S^+ U^T b are the Lean model's (`lstsqForwardSvd`, theorem
                # lstsq_rcond_svd_forward_minnorm)
                Us, Ss, Vhs = torch.linalg.svd(Af[k], full_matrices=False)
                rc_ = getattr(sol, "rcond", None)
                rec["svd_s"] = Ss
                lines_out.append((case, rec, "lsvd",
                                  f"c10.lstsqsvd {m} {n} {Ss.numel()} {0 if rc_ is None else 1} {to_wire(float(rc_ or 0.0))} "
                                  f"{to_wire(eps)} {to_wire(eps / 2 if sol.driver == 'gelsd' else eps)} {wl(Af[k])} {wl(Us)} {wl(Ss)} "
                                  f"{wl(Vhs.mT)} {wl(bf[k])}"))
            if name in ("LSTSQ", "LSTSQ:gelsy") and Bi is not None and 0 < r and max(m, n) <= 24 and \
                    case["items"][k].get("kind") in ("int", "float", "diag") and not case["items"][k].get("near") and \
                    rec["sr"] > 0 and rec["s1"] / rec["sr"] <= 1e6:
                # (pass 10) the default driver gelsy unfolded one level: a complete orthogonal decomposition A = Q T Z^T of the
                # exact-rank-r matrix is the contract parameter (built here from two range finders: Q = orth(A G), Z = orth(A^T H),
                # T = Q^T A Z — invertible, not triangular; the theorem needs no more), x = Z T^-1 Q^T b is the Lean model's
                # (`lstsqForwardCod`, theorem lstsq_cod_forward_minnorm_exact)
                gq = gen(case["items"][k]["seed"] + 77)
                Qc = torch.linalg.qr(Af[k] @ torch.randn(n, r, generator=gq, dtype=torch.float64)).Q
                Zc = torch.linalg.qr(Af[k].T @ torch.randn(m, r, generator=gq, dtype=torch.float64)).Q
                Tc = Qc.T @ Af[k] @ Zc
                Tic = torch.linalg.inv(Tc)
                Tic = Tic @ (2 * torch.eye(r, dtype=torch.float64) - Tc @ Tic)      # one Newton step: T Ti = 1 to round-off
                lines_out.append((case, rec, "cod", f"c10.lstsqcod {m} {n} {r} {wl(Af[k])} {wl(Qc)} {wl(Zc)} {wl(Tc)} {wl(Tic)} {wl(bf[k])}"))
            if name in HERM_CFG and m == n and n > 0:
                # hermitian=True: the kernel is eigh of ONE triangle (model pinvForwardEigh, theorem pinv_hermitian_forward_minnorm)
                lam_, Q_ = torch.linalg.eigh(Af[k])
                at_, rt_ = getattr(sol, "atol", None), getattr(sol, "rtol", None)
                rec["eig_l"] = lam_
                lines_out.append((case, rec, "eigh",
                                  f"c10.pinveigh {n} {0 if at_ is None else 1} {to_wire(float(at_ or 0.0))} {0 if rt_ is None else 1} "
                                  f"{to_wire(float(rt_ or 0.0))} {to_wire(eps)} {wl(Af[k])} {wl(Q_)} {wl(lam_)} {wl(bf[k])}"))
            if name.startswith("PINV"):
                lines_out.append((case, rec, "matvec", f"c10.matvec {n} {m} {wl(Kf[k])} {wl(bf[k])}"))
                if default_cfg and not heavy:
                    lines_out.append((case, rec, "penrose", f"c10.penrose {m} {n} {wl(Af[k])} {wl(Kf[k])}"))
            else:
                # LSTSQ.forward returns the kernel's solution itself
                d = float((xf[k] - Kf[k]).abs().max()) if n > 0 else 0.0
                sc = float(Kf[k].abs().max()) if n > 0 else 0.0
                if not (d <= 64 * eps * (sc + 1e-300)):
                    ctx.disagree("ls.wrapper", rep_case(case), f"item {k}: {name} differs from lstsq(A,b,rcond,driver).solution by {d:.3e}")
                    ok = False
    if name == "PINV" and lines_out is not None and m * n > 0:
        # (pass 9) the same law for the DEFAULT tolerances (atol 0, rtol max(m,n)*eps): the result must be the minimum-norm
        # least-squares solution of A with the singular values <= max(m,n)*eps*s1 set to zero — judged by the exact certificate
        # (A_t^T (A_t x - b) = 0 and x orthogonal to null(A_t)) whenever no singular value lies within a factor 4 of the cut-off
        for k, rec in enumerate(recs):
            U, sv, Vh = torch.linalg.svd(rec["A"], full_matrices=True)
            s1 = float(sv[0]) if sv.numel() else 0.0
            cut = max(m, n) * eps * s1
            if s1 == 0.0 or any(cut / 4 <= float(v) <= 4 * cut for v in sv):
                ctx.count("ls.dtrunc.ambiguous")
                continue
            kk = int((sv > cut).sum())
            At = (U[:, :kk] * sv[:kk]) @ Vh[:kk]
            xs = Vh[:kk].T @ ((U[:, :kk].T @ rec["b"]) / sv[:kk])
            trec = {**rec, "A": At, "r": kk, "s1": s1, "sr": float(sv[kk - 1]) if kk else 0.0, "null": Vh[kk:].T, "trunc": True,
                    "cut": cut, "xs": xs, "sv": sv, "A0": rec["A"]}
            lines_out.append((case, trec, "dtcert", f"c10.lscert {m} {n} {wl(At)} {wl(bf[k])} {wl(xf[k])}"))
    if name in TRUNC_CUT and lines_out is not None:
        # documented semantics of the tolerance arguments: singular values below the cut-off are treated as zero, i.e. the
        # result is the minimum-norm least-squares solution of the truncated matrix (judged only when no singular value
        # lies within a factor 4 of the cut-off)
        for k, rec in enumerate(recs):
            U, sv, Vh = torch.linalg.svd(rec["A"], full_matrices=True)
            s1 = float(sv[0]) if sv.numel() else 0.0
            cut = TRUNC_CUT[name](s1)
            # only singular values within rounding distance of the cut-off are ambiguous (the spacing classes put values
            # at cut*(1 +- 1e-3), cut*(1 +- 0.3) on purpose)
            band = max(1e-9 if dtype == "float64" else 2e-4, 200 * eps * s1 / max(cut, 1e-300))
            if case["items"][k].get("kind") == "diag":
                band = -1.0          # exact data: a singular value exactly AT the cut-off is a legitimate, decidable tie (dropped)
            if any(abs(float(v) - cut) <= band * cut for v in sv):
                ctx.count("ls.trunc.ambiguous")
                continue
            kk = int((sv > cut).sum())
            At = (U[:, :kk] * sv[:kk]) @ Vh[:kk]
            trec = {**rec, "A": At, "r": kk, "s1": s1, "sr": float(sv[kk - 1]) if kk else 0.0, "null": Vh[kk:].T, "trunc": True}
            lines_out.append((case, trec, "tcert", f"c10.lscert {m} {n} {wl(At)} {wl(bf[k])} {wl(xf[k])}"))
    case["_recs"] = recs
    return ok


def check_ls_malformed(ctx: Ctx, case) -> bool:
    """a non-finite entry in A: the solver must raise or return a finite tensor, never NaN/inf silently
    (`LSTSQ.forward` carries an explicit assertion for this)."""
    A, b, _ = ls_build(case)
    g = gen(case["items"][0]["seed"] + 1)
    flat = A.reshape(-1)
    pos = int(torch.randint(0, flat.numel(), (), generator=g))
    flat[pos] = float(case["malformed"])
    sol = make_solver(case["solver"])
    ctx.count(f"ls.malformed.{case['solver'].split(':')[0]}")
    try:
        x = sol(A, b)
    except BaseException:
        ctx.count("ls.malformed.raises")
        return True
    if not bool(torch.isfinite(x).all()):
        ctx.fail(dict(case), f"nonfinite: {case['solver']} returned a non-finite solution silently for a matrix with a "
                             f"{case['malformed']} entry ({case['m']}x{case['n']}, {case['dtype']})")
        return False
    ctx.count("ls.malformed.finite")
    return True


def judge_ls(ctx: Ctx, case, rec, what, rep):
    name, dtype, m, n = case["solver"], case["dtype"], case["m"], case["n"]
    eps = EPS[dtype]
    dim = max(m, n)
    s1, sr, r = rec["s1"], rec["sr"], rec["r"]
    kap = (s1 / sr) if (r > 0 and sr > 0) else 1.0
    pinv = name.startswith("PINV")
    cc = rep_case(case)
    cc["item"] = rec["k"]
    if what == "cert":
        g, res, xn, bn, an = nums(rep)
        rec["xn"], rec["bn"], rec["res"] = xn, bn, res
        if not rec["default"]:
            return
        scale = s1 * (s1 * xn + bn)
        tol = 64 * eps * dim * scale * (kap if pinv else 1.0)
        ctx.count("ls.cert." + ("pinv" if pinv else "lstsq"))
        stat("ls.cert." + ("pinv" if pinv else "lstsq") + "." + dtype, g / (tol + 1e-300))
        if not (g <= tol + 1e-300):
            ctx.fail(cc, f"ls-certificate: {name} result is not a least-squares solution: |A^T(Ax-b)| = {g:.3e} > {tol:.3e} "
                         f"({m}x{n}, rank {r}, cond {kap:.1e}, {dtype})" + sfx(case))
    elif what in ("svd", "lsvd"):
        tag = "ls.svd" if what == "svd" else "ls.lsvd"
        if common.parse_reply(rep)[0] != "ok" and "model:" in rep:
            ctx.fail(cc, f"ls-lsvd: the model's LSTSQ.forward raises ({rep}) where {name} returned" + sfx(case))
            return
        v = nums(rep)
        cut, xm, (cu, cv, ca) = v[0], torch.tensor(v[1:1 + n], dtype=torch.float64), v[1 + n:]
        sv = rec["svd_s"]
        s1_ = float(sv[0])
        # contract of the SVD kernel (hypotheses of the theorem), re-measured
        if not (max(cu, cv) <= 1e-10 and ca <= 1e-10 * (s1_ + 1e-300)):
            raise common.InfraError(f"torch.linalg.svd violates its contract: |U^TU-1|={cu:.1e} |V^TV-1|={cv:.1e} |A-USV^T|={ca:.1e}")
        # ambiguous only when a singular value is within rounding distance of the cut-off
        band = max((1e-9 if dtype == "float64" else 2e-4) * cut, 2 * eps * s1_)
        if case["items"][rec["k"]].get("kind") == "diag":
            band = -1.0
        if any(abs(float(t) - cut) <= band and not (float(t) == 0.0 and cut == 0.0) for t in sv):
            ctx.count(tag + ".ambiguous")
            return
        kept = [float(t) for t in sv if float(t) > cut]
        srk = min(kept) if kept else 0.0
        kk = (s1_ / srk) if kept else 1.0
        bn_ = float(rec["b"].norm())
        tol = 64 * eps * dim * kk * (float(xm.norm()) + (bn_ / srk if kept else 0.0))
        d = float((rec["x"] - xm).norm())
        ctx.count(tag)
        stat(tag + "." + dtype, d / (tol + 1e-300))
        if not (d <= tol + 1e-300):
            law = "max(atol, rtol*s1)" if what == "svd" else "rcond*s1 (None: max(m,n)*eps, negative: machine precision)"
            ms = make_solver(name)
            ctx.fail(cc, f"ls-{what}: {name} differs from V S^+ U^T b with the documented cut-off {law} = {cut:.3e} "
                         f"({', '.join(f'{a_} {getattr(ms, a_, None)}' for a_ in ('atol', 'rtol', 'rcond', 'driver') if hasattr(ms, a_))}) "
                         f"by {d:.3e} > {tol:.3e} ({m}x{n}, kept {len(kept)} of {len(sv)} singular values, {dtype}); |x| = "
                         f"{float(rec['x'].norm()):.3e}, minimum-norm least-squares solution |x_model| = {float(xm.norm()):.3e}, |Ax-b| = "
                         f"{float((rec['A'] @ rec['x'] - rec['b']).norm()):.3e} vs {float((rec['A'] @ xm - rec['b']).norm()):.3e}; "
                         f"A[0,:6] = {rec['A'][0, :6].tolist()}, b[:6] = {rec['b'][:6].tolist()}" + sfx(case))
            ctx.disagree(tag, cc, f"|x - x_model| = {d:.3e} > {tol:.3e}")
    elif what == "cod":
        v = nums(rep)
        xm, (cq, cz, ct, ca) = torch.tensor(v[:n], dtype=torch.float64), v[n:]
        # contract of the decomposition (hypotheses of the theorem), re-measured exactly; it is built by this harness, so a miss
        # only skips the case
        if not (max(cq, cz) <= 1e-10 and ct <= 1e-8 and ca <= 1e-10 * (s1 + 1e-300)):
            ctx.count("ls.cod.contract-missed")
            return
        bn_ = float(rec["b"].norm())
        tol = 64 * eps * dim * kap * (float(xm.norm()) + bn_ / sr)
        d = float((rec["x"] - xm).norm())
        unique = r == n       # (as for `ref`: minimum norm is demanded of PINV only; on rank-deficient systems this is information)
        ctx.count("ls.cod" if unique else "ls.cod.info")
        stat("ls.cod." + dtype + ("" if unique else ".info"), d / (tol + 1e-300))
        if unique and not (d <= tol + 1e-300):
            ctx.fail(cc, f"ls-cod: {name} differs from Z T^-1 Q^T b (complete orthogonal decomposition of the full-column-rank A) by "
                         f"{d:.3e} > {tol:.3e} ({m}x{n}, cond {kap:.1e}, {dtype})" + sfx(case))
            ctx.disagree("ls.cod", cc, f"|x - x_model| = {d:.3e} > {tol:.3e}")
    elif what == "eigh":
        v = nums(rep)
        cut, xm, (cq, ca) = v[0], torch.tensor(v[1:1 + n], dtype=torch.float64), v[1 + n:]
        la = rec["eig_l"].abs()
        s1_ = float(la.max())
        if not (cq <= 1e-10 and ca <= 1e-10 * (s1_ + 1e-300)):
            raise common.InfraError(f"torch.linalg.eigh violates its contract: |Q^TQ-1|={cq:.1e} |A-QLQ^T|={ca:.1e}")
        band = max((1e-9 if dtype == "float64" else 2e-4) * cut, 2 * eps * s1_)
        if any(abs(float(t) - cut) <= band and not (float(t) == 0.0 and cut == 0.0) for t in la):
            ctx.count("ls.eigh.ambiguous")
            return
        kept = [float(t) for t in la if float(t) > cut]
        srk = min(kept) if kept else 0.0
        kk = (s1_ / srk) if kept else 1.0
        bn_ = float(rec["b"].norm())
        tol = 64 * eps * dim * kk * (float(xm.norm()) + (bn_ / srk if kept else 0.0))
        d = float((rec["x"] - xm).norm())
        ctx.count("ls.eigh")
        stat("ls.eigh." + dtype, d / (tol + 1e-300))
        if not (d <= tol + 1e-300):
            ctx.fail(cc, f"ls-eigh: {name} differs from Q L^+ Q^T b (eigenvalues of modulus <= {cut:.3e} dropped) by {d:.3e} > {tol:.3e} "
                         f"({n}x{n}, kept {len(kept)} of {n} eigenvalues, {dtype})" + sfx(case))
            ctx.disagree("ls.eigh", cc, f"|x - x_model| = {d:.3e} > {tol:.3e}")
    elif what == "dtcert":
        g, res, xn, bn, an = nums(rep)
        scale = s1 * (s1 * xn + bn)
        tol = 64 * eps * dim * scale * kap
        ctx.count("ls.dtrunc")
        stat("ls.dtrunc." + dtype, g / (tol + 1e-300))
        nullc = float((rec["null"].T @ rec["x"]).norm()) if rec["null"].numel() else 0.0
        xsn = float(rec["xs"].norm())
        toln = 64 * eps * dim * kap * (xsn + (bn / sr if sr > 0 else 0.0))
        if r == 0:
            toln = 64 * eps * dim * (bn / max(s1, 1e-300) if s1 > 0 else 0.0)
        dx = float((rec["x"] - rec["xs"]).norm())
        if not (g <= tol + 1e-300) or not (nullc <= toln + 1e-300) or not (dx <= toln + 1e-300):
            wb = case.get("_wrap_bad", {}).get(rec["k"])
            sv = rec["sv"]
            ctx.fail(cc, f"ls-minnorm-default: {name} (default tolerances) is not the minimum-norm least-squares solution: "
                         f"|A^T(Ax-b)| = {g:.3e} (tol {tol:.3e}), component of x in null(A) {nullc:.3e} (tol {toln:.3e}), |x| = {xn:.3e} but the "
                         f"minimum-norm solution has |x_svd| = {xsn:.3e}, |x - x_svd| = {dx:.3e}; {m}x{n}, numerical rank {r} (singular values "
                         f"{float(sv[0]):.3e} .. {float(sv[max(r - 1, 0)]):.3e} kept, {float(sv[r]) if r < len(sv) else 0.0:.3e} .. dropped at cut-off "
                         f"{rec['cut']:.3e}), {dtype}; A[0,:6] = {rec['A0'][0, :6].tolist()}, b[:6] = {rec['b'][:6].tolist()}"
                         + (f"; wrapper: {wb}" if wb else "") + sfx(case))
    elif what == "tcert":
        g, res, xn, bn, an = nums(rep)
        scale = s1 * (s1 * xn + bn)
        tol = 64 * eps * dim * scale * kap
        ctx.count("ls.trunc")
        stat("ls.trunc." + dtype, g / (tol + 1e-300))
        nullc = float((rec["null"].T @ rec["x"]).norm()) if rec["null"].numel() else 0.0
        toln = 64 * eps * dim * kap * (xn + (bn / sr if sr > 0 else 0.0))
        if r == 0:
            toln = 64 * eps * dim * (bn / max(s1, 1e-300) if s1 > 0 else 0.0)
        if not (g <= tol + 1e-300) or not (nullc <= toln + 1e-300):
            ctx.fail(cc, f"ls-truncated: {name} is not the minimum-norm least-squares solution of A with the singular values below its "
                         f"cut-off set to zero: |At^T(At x-b)| = {g:.3e} (tol {tol:.3e}), component of x in the discarded directions "
                         f"{nullc:.3e} (tol {toln:.3e}) ({m}x{n}, kept {r} of {min(m, n)} singular values, {dtype})" + sfx(case))
    elif what == "ref":
        st, toks = common.parse_reply(rep)
        if st != "ok":
            raise common.InfraError(f"model lsRef failed on an exact full-rank factorisation: {rep}")
        xr = torch.tensor([float(common.from_wire(t)) for t in toks], dtype=torch.float64)
        d = float((rec["x"] - xr).norm())
        bn = float(rec["b"].norm())
        xrn = float(xr.norm())
        unique = r == n  # full column rank: the least-squares solution is unique
        if pinv or unique or name == "LSTSQ":
            # (gelsy / gelsd / gelss all return the minimum-norm solution; the property demands it only of PINV,
            #  so for LSTSQ on rank-deficient systems only the certificate is binding)
            binding = pinv or unique
            tol = 64 * eps * dim * kap * (xrn + bn / sr)
            ctx.count("ls.ref." + ("binding" if binding else "info"))
            stat("ls.ref." + ("pinv" if pinv else "lstsq") + "." + dtype + ("" if binding else ".info"), d / (tol + 1e-300))
            if not (d <= tol + 1e-300):
                if binding:
                    ctx.fail(cc, f"ls-minnorm: {name} differs from the exact minimum-norm least-squares solution by {d:.3e} > {tol:.3e} "
                                 f"({m}x{n}, rank {r}, cond {kap:.1e}, |x_ref| = {xrn:.3e}, {dtype})" + sfx(case))
                    ctx.disagree("ls.ref", cc, f"|x - x_model| = {d:.3e} > {tol:.3e}")
    elif what == "matvec":
        xm = torch.tensor(nums(rep), dtype=torch.float64)
        d = float((rec["x"] - xm).abs().max()) if n else 0.0
        sc = float((rec["K"].abs() @ rec["b"].abs()).max()) if n * m else 0.0
        tol = 64 * eps * max(m, 1) * sc
        ctx.count("ls.wrapper.pinv")
        stat("ls.wrapper.pinv", d / (tol + 1e-300))
        if not (d <= tol + 1e-300):
            case.setdefault("_wrap_bad", {})[rec["k"]] = f"forward differs from pinv(A, atol, rtol, hermitian) @ b by {d:.3e} > {tol:.3e}"
            ctx.disagree("ls.wrapper", cc, f"{name}: forward differs from pinv(A, atol, rtol, hermitian) @ b by {d:.3e} > {tol:.3e}")
    elif what == "penrose":
        p1, p2, p3, p4, an, pn = nums(rep)
        # contract of the kernel (hypothesis of pinv_forward_minnorm), measured: reported, not judged
        rel = max(p1 / (an + 1e-300), p2 / (pn + 1e-300), p3, p4) / (eps * dim * kap)
        ctx.count("ls.penrose." + ("ok" if rel < 64 else "loose"))


# ============================================================================================ chol stream

def chol_item(it, n, dtype):
    g = gen(it["seed"])
    dt = tdt(dtype)
    kind = it["kind"]
    if kind in ("spd", "indef", "negdef"):
        Q, _ = torch.linalg.qr(torch.randn(n, n, generator=g, dtype=torch.float64))
        lam = torch.logspace(0, -it["cexp"], n, dtype=torch.float64) if n > 1 else torch.ones(1, dtype=torch.float64)
        if kind == "indef":
            j = it["j"] % n
            lam[j] = -(10.0 ** -it["nexp"])
        if kind == "negdef":
            lam = -lam
        A = (Q * lam) @ Q.T
        if it.get("dscale"):
            d = 2.0 ** torch.randint(-it["dscale"], it["dscale"] + 1, (n,), generator=g).double()
            A = d[:, None] * A * d[None, :]
        A = A * 2.0 ** it.get("scale", 0)
    elif kind == "neardiag":      # (36) SPD at relative distance 10^-dexp from a diagonal matrix
        dg = torch.logspace(0, -it.get("cexp", 1), n, dtype=torch.float64) if n > 1 else torch.ones(1, dtype=torch.float64)
        E = torch.randn(n, n, generator=g, dtype=torch.float64)
        E = (E + E.T) / 2
        E = E - torch.diag(torch.diag(E))
        A = torch.diag(dg) + 10.0 ** -it["dexp"] * float(dg.min()) * E / float(E.abs().sum(dim=1).max().clamp_min(1e-300))
        A = A * 2.0 ** it.get("scale", 0)
    elif kind == "intspd":
        Bm = torch.randint(-3, 4, (n, n), generator=g).double()
        A = Bm @ Bm.T + torch.eye(n, dtype=torch.float64)
    elif kind == "singular":  # exactly singular PSD: B B^T with B n x (n-1)
        Bm = torch.randint(-3, 4, (n, max(n - 1, 0)), generator=g).double()
        A = Bm @ Bm.T if n > 1 else torch.zeros(1, 1, dtype=torch.float64)
    elif kind == "zero":
        A = torch.zeros(n, n, dtype=torch.float64)
    elif kind in ("badlast", "badfirst", "badmid"):
        Bm = torch.randint(-3, 4, (n, n), generator=g).double()
        A = Bm @ Bm.T + torch.eye(n, dtype=torch.float64)
        j = {"badlast": n - 1, "badfirst": 0, "badmid": it.get("j", 0) % n}[kind]
        # lower the j-th diagonal entry enough to make the j-th pivot <= 0 by a clear margin
        L = torch.linalg.cholesky(A)
        piv = float(L[j, j] ** 2)
        A[j, j] -= math.ceil(piv) + it.get("by", 1)
    else:
        raise ValueError(kind)
    A = ((A + A.T) / 2).to(dt)
    A = ((A + A.mT) / 2)  # exactly symmetric in dtype
    b = torch.randn(n, it.get("nrhs", 1), generator=g, dtype=torch.float64).to(dt)
    return A, b


def chol_build(case):
    n, dtype = case["n"], case["dtype"]
    items = [chol_item(it, n, dtype) for it in case["items"]]
    bs = tuple(case["batch"])
    exp = case.get("expand") if len(items) > 1 else None
    if exp == "A":
        items = [(items[0][0], it[1]) for it in items]
    elif exp == "b":
        items = [(it[0], items[0][1]) for it in items]
    if case.get("alias"):
        items = [(it[0], it[0][:, :it[1].shape[1]].clone()) for it in items]
    if not items:
        return torch.zeros(bs + (n, n), dtype=tdt(dtype)), torch.zeros(bs + (n, 1), dtype=tdt(dtype)), items
    nr = items[0][1].shape[1]
    A = torch.stack([x[0] for x in items]).reshape(bs + (n, n))
    b = torch.stack([x[1] for x in items]).reshape(bs + (n, nr))
    if exp == "A":
        A = items[0][0].expand(bs + (n, n))
    elif exp == "b":
        b = items[0][1].expand(bs + (n, nr))
    if case.get("alias"):
        b = A[..., :, 0:nr]
    return A, b, items


def chol_tau(n, dtype):
    return 4.0 * n * (n + 1) * EPS[dtype]


def run_chol_cases(ctx: Ctx, cases):
    # phase 1: model classification + model solve
    lines, idx = [], []
    built = []
    for ci, case in enumerate(cases):
        A, b, items = chol_build(case)
        V = Views()
        if "_buf" not in case and not (case.get("alias") or case.get("expand")):
            A, b = V.make("A", A, case.get("view")), V.make("b", b, case.get("viewb"))
        case["_views"] = V
        built.append((A, b, items))
        n = case["n"]
        for k, (Ai, bi) in enumerate(items):
            lines.append(f"c10.chol {n} {1 if case['upper'] else 0} {to_wire(chol_tau(n, case['dtype']))} {wl(Ai)} {wl(bi[:, 0])}")
            idx.append((ci, k))
    reps = ctx.driver.run(lines)
    model = {}
    for (ci, k), rep in zip(idx, reps):
        st, toks = common.parse_reply(rep)
        if st != "ok":
            raise common.InfraError(f"model chol failed: {rep}")
        pdm, pd, pdp, info = (int(t) for t in toks[:4])
        xm = torch.tensor([float(common.from_wire(t)) for t in toks[4:]], dtype=torch.float64) if pd else None
        model[(ci, k)] = (pdm, pd, pdp, info, xm)
    # phase 2: implementation + verdicts; residual certificates need another driver round
    cert_lines, cert_meta = [], []
    for ci, case in enumerate(cases):
        try:
            A, b, items = built[ci]
            n, dtype = case["n"], case["dtype"]
            eps = EPS[dtype]
            regions = []
            for k in range(len(items)):
                pdm, pd, pdp, info, xm = model[(ci, k)]
                regions.append("pd" if pdm else ("npd" if not pdp else "band"))
            must_raise = any(r == "npd" for r in regions)
            must_return = all(r == "pd" for r in regions)
            sig = ("chol", case["upper"], dtype, len(case["batch"]), n, tuple(sorted({it["kind"] for it in case["items"]})),
                   tuple(sorted(set(regions))), tuple(sorted({it.get("cexp", 0) for it in case["items"]})))
            ctx.note_case(sig, n >= 2)
            for r, it in zip(regions, case["items"]):
                ctx.count(f"chol.{it['kind']}.{r}")
            ctx.sample({"stream": "chol", **{k: v for k, v in pub(case).items() if k != "items"}, "regions": regions}, cap=12)
            if "_buf" in case:      # the caller's own tensors, overwritten in place just before this call
                A, b = reuse_buf(case, "A", A), reuse_buf(case, "b", b)
            A0, b0 = A.clone(), b.clone()
            if "_pre" in case:
                case["_pre"]()
            sol = case["_solf"]() if "_solf" in case else (case.get("_sol") or S().Cholesky(upper=case["upper"]))
            raised = None
            gm = case.get("grad", "plain")
            try:
                with default_dtype(case.get("defdt")):
                    x = call_in_mode(gm, sol, [A, b]) if gm != "plain" else sol(A, b)
            except Exception as e:
                raised = e
            if "_post" in case:
                case["_post"]()
            cc = rep_case(case)
            hs = sfx(case)
            if raised is None and isinstance(x, torch.Tensor):
                if gm != "plain":
                    ctx.count(f"grad.{gm}")
                    try:
                        xp = S().Cholesky(upper=case["upper"])(A.detach().clone(), b.detach().clone())
                    except Exception:
                        xp = None
                    if xp is None or values_differ(xp, x, EPS[dtype]):
                        ctx.fail(cc, f"grad-mode: Cholesky behaves differently under autograd mode `{gm}` than with plain tensors "
                                     f"(n={n}, {dtype}, upper={case['upper']})" + hs)
                if same_storage(x, A) or same_storage(x, b) or overlaps_itself(x):
                    ctx.fail(cc, "alias: the tensor returned by Cholesky shares memory with an argument or overlaps itself" + hs)
            V = case.pop("_views", None) or Views()
            if not (torch.equal(A, A0) and torch.equal(b, b0)) or V.dirty():
                ctx.fail(cc, f"mutation: Cholesky changed its arguments {V.dirty()} (views {case.get('view')}/{case.get('viewb')})" + hs)
            if raised is not None:
                if must_return:
                    ctx.fail(cc, f"chol-raises: Cholesky raised on a symmetric positive-definite system (n={n}, {dtype}, "
                                 f"upper={case['upper']}): {type(raised).__name__}: {str(raised)[:80]}" + hs)
                    ctx.disagree("chol.decision", cc, "implementation raised, model factorises with margin")
                continue
            if bad_result(ctx, cc, x, "Cholesky", hs):
                continue
            if must_raise:
                bad = [k for k, r in enumerate(regions) if r == "npd"]
                k = bad[0]
                Ak = A.reshape(-1, n, n)[k].double()
                xk = x.reshape(-1, n, b.shape[-1])[k].double()
                bk = b.reshape(-1, n, b.shape[-1])[k].double()
                resid = float((Ak @ xk - bk).norm() / (bk.norm() + 1e-300))
                ctx.fail(cc, f"chol-silent: Cholesky returned a vector for a matrix that is not positive definite "
                             f"(item {k} of {len(regions)}, kind {case['items'][k]['kind']}, model info={model[(ci, k)][3]}, "
                             f"relative residual of the returned vector {resid:.3e}, n={n}, {dtype}, upper={case['upper']})" + hs)
                ctx.disagree("chol.decision", cc, "implementation returned, model reports a non-positive pivot with margin")
                continue
            if tuple(x.shape) != tuple(b.shape) or x.dtype != b.dtype:
                ctx.fail(cc, f"shape: Cholesky returned {tuple(x.shape)} for b {tuple(b.shape)}")
                continue
            xf = x.reshape(-1, n, b.shape[-1]).double().clone()
            Af = A.reshape(-1, n, n).double().clone()
            bf = b.reshape(-1, n, b.shape[-1]).double().clone()
            if len(items) > 1:
                for k in range(len(items)):
                    if regions[k] != "pd":
                        continue
                    try:
                        xa = S().Cholesky(upper=case["upper"])(A.reshape(-1, n, n)[k].clone(), b.reshape(-1, n, b.shape[-1])[k].clone())
                        da = float((xa.double() - xf[k]).norm())
                        sv = torch.linalg.svdvals(Af[k])
                        tola = 64 * eps * n * float(sv[0] / sv[-1].clamp_min(1e-300)) * float(xf[k].norm())
                        ctx.count("chol.itemwise")
                        if not (da <= tola + 1e-300):
                            ctx.fail({**cc, "item": k}, f"batch-item: Cholesky on item {k} of the batch differs from the same call on that "
                                                        f"item alone by {da:.3e} > {tola:.3e} (n={n}, {dtype})" + hs)
                    except Exception as e:
                        ctx.fail({**cc, "item": k}, f"batch-item: Cholesky returned for the batch but raised on the positive-definite item {k} "
                                                    f"alone: {type(e).__name__}" + hs)
            for k in range(len(items)):
                pdm, pd, pdp, info, xm = model[(ci, k)]
                if regions[k] != "pd":
                    # rounding band: either outcome is acceptable, but a returned vector must still be the exact
                    # solution of a nearby system (backward error at rounding level), never garbage
                    ctx.count("chol.band.returned")
                    xm = None
                if not bool(torch.isfinite(xf[k]).all()):
                    ctx.fail({**cc, "item": k}, f"chol-silent: Cholesky returned a non-finite vector without raising (n={n}, {dtype})")
                    continue
                cert_lines.append(f"c10.lscert {n} {n} {wl(Af[k])} {wl(bf[k][:, 0])} {wl(xf[k][:, 0])}")
                cert_meta.append(({**cc, "n": n, "upper": case["upper"]}, k, Af[k], xf[k][:, 0], xm, dtype))
                if regions[k] != "pd":
                    continue
                # further right-hand sides: float64 residual is accurate enough relative to the tolerance scale
                for c in range(1, bf.shape[-1]):
                    rr = float((Af[k] @ xf[k][:, c] - bf[k][:, c]).norm())
                    sc = float(torch.linalg.matrix_norm(Af[k], 2) * xf[k][:, c].norm() + bf[k][:, c].norm())
                    if not (rr <= 64 * eps * n * sc + 1e-300):
                        ctx.fail(cc, f"chol-residual: |A x - b| = {rr:.3e} > {64 * eps * n * sc:.3e} for right-hand side {c}")
        except common.InfraError:
            raise
        except Exception as e:
            import traceback
            if "/pypose/" in traceback.format_exc():
                ctx.fail(rep_case(case), f"crash: {type(e).__name__}: {str(e)[:160]}" + sfx(case))
            else:
                raise
    reps = ctx.driver.run(cert_lines)
    for rep, (cc, k, Ak, xk, xm, dtype) in zip(reps, cert_meta):
        g, res, xn, bn, an = nums(rep)
        n = cc["n"]
        eps = EPS[dtype]
        s = torch.linalg.svdvals(Ak)
        s1, sn = float(s[0]), float(s[-1])
        tol = 64 * eps * n * (s1 * xn + bn)
        ctx.count("chol.residual")
        stat("chol.residual." + dtype, res / (tol + 1e-300))
        if not (res <= tol + 1e-300):
            ctx.fail({**cc, "item": k}, f"chol-residual: Cholesky result does not solve A x = b: |A x - b| = {res:.3e} > {tol:.3e} "
                                        f"(n={n}, cond {s1 / max(sn, 1e-300):.1e}, {dtype}, upper={cc['upper']})")
        if xm is None:
            continue
        d = float((xk - xm).norm())
        tolx = 64 * eps * n * (s1 / max(sn, 1e-300)) * float(xm.norm())
        stat("chol.solve." + dtype, d / (tolx + 1e-300))
        if not (d <= tolx + 1e-300):
            ctx.disagree("chol.solve", {**cc, "item": k}, f"|x - x_model| = {d:.3e} > {tolx:.3e}")


# ============================================================================================ cg stream

class Spy(torch.Tensor):
    """counts matmul calls that involve the wrapped operand (public extension point of torch)"""
    c10h_matmul_log: list = []

    @classmethod
    def __torch_function__(cls, func, types, args=(), kwargs=None):
        kwargs = kwargs or {}
        if getattr(func, "__name__", "") == "matmul":
            cls.c10h_matmul_log.append("out" if "out" in kwargs else "plain")
        with torch._C.DisableTorchFunctionSubclass():
            return func(*args, **kwargs)


def spd_matrix(n, kind, cexp, g):
    """SPD matrix with condition number ~10^cexp (<= 1e3), several spectrum / sparsity kinds (float64)"""
    if kind == "lap":  # weighted path/graph Laplacian + shift: genuinely sparse (tridiagonal + a few chords)
        A = torch.zeros(n, n, dtype=torch.float64)
        for i in range(n - 1):
            w = 0.5 + float(torch.rand((), generator=g))
            A[i, i] += w; A[i + 1, i + 1] += w; A[i, i + 1] -= w; A[i + 1, i] -= w
        for _ in range(n // 4):
            i, j = (int(v) for v in torch.randint(0, n, (2,), generator=g))
            if i != j:
                w = 0.3
                A[i, i] += w; A[j, j] += w; A[i, j] -= w; A[j, i] -= w
        lam = torch.linalg.eigvalsh(A)
        top = float(lam[-1])
        if top <= 0:   # n == 1
            return torch.ones(n, n, dtype=torch.float64)
        shift = top / (10.0 ** cexp)
        return A + shift * torch.eye(n, dtype=torch.float64)
    if kind == "ident":     # all eigenvalues equal (exact)
        return torch.eye(n, dtype=torch.float64)
    if kind.startswith("neardiag"):   # (36) SPD at relative distance 10^-k from a diagonal matrix ("neardiag:k")
        dg = torch.logspace(0, -cexp, n, dtype=torch.float64) if n > 1 else torch.ones(1, dtype=torch.float64)
        E = torch.randn(n, n, generator=g, dtype=torch.float64)
        E = (E + E.T) / 2
        E = E - torch.diag(torch.diag(E))
        return torch.diag(dg) + 10.0 ** -int(kind.split(":")[1]) * float(dg.min()) * E / float(E.abs().sum(dim=1).max().clamp_min(1e-300))
    Q, _ = torch.linalg.qr(torch.randn(n, n, generator=g, dtype=torch.float64))
    if kind == "log":
        lam = torch.logspace(0, -cexp, n, dtype=torch.float64) if n > 1 else torch.ones(1, dtype=torch.float64)
    elif kind == "cluster":  # two clusters
        lam = torch.ones(n, dtype=torch.float64)
        lam[n // 2:] = 10.0 ** -cexp
        lam = lam * (1 + 0.01 * torch.rand(n, generator=g, dtype=torch.float64))
    elif kind == "outlier":  # one small eigenvalue
        lam = 1 + torch.rand(n, generator=g, dtype=torch.float64)
        lam[-1] = 10.0 ** -cexp
    else:  # uniform
        lam = 10.0 ** -cexp + (1 - 10.0 ** -cexp) * torch.rand(n, generator=g, dtype=torch.float64)
        lam[0], lam[-1] = 1.0, 10.0 ** -cexp
    A = (Q * lam) @ Q.T
    return (A + A.T) / 2


def to_layout(A, layout):
    if layout == "dense":
        return A
    if layout == "csr":
        return A.to_sparse_csr()
    if layout == "coo":
        return A.to_sparse_coo()
    if layout == "csc":
        return A.to_sparse_csc()
    if layout.startswith("bsr"):
        k = int(layout.split(":")[1])
        return A.to_sparse_bsr((k, k))
    raise ValueError(layout)


def cg_build(case):
    g = gen(case["seed"])
    n, dt = case["n"], tdt(case["dtype"])
    A = spd_matrix(n, case["spec"], case["cexp"], g) * (2.0 ** case["ascale"])
    A = A.to(dt)
    A = (A + A.T) / 2
    b = torch.randn(n, 1, generator=g, dtype=torch.float64).to(dt) * (2.0 ** case["bscale"])
    if case["b"] == "zero":
        b = torch.zeros(n, 1, dtype=dt)
    elif case["b"] == "e0":
        b = torch.zeros(n, 1, dtype=dt); b[0, 0] = 2.0 ** case["bscale"]
    elif case["b"] == "negative":
        b = ((-torch.rand(n, 1, generator=g, dtype=torch.float64) - 0.25) * 2.0 ** case["bscale"]).to(dt)
    elif case["b"] == "sumzero":
        h_ = torch.randint(1, 9, ((n + 1) // 2, 1), generator=g).double()
        b = torch.cat([h_, -h_])[:n] if n % 2 == 0 else torch.cat([h_[:-1], -h_[:-1], torch.ones(1, 1, dtype=torch.float64) * 0])
        if n == 1:
            b = torch.ones(1, 1, dtype=torch.float64)
        b = (b * 2.0 ** case["bscale"]).to(dt)
    elif case["b"] == "34":     # |b| = 5 exactly
        b = torch.zeros(n, 1, dtype=dt); b[0, 0] = 3.0
        if n > 1:
            b[1, 0] = 4.0
    xs = torch.linalg.solve(A.double(), b.double())
    xk = case["x0"]
    if xk == "none":
        x0 = None
    elif xk == "zeros":
        x0 = torch.zeros(n, 1, dtype=dt)
    elif xk == "random":
        x0 = (xs + xs.norm() * 0.5 * torch.randn(n, 1, generator=g, dtype=torch.float64) + 1e-3 * 2.0 ** (case["bscale"] - case["ascale"])).to(dt)
    elif xk == "partial":  # some entries exactly zero, some not (x.any() vs x.all())
        x0 = (xs + 2.0 ** (case["bscale"] - case["ascale"])).to(dt)
        x0[::2] = 0
        if n == 1:
            x0[0, 0] = 2.0 ** (case["bscale"] - case["ascale"])
    elif xk == "last":  # only the last entry non-zero
        x0 = torch.zeros(n, 1, dtype=dt); x0[-1, 0] = 2.0 ** (case["bscale"] - case["ascale"])
    elif xk == "far":
        x0 = (-3 * xs + 5 * 2.0 ** (case["bscale"] - case["ascale"])).to(dt)
    elif xk == "exact":
        x0 = xs.to(dt)
    elif xk == "negative":
        x0 = (-(xs.abs() + 2.0 ** (case["bscale"] - case["ascale"]))).to(dt)
    elif xk == "sumzero":
        h_ = torch.randint(1, 9, ((n + 1) // 2, 1), generator=g).double() * 2.0 ** (case["bscale"] - case["ascale"])
        x0 = (torch.cat([h_, -h_])[:n] if n % 2 == 0 else torch.cat([h_[:-1], -h_[:-1], h_[-1:] * 0])).to(dt)
        if n == 1:
            x0 = torch.full((1, 1), 2.0 ** (case["bscale"] - case["ascale"]), dtype=dt)
    elif xk == "tie":           # |b - A x0| == tol*|b| EXACTLY (A = identity, b = (3,4,0..), tol = 0.2 -> 1)
        x0 = b.clone()
        x0[min(1, n - 1), 0] -= 5.0 * cg_tol(case) if n > 1 else 3.0 * cg_tol(case)
    elif xk in ("near+", "near-"):
        # spacing class of the stopping threshold: initial residual just above / just below tol*|b| (either sign)
        u = torch.randn(n, 1, generator=g, dtype=torch.float64)
        u = u / u.norm()
        c_ = cg_tol(case) * float(b.double().norm()) * (1 + case.get("eta", 1e-3) * (1 if xk == "near+" else -1))
        x0 = (xs - torch.linalg.solve(A.double(), c_ * u)).to(dt)
    else:
        raise ValueError(xk)
    mk = case["M"]
    if mk == "none":
        M = None
    elif mk == "jacobi":
        M = torch.diag(1.0 / torch.diag(A.double())).to(dt)
    elif mk == "identity":
        M = torch.eye(n, dtype=dt)
    elif mk == "scaled":  # identity times a scalar (must not change the iterates' convergence)
        M = (torch.eye(n, dtype=torch.float64) * 2.0 ** (-case["ascale"] + 3)).to(dt)
    elif mk == "approx":  # SPD approximation of the inverse
        Ainv = torch.linalg.inv(A.double())
        E = torch.randn(n, n, generator=g, dtype=torch.float64)
        Mm = Ainv + 0.05 * float(torch.linalg.matrix_norm(Ainv, 2)) * (E @ E.T) / n
        M = ((Mm + Mm.T) / 2).to(dt)
    else:
        raise ValueError(mk)
    return A, b, x0, M


def make_cg(tol, maxiter):
    return S().CG(**({} if tol is None else {"tol": tol}), **({} if maxiter is None else {"maxiter": maxiter}))


def cg_call(case, A, b, x0, M, spy=False):
    if "_pre" in case:
        case["_pre"]()
    sol = case["_solf"]() if "_solf" in case else (case.get("_sol") or make_cg(case["tol"], case["maxiter"]))
    V = Views()
    bb = b[:, 0].clone() if case["bshape"] == "vec" else b.clone()
    xx = None if x0 is None else x0.clone()
    if "_buf" in case:
        A = reuse_buf(case, "A", A) if case["layout"] == "dense" else A
        bb = reuse_buf(case, "b", bb)
        xx = None if xx is None else reuse_buf(case, "x0", xx)
        M = None if M is None else (reuse_buf(case, "M", M) if case["Mlayout"] == "dense" else M)
    else:
        if case["layout"] == "dense":
            A = V.make("A", A, case.get("view"))
        if M is not None and case["Mlayout"] == "dense":
            M = V.make("M", M, case.get("view"))
        bb = V.make("b", bb, case.get("viewb"))
        if xx is not None:
            xx = V.make("x0", xx, case.get("viewb"), writable=True)
    case["_views"] = V
    Al = to_layout(A, case["layout"])
    Ml = None if M is None else to_layout(M, case["Mlayout"])
    K = None
    style = case.get("style", "pos")

    def go(a_, b_, x_, m_):
        # every spelling of the same call: positional, keywords, only the given optional arguments as keywords
        if style == "kw":
            return sol(A=a_, b=b_, x=x_, M=m_)
        if style == "kwonly":
            kw = {}
            if x_ is not None:
                kw["x"] = x_
            if m_ is not None:
                kw["M"] = m_
            return sol(a_, b_, **kw)
        if style == "mixed":
            return sol(a_, b_, x_, M=m_)
        return sol(a_, b_, x_, m_)

    gm = case.get("grad", "plain")
    if case.get("defdt"):
        with default_dtype(case["defdt"]):
            x = call_in_mode(gm, go, [Al, bb, xx, Ml]) if gm != "plain" else go(Al, bb, xx, Ml)
    elif "_buf" in case:       # stale-read histories hand over the caller's very own tensor objects (no wrapper)
        x = go(Al, bb, xx, Ml)
    elif gm != "plain":
        x = call_in_mode(gm, go, [Al, bb, xx, Ml])
    elif spy and case["layout"] == "dense":
        Spy.c10h_matmul_log = []
        x = go(Al.as_subclass(Spy), bb, xx, Ml)
        K = Spy.c10h_matmul_log.count("out")
    elif spy and Ml is not None and case["Mlayout"] == "dense":
        Spy.c10h_matmul_log = []
        x = go(Al, bb, xx, Ml.as_subclass(Spy))
        K = Spy.c10h_matmul_log.count("out")
    else:
        x = go(Al, bb, xx, Ml)
    return x, K, (Al, bb, Ml, xx)


def cg_tol(case):
    return 1e-5 if case["tol"] is None else case["tol"]


def cg_maxiter(case):
    return case["n"] * 10 if case["maxiter"] is None else case["maxiter"]


def check_cg(ctx: Ctx, case):
    """oracle on the real code; returns (x (n,) float64 | None, K | None)"""
    n, dtype = case["n"], case["dtype"]
    eps = EPS[dtype]
    A, b, x0, M = cg_build(case)
    cc = rep_case(case)
    hs = sfx(case)
    gm = case.get("grad", "plain")
    try:
        x, K, (Al, bb, Ml, xx) = cg_call(case, A, b, x0, M, spy=True)
        if "_post" in case:
            case["_post"]()
    except Exception as e:
        if "_post" in case:
            case["_post"]()
        if gm in ("rg", "graph") and "out=" in str(e):
            # observation (notes): CG.forward uses matmul(..., out=) and therefore refuses operands that require grad
            ctx.count("grad.cg-refuses-autograd")
            case.pop("_views", None)
            return None, None
        ctx.fail(cc, f"cg-raises: CG raised on an SPD system (n={n}, layout {case['layout']}, x0 {case['x0']}, M {case['M']}/"
                     f"{case['Mlayout']}, b shape {case['bshape']}): {type(e).__name__}: {str(e)[:100]}" + hs)
        return None, None
    # arguments other than the initial guess must be untouched
    if not torch.equal(Al.to_dense() if Al.layout != torch.strided else Al, A) or not torch.equal(bb.reshape(n, 1), b):
        ctx.fail(cc, "mutation: CG changed A or b" + hs)
    if M is not None and not torch.equal(Ml.to_dense() if Ml.layout != torch.strided else Ml, M):
        ctx.fail(cc, "mutation: CG changed the preconditioner" + hs)
    V = case.pop("_views", None)
    if V is not None and V.dirty():
        ctx.fail(cc, f"mutation: CG wrote to storage it does not own: {V.dirty()} (views {case.get('view')}/{case.get('viewb')})" + hs)
    if bad_result(ctx, cc, x, "CG", hs):
        return None, K
    if gm != "plain":
        ctx.count(f"grad.{gm}")
        c2 = {k_: v_ for k_, v_ in case.items() if k_ not in ("_sol", "_solf", "_pre", "_post", "_buf", "_views")}
        c2["grad"] = "plain"
        try:
            xp = cg_call(c2, A, b, x0, M)[0]
        except Exception:
            xp = None
        if values_differ(xp, x if x.layout == torch.strided else x.to_dense(), 1e3 * eps):
            ctx.fail(cc, f"grad-mode: CG returns different values under autograd mode `{gm}` than with plain tensors "
                         f"(n={n}, x0 {case['x0']}, M {case['M']})" + hs)
    # ownership: the result may be the (in-place updated) initial guess, and for b = 0 the code returns b itself
    # (both observed on the unchanged tree, see notes); it must never share memory with A or M nor overlap itself
    if same_storage(x, Al) or (Ml is not None and same_storage(x, Ml)) or overlaps_itself(x) or \
            (case["b"] != "zero" and gm == "plain" and same_storage(x, bb) and not (xx is not None and same_storage(xx, bb))):
        ctx.fail(cc, "alias: the tensor returned by CG shares memory with A, M or b, or overlaps itself" + hs)
    if x.layout != torch.strided:
        x = x.to_dense()
    if tuple(x.shape) != (n, 1) or x.dtype != b.dtype:
        ctx.fail(cc, f"shape: CG returned shape {tuple(x.shape)} dtype {x.dtype} for n={n}" + hs)
        return None, K
    xd, Ad, bd = x.double().clone(), A.double(), b.double()
    if case["b"] == "zero":
        if float(xd.abs().max()) != 0.0:
            ctx.fail(cc, f"cg-zero: CG does not return zero for b = 0 (max |x| = {float(xd.abs().max()):.3e}, x0 {case['x0']})" + hs)
        return xd[:, 0], K
    if not bool(torch.isfinite(xd).all()):
        ctx.fail(cc, f"cg-residual: CG returned a non-finite vector (n={n}, cond 1e{case['cexp']}, x0 {case['x0']}, M {case['M']})" + hs)
        return None, K
    tol = cg_tol(case)
    mi = cg_maxiter(case)
    if K is not None and K > mi:
        ctx.fail(cc, f"cg-maxiter: CG ran {K} passes, more than maxiter = {mi}" + hs)
    bn = float(bd.norm())
    res = float((bd - Ad @ xd).norm())
    sA = float(torch.linalg.matrix_norm(Ad, 2))
    slack = 64 * eps * (sA * float(xd.norm()) + bn)
    binding = case["maxiter"] is None or case["maxiter"] >= 10 * n
    if binding:
        ctx.count("cg.oracle")
        stat("cg.residual." + dtype, res / (tol * bn * (1 + 1e-6) + slack))
        stat("cg.drift-over-slack." + dtype, (res - tol * bn) / slack)
        if not (res <= tol * bn * (1 + 1e-6) + slack):
            ctx.fail(cc, f"cg-residual: |b - A x| = {res:.3e} > tol*|b| = {tol * bn:.3e} (+{slack:.1e}) "
                         f"(n={n}, layout {case['layout']}, cond 1e{case['cexp']} {case['spec']}, x0 {case['x0']}, M {case['M']}/{case['Mlayout']}, "
                         f"tol {tol}, passes {K}, |b| = {bn:.2e}, {dtype})" + hs)
    return xd[:, 0], K


def cg_eligible(case):
    """systems on which exact and floating-point CG stay together (few passes or tiny condition number)"""
    if case["dtype"] != "float64" or case["b"] == "zero":
        return case["b"] == "zero"
    small = case["n"] <= 8 and case["cexp"] <= 1
    few = case["maxiter"] is not None and case["maxiter"] <= 5 and case["cexp"] <= 2
    tol = cg_tol(case)
    return (small or few) and tol >= 1e-8 and case["M"] in ("none", "jacobi", "identity", "scaled")


def cg_model_lines(case):
    A, b, x0, M = cg_build(case)
    n = case["n"]
    mi = -1 if case["maxiter"] is None else case["maxiter"]
    tail = wl(A) + " " + wl(b) + ("" if x0 is None else " " + wl(x0)) + ("" if M is None else " " + wl(M))
    hx, hm = (0 if x0 is None else 1), (0 if M is None else 1)
    return (f"c10.cg {n} {to_wire(cg_tol(case))} {mi} {hx} {hm} {tail}",
            f"c10.cgtraj {n} {min(cg_maxiter(case), n + 3)} {hx} {hm} {tail}")


def judge_cg_model(ctx: Ctx, case, x, K, rep_cg, rep_traj):
    n = case["n"]
    st, toks = common.parse_reply(rep_cg)
    if st != "ok":
        raise common.InfraError(f"model cg failed: {rep_cg}")
    Km, stopped = int(toks[0]), toks[1] == "1"
    xm = torch.tensor([float(common.from_wire(t)) for t in toks[2:2 + n]], dtype=torch.float64)
    cc = rep_case(case)
    if case["b"] == "zero":
        if not (stopped and Km == 0 and float(xm.abs().max()) == 0.0):
            raise common.InfraError("model cg: b = 0 does not give zero")
        return
    tr = nums(rep_traj)
    bn, rs, xK = tr[0], tr[1:-n], tr[-n:]
    atol = cg_tol(case) * bn
    mi = cg_maxiter(case)
    band = 1e-6
    ctx.count("cg.model")
    if K is not None and K != Km:
        # legitimate only if the stop decision falls into the rounding band of the threshold
        lo, hi = min(K, Km), max(K, Km)
        near = all(abs(rs[j] - atol) <= band * atol + 1e-9 * rs[0] for j in range(lo, min(hi, len(rs))) )
        if not near or hi >= len(rs):
            ctx.disagree("cg.iterations", cc, f"implementation ran {K} passes, model {Km} (|r_k|/atol around: "
                                              f"{[round(r / atol, 6) for r in rs[max(0, lo - 1):hi + 1]]})")
            return
        ctx.count("cg.model.band")
        return
    d = float((x - xm).norm())
    kap = 10.0 ** case["cexp"]
    tolx = 1e4 * EPS["float64"] * kap * (Km + 1) * float(xm.norm() + 1e-300) + 1e-300
    stat("cg.iterate", d / tolx)
    if not (d <= tolx):
        ctx.disagree("cg.iterate", cc, f"|x - x_model| = {d:.3e} > {tolx:.3e} after {Km} passes")


# ============================================================================================ sparse stream

def block_pattern(rng_t, rows, cols, kind, density):
    if kind == "random":
        P = torch.rand(rows, cols, generator=rng_t) < density
    elif kind == "empty":
        P = torch.zeros(rows, cols, dtype=torch.bool)
    elif kind == "full":
        P = torch.ones(rows, cols, dtype=torch.bool)
    elif kind == "diag":
        P = torch.eye(rows, cols, dtype=torch.bool)
    elif kind == "lastcol":
        P = torch.zeros(rows, cols, dtype=torch.bool); P[:, -1] = True
    elif kind == "firstcol":
        P = torch.zeros(rows, cols, dtype=torch.bool); P[:, 0] = True
    elif kind == "lastrow":
        P = torch.zeros(rows, cols, dtype=torch.bool); P[-1, :] = True
    elif kind == "firstrow":
        P = torch.zeros(rows, cols, dtype=torch.bool); P[0, :] = True
    elif kind == "single":
        P = torch.zeros(rows, cols, dtype=torch.bool)
        P[int(torch.randint(0, rows, (), generator=rng_t)), int(torch.randint(0, cols, (), generator=rng_t))] = True
    elif kind == "even":   # only even inner indices (disjoint from "odd")
        P = torch.rand(rows, cols, generator=rng_t) < max(density, 0.5)
    else:
        raise ValueError(kind)
    return P


def sparse_build(case):
    g = gen(case["seed"])
    sm, sn, sp = case["sm"], case["sn"], case["sp"]
    dm, dn, dp = case["dm"], case["dn"], case["dp"]
    dt = tdt(case["dtype"])
    PA = block_pattern(g, sm, sn, case["pa"], case["da"])
    PB = block_pattern(g, sn, sp, case["pb"], case["db"])
    if case.get("disjoint"):  # A uses only even inner block indices, B only odd ones: no coincidence at all
        PA[:, 1::2] = False
        PB[0::2, :] = False
    if case["data"] == "int":
        VA = torch.randint(-4, 5, (sm, sn, dm, dn), generator=g).to(dt)
        VB = torch.randint(-4, 5, (sn, sp, dn, dp), generator=g).to(dt)
    else:
        VA = (torch.randn(sm, sn, dm, dn, generator=g, dtype=torch.float64) * 2.0 ** case.get("vscale", 0)).to(dt)
        VB = (torch.randn(sn, sp, dn, dp, generator=g, dtype=torch.float64) * 2.0 ** case.get("vscale2", 0)).to(dt)
    if case.get("zeroval"):  # stored blocks whose values are all zero
        VA = VA * (torch.rand(sm, sn, 1, 1, generator=g) < 0.5).to(dt)
    if case.get("ill"):
        VA, VB = ill_scale(case, VA, VB)
    return PA, PB, VA, VB


# (45) ill-scaled operands inside one product: ONE block row of A (or block column of B) in other units than the rest.  Every
# output block still is a short, perfectly conditioned sum (all its terms carry the same factor), so integer data stay exactly
# representable (power-of-two factors) and float data obey the componentwise bound.
ILL_MAGS = {"1e5": (17, 1e5), "1e9": (30, 1e9), "2^53": (53, 2.0 ** 53), "1e30": (100, 1e30), "1e-30": (-100, 1e-30),
            "1e-9": (-30, 1e-9)}
ILL_WHERE = ("rowfirst", "rowlast", "rowmid", "colfirst", "collast", "rowcolfirst")


def ill_factor(case):
    e2, dec = ILL_MAGS[case["ill"]["mag"]]
    lim = 30 if case["ill"]["where"] == "rowcolfirst" else 60     # (the corner block carries the factor twice: stay clear of
    if case["dtype"] == "float32" and abs(e2) > lim:                #  float32 overflow / gradual underflow, where no bound holds)
        e2, dec = (lim, 2.0 ** lim) if e2 > 0 else (-lim, 2.0 ** -lim)
    return 2.0 ** e2 if (case["data"] == "int" or case["ill"].get("pow2")) else dec


def ill_scale(case, VA, VB):
    f = ill_factor(case)
    w = case["ill"]["where"]
    VA, VB = VA.clone(), VB.clone()
    sm, sp = VA.shape[0], VB.shape[1]
    if w in ("rowfirst", "rowcolfirst"):
        VA[0] = (VA[0].double() * f).to(VA.dtype)
    if w == "rowlast":
        VA[sm - 1] = (VA[sm - 1].double() * f).to(VA.dtype)
    if w == "rowmid":
        VA[sm // 2] = (VA[sm // 2].double() * f).to(VA.dtype)
    if w in ("colfirst", "rowcolfirst"):
        VB[:, 0] = (VB[:, 0].double() * f).to(VB.dtype)
    if w == "collast":
        VB[:, sp - 1] = (VB[:, sp - 1].double() * f).to(VB.dtype)
    return VA, VB


def ill_txt(case):
    return f", ILL-SCALED: {case['ill']['where']} x{case['ill']['mag']} (factor {ill_factor(case):.6g})" if case.get("ill") else ""


def compressed(P, V, by_rows):
    """(ptr, idx, values) of the block pattern P (rows x cols) with block values V[r, c]"""
    rows, cols = P.shape
    ptr, idx, vals = [0], [], []
    if by_rows:
        for r in range(rows):
            for c in range(cols):
                if P[r, c]:
                    idx.append(c); vals.append(V[r, c])
            ptr.append(len(idx))
    else:
        for c in range(cols):
            for r in range(rows):
                if P[r, c]:
                    idx.append(r); vals.append(V[r, c])
            ptr.append(len(idx))
    bshape = tuple(V.shape[2:])
    vals = torch.stack(vals) if vals else torch.zeros((0,) + bshape, dtype=V.dtype)
    return ptr, idx, vals


def dense_of(P, V):
    rows, cols = P.shape
    a, b = V.shape[2:]
    D = (V * P[:, :, None, None].to(V.dtype)).permute(0, 2, 1, 3).reshape(rows * a, cols * b)
    return D


def valid_dense(y):
    """dense form of a returned tensor, or None when it violates the invariants of its layout (a corrupt
    compressed tensor can crash the process inside `.to_dense()`, so it is validated first)"""
    try:
        if y.layout == torch.sparse_bsr:
            torch.sparse_bsr_tensor(torch.tensor(y.crow_indices().tolist(), dtype=torch.int64),
                                    torch.tensor(y.col_indices().tolist(), dtype=torch.int64), y.values().clone(),
                                    size=tuple(y.shape), check_invariants=True)
        # (CSR results come straight from torch.addmm, an external kernel that may leave the column indices of a row
        #  unsorted; they are not re-validated)
        return y.to_dense() if y.layout != torch.strided else y
    except Exception:
        return None


def check_sparse(ctx: Ctx, case, lines_out=None):
    PA, PB, VA, VB = sparse_build(case)
    sm, sn, sp = case["sm"], case["sn"], case["sp"]
    dm, dn, dp = case["dm"], case["dn"], case["dp"]
    crow, col, va = compressed(PA, VA, True)
    ccol, row, vb = compressed(PB, VB, False)
    idt = torch.int64
    bsr = torch.sparse_bsr_tensor(torch.tensor(crow, dtype=idt), torch.tensor(col, dtype=idt), va, size=(sm * dm, sn * dn))
    bsc = torch.sparse_bsc_tensor(torch.tensor(ccol, dtype=idt), torch.tensor(row, dtype=idt), vb, size=(sn * dn, sp * dp))
    DA, DB = dense_of(PA, VA), dense_of(PB, VB)
    assert torch.equal(bsr.to_dense(), DA) and torch.equal(bsc.to_dense(), DB)
    want = DA.double() @ DB.double()
    cc = dict(case)
    fn = O().bsr_bsc_matmul if case["api"] == "bsr_bsc_matmul" else O()._sparse_csr_mm
    try:
        with default_dtype(case.get("defdt")):
            if case.get("style") == "kw":
                y = fn(bsr=bsr, bsc=bsc) if case["api"] == "bsr_bsc_matmul" else fn(mat1=bsr, mat2=bsc)
            else:
                y = fn(bsr, bsc)
    except Exception as e:
        ctx.fail(cc, f"sparse-raises: {case['api']} raised on a valid BSR x BSC pair (grid {sm}x{sn}x{sp}, blocks {dm}x{dn}x{dp}, "
                     f"nnz {len(col)}/{len(row)}): {type(e).__name__}: {str(e)[:120]}")
        return False
    ok = True
    if bad_result(ctx, cc, y, case["api"]):
        return False
    if not (torch.equal(bsr.to_dense(), DA) and torch.equal(bsc.to_dense(), DB)):
        ctx.fail(cc, "mutation: the sparse product changed an operand")
        ok = False
    if y.layout != torch.sparse_bsr or tuple(y.shape) != (sm * dm, sp * dp) or y.dtype != va.dtype:
        ctx.fail(cc, f"sparse-type: result layout {y.layout} shape {tuple(y.shape)} dtype {y.dtype}")
        return False
    yd = valid_dense(y)
    if yd is None:
        ctx.fail(cc, f"sparse-invalid: {case['api']} returned a tensor that violates the BSR invariants (grid {sm}x{sn}x{sp}, "
                     f"blocks {dm}x{dn}x{dp}, crow {y.crow_indices().tolist()[:12]}, col {y.col_indices().tolist()[:12]}, "
                     f"{y.values().shape[0]} value blocks)")
        return False
    yd = yd.double()
    eps = EPS[case["dtype"]]
    if case["data"] == "int":
        good = torch.equal(yd, want)
    else:
        scale = (DA.double().abs() @ DB.double().abs())
        good = bool(((yd - want).abs() <= 64 * eps * (scale + 1e-300) * max(sn * dn, 1)).all())
    if not good:
        bad = (yd - want).abs()
        i, j = divmod(int(bad.argmax()), want.shape[1])
        if case["data"] != "int":      # worst entry RELATIVE to its own bound (not the largest absolute error)
            i, j = divmod(int((bad / (scale + 1e-300)).argmax()), want.shape[1])
        ctx.fail(cc, f"sparse-product: {case['api']} != dense product (grid {sm}x{sn}x{sp}, blocks {dm}x{dn}x{dp}, patterns "
                     f"{case['pa']}/{case['pb']}, max error {float(bad.max()):.3e}; entry ({i},{j}) of block ({i // dm},{j // dp}): "
                     f"returned {float(yd[i, j])!r}, exact {float(want[i, j])!r}, sum|a||b| = "
                     f"{float((DA.double().abs() @ DB.double().abs())[i, j]):.3e}; operand rows A[{i},:] = {DA[i].tolist()[:12]}, "
                     f"B[:,{j}] = {DB[:, j].tolist()[:12]}{ill_txt(case)})")
        ok = False
    if case.get("stale") and len(col):
        # the caller updates the operand's values in place and multiplies again: the result must describe the current state
        bsr.values().mul_(2)
        try:
            y2 = fn(bsr, bsc)
            y2d = valid_dense(y2) if isinstance(y2, torch.Tensor) else None
        except Exception:
            y2d = None
        bsr.values().div_(2)
        ctx.count("sparse.stale")
        if y2d is None or not torch.equal(y2d.double(), 2 * yd):
            ctx.fail(cc, f"sparse-stale: after doubling the BSR operand's values in place the product is not twice the first result "
                         f"(grid {sm}x{sn}x{sp}, blocks {dm}x{dn}x{dp})")
            ok = False
    if lines_out is not None:
        line = (f"c10.bsrbsc {sm} {sn} {sp} {dm} {dn} {dp} {len(col)} {len(row)} " + " ".join(map(str, crow)) + " " +
                " ".join(map(str, col)) + " " + " ".join(map(str, ccol)) + " " + " ".join(map(str, row)) + " " +
                wl(va) + " " + wl(vb))
        lines_out.append((cc, y, " ".join(line.split())))
    return ok


def check_sparse_malformed(ctx: Ctx, case) -> bool:
    """operands that do not fit together: different inner block sizes (product still defined) or different inner
    dimensions (product undefined).  The call must raise, or — in the first case — return the dense product."""
    g = gen(case["seed"])
    dt = tdt(case["dtype"])
    dm, dp = case["dm"], case["dp"]
    if case["malformed"] == "blk":      # inner dimension 4 blocked as 2+2 on the left and 4 (or 1+1+1+1) on the right
        dn1, dn2, n1, n2 = 2, case["dn2"], 4, 4
    else:                               # inner dimensions differ
        dn1, dn2, n1, n2 = case["dn"], case["dn"], case["dn"] * 2, case["dn"] * 3
    DA = (torch.randint(1, 4, (case["sm"] * dm, n1), generator=g) * (torch.rand(case["sm"] * dm, n1, generator=g) < case["da"])).to(dt)
    DB = (torch.randint(1, 4, (n2, case["sp"] * dp), generator=g) * (torch.rand(n2, case["sp"] * dp, generator=g) < case["db"])).to(dt)
    a, b = DA.to_sparse_bsr((dm, dn1)), DB.to_sparse_bsc((dn2, dp))
    fn = O().bsr_bsc_matmul if case["api"] == "bsr_bsc_matmul" else O()._sparse_csr_mm
    ctx.count(f"sparse.malformed.{case['malformed']}")
    case["_guard"] = f"c10.bsrguard {DA.shape[0]} {n1} {n2} {DB.shape[1]} {dm} {dn1} {dn2} {dp}"
    try:
        y = fn(a, b)
    except BaseException:
        ctx.count("sparse.malformed.raises")
        case["_outcome"] = "raises"
        return True
    case["_outcome"] = "returns"
    yd = valid_dense(y)
    if case["malformed"] == "blk" and yd is not None and torch.equal(yd.double(), DA.double() @ DB.double()):
        ctx.count("sparse.malformed.correct")
        return True
    ctx.fail(dict(case), f"sparse-silent: {case['api']} returned a tensor for operands that do not fit "
                         f"({'inner block sizes 2 vs ' + str(case.get('dn2')) if case['malformed'] == 'blk' else 'inner dimensions differ'}) "
                         f"and it is not the dense product")
    return False


def judge_sparse_model(ctx: Ctx, cc, y, rep):
    st, toks = common.parse_reply(rep)
    toks = [t for t in toks if t]
    if st != "ok":
        raise common.InfraError(f"model bsrbsc failed: {rep}")
    sm, dm, dp = cc["sm"], cc["dm"], cc["dp"]
    nb = int(toks[0])
    crow = [int(t) for t in toks[1:2 + sm]]
    col = [int(t) for t in toks[2 + sm:2 + sm + nb]]
    vals = torch.tensor([float(common.from_wire(t)) for t in toks[2 + sm + nb:]], dtype=torch.float64).reshape(nb, dm, dp)
    ctx.count("sparse.model")
    if y.crow_indices().tolist() != crow or y.col_indices().tolist() != col:
        ctx.disagree("sparse.structure", cc, f"result block structure differs: implementation crow {y.crow_indices().tolist()} "
                                             f"col {y.col_indices().tolist()}, model crow {crow} col {col}")
        return
    yv = y.values().double()
    if cc["data"] == "int":
        same = torch.equal(yv, vals)
    else:
        # per-entry scale |A||B| of the very block (no absolute floor that could swallow an error on small data)
        PA, PB, VA, VB = sparse_build(cc)
        scale = (dense_of(PA, VA).double().abs() @ dense_of(PB, VB).double().abs())
        sb = torch.stack([scale[i * dm:(i + 1) * dm, j * dp:(j + 1) * dp]
                          for i in range(sm) for j in col[crow[i]:crow[i + 1]]]) if nb else scale.new_zeros((0, dm, dp))
        same = bool(((yv - vals).abs() <= 64 * EPS[cc["dtype"]] * sb * max(cc["sn"] * cc["dn"], 1)).all())
    if not same:
        ctx.disagree("sparse.values", cc, f"result block values differ from the model by {float((yv - vals).abs().max()):.3e}")


LAYOUTS = ["strided", "coo", "csr", "csc", "bsr", "bsc"]


def conv(D, layout, bs):
    return {"strided": lambda: D, "coo": lambda: D.to_sparse_coo(), "csr": lambda: D.to_sparse_csr(),
            "csc": lambda: D.to_sparse_csc(), "bsr": lambda: D.to_sparse_bsr(bs), "bsc": lambda: D.to_sparse_bsc(bs)}[layout]()


def check_dispatch(ctx: Ctx, case, route=None):
    """one layout pair of `_sparse_csr_mm`; `route` = the model's final route"""
    g = gen(case["seed"])
    k = case["bs"]
    m, n, p = case["gm"] * k, case["gn"] * k, case["gp"] * k
    dt = tdt(case["dtype"])
    DA = (torch.randint(-3, 4, (m, n), generator=g) * (torch.rand(m, n, generator=g) < case["dens"])).to(dt)
    DB = (torch.randint(-3, 4, (n, p), generator=g) * (torch.rand(n, p, generator=g) < case["dens"])).to(dt)
    if case.get("ill"):      # (45) first / last block row of the left operand in other units (power of two: still exact)
        e2 = ILL_MAGS[case["ill"]["mag"]][0]
        e2 = max(min(e2, 60), -60) if case["dtype"] == "float32" else e2
        rows = slice(0, k) if case["ill"]["where"] == "rowfirst" else slice(m - k, m)
        DA[rows] = DA[rows] * 2.0 ** e2
    a, b = conv(DA, case["l1"], (k, k)), conv(DB, case["l2"], (k, k))
    want = DA.double() @ DB.double()
    cc = dict(case)
    try:
        y = O()._sparse_csr_mm(a, b)
        outcome = "returns"
    except BaseException as e:  # `raise NotImplemented` gives a TypeError; anything loud counts
        outcome = "raises"
        err = f"{type(e).__name__}: {str(e)[:80]}"
    ctx.count(f"dispatch.{case['l1']}x{case['l2']}.{outcome}")
    if outcome == "returns":
        if bad_result(ctx, cc, y, "_sparse_csr_mm"):
            return False
        yd = valid_dense(y)
        if yd is None or tuple(yd.shape) != tuple(want.shape) or not torch.equal(yd.double(), want):
            ctx.fail(cc, f"dispatch-product: _sparse_csr_mm({case['l1']}, {case['l2']}) returned a tensor that is not the dense "
                         f"product (shape {None if yd is None else tuple(yd.shape)})")
            return False
    if route is not None:
        must_return = route in ("mergeJoin", "addmmCsr") or (route == "addmmDense" and case["l1"] != "bsc")
        must_raise = route in ("raiseNotImplemented", "raiseTuple")
        if must_return and outcome == "raises":
            ctx.fail(cc, f"dispatch-raises: _sparse_csr_mm({case['l1']}, {case['l2']}) raised on a supported layout pair: {err}")
            ctx.disagree("dispatch", cc, f"model route {route}, implementation raised")
            return False
        if must_raise and outcome == "returns":
            ctx.disagree("dispatch", cc, f"model route {route}, implementation returned (a correct product)")
    return True



# ============================================================================================ history stream

SOLVER_ATTRS = {"CG": ("maxiter", "tol"), "PINV": ("atol", "rtol", "hermitian"), "LSTSQ": ("rcond", "driver"),
                "Cholesky": ("upper",)}


def cg_call_case(n, seed, **kw):
    c = {"kind": "cg", "n": n, "dtype": "float64", "layout": "dense", "spec": "log", "cexp": 3 if n >= 10 else 0,
         "ascale": 0, "bscale": 0, "b": "generic", "x0": "none", "M": "none", "Mlayout": "dense", "tol": None,
         "maxiter": None, "bshape": "col", "seed": seed}
    c.update(kw)
    return c


def corner_histories():
    """deterministic corpus, identical for every seed: ONE solver object over systems of different sizes.
    (A solver whose default iteration budget, tolerance or factorisation state leaks from one call into the next
    passes every single-call test; small -> large exposes a stale `10 n` budget, large -> small a stale size.)"""
    H = []
    H.append({"kind": "history", "solver": "CG", "tol": None, "maxiter": None, "tag": "corner:small->large",
              "calls": [cg_call_case(2, 11), cg_call_case(40, 12)]})
    H.append({"kind": "history", "solver": "CG", "tol": None, "maxiter": None, "tag": "corner:3->8->30 csr",
              "calls": [cg_call_case(3, 21, layout="csr"), cg_call_case(8, 22, layout="csr", cexp=1),
                        cg_call_case(30, 23, layout="csr", spec="uniform")]})
    H.append({"kind": "history", "solver": "CG", "tol": None, "maxiter": None, "tag": "corner:large->small->large",
              "calls": [cg_call_case(36, 31, spec="lap"), cg_call_case(1, 32), cg_call_case(24, 33, x0="random", M="jacobi")]})
    H.append({"kind": "history", "solver": "CG", "tol": 1e-3, "maxiter": None, "tag": "corner:dtype switch",
              "calls": [cg_call_case(4, 41, dtype="float32", tol=1e-3), cg_call_case(20, 42, tol=1e-3, cexp=2),
                        cg_call_case(6, 43, tol=1e-3, b="zero")]})
    def ls(m, n, seed, **kw):
        it = {"kind": "float", "cexp": 2, "ascale": 0, "b": "generic", "bscale": 0, "seed": seed}
        it.update(kw)
        return {"kind": "ls", "dtype": "float64", "batch": [], "m": m, "n": n, "items": [it]}
    for name in ("PINV", "LSTSQ"):
        H.append({"kind": "history", "solver": name, "tag": "corner:shapes",
                  "calls": [ls(3, 2, 51), ls(30, 20, 52, cexp=6), ls(2, 5, 53), {**ls(4, 4, 54), "dtype": "float32"},
                            ls(6, 9, 55, kind="int", r=3, cexp2=4)]})
    def ch(n, seed, kind="spd", **kw):
        it = {"kind": kind, "seed": seed, "nrhs": 1, "cexp": 2, "dscale": 0}
        it.update(kw)
        return {"kind": "chol", "dtype": "float64", "batch": [], "n": n, "items": [it]}
    for how in ("deepcopy", "copy", "pickle", "state_dict"):
        H.append({"kind": "history", "solver": "CG", "tol": None, "maxiter": None, "tag": "corner:copy-" + how, "copy_at": 1, "copy_how": how,
                  "calls": [cg_call_case(2, 71), cg_call_case(40, 72), cg_call_case(3, 73), cg_call_case(33, 74, spec="uniform")]})
    for fk in ("bshape", "Mshape", "dtype"):
        H.append({"kind": "history", "solver": "CG", "tol": None, "maxiter": None, "tag": "corner:fail-" + fk, "fail_at": 1, "fail_kind": fk,
                  "calls": [cg_call_case(3, 81), cg_call_case(36, 82, x0="random"), cg_call_case(5, 83)]})
    H.append({"kind": "history", "solver": "LSTSQ", "tag": "corner:fail-inf", "fail_at": 1, "fail_kind": "inf", "copy_at": 2, "copy_how": "deepcopy",
              "calls": [ls(3, 2, 91), ls(12, 7, 92, cexp=4), ls(2, 5, 93)]})
    H.append({"kind": "history", "solver": "PINV:rtol1", "tag": "corner:fail-bshape", "fail_at": 0, "fail_kind": "bshape", "copy_at": 1, "copy_how": "pickle",
              "calls": [ls(4, 4, 94), ls(9, 6, 95, cexp=4), ls(3, 8, 96)]})
    for upper in (False, True):
        H.append({"kind": "history", "solver": "Cholesky", "upper": upper, "tag": "corner:good-bad-good",
                  "calls": [ch(2, 61), ch(30, 62, cexp=6), ch(5, 63, kind="indef", j=1, nexp=1), ch(4, 64),
                            {**ch(3, 65), "dtype": "float32"}, ch(6, 66, kind="badlast", by=1), ch(12, 67, kind="intspd")]})
    return H


def corner_cases():
    """deterministic corpus, identical for every seed, run BEFORE the random streams: the named hard spots of every
    stream (so that detection of a regression in one of them never depends on the seed)."""
    def ls(solver, m, n, items, batch=(), dtype="float64", **kw):
        its = []
        for j, it in enumerate(items):
            d = {"kind": "float", "cexp": 0, "ascale": 0, "b": "generic", "bscale": 0, "seed": 7000 + 13 * j + m * 41 + n}
            d.update(it)
            its.append(d)
        return {"kind": "ls", "solver": solver, "dtype": dtype, "batch": list(batch), "m": m, "n": n, "items": its, **kw}

    def ch(n, items, upper=False, batch=(), dtype="float64", **kw):
        its = []
        for j, it in enumerate(items):
            d = {"kind": "spd", "seed": 8000 + 17 * j + n, "nrhs": 1, "cexp": 1, "dscale": 0}
            d.update(it)
            its.append(d)
        return {"kind": "chol", "upper": upper, "dtype": dtype, "batch": list(batch), "n": n, "items": its, **kw}

    def sp(**kw):
        d = {"kind": "sparse", "api": "bsr_bsc_matmul", "sm": 3, "sn": 4, "sp": 3, "dm": 2, "dn": 3, "dp": 2, "pa": "random",
             "pb": "random", "da": 0.5, "db": 0.5, "disjoint": False, "zeroval": False, "stale": True, "data": "int",
             "dtype": "float64", "vscale": 0, "vscale2": 0, "seed": 9001}
        d.update(kw)
        return d

    C = {"ls": [], "chol": [], "cg": [], "sparse": []}
    for solver in ("PINV", "LSTSQ", "LSTSQ:gelsd"):
        C["ls"] += [
            ls(solver, 1, 1, [{}]), ls(solver, 1, 1, [{"kind": "int", "r": 0, "cexp2": 0}]),
            ls(solver, 5, 3, [{"cexp": 8}]), ls(solver, 3, 5, [{"cexp": 8, "b": "consistent"}]),
            ls(solver, 6, 6, [{"kind": "int", "r": 3, "cexp2": 10}]), ls(solver, 7, 4, [{"kind": "int", "r": 1, "cexp2": 0, "b": "zero"}]),
            ls(solver, 4, 9, [{"kind": "int", "r": 0, "cexp2": 0}, {"cexp": 8, "ascale": 100, "bscale": -30},
                              {"kind": "int", "r": 3, "cexp2": 20}, {"cexp": 2}], batch=(2, 2)),
            ls(solver, 5, 5, [{"cexp": 3}, {"cexp": 1}, {"cexp": 6}], batch=(3,), expand="A"),
            ls(solver, 6, 3, [{"cexp": 4}], alias=True), ls(solver, 8, 5, [{"cexp": 2}], view="strided", viewb="slice"),
            ls(solver, 4, 4, [{"cexp": 1}], dtype="float32", view="T"), ls(solver, 40, 40, [{"cexp": 8}]),
            ls(solver, 57, 23, [{"cexp": 6}]),
        ]
    C["ls"] += [ls("PINV:herm", 6, 6, [{"cexp": 4, "sym": True}]), ls("PINV:rtol", 8, 6, [{"cexp": 4}]),
                ls("PINV:rtol", 6, 6, [{"cexp": 6, "ascale": 20}]), ls("PINV:atol", 7, 7, [{"cexp": 3}]),
                ls("PINV:atol", 5, 8, [{"cexp": 2, "ascale": -20}]), ls("LSTSQ:rcond", 9, 5, [{"cexp": 4}]),
                ls("LSTSQ:rcond", 6, 6, [{"cexp": 7, "ascale": 20}]),
                {**ls("LSTSQ", 4, 3, [{}]), "malformed": "inf"}]
    for upper in (False, True):
        C["chol"] += [
            ch(1, [{}], upper), ch(1, [{"kind": "zero"}], upper), ch(2, [{"kind": "indef", "j": 1, "nexp": 0, "cexp": 0}], upper),
            ch(12, [{"cexp": 8}], upper), ch(40, [{"cexp": 6, "nrhs": 2}], upper), ch(48, [{"cexp": 3}], upper),
            ch(6, [{"kind": "badlast", "by": 1}], upper), ch(6, [{"kind": "badfirst", "by": 1}], upper),
            ch(9, [{"kind": "indef", "j": 4, "nexp": 9, "cexp": 0}], upper), ch(5, [{"kind": "singular"}], upper),
            ch(7, [{"cexp": 0, "scale": -100}, {"cexp": 8, "scale": 100}, {"kind": "intspd"}, {"cexp": 3, "dscale": 8}], upper, batch=(4,)),
            ch(5, [{}, {}, {"kind": "indef", "j": 2, "nexp": 1, "cexp": 1}], upper, batch=(3,)),
            ch(5, [{"kind": "badlast", "by": 1}, {}, {}, {}], upper, batch=(2, 2)),
            ch(6, [{"cexp": 2}, {"cexp": 4}], upper, batch=(2,), expand="A"), ch(6, [{"cexp": 2, "nrhs": 2}], upper, alias=True),
            ch(8, [{"cexp": 3}], upper, view="strided", viewb="slice"), ch(4, [{"cexp": 2}], upper, dtype="float32", view="T"),
        ]
    def cg(n, seed, **kw):
        return cg_call_case(n, seed, **kw)
    C["cg"] += [
        cg(1, 101), cg(2, 102, x0="partial"), cg(5, 103, x0="last", b="zero"), cg(7, 104, x0="exact"), cg(6, 105, bscale=-30),
        cg(6, 106, bscale=30, ascale=-30), cg(8, 107, M="jacobi", Mlayout="csr"), cg(9, 108, layout="coo", x0="random"),
        cg(12, 109, layout="bsr:3", cexp=2), cg(40, 110), cg(40, 111, spec="lap", layout="csr"), cg(33, 112, spec="cluster", M="approx"),
        cg(64, 113, cexp=3), cg(10, 114, bshape="vec", cexp=1), cg(6, 115, tol=1e-8, cexp=1), cg(5, 116, maxiter=2, cexp=1),
        cg(8, 117, view="strided", viewb="slice", x0="random", M="jacobi", cexp=1), cg(7, 118, view="T", viewb="strided", x0="far", cexp=1),
        cg(4, 119, dtype="float32", tol=1e-3), cg(16, 120, bscale=100, ascale=-100, cexp=2), cg(3, 121, maxiter=0),
        cg(6, 122, bscale=-100, cexp=1), cg(9, 123, bscale=-100, ascale=100, x0="random", cexp=1),
    ]
    # (10) every pair of optional arguments of CG (constructor tol / maxiter, call x / M), b = 0, every call spelling
    kf = 0
    for tol in (None, 1e-3):
        for mi in (None, 2, 400):
            for x0 in ("none", "zeros", "random"):
                for Mk in ("none", "jacobi"):
                    for bk in ("generic", "zero"):
                        C["cg"].append(cg(4, 500 + kf, cexp=1, tol=tol, maxiter=mi, x0=x0, M=Mk, b=bk,
                                          style=("pos", "kw", "kwonly", "mixed")[kf % 4], grad=("plain", "nograd", "inference", "param")[(kf // 4) % 4]))
                        kf += 1
    # (36) nearly structured: relative distance 1e-4 … 1e-12 from symmetric / triangular / diagonal / rank-deficient / zero
    for solver in ("PINV", "LSTSQ", "LSTSQ:gelsd"):
        for st_ in ("sym", "symrel", "stencil", "tril", "triu", "diag"):
            for dex in (4, 6, 8, 12):
                C["ls"].append(ls(solver, 6, 6, [{"cexp": 1, "near": {"struct": st_, "dexp": dex}}]))
        C["ls"] += [ls(solver, 5, 5, [{"cexp": 1, "near": {"struct": "symrel", "dexp": 6}}] * 3, batch=(3,)),
                    ls(solver, 9, 9, [{"cexp": 2, "near": {"struct": "stencil", "dexp": 6}}], dtype="float64"),
                    ls(solver, 4, 4, [{"cexp": 0, "near": {"struct": "symrel", "dexp": 3}}], dtype="float32"),
                    ls(solver, 7, 5, [{"cexp": 0, "near": {"struct": "lowrank", "dexp": 6}}]),
                    ls(solver, 5, 8, [{"cexp": 0, "near": {"struct": "lowrank", "dexp": 8}, "b": "consistent"}]),
                    ls(solver, 5, 5, [{"cexp": 1, "near": {"struct": "zero", "dexp": 12}}])]
    # (16) special sizes: 3 everywhere, batch sizes equal to a matrix dimension, 1 in either batch position, primes
    for solver in ("PINV", "LSTSQ"):
        C["ls"] += [ls(solver, 3, 3, [{}, {"cexp": 2}, {"kind": "int", "r": 2, "cexp2": 0}], batch=(3,)),
                    ls(solver, 4, 2, [{"cexp": 1}] * 4, batch=(4,)), ls(solver, 2, 5, [{"cexp": 1}] * 5, batch=(5,)),
                    ls(solver, 3, 3, [{"cexp": 1}] * 3, batch=(1, 3)), ls(solver, 3, 3, [{"cexp": 1}] * 3, batch=(3, 1)),
                    ls(solver, 7, 13, [{"cexp": 3}]), ls(solver, 31, 37, [{"cexp": 5}]), ls(solver, 37, 3, [{"cexp": 2}])]
    for upper in (False, True):
        C["chol"] += [ch(3, [{"nrhs": 3}, {"nrhs": 3, "cexp": 3}, {"nrhs": 3, "kind": "intspd"}], upper, batch=(3,)),
                      ch(2, [{"nrhs": 2}, {"nrhs": 2}], upper, batch=(2,)), ch(5, [{"nrhs": 5}] * 5, upper, batch=(5,)),
                      ch(3, [{}] * 3, upper, batch=(1, 3)), ch(3, [{}] * 3, upper, batch=(3, 1)),
                      ch(13, [{"cexp": 5}], upper), ch(37, [{"cexp": 3}], upper)]
    C["cg"] += [cg(3, 601), cg(3, 602, bshape="vec"), cg(7, 603, cexp=1), cg(13, 604, layout="csr", cexp=2), cg(31, 605, layout="coo"),
                cg(37, 606, M="jacobi", x0="random")]
    C["sparse"] += [sp(sm=3, sn=3, sp=3, dm=3, dn=3, dp=3, seed=9020, style="kw"), sp(sm=2, sn=2, sp=2, dm=2, dn=2, dp=2, seed=9021),
                    sp(sm=1, sn=7, sp=1, dm=1, dn=1, dp=1, da=1.0, db=1.0, seed=9022), sp(sm=5, sn=1, sp=5, dm=3, dn=1, dp=3, pa="full", pb="full", seed=9023),
                    sp(api="_sparse_csr_mm", style="kw", seed=9024)]
    C["sparse"] += [sp(sm=20, sn=33, sp=17, dm=2, dn=1, dp=2, da=0.5, db=0.5, seed=9030, stale=False),     # (19) large grid / nnz
                    sp(sm=32, sn=32, sp=32, dm=1, dn=1, dp=1, da=0.3, db=0.3, seed=9031, stale=False)]
    C["sparse"] += [
        sp(pa="empty"), sp(pb="empty"), sp(pa="empty", pb="empty"), sp(pa="full", pb="full"), sp(disjoint=True, da=1.0, db=1.0),
        sp(pa="lastcol", pb="lastrow"), sp(pa="firstcol", pb="lastrow"), sp(pa="lastcol", pb="firstrow"), sp(pa="diag", pb="diag"),
        sp(pa="single", pb="full", seed=9002), sp(pa="full", pb="single", seed=9003), sp(sm=1, sn=1, sp=1, dm=1, dn=1, dp=1, pa="full", pb="full"),
        sp(sn=6, da=0.3, db=0.3, seed=9004), sp(sn=6, da=0.3, db=0.3, seed=9005, api="_sparse_csr_mm"), sp(dm=4, dn=1, dp=4, seed=9006),
        sp(dm=7, dn=5, dp=6, seed=9007), sp(sm=11, sn=9, sp=10, da=0.2, db=0.2, seed=9008), sp(zeroval=True, seed=9009),
        sp(data="float", vscale=-100, vscale2=100, seed=9010), sp(data="float", dtype="float32", vscale=-40, seed=9011),
        {**sp(seed=9012), "malformed": "blk", "dn2": 1}, {**sp(seed=9013), "malformed": "dim"},
    ]
    # (pass 9, seed C07-6) SQUARE systems at and beyond n = 32 that are rank deficient WITHOUT an exactly zero pivot (a shortcut
    # through an LU solve is flagged by LAPACK only for exact zeros), nearly rank deficient, and the structured Gauss-Newton
    # Jacobians of under-determined so3 / se3 alignments; b in and out of the range; both dtypes; 31 / 30 as controls
    ko = 0

    def orth(solver, n_, zeros, smin, bk, dtype):
        nonlocal ko
        ko += 1
        return ls(solver, n_, n_, [{"kind": "orth", "zeros": zeros, "smin": smin, "cexp": 1, "b": bk, "seed": 9300 + ko,
                                    "model": zeros == 1 and bk == "generic" and n_ <= 32}], dtype=dtype)

    def lie(group, N_, mix, bk, dtype):
        nonlocal ko
        ko += 1
        nn = (3 if group == "so3" else 6) * N_
        return ls("PINV", nn, nn, [{"kind": "lie", "group": group, "N": N_, "mix": mix, "b": bk, "seed": 9400 + ko,
                                   "model": not mix and bk == "generic" and dtype == "float64" and nn < 40}], dtype=dtype)

    C["ls"] += [orth("PINV", 31, 1, None, "generic", "float64"), orth("PINV", 31, 10, None, "consistent", "float64")]      # controls
    for n_ in (32, 33):
        for zeros, smin in ((1, None), (n_ // 3, None), (0, 1e-13), (0, None)):
            for bk in ("generic", "consistent"):
                for dtype in ("float64", "float32"):
                    if (smin is not None and dtype == "float32") or (zeros == 0 and smin is None and bk == "consistent"):
                        continue
                    C["ls"].append(orth("PINV", n_, zeros, smin, bk, dtype))
    C["ls"] += [orth("PINV", 48, 1, None, "generic", "float64"), orth("PINV", 48, 1, None, "consistent", "float32"),
                orth("PINV", 48, 16, None, "consistent", "float64"), orth("PINV", 48, 16, None, "generic", "float32"),
                orth("PINV", 48, 0, 1e-13, "generic", "float64"),
                orth("PINV", 64, 1, None, "generic", "float64"), orth("PINV", 64, 21, None, "consistent", "float32"),
                orth("PINV", 100, 1, None, "generic", "float64"), orth("PINV", 100, 33, None, "consistent", "float64")]
    for solver in ("LSTSQ", "LSTSQ:gelsd"):
        C["ls"] += [orth(solver, 32, 1, None, "generic", "float64"), orth(solver, 32, 10, None, "consistent", "float32")]
    for group, Nc, N1, N2 in (("so3", 10, 11, 16), ("se3", 5, 6, 8)):
        C["ls"] += [lie(group, Nc, False, "generic", "float64"),                                                          # control (< 32)
                    lie(group, N1, False, "generic", "float64"), lie(group, N1, False, "consistent", "float64"),
                    lie(group, N1, False, "generic", "float32"), lie(group, N1, False, "consistent", "float32"),
                    lie(group, N1, True, "generic", "float64"), lie(group, N2, False, "generic", "float64"),
                    lie(group, N2, True, "consistent", "float64")]
    # (45) ill-scaled operands inside one product: every magnitude x position (large block first AND last, a small block after
    # normal ones), integer data in float compared exactly, float data against the componentwise bound, both entry points
    ki = 0
    for mag in ILL_MAGS:
        for where in ILL_WHERE:
            for data, dtype in (("int", "float64"), ("float", "float64"), ("int", "float32"), ("float", "float32")):
                C["sparse"].append(sp(sm=3, sn=2 + ki % 3, sp=3, dm=1 + ki % 2, dn=1 + ki % 3, dp=1 + (ki // 2) % 2, da=1.0 if ki % 2 else 0.7,
                                      db=1.0 if ki % 3 else 0.7, data=data, dtype=dtype, seed=9100 + ki, stale=False,
                                      api="bsr_bsc_matmul" if ki % 4 else "_sparse_csr_mm", ill={"mag": mag, "where": where}))
                ki += 1
    C["sparse"] += [sp(sm=2, sn=1, sp=1, dm=1, dn=1, dp=1, pa="full", pb="full", data="int", seed=9190, ill={"mag": "2^53", "where": "rowfirst"}),
                    sp(sm=6, sn=6, sp=6, dm=2, dn=2, dp=2, da=0.8, db=0.8, data="float", seed=9191, ill={"mag": "1e5", "where": "rowfirst"}),
                    sp(sm=12, sn=10, sp=12, dm=2, dn=2, dp=2, da=0.5, db=0.5, data="float", seed=9192, stale=False, ill={"mag": "1e9", "where": "rowmid"})]
    return C


def check_cg_entry(ctx: Ctx):
    """shape glue of CG.forward against the model's `cgEntry`: which ranks of b are accepted, and whether b is unsqueezed"""
    g = gen(777)
    n = 3
    Q = torch.randn(n, n, generator=g, dtype=torch.float64)
    A = Q @ Q.T + torch.eye(n, dtype=torch.float64)
    bs = {0: torch.tensor(1.5, dtype=torch.float64), 1: torch.randn(n, generator=g, dtype=torch.float64),
          2: torch.randn(n, 1, generator=g, dtype=torch.float64), 3: torch.randn(n, 1, 1, generator=g, dtype=torch.float64)}
    reps = ctx.driver.run([f"c10.cgentry 2 {k}" for k in sorted(bs)])
    for k, rep in zip(sorted(bs), reps):
        case = {"kind": "cg-entry", "ndimB": k}
        ctx.note_case(("cg-entry", k), True)
        st, toks = common.parse_reply(rep)
        try:
            x = S().CG()(A, bs[k].clone())
            out = "ok"
        except AssertionError:
            out = "assert"
        except Exception as e:
            out = "other:" + type(e).__name__
        ctx.count(f"cg.entry.{k}.{out}")
        if st == "ok":
            if out != "ok":
                ctx.fail(case, f"cg-raises: CG rejected a right-hand side of rank {k} for a rank-2 A ({out}); the shape rule accepts it")
                ctx.disagree("cg.entry", case, f"model accepts, implementation {out}")
            elif not isinstance(x, torch.Tensor) or tuple(x.shape) != (n, 1) or \
                    not (float((A @ x - bs[k].reshape(n, 1)).norm()) <= 1e-4 * float(bs[k].norm())):
                ctx.fail(case, f"shape: CG with a rank-{k} right-hand side returned {getattr(x, 'shape', None)} / a wrong solution")
        elif out == "ok":
            ctx.disagree("cg.entry", case, f"model rejects rank {k} ({rep}), implementation returned")


def check_shared_defaults(ctx: Ctx):
    """(29) several DEFAULT-constructed solvers of each class (optional arguments omitted) alive in one process and used
    interleaved on systems of different sizes: each must show the documented default behaviour (CG: budget 10*n of ITS
    call, tol 1e-5; PINV/LSTSQ: default tolerances; Cholesky: lower) — not the state of a sibling object."""
    s = S()
    g = gen(2900)
    objs = {"CG": [s.CG() for _ in range(3)], "PINV": [s.PINV() for _ in range(3)], "LSTSQ": [s.LSTSQ() for _ in range(3)],
            "Cholesky": [s.Cholesky() for _ in range(3)]}
    sizes = [2, 40, 3, 33, 5, 24]
    for k, n in enumerate(sizes):
        A = spd_matrix(n, "log", 3 if n >= 10 else 0, g)
        b = torch.randn(n, 1, generator=g, dtype=torch.float64)
        R = torch.randn(n + 2, n, generator=g, dtype=torch.float64)
        rb = torch.randn(n + 2, 1, generator=g, dtype=torch.float64)
        for name in ("CG", "PINV", "LSTSQ", "Cholesky"):
            sol = objs[name][k % 3]
            case = {"kind": "shared-defaults", "solver": name, "call": k, "n": n}
            ctx.count("shared-defaults")
            ctx.note_case(("shared-defaults", name, k), True)
            try:
                if name in ("CG", "Cholesky"):
                    x = sol(A.clone(), b.clone())
                    res = float((A @ x - b).norm() / b.norm())
                    lim = 1e-5 * (1 + 1e-6) + 1e-9 if name == "CG" else 1e-9
                else:
                    x = sol(R.clone(), rb.clone())
                    res = float((R.T @ (R @ x - rb)).norm() / (torch.linalg.matrix_norm(R, 2) ** 2 * x.norm() + 1e-300))
                    lim = 1e-10
                if not (res <= lim):
                    ctx.fail(case, f"shared-defaults: the {k % 3}-th of three default-constructed {name} objects, used interleaved, returns a "
                                   f"vector with relative residual {res:.3e} > {lim:.1e} on call {k} (n={n}): not the documented default behaviour")
            except Exception as e:
                ctx.fail(case, f"raises: default-constructed {name} raised on call {k}: {type(e).__name__}: {str(e)[:80]}")


def check_complex(ctx: Ctx):
    """(30) the direct solvers are documented for complex matrices and accept complex64 / complex128: least-squares law
    with the CONJUGATE transpose, minimum norm for PINV, Hermitian positive definite / indefinite for Cholesky; value and
    dtype.  (Integer, bool and half dtypes are refused loudly by the kernels; CG on complex / half input is outside the
    property and recorded in the notes.)"""
    s = S()
    g = gen(3000)
    for dtn, eps in (("complex128", EPS["float64"]), ("complex64", EPS["float32"])):
        dt = getattr(torch, dtn)

        def crandn(*shape):
            return torch.complex(torch.randn(*shape, generator=g, dtype=torch.float64), torch.randn(*shape, generator=g, dtype=torch.float64))
        for (m, n, r, batch) in ((5, 3, 3, ()), (3, 6, 3, ()), (6, 4, 2, ()), (4, 4, 4, (3,)), (7, 2, 1, (2, 2)), (1, 1, 1, ())):
            B_ = crandn(*batch, m, r) * 2
            C_ = crandn(*batch, r, n) * 2
            A = (torch.complex(B_.real.round(), B_.imag.round()) @ torch.complex(C_.real.round(), C_.imag.round()))
            A = A + (torch.eye(m, n, dtype=torch.complex128) * (3 if r == min(m, n) else 0))
            b = crandn(*batch, m, 1)
            A, b = A.to(dt), b.to(dt)
            for name, mk in (("PINV", s.PINV), ("LSTSQ", s.LSTSQ), ("LSTSQ:gelsd", lambda: s.LSTSQ(driver="gelsd"))):
                case = {"kind": "complex", "solver": name, "dtype": dtn, "m": m, "n": n, "r": r, "batch": list(batch)}
                ctx.count(f"complex.{name.split(':')[0]}")
                ctx.note_case(("complex", name, dtn, m, n, r, batch), True)
                try:
                    x = mk()(A.clone(), b.clone())
                except Exception as e:
                    ctx.fail(case, f"raises: {name} raised on a {dtn} system ({m}x{n}): {type(e).__name__}: {str(e)[:80]}")
                    continue
                if not isinstance(x, torch.Tensor) or x.dtype != dt or tuple(x.shape) != tuple(batch) + (n, 1):
                    ctx.fail(case, f"shape: {name} on {dtn} input returned {getattr(x, 'dtype', None)} {getattr(x, 'shape', None)}")
                    continue
                Ad, bd, xd = A.to(torch.complex128), b.to(torch.complex128), x.to(torch.complex128)
                sv = torch.linalg.svdvals(Ad)
                s1 = sv[..., 0]
                rk = (sv > 1e-6 * s1[..., None]).sum(-1)
                sr = torch.gather(sv, -1, (rk - 1).clamp_min(0)[..., None])[..., 0]
                kap = torch.where(rk > 0, s1 / sr.clamp_min(1e-300), torch.ones_like(s1))
                gn = (Ad.mH @ (Ad @ xd - bd)).norm(dim=(-2, -1))
                tol = 64 * eps * max(m, n) * s1 * (s1 * xd.norm(dim=(-2, -1)) + bd.norm(dim=(-2, -1))) * (kap if name == "PINV" else 1.0)
                if not bool(torch.isfinite(xd).all()) or not bool((gn <= tol + 1e-300).all()):
                    ctx.fail(case, f"ls-certificate: {name} on a {dtn} system: |A^H(Ax-b)| = {float(gn.max()):.3e} > {float(tol.min()):.3e} "
                                   f"({m}x{n}, rank {r})")
                if name == "PINV":
                    _, _, Vh = torch.linalg.svd(Ad, full_matrices=True)
                    nullc = torch.stack([(Vh.reshape(-1, n, n)[i][int(rk.reshape(-1)[i]):] @ xd.reshape(-1, n, 1)[i]).norm()
                                         for i in range(rk.numel())]).reshape(rk.shape)
                    toln = 64 * eps * max(m, n) * kap * (xd.norm(dim=(-2, -1)) + bd.norm(dim=(-2, -1)) / sr.clamp_min(1e-300))
                    if not bool((nullc <= toln + 1e-300).all()):
                        ctx.fail(case, f"ls-minnorm: PINV on a {dtn} system is not the minimum-norm solution (null-space component "
                                       f"{float(nullc.max()):.3e})")
        for n, batch in ((1, ()), (4, ()), (6, (3,))):
            Z = crandn(*batch, n, n)
            H = (Z @ Z.mH + torch.eye(n, dtype=torch.complex128)).to(dt)
            H = (H + H.mH) / 2
            b = crandn(*batch, n, 1).to(dt)
            for upper in (False, True):
                case = {"kind": "complex", "solver": "Cholesky", "dtype": dtn, "n": n, "upper": upper, "batch": list(batch)}
                ctx.count("complex.Cholesky")
                try:
                    x = s.Cholesky(upper=upper)(H.clone(), b.clone())
                    rr = (H.to(torch.complex128) @ x.to(torch.complex128) - b.to(torch.complex128)).norm() / b.to(torch.complex128).norm()
                    if x.dtype != dt or not (float(rr) <= 64 * eps * n * float(torch.linalg.cond(H.to(torch.complex128)).max())):
                        ctx.fail(case, f"chol-residual: Cholesky on a {dtn} Hermitian PD system: relative residual {float(rr):.3e}, dtype {x.dtype}")
                except Exception as e:
                    ctx.fail(case, f"chol-raises: Cholesky raised on a {dtn} Hermitian positive-definite system: {type(e).__name__}")
                try:
                    Hi = H.clone()
                    Hi.reshape(-1, n, n)[-1] = -Hi.reshape(-1, n, n)[-1]
                    s.Cholesky(upper=upper)(Hi, b.clone())
                    ctx.fail(case, f"chol-silent: Cholesky returned a vector for a {dtn} Hermitian matrix that is not positive definite")
                except Exception:
                    pass


def check_alias_args(ctx: Ctx):
    """(31) operands that ARE each other: b is A (solve A X = A: X = I), M is A, the initial guess is b (the very same
    tensor object) — results must still be right and A untouched"""
    s = S()
    g = gen(3100)
    for n in (1, 3, 8, 20):
        A0 = spd_matrix(n, "log", 1, g)
        b0 = torch.randn(n, 1, generator=g, dtype=torch.float64)
        I = torch.eye(n, dtype=torch.float64)
        for name, mk in (("PINV", s.PINV), ("LSTSQ", s.LSTSQ), ("Cholesky", s.Cholesky), ("Cholesky:upper", lambda: s.Cholesky(upper=True))):
            case = {"kind": "alias-args", "solver": name, "n": n, "how": "b is A"}
            ctx.count("alias-args")
            ctx.note_case(("alias-args", name, n), True)
            A = A0.clone()
            try:
                X = mk()(A, A)
                if not torch.equal(A, A0) or tuple(X.shape) != (n, n) or not (float((X - I).abs().max()) <= 64 * EPS["float64"] * n * 10):
                    ctx.fail(case, f"alias-args: {name}(A, A) (the same tensor as matrix and right-hand side) does not return the identity "
                                   f"(max deviation {float((X - I).abs().max()):.3e}) or changed A")
            except Exception as e:
                ctx.fail(case, f"raises: {name}(A, A) raised: {type(e).__name__}: {str(e)[:80]}")
        for how in ("x0 is b", "M is A", "x0 is b, M is A"):
            case = {"kind": "alias-args", "solver": "CG", "n": n, "how": how}
            ctx.count("alias-args")
            A = 0.05 * spd_matrix(n, "log", 2 if n > 1 else 0, g)     # solution 20..2000x longer than b, several passes needed
            if "M is" in how:
                A = 0.05 * spd_matrix(n, "log", 1 if n > 1 else 0, g)  # (M = A squares the condition number)
            A1, b = A.clone(), b0.clone()
            try:
                x = s.CG()(A1, b, b if "x0" in how else None, A1 if "M is" in how else None)
                res = float((A @ x - b0).norm() / b0.norm())
                if not torch.equal(A1, A) or not (res <= 1e-5 * (1 + 1e-6) + 1e-12):
                    ctx.fail(case, f"alias-args: CG with {how}: |b-Ax|/|b| = {res:.3e} (against the original b) or A changed")
            except Exception as e:
                ctx.fail(case, f"raises: CG with {how} raised: {type(e).__name__}: {str(e)[:80]}")


def check_repeat_bitwise(ctx: Ctx):
    """(32) a module-level constant written in place by ANOTHER operation: between two identical calls of every public
    entry point (each dtype, single item and batch of one) every other entry point runs; the two results must agree bit
    for bit"""
    s, o = S(), O()
    g = gen(3200)
    calls = []
    for dt in (torch.float64, torch.float32):
        for batch in ((), (1,), (1, 1)):
            Z = torch.randn(*batch, 3, 3, generator=g, dtype=torch.float64)
            A = (Z @ Z.mT + torch.eye(3, dtype=torch.float64)).to(dt)
            b = torch.randn(*batch, 3, 1, generator=g, dtype=torch.float64).to(dt)
            R = torch.randn(*batch, 4, 3, generator=g, dtype=torch.float64).to(dt)
            rb = torch.randn(*batch, 4, 1, generator=g, dtype=torch.float64).to(dt)
            calls += [("PINV", lambda R=R, rb=rb: s.PINV()(R, rb)), ("LSTSQ", lambda R=R, rb=rb: s.LSTSQ()(R, rb)),
                      ("Cholesky", lambda A=A, b=b: s.Cholesky()(A, b)), ("Cholesky:upper", lambda A=A, b=b: s.Cholesky(upper=True)(A, b))]
            if batch == ():
                calls += [("CG", lambda A=A, b=b: s.CG()(A, b.clone())), ("CG:x0,M", lambda A=A, b=b: s.CG()(A, b.clone(), torch.ones_like(b), torch.eye(3, dtype=b.dtype))),
                          ("CG:csr", lambda A=A, b=b: s.CG()(A.to_sparse_csr(), b.clone()))]
        D1 = (torch.randint(0, 3, (4, 6), generator=g)).to(dt)
        D2 = (torch.randint(0, 3, (6, 4), generator=g)).to(dt)
        calls += [("bsr_bsc_matmul", lambda D1=D1, D2=D2: o.bsr_bsc_matmul(D1.to_sparse_bsr((2, 3)), D2.to_sparse_bsc((3, 2))).to_dense()),
                  ("_sparse_csr_mm", lambda D1=D1, D2=D2: o._sparse_csr_mm(D1.to_sparse_csr(), D2.to_sparse_csc()).to_dense()),
                  ("_sparse_csr_mm:1x1", lambda D1=D1, D2=D2: o._sparse_csr_mm(D1[:1, :1].to_sparse_bsr((1, 1)), D2[:1, :1].to_sparse_bsc((1, 1))).to_dense())]
    first = []
    for name, f in calls:
        try:
            first.append(f().clone())
        except Exception as e:
            first.append(e)
    for (name, f), r1 in zip(calls[::-1], first[::-1]):
        case = {"kind": "repeat", "call": name}
        ctx.count("repeat")
        try:
            r2 = f()
        except Exception as e:
            r2 = e
        if isinstance(r1, Exception) != isinstance(r2, Exception) or \
                (isinstance(r1, torch.Tensor) and not torch.equal(torch.nan_to_num(r1), torch.nan_to_num(r2))):
            ctx.fail(case, f"repeat: {name} returns something else the second time, after every other entry point of the module ran in "
                           f"between (first {type(r1).__name__}, second {type(r2).__name__})")
    ctx.note_case(("repeat", len(calls)), True)


def check_large(ctx: Ctx):
    """(19) large batches (2^14+1, and 2^16+1 where cheap / in the thorough tier) of tiny systems in several shapes, a
    large single CG system and a large block grid.  Oracles that need no model on 10^5 items: split-consistency
    (f(x) == cat(f(x[:a]), f(x[a:])) bit for bit), single-item consistency for the first / last / a random item, the
    float64 normal-equation / residual law on every item, and the exact certificate (model) on the LAST and a random item."""
    g = gen(1900)
    lines, meta = [], []
    for name, mk, Bs in (("PINV", lambda: make_solver("PINV"), [16385] if ctx.quick else [16385, 65537]),
                         ("LSTSQ", lambda: make_solver("LSTSQ"), [16385] if ctx.quick else [16385, 65537]),
                         ("Cholesky", lambda: S().Cholesky(), [16385, 2 ** 17 + 1] if ctx.quick else [16385, 65537, 2 ** 18 + 37, 2 ** 20 + 1])):
        if not ctx.quick and name != "Cholesky":
            Bs = Bs + [2 ** 18 + 1, 2 ** 18 + 37]
        for B in Bs:
            m, n = (2, 2) if name == "Cholesky" else (3, 2)
            Z = torch.randn(B, m, n, generator=g, dtype=torch.float64)
            A = Z.mT @ Z + torch.eye(n, dtype=torch.float64) if name == "Cholesky" else Z
            b = torch.randn(B, A.shape[-2], 1, generator=g, dtype=torch.float64)
            if name != "Cholesky":
                A[B // 3] = 0.0           # a zero matrix and a rank-one item in the middle and at the very end
                A[-1, :, 1] = 2 * A[-1, :, 0]
            case = {"kind": "large", "solver": name, "B": B}
            ctx.note_case(("large", name, B), True)
            ctx.count(f"large.{name}.{B}")
            try:
                x = mk()(A, b)
                ok = isinstance(x, torch.Tensor) and tuple(x.shape) == (B, n, 1)
                if not ok:
                    ctx.fail(case, f"shape: {name} on a batch of {B} returned {getattr(x, 'shape', None)}")
                    continue
                if not bool(torch.isfinite(x).all()):
                    i = int((~torch.isfinite(x).reshape(B, -1).all(dim=1)).nonzero()[0])
                    ctx.fail({**case, "item": i}, f"nonfinite: {name} returned a non-finite vector for item {i} of a batch of {B} finite systems")
                    continue
                # cut points incl. the remainders B % 2^k (a block loop with floor division drops exactly those items)
                cuts = (1, B // 2, 4096, B - 1) if B < 2 ** 17 else (B - B % 2 ** 16, B - B % 2 ** 12)
                for a_ in cuts:
                    xs = torch.cat([mk()(A[:a_], b[:a_]), mk()(A[a_:], b[a_:])])
                    if not torch.equal(torch.nan_to_num(x), torch.nan_to_num(xs)):
                        bad = int(((x - xs).abs().amax(dim=(-2, -1)) > 0).nonzero()[0])
                        ctx.fail(case, f"large-split: {name} on a batch of {B} differs from the same batch solved in two parts "
                                       f"[:{a_}] / [{a_}:] (first differing item {bad})")
                        break
                for i in (0, B - 1, B - 2, B - B % 4096, int(torch.randint(0, B, (), generator=g))):
                    if not torch.equal(torch.nan_to_num(x[i:i + 1]), torch.nan_to_num(mk()(A[i:i + 1], b[i:i + 1]))):
                        ctx.fail(case, f"large-item: item {i} of a batch of {B} solved by {name} differs from the same item solved alone")
                        break
                # shapes with the same element count
                if (name != "LSTSQ" or not ctx.quick) and B < 2 ** 17:
                    x2 = mk()(A.reshape(1, B, *A.shape[1:]), b.reshape(1, B, *b.shape[1:]))
                    if tuple(x2.shape) != (1, B, n, 1) or not torch.equal(torch.nan_to_num(x2[0]), torch.nan_to_num(x)):
                        ctx.fail(case, f"large-split: {name} on batch shape (1,{B}) differs from batch shape ({B},)")
                # the law on every item (float64, vectorised)
                res = A.mT @ (A @ x - b)
                sc = torch.linalg.matrix_norm(A, 2) * (torch.linalg.matrix_norm(A, 2) * x.norm(dim=(-2, -1)) + b.norm(dim=(-2, -1)))
                kap = torch.ones(B, dtype=torch.float64)
                if name == "PINV":
                    sv = torch.linalg.svdvals(A)
                    nz = torch.where(sv > 1e-12 * sv[:, :1].clamp_min(1e-300), sv, torch.full_like(sv, float("inf"))).amin(dim=-1)
                    kap = torch.where(torch.isfinite(nz), sv[:, 0] / nz.clamp_min(1e-300), kap)
                badm = ~(res.norm(dim=(-2, -1)) <= 64 * EPS["float64"] * 3 * sc * kap + 1e-300)    # (a NaN item is a bad item)
                if bool(badm.any()):
                    i = int(badm.nonzero()[0])
                    ctx.fail({**case, "item": i}, f"ls-certificate: item {i} of a batch of {B} solved by {name} violates the normal equations "
                                                  f"(|A^T(Ax-b)| = {float(res[i].norm()):.3e})")
                for i in (B - 1, int(torch.randint(0, B, (), generator=g))):
                    lines.append(f"c10.lscert {A.shape[-2]} {n} {wl(A[i])} {wl(b[i])} {wl(x[i])}")
                    meta.append((case, i, A[i], float(kap[i])))
            except Exception as e:
                ctx.fail(case, f"raises: {name} raised on a batch of {B} small systems: {type(e).__name__}: {str(e)[:100]}")
    for rep, (case, i, Ai, kp) in zip(ctx.driver.run(lines), meta):
        gg, res, xn, bn, an = nums(rep)
        s1 = float(torch.linalg.matrix_norm(Ai, 2))
        tol = 64 * EPS["float64"] * 3 * s1 * (s1 * xn + bn) * kp
        if not (gg <= tol + 1e-300):
            ctx.fail({**case, "item": i}, f"ls-certificate: item {i} of the large batch: exact |A^T(Ax-b)| = {gg:.3e} > {tol:.3e}")
    # one large CG system per layout (well conditioned: the float iteration needs few passes) and one large block grid
    big = [cg_call_case(257, 1901, cexp=1), cg_call_case(257, 1902, cexp=1, layout="csr", x0="random"),
           cg_call_case(129, 1903, cexp=2, layout="coo", M="jacobi")]
    if not ctx.quick:
        big += [cg_call_case(1025, 1904, cexp=1), cg_call_case(513, 1905, cexp=2, layout="csr")]
    for c in big:
        guarded(ctx, c, check_cg)
        ctx.note_case(("large", "cg", c["n"], c["layout"]), True)
        ctx.count("large.cg")


def corner_ties():
    """(20) exact coincidences: singular values exactly AT the cut-off (dropped: the kernel keeps s > cut), equal
    singular values, equal eigenvalues, a residual exactly equal to tol*|b|"""
    def ls(solver, m, n, svs, **kw):
        return {"kind": "ls", "solver": solver, "dtype": "float64", "batch": [], "m": m, "n": n,
                "items": [{"kind": "diag", "svs": svs, "b": "generic", "bscale": 0, "seed": 2000 + m * 7 + n}], **kw}
    L = []
    for solver, cutrel, absolute in (("PINV:atol1", 0.5, True), ("PINV:atol", 0.5, True), ("PINV:rtol1", 0.01, False),
                                     ("PINV:rtol", 0.01, False), ("PINV:pos", 0.01, False), ("LSTSQ:rcond", 0.01, False),
                                     ("LSTSQ:pos", 0.01, False), ("PINV:both", 0.3, True)):
        top = 4.0
        c_ = cutrel if absolute else cutrel * top
        L += [ls(solver, 3, 3, [top, c_, c_ / 2]), ls(solver, 4, 2, [top, c_]), ls(solver, 2, 4, [top, c_]),
              ls(solver, 3, 3, [top, top, c_]), ls(solver, 3, 3, [top, 2.0, 1.0])]
    for solver in ("PINV", "LSTSQ", "LSTSQ:gelsd", "PINV:herm"):
        L += [ls(solver, 3, 3, [2.0, 2.0, 2.0]), ls(solver, 4, 4, [5.0, 5.0, 1.0, 1.0]), ls(solver, 3, 3, [1.0, 1.0, 0.0])]
    L += [ls("PINV", 5, 3, [3.0, 3.0, 3.0]), ls("LSTSQ", 3, 5, [3.0, 3.0, 3.0])]
    Cc = [{"kind": "chol", "upper": up, "dtype": "float64", "batch": [], "n": n,
           "items": [{"kind": "spd", "seed": 2100 + n, "nrhs": 1, "cexp": 0, "dscale": 0}]} for up in (False, True) for n in (1, 3, 8)]
    G = [cg_call_case(n, 2200 + n, spec="ident", b="34", x0="tie", tol=0.2, cexp=0) for n in (1, 2, 5)] + \
        [cg_call_case(n, 2210 + n, spec="ident", b="34", x0="tie", tol=0.2, cexp=0, maxiter=3) for n in (2, 4)] + \
        [cg_call_case(n, 2220 + n, spec="ident", b="generic", cexp=0) for n in (1, 3, 16)]
    return L, Cc, G


def check_subclass(ctx: Ctx):
    """(21) user subclasses of the shipped solvers (and a plain nn.Module wrapper) must behave like the class they derive
    from; an overriding constructor's own defaults must be honoured"""
    s = S()

    class MyCG(s.CG):
        def __init__(self):
            super().__init__(tol=1e-9)
            self.c10h_note = "user"

    class MyCG2(s.CG):
        pass

    class MyPINV(s.PINV):
        def forward(self, A, b):
            return super().forward(A, b)

    class MyLSTSQ(s.LSTSQ):
        pass

    class MyChol(s.Cholesky):
        def __init__(self):
            super().__init__(upper=True)

    class PropCG(s.CG):            # (33) attributes overridden as PROPERTIES computed on the fly
        def __init__(self):
            super().__init__()

        @property
        def tol(self):
            return 1e-9

        @tol.setter
        def tol(self, v):
            pass

        @property
        def maxiter(self):
            return None

        @maxiter.setter
        def maxiter(self, v):
            pass

    class PropPINV(s.PINV):
        @property
        def rtol(self):
            return None

        @rtol.setter
        def rtol(self, v):
            pass

        @property
        def hermitian(self):
            return False

        @hermitian.setter
        def hermitian(self, v):
            pass

    class PropChol(s.Cholesky):
        @property
        def upper(self):
            return True

        @upper.setter
        def upper(self, v):
            pass

    class Wrap(torch.nn.Module):
        def __init__(self, inner):
            super().__init__()
            self.c10h_inner = inner

        def forward(self, A, b):
            return self.c10h_inner(A, b)

    g = gen(2100)
    n = 30
    A = spd_matrix(n, "log", 3, g)
    b = torch.randn(n, 1, generator=g, dtype=torch.float64)
    R = torch.randn(9, 5, generator=g, dtype=torch.float64)
    rb = torch.randn(9, 1, generator=g, dtype=torch.float64)
    pairs = [("CG", MyCG(), s.CG(tol=1e-9), A, b), ("CG", MyCG2(), s.CG(), A, b), ("CG", Wrap(s.CG()), s.CG(), A, b),
             ("CG", PropCG(), s.CG(tol=1e-9), A, b), ("PINV", PropPINV(), s.PINV(), R, rb), ("Cholesky", PropChol(), s.Cholesky(upper=True), A, b),
             ("PINV", MyPINV(), s.PINV(), R, rb), ("LSTSQ", MyLSTSQ(), s.LSTSQ(), R, rb), ("LSTSQ", Wrap(MyLSTSQ()), s.LSTSQ(), R, rb),
             ("Cholesky", MyChol(), s.Cholesky(upper=True), A, b)]
    for name, user, ref, A_, b_ in pairs:
        case = {"kind": "subclass", "solver": name, "cls": type(user).__name__}
        ctx.note_case(("subclass", name, type(user).__name__), True)
        ctx.count("subclass")
        try:
            xu, xr = user(A_.clone(), b_.clone()), ref(A_.clone(), b_.clone())
        except Exception as e:
            ctx.fail(case, f"raises: a user subclass of {name} raised: {type(e).__name__}: {str(e)[:80]}")
            continue
        if not (isinstance(xu, torch.Tensor) and bool(torch.isfinite(xu).all())):
            ctx.fail(case, f"nonfinite: a user subclass of {name} returned a non-finite result / no tensor")
            continue
        if values_differ(xr, xu, (1e3 if name == "CG" else 1) * EPS["float64"]):
            ctx.fail(case, f"subclass: {type(user).__name__}(…) (derived from / wrapping {name}) returns something else than {name} itself "
                           f"(max difference {float((xr - xu).abs().max()):.3e})")
        if name == "CG":
            res = float((b_ - A_ @ xu).norm() / b_.norm())
            tol_ = 1e-9 if isinstance(user, (MyCG, PropCG)) else 1e-5
            if not (res <= tol_ * (1 + 1e-6) + 1e-12):
                ctx.fail(case, f"cg-residual: {type(user).__name__} (tol {tol_}) returned x with |b-Ax|/|b| = {res:.3e}")


def check_mode_orders(ctx: Ctx):
    """(23) autograd modes in different ORDERS on a key (shape, dtype) that is fresh in the process: a module-level cache
    filled under inference_mode / no_grad and reused by a later plain or autograd call shows only here.  Runs first."""
    g = gen(2300)
    s = S()
    orders = (["inference", "plain", "rg", "nograd"], ["rg", "inference", "plain"], ["nograd", "graph", "inference", "plain"])
    for oi, order in enumerate(orders):
        for name, mk in (("PINV", lambda: s.PINV()), ("LSTSQ", lambda: s.LSTSQ()), ("Cholesky", lambda: s.Cholesky()), ("CG", lambda: s.CG())):
            n = 17 + 2 * oi + {"PINV": 0, "LSTSQ": 20, "Cholesky": 40, "CG": 60}[name]      # a key not used before in this process
            Z = torch.randn(n, n, generator=g, dtype=torch.float64)
            A = Z @ Z.T / n + torch.eye(n, dtype=torch.float64)
            b = torch.randn(n, 1, generator=g, dtype=torch.float64)
            sol = mk()
            ref = None
            for mode in order:
                case = {"kind": "mode-order", "solver": name, "order": order, "mode": mode}
                ctx.count("mode-order")
                try:
                    x = call_in_mode(mode, sol, [A, b]) if mode != "plain" else sol(A.clone(), b.clone())
                except Exception as e:
                    if name == "CG" and mode in ("rg", "graph") and "out=" in str(e):
                        continue        # observation: CG refuses operands that require grad
                    ctx.fail(case, f"raises: {name} raised under autograd mode `{mode}` after the modes {order[:order.index(mode)]} on the same "
                                   f"shape: {type(e).__name__}: {str(e)[:90]}")
                    continue
                if ref is None:
                    ref = x
                elif values_differ(ref, x, (1e3 if name == "CG" else 1) * EPS["float64"]):
                    ctx.fail(case, f"grad-mode: {name} under `{mode}` (after {order[:order.index(mode)]}) returns different values")
            ctx.note_case(("mode-order", name, oi), True)


def check_empty_batch(ctx: Ctx):
    """an empty batch is a valid batch: the result is the empty batch of solutions"""
    for name in ("PINV", "LSTSQ", "Cholesky"):
        for dtype in ("float64", "float32"):
            case = {"kind": "empty-batch", "solver": name, "dtype": dtype, "n": 3}
            A = torch.zeros(0, 3, 3, dtype=tdt(dtype))
            b = torch.zeros(0, 3, 1, dtype=tdt(dtype))
            sol = S().Cholesky() if name == "Cholesky" else make_solver(name)
            ctx.note_case(("empty-batch", name, dtype), False)
            try:
                x = sol(A, b)
            except Exception as e:
                ctx.fail(case, f"raises: {name} raised on an empty batch: {type(e).__name__}: {str(e)[:80]}")
                continue
            if not isinstance(x, torch.Tensor) or tuple(x.shape) != (0, 3, 1) or x.dtype != A.dtype:
                ctx.fail(case, f"shape: {name} on an empty batch returned {getattr(x, 'shape', type(x).__name__)}")


def gen_history_cases(ctx: Ctx, count):
    rng = ctx.rng
    H = []
    for i in range(count):
        c = rng.random()
        L = rng.randint(2, 5)
        order = rng.choice(["asc", "asc", "desc", "mixed"])
        sizes = [pick_dim(rng, 40) for _ in range(L)]
        if order == "asc":
            sizes = sorted(sizes)
            if rng.random() < 0.6:
                sizes[0] = rng.randint(1, 4); sizes[-1] = rng.randint(16, 40)
        elif order == "desc":
            sizes = sorted(sizes, reverse=True)
        if c < 0.6:
            tol = rng.choice([None, None, None, 1e-3, 1e-8])
            maxiter = rng.choice([None, None, None, None, 500])
            calls = []
            for n in sizes:
                layouts = ["dense", "dense", "csr", "coo"] + [f"bsr:{k}" for k in (1, 2, 3, 4) if n % k == 0]
                calls.append(cg_call_case(
                    n, rng.randrange(1 << 30), layout=rng.choice(layouts),
                    spec=rng.choice(["log", "cluster", "outlier", "uniform", "lap"]),
                    cexp=rng.choice([0, 1, 2, 3, 3]) if n >= 10 else rng.choice([0, 1]),
                    ascale=rng.choice([0, 0, -30, 30]), bscale=rng.choice([0, 0, -30, 30]),
                    b=rng.choice(["generic"] * 5 + ["zero"]), x0=rng.choice(["none", "none", "zeros", "random", "partial"]),
                    M=rng.choice(["none", "none", "jacobi", "scaled"]), Mlayout=rng.choice(["dense", "csr"]),
                    tol=tol, maxiter=maxiter,
                    dtype=rng.choice(["float64", "float64", "float32"]) if (tol is not None and tol >= 1e-3) else "float64",
                    view=rng.choice(["plain", "T", "slice", "strided"]), viewb=rng.choice(["plain", "slice", "strided"])))
                if calls[-1]["x0"] == "none" and rng.random() < 0.3:
                    calls[-1]["bshape"] = "vec"
                if calls[-1]["dtype"] == "float32":
                    calls[-1].update({"cexp": min(calls[-1]["cexp"], 1), "ascale": 0, "bscale": 0})
            H.append({"kind": "history", "solver": "CG", "tol": tol, "maxiter": maxiter, "tag": order, "calls": calls})
            if rng.random() < 0.35:
                # stale-read history: same shapes, the caller's OWN tensors are overwritten in place between the calls
                n = rng.choice([1, 2, 5, 9, 17, 33])
                base = dict(calls[0], n=n, layout="dense", Mlayout="dense", dtype="float64", bshape="col", x0=rng.choice(["none", "random"]),
                            M=rng.choice(["none", "jacobi"]), cexp=rng.choice([0, 1, 2, 3]) if n >= 9 else 1)
                H.append({"kind": "history", "solver": "CG", "tol": tol, "maxiter": maxiter, "tag": "inplace", "inplace": True,
                          "calls": [dict(base, seed=rng.randrange(1 << 30), spec=rng.choice(["log", "cluster", "uniform"]),
                                         bscale=rng.choice([0, -30, 30]), b=rng.choice(["generic", "generic", "zero"]))
                                    for _ in range(rng.randint(2, 4))]})
        elif c < 0.8:
            name = rng.choice(["PINV", "LSTSQ", "LSTSQ:gelsd"])
            calls = []
            for m in sizes:
                sub = gen_ls_cases(ctx, 1)[0]
                sub.pop("malformed", None)
                sub["solver"] = name
                sub["m"] = min(m, 24)           # (the exact reference solve of the model is cubic: histories stay small)
                sub["n"] = min(sub["n"], 24)
                m = sub["m"]
                if len(sub["items"]) > 3:
                    sub["items"], sub["batch"] = sub["items"][:3], [3]
                for it in sub["items"]:
                    if it["kind"] == "int":
                        it["r"] = min(it["r"], m, sub["n"])
                    it.pop("sym", None)
                calls.append({k: v for k, v in sub.items() if k != "solver"})
            H.append({"kind": "history", "solver": name, "tag": order, "calls": calls})
            if rng.random() < 0.5:
                base = {k: v for k, v in calls[0].items() if k not in ("expand", "alias", "view", "viewb")}
                cl = []
                for _ in range(rng.randint(2, 4)):
                    sub = gen_ls_cases(ctx, 1)[0]
                    its = [dict(rng.choice(sub["items"]), seed=rng.randrange(1 << 30)) for _ in base["items"]]
                    for it in its:
                        it.pop("sym", None)
                        if it["kind"] == "int":
                            it["r"] = min(it["r"], base["m"], base["n"])
                            if base["dtype"] == "float32":
                                it["cexp2"] = min(it["cexp2"], 2)
                        elif base["dtype"] == "float32":
                            it["cexp"], it["ascale"] = min(it["cexp"], 3), max(min(it.get("ascale", 0), 20), -20)
                        if base["dtype"] == "float32":
                            it["bscale"] = max(min(it.get("bscale", 0), 30), -30)
                    cl.append(dict(base, items=its))
                H.append({"kind": "history", "solver": name, "tag": "inplace", "inplace": True, "calls": cl})
        else:
            upper = rng.random() < 0.5
            calls = []
            for n in sizes:
                sub = gen_chol_cases(ctx, 1)[0]
                sub["n"] = min(n, 24)
                if len(sub["items"]) > 3:
                    sub["items"], sub["batch"] = sub["items"][:3], [3]
                calls.append({k: v for k, v in sub.items() if k != "upper"})
            H.append({"kind": "history", "solver": "Cholesky", "upper": upper, "tag": order, "calls": calls})
            if rng.random() < 0.5:
                base = {k: v for k, v in calls[0].items() if k not in ("expand", "alias", "view", "viewb")}
                cl = []
                for _ in range(rng.randint(2, 4)):
                    sub = gen_chol_cases(ctx, 1)[0]
                    its = [dict(rng.choice(sub["items"]), seed=rng.randrange(1 << 30), nrhs=base["items"][0]["nrhs"]) for _ in base["items"]]
                    if base["dtype"] == "float32":
                        for it in its:
                            it["cexp"] = min(it.get("cexp", 0), 3); it["nexp"] = min(it.get("nexp", 0), 3)
                            it["scale"] = max(min(it.get("scale", 0), 20), -20)
                    cl.append(dict(base, items=its))
                H.append({"kind": "history", "solver": "Cholesky", "upper": upper, "tag": "inplace", "inplace": True, "calls": cl})
    return H


def decorate_histories(rng, H):
    """(11)/(14): a raising call and / or a copy of the solver object placed somewhere inside a history"""
    for h in H:
        if h.get("inplace"):
            continue
        base = h["solver"].split(":")[0]
        if rng.random() < 0.4:
            h["fail_at"] = rng.randrange(len(h["calls"]))
            h["fail_kind"] = rng.choice({"CG": ["bshape", "Mshape", "dtype"], "Cholesky": ["npd", "npd", "bshape", "dtype"],
                                         "LSTSQ": ["inf", "bshape", "dtype"], "PINV": ["bshape", "dtype"]}[base])
        if rng.random() < 0.4:
            h["copy_at"] = rng.randrange(len(h["calls"]))
            h["copy_how"] = rng.choice(["deepcopy", "copy", "pickle", "state_dict"])
            for c in h["calls"]:     # (LSTSQ keeps its last kernel output: a graph tensor there cannot be deep-copied — torch's rule)
                if c.get("grad") in ("rg", "graph"):
                    c["grad"] = "nograd"
    return H


def history_solver(h):
    name = h["solver"]
    if name == "CG":
        return make_cg(h.get("tol"), h.get("maxiter"))
    if name == "Cholesky":
        return S().Cholesky(upper=h["upper"])
    return make_solver(name)


def run_ownership(ctx: Ctx, cases):
    """(15) the returned tensor is the caller's: overwriting it (one batch item, then all of it) must not change the other
    items, the arguments, nor what the same solver object returns for the same system afterwards."""
    for case in cases:
        kind = case["kind"]
        cc = pub(case)
        try:
            if kind == "ls":
                A, b, _ = ls_build(case)
                sol = make_solver(case["solver"])
                call = lambda: sol(A, b)
                who = case["solver"]
            elif kind == "chol":
                A, b, _ = chol_build(case)
                if any(it["kind"] not in ("spd", "intspd") for it in case["items"]):
                    continue
                sol = S().Cholesky(upper=case["upper"])
                call = lambda: sol(A, b)
                who = "Cholesky"
            else:
                A, b, x0, M = cg_build(case)
                sol = make_cg(case["tol"], case["maxiter"])
                Al = to_layout(A, case["layout"])
                call = lambda: sol(Al, b.clone(), None if x0 is None else x0.clone(), M)
                who = "CG"
            A0, b0 = A.clone(), b.clone()
            x1 = call()
            if not isinstance(x1, torch.Tensor) or x1.layout != torch.strided or x1.numel() == 0:
                continue
            keep = x1.clone()
            ctx.count("own.cases")
            if x1.dim() >= 3 and x1.shape[0] > 1:
                x1[0].fill_(SENT)
                if not torch.equal(torch.nan_to_num(x1[1:]), torch.nan_to_num(keep[1:])):
                    ctx.fail(cc, f"alias: overwriting item 0 of the batch returned by {who} changed other items (overlapping result)")
            x1.fill_(SENT)
            if not (torch.equal(A, A0) and torch.equal(b, b0)):
                ctx.fail(cc, f"alias: overwriting the tensor returned by {who} changed an argument of the call")
            x2 = call()
            x0_is_result = who == "CG" and case.get("x0") != "none"
            if isinstance(x2, torch.Tensor) and not x0_is_result and case.get("b") != "zero" and \
                    (same_storage(x1, x2) or not bool((x1 == SENT).all())):
                ctx.fail(cc, f"alias: a later {who} call wrote into (or returned) the memory of the tensor returned by an earlier call")
            if values_differ(keep, x2, (1e3 if who == "CG" else 1) * EPS[case["dtype"]]):
                ctx.fail(cc, f"alias: after the caller overwrote the first result, the same {who} object returns something else for the same system")
        except Exception as e:
            import traceback
            if "/pypose/" in traceback.format_exc():
                ctx.fail(cc, f"crash: {type(e).__name__}: {str(e)[:160]} (result-ownership check)")
            else:
                raise


def check_duck(ctx: Ctx):
    """(13) other argument types.  Accepted on the unchanged tree and therefore held to the law: nn.Parameter operands
    (under no_grad), a tensor subclass, sparse layouts for A and M (cg stream).  Refused loudly on the unchanged tree
    (python lists, sparse b): recorded; if such a call ever returns, the result must satisfy the residual law."""
    g = gen(4242)
    n = 4
    Q = torch.randn(n, n, generator=g, dtype=torch.float64)
    Sm = Q @ Q.T + torch.eye(n, dtype=torch.float64)
    b = torch.randn(n, 1, generator=g, dtype=torch.float64)

    class Sub(torch.Tensor):
        pass
    for name, mk in (("PINV", lambda: make_solver("PINV")), ("LSTSQ", lambda: make_solver("LSTSQ")),
                     ("Cholesky", lambda: S().Cholesky()), ("CG", lambda: S().CG())):
        for how in ("list", "sparse-b", "subclass", "parameter"):
            case = {"kind": "duck", "solver": name, "how": how}
            ctx.note_case(("duck", name, how), True)
            try:
                if how == "list":
                    x = mk()(Sm.tolist(), b.tolist())
                elif how == "sparse-b":
                    x = mk()(Sm, b.to_sparse_coo())
                elif how == "subclass":
                    x = mk()(Sm.clone().as_subclass(Sub), b.clone().as_subclass(Sub))
                else:
                    with torch.no_grad():
                        x = mk()(torch.nn.Parameter(Sm.clone()), torch.nn.Parameter(b.clone()))
            except BaseException:
                ctx.count(f"duck.{how}.raises")
                if how in ("subclass", "parameter"):
                    ctx.fail(case, f"raises: {name} raised on a {how} operand (a Tensor)")
                continue
            ctx.count(f"duck.{how}.returns")
            xd = x.to_dense() if isinstance(x, torch.Tensor) and x.layout != torch.strided else x
            if not isinstance(xd, torch.Tensor) or tuple(xd.shape) != (n, 1) or \
                    not (float((Sm @ xd.detach().double().as_subclass(torch.Tensor) - b).norm()) <= 1e-4 * float(b.norm())):
                ctx.fail(case, f"duck-type: {name} accepted a {how} operand and returned something that does not solve the system")


def run_interleave(ctx: Ctx, alive=True):
    """(17) module-level state: small cases of ALL streams (solver classes, sparse products, dtypes, layouts) shuffled
    into one sequence and executed one at a time, then once more in reverse order"""
    rng = ctx.rng
    C = corner_cases()
    pool = ([("ls", c) for c in rng.sample(C["ls"], 4)] + [("chol", c) for c in rng.sample(C["chol"], 4)] +
            [("cg", c) for c in rng.sample(C["cg"], 4)] + ([("sparse", c) for c in rng.sample(C["sparse"], 4)] if alive else []) +
            [("ls", c) for c in gen_ls_cases(ctx, 2) if not c.get("malformed")] + [("chol", c) for c in gen_chol_cases(ctx, 2)] +
            [("cg", c) for c in gen_cg_cases(ctx, 2)])
    rng.shuffle(pool)
    for kind, c in pool + pool[::-1]:
        c = {k_: v_ for k_, v_ in c.items() if not k_.startswith("_")}
        ctx.count("interleave.calls")
        {"ls": run_ls, "chol": run_chol_cases, "cg": run_cg, "sparse": run_sparse}[kind](ctx, [c])


def failing_call(ctx, hp, k, base, name, sol, c, kind, attrs, before):
    """(11) a call that raises in the middle of a history (non-PD matrix, non-finite entry, arguments that do not fit):
    the caller catches the exception and goes on — the object's attributes and the caller's tensors must be as before
    and the following calls are judged like those of a history without the failed call"""
    g = gen(c.get("seed", c.get("items", [{}])[0].get("seed", 1)) + 17)
    dt = tdt(c["dtype"])
    try:
        if base == "CG":
            A, b, x0, M = cg_build({**c, "tol": None, "maxiter": None})
            n = c["n"]
            x0 = torch.randn(n, 1, generator=g, dtype=torch.float64).to(dt) if x0 is None else x0
            if kind == "Mshape":
                M = torch.eye(n + 1, dtype=dt)
            elif kind == "dtype":
                b = b.to(torch.float32 if dt == torch.float64 else torch.float64)
            else:
                b = torch.cat([b, b[:1]])
            args = [A, b, x0, M]
        else:
            n = c["n"]
            m = c.get("m", n)
            A = torch.randn(m, n, generator=g, dtype=torch.float64).to(dt)
            if base == "Cholesky":
                A = (-(A @ A.T) - torch.eye(n, dtype=dt)) if kind == "npd" else (A @ A.T + torch.eye(n, dtype=dt))
            b = torch.randn(m, 1, generator=g, dtype=torch.float64).to(dt)
            if kind == "inf":
                A[0, 0] = float("inf")
            elif kind == "dtype":
                b = b.to(torch.float32 if dt == torch.float64 else torch.float64)
            elif kind != "npd":
                b = torch.cat([b, b[:1]])
            args = [A, b]
    except Exception:
        return
    snaps = [None if t is None else t.clone() for t in args]
    ctx.count(f"history.fail.{kind}")
    try:
        sol(*args)
        ctx.count("history.fail.returned")
    except BaseException:
        pass
    for t, s0 in zip(args, snaps):
        if t is not None and not torch.equal(torch.nan_to_num(t, posinf=1e300), torch.nan_to_num(s0, posinf=1e300)):
            ctx.fail({**hp, "call": k}, f"history-atomic: a {base} call that raised (kind {kind}) changed one of the caller's tensors")
            break
    after = {a: getattr(sol, a, None) for a in attrs}
    if any(not (after[a] is before[a] or after[a] == before[a]) for a in attrs):
        ctx.fail({**hp, "call": k}, f"history-atomic: a {base} call that raised (kind {kind}) changed the solver object: {before} -> {after}")


def run_history(ctx: Ctx, hists):
    """every history: ONE solver object, the calls in order; after every call the stream's own oracles and model
    correspondence (the model of call k is a fresh model call: theorem cg_history_stateless) and the solver's public
    attributes must be what the constructor set."""
    for h in hists:
        hp = {k: v for k, v in h.items() if k != "call"}
        name = h["solver"]
        base = name.split(":")[0]
        sol = history_solver(h)
        attrs = SOLVER_ATTRS[base]
        before = {a: getattr(sol, a, None) for a in attrs}
        ctx.note_case(("history", name, h.get("tag"), tuple((c.get("n"), c.get("m"), c.get("dtype")) for c in h["calls"])), len(h["calls"]) >= 2)
        ctx.count(f"history.{base}")
        sizes = [c["n"] if base in ("CG", "Cholesky") else c["m"] for c in h["calls"]]
        ctx.count("history.order." + ("asc" if sizes == sorted(sizes) else "desc" if sizes == sorted(sizes, reverse=True) else "mixed"))
        ctx.sample({"stream": "history", "solver": name, "tag": h.get("tag"), "sizes": sizes}, cap=20)
        bufs = {} if h.get("inplace") else None
        if bufs is not None:
            ctx.count("history.inplace")
        sols = [sol]
        state = {"before": before}

        def make_pre(k, c):
            def pre():
                if h.get("copy_at") == k:
                    # (14) a copy of the object made in the middle of the history, then copy and original are used alternately:
                    # each must follow its own law
                    import copy as _copy, pickle as _pickle
                    how = h.get("copy_how", "deepcopy")
                    try:
                        if how == "deepcopy":
                            s2 = _copy.deepcopy(sol)
                        elif how == "copy":
                            s2 = _copy.copy(sol)
                        elif how == "pickle":
                            s2 = _pickle.loads(_pickle.dumps(sol))
                        else:
                            s2 = history_solver(h)
                            s2.load_state_dict(sol.state_dict())
                        sols.append(s2)
                        ctx.count(f"history.copy.{how}")
                    except Exception as e:
                        ctx.fail({**hp, "call": k}, f"history-copy: {how} of a used {base} solver raised {type(e).__name__}: {str(e)[:80]}")
                if h.get("fail_at") == k:
                    failing_call(ctx, hp, k, base, name, sols[k % len(sols)], c, h.get("fail_kind", "bshape"), attrs, state["before"])
            return pre

        def make_post(k):
            def post():
                cur = sols[k % len(sols)]
                after = {a: getattr(cur, a, None) for a in attrs}
                bf = state["before"]
                changed = [a for a in attrs if not (after[a] is bf[a] or after[a] == bf[a])]
                if changed:
                    a = changed[0]
                    ctx.fail({**hp, "call": k}, f"history-state: {base}.forward changed the solver object's attribute `{a}` from "
                                                f"{bf[a]!r} to {after[a]!r} (call {k} of {len(h['calls'])}, sizes {sizes}): later calls "
                                                f"on the same object no longer behave like a fresh solver")
                    state["before"] = after
            return post

        calls = []
        for k, c in enumerate(h["calls"]):
            c = dict(c)
            c.pop("fail", None)
            c["_solf"] = (lambda k=k: sols[k % len(sols)])
            c["_pre"], c["_post"] = make_pre(k, dict(c)), make_post(k)
            c["_report"], c["_call"] = hp, k
            if bufs is not None:
                c["_buf"] = bufs
            if base == "CG":
                c["tol"], c["maxiter"] = h.get("tol"), h.get("maxiter")
            elif base == "Cholesky":
                c["upper"] = h["upper"]
            else:
                c["solver"] = name
            calls.append(c)
        runner = run_cg if base == "CG" else run_chol_cases if base == "Cholesky" else run_ls
        runner(ctx, calls)           # implementation calls in order; model / certificate lines in one driver batch


# ============================================================================================ generation

def pick_dim(rng, hi=40):
    c = rng.random()
    if hi >= 40 and c > 0.985:      # beyond the documented 1..40: the property says "every"
        return rng.choice([41, 48, 57, 64])
    if c < 0.25:
        return rng.choice([1, 2, 3])
    if c < 0.33:
        return rng.choice([p_ for p_ in (3, 5, 7, 11, 13, 17, 31, 37) if p_ <= hi])
    if c < 0.7:
        return rng.randint(1, 12)
    return rng.randint(13, hi)


def pick_batch(rng, dims=()):
    """batch shapes incl. the special sizes: 1, 3 in either position, primes, and sizes equal to a matrix dimension"""
    special = [[d] for d in dims if 1 <= d <= 6]
    return rng.choice([[], [], [], [1], [3], [2, 2], [3, 1], [1, 3], [5], [7]] + special + special)


def gen_ls_cases(ctx: Ctx, count):
    rng = ctx.rng
    cases = []
    for i in range(count):
        dtype = rng.choice(["float64", "float64", "float64", "float32"])
        solver = rng.choice(["PINV", "PINV", "PINV", "LSTSQ", "LSTSQ", "LSTSQ", "LSTSQ:gelsd", "LSTSQ:gelss", "LSTSQ:gelsy", "LSTSQ:gels",
                             "PINV:herm", "PINV:rtol", "PINV:atol", "PINV:rtol1", "PINV:atol1", "PINV:both", "PINV:herm+rtol",
                             "PINV:pos", "LSTSQ:rcond", "LSTSQ:rcond1", "LSTSQ:pos", "PINV:negatol", "PINV:negrtol", "PINV:zero",
                             "LSTSQ:negrcond", "LSTSQ:zerorcond"])
        big = rng.random() < (0.15 if ctx.quick else 0.3)
        m = pick_dim(rng, 40 if big else 14)
        n = pick_dim(rng, 40 if big else 14)
        if solver in HERM_CFG:
            n = m
        batch = pick_batch(rng, (m, n))
        nb = math.prod(batch) if batch else 1
        items = []
        for _ in range(nb):
            c = rng.random()
            cmax = 8 if dtype == "float64" else 3
            if solver in HERM_CFG:
                it = {"kind": "float", "cexp": rng.choice([0, 1, 2, 4, 6, cmax][:4 if dtype == "float32" else 6]), "sym": True}
            elif solver in FULLRANK_CFG:      # full-rank driver / zero cut-off: full-rank systems only
                it = {"kind": "float", "cexp": rng.choice([0, 1, 2, 3] + ([5, 6] if dtype == "float64" else []))}
            elif solver.startswith("LSTSQ") and m < n and rng.random() < 0.5:
                it = {"kind": "float", "cexp": rng.choice([0, 1, 3, cmax])}
            elif c < 0.4:
                it = {"kind": "float", "cexp": rng.choice([0, 1, 2, 3] + ([4, 5, 6, 7, 8] if dtype == "float64" else [])),
                      "ascale": rng.choice([0, 0, -20, 20] + ([-100, 100] if dtype == "float64" else []))}
            elif c < 0.55:
                it = {"kind": "int", "r": min(m, n), "cexp2": rng.choice([0, 0, 4, 12] if dtype == "float64" else [0, 2])}
            else:
                r = rng.choice([0, 1, max(min(m, n) - 1, 0), rng.randint(0, min(m, n))])
                it = {"kind": "int", "r": r, "cexp2": rng.choice([0, 0, 4, 10, 20] if dtype == "float64" else [0, 2])}
            if solver in TRUNC_CUT and rng.random() < 0.6:
                # spacing classes: singular values just below / just above / clearly beside the solver's cut-off, either sign
                rel = TRUNC_CUT[solver](1.0)
                d1, d2 = rng.choice([1e-3, 3e-2, 0.3]), rng.choice([1e-3, 3e-2, 0.3])
                svs = [1.0, rng.choice([0.9, 0.7]), rel * (1 + d1), rel * (1 - d2), rel * rng.choice([0.5, 0.1])]
                rng.shuffle(svs)
                it = {"kind": "float", "cexp": 0, "ascale": 0, "svs": sorted(svs, reverse=True)}
                if solver in HERM_CFG:
                    it["sym"] = True
            it["b"] = rng.choice(["generic", "generic", "consistent", "zero", "negative", "sumzero"])
            it["bscale"] = rng.choice([0, 0, 0, -30, 30] + ([-100, 100] if dtype == "float64" else []))
            it["seed"] = rng.randrange(1 << 30)
            items.append(it)
        if solver in ("PINV", "LSTSQ", "LSTSQ:gelsd", "LSTSQ:gelss", "LSTSQ:gelsy", "LSTSQ:gels") and rng.random() < 0.3:
            st_ = rng.choice(["sym", "symrel", "symrel", "tril", "triu", "diag", "stencil", "lowrank", "zero"])
            dex = rng.choice([3, 4, 5, 6, 7, 8] + ([9, 10, 12, 14] if st_ not in ("lowrank",) else [])) if dtype == "float64" \
                else rng.choice([2, 3, 4, 5])
            if st_ != "lowrank":
                n = m
            for it in items:
                it.clear()
                it.update({"kind": "float", "cexp": rng.choice([0, 1, 2]), "ascale": rng.choice([0, 0, -20, 20]),
                           "near": {"struct": st_, "dexp": dex}, "b": rng.choice(["generic", "generic", "consistent"]), "bscale": 0,
                           "seed": rng.randrange(1 << 30)})
        elif nb >= 3 and solver not in HERM_CFG and solver not in FULLRANK_CFG and rng.random() < 0.35:
            # mixed-regime batch: zero matrix, worst conditioning + extreme scale, rank-deficient graded, ordinary — side by side
            cmax = 8 if dtype == "float64" else 3
            items[0].update({"kind": "int", "r": 0, "cexp2": 0})
            items[1].update({"kind": "float", "cexp": cmax, "ascale": 100 if dtype == "float64" else 20})
            items[2].update({"kind": "int", "r": max(min(m, n) - 1, 0), "cexp2": 20 if dtype == "float64" else 2})
            items[1]["bscale"] = -30
        cases.append({"kind": "ls", "solver": solver, "dtype": dtype, "batch": batch, "m": m, "n": n, "items": items,
                      "grad": rng.choice(GRAD_MODES), "defdt": rng.choice([None, None, None, "float64", "float32"]), "defdt": rng.choice([None, None, None, "float64", "float32"]),
                      "view": rng.choice(["plain", "plain", "T", "slice", "strided"]), "viewb": rng.choice(["plain", "plain", "T", "slice", "strided"])})
        if nb > 1 and rng.random() < 0.2:
            cases[-1]["expand"] = rng.choice(["A", "b"])
        elif rng.random() < 0.06:
            cases[-1]["alias"] = True
        # non-finite entries: only LSTSQ.forward promises a loud failure (its NaN assertion); PINV/pinv has no such
        # clause and matrices with infinite entries are outside the property's quantifier (see notes/C10.md)
        if rng.random() < 0.12 and solver in ("LSTSQ", "LSTSQ:gelsd", "LSTSQ:gelss", "LSTSQ:gelsy"):
            cases[-1]["malformed"] = rng.choice(["inf", "inf", "-inf"])
            for it in items:
                it.update({"kind": "float", "cexp": 0, "ascale": 0, "b": "generic", "bscale": 0})
                it.pop("sym", None)
    # (pass 9) square systems at and beyond n = 32, rank deficient / nearly so without exact zero pivots, Gauss-Newton Jacobians of
    # under-determined so3 / se3 alignments; default solvers; single systems and small batches
    for i in range(max(count // 40, 3)):
        dtype = rng.choice(["float64", "float64", "float32"])
        solver = rng.choice(["PINV", "PINV", "PINV", "LSTSQ", "LSTSQ:gelsd"])
        if rng.random() < 0.3 and solver == "PINV":
            group = rng.choice(["so3", "se3"])
            N_ = rng.choice([10, 11, 12, 13, 16, 20] if group == "so3" else [5, 6, 7, 8, 10])
            n = (3 if group == "so3" else 6) * N_
            items = [{"kind": "lie", "group": group, "N": N_, "mix": rng.random() < 0.4, "b": rng.choice(["generic", "consistent"]),
                      "seed": rng.randrange(1 << 30)}]
        else:
            n = rng.choice([31, 32, 32, 33, 34, 40, 48, 64] + ([] if ctx.quick else [100]))
            nb = 1 if n > 40 or rng.random() < 0.7 else 2
            items = []
            for _ in range(nb):
                how = rng.choice(["zeros", "zeros", "smin", "full"])
                items.append({"kind": "orth", "zeros": rng.choice([1, 1, 2, n // 3, n - 1]) if how == "zeros" else 0,
                              "smin": (10.0 ** -rng.choice([9, 11, 13])) if how == "smin" and dtype == "float64" else None,
                              "cexp": rng.choice([0, 1, 2]), "ascale": rng.choice([0, 0, -20, 20]),
                              "b": rng.choice(["generic", "generic", "consistent", "zero"]), "seed": rng.randrange(1 << 30)})
        cases.append({"kind": "ls", "solver": solver, "dtype": dtype, "batch": [len(items)] if len(items) > 1 else [], "m": n, "n": n,
                      "items": items, "grad": rng.choice(["plain", "plain", "nograd"]), "view": rng.choice(["plain", "plain", "T"]),
                      "viewb": "plain"})
    return cases


def run_ls(ctx: Ctx, cases):
    lines = []
    for case in cases:
        if case.get("malformed"):
            check_ls_malformed(ctx, case)
            ctx.note_case(("ls.malformed", case["solver"], case["dtype"], case["m"], case["n"], case["malformed"]), True)
            continue
        guarded(ctx, case, check_ls, lines)
        m, n = case["m"], case["n"]
        kinds = tuple(sorted({(it["kind"], it.get("r", -1) if it["kind"] == "int" else
                               f"{it.get('zeros')}/{it.get('smin')}/{it.get('group')}/{it.get('N')}/{it.get('mix')}" if it["kind"] in ("orth", "lie")
                               else it.get("cexp", -1), it["b"]) for it in case["items"]}))
        ctx.note_case(("ls", case["solver"], case["dtype"], len(case["batch"]), m, n, kinds), m >= 2 or n >= 2)
        ctx.count(f"ls.{case['solver']}.{case['dtype']}")
        ctx.count("ls.shape." + ("tall" if m > n else "wide" if m < n else "square"))
        for it in case["items"]:
            if it["kind"] in ("orth", "lie"):
                ctx.count("ls.rank." + it["kind"] + ("" if it.get("zeros") or it["kind"] == "lie" else ".full"))
                continue
            ctx.count("ls.rank." + ("diag" if it["kind"] == "diag" else "full" if it["kind"] == "float" or it["r"] == min(m, n)
                                    else ("zero" if it["r"] == 0 else "deficient")))
        ctx.sample({"stream": "ls", "solver": case["solver"], "dtype": case["dtype"], "batch": case["batch"], "m": m, "n": n,
                    "item0": case["items"][0]}, cap=12)
    reps = ctx.driver.run([l[3] for l in lines])
    for (case, rec, what, _), rep in zip(lines, reps):
        judge_ls(ctx, case, rec, what, rep)
    for case in cases:
        case.pop("_recs", None)
        case.pop("_wrap_bad", None)


def gen_chol_cases(ctx: Ctx, count):
    rng = ctx.rng
    cases = []
    good = ["spd", "spd", "spd", "intspd", "neardiag"]
    bad = ["indef", "indef", "singular", "negdef", "zero", "badlast", "badfirst", "badmid"]
    for i in range(count):
        dtype = rng.choice(["float64", "float64", "float32"])
        n = pick_dim(rng, 40 if rng.random() < 0.2 else 14)
        batch = pick_batch(rng, (n,))
        nb = math.prod(batch) if batch else 1
        mode = rng.choice(["good", "good", "bad", "onebad"])
        items = []
        for k in range(nb):
            kind = rng.choice(good) if mode == "good" or (mode == "onebad") else rng.choice(bad)
            items.append(kind)
        if mode == "onebad":
            items[rng.randrange(nb)] = rng.choice(bad)
        its = []
        nrhs = rng.choice([1, 1, 2, n if n <= 6 else 3])
        for kind in items:
            it = {"kind": kind, "seed": rng.randrange(1 << 30), "nrhs": nrhs}
            if kind in ("spd", "indef", "negdef"):
                it["cexp"] = rng.choice([0, 1, 2, 3] + ([4, 6, 8] if dtype == "float64" else []))
                it["dscale"] = rng.choice([0, 0, 8])
                it["scale"] = rng.choice([0, 0, 0] + ([-100, 100, 30] if dtype == "float64" else [-20, 20]))
            if kind == "indef":
                it["j"] = rng.randrange(64)
                it["nexp"] = rng.choice([0, 1, 3] + ([6, 9] if dtype == "float64" else []))
            if kind == "badmid":
                it["j"] = rng.randrange(64)
            if kind == "neardiag":
                it["cexp"] = rng.choice([0, 1, 2])
                it["dexp"] = rng.choice([1, 3, 5, 6, 8, 12] if dtype == "float64" else [1, 2, 3, 5])
            if kind in ("badlast", "badfirst", "badmid"):
                it["by"] = rng.choice([1, 1, 5])
            its.append(it)
        if nb >= 3 and mode in ("good", "onebad") and rng.random() < 0.5:
            # mixed-regime batch: best / worst conditioning, extreme scales, integer data side by side
            for it, (ce, sc) in zip([t for t in its if t["kind"] == "spd"], [(0, -100), (8, 100), (3, 0), (6, 30)]):
                it["cexp"] = min(ce, 8 if dtype == "float64" else 3)
                it["scale"] = sc if dtype == "float64" else max(min(sc, 20), -20)
        cases.append({"kind": "chol", "upper": rng.random() < 0.5, "dtype": dtype, "batch": batch, "n": n, "items": its,
                      "grad": rng.choice(GRAD_MODES), "defdt": rng.choice([None, None, None, "float64", "float32"]), "defdt": rng.choice([None, None, None, "float64", "float32"]),
                      "view": rng.choice(["plain", "plain", "T", "slice", "strided"]), "viewb": rng.choice(["plain", "plain", "T", "slice", "strided"])})
        if nb > 1 and rng.random() < 0.2:
            cases[-1]["expand"] = rng.choice(["A", "b"])
        elif rng.random() < 0.06 and n >= nrhs:
            cases[-1]["alias"] = True
    return cases


def gen_cg_cases(ctx: Ctx, count):
    rng = ctx.rng
    cases = []
    for i in range(count):
        c = rng.random()
        if c < 0.45:   # eligible for the model: small / few passes
            n = rng.randint(1, 8)
            cexp = rng.choice([0, 1, 1])
            maxiter = rng.choice([None, None, None, 0, 1, 2, 3, 10 * n])
            dtype = "float64"
            tol = rng.choice([None, None, 1e-3, 1e-2, 1e-7])
            Mk = rng.choice(["none", "none", "jacobi", "identity", "scaled"])
        elif c < 0.6:
            n = rng.randint(2, 40)
            cexp = rng.choice([1, 2])
            maxiter = rng.choice([1, 2, 3, 5])
            dtype = "float64"
            tol = None
            Mk = rng.choice(["none", "jacobi"])
        else:
            n = pick_dim(rng, 40)
            cexp = rng.choice([0, 1, 2, 3, 3])
            maxiter = None
            dtype = rng.choice(["float64", "float64", "float64", "float32"])
            if dtype == "float32":
                cexp = min(cexp, 1)
            tol = rng.choice([None, None, None, 1e-3, 1e-8]) if dtype == "float64" else rng.choice([1e-3, 1e-2])
            Mk = rng.choice(["none", "none", "jacobi", "approx", "identity", "scaled"])
        layouts = ["dense", "dense", "csr", "coo"] + [f"bsr:{k}" for k in (1, 2, 3, 4) if n % k == 0]
        cases.append({
            "kind": "cg", "n": n, "dtype": dtype, "layout": rng.choice(layouts),
            "spec": rng.choice(["log", "cluster", "outlier", "uniform", "lap", "neardiag:%d" % rng.choice([1, 3, 6, 9, 12])]), "cexp": cexp,
            "ascale": rng.choice([0, 0, 0, -30, 30, 10] + ([-100, 100] if dtype == "float64" else [])),
            "bscale": rng.choice([0, 0, -30, 30, -10, 17] + ([-100, 100] if dtype == "float64" else [])),
            "b": rng.choice(["generic"] * 6 + ["zero", "e0", "negative", "sumzero"]),
            "x0": rng.choice(["none", "none", "none", "zeros", "random", "partial", "last", "far", "exact", "near+", "near-",
                              "negative", "sumzero"]),
            "eta": rng.choice([1e-3, 3e-2, 0.3]), "style": rng.choice(["pos", "pos", "kw", "kwonly", "mixed"]),
            "grad": rng.choice(GRAD_MODES), "defdt": rng.choice([None, None, None, "float64", "float32"]),
            "M": Mk, "Mlayout": rng.choice(["dense", "dense", "csr", "coo"]),
            "tol": tol, "maxiter": maxiter, "bshape": rng.choice(["col", "col", "vec"]),
            "view": rng.choice(["plain", "plain", "T", "slice", "strided"]), "viewb": rng.choice(["plain", "plain", "T", "slice", "strided"]),
            "seed": rng.randrange(1 << 30)})
        if cases[-1]["bshape"] == "vec" and cases[-1]["x0"] != "none":
            cases[-1]["bshape"] = "col"   # a 1-D b with an initial guess is outside the documented call shapes
    return cases


def run_cg(ctx: Ctx, cases):
    lines, metas = [], []
    for case in cases:
        x, K = guarded(ctx, case, check_cg) or (None, None)
        ctx.note_case(("cg", case["n"], case["dtype"], case["layout"], case["spec"], case["cexp"], case["ascale"], case["bscale"],
                       case["b"], case["x0"], case["M"], case["Mlayout"], case["tol"], case["maxiter"], case["bshape"]),
                      case["n"] >= 2 and case["b"] != "zero")
        ctx.count(f"cg.layout.{case['layout'].split(':')[0]}")
        ctx.count(f"cg.x0.{case['x0']}")
        ctx.count(f"cg.M.{case['M']}")
        ctx.count(f"cg.cond.1e{case['cexp']}")
        if K is not None:
            ctx.count("cg.passes." + ("0" if K == 0 else "<=n" if K <= case["n"] else "<=2n" if K <= 2 * case["n"] else ">2n"))
        ctx.sample({"stream": "cg", **pub(case), "passes": K}, cap=14)
        if x is not None and cg_eligible(case):
            a, b = cg_model_lines(case)
            lines += [a, b]
            metas.append((case, x, K))
    reps = ctx.driver.run(lines)
    for i, (case, x, K) in enumerate(metas):
        judge_cg_model(ctx, case, x, K, reps[2 * i], reps[2 * i + 1])


def gen_sparse_cases(ctx: Ctx, count):
    rng = ctx.rng
    pats = ["random"] * 6 + ["empty", "full", "diag", "lastcol", "firstcol", "lastrow", "firstrow", "single"]
    cases = []
    for i in range(count):
        cases.append({
            "kind": "sparse", "api": rng.choice(["bsr_bsc_matmul", "_sparse_csr_mm"]),
            "sm": rng.randint(1, 6), "sn": rng.randint(1, 6), "sp": rng.randint(1, 6),
            "dm": rng.randint(1, 4), "dn": rng.randint(1, 4), "dp": rng.randint(1, 4),
            "vscale": rng.choice([0, 0, 0, -40, 40, -100]), "vscale2": rng.choice([0, 0, 0, -40, 40, 100]),
            "pa": rng.choice(pats), "pb": rng.choice(pats),
            "da": rng.choice([0.0, 0.1, 0.3, 0.5, 0.8, 1.0]), "db": rng.choice([0.0, 0.1, 0.3, 0.5, 0.8, 1.0]),
            "disjoint": rng.random() < 0.08, "zeroval": rng.random() < 0.1, "stale": rng.random() < 0.25,
            "style": rng.choice(["pos", "pos", "kw"]), "defdt": rng.choice([None, None, "float64"]),
            "data": rng.choice(["int", "int", "float"]), "dtype": rng.choice(["float64", "float32"]),
            "seed": rng.randrange(1 << 30)})
        if rng.random() < 0.06:      # beyond the documented block sizes 1..4 / small grids
            cases[-1].update({"sm": rng.randint(7, 12), "sn": rng.randint(7, 12), "sp": rng.randint(1, 12)} if rng.random() < 0.5
                             else {"dm": rng.randint(5, 8), "dn": rng.randint(5, 8), "dp": rng.randint(5, 8)})
        if rng.random() < 0.3:       # (45) one block row / block column in other units
            cases[-1]["ill"] = {"mag": rng.choice(list(ILL_MAGS)), "where": rng.choice(ILL_WHERE), "pow2": rng.random() < 0.3}
            cases[-1].update({"vscale": 0, "vscale2": 0, "zeroval": False})
            if rng.random() < 0.6:
                cases[-1].update({"sm": max(cases[-1]["sm"], 2), "sp": max(cases[-1]["sp"], 2),
                                  "da": rng.choice([0.5, 0.8, 1.0]), "db": rng.choice([0.5, 0.8, 1.0]), "pa": "random", "pb": "random"})
        if cases[-1]["dtype"] == "float32":
            cases[-1]["vscale"] = max(min(cases[-1]["vscale"], 40), -40)
            cases[-1]["vscale2"] = max(min(cases[-1]["vscale2"], 40), -40)
            if cases[-1]["vscale"] == cases[-1]["vscale2"] != 0:
                cases[-1]["vscale2"] = 0          # keep products inside the float32 range
        if rng.random() < 0.05:
            cases[-1]["malformed"] = rng.choice(["blk", "dim"])
            cases[-1]["dn2"] = rng.choice([1, 4])
            cases[-1]["da"] = rng.choice([0.0, 0.3, 1.0])
            cases[-1]["db"] = rng.choice([0.0, 0.3, 1.0])
    return cases


def sparse_canary(ctx: Ctx, cases) -> bool:
    """The index arithmetic of `bsr_bsc_matmul` feeds torch's unchecked sparse constructors: a wrong index can corrupt
    the heap and kill the interpreter, which no in-process check survives.  The implementation side of the sparse
    cases is therefore first executed in a child interpreter; if the child dies, the case it was working on is the
    failing input.  Returns True when the child survived."""
    import json, os, subprocess, sys, tempfile
    fd, path = tempfile.mkstemp(prefix="c10_canary_", suffix=".json")
    os.close(fd)
    try:
        with open(path, "w") as f:
            json.dump({"cases": cases}, f)
        try:
            p = subprocess.run([sys.executable, "-m", "harness.c10", "canary", path], cwd=str(common.VERIF),
                               capture_output=True, text=True, timeout=900)
        except subprocess.TimeoutExpired:
            raise common.InfraError("sparse canary timed out")
        if p.returncode == 0:
            return True
        if p.returncode == 4:
            ctx.fail({"kind": "import", "module": "pypose.sparse.ops"},
                     "sparse-import: pypose.sparse.ops cannot be loaded: " + (p.stderr.strip().splitlines() or [""])[-1][:200])
            return False
        try:
            idx = int(open(path + ".progress").read().strip() or "-1")
        except Exception:
            idx = -1
        if idx < 0 or idx >= len(cases) or p.returncode == 3:
            raise common.InfraError(f"sparse canary failed before the first case (rc={p.returncode}): {p.stderr[-400:]}")
        case = cases[idx]
        ctx.fail(dict(case), f"sparse-crash: the interpreter died (exit status {p.returncode}) inside {case['api']} on a valid BSR x BSC "
                             f"pair (grid {case['sm']}x{case['sn']}x{case['sp']}, blocks {case['dm']}x{case['dn']}x{case['dp']}, "
                             f"patterns {case['pa']}/{case['pb']}): {p.stderr.strip().splitlines()[-1][:120] if p.stderr.strip() else ''}")
        return False
    finally:
        for q in (path, path + ".progress"):
            try:
                os.remove(q)
            except OSError:
                pass


def canary_main(path):
    """child side of `sparse_canary`"""
    import json, sys, warnings
    warnings.filterwarnings("ignore")
    torch.set_num_threads(1)
    try:
        sys.path.insert(0, str(common.REPO))
        cases = json.load(open(path))["cases"]
    except Exception as e:  # cannot even start: infrastructure
        print(f"canary setup failed: {e}", file=sys.stderr)
        sys.exit(3)
    try:
        O()
    except BaseException as e:  # the implementation module itself does not load (e.g. TorchScript compile error)
        print(f"{type(e).__name__}: {str(e)[:300]}".replace("\n", " "), file=sys.stderr)
        sys.exit(4)
    ctx = Ctx("C10", "quick", 0)
    with open(path + ".progress", "w") as prog:
        for i, case in enumerate(cases):
            prog.seek(0); prog.write(f"{i}      "); prog.flush()
            if case.get("malformed"):
                check_sparse_malformed(ctx, case)
            else:
                check_sparse(ctx, case, None)
    sys.exit(0)


def run_sparse(ctx: Ctx, cases):
    lines = []
    for case in cases:
        if case.get("malformed"):
            check_sparse_malformed(ctx, case)
            ctx.note_case(("sparse.malformed", case["api"], case["malformed"], case.get("dn2"), case["da"], case["db"]), True)
            if "_guard" in case:      # the model's argument checks (bsrBscGuard) decide accept / reject the same way
                rep = ctx.driver.run([case.pop("_guard")])[0]
                oc = case.pop("_outcome", None)
                if (common.parse_reply(rep)[0] == "ok") != (oc == "returns"):
                    ctx.disagree("sparse.guard", pub(case), f"model guard says {rep}, implementation {oc}")
            continue
        guarded(ctx, case, check_sparse, lines)
        PA, PB, _, _ = sparse_build(case)
        ctx.note_case(("sparse", case["api"], case["sm"], case["sn"], case["sp"], case["dm"], case["dn"], case["dp"], case["pa"], case["pb"],
                       case["da"], case["db"], case["data"], case["dtype"],
                       (case["ill"]["mag"], case["ill"]["where"]) if case.get("ill") else None), bool(PA.any()) and bool(PB.any()))
        if case.get("ill"):
            ctx.count("sparse.ill." + case["ill"]["where"])
            ctx.count("sparse.ill.mag." + case["ill"]["mag"])
        ctx.count(f"sparse.block.{case['dm']}x{case['dn']}x{case['dp']}" if case["dm"] == case["dn"] == case["dp"] else "sparse.block.mixed")
        ctx.count("sparse.nnz." + ("emptyA" if not PA.any() else "emptyB" if not PB.any() else "both"))
        ctx.sample({"stream": "sparse", **case}, cap=16)
    reps = ctx.driver.run([l[2] for l in lines])
    for (cc, y, _), rep in zip(lines, reps):
        judge_sparse_model(ctx, cc, y, rep)


def run_dispatch(ctx: Ctx, skip_merge_join=False):
    rng = ctx.rng
    pairs = [(a, b) for a in LAYOUTS for b in LAYOUTS if not (skip_merge_join and (a, b) == ("bsr", "bsc"))]
    reps = ctx.driver.run([f"c10.dispatch {a} {b}" for a, b in pairs])
    for (a, b), rep in zip(pairs, reps):
        st, toks = common.parse_reply(rep)
        if st != "ok":
            raise common.InfraError(rep)
        for _ in range(ctx.pick(2, 6)):
            case = {"kind": "dispatch", "l1": a, "l2": b, "bs": rng.choice([1, 2, 3]), "gm": rng.randint(1, 3), "gn": rng.randint(1, 3),
                    "gp": rng.randint(1, 3), "dens": rng.choice([0.0, 0.3, 0.7, 1.0]), "dtype": rng.choice(["float64", "float32"]),
                    "seed": rng.randrange(1 << 30)}
            if rng.random() < 0.5:
                case["ill"] = {"mag": rng.choice(list(ILL_MAGS)), "where": rng.choice(["rowfirst", "rowlast"])}
                case["gm"] = max(case["gm"], 2)
            guarded(ctx, case, check_dispatch, toks[1])
            ctx.note_case(("dispatch", a, b, case["bs"], case["dens"]), True)


def run(ctx: Ctx):
    torch.set_num_threads(1)   # all systems are <= 40 x 40: threads only add contention on a shared box
    check_shared_defaults(ctx)      # very first: state shared through defaults is frozen by the FIRST call in the process
    check_mode_orders(ctx)          # next: its keys (shapes) must be fresh in the process
    C = corner_cases()
    tL, tC, tG = corner_ties()
    C["ls"] += tL
    C["chol"] += tC
    C["cg"] += tG
    sparse_cases = C["sparse"] + gen_sparse_cases(ctx, ctx.pick(300, 7000))
    alive = sparse_canary(ctx, sparse_cases)
    # deterministic corner corpus first (identical for every seed), then the random streams
    check_empty_batch(ctx)
    check_duck(ctx)
    check_cg_entry(ctx)
    check_subclass(ctx)
    check_complex(ctx)
    check_alias_args(ctx)
    check_repeat_bitwise(ctx)
    check_large(ctx)
    run_chol_cases(ctx, C["chol"])
    run_ls(ctx, C["ls"])
    run_cg(ctx, C["cg"])
    run_history(ctx, corner_histories())
    ctx.count("corner.cases", len(C["chol"]) + len(C["ls"]) + len(C["cg"]) + len(C["sparse"]) + len(corner_histories()))
    run_dispatch(ctx, skip_merge_join=not alive)
    if alive:
        run_sparse(ctx, sparse_cases)
    run_chol_cases(ctx, gen_chol_cases(ctx, ctx.pick(200, 5000)))
    run_ls(ctx, gen_ls_cases(ctx, ctx.pick(200, 5000)))
    run_cg(ctx, gen_cg_cases(ctx, ctx.pick(300, 7000)))
    run_history(ctx, decorate_histories(ctx.rng, gen_history_cases(ctx, ctx.pick(25, 700))))
    own = [c for c in C["ls"][:13] + C["chol"][:17] + C["cg"][:16] if not c.get("malformed")]
    own += [c for c in gen_ls_cases(ctx, ctx.pick(10, 250)) if not c.get("malformed")] + gen_chol_cases(ctx, ctx.pick(10, 250)) + \
        gen_cg_cases(ctx, ctx.pick(10, 250))
    run_ownership(ctx, own)
    run_interleave(ctx, alive)
    ctx.notes.append("largest observed error/tolerance per oracle: " +
                     ", ".join(f"{k}={v:.3g}" for k, v in sorted(STATS.items())))


# ============================================================================================ search / replay

def search(ctx: Ctx):
    """failing-input search on the real code after a broken proof / correspondence: the property's own oracles
    (certificates, residuals, dense product) over fresh, larger samples of the streams whose correspondence broke
    (all streams when a proof obligation broke)."""
    n0 = len(ctx.failures)
    broken = {d["stream"].split(".")[0] for d in ctx.disagreements}
    if not broken or "implementation-crash" in broken:
        broken = {"sparse", "dispatch", "chol", "cg", "ls"}
    for rounds in range(3):
        if broken & {"sparse", "dispatch"}:
            sc = gen_sparse_cases(ctx, 300)
            if sparse_canary(ctx, sc):
                run_sparse(ctx, sc)
        if "chol" in broken and len(ctx.failures) == n0:
            run_chol_cases(ctx, gen_chol_cases(ctx, 200))
        if "cg" in broken and len(ctx.failures) == n0:
            run_cg(ctx, gen_cg_cases(ctx, 300))
        if "ls" in broken and len(ctx.failures) == n0:
            run_ls(ctx, gen_ls_cases(ctx, 200))
        if len(ctx.failures) == n0:
            run_history(ctx, decorate_histories(ctx.rng, gen_history_cases(ctx, 60)))
        if len(ctx.failures) > n0:
            return


def replay(ctx: Ctx, case) -> bool:
    c = {k: v for k, v in dict(case["case"]).items() if k != "item"}
    kind = c.get("kind")
    n0 = len(ctx.failures)
    if kind == "ls":
        run_ls(ctx, [c])
    elif kind == "chol":
        run_chol_cases(ctx, [c])
    elif kind == "cg":
        run_cg(ctx, [c])
    elif kind == "sparse":
        if sparse_canary(ctx, [c]):
            run_sparse(ctx, [c])
    elif kind == "history":
        c.pop("call", None)
        run_history(ctx, [c])
    elif kind == "empty-batch":
        check_empty_batch(ctx)
    elif kind == "duck":
        check_duck(ctx)
    elif kind == "cg-entry":
        check_cg_entry(ctx)
    elif kind == "large":
        check_large(ctx)
    elif kind == "subclass":
        check_subclass(ctx)
    elif kind == "shared-defaults":
        check_shared_defaults(ctx)
    elif kind == "complex":
        check_complex(ctx)
    elif kind == "alias-args":
        check_alias_args(ctx)
    elif kind == "repeat":
        check_repeat_bitwise(ctx)
    elif kind == "mode-order":
        check_mode_orders(ctx)
    elif kind == "import":
        try:
            O()
        except BaseException as e:
            ctx.fail(c, f"sparse-import: pypose.sparse.ops cannot be loaded: {type(e).__name__}")
    elif kind == "dispatch":
        rep = ctx.driver.run([f"c10.dispatch {c['l1']} {c['l2']}"])[0]
        check_dispatch(ctx, c, common.parse_reply(rep)[1][1])
    for f in ctx.failures[n0:]:
        print("  fails:", f["what"])
    for d in ctx.disagreements:
        print("  model/implementation disagreement:", d["stream"], d["detail"])
    return len(ctx.failures) == n0 and not ctx.disagreements


if __name__ == "__main__":
    import sys as _sys
    if len(_sys.argv) == 3 and _sys.argv[1] == "canary":
        canary_main(_sys.argv[2])
