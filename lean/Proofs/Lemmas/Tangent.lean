import Proofs.Lemmas.Quat
import Proofs.Lemmas.So3Exp
import Proofs.Props.C03
import Pose.Model.Tangent
import Mathlib.Tactic.Positivity
import Mathlib.Tactic.NormNum
import Mathlib.Tactic.Linarith
import Mathlib.Tactic.FieldSimp
/-!
# Helper lemmas for C05 (tangent-space identities): conjugation of `Exp`, rotation equivariance of the
`a·1 + b·K + c·K²` matrices, the translation defects of the SE3 / Sim3 adjoint identities, normal forms of the
flat `Adj` outputs, products of `polyK` matrices (for `JlInv·Jl = 1`, `R·Jr = Jl`).
-/
set_option linter.unusedSimpArgs false
set_option linter.unusedTactic false
set_option linter.unreachableTactic false
set_option linter.unnecessarySeqFocus false
namespace PP
open Vec3 Quat Mat3

noncomputable def so3ExpCoef (eps th : ℝ) : ℝ × ℝ :=
  if eps < th then (Real.sin (1 / 2 * th) / th, Real.cos (1 / 2 * th))
  else (1 / 2 - 1 / 48 * (th * th) + 1 / 3840 * (th * th * (th * th)),
        1 - 1 / 8 * (th * th) + 1 / 384 * (th * th * (th * th)))

theorem so3Exp_eq_coef (eps : ℝ) (x : Vec3 ℝ) :
    so3Exp eps x = Quat.mk' (x.smul (so3ExpCoef eps x.norm).1) (so3ExpCoef eps x.norm).2 := by
  unfold so3Exp so3ExpCoef
  by_cases h : eps < x.norm
  · simp only [lt_real, h, decide_true, if_true, sin_real, cos_real, q_real, Nat.cast_one, Nat.cast_ofNat]
  · simp only [lt_real, h, decide_false, q_real, k_real, Nat.cast_one, Nat.cast_ofNat, Bool.false_eq_true, if_false]

theorem SO3Mat_mulVec (X : Quat ℝ) (h : X.normSq = 1) (a : Vec3 ℝ) : (SO3Mat X).mulVec a = X.act a := by
  rw [← SO3matrix_eq_SO3Mat X h, SO3_matrix_mulVec]

theorem Quat.mul_mk'_act (X : Quat ℝ) (h : X.normSq = 1) (a : Vec3 ℝ) (c w : ℝ) :
    X.mul (Quat.mk' (a.smul c) w) = (Quat.mk' ((X.act a).smul c) w).mul X := by
  have h' : X.x * X.x + X.y * X.y + X.z * X.z + X.w * X.w = 1 := h
  rw [Quat.act_unit X h]
  unfold Quat.sandwich
  ext <;> lie_unfold
  · linear_combination (-c * (X.w * a.x + (X.y * a.z - X.z * a.y))) * h'
  · linear_combination (-c * (X.w * a.y + (X.z * a.x - X.x * a.z))) * h'
  · linear_combination (-c * (X.w * a.z + (X.x * a.y - X.y * a.x))) * h'
  · linear_combination (c * (X.x * a.x + X.y * a.y + X.z * a.z)) * h'
theorem Vec3.norm_congr {a b : Vec3 ℝ} (h : a.normSq = b.normSq) : a.norm = b.norm := by
  unfold Vec3.norm; rw [h]

theorem Quat.act_norm (X : Quat ℝ) (h : X.normSq = 1) (a : Vec3 ℝ) : (X.act a).norm = a.norm :=
  Vec3.norm_congr (Quat.act_normSq X h a)

theorem Quat.sandwich_cross (q : Quat ℝ) (u v : Vec3 ℝ) :
    (q.sandwich u).cross (q.sandwich v) = (q.sandwich (u.cross v)).smul q.normSq := by
  unfold Quat.sandwich; ext <;> lie_unfold <;> ring

theorem Quat.act_cross (q : Quat ℝ) (h : q.normSq = 1) (u v : Vec3 ℝ) :
    (q.act u).cross (q.act v) = q.act (u.cross v) := by
  rw [Quat.act_unit q h, Quat.act_unit q h, Quat.act_unit q h, Quat.sandwich_cross, h]
  ext <;> lie_unfold <;> ring

theorem hat_mulVec (x v : Vec3 ℝ) : (Mat3.hat x).mulVec v = x.cross v := by
  ext <;> lie_unfold <;> ring

theorem polyK_mulVec (a b c : ℝ) (x v : Vec3 ℝ) :
    (polyK a b c x).mulVec v = ((v.smul a).add ((x.cross v).smul b)).add ((x.cross (x.cross v)).smul c) := by
  unfold polyK; ext <;> lie_unfold <;> ring

/-- rotation equivariance of `a·1 + b·K + c·K²` -/
theorem polyK_act (q : Quat ℝ) (h : q.normSq = 1) (a b c : ℝ) (x v : Vec3 ℝ) :
    (polyK a b c (q.act x)).mulVec (q.act v) = q.act ((polyK a b c x).mulVec v) := by
  rw [polyK_mulVec, polyK_mulVec, Quat.act_cross q h, Quat.act_cross q h, Quat.act_add, Quat.act_add,
    Quat.act_smul, Quat.act_smul, Quat.act_smul]

theorem cross_cross_cross (y t : Vec3 ℝ) : y.cross (y.cross (y.cross t)) = (y.cross t).smul (-y.normSq) := by
  ext <;> lie_unfold <;> ring

theorem cross_anticomm (a b : Vec3 ℝ) : a.cross b = (b.cross a).neg := by ext <;> lie_unfold <;> ring

/-- `Act` of the quaternion `(s·y, w)` : `t + 2ws (y×t) + 2s² y×(y×t)` -/
theorem act_mk' (y t : Vec3 ℝ) (s w : ℝ) :
    (Quat.mk' (y.smul s) w).act t = (t.add ((y.cross t).smul (2 * w * s))).add ((y.cross (y.cross t)).smul (2 * s * s)) := by
  ext <;> lie_unfold <;> ring

/-- `Adj` of SE3 as an algebra element: `(Rτ + t×Rφ, Rφ)` -/
noncomputable def SE3AdjV (X : SE3 ℝ) (a : se3 ℝ) : se3 ℝ :=
  let R := SO3Mat X.q
  ⟨(R.mulVec a.tau).add (X.t.cross (R.mulVec a.phi)), R.mulVec a.phi⟩
noncomputable def RxSO3AdjV (X : RxSO3 ℝ) (a : rxso3 ℝ) : rxso3 ℝ := ⟨(SO3Mat X.q).mulVec a.phi, a.sigma⟩
noncomputable def Sim3AdjV (X : Sim3 ℝ) (a : sim3 ℝ) : sim3 ℝ :=
  let R := SO3Mat X.q
  ⟨(((R.mulVec a.tau).smul X.s).add (X.t.cross (R.mulVec a.phi))).add (X.t.smul (-a.sigma)), R.mulVec a.phi, a.sigma⟩

macro "dmat_unfold" : tactic =>
  `(tactic| simp only [DMat.block, DMat.vcat, DMat.hcat, DMat.zero, DVec.zero, Mat3.toRows, Vec3.toList, se3.toList,
      rxso3.toList, sim3.toList, DMat.mulVec, DVec.dot, DVec.sum, List.zipWith, List.map, List.foldl, List.replicate,
      List.cons_append, List.nil_append, List.append_nil, List.append_eq])

theorem SE3AdjXa_eq (X : SE3 ℝ) (a : se3 ℝ) : SE3AdjXa X a = (SE3AdjV X a).toList := by
  unfold SE3AdjXa SE3Adj SE3AdjV
  dmat_unfold
  lie_unfold
  simp only [List.cons.injEq, and_true]
  refine ⟨?_, ?_, ?_, ?_, ?_, ?_⟩ <;> ring

theorem RxSO3AdjXa_eq (X : RxSO3 ℝ) (a : rxso3 ℝ) : RxSO3AdjXa X a = (RxSO3AdjV X a).toList := by
  unfold RxSO3AdjXa RxSO3Adj RxSO3AdjV
  dmat_unfold
  lie_unfold
  simp only [List.cons.injEq, and_true]
  refine ⟨?_, ?_, ?_, ?_⟩ <;> ring

theorem Sim3AdjXa_eq (X : Sim3 ℝ) (a : sim3 ℝ) : Sim3AdjXa X a = (Sim3AdjV X a).toList := by
  unfold Sim3AdjXa Sim3Adj Sim3AdjV
  dmat_unfold
  lie_unfold
  simp only [List.cons.injEq, and_true]
  refine ⟨?_, ?_, ?_, ?_, ?_, ?_, ?_⟩ <;> ring

@[simp] theorem se3.ofList_toList (a : se3 ℝ) : se3.ofList a.toList = a := by
  cases a; simp [se3.ofList, se3.toList, vec3At, Vec3.toList]
@[simp] theorem rxso3.ofList_toList (a : rxso3 ℝ) : rxso3.ofList a.toList = a := by
  cases a; simp [rxso3.ofList, rxso3.toList, vec3At, Vec3.toList]
@[simp] theorem sim3.ofList_toList (a : sim3 ℝ) : sim3.ofList a.toList = a := by
  cases a; simp [sim3.ofList, sim3.toList, vec3At, Vec3.toList]
@[simp] theorem so3.ofList_toList (a : Vec3 ℝ) : so3.ofList a.toList = a := by
  cases a; simp [so3.ofList, vec3At, Vec3.toList]

theorem Mat3.mulVec_add (m : Mat3 ℝ) (u v : Vec3 ℝ) : m.mulVec (u.add v) = (m.mulVec u).add (m.mulVec v) := by
  ext <;> lie_unfold <;> ring
theorem Mat3.mulVec_smul (m : Mat3 ℝ) (c : ℝ) (v : Vec3 ℝ) : m.mulVec (v.smul c) = (m.mulVec v).smul c := by
  ext <;> lie_unfold <;> ring

/-- `X·Exp(a) = Exp(R(X) a)·X` on quaternions — both branches of `so3Exp`, every `a`. -/
theorem SO3_conj_exp (eps : ℝ) (X : Quat ℝ) (h : X.normSq = 1) (a : Vec3 ℝ) :
    X.mul (so3Exp eps a) = (so3Exp eps (X.act a)).mul X := by
  rw [so3Exp_eq_coef eps a, so3Exp_eq_coef eps (X.act a), Quat.act_norm X h]
  exact Quat.mul_mk'_act X h a _ _

theorem so3Jl_eq_polyK (eps : ℝ) (x : Vec3 ℝ) :
    so3Jl eps x = polyK 1 (so3JlCoef eps x.norm).1 (so3JlCoef eps x.norm).2 x := by
  unfold so3Jl; simp only [k_real, Nat.cast_one]

theorem so3Jl_act (eps : ℝ) (X : Quat ℝ) (h : X.normSq = 1) (x v : Vec3 ℝ) :
    (so3Jl eps (X.act x)).mulVec (X.act v) = X.act ((so3Jl eps x).mulVec v) := by
  rw [so3Jl_eq_polyK, so3Jl_eq_polyK, Quat.act_norm X h, polyK_act X h]

/-- the translation defect of `Exp(a')·X` against `X·Exp(a)` for SE3, exactly, for arbitrary coefficients -/
theorem se3_residual (y t : Vec3 ℝ) (s w c1 c2 : ℝ) :
    ((polyK 1 c1 c2 y).mulVec (t.cross y)).add ((Quat.mk' (y.smul s) w).act t)
      = (t.add ((y.cross t).smul (2 * w * s - 1 + c2 * y.normSq))).add
          ((y.cross (y.cross t)).smul (2 * s * s - c1)) := by
  unfold polyK; ext <;> lie_unfold <;> ring

theorem sin_eq_half (th : ℝ) : Real.sin th = 2 * Real.sin (1 / 2 * th) * Real.cos (1 / 2 * th) := by
  have := Real.sin_two_mul (1 / 2 * th); rwa [show 2 * (1 / 2 * th) = th by ring] at this
theorem cos_eq_half (th : ℝ) : Real.cos th = 1 - 2 * Real.sin (1 / 2 * th) ^ 2 := by
  have := Real.cos_two_mul (1 / 2 * th); rw [show 2 * (1 / 2 * th) = th by ring] at this
  have h2 := Real.sin_sq_add_cos_sq (1 / 2 * th)
  linarith

/-- closed-form coefficients: `2ws = sinθ/θ = 1 − c₂θ²`, `2s² = (1−cosθ)/θ² = c₁` -/
theorem so3_coef_closed (eps th : ℝ) (h0 : 0 ≤ eps) (h : eps < th) :
    2 * (so3ExpCoef eps th).2 * (so3ExpCoef eps th).1 - 1 + (so3JlCoef eps th).2 * (th * th) = 0 ∧
    2 * (so3ExpCoef eps th).1 * (so3ExpCoef eps th).1 - (so3JlCoef eps th).1 = 0 := by
  have hpos : 0 < th := lt_of_le_of_lt h0 h
  have hne : th ≠ 0 := ne_of_gt hpos
  unfold so3ExpCoef so3JlCoef
  simp only [lt_real, h, decide_true, if_true, sin_real, cos_real, k_real, Nat.cast_one]
  rw [sin_eq_half th, cos_eq_half th]
  constructor <;> field_simp <;> ring

/-- Taylor-branch coefficients: the defects are `n³(n−128)/737280` and `n²(n²−160n+10240)/7372800`, `n = θ²` -/
theorem so3_coef_taylor (eps th : ℝ) (h : ¬ eps < th) :
    2 * (so3ExpCoef eps th).2 * (so3ExpCoef eps th).1 - 1 + (so3JlCoef eps th).2 * (th * th)
        = (th * th) ^ 3 * (th * th - 128) / 737280 ∧
    2 * (so3ExpCoef eps th).1 * (so3ExpCoef eps th).1 - (so3JlCoef eps th).1
        = (th * th) ^ 2 * ((th * th) ^ 2 - 160 * (th * th) + 10240) / 7372800 := by
  unfold so3ExpCoef so3JlCoef
  simp only [lt_real, h, decide_false, if_false, q_real, k_real, Nat.cast_one, Nat.cast_ofNat, Bool.false_eq_true]
  constructor <;> ring

theorem cross_zero_left (t : Vec3 ℝ) : (Vec3.zero : Vec3 ℝ).cross t = Vec3.zero := by ext <;> lie_unfold <;> ring

/-- `Jl(y)(t×y) + Exp(y)·t = t` when `y` is on the closed-form branch or zero -/
theorem se3_defect_zero (eps : ℝ) (h0 : 0 ≤ eps) (y t : Vec3 ℝ) (h : eps < y.norm ∨ y = Vec3.zero) :
    ((so3Jl eps y).mulVec (t.cross y)).add ((so3Exp eps y).act t) = t := by
  rw [so3Jl_eq_polyK, so3Exp_eq_coef, se3_residual, ← Vec3.norm_sq]
  rcases h with h | h
  · obtain ⟨e1, e2⟩ := so3_coef_closed eps y.norm h0 h
    rw [e1, e2]; ext <;> lie_unfold <;> ring
  · subst h; simp only [cross_zero_left]; ext <;> lie_unfold <;> ring


/-! ## Sim3 -/

theorem rxso3Ws_eq_polyK (eps : ℝ) (y : Vec3 ℝ) (σ : ℝ) :
    rxso3Ws eps ⟨y, σ⟩ = polyK (rxso3WsCoef eps y.norm σ).2.2 (rxso3WsCoef eps y.norm σ).1
      (rxso3WsCoef eps y.norm σ).2.1 y := rfl

theorem rxso3Ws_act (eps : ℝ) (X : Quat ℝ) (h : X.normSq = 1) (x v : Vec3 ℝ) (σ : ℝ) :
    (rxso3Ws eps ⟨X.act x, σ⟩).mulVec (X.act v) = X.act ((rxso3Ws eps ⟨x, σ⟩).mulVec v) := by
  rw [rxso3Ws_eq_polyK, rxso3Ws_eq_polyK, Quat.act_norm X h, polyK_act X h]

/-- translation defect of `Exp(Adj X a)·X` against `X·Exp(a)` for Sim3, exactly, for arbitrary coefficients:
`g₀ t + g₁ (y×t) + g₂ y×(y×t)` -/
theorem sim3_residual (y t : Vec3 ℝ) (s w A B C es σ : ℝ) :
    ((polyK C A B y).mulVec ((t.cross y).add (t.smul (-σ)))).add (((Quat.mk' (y.smul s) w).act t).smul es)
      = ((t.add (t.smul (es - σ * C - 1))).add ((y.cross t).smul (2 * es * w * s - C + B * y.normSq - σ * A))).add
          ((y.cross (y.cross t)).smul (2 * es * s * s - A - σ * B)) := by
  unfold polyK; ext <;> lie_unfold <;> ring

/-- the generator identity `W·(σ1+K) = e^σ R − 1` coefficient-wise in regime 4 (`eps<|σ|`, `eps<θ`) -/
theorem ws_coef_regime4 (eps th σ : ℝ) (h0 : 0 ≤ eps) (ht : eps < th) (hs : eps < |σ|) :
    Real.exp σ - σ * (rxso3WsCoef eps th σ).2.2 - 1 = 0 ∧
    2 * Real.exp σ * (so3ExpCoef eps th).2 * (so3ExpCoef eps th).1 - (rxso3WsCoef eps th σ).2.2
        + (rxso3WsCoef eps th σ).2.1 * (th * th) - σ * (rxso3WsCoef eps th σ).1 = 0 ∧
    2 * Real.exp σ * (so3ExpCoef eps th).1 * (so3ExpCoef eps th).1 - (rxso3WsCoef eps th σ).1
        - σ * (rxso3WsCoef eps th σ).2.1 = 0 := by
  have hpos : 0 < th := lt_of_le_of_lt h0 ht
  have hne : th ≠ 0 := ne_of_gt hpos
  have hsne : σ ≠ 0 := by
    intro h; rw [h, abs_zero] at hs; linarith
  have hc : th * th + σ * σ ≠ 0 := by
    have := mul_pos hpos hpos; have := mul_self_nonneg σ; positivity
  simp only [rxso3WsCoef, so3ExpCoef, lt_real, sabs_real, ht, hs, decide_true, Bool.not_true, Bool.false_and,
    Bool.and_false, Bool.and_true, Bool.true_and, if_true, if_false, Bool.false_eq_true, sin_real, cos_real, exp_real,
    k_real, q_real, Nat.cast_one, Nat.cast_ofNat]
  rw [sin_eq_half th, cos_eq_half th]
  refine ⟨?_, ?_, ?_⟩ <;> field_simp <;> ring

/-- regime 2 at `σ = 0` (`eps<θ`): the Rodrigues coefficients -/
theorem ws_coef_regime2 (eps th : ℝ) (h0 : 0 ≤ eps) (ht : eps < th) :
    (rxso3WsCoef eps th 0).2.2 = 1 ∧
    2 * (so3ExpCoef eps th).2 * (so3ExpCoef eps th).1 - 1 + (rxso3WsCoef eps th 0).2.1 * (th * th) = 0 ∧
    2 * (so3ExpCoef eps th).1 * (so3ExpCoef eps th).1 - (rxso3WsCoef eps th 0).1 = 0 := by
  have hpos : 0 < th := lt_of_le_of_lt h0 ht
  have hne : th ≠ 0 := ne_of_gt hpos
  have hs : ¬ eps < |(0 : ℝ)| := by rw [abs_zero]; linarith
  simp only [rxso3WsCoef, so3ExpCoef, lt_real, sabs_real, ht, hs, decide_true, decide_false, Bool.not_true, Bool.not_false,
    Bool.false_and, Bool.and_false, Bool.and_true, Bool.true_and, if_true, if_false, Bool.false_eq_true, sin_real, cos_real,
    exp_real, k_real, q_real, Nat.cast_one, Nat.cast_ofNat]
  rw [sin_eq_half th, cos_eq_half th]
  refine ⟨trivial, ?_, ?_⟩ <;> field_simp <;> ring

/-- the scalar coefficient `C` satisfies `e^σ − σC − 1 = 0` whenever `σ = 0` or `eps < |σ|` (any θ) -/
theorem ws_coef_C (eps th σ : ℝ) (h0 : 0 ≤ eps) (hs : eps < |σ| ∨ σ = 0) :
    Real.exp σ - σ * (rxso3WsCoef eps th σ).2.2 - 1 = 0 := by
  rcases hs with hs | hs
  · have hsne : σ ≠ 0 := by
      intro h; rw [h, abs_zero] at hs; linarith
    simp only [rxso3WsCoef, lt_real, sabs_real, hs, decide_true, if_true, exp_real, k_real, Nat.cast_one]
    by_cases ht : eps < th <;> simp [ht] <;> field_simp <;> ring
  · subst hs
    have hs' : ¬ eps < |(0 : ℝ)| := by rw [abs_zero]; linarith
    simp only [rxso3WsCoef, lt_real, sabs_real, hs', decide_false, exp_real, k_real, Nat.cast_one]
    by_cases ht : eps < th <;> simp [ht]

theorem residual_zero (t y : Vec3 ℝ) (g0 g1 g2 : ℝ) (h0 : g0 = 0) (h1 : g1 = 0) (h2 : g2 = 0) :
    ((t.add (t.smul g0)).add ((y.cross t).smul g1)).add ((y.cross (y.cross t)).smul g2) = t := by
  subst h0 h1 h2; ext <;> lie_unfold <;> ring
theorem residual_zero_y0 (t : Vec3 ℝ) (g0 g1 g2 : ℝ) (h0 : g0 = 0) :
    ((t.add (t.smul g0)).add (((Vec3.zero : Vec3 ℝ).cross t).smul g1)).add
      (((Vec3.zero : Vec3 ℝ).cross ((Vec3.zero : Vec3 ℝ).cross t)).smul g2) = t := by
  subst h0; ext <;> lie_unfold <;> ring

/-- `W(y,σ)(t×y − σt) + e^σ·Exp(y)·t = t` in the regimes where the model's coefficients are closed forms -/
theorem sim3_defect_zero (eps : ℝ) (h0 : 0 ≤ eps) (y t : Vec3 ℝ) (σ : ℝ)
    (hy : eps < y.norm ∨ y = Vec3.zero) (hs : eps < |σ| ∨ σ = 0) :
    ((rxso3Ws eps ⟨y, σ⟩).mulVec ((t.cross y).add (t.smul (-σ)))).add (((so3Exp eps y).act t).smul (Real.exp σ)) = t := by
  rw [rxso3Ws_eq_polyK, so3Exp_eq_coef, sim3_residual, ← Vec3.norm_sq]
  rcases hy with hy | hy
  · rcases hs with hs | hs
    · obtain ⟨g0, g1, g2⟩ := ws_coef_regime4 eps y.norm σ h0 hy hs
      exact residual_zero _ _ _ _ _ g0 g1 g2
    · subst hs
      obtain ⟨hC, e1, e2⟩ := ws_coef_regime2 eps y.norm h0 hy
      refine residual_zero _ _ _ _ _ ?_ ?_ ?_
      · rw [hC, Real.exp_zero]; ring
      · rw [hC, Real.exp_zero]; linarith
      · rw [Real.exp_zero]; linarith
  · subst hy
    exact residual_zero_y0 _ _ _ _ (ws_coef_C eps _ σ h0 hs)

theorem vadd_comm (a b : Vec3 ℝ) : a.add b = b.add a := by ext <;> lie_unfold <;> ring
theorem neg_cross (a b : Vec3 ℝ) : a.neg.cross b = (a.cross b).neg := by ext <;> lie_unfold <;> ring
theorem smul_cross (a b : Vec3 ℝ) (c : ℝ) : (a.smul c).cross b = (a.cross b).smul c := by ext <;> lie_unfold <;> ring
theorem vec_lemma (u v t p : Vec3 ℝ) (h : u.add v = t) : p.add v = t.add (p.add u.neg) := by
  rw [← h]; ext <;> lie_unfold <;> ring

/-! ## products of `polyK` matrices, `JlInv·Jl = 1`, block Jacobians -/

/-- product of two `a·1 + b·K + c·K²` matrices with the same `K = hat x` (`K³ = −‖x‖² K`) -/
theorem polyK_mul (a b c a' b' c' : ℝ) (x : Vec3 ℝ) :
    (polyK a b c x).mul (polyK a' b' c' x)
      = polyK (a * a') (a * b' + b * a' - x.normSq * (b * c' + c * b'))
          (a * c' + b * b' + c * a' - x.normSq * (c * c')) x := by
  unfold polyK; ext <;> lie_unfold <;> ring

theorem polyK_one (x : Vec3 ℝ) : polyK 1 0 0 x = Mat3.one := by
  unfold polyK; ext <;> lie_unfold <;> ring

theorem so3JlInv_eq_polyK (eps : ℝ) (x : Vec3 ℝ) :
    so3JlInv eps x = polyK 1 (-(1 / 2)) (so3JlInvCoef eps x.norm) x := by
  unfold so3JlInv; simp only [k_real, q_real, Nat.cast_one, Nat.cast_ofNat]

/-- coefficient identities behind `JlInv·Jl = 1` on the closed-form branch -/
theorem jlinv_coef_closed (eps th : ℝ) (h0 : 0 ≤ eps) (h : eps < th) (hs : Real.sin (1 / 2 * th) ≠ 0) :
    1 * (so3JlCoef eps th).1 + -(1 / 2) * 1 - th * th * (-(1 / 2) * (so3JlCoef eps th).2 + so3JlInvCoef eps th * (so3JlCoef eps th).1) = 0 ∧
    1 * (so3JlCoef eps th).2 + -(1 / 2) * (so3JlCoef eps th).1 + so3JlInvCoef eps th * 1
        - th * th * (so3JlInvCoef eps th * (so3JlCoef eps th).2) = 0 := by
  have hpos : 0 < th := lt_of_le_of_lt h0 h
  have hne : th ≠ 0 := ne_of_gt hpos
  unfold so3JlCoef so3JlInvCoef
  simp only [lt_real, h, decide_true, if_true, sin_real, cos_real, k_real, q_real, Nat.cast_one, Nat.cast_ofNat]
  rw [sin_eq_half th, cos_eq_half th]
  have hsc := Real.sin_sq_add_cos_sq (1 / 2 * th)
  set S := Real.sin (1 / 2 * th) with hS
  set C := Real.cos (1 / 2 * th) with hC
  constructor
  · field_simp; ring
  · field_simp
    linear_combination (-2 * th * S) * hsc

/-- `so3_Jl_inv(x)·so3_Jl(x) = 1` on the closed-form branch (θ > eps, sin(θ/2) ≠ 0, i.e. θ not a multiple of 2π) -/
theorem so3JlInv_mul_so3Jl (eps : ℝ) (h0 : 0 ≤ eps) (x : Vec3 ℝ) (h : eps < x.norm)
    (hs : Real.sin (1 / 2 * x.norm) ≠ 0) : (so3JlInv eps x).mul (so3Jl eps x) = Mat3.one := by
  obtain ⟨e1, e2⟩ := jlinv_coef_closed eps x.norm h0 h hs
  rw [so3JlInv_eq_polyK, so3Jl_eq_polyK, polyK_mul, ← Vec3.norm_sq, ← polyK_one x]
  congr 1 <;> first | ring1 | linear_combination e1 | linear_combination e2

theorem so3Jl_mul_so3JlInv (eps : ℝ) (h0 : 0 ≤ eps) (x : Vec3 ℝ) (h : eps < x.norm)
    (hs : Real.sin (1 / 2 * x.norm) ≠ 0) : (so3Jl eps x).mul (so3JlInv eps x) = Mat3.one := by
  obtain ⟨e1, e2⟩ := jlinv_coef_closed eps x.norm h0 h hs
  rw [so3JlInv_eq_polyK, so3Jl_eq_polyK, polyK_mul, ← Vec3.norm_sq, ← polyK_one x]
  congr 1 <;> first | ring1 | linear_combination e1 | linear_combination e2

/-- at `x = 0` both matrices are the identity (any `eps ≥ 0`) -/
theorem polyK_zero (a b c : ℝ) : polyK a b c (Vec3.zero : Vec3 ℝ) = Mat3.smul a Mat3.one := by
  unfold polyK; ext <;> lie_unfold <;> ring
theorem so3Jl_zero (eps : ℝ) : so3Jl eps (Vec3.zero : Vec3 ℝ) = Mat3.one := by
  rw [so3Jl_eq_polyK, polyK_zero]; ext <;> lie_unfold <;> ring
theorem so3JlInv_zero (eps : ℝ) : so3JlInv eps (Vec3.zero : Vec3 ℝ) = Mat3.one := by
  rw [so3JlInv_eq_polyK, polyK_zero]; ext <;> lie_unfold <;> ring

/-- Taylor branch (θ ≤ eps): `JlInv·Jl = 1 − (n²/1440)·K + (−n/720 + n²/1440)·K²`, `n = θ²` — exactly -/
theorem so3JlInv_mul_so3Jl_taylor (eps : ℝ) (x : Vec3 ℝ) (h : ¬ eps < x.norm) :
    (so3JlInv eps x).mul (so3Jl eps x)
      = polyK 1 (-(x.normSq ^ 2) / 1440) (-(x.normSq) / 720 + x.normSq ^ 2 / 1440) x := by
  rw [so3JlInv_eq_polyK, so3Jl_eq_polyK, polyK_mul]
  unfold so3JlCoef so3JlInvCoef
  simp only [lt_real, h, decide_false, if_false, q_real, k_real, Nat.cast_one, Nat.cast_ofNat, Bool.false_eq_true,
    Vec3.norm_sq]
  congr 1 <;> ring

theorem Mat3.mulVec_neg (m : Mat3 ℝ) (v : Vec3 ℝ) : m.mulVec v.neg = (m.mulVec v).neg := by
  ext <;> lie_unfold <;> ring
theorem Mat3.mul_mulVec (A B : Mat3 ℝ) (v : Vec3 ℝ) : (A.mul B).mulVec v = A.mulVec (B.mulVec v) := by
  ext <;> lie_unfold <;> ring
theorem Mat3.neg_mulVec (A : Mat3 ℝ) (v : Vec3 ℝ) : A.neg.mulVec v = (A.mulVec v).neg := by
  ext <;> lie_unfold <;> ring
theorem Mat3.one_mulVec (v : Vec3 ℝ) : (Mat3.one : Mat3 ℝ).mulVec v = v := by
  ext <;> lie_unfold <;> ring

/-- block upper-triangular 6×6 times a stacked 6-vector -/
theorem block_mulVec (A B D : Mat3 ℝ) (u v : Vec3 ℝ) :
    (DMat.block A.toRows B.toRows (DMat.zero 3 3) D.toRows).mulVec (u.toList ++ v.toList)
      = ((A.mulVec u).add (B.mulVec v)).toList ++ (D.mulVec v).toList := by
  dmat_unfold
  lie_unfold
  simp only [List.cons.injEq, and_true]
  refine ⟨?_, ?_, ?_, ?_, ?_, ?_⟩ <;> ring

theorem se3Jl_mulVec (eps : ℝ) (x : se3 ℝ) (u v : Vec3 ℝ) :
    (se3Jl eps x).mulVec (u.toList ++ v.toList)
      = (((so3Jl eps x.phi).mulVec u).add ((calcQ eps x).mulVec v)).toList ++ ((so3Jl eps x.phi).mulVec v).toList := by
  unfold se3Jl; exact block_mulVec _ _ _ u v

theorem se3JlInv_mulVec (eps : ℝ) (x : se3 ℝ) (u v : Vec3 ℝ) :
    (se3JlInv eps x).mulVec (u.toList ++ v.toList)
      = (((so3JlInv eps x.phi).mulVec u).add
          ((((so3JlInv eps x.phi).mul (calcQ eps x)).mul (so3JlInv eps x.phi)).neg.mulVec v)).toList
        ++ ((so3JlInv eps x.phi).mulVec v).toList := by
  unfold se3JlInv; exact block_mulVec _ _ _ u v

/-- `se3_Jl · se3_Jl_inv = 1` and `se3_Jl_inv · se3_Jl = 1` follow from the 3×3 statement, for ANY matrix `Q`
(in particular whatever `calcQ` returns) -/
theorem se3Jl_se3JlInv_mulVec (eps : ℝ) (x : se3 ℝ) (u v : Vec3 ℝ)
    (hJ : (so3Jl eps x.phi).mul (so3JlInv eps x.phi) = Mat3.one) :
    (se3Jl eps x).mulVec ((se3JlInv eps x).mulVec (u.toList ++ v.toList)) = u.toList ++ v.toList := by
  rw [se3JlInv_mulVec, se3Jl_mulVec]
  have e : ∀ w : Vec3 ℝ, (so3Jl eps x.phi).mulVec ((so3JlInv eps x.phi).mulVec w) = w := by
    intro w; rw [← Mat3.mul_mulVec, hJ, Mat3.one_mulVec]
  rw [Mat3.mulVec_add, e, e, Mat3.neg_mulVec, Mat3.mul_mulVec, Mat3.mul_mulVec, Mat3.mulVec_neg, e]
  congr 2
  ext <;> lie_unfold <;> ring

theorem se3JlInv_se3Jl_mulVec (eps : ℝ) (x : se3 ℝ) (u v : Vec3 ℝ)
    (hJ : (so3JlInv eps x.phi).mul (so3Jl eps x.phi) = Mat3.one) :
    (se3JlInv eps x).mulVec ((se3Jl eps x).mulVec (u.toList ++ v.toList)) = u.toList ++ v.toList := by
  rw [se3Jl_mulVec, se3JlInv_mulVec]
  have e : ∀ w : Vec3 ℝ, (so3JlInv eps x.phi).mulVec ((so3Jl eps x.phi).mulVec w) = w := by
    intro w; rw [← Mat3.mul_mulVec, hJ, Mat3.one_mulVec]
  rw [Mat3.mulVec_add, e, e, Mat3.neg_mulVec, Mat3.mul_mulVec, Mat3.mul_mulVec, e]
  congr 2
  ext <;> lie_unfold <;> ring

/-! ## Rodrigues form of `matrix(Exp x)`, `Jr` -/

theorem Mat3.ext_mulVec {A B : Mat3 ℝ} (h : ∀ p, A.mulVec p = B.mulVec p) : A = B := by
  have h0 := h Vec3.e0; have h1 := h Vec3.e1; have h2 := h Vec3.e2
  simp only [Mat3.mulVec, Vec3.dot, Vec3.e0, Vec3.e1, Vec3.e2, k_real, Nat.cast_zero, Nat.cast_one, mul_one,
    mul_zero, add_zero, zero_add, Vec3.mk.injEq] at h0 h1 h2
  ext <;> simp [h0, h1, h2]

/-- Rodrigues form of the rotation matrix of the model's `Exp`, in terms of its two coefficients -/
theorem SO3matrix_so3Exp (eps : ℝ) (x : Vec3 ℝ) :
    SO3matrix (so3Exp eps x)
      = polyK 1 (2 * (so3ExpCoef eps x.norm).2 * (so3ExpCoef eps x.norm).1)
          (2 * (so3ExpCoef eps x.norm).1 * (so3ExpCoef eps x.norm).1) x := by
  apply Mat3.ext_mulVec
  intro p
  rw [SO3_matrix_mulVec, so3Exp_eq_coef, act_mk', polyK_mulVec]
  ext <;> lie_unfold <;> ring

theorem Vec3.norm_neg (x : Vec3 ℝ) : x.neg.norm = x.norm := by
  apply Vec3.norm_congr; lie_unfold; ring
theorem polyK_neg (a b c : ℝ) (x : Vec3 ℝ) : polyK a b c x.neg = polyK a (-b) c x := by
  unfold polyK; ext <;> lie_unfold <;> ring
theorem Vec3.norm_zero : (Vec3.zero : Vec3 ℝ).norm = 0 := by
  unfold Vec3.norm; lie_unfold; simp

theorem so3Jr_closed (eps : ℝ) (x : Vec3 ℝ) (h : eps < x.norm) :
    so3Jr eps x = polyK 1 (-(so3JlCoef eps x.norm).1) (so3JlCoef eps x.norm).2 x := by
  unfold so3Jr so3JlCoef
  simp only [lt_real, h, decide_true, if_true, sin_real, cos_real, k_real, Nat.cast_one]
  congr 1; ring

theorem so3Jr_small (eps : ℝ) (x : Vec3 ℝ) (h : ¬ eps < x.norm) : so3Jr eps x = Mat3.one := by
  unfold so3Jr; simp only [lt_real, h, decide_false, if_false, Bool.false_eq_true]



/-! ## list-level helpers for `+` and `Jinvp` -/
theorem block31_mulVec (A : Mat3 ℝ) (u : Vec3 ℝ) (c : ℝ) :
    (DMat.block A.toRows (DMat.zero 3 1) (DMat.zero 1 3) [[k 1]]).mulVec (u.toList ++ [c])
      = (A.mulVec u).toList ++ [c] := by
  dmat_unfold
  lie_unfold
  simp only [List.cons.injEq, and_true]
  refine ⟨?_, ?_, ?_, ?_⟩ <;> ring

theorem scaleList_append (α : ℝ) (a b : List ℝ) : scaleList α (a ++ b) = scaleList α a ++ scaleList α b := by
  simp [scaleList]
theorem scaleList_vec (α : ℝ) (a : Vec3 ℝ) : scaleList α a.toList = (a.smul α).toList := by
  simp [scaleList, Vec3.toList, Vec3.smul]
/-- adding to an algebra element is plain vector addition of the first `m` components -/
theorem alg_add_eq (x y extra : List ℝ) (h : y.length = x.length) :
    algAdd x (y ++ extra) = some (List.zipWith (· + ·) x y) := by
  unfold algAdd
  have hl : x.length ≤ (y ++ extra).length := by simp [h]
  rw [if_pos hl, ← h, List.take_left']
  · rfl
  · rfl
/-- a width-1 operand broadcasts against the components (torch addition); widths 0 and 2..m−1 are rejected -/
theorem alg_add_width_one (x : List ℝ) (c : ℝ) (h : 1 < x.length) : algAdd x [c] = some (x.map (fun v => v + c)) := by
  unfold algAdd
  have hl : ¬ x.length ≤ [c].length := by simp; omega
  rw [if_neg hl]; simp
theorem alg_add_short (x o : List ℝ) (h : o.length < x.length) (h1 : o.length ≠ 1) : algAdd x o = none := by
  unfold algAdd
  have hl : ¬ x.length ≤ o.length := by omega
  simp [hl, h1]


/-! ## histories of `+` updates -/
/-- `Exp(aₙ)·…·Exp(a₁)` for the updates `a₁, …, aₙ` in the order they are applied -/
noncomputable def expProd (eps : ℝ) (as : List (Vec3 ℝ)) : Quat ℝ :=
  as.foldl (fun P a => (so3Exp eps a).mul P) Quat.one

theorem SO3_add_history_aux (eps : ℝ) (as : List (Vec3 ℝ)) : ∀ P X : Quat ℝ,
    as.foldl (fun Y a => SO3Retr eps Y a) (P.mul X) = (as.foldl (fun P a => (so3Exp eps a).mul P) P).mul X := by
  induction as with
  | nil => intro P X; rfl
  | cons a as ih =>
    intro P X
    simp only [List.foldl_cons, SO3Retr]
    rw [← Quat.mul_assoc']
    exact ih _ X


end PP
