import Pose.Model.ExpBatch
/-! Batch-level masked scatter = item-wise branch (C01 hardening: mixed-regime batches). Mathlib-free. -/
namespace PP
variable {α : Type} [Scalar α]

theorem maskSelect_map {β γ : Type} (p : γ → Bool) (f g : γ → β) (xs : List γ) :
    maskSelect (xs.map p) (xs.map f) (xs.map g) = xs.map (fun x => if p x then f x else g x) := by
  induction xs with
  | nil => rfl
  | cons x xs ih => simp [maskSelect, ih]

theorem so3Exp_eq_ite (eps : α) (x : Vec3 α) :
    so3Exp eps x = if Scalar.lt eps x.norm then so3ExpClosed x else so3ExpTaylor x := rfl

theorem so3ExpBatch_eq_map' (eps : α) (xs : List (Vec3 α)) : so3ExpBatch eps xs = xs.map (so3Exp eps) := by
  unfold so3ExpBatch
  rw [maskSelect_map]
  apply List.map_congr_left
  intro x _
  rw [so3Exp_eq_ite]

theorem wsCoefBatch_eq_map' (eps : α) (ts : List (α × α)) :
    wsCoefBatch eps ts = ts.map (fun p => rxso3WsCoef eps p.1 p.2) := by
  unfold wsCoefBatch
  simp only [maskSelect_map]
  rw [List.zipWith_map_left, List.zipWith_map_right, List.zipWith_self]
  apply List.map_congr_left
  intro p _
  unfold rxso3WsCoef
  cases h1 : Scalar.lt eps (sabs p.2) <;> cases h2 : Scalar.lt eps p.1 <;> simp

theorem runOps_filter_changes {β : Type} (ops : List (ObjOp β)) (s : Store β) :
    runOps s ops = runOps s (ops.filter ObjOp.changes) := by
  induction ops generalizing s with
  | nil => rfl
  | cons o ops ih =>
    cases o <;> simp [runOps, List.filter, ObjOp.changes, ObjOp.step] at * <;> exact ih _

theorem deepcopy_then_setitem {β γ : Type} (f : β → γ) (s : Store β) (dst src i : Nat) (y : β) (h : dst ≠ src) :
    readObj f (runOps s [.deepcopy dst src, .setitem src i y]) dst = readObj f s src ∧
    readObj f (runOps s [.deepcopy dst src, .setitem src i y]) src = (readObj f s src).set i (f y) := by
  constructor
  · simp [runOps, ObjOp.step, readObj, h]
  · simp [runOps, ObjOp.step, readObj, h, Ne.symm h, List.map_set]
end PP
