import Pose.Wire
import Pose.Driver.Lie
import Pose.Model.Tangent
/-! Driver ops for C05: `+` / `add` / `add_` on group and algebra elements, `SO3Type.Jr`.

`<T>.add <eps> <alpha> <X…> <other…>` : `X + alpha*other` (group: `Exp((alpha*other)[:m])·X`; `other` may be longer
than the manifold dimension), `<t>.add <eps> <alpha> <x…> <other…>` : algebra `x + (alpha*other)[:m]`,
`SO3.Jr <eps> <X>` : `X.Log().Jr()`.  (`Adj`, `AdjT`, `Retr`, `Jinvp`, `so3.Jr` are Lie ops.) -/
namespace PP.Driver
open PP Wire

/-- `eps :: alpha :: X (n numbers) ++ other` -/
def addOp (n : Nat) (f : B → List B → List B → Option (List B)) : Handler := numeric fun xs =>
  match xs with
  | eps :: alpha :: rest =>
    if rest.length < n then .error "arity" else
      match f eps (rest.take n) (scaleList alpha (rest.drop n)) with
      | some r => .ok r
      | none => .error "short"
  | _ => .error "arity"

/-! `c05.add <T> <spelling> <rankX> <dimsX…> <rankO> <dimsO…> <w> <eps> <alpha> <X items…> <o rows…>` : the batched dispatch
`lieAdd`; reply `<rank> <dims…> <last> <items…>` (all as numbers) or `err short|wide|broadcast|inplaceShape`. -/

def spellingOf : String → Option AddSpelling
  | "+" => some .plus | "add" => some .add | "pp.add" => some .ppAdd | "add_" => some .addInplace
  | "pp.add_" => some .ppAddInplace | "Retr" => some .retr | "pp.Retr" => some .ppRetr | _ => none

def chunks (n : Nat) (xs : List B) : Nat → List (List B)
  | 0 => []
  | k + 1 => xs.take n :: chunks n (xs.drop n) k

def errName : AddError → String
  | .short => "short" | .wide => "wide" | .broadcast => "broadcast" | .inplaceShape => "inplaceShape"

def natTok (n : Nat) : String := BigF.toWire (Scalar.ofNat n : B)

def batchedAdd {G : Type} [Inhabited G] (m d : Nat) (retr : B → List B → G → G) (ofL : List B → G) (toL : G → List B)
    (sp : AddSpelling) (sx so : List Nat) (w : Nat) (nums : List B) : Except String String :=
  match nums with
  | eps :: alpha :: rest =>
    let nx := Batch.numel sx
    let no := Batch.numel so
    if rest.length ≠ nx * d + no * w then .error "arity" else
    let xrows := chunks d (rest.take (nx * d)) nx
    let orows := chunks w (rest.drop (nx * d)) no
    let x : Batch.T G := ⟨sx, fun k => ofL (xrows.getD k [])⟩
    let o : Batch.T (List B) := ⟨so, fun k => orows.getD k []⟩
    match lieAdd m d (retr eps) sp alpha x o w with
    | .error e => .error (errName e)
    | .ok r =>
      let items := (List.range (Batch.numel r.shape)).map (fun k => toL (r.data k))
      .ok (" ".intercalate ([natTok r.shape.length] ++ r.shape.map natTok ++ [natTok r.last] ++ [fmt items.flatten]))
  | _ => .error "arity"

def addBatchHandler : Handler := fun ts =>
  match ts with
  | ty :: spS :: rest => do
    let sp ← match spellingOf spS with | some s => pure s | none => throw "spelling"
    let rx ← nat (rest.getD 0 "")
    let sx ← nats ((rest.drop 1).take rx)
    let rest2 := rest.drop (1 + rx)
    let ro ← nat (rest2.getD 0 "")
    let so ← nats ((rest2.drop 1).take ro)
    let rest3 := rest2.drop (1 + ro)
    let w ← nat (rest3.getD 0 "")
    let xs ← nums (rest3.drop 1)
    match ty with
    | "SO3" => batchedAdd 3 4 SO3retrItem (fun l => qt l) Quat.toList sp sx so w xs
    | "SE3" => batchedAdd 6 7 SE3retrItem (fun l => toSE3 l) SE3.toList sp sx so w xs
    | "RxSO3" => batchedAdd 4 5 RxSO3retrItem (fun l => toRx l) RxSO3.toList sp sx so w xs
    | "Sim3" => batchedAdd 7 8 Sim3retrItem (fun l => toSim l) Sim3.toList sp sx so w xs
    | _ => throw "type"
  | _ => throw "arity"

def opsC05 : List (String × Handler) := [
  ("SO3.add", addOp 4 fun e x o => (SO3Add e (qt x) o).map Quat.toList),
  ("SE3.add", addOp 7 fun e x o => (SE3Add e (toSE3 x) o).map SE3.toList),
  ("RxSO3.add", addOp 5 fun e x o => (RxSO3Add e (toRx x) o).map RxSO3.toList),
  ("Sim3.add", addOp 8 fun e x o => (Sim3Add e (toSim x) o).map Sim3.toList),
  ("so3.add", addOp 3 fun _ x o => algAdd x o),
  ("se3.add", addOp 6 fun _ x o => algAdd x o),
  ("rxso3.add", addOp 4 fun _ x o => algAdd x o),
  ("sim3.add", addOp 7 fun _ x o => algAdd x o),
  ("SO3.Jr", withEps 4 fun e l => (SO3Jr e (qt l)).toList),
  ("c05.add", addBatchHandler)
]

end PP.Driver
