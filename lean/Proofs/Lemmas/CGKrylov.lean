import Mathlib.LinearAlgebra.Matrix.PosDef
import Mathlib.LinearAlgebra.Matrix.DotProduct
import Mathlib.LinearAlgebra.Dimension.Constructions
import Mathlib.LinearAlgebra.FiniteDimensional.Defs
/-!
# Exact-arithmetic finite termination of (preconditioned) conjugate gradients

Abstract Mathlib-level statement of the recurrences of `CG.forward` (`pypose/optim/solver.py`):

    z = M r;  rho = rᵀ z;  p = z (first pass)  |  p = (rho / rho_prev) p + z
    q = A p;  alpha = rho / (pᵀ q);  x += alpha p;  r -= alpha q;  rho_prev = rho

For symmetric positive definite `A` and `M` some residual `r_k`, `k ≤ n`, vanishes.
(`Proofs/Lemmas/LinSolve.lean` ties the executable model `cgStep` to `step`.)
-/
namespace PP.CGAbs
open Matrix

structure St (n : ℕ) where
  x : Fin n → ℝ
  r : Fin n → ℝ
  p : Fin n → ℝ
  rho : ℝ

variable {n : ℕ}

/-- one pass through the loop body (`first` ⇔ `iteration == 0`) -/
noncomputable def step (A M : Matrix (Fin n) (Fin n) ℝ) (first : Bool) (s : St n) : St n :=
  let z := M *ᵥ s.r
  let rho := s.r ⬝ᵥ z
  let p := if first then z else (rho / s.rho) • s.p + z
  let q := A *ᵥ p
  let alpha := rho / (p ⬝ᵥ q)
  ⟨s.x + alpha • p, s.r - alpha • q, p, rho⟩

/-- state after `k` passes, started at `x0` -/
noncomputable def seq (A M : Matrix (Fin n) (Fin n) ℝ) (b x0 : Fin n → ℝ) : ℕ → St n
  | 0 => ⟨x0, b - A *ᵥ x0, 0, 0⟩
  | k+1 => step A M (k == 0) (seq A M b x0 k)

/-! ## helpers -/

/-- over `ℝ` a Hermitian matrix gives a symmetric bilinear form -/
theorem dot_mulVec_symm {A : Matrix (Fin n) (Fin n) ℝ} (hA : A.IsHermitian) (u v : Fin n → ℝ) :
    u ⬝ᵥ A *ᵥ v = v ⬝ᵥ A *ᵥ u := by
  have hT : Aᵀ = A := by
    have := hA.eq
    rwa [conjTranspose_eq_transpose_of_trivial] at this
  rw [dotProduct_mulVec, ← mulVec_transpose, hT, dotProduct_comm]

theorem posDef_dot_pos {A : Matrix (Fin n) (Fin n) ℝ} (hA : A.PosDef) {x : Fin n → ℝ}
    (hx : x ≠ 0) : 0 < x ⬝ᵥ A *ᵥ x := by
  have := hA.dotProduct_mulVec_pos hx
  rwa [star_trivial] at this

/-- The conjugate-gradient invariant at the level of the scalar products
`a i j = pᵢᵀ A pⱼ`, `c i j = pᵢᵀ rⱼ`, `g i j = rᵢᵀ M rⱼ`, `w i j = pᵢᵀ A M rⱼ`. -/
theorem scalar_inv (a c g w : ℕ → ℕ → ℝ)
    (R1 : ∀ i j, c i (j+1) = c i j - (g j j / a j j) * a i j)
    (R2 : ∀ i j, c (i+1) j = g (i+1) j + (g (i+1) (i+1) / g i i) * c i j)
    (R20 : ∀ j, c 0 j = g 0 j)
    (R3 : ∀ i j, a i (j+1) = w i (j+1) + (g (j+1) (j+1) / g j j) * a i j)
    (R4 : ∀ i j, (g i i / a i i) * w i j = g i j - g (i+1) j)
    (pos : ∀ j, c j j ≠ 0 → 0 < a j j) :
    ∀ k, (∀ j ≤ k, 0 < g j j) →
      (∀ i j, i < j → j ≤ k → c i j = 0) ∧ (∀ j, j ≤ k → c j j = g j j) ∧
      (∀ i j, i < j → j ≤ k → g i j = 0) ∧ (∀ i j, i < j → j ≤ k → a i j = 0) ∧
      (∀ j, j ≤ k → 0 < a j j) := by
  intro k
  induction k with
  | zero =>
    intro hg
    have h00 : c 0 0 = g 0 0 := R20 0
    refine ⟨?_, ?_, ?_, ?_, ?_⟩
    · intro i j hij hj; omega
    · intro j hj
      obtain rfl : j = 0 := by omega
      exact h00
    · intro i j hij hj; omega
    · intro i j hij hj; omega
    · intro j hj
      obtain rfl : j = 0 := by omega
      apply pos
      rw [h00]
      exact (hg 0 le_rfl).ne'
  | succ k ih =>
    intro hg
    obtain ⟨hc, hd, hga, hb, he⟩ := ih (fun j hj => hg j (by omega))
    have hck : ∀ i, i < k+1 → c i (k+1) = 0 := by
      intro i hi
      rw [R1]
      rcases Nat.lt_succ_iff_lt_or_eq.mp hi with h | rfl
      · rw [hc i k h le_rfl, hb i k h le_rfl]; ring
      · rw [hd i le_rfl]
        have := (he i le_rfl).ne'
        field_simp
        ring
    have hgk : ∀ i, i < k+1 → g i (k+1) = 0 := by
      intro i hi
      cases i with
      | zero => rw [← R20]; exact hck 0 hi
      | succ i =>
        have := R2 i (k+1)
        rw [hck (i+1) hi, hck i (by omega)] at this
        linarith
    have hdk : c (k+1) (k+1) = g (k+1) (k+1) := by
      rw [R2, hck k (by omega)]; ring
    have hbk : ∀ i, i < k+1 → a i (k+1) = 0 := by
      intro i hi
      have hai := (he i (by omega)).ne'
      have hgi := (hg i (by omega)).ne'
      have h4 := R4 i (k+1)
      rw [R3]
      rcases Nat.lt_succ_iff_lt_or_eq.mp hi with h | rfl
      · rw [hgk i hi, hgk (i+1) (by omega)] at h4
        have hw : w i (k+1) = 0 := by
          have h5 : g i i / a i i ≠ 0 := div_ne_zero hgi hai
          rcases mul_eq_zero.mp (by linarith : g i i / a i i * w i (k+1) = 0) with h6 | h6
          · exact absurd h6 h5
          · exact h6
        rw [hw, hb i k h le_rfl]; ring
      · rw [hgk i hi] at h4
        have hw : w i (i+1) = - g (i+1) (i+1) * a i i / g i i := by
          field_simp at h4 ⊢
          linarith
        rw [hw]
        field_simp
        ring
    have hek : 0 < a (k+1) (k+1) := by
      apply pos
      rw [hdk]
      exact (hg (k+1) le_rfl).ne'
    refine ⟨?_, ?_, ?_, ?_, ?_⟩
    · intro i j hij hj
      rcases Nat.lt_succ_iff_lt_or_eq.mp (Nat.lt_succ_of_le hj) with h | rfl
      · exact hc i j hij (by omega)
      · exact hck i hij
    · intro j hj
      rcases Nat.lt_succ_iff_lt_or_eq.mp (Nat.lt_succ_of_le hj) with h | rfl
      · exact hd j (by omega)
      · exact hdk
    · intro i j hij hj
      rcases Nat.lt_succ_iff_lt_or_eq.mp (Nat.lt_succ_of_le hj) with h | rfl
      · exact hga i j hij (by omega)
      · exact hgk i hij
    · intro i j hij hj
      rcases Nat.lt_succ_iff_lt_or_eq.mp (Nat.lt_succ_of_le hj) with h | rfl
      · exact hb i j hij (by omega)
      · exact hbk i hij
    · intro j hj
      rcases Nat.lt_succ_iff_lt_or_eq.mp (Nat.lt_succ_of_le hj) with h | rfl
      · exact he j (by omega)
      · exact hek

/-- The conjugate-gradient invariant for abstract residual / direction sequences `R`, `P`
satisfying the CG recurrences, as long as the residuals `R 0, …, R k` are nonzero. -/
theorem vec_inv {A M : Matrix (Fin n) (Fin n) ℝ} (hA : A.PosDef) (hM : M.PosDef)
    (R P : ℕ → Fin n → ℝ)
    (hP0 : P 0 = M *ᵥ R 0)
    (hP : ∀ k, P (k+1) =
      ((R (k+1) ⬝ᵥ M *ᵥ R (k+1)) / (R k ⬝ᵥ M *ᵥ R k)) • P k + M *ᵥ R (k+1))
    (hR : ∀ k, R (k+1) = R k - ((R k ⬝ᵥ M *ᵥ R k) / (P k ⬝ᵥ A *ᵥ P k)) • A *ᵥ P k)
    (k : ℕ) (hne : ∀ j ≤ k, R j ≠ 0) :
    (∀ i j, i < j → j ≤ k → P i ⬝ᵥ R j = 0) ∧
    (∀ j, j ≤ k → P j ⬝ᵥ R j = R j ⬝ᵥ M *ᵥ R j) ∧
    (∀ i j, i < j → j ≤ k → R i ⬝ᵥ M *ᵥ R j = 0) ∧
    (∀ i j, i < j → j ≤ k → P i ⬝ᵥ A *ᵥ P j = 0) ∧
    (∀ j, j ≤ k → 0 < P j ⬝ᵥ A *ᵥ P j) := by
  have symA := dot_mulVec_symm hA.isHermitian
  have symM := dot_mulVec_symm hM.isHermitian
  refine scalar_inv (fun i j => P i ⬝ᵥ A *ᵥ P j) (fun i j => P i ⬝ᵥ R j)
    (fun i j => R i ⬝ᵥ M *ᵥ R j) (fun i j => P i ⬝ᵥ A *ᵥ (M *ᵥ R j)) ?_ ?_ ?_ ?_ ?_ ?_ k ?_
  · intro i j
    conv_lhs => rw [hR j]
    rw [dotProduct_sub, dotProduct_smul, smul_eq_mul]
  · intro i j
    conv_lhs => rw [hP i]
    rw [add_dotProduct, smul_dotProduct, smul_eq_mul, dotProduct_comm (M *ᵥ R (i+1)) (R j),
      symM (R j) (R (i+1))]
    ring
  · intro j
    rw [hP0, dotProduct_comm, symM]
  · intro i j
    conv_lhs => rw [hP j]
    rw [mulVec_add, mulVec_smul, dotProduct_add, dotProduct_smul, smul_eq_mul]
    ring
  · intro i j
    conv_rhs => rw [hR i]
    rw [sub_dotProduct, smul_dotProduct, smul_eq_mul, dotProduct_comm (A *ᵥ P i) (M *ᵥ R j),
      symA (M *ᵥ R j) (P i)]
    ring
  · intro j hj
    apply posDef_dot_pos hA
    rintro h0
    rw [h0, zero_dotProduct] at hj
    exact hj rfl
  · intro j hj
    exact posDef_dot_pos hM (hne j hj)

/-- `n+1` vectors in `ℝⁿ`, pairwise orthogonal for a positive definite form, cannot all be
nonzero. -/
theorem exists_zero_of_orth {M : Matrix (Fin n) (Fin n) ℝ} (hM : M.PosDef)
    (R : ℕ → Fin n → ℝ) (horth : ∀ i j, i < j → j ≤ n → R i ⬝ᵥ M *ᵥ R j = 0) :
    ∃ k, k ≤ n ∧ R k = 0 := by
  by_contra hcon
  push Not at hcon
  have symM := dot_mulVec_symm hM.isHermitian
  have hli : LinearIndependent ℝ (fun i : Fin (n+1) => R i) := by
    rw [Fintype.linearIndependent_iff]
    intro c hc j
    have h1 : (∑ i, c i • R i) ⬝ᵥ M *ᵥ R j = 0 := by rw [hc, zero_dotProduct]
    rw [sum_dotProduct, Finset.sum_eq_single j] at h1
    · rw [smul_dotProduct, smul_eq_mul] at h1
      have := posDef_dot_pos hM (hcon j (by omega))
      rcases mul_eq_zero.mp h1 with h | h
      · exact h
      · linarith
    · intro i _ hij
      rw [smul_dotProduct, smul_eq_mul]
      have : R i ⬝ᵥ M *ᵥ R j = 0 := by
        rcases lt_or_gt_of_ne hij with h | h
        · exact horth i j h (by omega)
        · rw [symM]; exact horth j i h (by omega)
      rw [this, mul_zero]
    · intro h; exact absurd (Finset.mem_univ j) h
  have := hli.fintype_card_le_finrank
  simp at this

/-! ## the recurrences satisfied by `seq` -/

section
variable (A M : Matrix (Fin n) (Fin n) ℝ) (b x0 : Fin n → ℝ)

theorem seq_rho_succ (k : ℕ) :
    (seq A M b x0 (k+1)).rho = (seq A M b x0 k).r ⬝ᵥ M *ᵥ (seq A M b x0 k).r := rfl

theorem seq_r_succ (k : ℕ) :
    (seq A M b x0 (k+1)).r = (seq A M b x0 k).r -
      (((seq A M b x0 k).r ⬝ᵥ M *ᵥ (seq A M b x0 k).r) /
        ((seq A M b x0 (k+1)).p ⬝ᵥ A *ᵥ (seq A M b x0 (k+1)).p)) •
        A *ᵥ (seq A M b x0 (k+1)).p := rfl

theorem seq_x_succ (k : ℕ) :
    (seq A M b x0 (k+1)).x = (seq A M b x0 k).x +
      (((seq A M b x0 k).r ⬝ᵥ M *ᵥ (seq A M b x0 k).r) /
        ((seq A M b x0 (k+1)).p ⬝ᵥ A *ᵥ (seq A M b x0 (k+1)).p)) •
        (seq A M b x0 (k+1)).p := rfl

theorem seq_p_one : (seq A M b x0 1).p = M *ᵥ (seq A M b x0 0).r := by
  simp [seq, step]

theorem seq_p_succ_succ (k : ℕ) :
    (seq A M b x0 (k+2)).p =
      (((seq A M b x0 (k+1)).r ⬝ᵥ M *ᵥ (seq A M b x0 (k+1)).r) /
        ((seq A M b x0 k).r ⬝ᵥ M *ᵥ (seq A M b x0 k).r)) • (seq A M b x0 (k+1)).p +
        M *ᵥ (seq A M b x0 (k+1)).r := by
  show (step A M (k+1 == 0) (seq A M b x0 (k+1))).p = _
  have h : (k+1 == 0) = false := by simp
  rw [h]
  rfl

/-- the `r` component is the true residual of the `x` component -/
theorem cg_residual_eq (k : ℕ) :
    (seq A M b x0 k).r = b - A *ᵥ (seq A M b x0 k).x := by
  induction k with
  | zero => rfl
  | succ k ih =>
    rw [seq_r_succ, seq_x_succ, mulVec_add, mulVec_smul, ih]
    abel

end

/-- the full CG invariant for `seq`, as long as the residuals before passes `0..k` are nonzero -/
theorem cg_invariant {A M : Matrix (Fin n) (Fin n) ℝ} (hA : A.PosDef) (hM : M.PosDef)
    (b x0 : Fin n → ℝ) (k : ℕ) (hne : ∀ j ≤ k, (seq A M b x0 j).r ≠ 0) :
    (∀ i j, i < j → j ≤ k → (seq A M b x0 (i+1)).p ⬝ᵥ (seq A M b x0 j).r = 0) ∧
    (∀ j, j ≤ k → (seq A M b x0 (j+1)).p ⬝ᵥ (seq A M b x0 j).r =
      (seq A M b x0 j).r ⬝ᵥ M *ᵥ (seq A M b x0 j).r) ∧
    (∀ i j, i < j → j ≤ k → (seq A M b x0 i).r ⬝ᵥ M *ᵥ (seq A M b x0 j).r = 0) ∧
    (∀ i j, i < j → j ≤ k →
      (seq A M b x0 (i+1)).p ⬝ᵥ A *ᵥ (seq A M b x0 (j+1)).p = 0) ∧
    (∀ j, j ≤ k → 0 < (seq A M b x0 (j+1)).p ⬝ᵥ A *ᵥ (seq A M b x0 (j+1)).p) :=
  vec_inv hA hM (fun k => (seq A M b x0 k).r) (fun k => (seq A M b x0 (k+1)).p)
    (seq_p_one A M b x0) (seq_p_succ_succ A M b x0) (seq_r_succ A M b x0) k hne

/-- **No breakdown before convergence**: while the residuals are nonzero, `rho` and the
denominator `pᵀ A p` of the pass are strictly positive. -/
theorem cg_no_breakdown (A M : Matrix (Fin n) (Fin n) ℝ) (hA : A.PosDef) (hM : M.PosDef)
    (b x0 : Fin n → ℝ) (k : ℕ) (hne : ∀ j ≤ k, (seq A M b x0 j).r ≠ 0) :
    0 < (seq A M b x0 (k+1)).rho ∧
      0 < (seq A M b x0 (k+1)).p ⬝ᵥ A *ᵥ (seq A M b x0 (k+1)).p :=
  ⟨posDef_dot_pos hM (hne k le_rfl), (cg_invariant hA hM b x0 k hne).2.2.2.2 k le_rfl⟩

/-- **Finite termination**: for SPD `A` and SPD preconditioner `M` the residual recurrence reaches `0`
after at most `n` passes (in exact arithmetic). -/
theorem cg_exact_termination (A M : Matrix (Fin n) (Fin n) ℝ) (hA : A.PosDef) (hM : M.PosDef)
    (b x0 : Fin n → ℝ) : ∃ k, k ≤ n ∧ (seq A M b x0 k).r = 0 := by
  by_contra hcon
  push Not at hcon
  obtain ⟨k, hk, hz⟩ := exists_zero_of_orth hM (fun k => (seq A M b x0 k).r)
    (cg_invariant hA hM b x0 n hcon).2.2.1
  exact hcon k hk hz

end PP.CGAbs
