import Pose.Wire
import Pose.Driver.Lie
import Pose.Model.LogExp
/-!
# Driver ops for C02 (Log is the principal inverse of Exp)

`<Type>.<op> <eps> nums…` in PyPose storage order, like the ops of `Pose/Driver/Lie.lean`.
Single `Log` / `Exp` / `Inv` / `rxso3.Ws` / `so3.JlInv` are served by `opsLie`; here are the compositions
the property is about, the regime classifiers and the determinant guard of `Sim3_Log`.
-/
namespace PP.Driver
open PP Wire

def nat1 (n : Nat) : List B := [BigF.ofNat n]

def opsC02 : List (String × Handler) := [
  -- Exp ∘ Log
  ("SO3.ExpLog", withEps 4 fun e l => (SO3ExpLog e (qt l)).toList),
  ("SE3.ExpLog", withEps 7 fun e l => (SE3ExpLog e (toSE3 l)).toList),
  ("RxSO3.ExpLog", withEps 5 fun e l => (RxSO3ExpLog e (toRx l)).toList),
  ("Sim3.ExpLog", withEps 8 fun e l => (Sim3ExpLog e (toSim l)).toList),
  -- Log ∘ Exp
  ("so3.LogExp", withEps 3 fun e l => (so3LogExp e (v3 l)).toList),
  ("se3.LogExp", withEps 6 fun e l => (se3LogExp e (tose3 l)).toList),
  ("rxso3.LogExp", withEps 4 fun e l => (rxso3LogExp e (torx l)).toList),
  ("sim3.LogExp", withEps 7 fun e l => (sim3LogExp e (tosim l)).toList),
  -- Log of the element with the negated quaternion
  ("SO3.LogNeg", withEps 4 fun e l => (SO3LogNeg e (qt l)).toList),
  ("SE3.LogNeg", withEps 7 fun e l => (SE3LogNeg e (toSE3 l)).toList),
  ("RxSO3.LogNeg", withEps 5 fun e l => (RxSO3LogNeg e (toRx l)).toList),
  ("Sim3.LogNeg", withEps 8 fun e l => (Sim3LogNeg e (toSim l)).toList),
  -- Log of the inverse
  ("SO3.LogInv", withEps 4 fun e l => (SO3LogInv e (qt l)).toList),
  ("SE3.LogInv", withEps 7 fun e l => (SE3LogInv e (toSE3 l)).toList),
  ("RxSO3.LogInv", withEps 5 fun e l => (RxSO3LogInv e (toRx l)).toList),
  ("Sim3.LogInv", withEps 8 fun e l => (Sim3LogInv e (toSim l)).toList),
  -- regimes / guard
  ("SO3.LogRegime", withEps 4 fun e l => nat1 (so3LogRegime e (qt l))),
  ("rxso3.WsRegime", withEps 2 fun e l => nat1 (rxso3WsRegime e (l.getD 0 default) (l.getD 1 default))),
  ("Sim3.LogDet", withEps 8 fun e l => [sim3LogDet e (toSim l)]),
  ("rxso3.WsInv", withEps 4 fun e l => (rxso3Ws e (torx l)).inv.toList)
]

end PP.Driver
