import Pose.Wire
/-! Driver ops for C20. -/
namespace PP.Driver
open PP Wire

def opsC20 : List (String × Handler) := []

end PP.Driver
