import Proofs.Lemmas.Tangent
import Mathlib.Analysis.SpecialFunctions.Trigonometric.Deriv
import Mathlib.Analysis.SpecialFunctions.Sqrt
/-!
# C05, derivative form of `Jr`: calculus along the line `x + t d` (norm, half-angle sine / cosine, the generic
component `a·cos(θ_t/2) + Σ bᵢ (xᵢ + t dᵢ) sin(θ_t/2)/θ_t`), eventual branch selection of `so3Exp`.
-/
set_option linter.unusedSimpArgs false
namespace PP
open Vec3 Quat Mat3

/-- squared norm along the line `x + t d` -/
noncomputable def lineN (x d : Vec3 ℝ) (t : ℝ) : ℝ := (x.add (d.smul t)).normSq

theorem lineN_eq (x d : Vec3 ℝ) :
    lineN x d = fun t : ℝ => (x.x + t * d.x) * (x.x + t * d.x) + (x.y + t * d.y) * (x.y + t * d.y)
      + (x.z + t * d.z) * (x.z + t * d.z) := by
  funext t; unfold lineN; lie_unfold

theorem lineN_hasDerivAt (x d : Vec3 ℝ) : HasDerivAt (lineN x d) (2 * x.dot d) 0 := by
  have h1 : ∀ a b : ℝ, HasDerivAt (fun t : ℝ => a + t * b) b 0 := by
    intro a b
    simpa using ((hasDerivAt_id (0 : ℝ)).mul_const b).const_add a
  have hx := h1 x.x d.x; have hy := h1 x.y d.y; have hz := h1 x.z d.z
  have := ((hx.mul hx).add (hy.mul hy)).add (hz.mul hz)
  rw [lineN_eq]
  refine HasDerivAt.congr_deriv this ?_
  lie_unfold; ring

theorem lineTheta_hasDerivAt (x d : Vec3 ℝ) (hpos : 0 < x.norm) :
    HasDerivAt (fun t => (x.add (d.smul t)).norm) (x.dot d / x.norm) 0 := by
  have hN := lineN_hasDerivAt x d
  have h0 : lineN x d 0 = x.normSq := by unfold lineN; lie_unfold; ring
  have hne : lineN x d 0 ≠ 0 := by
    rw [h0, ← Vec3.norm_sq]; positivity
  have h2 := hN.sqrt hne
  have hs : Real.sqrt (lineN x d 0) = x.norm := by rw [h0]; rfl
  rw [hs] at h2
  have e : (fun t => (x.add (d.smul t)).norm) = fun t => Real.sqrt (lineN x d t) := rfl
  rw [e]
  refine HasDerivAt.congr_deriv h2 ?_
  field_simp

theorem line_at_zero (x d : Vec3 ℝ) : (x.add (d.smul (0 : ℝ))).norm = x.norm := by
  apply Vec3.norm_congr; lie_unfold; ring

/-- derivative at `t = 0` of `a·cos(θ_t/2) + Σ bᵢ (xᵢ + t dᵢ)·sin(θ_t/2)/θ_t`, `θ_t = ‖x + t d‖` -/
theorem comp_hasDerivAt (x d : Vec3 ℝ) (hpos : 0 < x.norm) (a b1 b2 b3 : ℝ) :
    HasDerivAt
      (fun t : ℝ => a * Real.cos (1 / 2 * (x.add (d.smul t)).norm)
        + b1 * ((x.x + t * d.x) * (Real.sin (1 / 2 * (x.add (d.smul t)).norm) / (x.add (d.smul t)).norm))
        + b2 * ((x.y + t * d.y) * (Real.sin (1 / 2 * (x.add (d.smul t)).norm) / (x.add (d.smul t)).norm))
        + b3 * ((x.z + t * d.z) * (Real.sin (1 / 2 * (x.add (d.smul t)).norm) / (x.add (d.smul t)).norm)))
      (a * (-Real.sin (1 / 2 * x.norm) * (1 / 2 * (x.dot d / x.norm)))
        + b1 * (d.x * (Real.sin (1 / 2 * x.norm) / x.norm) + x.x *
            ((Real.cos (1 / 2 * x.norm) * (1 / 2 * (x.dot d / x.norm)) * x.norm
              - Real.sin (1 / 2 * x.norm) * (x.dot d / x.norm)) / x.norm ^ 2))
        + b2 * (d.y * (Real.sin (1 / 2 * x.norm) / x.norm) + x.y *
            ((Real.cos (1 / 2 * x.norm) * (1 / 2 * (x.dot d / x.norm)) * x.norm
              - Real.sin (1 / 2 * x.norm) * (x.dot d / x.norm)) / x.norm ^ 2))
        + b3 * (d.z * (Real.sin (1 / 2 * x.norm) / x.norm) + x.z *
            ((Real.cos (1 / 2 * x.norm) * (1 / 2 * (x.dot d / x.norm)) * x.norm
              - Real.sin (1 / 2 * x.norm) * (x.dot d / x.norm)) / x.norm ^ 2))) 0 := by
  have hne : x.norm ≠ 0 := ne_of_gt hpos
  have hθ := lineTheta_hasDerivAt x d hpos
  have h00 := line_at_zero x d
  have h1 : ∀ a b : ℝ, HasDerivAt (fun t : ℝ => a + t * b) b 0 := by
    intro a b
    simpa using ((hasDerivAt_id (0 : ℝ)).mul_const b).const_add a
  have hhalf := hθ.const_mul (1 / 2 : ℝ)
  have hS := hhalf.sin
  have hC := hhalf.cos
  have hne0 : (x.add (d.smul (0 : ℝ))).norm ≠ 0 := by rw [h00]; exact hne
  have hs := hS.div hθ hne0
  have hv1 := (h1 x.x d.x).mul hs
  have hv2 := (h1 x.y d.y).mul hs
  have hv3 := (h1 x.z d.z).mul hs
  have H := (((hC.const_mul a).add (hv1.const_mul b1)).add (hv2.const_mul b2)).add (hv3.const_mul b3)
  simp only [Pi.div_apply, h00] at H
  refine HasDerivAt.congr_deriv H ?_
  simp only [zero_mul, add_zero]

/-- near `t = 0` the closed-form branch of `so3Exp` is taken along `x + t d` when `eps < ‖x‖` -/
theorem line_eventually (eps : ℝ) (x d : Vec3 ℝ) (hpos : 0 < x.norm) (h : eps < x.norm) :
    ∀ᶠ t in nhds (0 : ℝ), eps < (x.add (d.smul t)).norm := by
  have hc : ContinuousAt (fun t => (x.add (d.smul t)).norm) 0 := (lineTheta_hasDerivAt x d hpos).continuousAt
  have : eps < (fun t => (x.add (d.smul t)).norm) 0 := by simpa [line_at_zero x d] using h
  exact hc.eventually (lt_mem_nhds this)

theorem so3Exp_closed (eps : ℝ) (y : Vec3 ℝ) (h : eps < y.norm) :
    so3Exp eps y = Quat.mk' (y.smul (Real.sin (1 / 2 * y.norm) / y.norm)) (Real.cos (1 / 2 * y.norm)) := by
  rw [so3Exp_eq_coef]; unfold so3ExpCoef; rw [if_pos h]


theorem smul_norm_continuous (d : Vec3 ℝ) : Continuous (fun t : ℝ => (d.smul t).norm) := by
  unfold Vec3.norm
  simp only [sqrt_real]
  apply Real.continuous_sqrt.comp
  lie_unfold
  fun_prop


end PP
