import Proofs.Lemmas.AlignMore
import Mathlib.Topology.MetricSpace.ProperSpace
import Mathlib.Topology.Order.Compact
import Mathlib.Topology.MetricSpace.Bounded
import Mathlib.Analysis.Normed.Group.Basic
import Mathlib.Topology.Instances.Real.Lemmas
import Mathlib.Tactic.FunProp
import Mathlib.Topology.Algebra.Monoid
/-!
# A witness for `AlignOk` that needs no SVD: an optimal aligner exists by compactness of the unit quaternions
-/
namespace PP.C17
open PP Vec3 Quat Mat3 Align


/-- quaternion of a point of ℝ⁴ -/
def quatOf (v : ℝ × ℝ × ℝ × ℝ) : Quat ℝ := ⟨v.1, v.2.1, v.2.2.1, v.2.2.2⟩

/-- the pairing `⟨R(q), M⟩` is a polynomial in the components of `q` -/
theorem frob_SO3matrix_poly (q : Quat ℝ) (M : Mat3 ℝ) :
    Mat3.frob (SO3matrix q) M =
      (1 - 2 * (q.y * q.y + q.z * q.z)) * M.r0.x + (2 * (q.x * q.y - q.w * q.z)) * M.r0.y + (2 * (q.x * q.z + q.w * q.y)) * M.r0.z
      + (2 * (q.x * q.y + q.w * q.z)) * M.r1.x + (1 - 2 * (q.x * q.x + q.z * q.z)) * M.r1.y + (2 * (q.y * q.z - q.w * q.x)) * M.r1.z
      + (2 * (q.x * q.z - q.w * q.y)) * M.r2.x + (2 * (q.y * q.z + q.w * q.x)) * M.r2.y + (1 - 2 * (q.x * q.x + q.y * q.y)) * M.r2.z := by
  unfold SO3matrix; simp only [Mat3.frob]; lie_unfold; ring

theorem continuous_pairing (M : Mat3 ℝ) : Continuous fun v : ℝ × ℝ × ℝ × ℝ => Mat3.frob (SO3matrix (quatOf v)) M := by
  simp only [frob_SO3matrix_poly, quatOf]
  fun_prop

theorem isCompact_unitQuat : IsCompact {v : ℝ × ℝ × ℝ × ℝ | (quatOf v).normSq = 1} := by
  apply Metric.isCompact_of_isClosed_isBounded
  · have hc : Continuous fun v : ℝ × ℝ × ℝ × ℝ => (quatOf v).normSq := by
      simp only [quatOf, Quat.normSq]; fun_prop
    exact isClosed_eq hc continuous_const
  · rw [Metric.isBounded_iff_subset_closedBall (0 : ℝ × ℝ × ℝ × ℝ)]
    refine ⟨1, ?_⟩
    intro v hv
    simp only [Set.mem_ofPred_eq, quatOf, Quat.normSq] at hv
    rw [mem_closedBall_zero_iff]
    have b1 : |v.1| ≤ 1 := by rw [abs_le]; constructor <;> nlinarith [mul_self_nonneg v.1, mul_self_nonneg v.2.1, mul_self_nonneg v.2.2.1, mul_self_nonneg v.2.2.2]
    have b2 : |v.2.1| ≤ 1 := by rw [abs_le]; constructor <;> nlinarith [mul_self_nonneg v.1, mul_self_nonneg v.2.1, mul_self_nonneg v.2.2.1, mul_self_nonneg v.2.2.2]
    have b3 : |v.2.2.1| ≤ 1 := by rw [abs_le]; constructor <;> nlinarith [mul_self_nonneg v.1, mul_self_nonneg v.2.1, mul_self_nonneg v.2.2.1, mul_self_nonneg v.2.2.2]
    have b4 : |v.2.2.2| ≤ 1 := by rw [abs_le]; constructor <;> nlinarith [mul_self_nonneg v.1, mul_self_nonneg v.2.1, mul_self_nonneg v.2.2.1, mul_self_nonneg v.2.2.2]
    simp only [Prod.norm_def, Real.norm_eq_abs]
    exact max_le b1 (max_le b2 (max_le b3 b4))

/-- **a maximiser of the pairing exists among the unit quaternions** (compactness of S³) — no SVD involved -/
theorem exists_pairing_maximiser (M : Mat3 ℝ) :
    ∃ q : Quat ℝ, q.normSq = 1 ∧ ∀ q' : Quat ℝ, q'.normSq = 1 → Mat3.frob (SO3matrix q') M ≤ Mat3.frob (SO3matrix q) M := by
  have hne : ({v : ℝ × ℝ × ℝ × ℝ | (quatOf v).normSq = 1}).Nonempty := ⟨(0, 0, 0, 1), by simp [quatOf, Quat.normSq]⟩
  obtain ⟨v, hv, hmax⟩ := isCompact_unitQuat.exists_isMaxOn hne (continuous_pairing M).continuousOn
  refine ⟨quatOf v, hv, ?_⟩
  intro q' hq'
  have := hmax (show (q'.x, q'.y, q'.z, q'.w) ∈ {v : ℝ × ℝ × ℝ × ℝ | (quatOf v).normSq = 1} by simpa [quatOf] using hq')
  simpa [quatOf] using this

/-- an optimal aligner chosen by compactness (noncomputable): the witness that `AlignOk` is satisfiable without any
hypothesis on an SVD kernel -/
noncomputable def idealAlign (ps : Pairs ℝ) : SE3 ℝ :=
  let q := Classical.choose (exists_pairing_maximiser (crossCov (centered ps)))
  ⟨(mean (tgts ps)).sub ((SO3matrix q).mulVec (mean (srcs ps))), q⟩

theorem idealAlign_ok : AlignOk idealAlign := by
  refine ⟨fun ps => (Classical.choose_spec (exists_pairing_maximiser (crossCov (centered ps)))).1, ?_⟩
  intro ps X' hX'
  obtain ⟨hq, hmax⟩ := Classical.choose_spec (exists_pairing_maximiser (crossCov (centered ps)))
  have hA : idealAlign ps = ⟨(mean (tgts ps)).sub ((SO3matrix (Classical.choose (exists_pairing_maximiser (crossCov (centered ps))))).mulVec
      (mean (srcs ps))), Classical.choose (exists_pairing_maximiser (crossCov (centered ps)))⟩ := rfl
  rw [hA]
  generalize Classical.choose (exists_pairing_maximiser (crossCov (centered ps))) = qs at hq hmax ⊢
  have hrot := isRot_SO3matrix _ hq
  have hrot' := isRot_SO3matrix _ hX'
  rw [SE3Act_eq_affine, SE3Act_eq_affine X', cost_affine_centered, cost_affine_centered, cost_expand _ hrot.1, cost_expand _ hrot'.1]
  have h0 : ((((SO3matrix qs).mulVec (mean (srcs ps))).add ((mean (tgts ps)).sub ((SO3matrix qs).mulVec (mean (srcs ps))))).sub
      (mean (tgts ps))).normSq = 0 := by lie_unfold; ring
  simp only [h0]
  have h1 := hmax X'.q hX'
  have h2 : 0 ≤ (ps.length : ℝ) * ((((SO3matrix X'.q).mulVec (mean (srcs ps))).add X'.t).sub (mean (tgts ps))).normSq :=
    mul_nonneg (Nat.cast_nonneg _) (Align.normSq_nonneg _)
  linarith


end PP.C17
